/-
C07 — the whole output of a run as a function of the command line and the seed (`Cli/Run.lean`).
-/
import CnfgenModel.Cli.Run
namespace Cnfgen.C07
open Cnfgen.Cli Cnfgen.CliRun Cnfgen.GenPh

/-- the shape of a table that `runTable_deterministic` needs: the first event is the parsing of the command line
and the `--seed` action seeds the generator -/
def seedsWhileParsing (t : ToolPhases) : Bool :=
  match t.events, t.seedOpt with
  | .parse _ :: _, some o => o.seeds
  | _, _ => false

theorem stepParse_independent_of_state (σ : Int → Rng) (w : World) (t : ToolPhases) (argv : List String)
    (o : SeedOpt) (ho : t.seedOpt = some o) (hseeds : o.seeds = true) (s : Int) (hs : seedOf argv = some s)
    (r₁ r₂ : Rng) : stepParse σ w t argv { rng := r₁ } = stepParse σ w t argv { rng := r₂ } := by
  unfold stepParse
  unfold seedOf at hs
  split
  · rfl
  cases hp : parseTop (argv.length + 1) (parseCommandLine argv).1 {} with
  | error e => rfl
  | ok top =>
    rw [hp] at hs
    simp only at hs
    simp only [ho, hs, hseeds, if_true]

/-- T-C07.3 (general) for every table whose `--seed` action seeds while parsing: with a seed on the command line the
WHOLE outcome of the run — the text written, or the kind of failure, and the number of answers consumed from the
generator — does not depend on the state the generator had when the process started.  For every `σ`
(whatever `random.seed` does, as long as it is a function of the seed), every world, every command line. -/
theorem runTable_deterministic (σ : Int → Rng) (w : World) (t : ToolPhases) (ht : seedsWhileParsing t = true)
    (argv : List String) (s : Int) (hs : seedOf argv = some s) (r₁ r₂ : Rng) :
    runTable σ w t argv r₁ = runTable σ w t argv r₂ := by
  unfold seedsWhileParsing at ht
  unfold runTable
  cases hev : t.events with
  | nil => simp [hev] at ht
  | cons e es =>
    cases hso : t.seedOpt with
    | none => simp [hev, hso] at ht
    | some o =>
      cases e with
      | parse c =>
        simp only [hev, hso] at ht
        simp only [CliRun.runFrom, isOutput, Bool.false_eq_true, if_false, CliRun.stepEv]
        rw [stepParse_independent_of_state σ w t argv o hso ht s hs r₁ r₂]
      | _ => simp [hev, hso] at ht

theorem tools_seed_while_parsing :
    ∀ tool ∈ ["cnfgen", "pbgen"], (phasesOf tool).any seedsWhileParsing = true := by decide +kernel

/-- T-C07.3 for the CURRENT source of cnfgen and pbgen -/
theorem toolRun_deterministic (tool : String) (htool : tool ∈ ["cnfgen", "pbgen"]) (σ : Int → Rng) (w : World)
    (argv : List String) (s : Int) (hs : seedOf argv = some s) (r₁ r₂ : Rng) :
    toolRun tool σ w argv r₁ = toolRun tool σ w argv r₂ := by
  unfold toolRun
  have h := tools_seed_while_parsing tool htool
  cases ht : phasesOf tool with
  | none => rfl
  | some t =>
    rw [ht] at h
    exact runTable_deterministic σ w t (by simpa using h) argv s hs r₁ r₂

/-- T-C07.3 for the CURRENT source of cnfgen: equal command lines with a seed give equal output text, whatever the
process -/
theorem cliRun_deterministic (σ : Int → Rng) (w : World) (argv : List String) (s : Int)
    (hs : seedOf argv = some s) (r₁ r₂ : Rng) : cliRun σ w argv r₁ = cliRun σ w argv r₂ :=
  toolRun_deterministic "cnfgen" (by simp) σ w argv s hs r₁ r₂

/-! ### the run consults `random.seed` only at the seed given -/

/-- the seed recorded in a state is the one of the command line, or none yet -/
def SeedInv (argv : List String) (st : RState) : Prop := st.top.seed = none ∨ st.top.seed = seedOf argv

theorem argsSeed_cases (t : ToolPhases) (x : Option Int) : argsSeed t x = x ∨ argsSeed t x = none := by
  unfold argsSeed
  cases t.seedOpt with
  | none => right; rfl
  | some o => cases h : o.stores <;> simp [h]

theorem stepParse_sigma (σ₁ σ₂ : Int → Rng) (w : World) (t : ToolPhases) (argv : List String) (s : Int)
    (hs : seedOf argv = some s) (hσ : σ₁ s = σ₂ s) (st : RState) :
    stepParse σ₁ w t argv st = stepParse σ₂ w t argv st := by
  unfold stepParse
  unfold seedOf at hs
  split
  · rfl
  cases hp : parseTop (argv.length + 1) (parseCommandLine argv).1 {} with
  | error e => rfl
  | ok top =>
    rw [hp] at hs
    simp only at hs
    simp only [hs]
    cases t.seedOpt with
    | none => rfl
    | some o => simp only [hσ]

theorem stepParse_inv (σ : Int → Rng) (w : World) (t : ToolPhases) (argv : List String) (st st' : RState)
    (h : stepParse σ w t argv st = .ok st') : SeedInv argv st' := by
  unfold stepParse at h
  split at h
  · cases h
  cases hp : parseTop (argv.length + 1) (parseCommandLine argv).1 {} with
  | error e => simp [hp] at h
  | ok top =>
    have hseed : seedOf argv = top.seed := by simp [seedOf, hp]
    simp only [hp] at h
    right
    rw [hseed]
    split at h
    · cases h
    · cases h; rfl

theorem stepEv_sigma (σ₁ σ₂ : Int → Rng) (w : World) (t : ToolPhases) (argv : List String) (s : Int)
    (hs : seedOf argv = some s) (hσ : σ₁ s = σ₂ s) (st : RState) (hinv : SeedInv argv st) (e : Ev) :
    CliRun.stepEv σ₁ w t argv st e = CliRun.stepEv σ₂ w t argv st e := by
  cases e with
  | parse c => exact stepParse_sigma σ₁ σ₂ w t argv s hs hσ st
  | seed gd a =>
    simp only [CliRun.stepEv]
    split
    · have hx : argsSeed t st.top.seed = none ∨ argsSeed t st.top.seed = some s := by
        rcases argsSeed_cases t st.top.seed with h | h
        · rcases hinv with h0 | h0
          · left; rw [h, h0]
          · right; rw [h, h0, hs]
        · left; exact h
      rcases hx with hx | hx
      · rw [hx]
        cases a <;> rfl
      · rw [hx]
        cases a <;> simp [hσ]
    · rfl
  | _ => rfl

theorem stepEv_inv (σ : Int → Rng) (w : World) (t : ToolPhases) (argv : List String) (st st' : RState)
    (hinv : SeedInv argv st) (e : Ev) (h : CliRun.stepEv σ w t argv st e = .ok st') : SeedInv argv st' := by
  have keep : st'.top = st.top → SeedInv argv st' := fun ht => by unfold SeedInv; rw [ht]; exact hinv
  cases e with
  | parse c => exact stepParse_inv σ w t argv st st' h
  | seed gd a =>
    simp only [CliRun.stepEv] at h
    split at h
    · split at h
      · cases h; exact keep rfl
      · cases h
    · cases h; exact keep rfl
  | build c =>
    simp only [CliRun.stepEv] at h
    apply keep
    split at h
    · cases h
    · split at h
      · cases h
      · cases h; rfl
  | transforms c =>
    simp only [CliRun.stepEv] at h
    apply keep
    split at h
    · cases h; rfl
    · cases h
    · split at h
      · cases h
      · cases h; rfl
  | headerSeed gd v =>
    simp only [CliRun.stepEv] at h
    split at h
    · split at h
      · cases h; exact keep rfl
      · cases h
    · cases h; exact keep rfl
  | headerCmdline pre =>
    simp only [CliRun.stepEv] at h
    split at h
    · cases h; exact keep rfl
    · cases h
  | output how => simp only [CliRun.stepEv] at h; cases h; exact keep rfl
  | draw c => simp [CliRun.stepEv] at h
  | readInput c => simp [CliRun.stepEv] at h
  | shuffle => simp [CliRun.stepEv] at h

theorem runFrom_sigma (σ₁ σ₂ : Int → Rng) (w : World) (t : ToolPhases) (argv : List String) (s : Int)
    (hs : seedOf argv = some s) (hσ : σ₁ s = σ₂ s) (evs : List Ev) :
    ∀ st, SeedInv argv st → CliRun.runFrom σ₁ w t argv evs st = CliRun.runFrom σ₂ w t argv evs st := by
  induction evs with
  | nil => intro st _; rfl
  | cons e es ih =>
    intro st hinv
    simp only [CliRun.runFrom]
    split
    · rfl
    · rw [← stepEv_sigma σ₁ σ₂ w t argv s hs hσ st hinv e]
      cases hst : CliRun.stepEv σ₁ w t argv st e with
      | error o => rfl
      | ok st' => exact ih st' (stepEv_inv σ₁ w t argv st st' hinv e hst)

/-- T-C07.4 the run consults `random.seed` only at the seed of the command line: two generators that agree on the
state installed by THAT seed give the same outcome.  Together with T-C07.3: the output text is a function of
(command line, state installed by the seed) — nothing else about the generator or the process enters. -/
theorem toolRun_function_of_seeded_state (tool : String) (htool : tool ∈ ["cnfgen", "pbgen"]) (σ₁ σ₂ : Int → Rng)
    (w : World) (argv : List String) (s : Int) (hs : seedOf argv = some s) (hσ : σ₁ s = σ₂ s) (r₁ r₂ : Rng) :
    toolRun tool σ₁ w argv r₁ = toolRun tool σ₂ w argv r₂ := by
  rw [toolRun_deterministic tool htool σ₁ w argv s hs r₁ r₂]
  unfold toolRun
  cases phasesOf tool with
  | none => rfl
  | some t => exact runFrom_sigma σ₁ σ₂ w t argv s hs hσ t.events _ (Or.inl rfl)

theorem cliRun_function_of_seeded_state (σ₁ σ₂ : Int → Rng) (w : World) (argv : List String) (s : Int)
    (hs : seedOf argv = some s) (hσ : σ₁ s = σ₂ s) (r₁ r₂ : Rng) :
    cliRun σ₁ w argv r₁ = cliRun σ₂ w argv r₂ :=
  toolRun_function_of_seeded_state "cnfgen" (by simp) σ₁ σ₂ w argv s hs hσ r₁ r₂

/-! ### witnesses: the model is not trivially constant, and reproduces recorded runs of the real tool -/

/-- a world for the witnesses: numerals are read by `int`, `.5` is 1/2, the base header has one entry -/
def witnessWorld : World :=
  { gw := { interp := fun tok => ⟨pyInt? tok, if tok == ".5" then some (1, 2) else none⟩, ext := none,
            openFile := .error .valueError, readGraph := fun _ => .stuck, fuel := 0, dot := true }
    floatStr := fun t => if t == ".5" then "0.5" else t
    baseHeader := [("generator", "CNFgen (3e30473)")] }

/-- WITHOUT a seed the text does depend on the state of the generator: `seedOf argv = some s` is a necessary
hypothesis of T-C07.3 -/
theorem cliRun_unseeded_depends_on_state :
    (cliRun (fun _ => ⟨[], []⟩) witnessWorld ["cnfgen", "randkcnf", "1", "2", "1"]
      ⟨[], [.f (.sample 2 1 [0]), .f (.choice 2 0)]⟩).out ≠
    (cliRun (fun _ => ⟨[], []⟩) witnessWorld ["cnfgen", "randkcnf", "1", "2", "1"]
      ⟨[], [.f (.sample 2 1 [1]), .f (.choice 2 0)]⟩).out := by decide +kernel

/-- the answers of the seeded state do reach the text (the run is not constant in `σ`) -/
theorem cliRun_seeded_state_matters :
    (cliRun (fun _ => ⟨[], [.f (.sample 2 1 [0]), .f (.choice 2 0)]⟩) witnessWorld ["cnfgen", "--seed", "7", "randkcnf", "1", "2", "1"] ⟨[], []⟩).out ≠
    (cliRun (fun _ => ⟨[], [.f (.sample 2 1 [1]), .f (.choice 2 0)]⟩) witnessWorld ["cnfgen", "--seed", "7", "randkcnf", "1", "2", "1"] ⟨[], []⟩).out := by
  decide +kernel

/-- recorded run of the real tool (`cnfgen --seed 0 randkcnf 2 3 2`, CPython 3.12 generator): the model, given the
answers the generator gave after `random.seed(0)`, asks for exactly those six draws and writes the same text -/
example :
    cliRun (fun _ => ⟨[], [.f (.sample 3 2 [1, 2]), .f (.choice 2 0), .f (.choice 2 1), .f (.sample 3 2 [2, 1]),
                          .f (.choice 2 1), .f (.choice 2 1)]⟩)
      witnessWorld ["cnfgen", "--seed", "0", "randkcnf", "2", "3", "2"] ⟨[.g (.unit 5)], [.f (.choice 9 9)]⟩ =
    ⟨.text ("c description: Random 2-CNF over 3 variables and 2 clauses\nc generator: CNFgen (3e30473)\n" ++
            "c random seed: 0\nc command line: cnfgen --seed 0 randkcnf 2 3 2\nc\np cnf 3 2\n2 -3 0\n-2 -3 0\n"), 0, 6, []⟩ := by
  decide +kernel

/-- recorded run of `cnfgen -q --seed 7 kcolor 2 gnp 3 .5`: three `random()` calls of networkx while the command
line is parsed (the graph argument), none afterwards; non-vacuity of T-C07.3 with a random graph argument -/
example :
    cliRun (fun _ => ⟨[.g (.unit 2916826238065975), .g (.unit 1358728566951068), .g (.unit 5863096500449791)], []⟩)
      witnessWorld ["cnfgen", "-q", "--seed", "7", "kcolor", "2", "gnp", "3", ".5"] ⟨[], []⟩ =
    ⟨.text "p cnf 6 10\n1 2 0\n3 4 0\n5 6 0\n-1 -2 0\n-3 -4 0\n-5 -6 0\n-1 -3 0\n-2 -4 0\n-1 -5 0\n-2 -6 0\n", 3, 0, []⟩ ∧
    seedOf ["cnfgen", "-q", "--seed", "7", "kcolor", "2", "gnp", "3", ".5"] = some 7 := by
  decide +kernel

/-- recorded run of `pbgen -q --seed 3 kcolor 2 gnp 3 .5` (OPB rendering of the same family, same flow) -/
example :
    toolRun "pbgen" (fun _ => ⟨[.g (.unit 2143394811796802), .g (.unit 4901981072493965), .g (.unit 3332259900419439)], []⟩)
      witnessWorld ["pbgen", "-q", "--seed", "3", "kcolor", "2", "gnp", "3", ".5"] ⟨[.g (.unit 1)], []⟩ =
    ⟨.text ("* #variable= 6 #constraint= 10\n+1 x1 +1 x2 >= 1\n+1 x3 +1 x4 >= 1\n+1 x5 +1 x6 >= 1\n+1 ~x1 +1 ~x2 >= 1\n" ++
            "+1 ~x3 +1 ~x4 >= 1\n+1 ~x5 +1 ~x6 >= 1\n+1 ~x1 +1 ~x3 >= 1\n+1 ~x2 +1 ~x4 >= 1\n+1 ~x3 +1 ~x5 >= 1\n+1 ~x4 +1 ~x6 >= 1\n"),
     3, 0, []⟩ := by
  decide +kernel

end Cnfgen.C07
