/-
C17 (dispatch) — the command line → library call mapping.

`Cnfgen.Cli.dispatch` (CnfgenModel/Cli/Dispatch.lean) interprets the call templates that
tools/extract_tables.py regenerates from the CURRENT source of the helpers on every run; the theorems below
are about those regenerated tables (`decide +kernel`: the quantifier is the finite table) or about the
interpreter, for all command lines (proved in Lemmas/Dispatch.lean).
-/
import CnfgenModel.Cli.DispatchChecks
import CnfgenModel.Cli.DispatchDoc
import Lemmas.DispatchFlag
import Lemmas.DispatchNumeric
import Lemmas.DispatchTotal
namespace Cnfgen.C17
open Cnfgen.Cli Cnfgen.Gen

/-! ### scope -/

/-- the formula sub-commands `dispatch` handles (all but `and or true false dimacs` — no library call) -/
theorem handled_formula_commands :
    supportedNames "formula" =
      ["bphp", "cliquecoloring", "count", "cpls", "domset", "ec", "iso", "kclique", "kcliquebin", "kcolor",
       "matching", "op", "parity", "peb", "php", "pitfall", "ptn", "ram", "ramlb", "randkcnf", "randkxor", "rphp",
       "stone", "subgraph", "subsetcard", "tiling", "tseitin", "vdw"] := by decide +kernel

/-- the transformation sub-commands `dispatch` handles (all but `none`) -/
theorem handled_transformation_commands :
    supportedNames "transformation" =
      ["anybut", "atleast", "atmost", "eq", "exact", "flip", "ite", "lift", "maj", "majcomp", "neq", "one", "or",
       "shuffle", "xor", "xorcomp"] := by decide +kernel

/-- the sub-commands whose arguments go through `compose_two_parsers` -/
theorem composed_commands :
    (cliSpecs.filter (·.composed)).map (·.name) = ["op", "subsetcard", "tseitin", "majcomp", "xorcomp"] := by
  decide +kernel

/-- the option tables of the handled sub-commands are well formed (distinct positional names, no option
string declared twice, required options are not flags) — the hypotheses of the generic theorems -/
theorem handled_specs_wellformed : (cliSpecs.filter (·.supported)).all specWF = true := by decide +kernel

/-! ### the documented table -/

/-- the options and call templates regenerated from the current source ARE the documented ones
(CnfgenModel/Cli/Documented.lean): same validators, same flags and defaults, same generator, every option
at the documented parameter.  A swapped argument, `onto=args.functional`, a changed `type=` break this proof. -/
theorem current_source_is_documented : currentSupportedSpecs = documentedSpecs := by decide +kernel

/-! ### (a) flags: table half -/

/-- T-C17.5a for EVERY helper (handled or not) and every boolean option of it: either no guard tests it and in
every call exactly one argument mentions it — as itself, negated, or choosing between two constants — or it
only selects the path, no argument mentions it, and the paths are variants of one call (same generator, same
positional arguments, keyword arguments agreeing where both give them) -/
theorem every_flag_reaches_exactly_one_argument : cliSpecs.all flagsOK = true := by decide +kernel

/-- an option whose name is a parameter name of the generator is passed to THAT parameter, keywords are
parameters of the generator and none is given twice (`onto=args.functional`, `PigeonholePrinciple(args.holes,
args.pigeons)` are refused here even without the documented table) -/
theorem options_reach_their_namesakes : cliSpecs.all specNamesCoherent = true := by decide +kernel

/-- every option string of a handled sub-command resolves to the option that declares it -/
theorem option_strings_resolve :
    (cliSpecs.filter (·.supported)).all (fun s => s.opts.all (fun o =>
      o.positional || o.flags.all (fun f => optOf s f == some o))) = true := by decide +kernel

/-! ### (a) flags: for all command lines -/

/-- T-C17.5a′ NON-INTERFERENCE OF FLAGS.  For every handled sub-command, every boolean option `o` of it that no
guard tests, every spelling `f` of it and EVERY command line `argv` that contains no OTHER option of `o`'s mutually
exclusive group (`noRival`; vacuous for ungrouped options — `op --total --smart` is an argparse error): with the
flag in front, the parser fails
iff it failed without it (same error); otherwise the helper takes the same path — the same template, hence the
same generator and the same argument expressions — in a namespace where every expression that does not mention
`o`'s dest has the same value; and exactly one argument of that call mentions `o`'s dest. -/
theorem flag_noninterference (s : CliSpec) (hs : s ∈ cliSpecs) (hsup : s.supported = true)
    (o : OptSpec) (ho : o ∈ s.opts) (hfl : isFlag o = true) (f : String) (hf : f ∈ o.flags)
    (hng : (guardDeps s).contains o.dest = false) (argv : List String)
    (hnr : noRival s o argv = true) :
    match dispatchTemplate s argv with
    | .error e => dispatchTemplate s (f :: argv) = .error e
    | .ok (t, ns) =>
      ∃ ns', dispatchTemplate s (f :: argv) = .ok (t, ns') ∧
        (∀ e : Expr, o.dest ∉ e.deps → evalE ns' e = evalE ns e) ∧
        (t.raises = "" → t.fn ≠ "" → mentionCount t o.dest = 1) := by
  have hmem : s ∈ cliSpecs.filter (·.supported) := List.mem_filter.2 ⟨hs, hsup⟩
  have hwf : specWF s = true := (List.all_eq_true.1 handled_specs_wellformed) s hmem
  have hnp := dflag_zero_nonpositional o hfl
  have hres : optOf s f = some o := by
    have h1 := (List.all_eq_true.1 option_strings_resolve) s hmem
    have h2 := (List.all_eq_true.1 h1) o ho
    simp only [hnp, Bool.false_or] at h2
    have h3 := (List.all_eq_true.1 h2) f hf
    simpa using h3
  have hmain := flag_noninterference_lemma s o f argv hwf hfl hres hnr hng
  cases hd : dispatchTemplate s argv with
  | error e => simpa [hd] using hmain
  | ok p =>
    obtain ⟨t, ns⟩ := p
    simp only [hd] at hmain
    obtain ⟨ns', h1, h2⟩ := hmain
    refine ⟨ns', h1, h2, ?_⟩
    intro hr hfn
    have htm := dispatchTemplate_mem s argv t ns hd
    have hfo := (List.all_eq_true.1 ((List.all_eq_true.1 every_flag_reaches_exactly_one_argument) s hs)) o
      (List.mem_filter.2 ⟨ho, hfl⟩)
    unfold flagOK at hfo
    simp only [hng, Bool.false_eq_true, if_false] at hfo
    have htc : t ∈ callTemplates s := by
      unfold callTemplates
      refine List.mem_filter.2 ⟨htm, ?_⟩
      simp [hr, hfn]
    have := (List.all_eq_true.1 hfo) t htc
    simp only [Bool.and_eq_true, beq_iff_eq] at this
    exact this.1

/-- T-C17.5a″ VARIANT FLAGS (`--plant`).  For a boolean option that guards do test: the parser's verdict is the
same with and without it; when both command lines reach a library call, the two calls are variants of one call
(same generator, same positional argument expressions, keyword arguments agreeing wherever both give them) and
every argument expression of either has the same value in both namespaces — the flag selects the variant and
changes nothing else. -/
theorem variant_flag_selects_a_variant (s : CliSpec) (hs : s ∈ cliSpecs) (hsup : s.supported = true)
    (o : OptSpec) (ho : o ∈ s.opts) (hfl : isFlag o = true) (f : String) (hf : f ∈ o.flags)
    (hg : (guardDeps s).contains o.dest = true) (argv : List String) (hnr : noRival s o argv = true) :
    (∀ e, parseArgs s (f :: argv) = .error e ↔ parseArgs s argv = .error e) ∧
    ∀ t t' ns ns', dispatchTemplate s argv = .ok (t, ns) → dispatchTemplate s (f :: argv) = .ok (t', ns') →
      t.raises = "" → t.fn ≠ "" → t'.raises = "" → t'.fn ≠ "" →
      t.fn = t'.fn ∧ t.pos = t'.pos ∧ (∀ p ∈ t.kw, ∀ p' ∈ t'.kw, p.1 = p'.1 → p.2 = p'.2) ∧
      (∀ e ∈ argExprs t ++ argExprs t', evalE ns' e = evalE ns e) := by
  have hmem : s ∈ cliSpecs.filter (·.supported) := List.mem_filter.2 ⟨hs, hsup⟩
  have hwf : specWF s = true := (List.all_eq_true.1 handled_specs_wellformed) s hmem
  have hnp := dflag_zero_nonpositional o hfl
  have hres : optOf s f = some o := by
    have h1 := (List.all_eq_true.1 option_strings_resolve) s hmem
    have h2 := (List.all_eq_true.1 h1) o ho
    simp only [hnp, Bool.false_or] at h2
    have h3 := (List.all_eq_true.1 h2) f hf
    simpa using h3
  refine ⟨fun e => flag_parse_verdict s o f argv hwf hfl hres hnr e, ?_⟩
  intro t t' ns ns' h h' hr hfn hr' hfn'
  have hfo := (List.all_eq_true.1 ((List.all_eq_true.1 every_flag_reaches_exactly_one_argument) s hs)) o
    (List.mem_filter.2 ⟨ho, hfl⟩)
  unfold flagOK at hfo
  simp only [hg, if_true, Bool.and_eq_true] at hfo
  obtain ⟨hcnt, hvar⟩ := hfo
  have htc : t ∈ callTemplates s := by
    unfold callTemplates
    exact List.mem_filter.2 ⟨dispatchTemplate_mem s argv t ns h, by simp [hr, hfn]⟩
  have htc' : t' ∈ callTemplates s := by
    unfold callTemplates
    exact List.mem_filter.2 ⟨dispatchTemplate_mem s (f :: argv) t' ns' h', by simp [hr', hfn']⟩
  unfold variantsAgree at hvar
  have hv := (List.all_eq_true.1 ((List.all_eq_true.1 hvar) t htc)) t' htc'
  simp only [Bool.and_eq_true, beq_iff_eq] at hv
  obtain ⟨⟨hfn_eq, hpos_eq⟩, hkw⟩ := hv
  refine ⟨hfn_eq, hpos_eq, ?_, ?_⟩
  · intro p hp p' hp' hk
    have := (List.all_eq_true.1 ((List.all_eq_true.1 hkw) p hp)) p' hp'
    simp only [Bool.or_eq_true, bne_iff_ne, ne_eq, beq_iff_eq] at this
    rcases this with h1 | h1
    · exact absurd hk h1
    · exact h1
  · intro e he
    have hframe := flag_namespace_frame s o f argv hwf hfl hres hnr t t' ns ns' h h'
    apply hframe
    intro hdep
    rcases List.mem_append.1 he with he | he
    · have hc0 := (List.all_eq_true.1 hcnt) t htc
      simp only [beq_iff_eq] at hc0
      unfold mentionCount at hc0
      have := (List.countP_eq_zero.1 hc0) e he
      simp [hdep] at this
    · have hc0 := (List.all_eq_true.1 hcnt) t' htc'
      simp only [beq_iff_eq] at hc0
      unfold mentionCount at hc0
      have := (List.countP_eq_zero.1 hc0) e he
      simp [hdep] at this

/-! ### (b) positionals: table half -/

/-- T-C17.5b every positional option of a handled sub-command reaches every library call the sub-command can
make: some argument mentions it, it is passed as itself at most once, and exactly once when the call has no
opaque argument -/
theorem every_positional_reaches_the_generator :
    (cliSpecs.filter (·.supported)).all positionalsOK = true := by decide +kernel

/-! ### (b) positionals: for all command lines -/

/-- the sub-commands whose positionals each take one typed token and whose options are all flags -/
theorem numeric_commands :
    (cliSpecs.filter (fun s => s.supported && numericOnly s)).map (fun s => (s.kind, s.name)) =
      [("formula", "bphp"), ("formula", "cliquecoloring"), ("formula", "count"), ("formula", "cpls"),
       ("formula", "parity"), ("formula", "pitfall"), ("formula", "ptn"), ("formula", "ram"),
       ("formula", "randkcnf"), ("formula", "randkxor"), ("formula", "rphp"),
       ("transformation", "anybut"), ("transformation", "atleast"), ("transformation", "atmost"),
       ("transformation", "eq"), ("transformation", "exact"), ("transformation", "flip"),
       ("transformation", "ite"), ("transformation", "lift"), ("transformation", "maj"),
       ("transformation", "neq"), ("transformation", "one"), ("transformation", "or"),
       ("transformation", "shuffle"), ("transformation", "xor")] := by decide +kernel

/-- T-C17.5b′ NO SWAP.  For every numeric sub-command and EVERY command line of the fragment (flags anywhere):
the parser accepts iff the number of argument tokens is the number of positionals and the i-th token passes the
validator of the i-th positional; it refuses only with a CLIError; and when it accepts, the value of the i-th
positional in the namespace `args` is the i-th argument token converted by ITS validator. -/
theorem positional_tokens_no_swap (s : CliSpec) (hs : s ∈ cliSpecs) (hsup : s.supported = true)
    (hn : numericOnly s = true) (argv : List String) (hf : inFragment s argv = true) :
    ((∃ b, parseArgs s argv = .ok b) ↔
      ((argTokens s argv).length = (positionals s).length ∧
       ∀ p ∈ (positionals s).zip (argTokens s argv), (convertOne p.1 p.2).isSome = true)) ∧
    ((∃ b, parseArgs s argv = .ok b) ∨ parseArgs s argv = .error .cliError) ∧
    (∀ b, parseArgs s argv = .ok b → ∀ p ∈ (positionals s).zip (argTokens s argv),
      (namespaceOf s b).lookup p.1.dest = convertOne p.1 p.2) := by
  have hmem : s ∈ cliSpecs.filter (·.supported) := List.mem_filter.2 ⟨hs, hsup⟩
  have hwf : specWF s = true := (List.all_eq_true.1 handled_specs_wellformed) s hmem
  refine ⟨numeric_parse_ok_iff s hn argv hf, numeric_parse_total s hn argv hf, ?_⟩
  intro b hb p hp
  have hv := numeric_parse_values s hn hwf argv hf b hb p hp
  have hsome := ((numeric_parse_ok_iff s hn argv hf).1 ⟨b, hb⟩).2 p hp
  unfold namespaceOf
  rw [dflag_lookup_append, hv]
  cases hc : convertOne p.1 p.2 with
  | none => simp [hc] at hsome
  | some v => rfl

/-! ### (b) the numeric form `N [d]` of the composed sub-commands -/

theorem numericBranch_of_B (s : CliSpec) (c n d : OptSpec) (h : numericBranchB s c n d = true) :
    numericBranch s c n d := by
  unfold numericBranchB at h
  simp only [Bool.and_eq_true, beq_iff_eq, bne_iff_ne, ne_eq, Bool.not_eq_true', List.all_eq_true,
    Bool.or_eq_true] at h
  obtain ⟨⟨⟨⟨⟨⟨⟨⟨⟨⟨⟨⟨⟨h1, h2⟩, h3⟩, h4⟩, h5⟩, h6⟩, h7⟩, h8⟩, h9⟩, h10⟩, h11⟩, h12⟩, h13⟩, h14⟩ := h
  refine ⟨h1, h2, h3, h4, ?_, h6, h7, h8, h9, h10, h11, h12, h13, ?_⟩
  · cases hc : c.compose with
    | nil => simp [hc] at h5
    | cons p1 r =>
      cases r with
      | nil => simp [hc] at h5
      | cons p2 r2 =>
        cases r2 with
        | nil => simp only [hc, beq_iff_eq] at h5; exact ⟨p1, p2, rfl, h5⟩
        | cons _ _ => simp [hc] at h5
  · intro o ho hp
    rcases h14 o ho with h | h
    · rw [hp] at h; exact absurd h (by simp)
    · exact h

/-- every composed sub-command (`op tseitin subsetcard xorcomp majcomp`) has the shape the next theorem needs: its
only positional is the `compose_two_parsers` action, whose first sub-parser has positionals `[n, d]` -/
theorem composed_numeric_branch_exists :
    (cliSpecs.filter (·.composed)).all (fun s => s.opts.any (fun c => s.opts.any (fun n =>
      s.opts.any (fun d => numericBranchB s c n d)))) = true := by decide +kernel

/-- T-C17.5b″ `compose_two_parsers`, numeric form, NO SWAP.  For every composed sub-command and EVERY list of argument
tokens whose first one is a number (so the first sub-parser is chosen): accepted iff there are one or two tokens
and each passes the validator of ITS positional; then `args.<n>` is the first token converted, and `args.<d>` is
the second token converted, or `d`'s default when there is none. -/
theorem composed_numeric_no_swap (s : CliSpec) (hs : s ∈ cliSpecs) (hc : s.composed = true) :
    ∃ c n d, c ∈ s.opts ∧ n ∈ s.opts ∧ d ∈ s.opts ∧ numericBranch s c n d ∧
      ∀ (t0 : String) (rest : List String), pyFloatOk t0 = true → (∀ t ∈ t0 :: rest, classify s t = .arg) →
        (∀ b, parseArgs s (t0 :: rest) = .ok b →
          (rest = [] ∧ b.lookup n.dest = convertOne n t0 ∧ b.lookup d.dest = some d.defaultVal) ∨
          (∃ t1, rest = [t1] ∧ b.lookup n.dest = convertOne n t0 ∧ b.lookup d.dest = convertOne d t1)) ∧
        ((∃ b, parseArgs s (t0 :: rest) = .ok b) ↔
          ((rest = [] ∧ (convertOne n t0).isSome) ∨
           (∃ t1, rest = [t1] ∧ (convertOne n t0).isSome ∧ (convertOne d t1).isSome))) := by
  have h := (List.all_eq_true.1 composed_numeric_branch_exists) s (List.mem_filter.2 ⟨hs, hc⟩)
  obtain ⟨c, hcm, h⟩ := List.any_eq_true.1 h
  obtain ⟨n, hnm, h⟩ := List.any_eq_true.1 h
  obtain ⟨d, hdm, h⟩ := List.any_eq_true.1 h
  have hb := numericBranch_of_B s c n d h
  exact ⟨c, n, d, hcm, hnm, hdm, hb, fun t0 rest hnum harg =>
    compose_numeric_no_swap s c n d hb (t0 :: rest) t0 rest rfl hnum harg⟩

/-! ### (c) totality -/

/-- every sub-command with standard options — all the handled ones but `php` (hand-written action) and the five
composed ones — is in the class for which totality is proved (`totalClassExt`, Lemmas/DispatchTotal.lean: guards made
of flags, `hasattr`, `is None` tests and comparisons of integer options protected by their `is not None` tests;
arguments that are options, `*args.ks`, constants, flags choosing between constants; exhaustive paths) -/
theorem commands_outside_total_class :
    (cliSpecs.filter (fun s => s.supported && !totalClassExt s)).map (·.name) =
      ["op", "php", "subsetcard", "tseitin", "majcomp", "xorcomp"] := by
  decide +kernel

/-- T-C17.5c′ the parser of EVERY handled sub-command (standard, `php`, composed) answers on every command line
of the fragment, and refuses only with a CLIError; every binding it makes is the action of one of the
sub-command's own options (for the composed ones: of the main parser or of the chosen sub-parser), stored under
that option's dest -/
theorem parser_total (s : CliSpec) (hsup : s.supported = true) (argv : List String)
    (hf : inFragment s argv = true) :
    ((∃ b, parseArgs s argv = .ok b) ∨ parseArgs s argv = .error .cliError) ∧
    (s.standard = true → ∀ b, parseArgs s argv = .ok b → ∀ p ∈ b, ∃ o ∈ s.opts, o.dest = p.1 ∧ producible o p.2) ∧
    (s.composed = true → ∀ b, parseArgs s argv = .ok b → ∀ p ∈ b, ∃ o ∈ s.opts, o.dest = p.1 ∧ producible o p.2 ∧
      o.action ≠ "compose_two_parsers") :=
  ⟨parseArgs_total_supported s hsup argv hf,
   fun hstd b hb => parseArgs_bindings_sound s hstd argv b hb,
   fun hc b hb => parseArgs_bindings_sound_composed s hc argv b hb⟩

/-- T-C17.5c TOTALITY.  For every sub-command with standard options (incl. `stone`, `vdw`) and EVERY command line of
the fragment, `dispatch` returns a library call or a CLIError — never `unsupported`, never another exception -/
theorem dispatch_total (h : HelperSpec) (s : CliSpec) (hspec : specOf h = some s) (hs : s ∈ cliSpecs)
    (hstd : s.standard = true) (argv : List String) (hf : inFragment s argv = true) :
    (∃ c, dispatch h argv = .ok c) ∨ dispatch h argv = .error .cliError := by
  unfold dispatch
  rw [hspec]
  have ht := (List.all_eq_true.1 standard_commands_totalClassExt) s (List.mem_filter.2 ⟨hs, hstd⟩)
  exact dispatchSpec_total_ext s ht argv hf

/-- … and when no path of the helper raises, it returns the CLIError exactly when the PARSER refuses the tokens
(a token that fails its validator, a wrong arity — characterised exactly by `positional_tokens_no_swap` for
the numeric sub-commands) -/
theorem dispatch_error_iff_parser_error (h : HelperSpec) (s : CliSpec) (hspec : specOf h = some s)
    (hs : s ∈ cliSpecs) (hstd : s.standard = true) (hnr : s.templates.all (fun t => t.raises == "") = true)
    (argv : List String) :
    dispatch h argv = .error .cliError ↔ parseArgs s argv = .error .cliError := by
  unfold dispatch
  rw [hspec]
  have ht := (List.all_eq_true.1 standard_commands_totalClassExt) s (List.mem_filter.2 ⟨hs, hstd⟩)
  exact dispatchSpec_error_iff_parse_error_ext s ht hnr argv

/-- sub-commands with custom argument handling are refused by `dispatch`, whatever the command line -/
theorem unhandled_commands_are_unsupported (s : CliSpec) (hs : s.supported = false) (argv : List String) :
    ∃ why, dispatchSpec s argv = .error (.unsupported why) := by
  unfold dispatchSpec dispatchTemplate
  simp [hs]

/-! ### concrete instances (the hypotheses above are satisfiable, the interpreter computes) -/

example : dispatchNamed "formula" "bphp" ["5", "3"] =
    .ok ⟨"BinaryPigeonholePrinciple", [.int 5, .int 3], [("formula_class", .param "formula_class")]⟩ := by
  decide +kernel
example : dispatchNamed "formula" "bphp" ["0", "3"] = .error .cliError := by decide +kernel
example : dispatchNamed "formula" "bphp" ["5"] = .error .cliError := by decide +kernel
example : dispatchNamed "formula" "kclique" ["--no-symmetry-breaking", "3", "complete", "4"] =
    .ok ⟨"CliqueFormula", [.graph "simple" ["complete", "4"], .int 3, .bool false],
         [("formula_class", .param "formula_class")]⟩ := by decide +kernel
example : dispatchNamed "formula" "kclique" ["3", "complete", "--no-symmetry-breaking", "4"] = .error .cliError := by
  decide +kernel
example : dispatchNamed "formula" "php" ["5", "4", "--onto"] =
    .ok ⟨"PigeonholePrinciple", [.int 5, .int 4],
         [("functional", .bool false), ("onto", .bool true), ("formula_class", .param "formula_class")]⟩ := by
  decide +kernel
example : dispatchNamed "formula" "iso" ["complete", "3", "-e", "empty", "3"] =
    .ok ⟨"GraphIsomorphism", [.graph "simple" ["complete", "3"], .graph "simple" ["empty", "3"]],
         [("formula_class", .param "formula_class")]⟩ := by decide +kernel
example : dispatchNamed "formula" "stone" ["2", "pyramid", "3", "--sparse", "5"] = .error .cliError := by decide +kernel
example : dispatchNamed "transformation" "shuffle" ["-v"] =
    .ok ⟨"Shuffle", [.param "F"], [("polarity_flips", .str "shuffle"), ("variables_permutation", .str "fixed"),
         ("clauses_permutation", .str "shuffle")]⟩ := by decide +kernel
example : dispatchNamed "formula" "op" ["--plant", "5"] =
    .ok ⟨"OrderingPrinciple", [.int 5, .bool false, .bool false, .bool true, .none],
         [("formula_class", .param "formula_class")]⟩ := by decide +kernel
example : dispatchNamed "formula" "op" ["--total", "--smart", "5"] = .error .cliError := by decide +kernel
example : dispatchNamed "formula" "op" ["5", "3"] = .error .cliError := by decide +kernel   -- 5·3 is odd
example : dispatchNamed "formula" "op" ["6", "3"] =
    .ok ⟨"GraphOrderingPrinciple", [.graph "simple" ["gnd", "6", "3"], .bool false, .bool false, .bool false, .none],
         [("formula_class", .param "formula_class")]⟩ := by decide +kernel
example : dispatchNamed "formula" "subsetcard" ["--equal", "complete", "3", "4"] =
    .ok ⟨"SubsetCardinalityFormula", [.graph "bipartite" ["complete", "3", "4"], .bool true],
         [("formula_class", .param "formula_class")]⟩ := by decide +kernel
example : (match dispatchNamed "formula" "tseitin" ["zero", "grid", "2", "3"] with
          | .ok c => (c.fn, c.pos.head?, c.pos.length) | .error _ => ("", none, 0)) =
    ("TseitinFormula", some (.graph "simple" ["grid", "2", "3"]), 2) := by decide +kernel
example : isUnsupported (dispatchNamed "formula" "tseitin" ["zero", "file.gml"]) = true := by decide +kernel
example : isUnsupported (dispatchNamed "formula" "and" ["1", "1"]) = true := by decide +kernel
example : isUnsupported (dispatchNamed "formula" "bphp" ["--he", "3"]) = true := by decide +kernel
/-- an argument flag and a variant flag exist -/
example : (cliSpecs.any (fun s => s.supported && s.opts.any (fun o => isFlag o && !(guardDeps s).contains o.dest))) = true ∧
    (cliSpecs.any (fun s => s.supported && s.opts.any (fun o => isFlag o && (guardDeps s).contains o.dest))) = true := by
  decide +kernel

/-! ### (d) kthlist2pebbling -/

/-- T-C17.5d the stand-alone tool and `peb` make the same call: the same generator, applied to one graph,
nothing else but the formula class -/
theorem kthlist2pebbling_is_peb :
    pebTemplates.length = 1 ∧ k2pTemplates.length = 1 ∧
    (pebTemplates.all (fun a => k2pTemplates.all (sameCallShape a))) = true := by decide +kernel

end Cnfgen.C17
