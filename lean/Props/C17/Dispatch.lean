/-
C17 (dispatch) — the command line → library call mapping.

`Cnfgen.Cli.dispatch` (CnfgenModel/Cli/Dispatch.lean) interprets the call templates that
tools/extract_tables.py regenerates from the CURRENT source of the helpers on every run; the theorems below
are about those regenerated tables (`decide +kernel`: the quantifier is the finite table) or about the
interpreter, for all command lines (proved in Lemmas/Dispatch.lean).
-/
import CnfgenModel.Cli.DispatchChecks
import CnfgenModel.Cli.DispatchDoc
namespace Cnfgen.C17
open Cnfgen.Cli Cnfgen.Gen

/-! ### scope -/

/-- the formula sub-commands `dispatch` handles (all but: `op tseitin subsetcard` — composite custom actions;
`and or true false dimacs` — no library call) -/
theorem handled_formula_commands :
    supportedNames "formula" =
      ["bphp", "cliquecoloring", "count", "cpls", "domset", "ec", "iso", "kclique", "kcliquebin", "kcolor",
       "matching", "parity", "peb", "php", "pitfall", "ptn", "ram", "ramlb", "randkcnf", "randkxor", "rphp",
       "stone", "subgraph", "tiling", "vdw"] := by decide +kernel

/-- the transformation sub-commands `dispatch` handles (all but `xorcomp majcomp` — custom action; `none`) -/
theorem handled_transformation_commands :
    supportedNames "transformation" =
      ["anybut", "atleast", "atmost", "eq", "exact", "flip", "ite", "lift", "maj", "neq", "one", "or",
       "shuffle", "xor"] := by decide +kernel

/-- the option tables of the handled sub-commands are well formed (distinct positional names, no option
string declared twice, required options are not flags) — the hypotheses of the generic theorems -/
theorem handled_specs_wellformed : (cliSpecs.filter (·.supported)).all specWF = true := by decide +kernel

/-! ### the documented table -/

/-- the options and call templates regenerated from the current source ARE the documented ones
(CnfgenModel/Cli/Documented.lean): same validators, same flags and defaults, same generator, every option
at the documented parameter.  A swapped argument, `onto=args.functional`, a changed `type=` break this proof. -/
theorem current_source_is_documented : currentSupportedSpecs = documentedSpecs := by decide +kernel

/-! ### (a) flags: table half -/

/-- T-C17.5a for EVERY helper (handled or not) and every boolean option of it: either no guard tests it and in
every call exactly one argument mentions it — as itself, negated, or choosing between two constants — or it
only selects the path, no argument mentions it, and the paths are variants of one call (same generator, same
positional arguments, keyword arguments agreeing where both give them) -/
theorem every_flag_reaches_exactly_one_argument : cliSpecs.all flagsOK = true := by decide +kernel

/-- an option whose name is a parameter name of the generator is passed to THAT parameter, keywords are
parameters of the generator and none is given twice (`onto=args.functional`, `PigeonholePrinciple(args.holes,
args.pigeons)` are refused here even without the documented table) -/
theorem options_reach_their_namesakes : cliSpecs.all specNamesCoherent = true := by decide +kernel

/-! ### (b) positionals: table half -/

/-- T-C17.5b every positional option of a handled sub-command reaches every library call the sub-command can
make: some argument mentions it, it is passed as itself at most once, and exactly once when the call has no
opaque argument -/
theorem every_positional_reaches_the_generator :
    (cliSpecs.filter (·.supported)).all positionalsOK = true := by decide +kernel

/-! ### (d) kthlist2pebbling -/

/-- T-C17.5d the stand-alone tool and `peb` make the same call: the same generator, applied to one graph,
nothing else but the formula class -/
theorem kthlist2pebbling_is_peb :
    pebTemplates.length = 1 ∧ k2pTemplates.length = 1 ∧
    (pebTemplates.all (fun a => k2pTemplates.all (sameCallShape a))) = true := by decide +kernel

end Cnfgen.C17
