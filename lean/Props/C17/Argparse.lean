/-
C17 (argparse) — the command line → library call mapping on EVERY list of tokens.

`Cnfgen.Cli.AP.dispatchX` (CnfgenModel/Cli/Argparse.lean) runs argparse as CPython 3.12 does (abbreviations,
`--opt=value`, clusters, `--`, negative numbers, unknown options, `-h`) and handles every sub-command, the ones that
build their formula inline included.  Theorems: the table ones by `decide +kernel` over the regenerated tables, the
others for all token lists (Lemmas/Argparse*.lean).
-/
import CnfgenModel.Cli.Argparse
import Lemmas.ArgparseTotal
namespace Cnfgen.C17
open Cnfgen.Cli Cnfgen.Cli.AP Cnfgen.Gen

/-! ### scope -/

/-- EVERY formula sub-command is handled by the extended interpreter -/
theorem handled_formula_commands_x :
    supportedNamesX "formula" = (cliSpecs.filter (fun s => s.kind == "formula" && s.name != "")).map (·.name) := by
  decide +kernel

/-- EVERY transformation sub-command is handled -/
theorem handled_transformation_commands_x :
    supportedNamesX "transformation" =
      (cliSpecs.filter (fun s => s.kind == "transformation" && s.name != "")).map (·.name) := by
  decide +kernel

/-- the sub-commands that build their formula themselves (modelled by hand, `inlineBuild`): their regenerated bodies
are the ones the hand-written model was made for -/
theorem inline_sources_pinned :
    (cliSpecs.filter (·.inline)).map (·.name) = ["and", "dimacs", "false", "or", "true", "none"] := by
  decide +kernel

/-- every option of every handled sub-command has a modelled arity; a file type only on a single / optional
argument; an optional takes no, one or `+` arguments -/
theorem all_options_modelled : (cliSpecs.filter (·.supportedX)).all (fun s => s.opts.all goodOpt) = true := by
  decide +kernel

/-! ### (c) the parser answers on every list of tokens -/

/-- T-C17.5c′ (extended) PARSER TOTALITY.  For every handled sub-command and EVERY list of tokens — no fragment
hypothesis: abbreviated, `=`-joined, clustered, unknown options, `--`, `-h` anywhere — the parser of the sub-command
(with the sub-parsers of `compose_two_parsers` and the inner parser of `php`) answers with bindings, a CLIError, or
the help exit; never anything else. -/
theorem parser_total_all_tokens (s : CliSpec) (hs : s ∈ cliSpecs) (hsup : s.supportedX = true)
    (argv : List String) :
    (∃ b, parseX s argv = .ok b) ∨ parseX s argv = .error .cliError ∨ parseX s argv = .error .helpExit := by
  have h := (List.all_eq_true.1 all_options_modelled) s (List.mem_filter.2 ⟨hs, hsup⟩)
  exact parseX_total s (fun o ho => (List.all_eq_true.1 h) o ho) argv

example : (cliSpecs.find? (·.name == "kclique")).map (fun s => parseX s ["--no", "3", "complete", "4"]) =
    some (.ok [("G", .graph "simple" ["complete", "4"]), ("k", .int 3), ("symmetrybreaking", .bool false)]) := by
  decide +kernel

end Cnfgen.C17
