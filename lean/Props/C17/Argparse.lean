/-
C17 (argparse) — the command line → library call mapping on EVERY list of tokens.

`Cnfgen.Cli.AP.dispatchX` (CnfgenModel/Cli/Argparse.lean) runs argparse as CPython 3.12 does (abbreviations,
`--opt=value`, clusters, `--`, negative numbers, unknown options, `-h`) and handles every sub-command, the ones that
build their formula inline included.  Theorems: the table ones by `decide +kernel` over the regenerated tables, the
others for all token lists (Lemmas/Argparse*.lean).
-/
import CnfgenModel.Cli.Argparse
import Lemmas.ArgparseTotal
import Lemmas.ArgparseTokens
import Lemmas.ArgparseRefine
import Props.C17.Dispatch
import Lemmas.ArgparseDispatchTotal
import Lemmas.ArgparseFlag
import Lemmas.ArgparseWorlds
namespace Cnfgen.C17
open Cnfgen.Cli Cnfgen.Cli.AP Cnfgen.Gen

/-! ### scope -/

/-- EVERY formula sub-command is handled by the extended interpreter -/
theorem handled_formula_commands_x :
    supportedNamesX "formula" = (cliSpecs.filter (fun s => s.kind == "formula" && s.name != "")).map (·.name) := by
  decide +kernel

/-- EVERY transformation sub-command is handled -/
theorem handled_transformation_commands_x :
    supportedNamesX "transformation" =
      (cliSpecs.filter (fun s => s.kind == "transformation" && s.name != "")).map (·.name) := by
  decide +kernel

/-- the sub-commands that build their formula themselves (modelled by hand, `inlineBuild`): their regenerated bodies
are the ones the hand-written model was made for -/
theorem inline_sources_pinned :
    (cliSpecs.filter (·.inline)).map (·.name) = ["and", "dimacs", "false", "or", "true", "none"] := by
  decide +kernel

/-- every option of every handled sub-command has a modelled arity; a file type only on a single / optional
argument; an optional takes no, one or `+` arguments -/
theorem all_options_modelled : (cliSpecs.filter (·.supportedX)).all (fun s => s.opts.all goodOpt) = true := by
  decide +kernel

/-! ### (c) the parser answers on every list of tokens -/

/-- T-C17.5c′ (extended) PARSER TOTALITY.  For every handled sub-command and EVERY list of tokens — no fragment
hypothesis: abbreviated, `=`-joined, clustered, unknown options, `--`, `-h` anywhere — the parser of the sub-command
(with the sub-parsers of `compose_two_parsers` and the inner parser of `php`) answers with bindings, a CLIError, or
the help exit; never anything else. -/
theorem parser_total_all_tokens (s : CliSpec) (hs : s ∈ cliSpecs) (hsup : s.supportedX = true)
    (argv : List String) :
    (∃ b, parseX s argv = .ok b) ∨ parseX s argv = .error .cliError ∨ parseX s argv = .error .helpExit := by
  have h := (List.all_eq_true.1 all_options_modelled) s (List.mem_filter.2 ⟨hs, hsup⟩)
  exact parseX_total s (fun o ho => (List.all_eq_true.1 h) o ho) argv

example : (cliSpecs.find? (·.name == "kclique")).map (fun s => parseX s ["--no", "3", "complete", "4"]) =
    some (.ok [("G", .graph "simple" ["complete", "4"]), ("k", .int 3), ("symmetrybreaking", .bool false)]) := by
  decide +kernel

/-! ### spellings: table half (what cnfgen's parsers read, checked over the regenerated option tables) -/

/-- a check over a table, done in three parts (each `decide` stays short) -/
theorem all_of_parts {α : Type} (l : List α) (p : α → Bool) (n m : Nat) (h1 : (l.take n).all p = true)
    (h2 : ((l.drop n).take m).all p = true) (h3 : ((l.drop n).drop m).all p = true) : l.all p = true := by
  have : l = l.take n ++ ((l.drop n).take m ++ (l.drop n).drop m) := by
    rw [List.take_append_drop, List.take_append_drop]
  rw [this, List.all_append, List.all_append, h1, h2, h3]
  rfl

/-- the option strings of every handled sub-command (with `-h`, `--help`): none looks like a negative number
(`_has_negative_number_optionals` is empty, so `-1` is an argument everywhere), none contains `=` or a blank -/
theorem option_strings_plain :
    (cliSpecs.filter (·.supportedX)).all (fun s => stringsOK (mainSpec s).strings) = true := by decide +kernel

/-- PREFIXES.  For every handled sub-command and every long option of it: each proper prefix (≥ 3 characters) is
read as that option when it is a prefix of no other option string, and refused as ambiguous otherwise
(`--no` for `shuffle`, `--knuth` for `op`) -/
theorem unique_prefixes_accepted_1 :
    ((cliSpecs.filter (·.supportedX)).take 17).all (fun s => abbrevOK (mainSpec s).strings) = true := by
  decide +kernel
theorem unique_prefixes_accepted_2 :
    (((cliSpecs.filter (·.supportedX)).drop 17).take 17).all (fun s => abbrevOK (mainSpec s).strings) = true := by
  decide +kernel
theorem unique_prefixes_accepted_3 :
    (((cliSpecs.filter (·.supportedX)).drop 17).drop 17).all (fun s => abbrevOK (mainSpec s).strings) = true := by
  decide +kernel
theorem unique_prefixes_accepted :
    (cliSpecs.filter (·.supportedX)).all (fun s => abbrevOK (mainSpec s).strings) = true :=
  all_of_parts _ _ 17 17 unique_prefixes_accepted_1 unique_prefixes_accepted_2 unique_prefixes_accepted_3

/-- CLUSTERS.  For every handled sub-command: any two or three of its one-letter flags (`-h` included) written as
one token `-xy`, `-xyz` are read as `-x` with the other letters as explicit argument -/
theorem flag_clusters_classified_1 :
    ((cliSpecs.filter (·.supportedX)).take 17).all (fun s => clusterOK (mainSpec s).strings) = true := by
  decide +kernel
theorem flag_clusters_classified_2 :
    (((cliSpecs.filter (·.supportedX)).drop 17).take 17).all (fun s => clusterOK (mainSpec s).strings) = true := by
  decide +kernel
theorem flag_clusters_classified_3 :
    (((cliSpecs.filter (·.supportedX)).drop 17).drop 17).all (fun s => clusterOK (mainSpec s).strings) = true := by
  decide +kernel
theorem flag_clusters_classified :
    (cliSpecs.filter (·.supportedX)).all (fun s => clusterOK (mainSpec s).strings) = true :=
  all_of_parts _ _ 17 17 flag_clusters_classified_1 flag_clusters_classified_2 flag_clusters_classified_3

/-! ### spellings: for all command lines -/

/-- what is built depends on the tokens only through the parser's bindings and the main parser's ambiguity check -/
theorem dispatchX_congr (tool : String) (ord : List String → Nat) (s : CliSpec) (argv argv' : List String)
    (hp : parseX s argv = parseX s argv') (ht : topAmbiguous tool s.kind argv = topAmbiguous tool s.kind argv') :
    dispatchSpecX tool ord s argv = dispatchSpecX tool ord s argv' := by
  unfold dispatchSpecX
  rw [hp, ht]

/-- T-C17.6a ABBREVIATION.  A token that the sub-command's parser reads as the option string `f` — by
`unique_prefixes_accepted`: every unique prefix of a long option — behaves exactly like `f`: anywhere before the
first `--`, in ANY command line (other abbreviations, `=`-forms, clusters, errors included), the parser makes the same
bindings or fails the same way. -/
theorem abbreviation_sound (s : CliSpec) (pre post : List String) (a f : String)
    (hpre : "--" ∉ pre) (ha : a ≠ "--") (hf : f ≠ "--")
    (hcls : classifyTok (mainSpec s).strings a = classifyTok (mainSpec s).strings f) :
    parseX s (pre ++ a :: post) = parseX s (pre ++ f :: post) :=
  engine_same_class (mainBind s) (mainSpec s) pre post a f hpre ha hf hcls

/-- … and so the same thing is built, when the tool's own parser does not find the abbreviation ambiguous
(`--v`, `--he`, `--o` are: they are prefixes of several options of `cnfgen` itself) -/
theorem abbreviation_sound_dispatch (tool : String) (ord : List String → Nat) (s : CliSpec)
    (pre post : List String) (a f : String) (hpre : "--" ∉ pre) (ha : a ≠ "--") (hf : f ≠ "--")
    (hcls : classifyTok (mainSpec s).strings a = classifyTok (mainSpec s).strings f)
    (htop : (classifyTok (topStrings tool s.kind) a).isAmbiguous = (classifyTok (topStrings tool s.kind) f).isAmbiguous) :
    dispatchSpecX tool ord s (pre ++ a :: post) = dispatchSpecX tool ord s (pre ++ f :: post) := by
  apply dispatchX_congr tool ord s _ _ (abbreviation_sound s pre post a f hpre ha hf hcls)
  unfold topAmbiguous
  have hw : ∀ (x : String) (hx : x ≠ "--"), (pre ++ x :: post).takeWhile (fun t => t != "--") =
      pre ++ x :: post.takeWhile (fun t => t != "--") := by
    intro x hx
    have hall : ∀ y ∈ pre, (y != "--") = true := by
      intro y hy
      simp only [bne_iff_ne, ne_eq]
      intro e
      exact hpre (e ▸ hy)
    rw [List.takeWhile_append_of_pos hall]
    simp [hx]
  rw [hw a ha, hw f hf]
  simp only [List.any_append, List.any_cons, htop]

example : classifyTok (optStrings []) "--he" = classifyTok (optStrings []) "--help" := by decide +kernel

/-- T-C17.6b `--opt=v` IS `--opt v`.  For an option that takes ONE argument, `f=v` (read by the parser as `f` with the
explicit argument `v` — `eq_token_classified`: every `f=v` where `f` is an option string) and the two tokens `f v`,
`v` an argument: same bindings / same failure, anywhere before the first `--`, in any command line. -/
theorem eq_form_sound (s : CliSpec) (pre post : List String) (t f v : String) (tg : Target)
    (hpre : "--" ∉ pre) (ht : t ≠ "--") (hf : f ≠ "--") (hv : v ≠ "--")
    (hct : classifyTok (mainSpec s).strings t = .opt tg f (some v))
    (hcf : classifyTok (mainSpec s).strings f = .opt tg f none)
    (hcv : classifyTok (mainSpec s).strings v = .arg v) (h1 : arityT tg = .one) :
    parseX s (pre ++ t :: post) = parseX s (pre ++ f :: v :: post) :=
  engine_eqform_one (mainBind s) (mainSpec s) pre post t f v tg hpre ht hf hv hct hcf hcv h1

/-- the hypotheses of `eq_form_sound` hold of `--sparse=3` for `stone`, and both spellings parse alike -/
example : (cliSpecs.find? (fun s => s.kind == "formula" && s.name == "stone")).map (fun s =>
      ((match classifyTok (mainSpec s).strings "--sparse=3" with | .opt (.opt o) f (some v) => (o.dest, f, v, decide (o.arity = .one)) | _ => ("", "", "", false)),
       classifyTok (mainSpec s).strings "3" == .arg "3",
       parseX s ["2", "pyramid", "2", "--sparse=3"] == parseX s ["2", "pyramid", "2", "--sparse", "3"])) =
    some (("sparse", "--sparse", "3", true), true, true) := by decide +kernel

/-- … for an option that takes ONE OR MORE arguments (the graph options `-e`, `-G`, `-H`): `f=v` takes exactly `v`, so
it is `f v` when no further argument follows (end of the command line, an option, `--`) -/
theorem eq_form_sound_plus (s : CliSpec) (pre post : List String) (t f v : String) (tg : Target)
    (hpre : "--" ∉ pre) (ht : t ≠ "--") (hf : f ≠ "--") (hv : v ≠ "--")
    (hct : classifyTok (mainSpec s).strings t = .opt tg f (some v))
    (hcf : classifyTok (mainSpec s).strings f = .opt tg f none)
    (hcv : classifyTok (mainSpec s).strings v = .arg v) (h1 : arityT tg = .plus)
    (hpost : post = [] ∨ ∃ x rest, post = x :: rest ∧ (x = "--" ∨ ∀ y, classifyTok (mainSpec s).strings x ≠ .arg y)) :
    parseX s (pre ++ t :: post) = parseX s (pre ++ f :: v :: post) :=
  engine_eqform_plus (mainBind s) (mainSpec s) pre post t f v tg hpre ht hf hv hct hcf hcv h1
    (avail_nil_of_head _ post hpost)

/-- `f=v` is read as `f` with the explicit argument `v`, for every option string `f` and every `v` -/
theorem eq_token_is_option (strs : List (String × Target)) (f v : String) (tg : Target) (fr : List Char)
    (hf : f.toList = '-' :: fr) (hfr : fr ≠ []) (hne : '=' ∉ f.toList) (hl : lookupOS strs f = some tg)
    (hnot : lookupOS strs (f ++ "=" ++ v) = none) :
    classifyTok strs (f ++ "=" ++ v) = .opt tg f (some v) :=
  eq_token_classified strs f v tg fr hf hfr hne hl hnot

/-- T-C17.6c CLUSTER.  A token `-x<e>` read by the parser as the flag `-x` with explicit argument `e`
(`flag_clusters_classified`) whose letters all stand for flags (options without argument, `-h` included) is the
sequence of the separate flags: same bindings / same failure / same help exit, anywhere before the first `--`. -/
theorem cluster_sound (s : CliSpec) (pre post : List String) (t os e : String) (tg : Target)
    (ts : List (Target × String))
    (hpre : "--" ∉ pre) (ht : t ≠ "--") (hos : os ≠ "--") (hts : ∀ x ∈ ts, x.2 ≠ "--")
    (hct : classifyTok (mainSpec s).strings t = .opt tg os (some e))
    (hcos : classifyTok (mainSpec s).strings os = .opt tg os none)
    (hcts : ∀ x ∈ ts, classifyTok (mainSpec s).strings x.2 = .opt x.1 x.2 none)
    (hs : singleDash os = true) (he : e.toList ≠ []) (h0 : arityT tg = .zero)
    (hall : FlagsOf (mainSpec s).strings e.toList (ts.map (·.1))) :
    parseX s (pre ++ t :: post) = parseX s (pre ++ os :: ts.map (·.2) ++ post) :=
  engine_cluster (mainBind s) (mainSpec s) pre post t os e tg ts hpre ht hos hts hct hcos hcts hs he h0 hall

/-- the hypotheses of `cluster_sound` hold of `-pvc` for `shuffle`, and the parse computes -/
example : (cliSpecs.find? (fun s => s.kind == "transformation" && s.name == "shuffle")).map
      (fun s => (parseX s ["-pvc"] == parseX s ["-p", "-v", "-c"], (parseX s ["-pvc"]).toOption.map (·.length))) =
    some (true, some 3) := by decide +kernel

/-! ### the extended interpreter agrees with the interpreter of the fragment -/

/-- the option tables of the sub-commands with standard options are what the comparison needs: no option string
looks like a number or is `-h` / `--help` / `--`; the call templates do not ask for the order of a graph; none
builds its formula inline -/
theorem standard_tables_comparable :
    (cliSpecs.filter (·.standard)).all (fun s => fragOK s && s.templates.all templateOrderFree && !s.inline) = true := by
  decide +kernel

/-- T-C17.7 REFINEMENT.  For every sub-command with standard options (all handled ones but `php` and the five
composed) and EVERY command line of the fragment that Cli/Dispatch.lean models: the extended parser makes exactly
the bindings of the fragment's parser or fails with its CLIError; and whatever `dispatch` answers — library call
or CLIError — the extended interpreter answers (the tool's own parser permitting).  So `flag_noninterference`,
`variant_flag_selects_a_variant`, `positional_tokens_no_swap`, `dispatch_total`, `dispatch_error_iff_parser_error`
are statements about the extended interpreter too. -/
theorem extended_refines_fragment (s : CliSpec) (hs : s ∈ cliSpecs) (hstd : s.standard = true)
    (argv : List String) (hf : inFragment s argv = true) :
    parseX s argv = liftE (parseArgs s argv) ∧
    ∀ (tool : String) (ord : List String → Nat), topAmbiguous tool s.kind argv = false →
      (∀ c, dispatchSpec s argv = .ok c → dispatchSpecX tool ord s argv = .ok (.call c)) ∧
      (dispatchSpec s argv = .error .cliError → dispatchSpecX tool ord s argv = .error .cliError) := by
  have h := (List.all_eq_true.1 standard_tables_comparable) s (List.mem_filter.2 ⟨hs, hstd⟩)
  simp only [Bool.and_eq_true, Bool.not_eq_true'] at h
  exact ⟨parseX_refines s hstd h.1.1 argv hf,
    fun tool ord htop => dispatchX_refines tool ord s hstd h.1.1 h.1.2 h.2 argv hf htop⟩

/-- … for instance totality: on the fragment the extended interpreter returns a library call or a CLIError
(`dispatch_total` transported; for ALL token lists see `parser_total_all_tokens`) -/
theorem dispatch_total_fragment_x (h : HelperSpec) (s : CliSpec) (hspec : specOf h = some s) (hs : s ∈ cliSpecs)
    (hstd : s.standard = true) (argv : List String) (hf : inFragment s argv = true) (tool : String)
    (ord : List String → Nat) (htop : topAmbiguous tool s.kind argv = false) :
    (∃ c, dispatchX tool ord h argv = .ok (.call c)) ∨ dispatchX tool ord h argv = .error .cliError := by
  have hx : dispatchX tool ord h argv = dispatchSpecX tool ord s argv := by unfold dispatchX; rw [hspec]
  have ho : dispatch h argv = dispatchSpec s argv := by unfold dispatch; rw [hspec]
  have hr := (extended_refines_fragment s hs hstd argv hf).2 tool ord htop
  rcases dispatch_total h s hspec hs hstd argv hf with ⟨c, hc⟩ | he
  · exact Or.inl ⟨c, by rw [hx]; exact hr.1 c (ho ▸ hc)⟩
  · exact Or.inr (by rw [hx]; exact hr.2 (ho ▸ he))

/-! ### (c) totality of the whole interpreter on every list of tokens -/

/-- the inline helpers have the option tables their hand-written models assume -/
theorem inline_tables_ok : (cliSpecs.filter (·.inline)).all inlineTableOK = true := by decide +kernel

/-- the sub-commands for which `dispatch_total_all_tokens` is proved: standard options or inline.  The others are
`php` (hand-written action) and the five that go through `compose_two_parsers`: `dispatch_total_every_command` below
covers them through the abstract interpreter. -/
theorem commands_outside_total_x :
    (cliSpecs.filter (fun s => s.supportedX && !(s.standard || s.inline))).map (·.name) =
      ["op", "php", "subsetcard", "tseitin", "majcomp", "xorcomp"] := by decide +kernel

/-- T-C17.5c (extended) TOTALITY ON EVERY LIST OF TOKENS.  For the 44 sub-commands with standard options or an
inline body, EVERY token list (abbreviations, `=`, clusters, `--`, unknown options, `-h`, …), either tool: the
extended interpreter answers with what is built (a library call / the inline formula), a CLIError, or the help exit —
never `unsupported`, never an exception that escapes `cli()`.  (A single-argument option that holds the empty list —
CPython 3.12.1's removal of a lone `--`, `cnfgen stone 2 pyramid 2 --sparse=--` — makes the helper raise TypeError,
which `cli()` reports as a CLIError since the fix 45e8e26: `quirkCrash`.) -/
theorem dispatch_total_all_tokens (tool : String) (ord : List String → Nat) (s : CliSpec) (hs : s ∈ cliSpecs)
    (hc : s.standard = true ∨ s.inline = true) (argv : List String) :
    Answers (dispatchSpecX tool ord s argv) := by
  have hsx : s.supportedX = true := by
    unfold CliSpec.supportedX CliSpec.supported
    rcases hc with h | h <;> simp [h]
  have hgood : ∀ o ∈ s.opts, goodOpt o = true :=
    fun o ho => (List.all_eq_true.1 ((List.all_eq_true.1 all_options_modelled) s (List.mem_filter.2 ⟨hs, hsx⟩))) o ho
  by_cases hin : s.inline = true
  · exact dispatchX_total_inline tool ord s hin
      ((List.all_eq_true.1 inline_tables_ok) s (List.mem_filter.2 ⟨hs, hin⟩)) hgood argv
  · have hstd : s.standard = true := by
      rcases hc with h | h
      · exact h
      · exact absurd h hin
    have h1 := (List.all_eq_true.1 standard_tables_comparable) s (List.mem_filter.2 ⟨hs, hstd⟩)
    simp only [Bool.and_eq_true, Bool.not_eq_true'] at h1
    have h2 := (List.all_eq_true.1 standard_commands_totalClassExt) s (List.mem_filter.2 ⟨hs, hstd⟩)
    exact dispatchX_total_std tool ord s h2 h1.1.2 h1.2 hgood argv

/-- `php` and the five `compose_two_parsers` sub-commands: their option tables have the shape the derivation of their
WORLDS assumes (one custom positional, flags otherwise, disjoint dests, sub-parsers made of typed / chosen / optional /
graph positionals), and the abstract interpreter (Cli/ArgparseAbs.lean) accepts every world: whatever the numbers, the
graphs and the order of a graph file, the helper's method takes a path whose call can be built or that raises ValueError -/
theorem special_worlds_ok :
    (cliSpecs.filter (fun s => s.supportedX && !(s.standard || s.inline))).all
      (fun s => worldTablesOK s && worldsOK s) = true := by decide +kernel

/-- T-C17.5c (extended, complete) TOTALITY FOR ALL 50 SUB-COMMANDS ON EVERY LIST OF TOKENS.  `php` and the composed
sub-commands included (the exclusion of the earlier rounds is lifted: `php` was excluded because its action is
hand-written, `op subsetcard tseitin majcomp xorcomp` because their guards do arithmetic on, ask the order of, or test
the existence of what only one of the two sub-parsers binds — handled here by deriving the possible namespaces and
running an abstract interpreter proved sound over them). -/
theorem dispatch_total_every_command (tool : String) (ord : List String → Nat) (s : CliSpec) (hs : s ∈ cliSpecs)
    (hsx : s.supportedX = true) (argv : List String) : Answers (dispatchSpecX tool ord s argv) := by
  by_cases hc : s.standard = true ∨ s.inline = true
  · exact dispatch_total_all_tokens tool ord s hs hc argv
  · have hns : s.standard = false := by
      cases h : s.standard with
      | true => exact absurd (Or.inl h) hc
      | false => rfl
    have hni : s.inline = false := by
      cases h : s.inline with
      | true => exact absurd (Or.inr h) hc
      | false => rfl
    have hgood : ∀ o ∈ s.opts, goodOpt o = true :=
      fun o ho => (List.all_eq_true.1 ((List.all_eq_true.1 all_options_modelled) s (List.mem_filter.2 ⟨hs, hsx⟩))) o ho
    have := (List.all_eq_true.1 special_worlds_ok) s (List.mem_filter.2 ⟨hs, by simp [hsx, hns, hni]⟩)
    simp only [Bool.and_eq_true] at this
    exact dispatchX_total_special tool ord s hsx hni this.1 this.2 hgood argv

/-- the quirk really occurs: `stone 2 pyramid 2 --sparse=--` (TypeError in the helper, reported as a CLIError) -/
example : dispatchNamedX "cnfgen" (fun _ => 4) "formula" "stone" ["2", "pyramid", "2", "--sparse=--"] =
    .error .cliError := by decide +kernel
example : dispatchNamedX "cnfgen" (fun _ => 4) "formula" "stone" ["2", "pyramid", "2", "--sp=2"] =
    .ok (.call ⟨"SparseStoneFormula", [.graph "dag" ["pyramid", "2"],
      .opaque "bipartite_random_left_regular(nvertices, nstones, degree)"],
      [("formula_class", .param "formula_class")]⟩) := by decide +kernel
example : dispatchNamedX "cnfgen" (fun _ => 4) "formula" "and" ["2", "--", "1"] =
    .ok (.formula 3 [[1], [2], [-3]]) := by decide +kernel
example : dispatchNamedX "cnfgen" (fun _ => 4) "formula" "bphp" ["3", "4", "--he"] = .error .cliError := by
  decide +kernel
example : dispatchNamedX "cnfgen" (fun _ => 4) "formula" "bphp" ["3", "4", "-x", "-h"] = .error .helpExit := by
  decide +kernel
example : dispatchNamedX "cnfgen" (fun _ => 0) "formula" "tseitin" ["first", "file.gml"] =
    .ok (.call ⟨"TseitinFormula", [.graph "simple" ["file.gml"], .none],
      [("formula_class", .param "formula_class")]⟩) := by decide +kernel

/-! ### (a) flags, on the extended interpreter, for every list of tokens -/

/-- every option string of a flag of a handled sub-command is read as that flag; a flag has no file type; no flag is
under a `G.order()` of its helper -/
theorem flag_tables_ok :
    (cliSpecs.filter (·.supportedX)).all (fun s => (s.opts.filter isFlag).all (fun o =>
      !isFileType o.ty && notUnderOrder s o.dest &&
      o.flags.all (fun f => f != "--" && classifyTok (mainSpec s).strings f == .opt (.opt o) f none))) = true := by
  decide +kernel

/-- T-C17.5a‴ A FLAG IN FRONT OF ANY LIST OF TOKENS.  For every sub-command of the fragment's scope, every flag `o` of
it outside the mutually exclusive groups, every token `f` that the parser reads as `o` (each of its option strings —
`flag_tables_ok` —, each unique prefix — `unique_prefixes_accepted`), and EVERY list of tokens `argv` (not only the
fragment: abbreviations, `=`, clusters, `--`, unknown options, `-h`): the parser's answer on `f :: argv` is its answer
on `argv` with the binding of `o` added under the others — same bindings otherwise, same CLIError, same help exit. -/
theorem flag_in_front_parses_alike (s : CliSpec) (hs : s ∈ cliSpecs) (hsup : s.supported = true) (o : OptSpec)
    (ho : o ∈ s.opts) (hfl : isFlag o = true) (hg : o.group = "") (f : String) (hf : f ≠ "--")
    (hc : classifyTok (mainSpec s).strings f = .opt (.opt o) f none) (argv : List String) :
    parseX s (f :: argv) = mapOk (fun ns => ns ++ [(o.dest, o.flagVal)]) (parseX s argv) := by
  have hwf : specWF s = true :=
    (List.all_eq_true.1 handled_specs_wellformed) s (List.mem_filter.2 ⟨hs, hsup⟩)
  have hsx : s.supportedX = true := by unfold CliSpec.supportedX; simp [hsup]
  have ht := (List.all_eq_true.1 ((List.all_eq_true.1 flag_tables_ok) s (List.mem_filter.2 ⟨hs, hsx⟩))) o
    (List.mem_filter.2 ⟨ho, hfl⟩)
  simp only [Bool.and_eq_true, Bool.not_eq_true'] at ht
  exact parseX_flag_cons s o f argv hwf ho hfl hg ht.1.1 hf hc

/-- T-C17.5a′ (extended) NON-INTERFERENCE OF FLAGS ON EVERY LIST OF TOKENS.  … and when no guard tests `o`: the run on
`f :: argv` fails as the run on `argv` does, or the helper takes the same path — the same template (`G.order()` of file
graphs replaced by the same numbers), hence the same generator and argument expressions — in a namespace where every
expression that does not mention `o.dest` has the same value.  (Exactly one argument of every call mentions `o.dest`:
`every_flag_reaches_exactly_one_argument`.)  The flags of a mutually exclusive group (`op --total --smart --knuth…`) are
covered on the fragment by `flag_noninterference`. -/
theorem flag_noninterference_x (ord : List String → Nat) (s : CliSpec) (hs : s ∈ cliSpecs)
    (hsup : s.supported = true) (o : OptSpec) (ho : o ∈ s.opts) (hfl : isFlag o = true) (hg : o.group = "")
    (f : String) (hf : f ≠ "--") (hc : classifyTok (mainSpec s).strings f = .opt (.opt o) f none)
    (hng : (guardDeps s).contains o.dest = false) (argv : List String) :
    match dispatchTemplateX ord s argv with
    | .error e => dispatchTemplateX ord s (f :: argv) = .error e
    | .ok (t, ns) =>
      ∃ ns', dispatchTemplateX ord s (f :: argv) = .ok (t, ns') ∧
        ∀ e : Expr, o.dest ∉ e.deps → evalE ns' e = evalE ns e := by
  have hwf : specWF s = true :=
    (List.all_eq_true.1 handled_specs_wellformed) s (List.mem_filter.2 ⟨hs, hsup⟩)
  have hsx : s.supportedX = true := by unfold CliSpec.supportedX; simp [hsup]
  have ht := (List.all_eq_true.1 ((List.all_eq_true.1 flag_tables_ok) s (List.mem_filter.2 ⟨hs, hsx⟩))) o
    (List.mem_filter.2 ⟨ho, hfl⟩)
  simp only [Bool.and_eq_true, Bool.not_eq_true'] at ht
  exact flagX_noninterference_lemma ord s o f argv hwf ho hfl hg ht.1.1 hf hc hng ht.1.2

/-- T-C17.5a″ (extended) VARIANT FLAGS (`randkcnf --plant`) ON EVERY LIST OF TOKENS: the flag in front does not change
the parser's verdict, and when the line is accepted every expression that does not mention the flag has the same value
in both namespaces — the flag selects the variant (`variantsAgree`, `every_flag_reaches_exactly_one_argument`) and
changes nothing else. -/
theorem variant_flag_x (s : CliSpec) (hs : s ∈ cliSpecs) (hsup : s.supported = true) (o : OptSpec)
    (ho : o ∈ s.opts) (hfl : isFlag o = true) (hg : o.group = "") (f : String) (hf : f ≠ "--")
    (hc : classifyTok (mainSpec s).strings f = .opt (.opt o) f none) (argv : List String) :
    (∀ e, parseX s (f :: argv) = .error e ↔ parseX s argv = .error e) ∧
    ∀ b, parseX s argv = .ok b → ∃ b', parseX s (f :: argv) = .ok b' ∧
      ∀ e : Expr, o.dest ∉ e.deps → evalE (namespaceOf s b') e = evalE (namespaceOf s b) e := by
  have h := flag_in_front_parses_alike s hs hsup o ho hfl hg f hf hc argv
  refine ⟨fun e => ?_, fun b hb => ?_⟩
  · rw [h]
    cases parseX s argv with
    | error e' => simp [mapOk]
    | ok b => simp [mapOk]
  · rw [h, hb]
    refine ⟨_, rfl, fun e he => ?_⟩
    exact evalE_frame _ _ o.dest
      (fun k hk => dflag_lookup_insert k o.dest o.flagVal b (defaults s) hk) e he

/-- ungrouped argument flags exist, also in the sub-commands outside `dispatch_total_all_tokens` (`op --plant`,
`subsetcard --equal`, `php --functional --onto`) -/
example : (cliSpecs.filter (fun s => s.supported && s.opts.any (fun o => isFlag o && o.group == "" &&
    !(guardDeps s).contains o.dest))).map (·.name) =
    ["domset", "kclique", "op", "php", "subsetcard", "shuffle"] := by decide +kernel

end Cnfgen.C17
