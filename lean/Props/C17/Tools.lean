/-
C17 (and C03 / C14) for the TOOL `kthlist2pebbling`, end to end (text in, text out): the composition of
  * the argparse model of the tool's parser on every token list (Cli/ToolArgs.lean),
  * the kthlist reader for `dag` (C14: `reader_raises_only_valueError`, `dag_edges_increasing`,
    `dag_kthlist_only_increasing`),
  * the representation invariant ⇒ `TopoDAG` bridge of C16 and the pebbling theorems of C03 (`peb_wf`, `peb_unsat`, `peb_axioms`),
  * the character-level DIMACS writer / reader of C06,
  * `kthlist2pebbling_is_peb` (Props/C17/Dispatch.lean: the tool and `cnfgen peb` make the same library call),
through the process model `k2pRun` (Cli/Tools.lean; outcome theorems in Props/C18/Tools.lean).
-/
import Props.C18.Tools
import Props.C16.BridgeC03a
import Props.C17.Dispatch
namespace Cnfgen.C17
open Cnfgen Cnfgen.IO Cnfgen.Cli.ToolArgs Cnfgen.Cli.Tools Cnfgen.ToolsL Cnfgen.Fam.Pebbling

/-- the CNF rendering of a formula made of clauses only is well formed when the formula is -/
theorem toCNF_wf_of_clauses (F : Formula) (h : F.WF) (hc : ∀ c ∈ F.cons, ∃ cl, c = .clause cl) : F.toCNF.WF := by
  intro c' hc' l hl
  simp only [Formula.toCNF, List.mem_flatMap] at hc'
  obtain ⟨con, hcon, hmem⟩ := hc'
  obtain ⟨cl, rfl⟩ := hc con hcon
  simp only [Con.toCNF, List.mem_singleton] at hmem
  subst hmem
  exact h _ hcon l hl

theorem peb_all_clauses (D : DiG) : ∀ c ∈ (peb D).cons, ∃ cl, c = .clause cl := by
  intro c hc
  simp only [peb, List.mem_flatMap, List.mem_cons] at hc
  obtain ⟨v, _, hc | hc⟩ := hc
  · exact ⟨_, hc⟩
  · split at hc
    · simp only [List.mem_singleton] at hc; exact ⟨_, hc⟩
    · simp at hc

/-- what the `dag` reader returns is a DAG in topological order in the sense of the pebbling theorems -/
theorem readDag_topo (u : Bool) (s : IO.Str) (D : DiG) (h : C18.readDag u s = .ok (.di D)) :
    TopoDAG D ∧ D.stillDag = true := by
  obtain ⟨D', hD, hinv, hd, _⟩ := C18.readDag_ok u s _ h
  cases hD
  exact ⟨C16.topoDAG_of_inv D hinv hd, hd⟩

/-- T-C17.6 `kthlist2pebbling`, text to text (no transformation).  For every argv and environment: if the process ends
with exit status 0 having written the characters `t`, then the input text `s` (stdin, or the file `-i` names) is
accepted by the `dag` kthlist reader — every predecessor it lists is smaller than its vertex — as a DAG `D` in
topological order; `PebblingFormula(D)` accepts it; `t` is the DIMACS rendering of that formula (header unless `-q`); the
formula is well formed, says exactly the pebbling axioms of `D` (`C03.peb_axioms`), and is UNSATISFIABLE as soon as `D` has
a vertex; and, its two counts being printable, the strict reader applied to the written characters returns it. -/
theorem k2p_end_to_end (env : Env) (argv : List String) (d : Dest) (t : IO.Str)
    (h : k2pRun env argv = some (.ok d t)) :
    ∃ st s u n D,
      parse k2pSpec (act env) argv {} = .ok st ∧ inputOf env st = (.text s, u, n) ∧
      C18.readDag u s = .ok (.di D) ∧ TopoDAG D ∧
      (∀ x ∈ GraphFmt.kthPairs (GraphLex.lexKth (if u then GraphLex.universalNL s else s)), x.1 < x.2) ∧
      pebbling D = .ok (peb D) ∧
      t = renderDimacsText (peb D).toCNF (if st.verbose then some (toIOHeader (C18.k2pHdr env u s)) else none) none ∧
      (peb D).toCNF.WF ∧ (peb D).toCNF.nvars = D.n ∧
      (∀ α, (peb D).toCNF.holds α = true ↔ PebSpec D (fun v => α (xvar D.n v) = true)) ∧
      (1 ≤ D.n → ¬ ∃ α, (peb D).toCNF.holds α = true) ∧
      (C06.Printable (peb D).toCNF → ∀ u', readDimacsText u' t = .ok (peb D).toCNF) := by
  obtain ⟨st, s, u, n, D, hp, hi, hr, _, hd, _, ht⟩ := C18.k2p_ok_spec env argv d t h
  obtain ⟨htopo, _⟩ := readDag_topo u s D hr
  have hwf : (peb D).WF := C03.peb_wf D htopo
  have hcwf : (peb D).toCNF.WF := toCNF_wf_of_clauses _ hwf (peb_all_clauses D)
  refine ⟨st, s, u, n, D, hp, hi, hr, htopo, ?_, C03.pebbling_accepts D hd, ht, hcwf, rfl, ?_, ?_, ?_⟩
  · exact C14.dag_kthlist_only_increasing _ _ hr
  · intro α
    rw [Formula.toCNF_holds α _ hwf]
    exact C03.peb_axioms D α
  · intro hn
    exact (C03.peb_unsat_rendered D htopo hn).1
  · intro hpr u'
    rw [ht]
    exact (C18.written_text_readable _ _ hcwf hpr u').1

/-- (b) `tool_output_readable` for kthlist2pebbling: what a successful run wrote is the DIMACS rendering of a well-formed
formula `G`; when its two counts are printable (at most 4300 digits — the graph lexer of the model has no digit limit,
so this is a hypothesis here; for cnfshuffle it is proved) the strict reader applied to the written CHARACTERS returns `G`,
the problem row states the true counts, every row before it is a comment and every row after it a clause -/
theorem tool_output_readable_k2p (env : Env) (argv : List String) (d : Dest) (t : IO.Str)
    (h : k2pRun env argv = some (.ok d t)) :
    ∃ G : CNF, G.WF ∧ (∃ hdr, t = renderDimacsText G hdr none) ∧
      (C06.Printable G → ∀ u : Bool, readDimacsText u t = .ok G ∧
        ∃ comments : List Row,
          lex u t = comments ++ [Tok.word ['p'], Tok.word "cnf".toList, Tok.int (G.nvars : Int), Tok.int (G.clauses.length : Int)] ::
            G.clauses.map (fun c => c.map Tok.int ++ [Tok.int 0]) ∧
          ∀ r ∈ comments, r.cls = .comment ∧ ∃ rest, r = Tok.word ['c'] :: rest) := by
  obtain ⟨st, s, u, n, D, _, _, _, _, _, _, ht, hwf, _⟩ := k2p_end_to_end env argv d t h
  refine ⟨(peb D).toCNF, hwf, ⟨_, ht⟩, ?_⟩
  intro hp u'
  rw [ht]
  exact C18.written_text_readable _ _ hwf hp u'

/-- T-C17.6b the tool and `cnfgen peb <file>`: by `kthlist2pebbling_is_peb` both command lines make ONE library call, the
same generator `PebblingFormula` applied to one graph and nothing else; `pebbling` is the model of that generator
(compared with it by the correspondence of C03), and the tool writes exactly `pebbling D` of the DAG it read -/
theorem k2p_writes_what_peb_builds (env : Env) (argv : List String) (d : Dest) (t : IO.Str)
    (h : k2pRun env argv = some (.ok d t)) :
    (Cli.pebTemplates.length = 1 ∧ Cli.k2pTemplates.length = 1 ∧
      (Cli.pebTemplates.all (fun a => Cli.k2pTemplates.all (Cli.sameCallShape a))) = true) ∧
    ∃ st s u n D F, inputOf env st = (.text s, u, n) ∧ C18.readDag u s = .ok (.di D) ∧
      pebbling D = .ok F ∧
      t = renderDimacsText F.toCNF (if st.verbose then some (toIOHeader (C18.k2pHdr env u s)) else none) none := by
  refine ⟨kthlist2pebbling_is_peb, ?_⟩
  obtain ⟨st, s, u, n, D, _, hi, hr, _, _, hacc, ht, _⟩ := k2p_end_to_end env argv d t h
  exact ⟨st, s, u, n, D, peb D, hi, hr, hacc, ht⟩

/-- T-C14.3 at tool level: a kthlist text in which some listed predecessor is NOT smaller than its vertex (not a DAG in
increasing order) never produces a formula — the run reads it and ends in the reported error (prefix `c `) -/
theorem k2p_refuses_non_increasing (env : Env) (st : Args) (s : IO.Str) (u : Bool) (n : String)
    (hi : inputOf env st = (.text s, u, n))
    (hbad : ∃ x ∈ GraphFmt.kthPairs (GraphLex.lexKth (if u then GraphLex.universalNL s else s)), ¬ x.1 < x.2) :
    k2pBody env st = .cliError .reader "c " := by
  rcases C18.k2pBody_cases env st with ⟨u', n', hi', _⟩ | ⟨u', n', hi', _⟩ | ⟨s', u', n', hi', _, hb⟩ |
      ⟨s', u', n', D, hi', hr, _, _, _⟩
  · rw [hi] at hi'; cases hi'
  · rw [hi] at hi'; cases hi'
  · exact hb
  · rw [hi] at hi'
    cases hi'
    obtain ⟨x, hx, hnot⟩ := hbad
    exact absurd (C14.dag_kthlist_only_increasing _ _ hr x hx) hnot

/-- … stated on the process: whenever the parse succeeds and the text named has a non-increasing edge -/
theorem k2p_non_dag_is_cliError (env : Env) (argv : List String) (st : Args)
    (hp : parse k2pSpec (act env) argv {} = .ok st) (s : IO.Str) (u : Bool) (n : String)
    (hi : inputOf env st = (.text s, u, n))
    (hbad : ∃ x ∈ GraphFmt.kthPairs (GraphLex.lexKth (if u then GraphLex.universalNL s else s)), ¬ x.1 < x.2) :
    k2pRun env argv = some (.cliError .reader "c ") := by
  unfold k2pRun
  rw [hp]
  simp only [k2p_refuses_non_increasing env st s u n hi hbad]

/-! ### `-q`, `-i`, `-o` tokens at the head of any command line -/

/-- the process started from a namespace `st0` (`k2pRun` is `… {}`) -/
def k2pFrom (env : Env) (st0 : Args) (argv : List String) : Option Cli.Tools.Outcome :=
  match parse k2pSpec (act env) argv st0 with
  | .error .help => some .help
  | .error .error => some (.cliError .parser "c ")
  | .error (.sub _ _ _ _) => none
  | .ok st => some (k2pBody env st)

theorem k2pRun_eq_from (env : Env) (argv : List String) : k2pRun env argv = k2pFrom env {} argv := rfl

/-- `-q` / `--quiet` first: quiet/verbose selects the header and changes nothing else -/
theorem k2p_quiet_token (env : Env) (st0 : Args) (argv : List String) :
    k2pFrom env st0 ("-q" :: argv) = k2pFrom env { st0 with verbose := false } argv ∧
    k2pFrom env st0 ("--quiet" :: argv) = k2pFrom env { st0 with verbose := false } argv := by
  constructor
  · unfold k2pFrom
    rw [parse_flag_head k2pSpec (act env) "-q" ⟨"verbose", ["--quiet", "-q"], .flag⟩ '-' ['q'] rfl rfl (by decide)
      (by decide +kernel) rfl argv st0]
    rfl
  · unfold k2pFrom
    rw [parse_flag_head k2pSpec (act env) "--quiet" ⟨"verbose", ["--quiet", "-q"], .flag⟩ '-' "-quiet".toList rfl rfl
      (by decide) (by decide +kernel) rfl argv st0]
    rfl

/-- `-i <file>` first (a file name that does not start with `-`): a file that cannot be opened is a reported error;
otherwise the rest of the line is processed with that file as the input -/
theorem k2p_input_token (env : Env) (st0 : Args) (f : String) (hf : f.toList.head? ≠ some '-') (argv : List String) :
    k2pFrom env st0 ("-i" :: f :: argv) =
      if st0.opened.contains f || (env.file f).isSome then k2pFrom env { st0 with input := .file f } argv
      else some (.cliError .parser "c ") := by
  have hne : f ≠ "-" := by intro h; rw [h] at hf; simp at hf
  unfold k2pFrom
  rw [parse_one_head k2pSpec (act env) "-i" f ⟨"input", ["--input", "-i"], .one⟩ '-' ['i'] rfl rfl (by decide)
    (by decide +kernel) rfl hf argv st0]
  have hmap : act env st0 ⟨"input", ["--input", "-i"], .one⟩ (.val f) =
      (openRead env st0 f).map (fun i => { st0 with input := i }) := rfl
  by_cases hc : (st0.opened.contains f || (env.file f).isSome) = true
  · have hact : act env st0 ⟨"input", ["--input", "-i"], .one⟩ (.val f) = some { st0 with input := .file f } := by
      rw [hmap]; unfold openRead; rw [if_neg hne, if_pos hc]; rfl
    rw [hact, if_pos hc]
  · have hact : act env st0 ⟨"input", ["--input", "-i"], .one⟩ (.val f) = none := by
      rw [hmap]; unfold openRead; rw [if_neg hne, if_neg hc]; rfl
    rw [hact, if_neg hc]

/-! non-vacuity -/

example : (match C18.readDag true "3\r\n1 : 0\r\n2 : 0\r\n3 : 1 2 0\r\n".toList with
    | .ok (.di D) => D.n == 3 && D.stillDag && D.edges.length == 2
    | _ => false) = true := by decide +kernel

/-- a text with a backward edge `2 → 1`: the hypothesis of `k2p_non_dag_is_cliError` holds -/
example : ∃ x ∈ GraphFmt.kthPairs (GraphLex.lexKth "2\n1 : 2 0\n2 : 0\n".toList), ¬ x.1 < x.2 :=
  ⟨(2, 1), by decide +kernel, by decide⟩

example : k2pRun (C18.demoEnv (.text "2\n".toList)) ["-i", "missing"] = some (.cliError .parser "c ") := by decide +kernel

end Cnfgen.C17
