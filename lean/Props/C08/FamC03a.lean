import Props.C08
import Props.C03.Order
namespace Cnfgen.C08
open Cnfgen Cnfgen.Fam Cnfgen.FamC03a Cnfgen.Fam.Pebbling Cnfgen.Fam.Ordering Cnfgen.C03

theorem peb_same (D : DiG) (h : TopoDAG D) (α : Assign) :
    (peb D).toCNF.holds α = (peb D).toOPB.holds α := (renderings_agree _ (C03.peb_wf D h)).2 α
theorem sparseStone_same (D : DiG) (B : BipG) (hD : TopoDAG D) (hl : B.l = D.n) (hB : BipOK B) (α : Assign) :
    (sstone D B).toCNF.holds α = (sstone D B).toOPB.holds α := (renderings_agree _ (C03.sstone_wf D B hD hl hB)).2 α
theorem stone_same (D : DiG) (k : Nat) (hD : TopoDAG D) (α : Assign) :
    (sstone D (BipG.complete D.n k)).toCNF.holds α = (sstone D (BipG.complete D.n k)).toOPB.holds α :=
  (renderings_agree _ (stone_wf D k hD)).2 α
theorem ordering_same (G : SimpleG) (hG : NbrsOK G) (total smart plant : Bool) (knuth : Int) (α : Assign) :
    (gop G total smart plant knuth).toCNF.holds α = (gop G total smart plant knuth).toOPB.holds α :=
  (renderings_agree _ (C03.gop_wf G hG total smart plant knuth)).2 α

end Cnfgen.C08
