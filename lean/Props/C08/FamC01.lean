import Props.C08
import Props.C01.Php
import Props.C01.Gphp
import Props.C01.Bphp
import Props.C01.Rphp
import Props.C01.Counting
import Props.C01.Matching
import Props.C01.SubsetCard
import Props.C01.CliqueColoring
namespace Cnfgen.C08
open Cnfgen Cnfgen.Fam Cnfgen.C01

theorem php_same (m n : Nat) (f o : Bool) (α : Assign) :
    (phpF m n f o).toCNF.holds α = (phpF m n f o).toOPB.holds α := (renderings_agree _ (php_wf m n f o)).2 α
theorem gphp_same (B : BipG) (hg : C01.GoodBip B) (f o : Bool) (α : Assign) :
    (gphp B f o).toCNF.holds α = (gphp B f o).toOPB.holds α := (renderings_agree _ (gphp_wf B hg f o)).2 α
theorem bphp_same (m n : Nat) (α : Assign) :
    (bphpF m n).toCNF.holds α = (bphpF m n).toOPB.holds α := (renderings_agree _ (bphp_wf m n)).2 α
theorem rphp_same (m r n : Nat) (α : Assign) :
    (rphpF m r n).toCNF.holds α = (rphpF m r n).toOPB.holds α := (renderings_agree _ (rphp_wf m r n)).2 α
theorem counting_same (M p : Nat) (α : Assign) :
    (countingF M p).toCNF.holds α = (countingF M p).toOPB.holds α := (renderings_agree _ (counting_wf M p)).2 α
theorem matching_same (G : SimpleG) (hg : C01.GoodSimple G) (α : Assign) :
    (pmF G).toCNF.holds α = (pmF G).toOPB.holds α := (renderings_agree _ (pm_wf G hg)).2 α
theorem subsetCard_same (B : BipG) (hg : Fam.GoodBip B) (eq : Bool) (α : Assign) :
    (subsetCardF B eq).toCNF.holds α = (subsetCardF B eq).toOPB.holds α := (renderings_agree _ (sc_wf B hg eq)).2 α
theorem cliqueColoring_same (n k c : Nat) (α : Assign) :
    (cliqueColoringF n k c).toCNF.holds α = (cliqueColoringF n k c).toOPB.holds α :=
  (renderings_agree _ (cc_wf n k c)).2 α

end Cnfgen.C08
