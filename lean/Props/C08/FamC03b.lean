import Props.C08
import Props.C03.Ramsey
namespace Cnfgen.C08
open Cnfgen Cnfgen.Fam Cnfgen.C03

theorem ptn_same (N : Nat) (F : Formula) (h : Ramsey.ptn (N : Int) = .ok F) (α : Assign) :
    F.toCNF.holds α = F.toOPB.holds α := (renderings_agree _ (ptn_nvars_wf N F h).2).2 α
theorem ramsey_same (s k N : Nat) (hs : 1 ≤ s) (hk : 1 ≤ k) (F : Formula)
    (h : Ramsey.ramseyNumber (s : Int) (k : Int) (N : Int) = .ok F) (α : Assign) :
    F.toCNF.holds α = F.toOPB.holds α := (renderings_agree _ (ramsey_nvars_wf s k N hs hk F h).2).2 α
theorem vdw2_same (N k1 k2 : Nat) (h1 : 1 ≤ k1) (h2 : 1 ≤ k2) (F : Formula)
    (h : Ramsey.vdw (N : Int) (k1 : Int) (k2 : Int) [] = .ok F) (α : Assign) :
    F.toCNF.holds α = F.toOPB.holds α := (renderings_agree _ (vdw2_nvars_wf N k1 k2 h1 h2 F h).2).2 α
theorem cpls_same (a p q : Nat) (ha : 1 ≤ a) (F : Formula)
    (h : Cpls.cpls (a : Int) ((2 ^ p : Nat) : Int) ((2 ^ q : Nat) : Int) = .ok F) (α : Assign) :
    F.toCNF.holds α = F.toOPB.holds α := (renderings_agree _ (cpls_counts_wf a p q ha F h).2.2).2 α
theorem pitfall_same (ny nz k : Nat) (g : SimpleG) (hg : GraphOK g) (α : Assign) :
    (Pitfall.build ny nz k g).toCNF.holds α = (Pitfall.build ny nz k g).toOPB.holds α :=
  (renderings_agree _ (pitfall_nvars_wf ny nz k g hg).2).2 α

end Cnfgen.C08
