import Props.C08
import Props.C02.Graphs2
namespace Cnfgen.C08
open Cnfgen Cnfgen.Fam.G2 Cnfgen.C02

theorem iso_same (G1 G2 : SimpleG) (b : Bool) (α : Assign) :
    (graphIsomorphismOpt G1 G2 b).toCNF.holds α = (graphIsomorphismOpt G1 G2 b).toOPB.holds α :=
  (renderings_agree _ (graphIsomorphismOpt_wf G1 G2 b)).2 α
theorem automorphism_same (G : SimpleG) (α : Assign) :
    (graphAutomorphism G).toCNF.holds α = (graphAutomorphism G).toOPB.holds α :=
  (renderings_agree _ (graphAutomorphism_wf G)).2 α
theorem clique_same (G : SimpleG) (k : Nat) (sb : Bool) (α : Assign) :
    (cliqueCore G k sb).toCNF.holds α = (cliqueCore G k sb).toOPB.holds α := (renderings_agree _ (cliqueCore_wf G k sb)).2 α
theorem binaryClique_same (G : SimpleG) (k : Nat) (sb : Bool) (α : Assign) :
    (binaryCliqueCore G k sb).toCNF.holds α = (binaryCliqueCore G k sb).toOPB.holds α :=
  (renderings_agree _ (binaryCliqueCore_wf G k sb)).2 α
theorem subgraph_same (G H : SimpleG) (ind sb : Bool) (α : Assign) :
    (subgraphFormula G H ind sb).toCNF.holds α = (subgraphFormula G H ind sb).toOPB.holds α :=
  (renderings_agree _ (subgraphFormula_wf G H ind sb)).2 α
theorem ramseyWitness_same (G : SimpleG) (k s : Nat) (sb : Bool) (α : Assign) :
    (ramseyWitnessCore G k s sb).toCNF.holds α = (ramseyWitnessCore G k s sb).toOPB.holds α :=
  (renderings_agree _ (ramseyWitnessCore_wf G k s sb)).2 α

end Cnfgen.C08
