import Props.C08
import Props.C02.Graphs1
namespace Cnfgen.C08
open Cnfgen Cnfgen.Fam Cnfgen.C02

theorem tseitin_same (G : SimpleG) (hG : GoodGraph G) (ch : Option (List Bool)) (α : Assign) :
    (tseitin G ch).toCNF.holds α = (tseitin G ch).toOPB.holds α := (renderings_agree _ (C02.tseitin_wf G hG ch).1).2 α
theorem coloring_same (G : SimpleG) (hG : GoodGraph G) (k : Nat) (fn : Bool) (α : Assign) :
    (coloringF G k fn).toCNF.holds α = (coloringF G k fn).toOPB.holds α := (renderings_agree _ (coloring_wf G hG k fn).1).2 α
theorem evenColoring_same (G : SimpleG) (hG : GoodGraph G) (α : Assign) :
    (evenColoringF G).toCNF.holds α = (evenColoringF G).toOPB.holds α := (renderings_agree _ (evenColoring_wf G hG).1).2 α
theorem domset_same (G : SimpleG) (hG : GoodGraph G) (d : Nat) (alt : Bool) (α : Assign) :
    (domsetF G d alt).toCNF.holds α = (domsetF G d alt).toOPB.holds α := (renderings_agree _ (domset_wf G hG d alt).1).2 α
theorem tiling_same (G : SimpleG) (hG : GoodGraph G) (α : Assign) :
    (tiling G).toCNF.holds α = (tiling G).toOPB.holds α := (renderings_agree _ (C02.tiling_wf G hG).1).2 α

end Cnfgen.C08
