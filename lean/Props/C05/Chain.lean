/-
C05 — chains of transformations (`-T a -T b …`): composition of the gadgets.
-/
import Props.C05
namespace Cnfgen.C05
open Cnfgen Subst

/-- T-C05.4 if `G` is `F` composed with the gadget `ind₁` and `H` is `G` composed with `ind₂`, then `H` is `F`
composed with the gadget obtained by applying `ind₂` first and `ind₁` to its result: a chain of transformations
composes the formula with the nested gadgets, and the variable count is the one promised by the last step -/
theorem composes_trans {F G H : CNF} {M₁ M₂ : Nat} {ind₁ ind₂ : Assign → Assign}
    (h₁ : Composes F G M₁ ind₁) (h₂ : Composes G H M₂ ind₂) :
    Composes F H M₂ (fun β => ind₁ (ind₂ β)) :=
  ⟨h₂.nvars, h₂.wf, fun β => by rw [h₂.holds β, h₁.holds (ind₂ β)]⟩

/-- `-T xor 2 -T or 3` on any well-formed formula: `6·N` variables, and the result holds iff `F` holds under
"xor of the two ors" -/
theorem xor_then_or (F : CNF) (hF : F.WF) :
    ∃ G H, xorSubst F 2 = .ok G ∧ orSubst G 3 = .ok H ∧
      Composes F H (3 * (2 * F.nvars))
        (fun β v => decide (blockCount 2 (fun w => decide (1 ≤ blockCount 3 β w)) v % 2 = 1)) := by
  obtain ⟨G, hG, cG⟩ := xor_composes F 2 (by omega) hF
  obtain ⟨H, hH, cH⟩ := or_composes G 3 (by omega) cG.wf
  refine ⟨G, H, hG, hH, ?_⟩
  have := composes_trans cG cH
  rw [cG.nvars] at this
  exact this

end Cnfgen.C05
