/-
C15 — graph constructions on the command line deliver the structure they name.
Property theorems only; helper lemmas are in `Lemmas/GraphBuild*.lean`.

Reading guide.  A sampler of the model is a function of the list of random draws it will consume
(`GRand.RM`); its outcome is `ok G rest` (the code returns `G`), `exc e` (the code raises `e`),
`foreign` (a third-party exception escapes) or `stuck` (the draw list is not a legal record of a run:
the only assumptions on Python's generator — `sample` returns distinct members, `randint` stays in
its bounds, `random()` is in [0,1) — are checked by the model itself).  A statement
`∀ ds, sampler … ds = ok G rest → P G` therefore speaks about EVERY outcome of the generator.

* `BipG.leftDeg G u`  = `G.right_degree(u)` of the code (number of right neighbours of left vertex u)
* `BipG.rightDeg G v` = `G.left_degree(v)`
* `BipG.InvGB G`        = the object is consistent (adjacency rows ↔ stored edges, no duplicates)
-/
import Lemmas.GraphBuildCli
namespace Cnfgen.C15
open Cnfgen Cnfgen.GRand Cnfgen.GCli Cnfgen.GBuild

/-! ## T-C15.1 closed forms -/

/-- the documented edges of the pyramid of height `h`: vertices numbered layer by layer from the
bottom (layer `k` has `h+1-k` vertices, `pvtx h k i` is its `i`-th one); `(k,i)` and `(k,i+1)` both
point to `(k+1,i)` -/
def PyramidEdge (h : Nat) (e : Nat × Nat) : Prop :=
  ∃ k i, k < h ∧ i < h - k ∧ (e = (pvtx h k i, pvtx h (k + 1) i) ∨ e = (pvtx h k (i + 1), pvtx h (k + 1) i))

/-- T-C15.1a `dag_pyramid(h)`: `(h+1)(h+2)/2` vertices, exactly the documented edges, every edge
goes from a smaller to a larger index, the object reports itself acyclic -/
theorem pyramid_spec (h : Nat) :
    ∃ G, pyramid (h : Int) = .ok G ∧ G.n = (h + 1) * (h + 2) / 2 ∧
      (∀ e, e ∈ G.edgeset ↔ PyramidEdge h e) ∧ (∀ e ∈ G.edgeset, e.1 < e.2) ∧ G.stillDag = true := by
  have hr := pyramidSpec_range h
  obtain ⟨G, hG, hn, hm, hd, _⟩ := DiG.ofEdges_spec_gb (pyramidOrder h) (pyramidSpec h)
    (fun e he => by have := hr e he; omega) (fun e he => (hr e he).2.1)
  refine ⟨G, ?_, hn, ?_, ?_, hd⟩
  · simp only [pyramid, Int.toNat_natCast, pyramidCalls_eq]
    rw [if_neg (by omega)]; exact hG
  · intro e; rw [hm e, mem_pyramidSpec]; rfl
  · intro e he; exact (hr e ((hm e).1 he)).2.1

/-- the vertex numbering of the pyramid covers `1..(h+1)(h+2)/2`: layer `h+1` would start right
after the last vertex -/
theorem pyramid_layers_cover (h : Nat) : layerStart h 0 = 1 ∧ layerStart h (h + 1) = (h + 1) * (h + 2) / 2 + 1 :=
  ⟨rfl, layerStart_top h⟩

theorem pyramid_refuses (h : Int) (hneg : h < 0) : pyramid h = .error .valueError := by
  simp [pyramid, hneg]

example : ∃ G, pyramid 2 = .ok G ∧ G.n = 6 ∧ G.edgeset.length = 6 := ⟨_, rfl, rfl, rfl⟩

/-- T-C15.1b `dag_complete_binary_tree(h)`: `2^(h+1) - 1` vertices; the internal vertex
`2^h + 1 + j` (`j < 2^h - 1`) has exactly the two children `2j+1`, `2j+2`; every edge increasing -/
theorem tree_spec (h : Nat) :
    ∃ G, tree (h : Int) = .ok G ∧ G.n = 2 ^ (h + 1) - 1 ∧
      (∀ e, e ∈ G.edgeset ↔ ∃ j, j < 2 ^ h - 1 ∧ (e = (2 * j + 1, 2 ^ h + 1 + j) ∨ e = (2 * j + 2, 2 ^ h + 1 + j))) ∧
      (∀ e ∈ G.edgeset, e.1 < e.2) ∧ G.stillDag = true := by
  have hr := treeSpec_range h
  obtain ⟨G, hG, hn, hm, hd, _⟩ := DiG.ofEdges_spec_gb (treeOrder h) (treeSpec h)
    (fun e he => by have := hr e he; omega) (fun e he => (hr e he).2.1)
  refine ⟨G, ?_, ?_, ?_, ?_, hd⟩
  · simp only [tree, Int.toNat_natCast, treeCalls_eq]
    rw [if_neg (by omega)]; exact hG
  · rw [hn, treeOrder, Nat.pow_succ]; omega
  · intro e; rw [hm e, mem_treeSpec]
  · intro e he; exact (hr e ((hm e).1 he)).2.1

theorem tree_refuses (h : Int) (hneg : h < 0) : tree h = .error .valueError := by
  simp [tree, hneg]

example : ∃ G, tree 2 = .ok G ∧ G.n = 7 ∧ (5, 7) ∈ G.edgeset ∧ (6, 7) ∈ G.edgeset := ⟨_, rfl, rfl, by decide, by decide⟩

/-- T-C15.1c `dag_path(n)`: `n+1` vertices, edges `i → i+1` -/
theorem path_spec (len : Nat) :
    ∃ G, path (len : Int) = .ok G ∧ G.n = len + 1 ∧
      (∀ e, e ∈ G.edgeset ↔ 1 ≤ e.1 ∧ e.1 ≤ len ∧ e.2 = e.1 + 1) ∧ G.stillDag = true ∧ G.m = len := by
  obtain ⟨G, hG, hn, hm, hd, hc⟩ := DiG.ofEdges_spec_gb (len + 1) (pathCalls len)
    (fun e he => by have := (mem_pathCalls len e).1 he; omega)
    (fun e he => by have := (mem_pathCalls len e).1 he; omega)
  refine ⟨G, ?_, hn, fun e => by rw [hm e, mem_pathCalls], hd, ?_⟩
  · simp only [path, Int.toNat_natCast]; rw [if_neg (by omega)]; exact hG
  · rw [hc (nodup_map_inj _ (fun a b hab => by simpa using hab) (nodup_rangeN _ _))]
    simp [pathCalls, length_rangeN]

theorem path_refuses (n : Int) (hneg : n < 0) : path n = .error .valueError := by
  simp [path, hneg]

/-- T-C15.1d `Graph.complete_graph(n)`: `n` vertices, `n(n-1)/2` edges, all pairs -/
theorem complete_spec (n : Nat) :
    ∃ G, completeGraph (n : Int) = .ok G ∧ G.n = n ∧ 2 * G.m = n * (n - 1) ∧
      ∀ e, e ∈ G.edgeset ↔ 1 ≤ e.1 ∧ e.1 ≤ n ∧ 1 ≤ e.2 ∧ e.2 ≤ n ∧ e.1 ≠ e.2 := by
  obtain ⟨G, hG, hn, hm, _, hmem⟩ := SimpleG.ofEdges_spec_gb n (completeCalls n)
    (fun e he => (mem_completeCalls n e).1 he) (nodup_completeCalls n)
  refine ⟨G, ?_, hn, by rw [hm, length_completeCalls], ?_⟩
  · simp only [completeGraph, Int.toNat_natCast]; rw [if_neg (by omega)]; exact hG
  · intro e; rw [hmem e, mem_completeCalls, mem_completeCalls]; simp only; omega

/-- T-C15.1e `Graph.empty_graph(n)` -/
theorem empty_spec (n : Nat) : ∃ G, emptyGraph (n : Int) = .ok G ∧ G.n = n ∧ G.m = 0 ∧ G.edgeset = [] :=
  ⟨SimpleG.init n, by simp [emptyGraph], rfl, rfl, rfl⟩

/-- T-C15.1f `Graph.star_graph(n)`: `n+1` vertices, the centre `n+1` joined to everybody -/
theorem star_spec (n : Nat) :
    ∃ G, starGraph (n : Int) = .ok G ∧ G.n = n + 1 ∧ G.m = n ∧
      ∀ e, e ∈ G.edgeset ↔ (1 ≤ e.1 ∧ e.1 ≤ n ∧ e.2 = n + 1) ∨ (1 ≤ e.2 ∧ e.2 ≤ n ∧ e.1 = n + 1) := by
  obtain ⟨G, hG, hn, hm, _, hmem⟩ := SimpleG.ofEdges_spec_gb (n + 1) (starCalls n)
    (fun e he => by have := (mem_starCalls n e).1 he; omega) (nodup_starCalls n)
  refine ⟨G, ?_, hn, by rw [hm]; simp [starCalls, length_rangeN], ?_⟩
  · simp only [starGraph, Int.toNat_natCast]
    rw [if_neg (by omega)]
    have : ((n : Int) + 1).toNat = n + 1 := by omega
    rw [this]; exact hG
  · intro e; simp only [hmem e, mem_starCalls]

/-- T-C15.1g `CompleteBipartiteGraph(L, R)`: every pair is an edge, degrees `R` and `L` -/
theorem completeBipartite_spec (l r : Nat) :
    ∃ G, completeBipartite (l : Int) (r : Int) = .ok G ∧ G.l = l ∧ G.r = r ∧
      (∀ e, e ∈ G.edgeset ↔ 1 ≤ e.1 ∧ e.1 ≤ l ∧ 1 ≤ e.2 ∧ e.2 ≤ r) ∧ G.numberOfEdges = l * r := by
  refine ⟨BipG.complete l r, by simp [completeBipartite], rfl, rfl, ?_, ?_⟩
  · intro e
    obtain ⟨a, b⟩ := e
    simp only [BipG.complete, List.mem_flatMap, List.mem_map, List.mem_range, Prod.mk.injEq]
    constructor
    · rintro ⟨i, hi, j, hj, rfl, rfl⟩; omega
    · intro h; exact ⟨a - 1, by omega, b - 1, by omega, by omega, by omega⟩
  · simp only [BipG.numberOfEdges, BipG.complete, List.length_flatMap, List.length_map, List.length_range]
    rw [sum_map_const]; simp

/-- T-C15.1h `bipartite_shift(N, M, pattern)`: left vertex `u` is joined exactly to
`1 + (u - 1 + o) mod M` for the offsets `o` of the pattern; the caller's list is not touched
(first component; this is the fix of D9) -/
theorem shift_spec (N M : Int) (pattern : List Int) (hN : 1 ≤ N) (hM : 1 ≤ M) :
    ∃ G, shift N M pattern = .ok (pattern, G) ∧ G.InvGB ∧ G.l = N.toNat ∧ G.r = M.toNat ∧
      ∀ e, e ∈ G.edgeset ↔ ∃ u : Nat, 1 ≤ u ∧ (u : Int) ≤ N ∧ ∃ o ∈ pattern,
        e = (u, (1 + ((u : Int) - 1 + o) % M).toNat) := by
  have hsh : shift N M pattern = ((BipG.init N.toNat M.toNat).addEdgesFrom
      (shiftCalls N.toNat M.toNat (sortInt pattern)) >>= fun G => pure (pattern, G)) := by
    unfold shift; rw [if_neg (by omega)]
  rw [hsh]
  cases hadd : (BipG.init N.toNat M.toNat).addEdgesFrom (shiftCalls N.toNat M.toNat (sortInt pattern)) with
  | error err =>
    exfalso
    obtain ⟨_, x, hx, hbad⟩ := BipG.addEdgesFrom_error_gb _ _ _ hadd
    rw [mem_shiftCalls] at hx
    obtain ⟨u, h1, h2, o, _, rfl⟩ := hx
    apply hbad
    have hM' : ((M.toNat : Nat) : Int) = M := Int.toNat_of_nonneg (by omega)
    have := Int.emod_nonneg ((u : Int) - 1 + o) (show (M.toNat : Int) ≠ 0 by omega)
    have := Int.emod_lt_of_pos ((u : Int) - 1 + o) (show (0 : Int) < (M.toNat : Int) by omega)
    simp only [BipG.init]; omega
  | ok G =>
    obtain ⟨hI, hl, hr, hm, _⟩ := BipG.addEdgesFrom_spec_gb _ _ G (BipG.inv_init_gb _ _) hadd
    refine ⟨G, rfl, hI, hl, hr, ?_⟩
    intro e
    rw [hm e]
    simp only [BipG.init, List.not_mem_nil, false_or, List.mem_map]
    have hM' : ((M.toNat : Nat) : Int) = M := Int.toNat_of_nonneg (by omega)
    constructor
    · rintro ⟨x, hx, rfl⟩
      rw [mem_shiftCalls] at hx
      obtain ⟨u, h1, h2, o, ho, rfl⟩ := hx
      refine ⟨u, h1, by omega, o, (perm_sortInt pattern).mem_iff.1 ho, ?_⟩
      simp [natPair, hM']
    · rintro ⟨u, h1, h2, o, ho, rfl⟩
      refine ⟨((u : Int), 1 + ((u : Int) - 1 + o) % (M.toNat : Int)), ?_, by simp [natPair, hM']⟩
      rw [mem_shiftCalls]
      exact ⟨u, h1, by omega, o, (perm_sortInt pattern).mem_iff.2 ho, rfl⟩

theorem shift_refuses (N M : Int) (pattern : List Int) (h : N < 1 ∨ M < 1) :
    shift N M pattern = .error .valueError := by
  simp [shift, h]

example : ∃ G, shift 3 4 [2, 0, 1] = .ok ([2, 0, 1], G) ∧ G.edgeset.length = 9 := ⟨_, rfl, rfl⟩

/-! ## T-C15.2 samplers and random modifications — for ALL draws -/

/-- T-C15.2a `glrm`: whenever `bipartite_random_m_edges(L, R, m)` returns — sparse strategy
(`m ≤ L*R//3`) or dense strategy alike — the graph has exactly `m` edges -/
theorem glrm_exact (L R m : Int) (ds rest : List Draw) (G : BipG)
    (h : randomMEdges L R m ds = .ok G rest) :
    G.numberOfEdges = m.toNat ∧ 0 ≤ m ∧ m ≤ L * R ∧ G.l = L.toNat ∧ G.r = R.toNat ∧ G.InvGB := by
  obtain ⟨_, _, h3, h4, hI, hl, hr, hn⟩ := randomMEdges_ok L R m ds rest G h
  exact ⟨hn, h3, h4, hl, hr, hI⟩

/-- … it is refused (`ValueError`) exactly outside `L, R ≥ 1, 0 ≤ m ≤ L*R`, and nothing else is
ever raised: in particular the `assert` at the end of the function cannot fail -/
theorem glrm_refusal (L R m : Int) (ds : List Draw) (e : Err) (h : randomMEdges L R m ds = .exc e) :
    e = .valueError ∧ (L < 1 ∨ R < 1 ∨ m < 0 ∨ m > L * R) :=
  randomMEdges_exc L R m ds e h

theorem glrm_refuses (L R m : Int) (h : L < 1 ∨ R < 1 ∨ m < 0 ∨ m > L * R) (ds : List Draw) :
    randomMEdges L R m ds = .exc .valueError := by
  unfold randomMEdges; rw [if_pos h]; rfl

/-- non-vacuity: a legal draw sequence for the dense branch (`m = 3 > 2*2//3`) … -/
example : ∃ G, randomMEdges 2 2 3 [.samplePairs [(2, 1), (1, 1), (2, 2)]] = .ok G [] ∧ G.numberOfEdges = 3 :=
  ⟨_, rfl, rfl⟩
/-- … and one for the sparse branch that draws the same pair twice -/
example : ∃ G, randomMEdges 3 3 2 [.randint 1, .randint 2, .randint 1, .randint 2, .randint 3, .randint 3] = .ok G [] ∧
    G.numberOfEdges = 2 := ⟨_, rfl, rfl⟩

/-- T-C15.2b `glrd`: whenever `bipartite_random_left_regular(l, r, d)` returns, every left vertex
has degree `min(r, d)` (the command line only lets `d ≤ r` through, see `glrd_accepted_pre`: then
the degree is `d`) -/
theorem glrd_left_regular (l r d : Int) (ds rest : List Draw) (G : BipG)
    (h : leftRegular l r d ds = .ok G rest) :
    G.InvGB ∧ G.l = l.toNat ∧ G.r = r.toNat ∧ ∀ u, 1 ≤ u → u ≤ G.l → (G.leftDeg u : Int) = min r d := by
  obtain ⟨_, _, _, hI, hl, hr, hd⟩ := leftRegular_ok l r d ds rest G h
  exact ⟨hI, hl, hr, hd⟩

theorem glrd_refusal (l r d : Int) (ds : List Draw) (e : Err) (h : leftRegular l r d ds = .exc e) :
    e = .valueError ∧ (l < 0 ∨ r < 0 ∨ d < 0) := leftRegular_exc l r d ds e h

example : ∃ G, leftRegular 2 3 2 [.sample [3, 1], .sample [2, 3]] = .ok G [] ∧ G.leftDeg 1 = 2 ∧ G.leftDeg 2 = 2 :=
  ⟨_, rfl, rfl, rfl⟩

/-! #### `glrd` with `r > sys.maxsize` (the rejection loop `while len(neighbours) < d:
neighbours.add(random.randint(1, r))`)

`glrd_left_regular` and `glrd_refusal` above speak about EVERY `r`: `leftRegular` takes the
`random.sample` branch for `r ≤ sysMaxsize = 2^63 − 1` and the rejection loop above it. -/

/-- non-vacuity on the new branch: `r = 2^63`, a repeated value (`5`) is consumed and not added -/
example : ∃ G, leftRegular 1 (2 ^ 63) 2 [.randint 5, .randint 5, .randint (2 ^ 63)] = .ok G [] ∧
    G.leftDeg 1 = 2 ∧ G.edges = [(1, 5), (1, 2 ^ 63)] := ⟨_, rfl, rfl, by decide⟩
/-- the boundary: `r = 2^63 − 1` still asks `random.sample`, `r = 2^63` does not -/
example : (2 ^ 63 - 1 : Nat) ≤ sysMaxsize ∧ ¬ (2 ^ 63 : Nat) ≤ sysMaxsize := by decide
/-- a value outside `[1, r]` is not a legal `randint(1, r)` draw; nor is a `sample` draw; and the
loop cannot end without `d` distinct values -/
example : leftRegular 1 (2 ^ 63) 2 [.randint 5, .randint (2 ^ 63 + 1)] = .stuck := rfl
example : leftRegular 1 (2 ^ 63) 2 [.randint 5, .randint 0] = .stuck := rfl
example : leftRegular 1 (2 ^ 63) 2 [.sample [5, 6]] = .stuck := rfl
example : leftRegular 1 (2 ^ 63) 2 [.randint 5, .randint 5, .randint 5] = .stuck := rfl

/-- the rejection loop ends on every draw list that starts with `need` fresh legal values … -/
theorem glrd_rejection_ends (r : Int) (vs : List Nat) (fuel : Nat) (acc : List Nat) (rest : List Draw)
    (hfuel : vs.length ≤ fuel) (hnd : vs.Nodup) (hdisj : ∀ v ∈ vs, v ∉ acc)
    (hmem : ∀ v ∈ vs, 1 ≤ v ∧ (v : Int) ≤ r) :
    distinctRandints r fuel vs.length acc (vs.map (fun (v : Nat) => Draw.randint (v : Int)) ++ rest)
      = .ok (vs.reverse ++ acc) rest := distinctRandints_complete r vs fuel acc rest hfuel hnd hdisj hmem

/-- … and a repeat of a value already collected costs one draw and nothing else -/
theorem glrd_rejection_repeat (r : Int) (fuel need : Nat) (acc : List Nat) (v : Nat) (ds : List Draw)
    (hv : v ∈ acc) (hv1 : 1 ≤ v ∧ (v : Int) ≤ r) :
    distinctRandints r (fuel + 1) (need + 1) acc (Draw.randint (v : Int) :: ds)
      = distinctRandints r fuel (need + 1) acc ds := distinctRandints_skip r fuel need acc v ds hv hv1

example : distinctRandints 9 3 2 [] [.randint 4, .randint 4, .randint 7] = .ok [7, 4] [] := rfl

/-- for every `r > sys.maxsize` (and every `l, d ≥ 0`) there is a legal draw list on which
`bipartite_random_left_regular(l, r, d)` returns: the draws `1, …, min(r, d)` for each left vertex -/
theorem glrd_huge_r_returns (l r d : Int) (hl : 0 ≤ l) (hd : 0 ≤ d) (hbig : (sysMaxsize : Int) < r) :
    ∃ G, leftRegular l r d (glrdEasyDraws l.toNat (min r d).toNat) = .ok G [] :=
  leftRegular_returns l r d hl hd hbig

example : glrdEasyDraws 2 2 = [.randint 1, .randint 2, .randint 1, .randint 2] := rfl

/-- what the compiled driver runs for `r > sys.maxsize` (op `gb_glrd_big`: the model's graph
object has an `r + 1`-entry right adjacency table, the code a `dict`) is the model's run minus
that table -/
theorem glrd_driver_run (l r d : Int) (ds : List Draw) :
    leftRegularNoRadj l r d ds = outMap dropRadj (leftRegular l r d ds) ∧
    (∀ G : BipG, (dropRadj G).edges = G.edges ∧ (dropRadj G).numberOfEdges = G.numberOfEdges ∧
      (dropRadj G).l = G.l ∧ (dropRadj G).r = G.r) :=
  ⟨leftRegularNoRadj_eq l r d ds, fun _ => ⟨rfl, rfl, rfl, rfl⟩⟩

/-- T-C15.2c `glrp`: `bipartite_random(L, R, p)` returns a consistent `(L, R)` graph; with `p = 1`
the complete one -/
theorem glrp_spec (L R pn : Int) (pd : Nat) (ds rest : List Draw) (G : BipG)
    (h : bipRandom L R pn pd ds = .ok G rest) :
    G.InvGB ∧ G.l = L.toNat ∧ G.r = R.toNat ∧ (pn = pd → G.numberOfEdges = L.toNat * R.toNat) := by
  obtain ⟨_, _, _, _, hI, hl, hr, hp⟩ := bipRandom_ok L R pn pd ds rest G h
  exact ⟨hI, hl, hr, hp⟩

theorem glrp_refusal (L R pn : Int) (pd : Nat) (ds : List Draw) (e : Err)
    (h : bipRandom L R pn pd ds = .exc e) : e = .valueError ∧ (L < 1 ∨ R < 1 ∨ pn < 0 ∨ pn > pd) :=
  bipRandom_exc L R pn pd ds e h

/-- T-C15.2d `regular`, FULL statement (provable since the fix of D10): whenever
`bipartite_random_regular(l, r, d)` returns — whatever was drawn, however often the retry loop gave
up and the fallback scan was used, after any number of restarts — every left vertex has degree `d`
and every right vertex has degree `l*d/r` -/
theorem regular_biregular (l r d : Int) (fuel : Nat) (ds rest : List Draw) (G : BipG)
    (h : randomRegular l r d fuel ds = .ok G rest) :
    G.InvGB ∧ G.l = l.toNat ∧ G.r = r.toNat ∧
    (∀ u, 1 ≤ u → u ≤ G.l → G.leftDeg u = d.toNat) ∧
    (∀ v, 1 ≤ v → v ≤ G.r → G.rightDeg v = (l * d / r).toNat) := by
  obtain ⟨_, _, _, _, _, hI, hl, hr, h1, h2⟩ := randomRegular_ok l r d fuel ds rest G h
  exact ⟨hI, hl, hr, h1, h2⟩

/-- … and what it can raise.  `ValueError`, exactly for the documented reasons (a negative
argument, `d > r`, or `r > 0` not dividing `l·d`); and `RecursionError`, which is NOT excluded by
the argument checks: for arguments that pass all of them (with `r > 0`) it is raised when every one
of the `fuel` attempts ended in a dead end — no free pair left among the unused cells, the code
restarts by calling itself — (or when the budget was empty to begin with).  Nothing else: no
`ZeroDivisionError` (`r = 0` returns, see `regular_r_zero`), nothing from inside an attempt. -/
theorem regular_refusal (l r d : Int) (fuel : Nat) (ds : List Draw) (e : Err)
    (h : randomRegular l r d fuel ds = .exc e) :
    (e = .valueError ∧ (l < 0 ∨ r < 0 ∨ d < 0 ∨ d > r ∨ (0 < r ∧ (l * d) % r ≠ 0))) ∨
    (e = .recursion ∧ (fuel = 0 ∨ (0 ≤ l ∧ 0 < r ∧ 0 ≤ d ∧ d ≤ r ∧ (l * d) % r = 0))) :=
  randomRegular_exc l r d fuel ds e h

/-- the draws on which the code of before the fix of D10 returned the non-regular graph
`{(1,1),(1,2),(2,1)}` for `(l,r,d) = (2,2,2)`: twelve failed tries at `i = 1`.  The present code
uses the pair found by the scan and ends with the complete graph. -/
def d10Draws : List Draw :=
  [.randint 0, .randint 0] ++ (List.replicate 24 (.randint 2)) ++ [.randint 2, .randint 3, .randint 3, .randint 3]

theorem regular_d10_witness_now_regular :
    (match randomRegular 2 2 2 1 d10Draws with
      | .ok G rest => some (G.numberOfEdges, G.leftDeg 1, G.leftDeg 2, G.rightDeg 1, G.rightDeg 2, rest.length)
      | _ => none) = some (4, 2, 2, 2, 2, 0) := by decide +kernel

/-- `r = 0` (then `d = 0` is forced by `d ≤ r`): the graph with `l` left vertices, no right vertex
and no edge is returned, without a draw (before the fix of C15-F1: `ZeroDivisionError`) -/
theorem regular_r_zero (l : Int) (hl : 0 ≤ l) (fuel : Nat) (ds : List Draw) :
    randomRegular l 0 0 (fuel + 1) ds = .ok (BipG.init l.toNat 0) ds := by
  simp only [randomRegular]
  rw [if_neg (by omega), if_neg (by omega), if_neg (by omega), if_pos (by trivial)]
  rfl

/-- `d > r` is refused with `ValueError` (before the fix of C15-F2 every attempt failed and the
function restarted until `RecursionError`) -/
theorem regular_d_gt_r (l r d : Int) (hl : 0 ≤ l) (hr : 0 ≤ r) (hd : r < d) (fuel : Nat) (ds : List Draw) :
    randomRegular l r d (fuel + 1) ds = .exc .valueError := by
  simp only [randomRegular]
  rw [if_neg (by omega), if_pos (by omega)]
  rfl

/-- a dead end of one attempt for `(3,3,2)` (accepted by every argument check): after the edges
(1,1) (1,2) (2,1) (2,2) (3,3) the only unused cells are `A[5] = B[5] = 3`; the 12 tries and the scan
find no free pair and the function calls itself -/
def deadEnd332 : List Draw :=
  [.randint 0, .randint 0, .randint 3, .randint 1, .randint 3, .randint 3, .randint 4, .randint 4,
   .randint 4, .randint 4] ++ List.replicate 24 (.randint 5)

/-- what remains of `RecursionError`: it cannot be excluded for arguments in range.  Legal draws
exist on which every attempt of `(3,3,2)` ends in that dead end; with a budget of `k` nested calls
and `k` such attempts the outcome is `RecursionError` (here `k = 3`).  The argument checks cannot
remove it; only a restart by iteration instead of recursion would. -/
theorem regular_restart_budget_witness :
    (match randomRegular 3 3 2 3 (deadEnd332 ++ deadEnd332 ++ deadEnd332) with
      | .exc .recursion => true
      | _ => false) = true := by decide +kernel

/-- … while one more attempt that succeeds gives the 2-regular graph -/
theorem regular_restart_then_success :
    (match randomRegular 3 3 2 3 (deadEnd332 ++ deadEnd332 ++
        [.randint 0, .randint 0, .randint 3, .randint 1, .randint 4, .randint 4, .randint 3, .randint 5,
         .randint 5, .randint 4, .randint 5, .randint 5]) with
      | .ok G rest => [G.numberOfEdges, G.leftDeg 1, G.leftDeg 2, G.leftDeg 3,
                       G.rightDeg 1, G.rightDeg 2, G.rightDeg 3, rest.length]
      | _ => []) = [6, 2, 2, 2, 2, 2, 2, 0] := by decide +kernel

/-! ### modifications -/

/-- T-C15.2e `addedges` on a simple graph: whenever `add_random_missing_edges(G, m)` returns,
exactly `m` edges were added, none was lost, the vertices are the same — whether the sparse loop
sufficed or the dense fall-back was used; the only exception is `ValueError` -/
theorem addedges_simple_exact (G G' : SimpleG) (m : Int) (ds rest : List Draw)
    (h : addMissingSimple G m ds = .ok G' rest) :
    (G'.m : Int) = G.m + m ∧ G'.n = G.n ∧ (∀ e ∈ G.edgeset, e ∈ G'.edgeset) := by
  obtain ⟨_, hn, hm, hmono, _⟩ := addMissingSimple_ok G G' m ds rest h
  exact ⟨hm, hn, hmono⟩

theorem addedges_simple_refusal (G : SimpleG) (m : Int) (ds : List Draw) (e : Err)
    (h : addMissingSimple G m ds = .exc e) : e = .valueError := addMissingSimple_exc G m ds e h

/-- the documented refusals: negative `m`, or more than the graph can take -/
theorem addedges_simple_refuses (G : SimpleG) (m : Int) (ds : List Draw)
    (h : m < 0 ∨ (G.m : Int) + m > ((G.n * (G.n - 1) / 2 : Nat) : Int)) :
    addMissingSimple G m ds = .exc .valueError := by
  unfold addMissingSimple
  rcases h with h | h
  · rw [if_pos h]; rfl
  · by_cases hm : m < 0
    · rw [if_pos hm]; rfl
    · rw [if_neg hm, if_pos h]; rfl

/-- same for a bipartite graph (`number_of_edges()` = number of stored edges) -/
theorem addedges_bip_exact (G G' : BipG) (m : Int) (ds rest : List Draw)
    (h : addMissingBip G m ds = .ok G' rest) :
    (G'.numberOfEdges : Int) = G.numberOfEdges + m ∧ G'.l = G.l ∧ G'.r = G.r ∧
    (∀ e ∈ G.edgeset, e ∈ G'.edgeset) ∧ (G.InvGB → G'.InvGB) := by
  obtain ⟨_, hl, hr, hm, hmono, hI⟩ := addMissingBip_ok G G' m ds rest h
  exact ⟨hm, hl, hr, hmono, hI⟩

theorem addedges_bip_refusal (G : BipG) (m : Int) (ds : List Draw) (e : Err)
    (h : addMissingBip G m ds = .exc e) : e = .valueError := addMissingBip_exc G m ds e h

/-- non-vacuity, dense fall-back: ten identical failed samples, then the fall-back sample -/
example : ∃ G', addMissingSimple ⟨3, 1, [[], [2], [1], []], [(2, 1), (1, 2)]⟩ 1
    (List.replicate 10 (.sample [1, 2]) ++ [.samplePairs [(2, 3)]]) = .ok G' [] ∧ G'.m = 2 := ⟨_, rfl, rfl⟩

/-- T-C15.2f `splitedges`: whenever `split_random_edges(G, k)` returns, exactly `k` vertices and `k`
edges have been added (`ViewOK G`: the edge view of the input lists stored edges inside the graph) -/
theorem splitedges_exact (G G' : SimpleG) (k : Int) (ds rest : List Draw) (hV : ViewOK G)
    (h : splitEdges G k ds = .ok G' rest) :
    G'.n = G.n + k.toNat ∧ G'.m = G.m + k.toNat ∧ 0 ≤ k ∧ k ≤ G.m := by
  obtain ⟨h1, h2, h3, h4⟩ := splitEdges_ok G G' k ds rest hV h
  exact ⟨h3, h4, h1, h2⟩

theorem splitedges_refusal (G : SimpleG) (k : Int) (ds : List Draw) (e : Err)
    (h : splitEdges G k ds = .exc e) : e = .valueError := splitEdges_exc G k ds e h

example : ∃ G', splitEdges ⟨3, 1, [[], [2], [1], []], [(2, 1), (1, 2)]⟩ 1 [.samplePairs [(1, 2)]] = .ok G' [] ∧
    G'.n = 4 ∧ G'.m = 2 := ⟨_, rfl, rfl, rfl⟩

/-- T-C15.2g `plantclique`: whenever it returns there are `k` distinct vertices of the graph that are
pairwise adjacent; the vertex set is unchanged and no edge was lost -/
theorem plantclique_leaves_clique (G G' : SimpleG) (k : Int) (ds rest : List Draw) (hS : G.Sym)
    (h : plantClique G k ds = .ok G' rest) :
    G'.n = G.n ∧ (∀ e ∈ G.edgeset, e ∈ G'.edgeset) ∧
    ∃ clique : List Nat, (clique.length : Int) = k ∧ clique.Nodup ∧ (∀ v ∈ clique, 1 ≤ v ∧ v ≤ G.n) ∧
      ∀ v ∈ clique, ∀ w ∈ clique, v ≠ w → (v, w) ∈ G'.edgeset := by
  obtain ⟨hn, _, hmono, hc⟩ := plantClique_ok G G' k ds rest hS h
  exact ⟨hn, hmono, hc⟩

theorem plantclique_refusal (G : SimpleG) (k : Int) (ds : List Draw) (e : Err)
    (h : plantClique G k ds = .exc e) : e = .valueError := plantClique_exc G k ds e h

/-- T-C15.2h `plantbiclique`: `a` left and `b` right vertices completely joined -/
theorem plantbiclique_leaves_biclique (G G' : BipG) (a b : Int) (ds rest : List Draw) (hI : G.InvGB)
    (h : plantBiclique G a b ds = .ok G' rest) :
    G'.InvGB ∧ G'.l = G.l ∧ G'.r = G.r ∧ (∀ e ∈ G.edgeset, e ∈ G'.edgeset) ∧
    ∃ left right : List Nat, (left.length : Int) = a ∧ (right.length : Int) = b ∧ left.Nodup ∧ right.Nodup ∧
      (∀ v ∈ left, 1 ≤ v ∧ v ≤ G.l) ∧ (∀ w ∈ right, 1 ≤ w ∧ w ≤ G.r) ∧
      ∀ v ∈ left, ∀ w ∈ right, (v, w) ∈ G'.edgeset :=
  plantBiclique_ok G G' a b ds rest hI h

theorem plantbiclique_refusal (G : BipG) (a b : Int) (ds : List Draw) (e : Err)
    (h : plantBiclique G a b ds = .exc e) : e = .valueError := plantBiclique_exc G a b ds e h

example : ∃ G', plantBiclique (BipG.init 2 2) 1 2 [.sample [2], .sample [2, 1]] = .ok G' [] ∧
    G'.numberOfEdges = 2 := ⟨_, rfl, rfl⟩

/-! ## T-C15.3 `save` -/

/-- T-C15.3 `obtain_graph` threads ONE graph value through construction, planted (bi)clique,
addedges, splitedges (in this order, whatever the order on the command line); if `save` is present,
the value handed to `writeGraph` IS the value that is returned — the saved graph is the graph the
formula is built from.  (An unknown file format is refused: `save = some false` never returns.) -/
theorem save_writes_returned_graph (gt : GType) (p : Parsed) (e : Option CG) (fuel : Nat)
    (ds rest : List Draw) (G : CG) (W : Option CG)
    (h : obtainGraph gt p e fuel ds = .ok (G, W) rest) :
    (p.save = none ∧ W = none) ∨ (p.save = some true ∧ W = some G) :=
  obtainGraph_save gt p e fuel ds rest G W h

example : ∃ G, obtainGraph .dag ⟨.pyramid, [⟨some 1, some (1, 1)⟩], none, none, none, none, some true⟩ none 1 []
    = .ok (G, some G) [] := ⟨_, rfl⟩

/-! ## T-C15.4 validation -/

/-- T-C15.4a every guard accepts exactly its documented range (one line per guard of
graph_build.py; `regular` additionally needs `R | L·d`) -/
theorem guards_documented :
    (∀ n d, gndGuard n d = true ↔ 0 < d ∧ d < n) ∧
    (∀ n d, gndOdd n d = true ↔ (n * d) % 2 = 1) ∧
    (∀ n m, gnmGuard n m = true ↔ 0 < n ∧ 0 ≤ m ∧ m ≤ n * (n - 1) / 2) ∧
    (∀ n pn pd t, gnpGuard n pn pd t = true ↔ 0 < n ∧ 0 ≤ pn ∧ pn ≤ pd ∧ 0 < t) ∧
    (∀ n, completeSimpleGuard n = true ↔ 0 < n) ∧
    (∀ n b, completeMultiGuard n b = true ↔ 0 < n ∧ 0 < b) ∧
    (∀ n, emptySimpleGuard n = true ↔ 0 < n) ∧
    (∀ dims, gridGuard dims = true ↔ ∀ d ∈ dims, 0 < d) ∧
    (∀ dims : List Int, gridDimsGiven dims = true ↔ dims ≠ []) ∧
    (∀ l r pn pd, glrpGuard l r pn pd = true ↔ 0 < l ∧ 0 < r ∧ 0 ≤ pn ∧ pn ≤ pd) ∧
    (∀ l r m, glrmGuard l r m = true ↔ 0 < l ∧ 0 < r ∧ 0 ≤ m ∧ m ≤ l * r) ∧
    (∀ l r d, glrdGuard l r d = true ↔ 0 < l ∧ 0 < r ∧ 0 ≤ d ∧ d ≤ r) ∧
    (∀ l r d, regularGuard l r d = true ↔ 0 < l ∧ 0 < r ∧ 0 ≤ d ∧ d ≤ r ∧ d * l % r = 0) ∧
    (∀ l r, completeBipGuard l r = true ↔ 0 < l ∧ 0 < r) ∧
    (∀ l r, emptyBipGuard l r = true ↔ 0 < l ∧ 0 < r) ∧
    (∀ h, treeGuard h = true ↔ 0 ≤ h) ∧ (∀ h, pyramidGuard h = true ↔ 0 ≤ h) ∧ (∀ h, pathGuard h = true ↔ 0 ≤ h) ∧
    (∀ k, plantcliqueGuard k = true ↔ 0 ≤ k) ∧ (∀ a b, plantbicliqueGuard a b = true ↔ 0 ≤ a ∧ 0 ≤ b) ∧
    (∀ k, addedgesGuard k = true ↔ 0 ≤ k) ∧ (∀ k, splitedgesGuard k = true ↔ 0 ≤ k) := by
  refine ⟨?_, ?_, ?_, ?_, ?_, ?_, ?_, ?_, ?_, ?_, ?_, ?_, ?_, ?_, ?_, ?_, ?_, ?_, ?_, ?_, ?_, ?_⟩ <;> intros <;>
    simp only [gndGuard, gndOdd, gnmGuard, gnpGuard, completeSimpleGuard, completeMultiGuard, emptySimpleGuard,
      gridGuard, gridDimsGiven, glrpGuard, glrmGuard, glrdGuard, regularGuard, completeBipGuard, emptyBipGuard, treeGuard,
      pyramidGuard, pathGuard, plantcliqueGuard, plantbicliqueGuard, addedgesGuard, splitedgesGuard,
      Bool.and_eq_true, decide_eq_true_eq, beq_iff_eq, List.all_eq_true, Bool.not_eq_true', decide_eq_false_iff_not] <;>
    first | omega | (constructor <;> intro h d hd <;> have := h d hd <;> omega) | simp

/-- `shift`: `L, R > 0`, offsets pairwise distinct (checked on the sorted list) and within `0..R` -/
theorem shiftGuard_documented (l r : Int) (sorted : List Int) :
    shiftGuard l r sorted = true ↔ 0 < l ∧ 0 < r ∧ hasAdjacentEqual sorted = false ∧ ∀ x ∈ sorted, 0 ≤ x ∧ x ≤ r := by
  simp only [shiftGuard, Bool.and_eq_true, decide_eq_true_eq, Bool.not_eq_true', List.any_eq_false,
    Bool.or_eq_true, not_or, Int.not_lt]
  constructor
  · rintro ⟨⟨⟨h1, h2⟩, h3⟩, h4⟩; exact ⟨h1, h2, h3, fun x hx => by have := h4 x hx; omega⟩
  · rintro ⟨h1, h2, h3, h4⟩; exact ⟨⟨⟨h1, h2⟩, h3⟩, fun x hx => by have := h4 x hx; omega⟩

/-- T-C15.4b what a guard accepts satisfies the precondition of the constructor it calls:
`gnd` (this was FALSE for `N = d` before the fix of D16: `n >= d` let `gnd 4 4` through to
networkx, whose `NetworkXError` escaped) -/
theorem gnd_accepted_pre (n d : Int) (hg : gndGuard n d = true) (ho : gndOdd n d = false) :
    nxRegularPre d n = true := GCli.gnd_accepted_pre n d hg ho

/-- the previous guard of `obtain_gnd`, kept to document D16 -/
def gndGuardOld (n d : Int) : Bool := n > 0 && d > 0 && n ≥ d
theorem gnd_old_guard_witness : gndGuardOld 4 4 = true ∧ gndOdd 4 4 = false ∧ nxRegularPre 4 4 = false := by decide

theorem glrm_accepted_pre (l r m : Int) (hg : glrmGuard l r m = true) : ¬ (l < 1 ∨ r < 1 ∨ m < 0 ∨ m > l * r) := by
  simp only [glrmGuard, Bool.and_eq_true, decide_eq_true_eq] at hg; omega

/-- `glrd`: accepted ⇒ the library does not refuse AND `min(r, d) = d`: the graph is `d`-left-regular -/
theorem glrd_accepted_pre (l r d : Int) (hg : glrdGuard l r d = true) :
    ¬ (l < 0 ∨ r < 0 ∨ d < 0) ∧ min r d = d := by
  simp only [glrdGuard, Bool.and_eq_true, decide_eq_true_eq] at hg; omega

/-- `regular`: accepted ⇒ none of the library's refusals (`regular_refusal`), and `r > 0`: the
only exception left for an accepted request is the `RecursionError` of `regular_restart_budget_witness` -/
theorem regular_accepted_pre (l r d : Int) (hg : regularGuard l r d = true) :
    ¬ (l < 0 ∨ r < 0 ∨ d < 0 ∨ d > r ∨ (0 < r ∧ (l * d) % r ≠ 0)) ∧ 0 < r := by
  simp only [regularGuard, Bool.and_eq_true, decide_eq_true_eq, beq_iff_eq] at hg
  have : l * d = d * l := Int.mul_comm l d
  rw [this]; omega

theorem glrp_accepted_pre (l r pn : Int) (pd : Nat) (hg : glrpGuard l r pn pd = true) :
    ¬ (l < 1 ∨ r < 1 ∨ pn < 0 ∨ pn > pd) := by
  simp only [glrpGuard, Bool.and_eq_true, decide_eq_true_eq] at hg; omega

theorem shift_accepted_pre (l r : Int) (p : List Int) (hg : shiftGuard l r p = true) : ¬ (l < 1 ∨ r < 1) := by
  simp only [shiftGuard, Bool.and_eq_true, decide_eq_true_eq] at hg; omega

/-- T-C15.4c a request is answered by a graph or by a refusal, never by an internal failure:
the only exception classes that can leave `obtain_graph`, for every construction, every argument
list (any arity, any tokens), every option combination and all draws, are `ValueError` (turned into
a usage error by the argparse actions), `RecursionError` for `regular` when every attempt within the
restart budget ends in a dead end (this remains after the fix of C15-F2, see
`regular_restart_budget_witness`), and the `TypeError` of `split_random_edges` on a graph that is not simple
(the parser offers `splitedges` for simple graphs only); no third-party exception escapes -/
theorem obtain_graph_clean (gt : GType) (p : Parsed) (e : Option CG) (fuel : Nat) (ds : List Draw) :
    (∀ err, obtainGraph gt p e fuel ds = .exc err →
      err = .valueError ∨ (p.cons = .regular ∧ err = .recursion) ∨ (err = .typeError ∧ p.splitedges.isSome)) ∧
    obtainGraph gt p e fuel ds ≠ .foreign :=
  ⟨fun err h => obtainGraph_only gt p e fuel ds err h, obtainGraph_noForeign gt p e fuel ds⟩

/-- T-C15.4d the same for a request as `parse_graph_argument` produces it (the construction is
one of the graph type, `splitedges` only for simple graphs, third-party generators return `Graph`
objects — `FromParser`): the outcome is a graph, a `ValueError`, or — `regular` only, and only if
every attempt within the restart budget failed — a `RecursionError`.  No `TypeError`, no
`AssertionError`, no `ZeroDivisionError`, no `IndexError`, no third-party exception. -/
theorem obtain_graph_clean_parsed (gt : GType) (p : Parsed) (e : Option CG) (fuel : Nat) (ds : List Draw)
    (hp : FromParser gt p e) (err : Err) (h : obtainGraph gt p e fuel ds = .exc err) :
    err = .valueError ∨ (p.cons = .regular ∧ err = .recursion) :=
  obtainGraph_only_parsed gt p e fuel hp ds err h

example : FromParser .bipartite ⟨.glrm, [⟨some 3, some (3, 1)⟩, ⟨some 3, some (3, 1)⟩, ⟨some 7, some (7, 1)⟩],
    none, some [⟨some 1, some (1, 1)⟩, ⟨some 1, some (1, 1)⟩], none, none, none⟩ none :=
  ⟨rfl, fun _ => rfl, fun g h => by cases h⟩

end Cnfgen.C15
