/-
C16 — Graph objects stay consistent under any sequence of updates.
Property theorems only; the model is `CnfgenModel/Graph/{Basic,Ops}.lean`, the helper lemmas are
`Lemmas/Graph{List,Inv,Spec,Nx,Complete}.lean`.

Reading guide.  `G.step op` / `G.run ops` run one call / a history on the object (`GOp`:
`addEdge u v | removeEdge u v | updateVertexNumber k | addEdgesFrom es`, integer arguments, so
every invalid call is expressible).  `Spec` is the abstract object: a vertex count and a
duplicate-free list of pairs (normalised `u < v` for simple graphs) updated by set insertion /
removal; `Refines G a` says the concrete object (adjacency lists + edge set + counter)
represents `a`.  `traceOf` is the list of outcomes the caller sees (`ok`, `raised valueError`,
`noSuchMethod` = the class has no such update).
-/
import Lemmas.GraphComplete
namespace Cnfgen.C16
open Cnfgen

/-! ## T-C16.1 — the invariant holds initially and is preserved by every operation -/

/-- simple graphs: `Inv` = `adjlist` has `n+1` strictly sorted rows storing exactly `edgeset`,
`edgeset` is symmetric, loop-free, within `1..n`, duplicate-free, and `m = |abs|` -/
theorem simple_inv_init (n : Nat) : (SimpleG.init n).Inv := SimpleG.inv_init n

theorem simple_inv_step (G : SimpleG) (h : G.Inv) (op : GOp) : (G.step op).1.Inv :=
  SimpleG.inv_step h op

/-- … hence after every finite history of calls with arbitrary arguments, from any size -/
theorem simple_inv_history (n : Nat) (ops : List GOp) : ((SimpleG.init n).run ops).Inv :=
  SimpleG.inv_run (SimpleG.inv_init n) ops

theorem di_inv_init (n : Nat) : (DiG.init n).Inv := DiG.inv_init n

theorem di_inv_step (G : DiG) (h : G.Inv) (op : GOp) : (G.step op).1.Inv := DiG.inv_step h op

theorem di_inv_history (n : Nat) (ops : List GOp) : ((DiG.init n).run ops).Inv :=
  DiG.inv_run (DiG.inv_init n) ops

theorem bip_inv_init (l r : Nat) : (BipG.init l r).Inv := BipG.inv_init l r

theorem bip_inv_step (G : BipG) (h : G.Inv) (op : GOp) : (G.step op).1.Inv := BipG.inv_step h op

theorem bip_inv_history (l r : Nat) (ops : List GOp) : ((BipG.init l r).run ops).Inv :=
  BipG.inv_run (BipG.inv_init l r) ops

/-- non-vacuity: a history with duplicates, both orientations, a removal, vertex growth, invalid
calls and an `add_edges_from` that stops in the middle really moves the object -/
example : ((SimpleG.init 3).run [.addEdge 1 2, .addEdge 2 1, .addEdge 3 1, .addEdge 0 1, .addEdge 2 2,
    .removeEdge 2 1, .updateVertexNumber 5, .addEdgesFrom [(5, 1), (9, 9), (1, 2)]]).edges = [(1, 3), (1, 5)] := by
  decide

/-! ## T-C16.1/2 — refinement: the object keeps representing the abstract set of edges, and
the caller observes exactly the specification's outcomes -/

theorem simple_refines_step (G : SimpleG) (a : SimpleG.Spec) (h : G.Refines a) (op : GOp) :
    (G.step op).1.Refines (a.step op).1 ∧ (G.step op).2 = (a.step op).2 :=
  SimpleG.refines_step h op

theorem simple_refines_history (n : Nat) (ops : List GOp) :
    ((SimpleG.init n).run ops).Refines ((SimpleG.Spec.init n).run ops) ∧
    traceOf SimpleG.step (SimpleG.init n) ops = traceOf SimpleG.Spec.step (SimpleG.Spec.init n) ops :=
  ⟨SimpleG.refines_run (SimpleG.refines_init n) ops, SimpleG.trace_eq (SimpleG.refines_init n) ops⟩

theorem di_refines_step (G : DiG) (a : DiG.Spec) (h : G.Refines a) (op : GOp) :
    (G.step op).1.Refines (a.step op).1 ∧ (G.step op).2 = (a.step op).2 :=
  DiG.refines_step h op

theorem di_refines_history (n : Nat) (ops : List GOp) :
    ((DiG.init n).run ops).Refines ((DiG.Spec.init n).run ops) ∧
    traceOf DiG.step (DiG.init n) ops = traceOf DiG.Spec.step (DiG.Spec.init n) ops :=
  ⟨DiG.refines_run (DiG.refines_init n) ops, DiG.trace_eq (DiG.refines_init n) ops⟩

theorem bip_refines_step (G : BipG) (a : BipG.Spec) (h : G.Refines a) (op : GOp) :
    (G.step op).1.Refines (a.step op).1 ∧ (G.step op).2 = (a.step op).2 :=
  BipG.refines_step h op

theorem bip_refines_history (l r : Nat) (ops : List GOp) :
    ((BipG.init l r).run ops).Refines ((BipG.Spec.init l r).run ops) ∧
    traceOf BipG.step (BipG.init l r) ops = traceOf BipG.Spec.step (BipG.Spec.init l r) ops :=
  ⟨BipG.refines_run (BipG.refines_init l r) ops, BipG.trace_eq (BipG.refines_init l r) ops⟩

/-- the specification is the set semantics it claims to be (simple graphs): insertion of a
legal pair adds its normalised form, anything else is refused; removal deletes the unordered
pair; growth only raises `n` -/
theorem simple_spec_is_set_semantics (a : SimpleG.Spec) (u v : Int) (k : Int) (e : Nat × Nat) :
    (SimpleG.Valid a.n u v →
        (e ∈ (a.step (.addEdge u v)).1.E ↔ e = SimpleG.norm u.toNat v.toNat ∨ e ∈ a.E) ∧
        (a.step (.addEdge u v)).2 = .ok ∧ (a.step (.addEdge u v)).1.n = a.n) ∧
    (¬ SimpleG.Valid a.n u v → a.step (.addEdge u v) = (a, .raised .valueError)) ∧
    (e ∈ (a.step (.removeEdge u v)).1.E ↔ e ∈ a.E ∧ ¬ ((e.1 : Int) = min u v ∧ (e.2 : Int) = max u v)) ∧
    (0 ≤ k → a.step (.updateVertexNumber k) = ({ a with n := max a.n k.toNat }, .ok)) ∧
    (k < 0 → a.step (.updateVertexNumber k) = (a, .raised .valueError)) := by
  refine ⟨fun hv => ?_, fun hv => ?_, ?_, fun hk => ?_, fun hk => ?_⟩
  · simp only [SimpleG.Spec.step, if_pos hv, SimpleG.Spec.mem_insert, SimpleG.Spec.insert_n, and_self]
  · simp only [SimpleG.Spec.step, if_neg hv]
  · simp only [SimpleG.Spec.step, SimpleG.Spec.remove, List.mem_filter, Bool.not_eq_true',
      Bool.and_eq_false_iff, decide_eq_false_iff_not]
    by_cases h1 : (e.1 : Int) = min u v <;> simp [h1]
  · simp only [SimpleG.Spec.step, if_neg (show ¬ k < 0 by omega)]
  · simp only [SimpleG.Spec.step, if_pos hk]

example : SimpleG.Valid (⟨3, [(1, 2)]⟩ : SimpleG.Spec).n 3 1 := by decide

/-! ## T-C16.2 — every view is the specification's answer -/

/-- simple graphs: order, edge count, edge listing (the sorted abstract set, each edge once),
membership, neighbour lists (increasing abstract neighbours), degrees, `is_dag` -/
theorem simple_views (G : SimpleG) (a : SimpleG.Spec) (h : G.Refines a) :
    G.numberOfVertices = a.n ∧ G.numberOfEdges = a.numberOfEdges ∧ G.edges = a.edges ∧
    (∀ u v, G.hasEdge u v = a.hasEdge u v) ∧ (∀ u, G.neighbors u = a.neighbors u) ∧
    (∀ u, G.degree u = a.degree u) ∧ G.isDag = false :=
  ⟨h.numberOfVertices_eq, h.numberOfEdges_eq, h.edges_eq, h.hasEdge_eq, h.neighbors_eq, h.degree_eq, rfl⟩

/-- … in particular after every history -/
theorem simple_views_history (n : Nat) (ops : List GOp) :
    let G := (SimpleG.init n).run ops
    let a := (SimpleG.Spec.init n).run ops
    G.numberOfVertices = a.n ∧ G.numberOfEdges = a.numberOfEdges ∧ G.edges = a.edges ∧
    (∀ u v, G.hasEdge u v = a.hasEdge u v) ∧ (∀ u, G.neighbors u = a.neighbors u) ∧
    (∀ u, G.degree u = a.degree u) ∧ G.isDag = false :=
  simple_views _ _ (simple_refines_history n ops).1

/-- shape of the listing: strictly increasing lexicographically, so sorted and each edge once;
`u < v`; the edge count is its length -/
theorem simple_edges_shape (G : SimpleG) (h : G.Inv) :
    SortedLex G.edges ∧ G.edges.Nodup ∧ (∀ e ∈ G.edges, 1 ≤ e.1 ∧ e.1 < e.2 ∧ e.2 ≤ G.n) ∧
    G.numberOfEdges = G.edges.length ∧
    (∀ u, SortedLt (G.nbrs u)) ∧ (∀ u v, v ∈ G.nbrs u ↔ u ∈ G.nbrs v) :=
  ⟨h.edges_sorted, h.edges_nodup, fun _ he => h.edges_range he, h.m_eq_length_edges, h.nbrs_sorted,
   fun _ _ => h.mem_nbrs_comm⟩

example : (SimpleG.init 4).Inv := SimpleG.inv_init 4

theorem di_views (G : DiG) (a : DiG.Spec) (h : G.Refines a) :
    G.numberOfVertices = a.n ∧ G.numberOfEdges = a.numberOfEdges ∧ G.edges = a.edges ∧
    G.edgesBySucc = a.edgesBySucc ∧ (∀ u v, G.hasEdge u v = a.hasEdge u v) ∧
    (∀ u, G.predecessors u = a.predecessors u) ∧ (∀ u, G.successors u = a.successors u) ∧
    (∀ u, G.inDegree u = a.inDegree u) ∧ (∀ u, G.outDegree u = a.outDegree u) ∧ G.isDag = a.isDag :=
  ⟨h.numberOfVertices_eq, h.numberOfEdges_eq, h.edges_eq, h.edgesBySucc_eq, h.hasEdge_eq,
   h.predecessors_eq, h.successors_eq, h.inDegree_eq, h.outDegree_eq, h.isDag_eq⟩

theorem di_views_history (n : Nat) (ops : List GOp) :
    let G := (DiG.init n).run ops
    let a := (DiG.Spec.init n).run ops
    G.numberOfVertices = a.n ∧ G.numberOfEdges = a.numberOfEdges ∧ G.edges = a.edges ∧
    G.edgesBySucc = a.edgesBySucc ∧ (∀ u v, G.hasEdge u v = a.hasEdge u v) ∧
    (∀ u, G.predecessors u = a.predecessors u) ∧ (∀ u, G.successors u = a.successors u) ∧
    (∀ u, G.inDegree u = a.inDegree u) ∧ (∀ u, G.outDegree u = a.outDegree u) ∧ G.isDag = a.isDag :=
  di_views _ _ (di_refines_history n ops).1

theorem di_edges_shape (G : DiG) (h : G.Inv) :
    SortedLex G.edges ∧ G.edges.Nodup ∧ SortedLex (G.edgesBySucc.map Prod.swap) ∧
    (∀ e, e ∈ G.edges ↔ e ∈ G.edgesBySucc) ∧
    (∀ u, SortedLt (G.succs u)) ∧ (∀ u, SortedLt (G.preds u)) ∧
    (∀ u v, v ∈ G.succs u ↔ u ∈ G.preds v) :=
  ⟨h.edges_sorted, h.edges_nodup, h.edgesBySucc_sorted, fun _ => h.mem_edges.trans h.mem_edgesBySucc.symm,
   h.succs_sorted, h.preds_sorted, fun _ _ => h.mem_succs_iff_mem_preds⟩

theorem bip_views (G : BipG) (a : BipG.Spec) (h : G.Refines a) :
    G.l = a.l ∧ G.r = a.r ∧ G.numberOfVertices = a.numberOfVertices ∧
    G.numberOfEdges = a.numberOfEdges ∧ G.edges = a.edges ∧
    (∀ u v, G.hasEdge u v = a.hasEdge u v) ∧
    (∀ u, G.rightNeighbors u = a.rightNeighbors u) ∧ (∀ v, G.leftNeighbors v = a.leftNeighbors v) ∧
    (∀ u, G.rightDegree u = a.rightDegree u) ∧ (∀ v, G.leftDegree v = a.leftDegree v) :=
  ⟨h.l_eq, h.r_eq, h.numberOfVertices_eq, h.numberOfEdges_eq, h.edges_eq, h.hasEdge_eq,
   h.rightNeighbors_eq, h.leftNeighbors_eq, h.rightDegree_eq, h.leftDegree_eq⟩

theorem bip_views_history (l r : Nat) (ops : List GOp) :
    let G := (BipG.init l r).run ops
    let a := (BipG.Spec.init l r).run ops
    G.l = a.l ∧ G.r = a.r ∧ G.numberOfVertices = a.numberOfVertices ∧
    G.numberOfEdges = a.numberOfEdges ∧ G.edges = a.edges ∧
    (∀ u v, G.hasEdge u v = a.hasEdge u v) ∧
    (∀ u, G.rightNeighbors u = a.rightNeighbors u) ∧ (∀ v, G.leftNeighbors v = a.leftNeighbors v) ∧
    (∀ u, G.rightDegree u = a.rightDegree u) ∧ (∀ v, G.leftDegree v = a.leftDegree v) :=
  bip_views _ _ (bip_refines_history l r ops).1

theorem bip_edges_shape (G : BipG) (h : G.Inv) :
    SortedLex G.edges ∧ G.edges.Nodup ∧ G.numberOfEdges = G.edges.length ∧
    (∀ u, SortedLt (G.rnbrs u)) ∧ (∀ v, SortedLt (G.lnbrs v)) ∧
    (∀ u v, (v ∈ G.rnbrs u ↔ u ∈ G.lnbrs v) ∧ (v ∈ G.rnbrs u ↔ (u, v) ∈ G.edges)) ∧
    (∀ e ∈ G.edges, 1 ≤ e.1 ∧ e.1 ≤ G.l ∧ 1 ≤ e.2 ∧ e.2 ≤ G.r) :=
  ⟨h.edges_sorted, h.edges_nodup, h.numberOfEdges_eq, h.rnbrs_sorted, h.lnbrs_sorted,
   fun _ _ => ⟨h.mem_rnbrs_iff_mem_lnbrs, h.mem_edges_iff_rnbrs.symm⟩, fun _ he => h.edges_range he⟩

example : (DiG.init 4).Refines (DiG.Spec.init 4) := DiG.refines_init 4
example : (BipG.init 2 3).Refines (BipG.Spec.init 2 3) := BipG.refines_init 2 3

/-- duplicate insertions change nothing (simple graphs: in either orientation) -/
theorem simple_duplicate_noop (G : SimpleG) (h : G.Inv) (u v : Int) (he : G.hasEdge u v = true) :
    G.step (.addEdge u v) = (G, .ok) ∧ G.step (.addEdge v u) = (G, .ok) :=
  SimpleG.step_addEdge_present h he

theorem di_duplicate_noop (G : DiG) (h : G.Inv) (u v : Int) (he : G.hasEdge u v = true) :
    G.step (.addEdge u v) = (G, .ok) := DiG.step_addEdge_present h he

theorem bip_duplicate_noop (G : BipG) (h : G.Inv) (u v : Int) (he : G.hasEdge u v = true) :
    G.step (.addEdge u v) = (G, .ok) := BipG.step_addEdge_present h he

example : ((SimpleG.init 3).run [.addEdge 1 2]).hasEdge 2 1 = true := by decide

/-- an insertion the graph type does not allow (vertex out of `1..n`, self-loop in a simple
graph) is refused with `ValueError` and has no side effect; a legal one is never refused -/
theorem simple_rejected (G : SimpleG) (u v : Int) :
    (¬ SimpleG.Valid G.n u v → G.step (.addEdge u v) = (G, .raised .valueError)) ∧
    (SimpleG.Valid G.n u v → (G.step (.addEdge u v)).2 = .ok) :=
  ⟨SimpleG.step_addEdge_invalid, SimpleG.step_addEdge_valid⟩

theorem di_rejected (G : DiG) (u v : Int) :
    (¬ DiG.Valid G.n u v → G.step (.addEdge u v) = (G, .raised .valueError)) ∧
    (DiG.Valid G.n u v → (G.step (.addEdge u v)).2 = .ok) :=
  ⟨DiG.step_addEdge_invalid, DiG.step_addEdge_valid⟩

theorem bip_rejected (G : BipG) (u v : Int) :
    (¬ BipG.Valid G.l G.r u v → G.step (.addEdge u v) = (G, .raised .valueError)) ∧
    (BipG.Valid G.l G.r u v → (G.step (.addEdge u v)).2 = .ok) :=
  ⟨BipG.step_addEdge_invalid, BipG.step_addEdge_valid⟩

example : ¬ SimpleG.Valid 3 2 2 ∧ ¬ SimpleG.Valid 3 0 1 ∧ ¬ SimpleG.Valid 3 4 1 ∧ SimpleG.Valid 3 3 1 := by decide

/-- `add_edges_from` is the loop it is: the pairs before the first illegal one are inserted,
then `ValueError`; all legal ⇒ normal return -/
theorem simple_addEdgesFrom_prefix (G : SimpleG) (es₁ es₂ : List (Int × Int)) (bad : Int × Int)
    (h₁ : ∀ e ∈ es₁, SimpleG.Valid G.n e.1 e.2) (hb : ¬ SimpleG.Valid G.n bad.1 bad.2) :
    G.step (.addEdgesFrom (es₁ ++ bad :: es₂)) = ((G.step (.addEdgesFrom es₁)).1, .raised .valueError) ∧
    (G.step (.addEdgesFrom es₁)).2 = .ok := by
  induction es₁ generalizing G with
  | nil =>
    simp only [SimpleG.step, List.nil_append, SimpleG.addEdgesFromP, SimpleG.addEdge_invalid hb]
    exact ⟨rfl, rfl⟩
  | cons e es ih =>
    have hv := h₁ e (List.mem_cons_self ..)
    rcases SimpleG.addEdge_cases G e.1 e.2 with ⟨hv', _⟩ | ⟨_, _, h1⟩ | ⟨_, _, h1⟩
    · exact absurd hv hv'
    · have := ih G (fun x hx => h₁ x (List.mem_cons_of_mem _ hx)) hb
      simp only [SimpleG.step, List.cons_append, SimpleG.addEdgesFromP, h1] at this ⊢
      exact this
    · have hn : (SimpleG.insertNew G (min e.1.toNat e.2.toNat) (max e.1.toNat e.2.toNat)).n = G.n := rfl
      have := ih _ (fun x hx => by rw [hn]; exact h₁ x (List.mem_cons_of_mem _ hx)) (by rw [hn]; exact hb)
      simp only [SimpleG.step, List.cons_append, SimpleG.addEdgesFromP, h1] at this ⊢
      exact this

example : ∀ e ∈ [((1 : Int), (2 : Int)), (3, 1)], SimpleG.Valid (SimpleG.init 3).n e.1 e.2 := by decide

/-! ## T-C16.3 — `is_dag` ⇔ every edge ever inserted goes from a lower to a higher vertex -/

/-- state form -/
theorem di_isDag_iff (G : DiG) (a : DiG.Spec) (h : G.Refines a) :
    G.isDag = true ↔ ∀ e ∈ a.E, e.1 < e.2 := by
  rw [h.isDag_eq, DiG.Spec.isDag, List.all_eq_true]
  constructor
  · intro hh e he; exact of_decide_eq_true (hh e he)
  · intro hh e he; exact decide_eq_true (hh e he)

/-- history form: `inserted n ops` lists every argument pair accepted by an `add_edge` /
`add_edges_from` call of the history (duplicates and later-repeated pairs included) -/
theorem di_isDag_history (n : Nat) (ops : List GOp) :
    ((DiG.init n).run ops).isDag = true ↔ ∀ e ∈ DiG.inserted n ops, e.1 < e.2 := by
  rw [di_isDag_iff _ _ (di_refines_history n ops).1]
  constructor
  · intro hh e he
    have hv := DiG.inserted_nonneg he
    obtain ⟨h1, h2, h3, h4⟩ := hv
    have hp : (e.1.toNat, e.2.toNat) ∈ ((DiG.Spec.init n).run ops).E := by
      rw [DiG.Spec.mem_run]
      right
      have : (((e.1.toNat : Nat) : Int), ((e.2.toNat : Nat) : Int)) = e :=
        Prod.ext (by simp only; omega) (by simp only; omega)
      simp only [DiG.Spec.init]
      rw [this]; exact he
    have := hh _ hp
    simp only at this
    omega
  · intro hh p hp
    rw [DiG.Spec.mem_run] at hp
    rcases hp with hp | hp
    · simp [DiG.Spec.init] at hp
    · have := hh _ hp
      simp only at this
      omega

/-- the flag is never lost by conversion nor reset: a single non-increasing edge (a self-loop
included) turns it off for good -/
theorem di_isDag_monotone (G : DiG) (op : GOp) (h : G.isDag = false) : (G.step op).1.isDag = false := by
  have key : ∀ (G : DiG) (u v : Int) (G' : DiG), G.isDag = false → G.addEdge u v = .ok G' → G'.isDag = false := by
    intro G u v G' h e
    rcases DiG.addEdge_cases G u v with ⟨_, h1⟩ | ⟨_, _, h1⟩ | ⟨_, _, h1⟩
    · rw [h1] at e; cases e
    · rw [h1] at e; cases e; exact h
    · rw [h1] at e; cases e
      simp only [DiG.isDag] at h
      simp [DiG.isDag, DiG.insertNew, h]
  cases op with
  | addEdge u v =>
    simp only [DiG.step]
    split
    · rename_i G' he; exact key G u v G' h he
    · exact h
  | removeEdge u v => exact h
  | updateVertexNumber k => exact h
  | addEdgesFrom es =>
    simp only [DiG.step]
    induction es generalizing G with
    | nil => exact h
    | cons e es ih =>
      simp only [DiG.addEdgesFromP]
      split
      · rename_i G' he; exact ih G' (key G e.1 e.2 G' h he)
      · exact h

example : ((DiG.init 3).run [.addEdge 1 2, .addEdge 2 2]).isDag = false ∧
    ((DiG.init 3).run [.addEdge 1 2, .addEdge 0 1, .addEdgesFrom [(2, 3), (1, 3)]]).isDag = true ∧
    DiG.inserted 3 [.addEdge 1 2, .addEdge 0 1, .addEdgesFrom [(2, 3), (4, 4), (3, 1)]] = [(1, 2), (2, 3)] := by
  decide

/-! ## T-C16.4 — conversion to and from networkx preserves vertices and edges
(the networkx object is modelled by what is put into / read from it: the vertex count and an
edge list) -/

/-- `to_networkx` hands over exactly the vertices `1..n` and the sorted abstract edge set -/
theorem simple_toNx (G : SimpleG) (a : SimpleG.Spec) (h : G.Refines a) :
    (G.toNx).1 = a.n ∧ (G.toNx).2 = a.edges := SimpleG.toNx_spec h

/-- `from_networkx(to_networkx(G))` is `G`: same `n`, `m`, adjacency table, and edge set -/
theorem simple_nx_roundtrip (G : SimpleG) (h : G.Inv) :
    ∃ G', SimpleG.fromNx G.toNx = .ok G' ∧ G'.Inv ∧ G'.n = G.n ∧ G'.m = G.m ∧ G'.adj = G.adj ∧
      ∀ e, e ∈ G'.edgeset ↔ e ∈ G.edgeset := SimpleG.fromNx_toNx h

/-- … and so is `from_networkx` of ANY listing of the edges: any order, either orientation,
repetitions (networkx's iteration order is not assumed) -/
theorem simple_nx_any_listing (G : SimpleG) (h : G.Inv) (es : List (Nat × Nat))
    (hv : ∀ e ∈ es, 1 ≤ e.1 ∧ e.1 ≤ G.n ∧ 1 ≤ e.2 ∧ e.2 ≤ G.n ∧ e.1 ≠ e.2)
    (hes : ∀ p, p ∈ G.abs ↔ ∃ e ∈ es, p = SimpleG.norm e.1 e.2) :
    ∃ G', SimpleG.fromNx (G.n, es) = .ok G' ∧ G'.Inv ∧ G'.n = G.n ∧ G'.m = G.m ∧ G'.adj = G.adj ∧
      ∀ e, e ∈ G'.edgeset ↔ e ∈ G.edgeset := SimpleG.fromNx_listing h hv hes

theorem di_toNx (G : DiG) (a : DiG.Spec) (h : G.Refines a) :
    (G.toNx).1 = a.n ∧ (G.toNx).2 = a.edges := DiG.toNx_spec h

theorem di_nx_roundtrip (G : DiG) (h : G.Inv) :
    ∃ G', DiG.fromNx G.toNx = .ok G' ∧ G'.Inv ∧ G'.n = G.n ∧ G'.m = G.m ∧ G'.succ = G.succ ∧
      G'.pred = G.pred ∧ G'.stillDag = G.stillDag ∧ ∀ e, e ∈ G'.edgeset ↔ e ∈ G.edgeset :=
  DiG.fromNx_toNx h

theorem di_nx_any_listing (G : DiG) (h : G.Inv) (es : List (Nat × Nat))
    (hes : ∀ p, p ∈ G.edgeset ↔ p ∈ es) :
    ∃ G', DiG.fromNx (G.n, es) = .ok G' ∧ G'.Inv ∧ G'.n = G.n ∧ G'.m = G.m ∧ G'.succ = G.succ ∧
      G'.pred = G.pred ∧ G'.stillDag = G.stillDag ∧ ∀ e, e ∈ G'.edgeset ↔ e ∈ G.edgeset :=
  DiG.fromNx_listing h hes

theorem bip_toNx (G : BipG) (a : BipG.Spec) (h : G.Refines a) :
    (G.toNx).1 = a.l ∧ (G.toNx).2.1 = a.r ∧ (G.toNx).2.2 = a.edges.map (fun e => (e.1, e.2 + a.l)) :=
  BipG.toNx_spec h

theorem bip_nx_roundtrip (G : BipG) (h : G.Inv) :
    ∃ G', BipG.fromNx G.toNx = .ok G' ∧ G'.Inv ∧ G'.l = G.l ∧ G'.r = G.r ∧
      G'.ladj = G.ladj ∧ G'.radj = G.radj ∧ G'.numberOfEdges = G.numberOfEdges ∧
      ∀ e, e ∈ G'.edgeset ↔ e ∈ G.edgeset := BipG.fromNx_toNx h

theorem bip_nx_any_listing (G : BipG) (h : G.Inv) (xs : List ((Nat × Nat) × Bool))
    (hes : ∀ p, p ∈ G.edgeset ↔ p ∈ xs.map Prod.fst) :
    ∃ G', BipG.fromNx (G.l, G.r, xs.map (BipG.nxEdge G.l)) = .ok G' ∧ G'.Inv ∧ G'.l = G.l ∧ G'.r = G.r ∧
      G'.ladj = G.ladj ∧ G'.radj = G.radj ∧ G'.numberOfEdges = G.numberOfEdges ∧
      ∀ e, e ∈ G'.edgeset ↔ e ∈ G.edgeset := BipG.fromNx_listing h hes

example : SimpleG.fromNx ((SimpleG.init 3).run [.addEdge 3 1, .addEdge 1 2]).toNx =
    .ok ((SimpleG.init 3).run [.addEdge 1 2, .addEdge 1 3]) := rfl

example : BipG.fromNx (2, 2, [(1, 4), (3, 2)]) = BipG.ofEdges 2 2 [(1, 2), (2, 1)] := rfl

/-! ## what `ofEdges` builds (the constructor every graph-based family model uses) -/

theorem simple_ofEdges (n : Nat) (es : List (Nat × Nat)) :
    (∀ G, SimpleG.ofEdges n es = .ok G → G.Inv) ∧
    ((∀ e ∈ es, 1 ≤ e.1 ∧ e.1 ≤ n ∧ 1 ≤ e.2 ∧ e.2 ≤ n ∧ e.1 ≠ e.2) →
      ∃ G, SimpleG.ofEdges n es = .ok G ∧ G.n = n ∧ ∀ p, p ∈ G.abs ↔ ∃ e ∈ es, p = SimpleG.norm e.1 e.2) ∧
    ((¬ ∀ e ∈ es, 1 ≤ e.1 ∧ e.1 ≤ n ∧ 1 ≤ e.2 ∧ e.2 ≤ n ∧ e.1 ≠ e.2) →
      SimpleG.ofEdges n es = .error .valueError) := by
  refine ⟨fun G e => SimpleG.inv_ofEdges e, fun hv => ?_, SimpleG.ofEdges_error⟩
  obtain ⟨G, h1, _, h3, h4⟩ := SimpleG.ofEdges_spec hv
  exact ⟨G, h1, h3, h4⟩

theorem di_ofEdges (n : Nat) (es : List (Nat × Nat)) :
    (∀ G, DiG.ofEdges n es = .ok G → G.Inv) ∧
    ((∀ e ∈ es, 1 ≤ e.1 ∧ e.1 ≤ n ∧ 1 ≤ e.2 ∧ e.2 ≤ n) →
      ∃ G, DiG.ofEdges n es = .ok G ∧ G.n = n ∧ ∀ p, p ∈ G.edgeset ↔ p ∈ es) ∧
    ((¬ ∀ e ∈ es, 1 ≤ e.1 ∧ e.1 ≤ n ∧ 1 ≤ e.2 ∧ e.2 ≤ n) → DiG.ofEdges n es = .error .valueError) := by
  refine ⟨fun G e => DiG.inv_ofEdges e, fun hv => ?_, DiG.ofEdges_error⟩
  obtain ⟨G, h1, _, h3, h4⟩ := DiG.ofEdges_spec hv
  exact ⟨G, h1, h3, h4⟩

theorem bip_ofEdges (l r : Nat) (es : List (Nat × Nat)) :
    (∀ G, BipG.ofEdges l r es = .ok G → G.Inv) ∧
    ((∀ e ∈ es, 1 ≤ e.1 ∧ e.1 ≤ l ∧ 1 ≤ e.2 ∧ e.2 ≤ r) →
      ∃ G, BipG.ofEdges l r es = .ok G ∧ G.l = l ∧ G.r = r ∧ ∀ p, p ∈ G.edgeset ↔ p ∈ es) ∧
    ((¬ ∀ e ∈ es, 1 ≤ e.1 ∧ e.1 ≤ l ∧ 1 ≤ e.2 ∧ e.2 ≤ r) → BipG.ofEdges l r es = .error .valueError) := by
  refine ⟨fun G e => BipG.inv_ofEdges e, fun hv => ?_, BipG.ofEdges_error⟩
  obtain ⟨G, h1, _, h3, h3', h4⟩ := BipG.ofEdges_spec hv
  exact ⟨G, h1, h3, h3', h4⟩

example : ∃ G, SimpleG.ofEdges 3 [(2, 1), (1, 2), (3, 2)] = .ok G ∧ G.edges = [(1, 2), (2, 3)] :=
  ⟨_, rfl, by decide⟩

/-! ## `CompleteBipartiteGraph` -/

/-- the value used by the families satisfies the bipartite invariant; no update changes the
object; its closed-form views are the views of that value -/
theorem cbip_consistent (G : CBipG) (ops : List GOp) :
    G.toBipG.Inv ∧ G.run ops = G ∧
    G.edges = G.toBipG.edges ∧ (∀ u v, G.hasEdge u v = G.toBipG.hasEdge u v) ∧
    G.numberOfEdges = G.toBipG.numberOfEdges ∧
    (∀ e, e ∈ G.edges ↔ 1 ≤ e.1 ∧ e.1 ≤ G.l ∧ 1 ≤ e.2 ∧ e.2 ≤ G.r) ∧
    (∀ u : Int, 1 ≤ u ∧ u ≤ G.l → G.toBipG.rightNeighbors u = .ok (G.rightNeighbors u)) ∧
    (∀ v : Int, 1 ≤ v ∧ v ≤ G.r → G.toBipG.leftNeighbors v = .ok (G.leftNeighbors v)) :=
  ⟨BipG.inv_complete G.l G.r, G.run_state ops, G.edges_eq, G.hasEdge_eq,
   G.numberOfEdges_eq, G.mem_edges, fun _ hu => G.rightNeighbors_eq hu, fun _ hv => G.leftNeighbors_eq hv⟩

/-- insertions (finding D33, fixed): a pair outside `1..L × 1..R` is refused with `ValueError` and
the object is unchanged; a legal pair — already an edge — is a no-op; `add_edges_from` raises
iff some pair is illegal and changes nothing -/
theorem cbip_rejected (G : CBipG) (u v : Int) (es : List (Int × Int)) :
    (¬ BipG.Valid G.l G.r u v → G.step (.addEdge u v) = (G, .raised .valueError)) ∧
    (BipG.Valid G.l G.r u v → G.step (.addEdge u v) = (G, .ok) ∧ G.hasEdge u v = true) ∧
    (G.step (.addEdgesFrom es)).1 = G ∧
    ((G.step (.addEdgesFrom es)).2 = .ok ↔ ∀ e ∈ es, BipG.Valid G.l G.r e.1 e.2) ∧
    ((G.step (.addEdgesFrom es)).2 = .ok ∨ (G.step (.addEdgesFrom es)).2 = .raised .valueError) :=
  ⟨G.step_addEdge_invalid, fun h => ⟨G.step_addEdge_valid h, by
      simp only [CBipG.hasEdge, decide_eq_true_eq]; exact h⟩,
   (G.step_addEdgesFrom es).1, (G.step_addEdgesFrom es).2.1, (G.step_addEdgesFrom es).2.2⟩

example : ¬ BipG.Valid (CBipG.mk 2 3).l (CBipG.mk 2 3).r 9 9 ∧ BipG.Valid (CBipG.mk 2 3).l (CBipG.mk 2 3).r 2 3 := by
  decide

example : (CBipG.mk 2 3).edges = [(1, 1), (1, 2), (1, 3), (2, 1), (2, 2), (2, 3)] := by decide

end Cnfgen.C16
