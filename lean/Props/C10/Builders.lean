/-
C10 — the constraint builders only mention the variables of the literals they are given, so the single
`_check_and_update(lits)` they perform (with `check=True`) is enough to keep "every literal within the declared
number of variables", although the clauses themselves are appended unchecked.
-/
import Lemmas.Linear
import CnfgenModel.Build.Constr
namespace Cnfgen.C10
open Cnfgen Linear

theorem mem_of_mem_combos {α : Type} (l : List α) (j : Nat) (c : List α) (hc : c ∈ combos l j) :
    ∀ x ∈ c, x ∈ l := by
  induction l generalizing j c with
  | nil =>
    cases j with
    | zero => simp [combos] at hc; subst hc; simp
    | succ j => simp [combos] at hc
  | cons a as ih =>
    cases j with
    | zero => simp [combos] at hc; subst hc; simp
    | succ j =>
      simp only [combos, List.mem_append, List.mem_map] at hc
      rcases hc with ⟨c', hc', rfl⟩ | hc
      · intro x hx
        rcases List.mem_cons.1 hx with rfl | hx
        · simp
        · exact List.mem_cons_of_mem _ (ih j c' hc' x hx)
      · intro x hx; exact List.mem_cons_of_mem _ (ih (j + 1) c hc x hx)

/-- the variables of a list of literals -/
def varsOf (ls : List Int) : List Nat := ls.map Int.natAbs

theorem geq_vars (ls : List Int) (k : Int) : ∀ c ∈ geq ls k, ∀ l ∈ c, l.natAbs ∈ varsOf ls := by
  intro c hc l hl
  unfold geq at hc
  by_cases h0 : k ≤ 0
  · simp [h0] at hc
  · by_cases h1 : k > ls.length
    · simp [h0, h1] at hc; subst hc; simp at hl
    · simp only [h0, h1, if_false] at hc
      exact List.mem_map.2 ⟨l, mem_of_mem_combos ls _ c hc l hl, rfl⟩

theorem neqClauses_vars (ls : List Int) (k : Nat) : ∀ c ∈ neqClauses ls k, ∀ l ∈ c, l.natAbs ∈ varsOf ls := by
  induction ls generalizing k with
  | nil =>
    cases k with
    | zero => intro c hc l hl; simp [neqClauses] at hc; subst hc; simp at hl
    | succ k => intro c hc; simp [neqClauses] at hc
  | cons x xs ih =>
    cases k with
    | zero =>
      intro c hc l hl
      simp [neqClauses] at hc; subst hc
      exact List.mem_map.2 ⟨l, hl, rfl⟩
    | succ k =>
      intro c hc l hl
      simp only [neqClauses, List.mem_append, List.mem_map] at hc
      rcases hc with ⟨c', hc', rfl⟩ | ⟨c', hc', rfl⟩
      · rcases List.mem_cons.1 hl with rfl | hl
        · simp [varsOf]
        · have := ih k c' hc' l hl; simp only [varsOf, List.map_cons, List.mem_cons] at this ⊢; exact Or.inr this
      · rcases List.mem_cons.1 hl with rfl | hl
        · simp [varsOf]
        · have := ih (k + 1) c' hc' l hl; simp only [varsOf, List.map_cons, List.mem_cons] at this ⊢; exact Or.inr this

theorem parityClauses_vars (ls : List Int) (w : Bool) :
    ∀ c ∈ parityClauses ls w, ∀ l ∈ c, l.natAbs ∈ varsOf ls := by
  induction ls generalizing w with
  | nil => intro c hc l hl; cases w <;> simp [parityClauses] at hc; subst hc; simp at hl
  | cons x xs ih =>
    intro c hc l hl
    simp only [parityClauses, List.mem_append, List.mem_map] at hc
    rcases hc with ⟨c', hc', rfl⟩ | ⟨c', hc', rfl⟩
    · rcases List.mem_cons.1 hl with rfl | hl
      · simp [varsOf]
      · have := ih w c' hc' l hl; simp only [varsOf, List.map_cons, List.mem_cons] at this ⊢; exact Or.inr this
    · rcases List.mem_cons.1 hl with rfl | hl
      · simp [varsOf]
      · have := ih (!w) c' hc' l hl; simp only [varsOf, List.map_cons, List.mem_cons] at this ⊢; exact Or.inr this

theorem varsOf_neg (ls : List Int) : varsOf (ls.map (fun l => -l)) = varsOf ls := by
  simp [varsOf, List.map_map, Function.comp_def]

/-- T-C10.3 every clause `add_linear(lits, op, k)` appends mentions only variables of `lits`,
for all six operators and every integer `k` -/
theorem linear_mentions_only_given (ls : List Int) (o : Op) (k : Int) :
    ∀ c ∈ Linear.add ls o k, ∀ l ∈ c, l.natAbs ∈ varsOf ls := by
  have hleq : ∀ k', ∀ c ∈ leq ls k', ∀ l ∈ c, l.natAbs ∈ varsOf ls := by
    intro k' c hc l hl
    have := geq_vars (ls.map (fun l => -l)) _ c hc l hl
    rwa [varsOf_neg] at this
  cases o <;> simp only [Linear.add]
  · exact hleq k
  · exact geq_vars ls k
  · exact hleq (k - 1)
  · exact geq_vars ls (k + 1)
  · intro c hc
    rcases List.mem_append.1 hc with hc | hc
    · exact hleq k c hc
    · exact geq_vars ls k c hc
  · intro c hc
    unfold neq at hc
    by_cases hk : k < 0 ∨ k > ls.length
    · simp [hk] at hc
    · simp only [hk, if_false] at hc; exact neqClauses_vars ls _ c hc

/-- the same for every abstract constraint rendered as clauses (clause, linear, parity, majorities) -/
theorem constraint_mentions_only_given (c : Con) : ∀ cl ∈ c.toCNF, ∀ l ∈ cl, l.natAbs ∈ varsOf c.lits := by
  cases c with
  | clause cl => intro c hc l hl; simp [Con.toCNF] at hc; subst hc; exact List.mem_map.2 ⟨l, hl, rfl⟩
  | lin ls o k => exact linear_mentions_only_given ls o k
  | parity ls b => exact parityClauses_vars ls _
  | maj kind ls =>
    cases kind <;> simp only [Con.toCNF, Con.lits, looseMajority, looseMinority, strictMajority, strictMinority] <;>
      exact linear_mentions_only_given ls _ _

/-- hence: once the variable count covers the given literals (what the single `_check_and_update(lits)` of a
checked builder call establishes), every clause the builder appends is within the declared variables -/
theorem checked_builder_keeps_invariant (c : Con) (numvar : Nat) (h : ∀ l ∈ c.lits, l.natAbs ≤ numvar) :
    ∀ cl ∈ c.toCNF, ∀ l ∈ cl, l.natAbs ≤ numvar := by
  intro cl hcl l hl
  obtain ⟨l', hl', he⟩ := List.mem_map.1 (constraint_mentions_only_given c cl hcl l hl)
  rw [← he]; exact h l' hl'

example : ∀ cl ∈ (Con.lin [3, -1, 2] .ne 2).toCNF, ∀ l ∈ cl, l.natAbs ≤ 3 :=
  checked_builder_keeps_invariant _ 3 (by decide)

end Cnfgen.C10
