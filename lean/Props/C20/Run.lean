/-
C20 — the RESOURCE and CONTROL-FLOW half of the solver bridge:
"a missing, unsupported or failing solver … raises the documented error instead of returning a verdict,
and temporary files are removed" — at EVERY point where the outside world can fail.

Model: `CnfgenModel/Solver/Run.lean` (the three interface functions as programs with the try / except OSError /
finally nesting of solver.py; an interpreter driven by an arbitrary fault schedule; an arbitrary solver
process).  Lemmas: `Lemmas/SolverRun.lean` (the finite enumeration `execAll` of all ends of a program
covers every run under every schedule).

What is proved, for EVERY fault schedule and EVERY solver behaviour (any stdout bytes, any result file or
none, any exit status, a solver that deletes its input or result file):

  tie         `current_source_is_documented` — the skeletons regenerated from solver.py ARE the modelled programs
  verdicts    `verdict_justified`, `solveW_verdict_justified` — a returned pair is the parse of the solver's
              complete answer by the parsers of Props/C20.lean (so `fullStatement`, `witness_sound`, … apply);
              no schedule fabricates a verdict
  input       `solver_started_on_complete_input` — a solver is only ever started on the completely written, closed file
  kinds       `error_kinds` — what comes out is OSError, the injected non-OSError, or RuntimeError; never an
              UnboundLocalError at any crash point
  stdin       `stdinStdout_clean` — no temporary file at all, and with OSError faults only RuntimeError
  leaks       `LeakFree` (full statement) is FALSE of the current source (`current_not_leak_free`, four
              independent witnesses), proved under explicit hypotheses (`current_leak_free_partial`), and
              proved in full for the proposed patch (`patched_leak_free`)
  outcomes    `OutcomeDocumented` (full statement) likewise: `current_outcome_not_documented`,
              `current_outcome_documented_partial`, `patched_outcome_documented`
  exactly     `current_leak_iff`, `current_oserror_iff` — exactly which runs of the current source leak / let an OSError out
  patch       `patched_same_when_nothing_fails` — the patch changes nothing on fault-free runs
  wrappers    `isSatisfiableW_eq`, `solveW_select_error`, `solveW_fault_free`, `solveW_patched_documented`,
              `solveW_current_documented_partial`; generic: `leak_check_sound`
-/
import Props.C20
import Lemmas.SolverRun
namespace Cnfgen.C20
open Cnfgen Cnfgen.Solver
open Cnfgen.Gen (RSlot ROp RProg)

/-! ## T-C20.5 — the tie to the source -/

/-- T-C20.5a  The resource skeletons that the translator regenerates from the CURRENT
cnfgen/utils/solver.py (order of the calls to tempfile / Popen / communicate / open / read / close /
os.unlink, and their try / `except OSError: pass` / finally nesting) are one of the two reviewed
snapshots: the source with the defects C20-R1 / C20-R2 (`Variant.current`) or the source with the
proposed patch (`Variant.patched`).  Removing a `finally`, moving an `unlink`, reordering two calls,
narrowing or adding a handler changes the generated term and breaks this proof. -/
theorem source_is_a_reviewed_snapshot : sourceVariant.isSome = true := by decide

/-- T-C20.5a'  … and the programs all theorems below speak about (`progOf v`) ARE the regenerated
skeletons, for the variant `v` that `sourceVariant` reports. -/
theorem current_source_is_documented (v : Variant) (h : sourceVariant = some v) :
    Gen.solverProg_satsolve_stdin_stdout = progOf v .stdinStdout ∧
    Gen.solverProg_satsolve_filein_stdout = progOf v .fileInStdout ∧
    Gen.solverProg_satsolve_filein_fileout = progOf v .fileInFileOut := by
  unfold sourceVariant at h
  split at h
  · rename_i hc
    injection h with h; subst h; exact hc
  · split at h
    · rename_i hp
      injection h with h; subst h; exact hp
    · cases h

/-- non-vacuity, and the record of what /repo is today: `some .current` while C20-R1 / C20-R2 are open,
`some .patched` once `notes/C20_proposed.patch` (or an equivalent change) has landed — both are accepted,
the correspondence (`frun 2 …`) follows whichever it is -/
example : sourceVariant = some .current ∨ sourceVariant = some .patched := by decide

/-- T-C20.5b  `CNF.solve` returns `sat_solve(self, …)` unchanged and `CNF.is_satisfiable` returns its
first component (the bodies of the two methods, regenerated from cnfgen/formula/cnfio.py) -/
theorem wrappers_documented :
    Gen.solverWrappers =
      [("is_satisfiable", "return sat_solve(self, cmd=cmd, sameas=sameas, verbose=0)[0]"),
       ("solve", "return sat_solve(self, cmd=cmd, sameas=sameas, verbose=verbose)")] := by decide

/-! ## T-C20.6 — every run is one of finitely many paths -/

/-- T-C20.6a  Whatever the fault schedule and the solver, the run of an interface function ends in
one of the finitely many (faults met, final state, pending exception) triples enumerated by
`execAll`, and the faults met are the entries of the schedule in order (`ok` once it is exhausted).
This is what reduces "for every fault schedule" to a finite check in the theorems below. -/
theorem every_run_is_a_path (v : Variant) (f : Iface) (b : Beh) (sched : List Fault) :
    ∃ path, (path, (exec b.rmIn b.rmOut b.file.isSome (progOf v f) sched RState.init).2)
        ∈ execAll b.rmIn b.rmOut b.file.isSome (progOf v f) RState.init ∧
      Agree path sched (exec b.rmIn b.rmOut b.file.isSome (progOf v f) sched RState.init).1 :=
  exec_sound _ _ _ _ sched RState.init

/-- non-vacuity: `_satsolve_filein_fileout` has 67 ends for a polite solver, its patched version 179 -/
example : (execAll false false true (progOf .current .fileInFileOut) RState.init).length = 67 ∧
    (execAll false false true (progOf .patched .fileInFileOut) RState.init).length = 179 := by
  decide +kernel

/-- T-C20.6b  (a sound finite check for ANY program)  For every program `P` over the resource calls of
solver.py — the current functions, the patch, or any later rewrite that the translator can express —
if the finite enumeration of its paths shows no stray file, then NO fault schedule and no solver
behaviour makes a run of `P` leave a temporary file behind whose removal the OS did not refuse.
(`patched_leak_free` is this theorem plus `decide`; for the current source the check evaluates to
`false`, see `current_leaks`.) -/
theorem leak_check_sound (P : RProg)
    (hcheck : forAllPaths P (fun _ _ _ p => p.left.all p.2.1.refused.contains) = true)
    (rmIn rmOut hasFile : Bool) (sched : List Fault) :
    ∀ p ∈ (exec rmIn rmOut hasFile P sched RState.init).2.1.created.filter
            (exec rmIn rmOut hasFile P sched RState.init).2.1.files.contains,
      p ∈ (exec rmIn rmOut hasFile P sched RState.init).2.1.refused := by
  obtain ⟨path, _, hp⟩ := run_satisfies hcheck rmIn rmOut hasFile sched
  intro p hpl
  simp only [Path.left, List.all_eq_true] at hp
  simpa using hp p hpl

/-- non-vacuity: the check accepts the patched minisat function and rejects the current one -/
example : forAllPaths (progOf .patched .fileInFileOut) (fun _ _ _ p => p.left.all p.2.1.refused.contains) = true ∧
    forAllPaths (progOf .current .fileInFileOut) (fun _ _ _ p => p.left.all p.2.1.refused.contains) = false := by
  decide +kernel

/-! ### vocabulary -/

/-- a solver that prints a satisfying assignment / writes `SAT 1 -2 0`, exit status 10, and leaves the
temporary files alone (used in the examples) -/
def politeSat : Beh :=
  { stdout := "s SATISFIABLE\nv 1 -2 0\n".toList.map Char.toNat,
    file := some ("SAT\n1 -2 0\n".toList.map Char.toNat), exit := 10, rmIn := false, rmOut := false }

/-- the same solver deleting its input file / its result file -/
def rudeIn : Beh := { politeSat with rmIn := true }
def rudeOut : Beh := { politeSat with rmOut := true }

/-- the call needs nothing from `Beh.exit`: solver.py never reads the exit status -/
theorem exit_status_irrelevant (v : Variant) (f : Iface) (b : Beh) (n : Nat) (sched : List Fault) :
    (runProg v f { b with exit := n } sched).outcome = (runProg v f b sched).outcome ∧
    (runProg v f { b with exit := n } sched).left = (runProg v f b sched).left := ⟨rfl, rfl⟩

/-! ## T-C20.7 — verdicts and exception kinds, for every schedule, both variants -/

/-- the two ways the pure tail can end: on the complete answer, or on nothing -/
theorem parsePhase_cases (f : Iface) (b : Beh) (st : RState) :
    parsePhase f b st = parseAnswer f b ∨ parsePhase f b st = .error .runtimeError := by
  have h0 : ∀ g : Iface, parseBytes g [] = .error .runtimeError := by intro g; cases g <;> decide
  unfold parsePhase parseAnswer received answerBytes
  cases f
  · by_cases h : st.gotOutput = true
    · left; simp [h]
    · right; simpa [h] using h0 .stdinStdout
  · by_cases h : st.gotOutput = true
    · left; simp [h]
    · right; simpa [h] using h0 .fileInStdout
  · by_cases h : (st.gotFile && st.fileWritten) = true
    · left; simp [h]
    · right
      have h' : (st.gotFile && st.fileWritten) = false := by simpa using h
      rw [h']; exact h0 .fileInFileOut

/-- the pure tail raises nothing but the documented RuntimeError (Props/C20.lean) -/
theorem parseBytes_only_runtimeError (f : Iface) (bytes : List Nat) (e : Err)
    (h : parseBytes f bytes = .error e) : e = .runtimeError := by
  cases f
  · exact parseStdout_only_runtimeError _ e h
  · exact parseStdout_only_runtimeError _ e h
  · exact parseMinisatFile_only_runtimeError _ e h

/-- answers are received only from a process that was started -/
def qReceived (_ _ _ : Bool) (p : Path) : Bool :=
  (!p.2.1.gotOutput || p.2.1.proc.isSome) && (!(p.2.1.gotFile && p.2.1.fileWritten) || p.2.1.proc.isSome)

/-- T-C20.7a  **No fault schedule fabricates a verdict.**  Whenever an interface function (current
or patched) returns a pair — under ANY schedule of OSError and non-OSError faults, with ANY solver —
a solver process was started and the pair is the parse of its COMPLETE answer (standard output,
or result file) by `parseOutput` / `parseMinisatFile`: exactly the functions about which
`fullStatement`, `wellformed_answer`, `witness_sound`, `minisat_sat` … (Props/C20.lean) speak.
In particular a half-read, empty or missing answer never yields `(False, None)` or `(True, …)`. -/
theorem verdict_justified (v : Variant) (f : Iface) (b : Beh) (sched : List Fault)
    (r : Bool × Option (List Int)) (h : (runProg v f b sched).outcome = .ok r) :
    parseAnswer f b = .ok r ∧ (runProg v f b sched).started = true := by
  have hq : forAllPaths (progOf v f) qReceived = true := by cases v <;> cases f <;> decide +kernel
  obtain ⟨path, _, hp⟩ := run_satisfies hq b.rmIn b.rmOut b.file.isSome sched
  generalize hex : exec b.rmIn b.rmOut b.file.isSome (progOf v f) sched RState.init = res at hp
  obtain ⟨rest, st, e⟩ := res
  simp only [runProg, observe, hex] at h ⊢
  cases e with
  | some e => cases h
  | none =>
    simp only [liftErr] at h
    have hpp : parsePhase f b st = .ok r := by
      cases hc : parsePhase f b st with
      | ok a => rw [hc] at h; injection h with h; rw [h]
      | error e => rw [hc] at h; cases h
    rcases parsePhase_cases f b st with hfull | hnone
    · refine ⟨hfull ▸ hpp, ?_⟩
      -- something was received, hence a process was started
      simp only [qReceived, Bool.and_eq_true, Bool.or_eq_true, Bool.not_eq_true'] at hp
      by_cases hrecv : received f b st = []
      · have : parsePhase f b st = .error .runtimeError := by
          unfold parsePhase; rw [hrecv]; cases f <;> decide
        rw [this] at hpp; cases hpp
      · unfold received at hrecv
        cases f
        · by_cases hg : st.gotOutput = true
          · rcases hp.1 with h1 | h1
            · rw [hg] at h1; cases h1
            · exact h1
          · simp [hg] at hrecv
        · by_cases hg : st.gotOutput = true
          · rcases hp.1 with h1 | h1
            · rw [hg] at h1; cases h1
            · exact h1
          · simp [hg] at hrecv
        · by_cases hg : (st.gotFile && st.fileWritten) = true
          · rcases hp.2 with h1 | h1
            · rw [hg] at h1; cases h1
            · exact h1
          · simp [hg] at hrecv
    · rw [hnone] at hpp; cases hpp

/-- non-vacuity: the fault-free run with a polite solver returns the solver's assignment, and the
same run with an OSError at `communicate` returns no verdict -/
example : (run .fileInFileOut politeSat []).outcome = .ok (true, some [1, -2]) ∧
    (run .stdinStdout politeSat []).outcome = .ok (true, some [1, -2]) ∧
    (run .stdinStdout politeSat [.ok, .ok, .os]).outcome = .error (.py .runtimeError) := by
  decide +kernel

/-- what can be pending after the resource phase: nothing, OSError, or the injected non-OSError
(only if the schedule contains one) — never an exception of solver.py's own making -/
def qKinds (_ _ _ : Bool) (p : Path) : Bool :=
  match p.2.2 with
  | none => true
  | some .osError => true
  | some .other => !osOnly p.1
  | some (.py _) => false

/-- T-C20.7b  **Exception kinds at every crash point** (current and patched source): what comes out
of an interface function is `RuntimeError` (from the pure tail), an `OSError` of the environment, or
the non-OSError exception that the schedule injected — in particular never an `UnboundLocalError` /
`NameError` for a local that a crash left unbound (the D28 class of defects, now for every fault
point), and a non-OSError only if the environment raised one. -/
theorem error_kinds (v : Variant) (f : Iface) (b : Beh) (sched : List Fault) (e : Exn)
    (h : (runProg v f b sched).outcome = .error e) :
    e = .py .runtimeError ∨ e = .osError ∨ (e = .other ∧ osOnly sched = false) := by
  have hq : forAllPaths (progOf v f) qKinds = true := by cases v <;> cases f <;> decide +kernel
  obtain ⟨path, hag, hp⟩ := run_satisfies hq b.rmIn b.rmOut b.file.isSome sched
  generalize hex : exec b.rmIn b.rmOut b.file.isSome (progOf v f) sched RState.init = res at hp hag
  obtain ⟨rest, st, x⟩ := res
  simp only [runProg, observe, hex] at h
  cases x with
  | none =>
    simp only [liftErr] at h
    cases hc : parsePhase f b st with
    | ok a => rw [hc] at h; cases h
    | error e' =>
      rw [hc] at h; injection h with h; subst h
      left; rw [parseBytes_only_runtimeError f _ e' hc]
  | some x =>
    injection h with h; subst h
    cases x with
    | osError => right; left; rfl
    | other =>
      right; right; refine ⟨rfl, ?_⟩
      simp only [qKinds, Bool.not_eq_true'] at hp
      cases hs : osOnly sched with
      | false => rfl
      | true => rw [hag.osOnly hs] at hp; cases hp
    | py e' => simp [qKinds] at hp

/-! ## T-C20.7c — the solver is started on the complete formula -/

def qInputReady (_ _ _ : Bool) (p : Path) : Bool := !p.2.1.proc.isSome || p.2.1.inputReady

/-- T-C20.7c  Under every schedule, whenever a solver process is started by a file-input convention,
the formula had been written to its input file and the file closed successfully BEFORE `Popen`
(a failed or skipped write / close never leads to a solver run on a truncated formula); for the
stdin convention the formula is rendered after the start and handed to `communicate`. -/
theorem solver_started_on_complete_input (v : Variant) (f : Iface) (b : Beh) (sched : List Fault)
    (h : (runProg v f b sched).started = true) : (runProg v f b sched).inputReady = true := by
  have hq : forAllPaths (progOf v f) qInputReady = true := by cases v <;> cases f <;> decide +kernel
  obtain ⟨path, _, hp⟩ := run_satisfies hq b.rmIn b.rmOut b.file.isSome sched
  simp only [qInputReady, Bool.or_eq_true, Bool.not_eq_true'] at hp
  simp only [runProg, observe] at h ⊢
  rcases hp with h1 | h1
  · rw [h1] at h; cases h
  · exact h1

example : (run .fileInFileOut politeSat []).started = true ∧
    (run .fileInFileOut politeSat [.ok, .ok, .ok, .os]).started = false := by decide +kernel

/-! ## T-C20.8 — `_satsolve_stdin_stdout`: nothing to leak, only the documented error -/

def qStdin (_ _ _ : Bool) (p : Path) : Bool :=
  p.2.1.created.isEmpty && p.2.1.files.isEmpty && (!osOnly p.1 || p.2.2.isNone)

/-- T-C20.8  The stdin/stdout convention creates no temporary file under any schedule, and when the
environment raises only OSErrors (the program cannot be started, the pipe breaks, …) the call ends
in a verdict justified by the solver's output or in the documented `RuntimeError` — full strength,
no hypothesis on the schedule. -/
theorem stdinStdout_clean (v : Variant) (b : Beh) (sched : List Fault) :
    (runProg v .stdinStdout b sched).left = [] ∧
    (osOnly sched = true → ∀ e, (runProg v .stdinStdout b sched).outcome = .error e → e = .py .runtimeError) := by
  have hq : forAllPaths (progOf v .stdinStdout) qStdin = true := by cases v <;> decide +kernel
  obtain ⟨path, hag, hp⟩ := run_satisfies hq b.rmIn b.rmOut b.file.isSome sched
  generalize hex : exec b.rmIn b.rmOut b.file.isSome (progOf v .stdinStdout) sched RState.init = res at hp hag
  obtain ⟨rest, st, x⟩ := res
  simp only [qStdin, Bool.and_eq_true, Bool.or_eq_true, Bool.not_eq_true', List.isEmpty_iff] at hp
  refine ⟨?_, ?_⟩
  · simp only [runProg, observe, hex, hp.1.1, List.filter_nil]
  · intro hs e he
    rcases error_kinds v .stdinStdout b sched e he with h | h | h
    · exact h
    · -- an OSError cannot be pending: all of the body is inside `try … except OSError: pass`
      exfalso
      rcases hp.2 with h2 | h2
      · rw [hag.osOnly hs] at h2; cases h2
      · simp only [runProg, observe, hex] at he
        cases x with
        | none =>
          simp only [liftErr] at he
          cases hc : parsePhase .stdinStdout b st with
          | ok a => rw [hc] at he; cases he
          | error e' => rw [hc] at he; injection he with he; rw [h] at he; cases he
        | some x => cases h2
    · rw [hs] at h; cases h.2

example : osOnly [.ok, .os, .os] = true := by decide

/-! ## T-C20.9 — temporary files are removed -/

/-- FULL STATEMENT (temporary files): after a call of an interface function — whatever fails and
whatever the solver does — every temporary file created by the call that still exists is one whose
removal was attempted and refused by the operating system. -/
def LeakFree (v : Variant) : Prop :=
  ∀ (f : Iface) (b : Beh) (sched : List Fault),
    ∀ p ∈ (runProg v f b sched).left, p ∈ (runProg v f b sched).refused

def qLeakFree (_ _ _ : Bool) (p : Path) : Bool := p.left.all p.2.1.refused.contains

theorem leakFree_of_paths (v : Variant) (f : Iface) (b : Beh) (sched : List Fault)
    (hq : forAllPaths (progOf v f) qLeakFree = true) :
    ∀ p ∈ (runProg v f b sched).left, p ∈ (runProg v f b sched).refused := by
  obtain ⟨path, _, hp⟩ := run_satisfies hq b.rmIn b.rmOut b.file.isSome sched
  intro p hpl
  simp only [qLeakFree, Path.left, List.all_eq_true] at hp
  simpa [runProg, observe] using hp p hpl

/-- T-C20.9a  **The proposed patch is leak-free at every crash point**: for all three conventions,
every schedule of OSError and non-OSError faults (creation of either file, rendering, write, close,
start of the process, communicate, re-opening / reading / closing the result file, either removal)
and every solver (including one that deletes its own files). -/
theorem patched_leak_free : LeakFree .patched := by
  intro f b sched
  exact leakFree_of_paths .patched f b sched (by cases f <;> decide +kernel)

/-- T-C20.9b  **The current source is NOT leak-free** — four independent witnesses, each replayed on
the real code by the harness (suite `fault`, known finding C20-R1 / C20-R2):
 1. the creation of the second temporary file fails → the first one stays;
 2. writing the formula fails (disk full) → both stay;
 3. the removal of the input file fails → the removal of the result file is never attempted;
 4. the solver deletes its input file → `os.unlink` raises FileNotFoundError, the result file stays. -/
theorem current_leaks :
    ((run .fileInFileOut politeSat [.ok, .os]).left = [0] ∧ (run .fileInFileOut politeSat [.ok, .os]).refused = []) ∧
    ((run .fileInFileOut politeSat [.ok, .ok, .ok, .os]).left = [0, 1] ∧
      (run .fileInFileOut politeSat [.ok, .ok, .ok, .os]).refused = []) ∧
    ((run .fileInFileOut politeSat [.ok, .ok, .ok, .ok, .ok, .ok, .ok, .ok, .ok, .ok, .ok, .os]).left = [0, 1] ∧
      (run .fileInFileOut politeSat [.ok, .ok, .ok, .ok, .ok, .ok, .ok, .ok, .ok, .ok, .ok, .os]).refused = [0]) ∧
    ((run .fileInFileOut rudeIn []).left = [1] ∧ (run .fileInFileOut rudeIn []).refused = []) ∧
    ((run .fileInStdout politeSat [.ok, .ok, .os]).left = [0] ∧ (run .fileInStdout politeSat [.ok, .ok, .os]).refused = []) := by
  decide +kernel

theorem current_not_leak_free : ¬ LeakFree .current := by
  intro h
  have := h .fileInFileOut politeSat [.ok, .os] 0 (by decide +kernel)
  revert this
  decide +kernel

/-- hypotheses of the partial theorem as a check on paths: prologue clean, the solver keeps its
hands off the input file, the removal of the input file (path 0) was not refused -/
def qLeakPartial (k : Nat) (rmIn _ _ : Bool) (p : Path) : Bool :=
  !cleanPrefix k p.1 || rmIn || p.2.1.refused.contains 0 || p.left.all p.2.1.refused.contains

/-- number of resource calls before the `try` of the current source -/
def prologueLen : Iface → Nat
  | .stdinStdout => 0 | .fileInStdout => 4 | .fileInFileOut => 6

/-- T-C20.9c  (PARTIAL — see `LeakFree` for the full statement, false of the current source.)
The current source removes its temporary files provided that
 * none of the resource calls made BEFORE the `try` fails (`prologueLen`: 4 calls for file-in/stdout,
   6 for minisat — creation of the files, rendering, write, close), and
 * the removal of the input file (path 0, the first file created) does not fail: the solver does
   not delete it and the OS does not refuse it.
Everything else may fail in any way: start of the process, communicate, re-opening, reading and
closing the result file (OSError or not), the removal of the result file, a solver deleting its
result file.  What is missing for the full statement is exactly `current_leaks`. -/
theorem current_leak_free_partial (f : Iface) (b : Beh) (sched : List Fault)
    (hpro : cleanPrefix (prologueLen f) sched = true) (hin : b.rmIn = false)
    (hcnf : 0 ∉ (run f b sched).refused) :
    ∀ p ∈ (run f b sched).left, p ∈ (run f b sched).refused := by
  have hq : forAllPaths (progOf .current f) (qLeakPartial (prologueLen f)) = true := by
    cases f <;> decide +kernel
  obtain ⟨path, hag, hp⟩ := run_satisfies hq b.rmIn b.rmOut b.file.isSome sched
  intro p hpl
  simp only [qLeakPartial, Bool.or_eq_true, Bool.not_eq_true', List.all_eq_true, Path.left] at hp
  rcases hp with ((h1 | h1) | h1) | h1
  · rw [hag.cleanPrefix _ hpro] at h1; cases h1
  · rw [hin] at h1; cases h1
  · exact absurd (by simpa [run, runProg, observe] using h1) hcnf
  · simpa [run, runProg, observe] using h1 p hpl

/-- non-vacuity: the process cannot be started, the result file cannot be read, its removal is
refused — the hypotheses hold and the only file left is the refused one -/
example : cleanPrefix (prologueLen .fileInFileOut) [.ok, .ok, .ok, .ok, .ok, .ok, .os, .ok, .os] = true ∧
    0 ∉ (run .fileInFileOut politeSat [.ok, .ok, .ok, .ok, .ok, .ok, .os, .ok, .os]).refused ∧
    (run .fileInFileOut politeSat [.ok, .ok, .ok, .ok, .ok, .ok, .os, .ok, .os]).left = [1] ∧
    (run .fileInFileOut politeSat [.ok, .ok, .ok, .ok, .ok, .ok, .os, .ok, .os]).refused = [1] := by
  decide +kernel

/-! ### exactly when the current source leaks, exactly when it lets an OSError out -/

def strayB (p : Path) : Bool := !(p.left.all p.2.1.refused.contains)

def condLeak (k : Nat) (isMinisat rmIn : Bool) (p : Path) : Bool :=
  (!p.2.1.created.isEmpty && decide (p.2.1.trace.length ≤ k)) ||
  (isMinisat && decide (k < p.2.1.trace.length) && (p.2.1.refused.contains 0 || (rmIn && p.2.1.ran)) &&
    p.left.contains 1)

/-- T-C20.9d  **Exactly when the current source leaves a temporary file behind** (one that the OS did
not refuse to remove), for every schedule and solver:
 (i)  a resource call made BEFORE the `try` failed after the first file had been created
      (at most `prologueLen f` calls were made: the `try` was never entered) — C20-R1; or
 (ii) minisat convention only: the `try` was entered, the removal of the input file (path 0) raised —
      refused by the OS, or the file had been deleted by the solver — and the result file (path 1)
      was still there: its removal is skipped — C20-R2.
Nothing else leaks: in particular no failure of `Popen`, `communicate`, `open`, `read`, `close` inside
the `try`, of whatever kind. -/
theorem current_leak_iff (f : Iface) (b : Beh) (sched : List Fault) :
    (∃ p ∈ (run f b sched).left, p ∉ (run f b sched).refused) ↔
      ((run f b sched).created ≠ [] ∧ (run f b sched).trace.length ≤ prologueLen f) ∨
      (f = .fileInFileOut ∧ prologueLen f < (run f b sched).trace.length ∧
        (0 ∈ (run f b sched).refused ∨ (b.rmIn = true ∧ (run f b sched).ran = true)) ∧
        1 ∈ (run f b sched).left) := by
  have hq : forAllPaths (progOf .current f)
      (fun a _ _ p => strayB p == condLeak (prologueLen f) (f == .fileInFileOut) a p) = true := by
    cases f <;> decide +kernel
  obtain ⟨path, _, hp⟩ := run_satisfies hq b.rmIn b.rmOut b.file.isSome sched
  generalize hex : exec b.rmIn b.rmOut b.file.isSome (progOf .current f) sched RState.init = res at hp
  obtain ⟨rest, st, x⟩ := res
  have hstray : strayB (path, st, x) = true ↔
      ∃ p ∈ st.created.filter st.files.contains, p ∉ st.refused := by
    simp [strayB, Path.left, and_assoc]
  have hcond : condLeak (prologueLen f) (f == .fileInFileOut) b.rmIn (path, st, x) = true ↔
      ((st.created ≠ [] ∧ st.trace.length ≤ prologueLen f) ∨
       (f = .fileInFileOut ∧ prologueLen f < st.trace.length ∧
         (0 ∈ st.refused ∨ (b.rmIn = true ∧ st.ran = true)) ∧
         1 ∈ st.created.filter st.files.contains)) := by
    simp [condLeak, Path.left, and_assoc]
  simp only [run, runProg, observe, hex]
  rw [← hstray, ← hcond]
  rw [beq_iff_eq] at hp
  rw [hp]

/-- non-vacuity of both sides: (i) and (ii) happen, and a failing `Popen` does not leak -/
example :
    ((run .fileInFileOut politeSat [.ok, .ok, .ok, .os]).created ≠ [] ∧
      (run .fileInFileOut politeSat [.ok, .ok, .ok, .os]).trace.length ≤ prologueLen .fileInFileOut) ∧
    (prologueLen .fileInFileOut < (run .fileInFileOut rudeIn []).trace.length ∧
      (run .fileInFileOut rudeIn []).ran = true ∧ 1 ∈ (run .fileInFileOut rudeIn []).left) ∧
    (run .fileInFileOut politeSat [.ok, .ok, .ok, .ok, .ok, .ok, .other]).left = [] := by
  decide +kernel

/-! ## T-C20.10 — the documented error instead of a verdict -/

/-- FULL STATEMENT (outcomes): when the environment raises only OSErrors — at any resource call,
any number of them — and whatever the solver does, an interface function either returns the pair
that the parsers read off the solver's complete answer, or raises the documented `RuntimeError`. -/
def OutcomeDocumented (v : Variant) : Prop :=
  ∀ (f : Iface) (b : Beh) (sched : List Fault), osOnly sched = true →
    match (runProg v f b sched).outcome with
    | .ok r => parseAnswer f b = .ok r
    | .error e => e = .py .runtimeError

def qNoPending (_ _ _ : Bool) (p : Path) : Bool := !osOnly p.1 || p.2.2.isNone

theorem outcome_of_noPending (v : Variant) (f : Iface) (b : Beh) (sched : List Fault)
    (hnp : (exec b.rmIn b.rmOut b.file.isSome (progOf v f) sched RState.init).2.2 = none) :
    match (runProg v f b sched).outcome with
    | .ok r => parseAnswer f b = .ok r
    | .error e => e = .py .runtimeError := by
  cases hout : (runProg v f b sched).outcome with
  | ok r => exact (verdict_justified v f b sched r hout).1
  | error e =>
    simp only
    generalize hex : exec b.rmIn b.rmOut b.file.isSome (progOf v f) sched RState.init = res at hnp
    obtain ⟨rest, st, x⟩ := res
    simp only at hnp; subst hnp
    simp only [runProg, observe, hex, liftErr] at hout
    cases hc : parsePhase f b st with
    | ok a => rw [hc] at hout; cases hout
    | error e' =>
      rw [hc] at hout; injection hout with hout; subst hout
      rw [parseBytes_only_runtimeError f _ e' hc]

/-- T-C20.10a  **The proposed patch raises only the documented error**, at every fault point of all
three conventions and for every solver behaviour. -/
theorem patched_outcome_documented : OutcomeDocumented .patched := by
  intro f b sched hs
  have hq : forAllPaths (progOf .patched f) qNoPending = true := by cases f <;> decide +kernel
  obtain ⟨path, hag, hp⟩ := run_satisfies hq b.rmIn b.rmOut b.file.isSome sched
  apply outcome_of_noPending
  simp only [qNoPending, Bool.or_eq_true, Bool.not_eq_true', Option.isNone_iff_eq_none] at hp
  rcases hp with h | h
  · rw [hag.osOnly hs] at h; cases h
  · exact h

/-- T-C20.10b  **The current source lets undocumented exceptions escape**: an OSError at the creation
of a temporary file, at the write, at a removal, and the FileNotFoundError caused by a solver that
deletes its result file (even though in the last case the verdict had been read) come out as they
are. -/
theorem current_raises_oserror :
    (run .fileInStdout politeSat [.os]).outcome = .error .osError ∧
    (run .fileInFileOut politeSat [.ok, .ok, .ok, .os]).outcome = .error .osError ∧
    (run .fileInStdout politeSat [.ok, .ok, .ok, .ok, .ok, .ok, .os]).outcome = .error .osError ∧
    (run .fileInFileOut rudeOut []).outcome = .error .osError ∧
    (run .fileInStdout rudeIn []).outcome = .error .osError := by
  decide +kernel

theorem current_outcome_not_documented : ¬ OutcomeDocumented .current := by
  intro h
  have := h .fileInStdout politeSat [.os] (by decide)
  have hout : (runProg .current .fileInStdout politeSat [.os]).outcome = .error .osError := by
    decide +kernel
  rw [hout] at this
  cases this

def condOS (k : Nat) (notStdin isMinisat rmIn rmOut : Bool) (p : Path) : Bool :=
  (decide (p.2.1.trace.length ≤ k) && decide (1 ≤ p.1.length) && p.1.getD (p.1.length - 1) .ok == .os) ||
  (decide (k < p.2.1.trace.length) &&
    (!p.2.1.refused.isEmpty || (rmIn && p.2.1.ran && notStdin) || (rmOut && p.2.1.ran && isMinisat)))

/-- T-C20.10d  **Exactly when the current source lets an OSError out** (instead of a verdict or the
documented RuntimeError), for every schedule — non-OSError faults included — and every solver:
 (i)  the LAST resource call made was one of those before the `try` and it raised an OSError
      (the `try` was never entered) — C20-R1; or
 (ii) the `try` was entered and a removal in the `finally` raised: refused by the OS, or the solver
      had deleted its input file (file conventions) or its result file (minisat convention) — C20-R2.
Never otherwise: every OSError raised inside the `try` is turned into RuntimeError, and the
stdin/stdout convention never lets one out at all. -/
theorem current_oserror_iff (f : Iface) (b : Beh) (sched : List Fault) :
    (run f b sched).outcome = .error .osError ↔
      ((run f b sched).trace.length ≤ prologueLen f ∧ 1 ≤ (run f b sched).trace.length ∧
          sched.getD ((run f b sched).trace.length - 1) .ok = .os) ∨
      (prologueLen f < (run f b sched).trace.length ∧
        ((run f b sched).refused ≠ [] ∨
         (b.rmIn = true ∧ (run f b sched).ran = true ∧ f ≠ .stdinStdout) ∨
         (b.rmOut = true ∧ (run f b sched).ran = true ∧ f = .fileInFileOut))) := by
  have hq : forAllPaths (progOf .current f) (fun a c _ p =>
      ((p.2.2 == some Exn.osError) ==
        condOS (prologueLen f) (f != .stdinStdout) (f == .fileInFileOut) a c p) &&
      p.1.length == p.2.1.trace.length) = true := by cases f <;> decide +kernel
  obtain ⟨path, hag, hp⟩ := run_satisfies hq b.rmIn b.rmOut b.file.isSome sched
  generalize hex : exec b.rmIn b.rmOut b.file.isSome (progOf .current f) sched RState.init = res at hp hag
  obtain ⟨rest, st, x⟩ := res
  simp only [Bool.and_eq_true, beq_iff_eq] at hp
  obtain ⟨hp1, hlen⟩ := hp
  simp only at hlen hag
  have hout : (observe f b (st, x)).outcome = .error .osError ↔ (x == some Exn.osError) = true := by
    cases x with
    | none =>
      simp only [observe]
      cases parsePhase f b st <;> simp [liftErr]
    | some e => cases e <;> simp [observe]
  have hget : 1 ≤ path.length → path.getD (path.length - 1) .ok = sched.getD (path.length - 1) .ok :=
    fun h1 => hag.getD (path.length - 1) (by omega)
  simp only [run, runProg, hex]
  rw [hout, hp1]
  simp only [observe]
  rw [← hlen]
  simp only [condOS, Bool.or_eq_true, Bool.and_eq_true, decide_eq_true_eq, beq_iff_eq,
    Bool.not_eq_true', List.isEmpty_eq_false_iff, bne_iff_ne, ne_eq]
  constructor
  · rintro (⟨⟨h1, h2⟩, h3⟩ | ⟨h1, h2⟩)
    · left; exact ⟨by omega, h2, by rw [← hget h2]; exact h3⟩
    · right; refine ⟨by omega, ?_⟩
      rcases h2 with (h2 | ⟨⟨h2, h3⟩, h4⟩) | ⟨⟨h2, h3⟩, h4⟩
      · left; exact h2
      · right; left; exact ⟨h2, h3, h4⟩
      · right; right; exact ⟨h2, h3, h4⟩
  · rintro (⟨h1, h2, h3⟩ | ⟨h1, h2⟩)
    · left; exact ⟨⟨by omega, h2⟩, by rw [hget h2]; exact h3⟩
    · right; refine ⟨by omega, ?_⟩
      rcases h2 with h2 | ⟨h2, h3, h4⟩ | ⟨h2, h3, h4⟩
      · left; left; exact h2
      · left; right; exact ⟨⟨h2, h3⟩, h4⟩
      · right; exact ⟨⟨h2, h3⟩, h4⟩

/-- non-vacuity: (i), (ii) refused removal, (ii) result file deleted by the solver; and an OSError at
`communicate` does not come out -/
example :
    (run .fileInStdout politeSat [.ok, .ok, .os]).outcome = .error .osError ∧
    (run .fileInStdout politeSat [.ok, .ok, .ok, .ok, .ok, .ok, .os]).refused ≠ [] ∧
    (run .fileInFileOut rudeOut []).ran = true ∧
    (run .fileInFileOut politeSat [.ok, .ok, .ok, .ok, .ok, .ok, .ok, .os]).outcome = .error (.py .runtimeError) := by
  decide +kernel

def qOutcomePartial (k : Nat) (rmIn rmOut _ : Bool) (p : Path) : Bool :=
  !cleanPrefix k p.1 || !osOnly p.1 || rmIn || rmOut || !p.2.1.refused.isEmpty || p.2.2.isNone

/-- T-C20.10c  (PARTIAL — see `OutcomeDocumented`.)  The current source ends in a justified verdict
or in the documented `RuntimeError` provided that the environment raises only OSErrors, none of them
at a resource call before the `try`, no removal is refused, and the solver deletes neither of the
temporary files.  (A process that cannot be started, a broken pipe, an unreadable result file are
covered.)  What is missing is `current_raises_oserror`. -/
theorem current_outcome_documented_partial (f : Iface) (b : Beh) (sched : List Fault)
    (hs : osOnly sched = true) (hpro : cleanPrefix (prologueLen f) sched = true)
    (hin : b.rmIn = false) (hout : b.rmOut = false) (href : (run f b sched).refused = []) :
    match (run f b sched).outcome with
    | .ok r => parseAnswer f b = .ok r
    | .error e => e = .py .runtimeError := by
  have hq : forAllPaths (progOf .current f) (qOutcomePartial (prologueLen f)) = true := by
    cases f <;> decide +kernel
  obtain ⟨path, hag, hp⟩ := run_satisfies hq b.rmIn b.rmOut b.file.isSome sched
  apply outcome_of_noPending .current
  simp only [qOutcomePartial, Bool.or_eq_true, Bool.not_eq_true', Option.isNone_iff_eq_none] at hp
  rcases hp with ((((h | h) | h) | h) | h) | h
  · rw [hag.cleanPrefix _ hpro] at h; cases h
  · rw [hag.osOnly hs] at h; cases h
  · rw [hin] at h; cases h
  · rw [hout] at h; cases h
  · simp only [run, runProg, observe] at href
    rw [href] at h; cases h
  · exact h

/-- non-vacuity: the solver cannot be started after the probe succeeded (OSError at `Popen`) -/
example : osOnly [.ok, .ok, .ok, .ok, .ok, .ok, .os] = true ∧
    cleanPrefix (prologueLen .fileInFileOut) [.ok, .ok, .ok, .ok, .ok, .ok, .os] = true ∧
    (run .fileInFileOut politeSat [.ok, .ok, .ok, .ok, .ok, .ok, .os]).refused = [] ∧
    (run .fileInFileOut politeSat [.ok, .ok, .ok, .ok, .ok, .ok, .os]).outcome = .error (.py .runtimeError) ∧
    (run .fileInFileOut politeSat [.ok, .ok, .ok, .ok, .ok, .ok, .os]).left = [] := by
  decide +kernel

/-! ## T-C20.11 — `sat_solve`, `CNF.solve`, `CNF.is_satisfiable` over a world with faults -/

/-- T-C20.11a  `is_satisfiable` is the first component of `solve` — in every world, under every
schedule, errors included (the body of the method is `sat_solve(…)[0]`: `wrappers_documented`) -/
theorem isSatisfiableW_eq (v : Variant) (inst : List String) (beh : Iface → String → Beh)
    (sched : List Fault) (cmd sameas : Option String) :
    isSatisfiableW v inst beh sched cmd sameas
      = (solveW v inst beh sched cmd sameas).outcome.map (·.1) := by
  unfold isSatisfiableW
  cases (solveW v inst beh sched cmd sameas).outcome <;> rfl

/-- T-C20.11b  A selection error (unknown `sameas`, unsupported or missing solver: the theorems of
T-C20.3 say which) comes out unchanged, and then NOTHING was touched: no resource call was made, no
temporary file created, no solver started — whatever the schedule. -/
theorem solveW_select_error (v : Variant) (inst : List String) (beh : Iface → String → Beh)
    (sched : List Fault) (cmd sameas : Option String) (e : Err)
    (h : selectInterface cmd sameas inst = .error e) :
    (solveW v inst beh sched cmd sameas).outcome = .error (.py e) ∧
    (solveW v inst beh sched cmd sameas).trace = [] ∧
    (solveW v inst beh sched cmd sameas).left = [] ∧
    (solveW v inst beh sched cmd sameas).started = false := by
  simp [solveW, h]

/-- non-vacuity: an unknown `sameas` under a schedule full of faults — ValueError, nothing touched -/
example : selectInterface (some "minisat") (some "nosuch") ["minisat"] = .error .valueError ∧
    (solveW .current ["minisat"] (fun _ _ => politeSat) [.os, .other] (some "minisat") (some "nosuch")).trace = [] := by
  decide +kernel

/-- the complete answer, parsed, is what the fault-free model of `Solver/Select.lean` computes -/
theorem parseAnswer_eq_runIface (f : Iface) (beh : Iface → String → Beh) (c : String) :
    parseAnswer f (beh f c) = runIface f (worldOf beh f c) := by
  cases f <;> rfl

/-- T-C20.11c  (composition with selection, every schedule)  Whenever `solve()` returns a pair in a
world with faults, it is the pair that the fault-free `solve` of `Solver/Select.lean` returns for the
same command line, `sameas`, installed programs and solver answers — the function about which
`auto_first_installed`, `named_solver`, `sameas_interface`, `solve_wellformed_stdout`,
`solve_wellformed_minisat`, `witness_sound` are stated. -/
theorem solveW_verdict_justified (v : Variant) (inst : List String) (beh : Iface → String → Beh)
    (sched : List Fault) (cmd sameas : Option String) (r : Bool × Option (List Int))
    (h : (solveW v inst beh sched cmd sameas).outcome = .ok r) :
    solve inst (worldOf beh) cmd sameas = .ok r := by
  unfold solveW at h
  unfold solve
  cases hs : selectInterface cmd sameas inst with
  | error e => rw [hs] at h; cases h
  | ok fc =>
    obtain ⟨f, c⟩ := fc
    rw [hs] at h
    simp only at h ⊢
    rw [← parseAnswer_eq_runIface]
    exact (verdict_justified v f (beh f c) sched r h).1

def qFaultFree (rmIn rmOut hasFile : Bool) (p : Path) : Bool :=
  !allOk p.1 || rmIn || rmOut ||
    (p.2.2.isNone && p.left.isEmpty && p.2.1.refused.isEmpty && p.2.1.gotOutput &&
      (p.2.1.proc != some [0, 1] || (p.2.1.gotFile && p.2.1.fileWritten == hasFile)))

/-- an interface function when nothing fails and the solver leaves the files alone -/
theorem runProg_fault_free (v : Variant) (f : Iface) (b : Beh) (sched : List Fault)
    (hs : allOk sched = true) (hin : b.rmIn = false) (hout : b.rmOut = false) :
    (runProg v f b sched).outcome = liftErr (parseAnswer f b) ∧
    (runProg v f b sched).left = [] ∧ (runProg v f b sched).refused = [] := by
  have hq : forAllPaths (progOf v f) qFaultFree = true := by cases v <;> cases f <;> decide +kernel
  have hproc : forAllPaths (progOf v f) (fun _ _ _ p =>
      p.2.2.isSome || !p.2.1.gotOutput || (p.2.1.proc == some [0, 1]) == (f == .fileInFileOut)) = true := by
    cases v <;> cases f <;> decide +kernel
  obtain ⟨path, hag, hp⟩ := run_satisfies hq b.rmIn b.rmOut b.file.isSome sched
  obtain ⟨path', _, hp'⟩ := run_satisfies hproc b.rmIn b.rmOut b.file.isSome sched
  generalize hex : exec b.rmIn b.rmOut b.file.isSome (progOf v f) sched RState.init = res at hp hag hp'
  obtain ⟨rest, st, x⟩ := res
  simp only [qFaultFree, Bool.or_eq_true, Bool.not_eq_true', Bool.and_eq_true, Path.left,
    Option.isNone_iff_eq_none, List.isEmpty_iff, bne_iff_ne, ne_eq, beq_iff_eq] at hp
  rcases hp with ((h | h) | h) | h
  · rw [hag.allOk hs] at h; cases h
  · rw [hin] at h; cases h
  · rw [hout] at h; cases h
  · obtain ⟨⟨⟨⟨hx, hleft⟩, href⟩, hgo⟩, hfile⟩ := h
    subst hx
    refine ⟨?_, ?_, ?_⟩
    · simp only [runProg, observe, hex]
      congr 1
      unfold parsePhase parseAnswer received answerBytes
      cases f
      · simp [hgo]
      · simp [hgo]
      · simp only [Option.isSome_none, Bool.false_or, Bool.or_eq_true, Bool.not_eq_true',
          beq_iff_eq] at hp'
        rcases hp' with h1 | h1
        · rw [hgo] at h1; cases h1
        · have hpr : st.proc = some [0, 1] := by simpa using h1
          rcases hfile with h2 | h2
          · exact absurd hpr h2
          · cases hfw : b.file with
            | none => simp
            | some bytes =>
              have : st.fileWritten = true := by rw [h2.2, hfw]; rfl
              simp [h2.1, this]
    · simpa [runProg, observe, hex] using hleft
    · simpa [runProg, observe, hex] using href

/-- T-C20.11d  (refinement)  When no resource call fails and the solvers leave the temporary files
alone, `solve()` in the world with faults IS the fault-free `solve` of `Solver/Select.lean`, for the
current and for the patched source, and no temporary file is left.  Hence every theorem of
Props/C20.lean holds of the runs in which nothing fails, and **the proposed patch changes no
fault-free behaviour** (`patched_same_when_nothing_fails`). -/
theorem solveW_fault_free (v : Variant) (inst : List String) (beh : Iface → String → Beh)
    (sched : List Fault) (cmd sameas : Option String) (hs : allOk sched = true)
    (hpolite : ∀ f c, (beh f c).rmIn = false ∧ (beh f c).rmOut = false) :
    (solveW v inst beh sched cmd sameas).outcome = liftErr (solve inst (worldOf beh) cmd sameas) ∧
    (solveW v inst beh sched cmd sameas).left = [] ∧
    (solveW v inst beh sched cmd sameas).refused = [] := by
  unfold solveW solve
  cases hsel : selectInterface cmd sameas inst with
  | error e => simp [liftErr]
  | ok fc =>
    obtain ⟨f, c⟩ := fc
    simp only
    rw [← parseAnswer_eq_runIface]
    exact runProg_fault_free v f (beh f c) sched hs (hpolite f c).1 (hpolite f c).2

theorem patched_same_when_nothing_fails (inst : List String) (beh : Iface → String → Beh)
    (sched : List Fault) (cmd sameas : Option String) (hs : allOk sched = true)
    (hpolite : ∀ f c, (beh f c).rmIn = false ∧ (beh f c).rmOut = false) :
    (solveW .patched inst beh sched cmd sameas).outcome = (solveW .current inst beh sched cmd sameas).outcome := by
  rw [(solveW_fault_free .patched inst beh sched cmd sameas hs hpolite).1,
      (solveW_fault_free .current inst beh sched cmd sameas hs hpolite).1]

/-- non-vacuity: minisat installed, a polite solver (`politeSat.rmIn = politeSat.rmOut = false`), no fault -/
example : allOk [] = true ∧ allOk [.ok, .ok] = true ∧ politeSat.rmIn = false ∧ politeSat.rmOut = false := by decide

example : (solveW .current ["minisat"] (fun _ _ => politeSat) [] (some "minisat -no-pre") none).outcome
    = .ok (true, some [1, -2]) := by decide +kernel

theorem select_valueError_iff (cmd sameas : Option String) (inst : List String) :
    selectInterface cmd sameas inst = .error .valueError ↔ sameasUnknown sameas = true := by
  constructor
  · intro h
    by_cases hu : sameasUnknown sameas = true
    · exact hu
    · exfalso
      have hsame : ∀ s, sameas = some s → s ∈ names := by
        intro s hs; subst hs
        simpa [sameasUnknown] using hu
      have hr : Err.valueError = Err.runtimeError := by
        cases cmd with
        | none =>
          rw [select_none sameas inst hsame] at h
          exact autoChoice_errors inst _ h
        | some c =>
          cases hc : pySplit c.toList with
          | nil =>
            rw [select_blank c sameas inst hsame hc] at h
            exact autoChoice_errors inst _ h
          | cons t ts =>
            rw [select_cmd c t ts sameas inst hsame hc] at h
            exact namedChoice_errors c _ sameas inst hsame _ h
      cases hr
  · intro hu
    unfold selectInterface
    simp [hu]

/-- T-C20.11e  **`solve()` with the proposed patch raises only the documented errors**, in every
world whose failures are OSErrors: `ValueError` exactly for an unknown `sameas`, otherwise
`RuntimeError`; and it leaves no temporary file behind that the OS let it remove. -/
theorem solveW_patched_documented (inst : List String) (beh : Iface → String → Beh)
    (sched : List Fault) (cmd sameas : Option String) (hs : osOnly sched = true) :
    (∀ e, (solveW .patched inst beh sched cmd sameas).outcome = .error e →
        (e = .py .valueError ∧ sameasUnknown sameas = true) ∨
        (e = .py .runtimeError ∧ sameasUnknown sameas = false)) ∧
    (∀ p ∈ (solveW .patched inst beh sched cmd sameas).left,
        p ∈ (solveW .patched inst beh sched cmd sameas).refused) := by
  unfold solveW
  cases hsel : selectInterface cmd sameas inst with
  | error e0 =>
    refine ⟨?_, by simp⟩
    intro e he
    simp only at he
    injection he with he; subst he
    rcases select_error_kinds cmd sameas inst e0 hsel with h | h
    · subst h; left; exact ⟨rfl, (select_valueError_iff cmd sameas inst).mp hsel⟩
    · subst h; right; refine ⟨rfl, ?_⟩
      cases hu : sameasUnknown sameas with
      | false => rfl
      | true =>
        have := (select_valueError_iff cmd sameas inst).mpr hu
        rw [hsel] at this; cases this
  | ok fc =>
    obtain ⟨f, c⟩ := fc
    simp only
    refine ⟨?_, patched_leak_free f (beh f c) sched⟩
    intro e he
    have hdoc := patched_outcome_documented f (beh f c) sched hs
    rw [he] at hdoc
    right; refine ⟨hdoc, ?_⟩
    cases hu : sameasUnknown sameas with
    | false => rfl
    | true =>
      have := (select_valueError_iff cmd sameas inst).mpr hu
      rw [hsel] at this; cases this

/-- T-C20.11f  the same for the current source, with the hypotheses of the partial theorems: only
OSErrors, none before the `try`, no removal refused, solvers that keep their hands off the files -/
theorem solveW_current_documented_partial (inst : List String) (beh : Iface → String → Beh)
    (sched : List Fault) (cmd sameas : Option String) (hs : osOnly sched = true)
    (hpro : cleanPrefix 6 sched = true)
    (hpolite : ∀ f c, (beh f c).rmIn = false ∧ (beh f c).rmOut = false)
    (href : (solveW .current inst beh sched cmd sameas).refused = []) :
    (∀ e, (solveW .current inst beh sched cmd sameas).outcome = .error e →
        e = .py .valueError ∨ e = .py .runtimeError) ∧
    (solveW .current inst beh sched cmd sameas).left = [] := by
  unfold solveW at href ⊢
  cases hsel : selectInterface cmd sameas inst with
  | error e0 =>
    refine ⟨?_, rfl⟩
    intro e he
    simp only at he
    injection he with he; subst he
    rcases select_error_kinds cmd sameas inst e0 hsel with h | h
    · left; rw [h]
    · right; rw [h]
  | ok fc =>
    obtain ⟨f, c⟩ := fc
    rw [hsel] at href
    simp only at href ⊢
    have hpro' : cleanPrefix (prologueLen f) sched = true := by
      have mono : ∀ (k : Nat) (s : List Fault), cleanPrefix (k + 1) s = true → cleanPrefix k s = true := by
        intro k
        induction k with
        | zero => intro s _; rfl
        | succ n ih =>
          intro s h
          have h' : (s.headD .ok == .ok && cleanPrefix (n + 1) s.tail) = true := h
          show (s.headD .ok == .ok && cleanPrefix n s.tail) = true
          rw [Bool.and_eq_true] at h' ⊢
          exact ⟨h'.1, ih s.tail h'.2⟩
      cases f
      · rfl
      · exact mono 4 _ (mono 5 _ hpro)
      · exact hpro
    refine ⟨?_, ?_⟩
    · intro e he
      have hdoc := current_outcome_documented_partial f (beh f c) sched hs hpro' (hpolite f c).1
        (hpolite f c).2 href
      simp only [run] at hdoc
      rw [he] at hdoc
      right; exact hdoc
    · have hl := current_leak_free_partial f (beh f c) sched hpro' (hpolite f c).1
        (by simp only [run]; rw [href]; simp)
      simp only [run] at hl
      rw [href] at hl
      cases hleft : (runProg .current f (beh f c) sched).left with
      | nil => rfl
      | cons p ps => exact absurd (hl p (by rw [hleft]; simp)) (by simp)

end Cnfgen.C20
