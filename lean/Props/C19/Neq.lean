/-
C19 on the heap model — "passing lists of literals … leaves those arguments unchanged": the constraint builders
that receive a list OBJECT of the caller (`CNFLinear.add_linear` with every operator, `BaseOPB.add_clause`,
`add_constraint`, `cardinality_*`, `cardinality_neq`), including the in-place sign-flip loop of `!=`.

  `builder_leaves_caller_objects`  no list of integers, no constraint list, no dictionary … that existed before the
                                   call is written by it — at the normal exit and at EVERY exceptional exit
                                   (a literal 0 found by the check, …).  Only formula objects (the variable counter)
                                   and lists of objects (`_clauses.append`) are overwritten.
  `neq_works_on_private_copy`      the list the loop flips in place is a cell allocated by the call
  `neq_loop_restores_working_list` at the end of every iteration, hence at the end of the loop, the working list has its
                                   initial content
Exceptional exits between a flip and its un-flip: in the code the only statement between them is
`self.add_clause(lits, check=False)`, i.e. `list(clause)` and `self._clauses.append(data)`; neither can raise for a
list, so there is none — and since the working list is private (`lits = list(lits)`), no exit could expose a
half-flipped list to the caller.  (Before the repair D21 the loop ran on the caller's list itself.)
-/
import Lemmas.HeapNeq
namespace Cnfgen.C19
open Cnfgen Cnfgen.Heap
local notation "Addr" => Nat

/-- the calls covered: the receiver `x`, the caller's object `l`, the remaining arguments -/
inductive BuilderCall where
  | addClause (check : Bool)                          -- `F.add_clause(L, check)`
  | addLinear (op : Op) (k : Int) (check : Bool)      -- `F.add_linear(L, op, k, check)`, all six operators
  | opbAddClause (check : Bool)                       -- `O.add_clause(L, check)`
  | opbAddConstraint (check : Bool)                   -- `O.add_constraint(C, check)`
  | opbCard (op : Op) (k : Int) (check : Bool)        -- `O.cardinality_leq/geq/eq(L, k)` (also `<`, `>`)
  | opbCardNeq (k : Int) (check : Bool)               -- `O.cardinality_neq(L, k, check)`

def BuilderCall.run (s : Store) (x l : Addr) : BuilderCall → Store × Except Err Unit
  | .addClause c => addClauseFrom s x l c
  | .addLinear op k c => addLinearFrom s x l op k c
  | .opbAddClause c => opbAddClauseFrom s x l c
  | .opbAddConstraint c => opbAddConstraintFrom s x l c
  | .opbCard op k c => opbCardFrom s x l op k c
  | .opbCardNeq k c => opbCardNeqFrom s x l k c

/-- T-C19.N1 whatever the store, the receiver, the argument object and the call, and whether it returns or raises:
every cell that existed before and is not a formula object or a list of objects — every list of integers (the caller's
literals, every clause already stored anywhere), every constraint list, every header, every graph — keeps its content. -/
theorem builder_leaves_caller_objects (call : BuilderCall) (s : Store) (x l : Addr) :
    s.size ≤ (call.run s x l).1.size ∧
      ∀ a, a < s.size → ∀ c, s[a]? = some c → c.isContainer = false → (call.run s x l).1[a]? = some c := by
  have h : PresB s.size s (call.run s x l).1 := by
    cases call with
    | addClause c => exact presB_addClauseFrom ..
    | addLinear op k c => exact presB_addLinearFrom ..
    | opbAddClause c => exact presB_opbAddClauseFrom ..
    | opbAddConstraint c => exact presB_opbAddConstraintFrom ..
    | opbCard op k c => exact presB_opbCardFrom ..
    | opbCardNeq k c => exact presB_opbCardNeqFrom ..
  exact ⟨h.size_le, h.keep⟩

/-- in particular the caller's list of literals reads the same after the call -/
theorem caller_list_unchanged (call : BuilderCall) (s : Store) (x l : Addr) (xs : List Int)
    (h : readInts s l = some xs) : readInts (call.run s x l).1 l = some xs := by
  have hc : s[l]? = some (.ints xs) := by
    unfold readInts at h; split at h
    · rename_i ys heq; cases h; exact heq
    · cases h
  have := (builder_leaves_caller_objects call s x l).2 l (lt_size_of_getElem? hc) _ hc rfl
  simp [readInts, this]

/-- … and so does a constraint list handed to `add_constraint` -/
theorem caller_constraint_unchanged (call : BuilderCall) (s : Store) (x l : Addr) (pc : PBC)
    (h : readPBC s l = some pc) : readPBC (call.run s x l).1 l = some pc := by
  have hc : s[l]? = some (.pbc pc) := by
    unfold readPBC at h; split at h
    · rename_i ys heq; cases h; exact heq
    · cases h
  have := (builder_leaves_caller_objects call s x l).2 l (lt_size_of_getElem? hc) _ hc rfl
  simp [readPBC, this]

/-! non-vacuity: a store with a formula at 3 and a caller's list at 4 -/
def storeNeq : Store :=
  let (s, _) := newCNF ⟨[]⟩ #[] none
  (alloc s (.ints [1, -2, 3])).1

example : readInts storeNeq 4 = some [1, -2, 3] := by decide
example : ((BuilderCall.addLinear .ne 1 true).run storeNeq 3 4).2.toOption = some () ∧
    (snap ((BuilderCall.addLinear .ne 1 true).run storeNeq 3 4).1 3).map (·.clauses) =
      some [[-1, -2, 3], [1, 2, 3], [1, -2, -3]] ∧
    readInts ((BuilderCall.addLinear .ne 1 true).run storeNeq 3 4).1 4 = some [1, -2, 3] := by decide
/-- an exceptional exit: a literal 0 is refused by the check; the theorem covers it -/
example : ((BuilderCall.addLinear .ne 1 true).run (alloc storeNeq (.ints [1, 0])).1 3 5).2.toOption = none := by decide

/-- T-C19.N2 the list that the `!=` loop of `add_linear` flips in place is allocated by the call (`lits = list(lits)`):
its address did not exist before — so it is not the caller's list, nor any other object the caller can hold.
Stated on the definition: the loop is started on `(alloc s1 (.ints xs)).2`, which is `s1.size ≥ s.size`. -/
theorem neq_works_on_private_copy (s1 : Store) (xs : List Int) :
    (alloc s1 (.ints xs)).2 = s1.size ∧ readInts (alloc s1 (.ints xs)).1 (alloc s1 (.ints xs)).2 = some xs := by
  refine ⟨rfl, ?_⟩
  simp [readInts, alloc]

/-- T-C19.N3 (CNF) the loop over ANY sequence of position sets: if it ends normally, the working list has its
initial content again; by induction on the iterations, it has it at the end of every iteration. -/
theorem neq_loop_restores_working_list (x w : Addr) (sets : List (List Nat)) (s : Store) (xs : List Int)
    (h : readInts s w = some xs)
    (hok : (neqLoop (fun s a => addClauseFrom s x a false) w s sets).2 = .ok ()) :
    readInts (neqLoop (fun s a => addClauseFrom s x a false) w s sets).1 w = some xs :=
  neqLoop_restores _ w (fun s xs h => addClauseFrom_keeps x w s xs h) sets s xs h hok

/-- the same for `BaseOPB.cardinality_neq` -/
theorem opb_neq_loop_restores_working_list (x w : Addr) (sets : List (List Nat)) (s : Store) (xs : List Int)
    (h : readInts s w = some xs)
    (hok : (neqLoop (fun s a => opbAddClauseFrom s x a false) w s sets).2 = .ok ()) :
    readInts (neqLoop (fun s a => opbAddClauseFrom s x a false) w s sets).1 w = some xs := by
  refine neqLoop_restores _ w ?_ sets s xs h hok
  intro s ys hy
  have hc : s[w]? = some (.ints ys) := by
    unfold readInts at hy; split at hy
    · rename_i zs heq; cases hy; exact heq
    · cases hy
  have := (presB_opbAddClauseFrom (b := s.size) s x w false).keep w (lt_size_of_getElem? hc) _ hc rfl
  simp [readInts, this]

example : readInts (neqLoop (fun s a => addClauseFrom s 3 a false) 4 storeNeq [[0, 2], [1], []]).1 4 = some [1, -2, 3] ∧
    (snap (neqLoop (fun s a => addClauseFrom s 3 a false) 4 storeNeq [[0, 2], [1], []]).1 3).map (·.clauses) =
      some [[-1, -2, -3], [1, 2, 3], [1, -2, 3]] := by decide

end Cnfgen.C19
