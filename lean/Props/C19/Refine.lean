/-
C19 on the heap model — REFINEMENT: the object a transformation returns, observed deeply (clauses, variable count,
header), is exactly what the PURE models of the transformations (C05: `Subst.*`, proved to compose with the input's
semantics there) compute from the deep observation of the input — outcome included (same exception or same formula).
So the heap model adds objects, addresses and aliasing to the pure model without changing what is computed, and the
header of the returned OBJECT is the input's header plus the numbered entry of `description_entry`.

Covered: every transformation of `Heap.Tr` — FlipPolarity (`flip_refines`), the seven arity-`k` substitutions incl. the
linear one with its four aliases (`substitution_refines`), if-then-else (`ite_refines`), variable compression with a
graph object of the caller (`compress_refines`), FormulaLifting (`lift_refines`), Shuffle with fixed / explicit
arguments (`shuffle_refines`).  For the transformations that name the new variables after the input's labels the
hypothesis is that the input yields one label per variable (C11 `labels_aligned`); a derived label that `new_block`
refuses makes the call raise exactly that exception (first disjunct) — no such label exists in the harness runs.
-/
import Lemmas.HeapRefineTr
namespace Cnfgen.C19
open Cnfgen Cnfgen.Heap
local notation "Addr" => Nat

def cfgRef : Cfg := ⟨[("generator", "g")]⟩
/-- one formula object at address 3: `CNF([[1,-2]])` -/
def storeRef : Store :=
  let (s, f) := newCNF cfgRef #[] none
  (addAllVals s f true [[1, -2]]).1

/-- what is claimed of a call whose pure counterpart is `pure`, whose header text is `text`: same outcome; on success
the returned object's snapshot has the pure formula as its clauses / variable count, and the provenance header -/
def Refines (F : Snap) (text : String) (pure : Except Err CNF) (res : Store × Except Err Addr) : Prop :=
  match pure with
  | .ok G => ∃ r R, res.2 = .ok r ∧ snap res.1 r = some R ∧ R.cnf = G ∧ R.header = addDescription F.header text
  | .error e => res.2 = .error e

/-- T-C19.R1 FlipPolarity -/
theorem flip_refines (cfg : Cfg) (s : Store) (f : Addr) (F : Snap) (hF : snap s f = some F) :
    Refines F (Header.descr .flip) (Subst.flip F.cnf) (Tr.flip.apply cfg s f) := by
  unfold Tr.apply
  simp only [hF]
  have hb := build_refines cfg s f F
    [.copyHeader f, .describe (Header.descr .flip), .updVar F.numvar, .substFrom f Subst.flipLit] hF
    (by intro a ha; simp at ha; rcases ha with rfl | rfl | rfl | rfl <;> simp [Act.Covered])
  have hn : ¬ ((F.numvar : Int) < 0) := by omega
  simp only [runActsPure, Act.pure, hn, if_false, snap0, Snap.cnf, Int.toNat_natCast, Nat.zero_max] at hb
  unfold Refines Subst.flip
  simp only [Snap.cnf]
  cases hr : Subst.run ⟨F.numvar, []⟩ F.numvar Subst.flipLit F.clauses with
  | error e => simp only [hr] at hb ⊢; exact hb
  | ok G =>
    simp only [hr] at hb ⊢
    obtain ⟨r, e1, e2⟩ := hb
    exact ⟨r, _, e1, e2, rfl, rfl⟩

/-- the statements of an arity-`k` substitution -/
theorem kSubst_refines (cfg : Cfg) (s : Store) (f : Addr) (F : Snap) (k : Int) (text : String)
    (enc : Nat → Int → List Clause) (labels : List String) (hF : snap s f = some F)
    (hl : inputLabels s f = .ok labels) (hn : labels.length = F.numvar) :
    (∃ e, runActsPure F (blockActs k labels) ⟨0, [], F.header, []⟩ = .error e ∧ 1 ≤ k ∧
        (kSubst cfg s f k text enc).2 = .error e) ∨
      Refines F text (Subst.kSubst F.cnf k enc) (kSubst cfg s f k text enc) := by
  unfold kSubst Subst.kSubst
  by_cases hk : k < 1
  · right; simp only [hk, if_true]; exact rfl
  · simp only [hk, if_false, hl]
    have hcov : ∀ a ∈ [Act.copyHeader f] ++ blockActs k labels ++ [.describe text, .substFrom f (enc k.toNat)],
        a.Covered f := by
      intro a ha
      simp only [List.mem_append, List.mem_cons, List.mem_nil_iff, or_false, blockActs, List.mem_map] at ha
      rcases ha with (rfl | ⟨nm, _, rfl⟩) | rfl | rfl <;> simp [Act.Covered]
    have hb := build_refines cfg s f F _ hF hcov
    rw [List.append_assoc, runActsPure_append] at hb
    simp only [runActsPure, Act.pure, snap0] at hb
    rw [runActsPure_append] at hb
    cases hg : runActsPure F (blockActs k labels) ⟨0, [], F.header, []⟩ with
    | error e =>
      left
      simp only [hg] at hb
      exact ⟨e, rfl, by omega, hb⟩
    | ok R1 =>
      right
      simp only [hg] at hb
      have hgr := runActsPure_groups F k.toNat (blockActs k labels) _ R1 (by
        intro a ha
        simp only [blockActs, List.mem_map] at ha
        obtain ⟨nm, _, rfl⟩ := ha
        exact ⟨_, rfl, fun nv gs m g h => newGroup_block_numvar nv gs k _ (by omega) m g h⟩) hg
      simp only [blockActs, List.length_map, hn, Nat.zero_add] at hgr
      obtain ⟨h1, h2, h3⟩ := hgr
      simp only [runActsPure, Act.pure, Snap.cnf, h1, h2, h3] at hb
      unfold Refines
      simp only [Snap.cnf]
      cases hr : Subst.run ⟨k.toNat * F.numvar, []⟩ F.numvar (enc k.toNat) F.clauses with
      | error e => simp only [hr] at hb ⊢; exact hb
      | ok G =>
        simp only [hr] at hb ⊢
        obtain ⟨r, e1, e2⟩ := hb
        exact ⟨r, _, e1, e2, rfl, rfl⟩

/-- the arity-`k` substitutions: arity, header text, gadget encoder -/
def kParams : Tr → Option (Int × String × (Nat → Int → List Clause))
  | .xor k => some (k, Header.descr (.xor k), Subst.xorify)
  | .or k => some (k, Header.descr (.or k), Subst.orify)
  | .maj k => some (k, Header.descr (.maj k), Subst.majorify)
  | .allEqual k => some (k, Header.descr (.allEqual k), Subst.aesubst false)
  | .notAllEqual k => some (k, Header.descr (.notAllEqual k), Subst.aesubst true)
  | .exactlyOne k => some (k, Header.descr (.exactlyOne k), Subst.oneify)
  | .linear k o C => some (k, Header.descr (.linear k o C), Subst.linear o C)
  | _ => none

/-- the pure model of C05 for each covered transformation (`B`: the graph object's content for compression) -/
def pureModel (B : BipG) : Tr → CNF → Except Err CNF
  | .flip, F => Subst.flip F
  | .xor k, F => Subst.xorSubst F k
  | .or k, F => Subst.orSubst F k
  | .maj k, F => Subst.majSubst F k
  | .allEqual k, F => Subst.allEqual F k
  | .notAllEqual k, F => Subst.notAllEqual F k
  | .exactlyOne k, F => Subst.exactlyOne F k
  | .linear k o C, F => Subst.linearSubst F k o C
  | .ite, F => Subst.ifThenElse F
  | .compress _ fn, F => Subst.compress F B fn
  | .lift k, F => Subst.lifting F k
  | .shuffle _ _ _, _ => .error modelErr

theorem pureModel_kSubst (B : BipG) (t : Tr) (k : Int) (text : String) (enc : Nat → Int → List Clause)
    (ht : kParams t = some (k, text, enc)) (F : CNF) : pureModel B t F = Subst.kSubst F k enc := by
  cases t <;> simp only [kParams, Option.some.injEq, Prod.mk.injEq, reduceCtorEq] at ht
  all_goals (obtain ⟨rfl, rfl, rfl⟩ := ht)
  all_goals first
    | rfl
    | (simp only [pureModel, Subst.notAllEqual, Subst.allEqual, Subst.kSubst]; split <;> rfl)

theorem apply_kSubst (cfg : Cfg) (t : Tr) (k : Int) (text : String) (enc : Nat → Int → List Clause)
    (ht : kParams t = some (k, text, enc)) (s : Store) (f : Addr) (F : Snap) (hF : snap s f = some F) :
    t.apply cfg s f = kSubst cfg s f k text enc := by
  cases t <;> simp only [kParams, Option.some.injEq, Prod.mk.injEq, reduceCtorEq] at ht
  all_goals (obtain ⟨rfl, rfl, rfl⟩ := ht)
  all_goals (unfold Tr.apply; simp only [hF])

/-- T-C19.R2 the seven arity-`k` substitutions (XorSubstitution, OrSubstitution, MajoritySubstitution,
AllEqualSubstitution, NotAllEqualSubstitution, ExactlyOneSubstitution, LinearSubstitution = AtLeastK / AtMostK /
ExactlyK / AnythingButK), for an input whose `all_variable_labels()` yields one label per variable (C11
`labels_aligned`: every formula built through the interface): either `new_block` refuses one of the derived labels
(then the call raises exactly that exception), or the call refines the pure model. -/
theorem substitution_refines (cfg : Cfg) (B : BipG) (t : Tr) (k : Int) (text : String) (enc : Nat → Int → List Clause)
    (ht : kParams t = some (k, text, enc)) (s : Store) (f : Addr) (F : Snap) (labels : List String)
    (hF : snap s f = some F) (hl : inputLabels s f = .ok labels) (hn : labels.length = F.numvar) :
    (∃ e, runActsPure F (blockActs k labels) ⟨0, [], F.header, []⟩ = .error e ∧ 1 ≤ k ∧
        (t.apply cfg s f).2 = .error e) ∨
      Refines F text (pureModel B t F.cnf) (t.apply cfg s f) := by
  rw [apply_kSubst cfg t k text enc ht s f F hF, pureModel_kSubst B t k text enc ht]
  exact kSubst_refines cfg s f F k text enc labels hF hl hn

/-- non-vacuity: the label refusal does not happen on the example, the refinement does -/
example : (Tr.apply cfgRef (.xor 2) storeRef 3).2.toOption = some 8 ∧
    (snap (Tr.apply cfgRef (.xor 2) storeRef 3).1 8).map (·.cnf) = (Subst.xorSubst ⟨2, [[1, -2]]⟩ 2).toOption := by
  decide

/-- the three rounds of `new_variable` of IfThenElseSubstitution -/
def iteGroupActs (labels : List String) : List Act :=
  labels.map (fun nm => .newGroup (.variable (some (wrapLabel "" nm "^{i}"))))
    ++ labels.map (fun nm => .newGroup (.variable (some (wrapLabel "" nm "^{t}"))))
    ++ labels.map (fun nm => .newGroup (.variable (some (wrapLabel "" nm "^{e}"))))

/-- T-C19.R3 IfThenElseSubstitution (`new_variable` never refuses a name, so there is no label alternative) -/
theorem ite_refines (cfg : Cfg) (s : Store) (f : Addr) (F : Snap) (labels : List String)
    (hF : snap s f = some F) (hl : inputLabels s f = .ok labels) (hn : labels.length = F.numvar) :
    Refines F (Header.descr .ite) (Subst.ifThenElse F.cnf) (Tr.ite.apply cfg s f) := by
  unfold Tr.apply
  simp only [hF, hl]
  have hcov : ∀ a ∈ [Act.copyHeader f] ++ iteGroupActs labels ++
      [.describe (Header.descr .ite), .substFrom f (Subst.ite F.numvar)], a.Covered f := by
    intro a ha
    simp only [List.mem_append, List.mem_cons, List.mem_nil_iff, or_false, iteGroupActs, List.mem_map] at ha
    rcases ha with (rfl | (⟨nm, _, rfl⟩ | ⟨nm, _, rfl⟩) | ⟨nm, _, rfl⟩) | rfl | rfl <;> simp [Act.Covered]
  have hb := build_refines cfg s f F _ hF hcov
  rw [List.append_assoc, runActsPure_append] at hb
  simp only [runActsPure, Act.pure, snap0] at hb
  rw [runActsPure_append] at hb
  have hall : ∀ a ∈ iteGroupActs labels, ∃ spec, a = .newGroup spec ∧ ∀ nv gs m g,
      Vars.newGroup ⟨nv, gs, []⟩ spec = (m, .ok g) → m.numvar = nv + 1 := by
    intro a ha
    simp only [iteGroupActs, List.mem_append, List.mem_map] at ha
    rcases ha with (⟨nm, _, rfl⟩ | ⟨nm, _, rfl⟩) | ⟨nm, _, rfl⟩ <;>
      exact ⟨_, rfl, fun nv gs m g h => newGroup_variable_numvar nv gs _ m g h⟩
  -- `new_variable` cannot fail
  have hok : ∀ (acts : List Act) (R : Snap), (∀ a ∈ acts, ∃ lbl, a = .newGroup (.variable lbl)) →
      ∃ R', runActsPure F acts R = .ok R' := by
    intro acts
    induction acts with
    | nil => intro R _; exact ⟨R, rfl⟩
    | cons a as ih =>
      intro R hall
      obtain ⟨lbl, rfl⟩ := hall a (by simp)
      simp only [runActsPure, Act.pure, Vars.newGroup, Vars.mkGroup, Vars.addGroup, Vars.Group.len,
        Vars.Group.start, Nat.one_ne_zero, if_false]
      have : ¬ (R.numvar + 1 ≤ R.numvar) := by omega
      simp only [this, if_false]
      exact ih _ (fun a' ha' => hall a' (by simp [ha']))
  obtain ⟨R1, hg⟩ := hok (iteGroupActs labels) ⟨0, [], F.header, []⟩ (by
    intro a ha
    simp only [iteGroupActs, List.mem_append, List.mem_map] at ha
    rcases ha with (⟨nm, _, rfl⟩ | ⟨nm, _, rfl⟩) | ⟨nm, _, rfl⟩ <;> exact ⟨_, rfl⟩)
  have hgr := runActsPure_groups F 1 (iteGroupActs labels) _ R1 hall hg
  simp only [iteGroupActs, List.length_append, List.length_map, hn, Nat.zero_add, Nat.one_mul] at hgr
  obtain ⟨h1, h2, h3⟩ := hgr
  have h1' : R1.numvar = 3 * F.numvar := by omega
  simp only [hg, runActsPure, Act.pure, Snap.cnf, h1', h2, h3] at hb
  have hlist : ([Act.copyHeader f]
      ++ labels.map (fun nm => Act.newGroup (.variable (some (wrapLabel "" nm "^{i}"))))
      ++ labels.map (fun nm => Act.newGroup (.variable (some (wrapLabel "" nm "^{t}"))))
      ++ labels.map (fun nm => Act.newGroup (.variable (some (wrapLabel "" nm "^{e}"))))
      ++ [Act.describe (Header.descr .ite), Act.substFrom f (Subst.ite F.numvar)]) =
      [Act.copyHeader f] ++ (iteGroupActs labels ++
        [Act.describe (Header.descr .ite), Act.substFrom f (Subst.ite F.numvar)]) := by
    simp [iteGroupActs, List.append_assoc]
  rw [hlist]
  unfold Refines Subst.ifThenElse
  simp only [Snap.cnf]
  cases hr : Subst.run ⟨3 * F.numvar, []⟩ F.numvar (Subst.ite F.numvar) F.clauses with
  | error e => simp only [hr] at hb ⊢; exact hb
  | ok G =>
    simp only [hr] at hb ⊢
    obtain ⟨r, e1, e2⟩ := hb
    exact ⟨r, _, e1, e2, rfl, rfl⟩

/-- T-C19.R4 VariableCompression with the graph OBJECT `b` of the caller (content `B`): same argument checks in the
same order, same formula; the graph object is only read (FRAME) -/
theorem compress_refines (cfg : Cfg) (s : Store) (f b : Addr) (fn : Int) (F : Snap) (B : BipG)
    (hF : snap s f = some F) (hB : readBipG s b = some B) :
    Refines F (Header.descr (.compress fn B.l B.r)) (Subst.compress F.cnf B fn) ((Tr.compress b fn).apply cfg s f) := by
  unfold Tr.apply Subst.compress
  simp only [hF, hB]
  by_cases h1 : fn ≠ 0 ∧ fn ≠ 1
  · rw [if_pos h1, if_pos h1]; exact rfl
  · rw [if_neg h1, if_neg h1]
    by_cases h2 : B.l ≠ F.numvar
    · have h2' : B.l ≠ F.cnf.nvars := h2
      rw [if_pos h2', if_pos h2]; exact rfl
    · have h2' : ¬ B.l ≠ F.cnf.nvars := h2
      rw [if_neg h2', if_neg h2]
      have hb := build_refines cfg s f F
        [.copyHeader f, .updVar B.r, .describe (Header.descr (.compress fn B.l B.r)),
          .substFrom f (if fn = 0 then Subst.applyxor B else Subst.applymaj B)] hF
        (by intro a ha; simp at ha; rcases ha with rfl | rfl | rfl | rfl <;> simp [Act.Covered])
      have hn : ¬ ((B.r : Int) < 0) := by omega
      simp only [runActsPure, Act.pure, hn, if_false, snap0, Snap.cnf, Int.toNat_natCast, Nat.zero_max] at hb
      unfold Refines
      simp only [Snap.cnf]
      cases hr : Subst.run ⟨B.r, []⟩ F.numvar (if fn = 0 then Subst.applyxor B else Subst.applymaj B) F.clauses with
      | error e => simp only [hr] at hb ⊢; exact hb
      | ok G =>
        simp only [hr] at hb ⊢
        obtain ⟨r, e1, e2⟩ := hb
        exact ⟨r, _, e1, e2, rfl, rfl⟩

/-- the two `new_block` calls per original variable of FormulaLifting -/
def liftGroupActs (k : Int) (labels : List String) : List Act :=
  labels.flatMap (fun nm => [.newGroup (.block [k] (some (wrapLabel "X_" nm "^{}"))),
                             .newGroup (.block [k] (some (wrapLabel "Y_" nm "^{}")))])

theorem liftGroupActs_length (k : Int) : ∀ labels : List String, (liftGroupActs k labels).length = 2 * labels.length
  | [] => rfl
  | a :: as => by
    have ih := liftGroupActs_length k as
    simp only [liftGroupActs, List.flatMap_cons, List.length_append, List.length_cons, List.length_nil] at ih ⊢
    omega

/-- T-C19.R6 FormulaLifting: the blocks, the selector constraints (which read the variable count of the half-built
result and do not raise it), the lifted clauses -/
theorem lift_refines (cfg : Cfg) (s : Store) (f : Addr) (F : Snap) (k : Int) (labels : List String)
    (hF : snap s f = some F) (hl : inputLabels s f = .ok labels) (hn : labels.length = F.numvar) :
    (∃ e, runActsPure F (liftGroupActs k labels) ⟨0, [], F.header, []⟩ = .error e ∧ 1 ≤ k ∧
        ((Tr.lift k).apply cfg s f).2 = .error e) ∨
      Refines F (Header.descr (.lift k)) (Subst.lifting F.cnf k) ((Tr.lift k).apply cfg s f) := by
  unfold Tr.apply Subst.lifting
  simp only [hF]
  by_cases hk : k < 1
  · right; rw [if_pos hk, if_pos hk]; exact rfl
  · rw [if_neg hk, if_neg hk]
    simp only [hl]
    have hcov : ∀ a ∈ [Act.copyHeader f] ++ liftGroupActs k labels ++
        [.describe (Header.descr (.lift k)), .liftSelectors k.toNat, .substFrom f (Subst.lift k.toNat)],
        a.Covered f := by
      intro a ha
      simp only [List.mem_append, List.mem_cons, List.mem_nil_iff, or_false, liftGroupActs, List.mem_flatMap] at ha
      rcases ha with (rfl | ⟨nm, _, rfl | rfl⟩) | rfl | rfl | rfl <;> simp [Act.Covered]
    have hb := build_refines cfg s f F _ hF hcov
    rw [List.append_assoc, runActsPure_append] at hb
    simp only [runActsPure, Act.pure, snap0] at hb
    rw [runActsPure_append] at hb
    change _ ∨ Refines F _ _ (build cfg s ([Act.copyHeader f] ++ liftGroupActs k labels ++ _))
    cases hg : runActsPure F (liftGroupActs k labels) ⟨0, [], F.header, []⟩ with
    | error e =>
      left
      simp only [hg] at hb
      exact ⟨e, rfl, by omega, hb⟩
    | ok R1 =>
      right
      simp only [hg] at hb
      have hgr := runActsPure_groups F k.toNat (liftGroupActs k labels) _ R1 (by
        intro a ha
        simp only [liftGroupActs, List.mem_flatMap, List.mem_cons, List.mem_nil_iff, or_false] at ha
        obtain ⟨nm, _, rfl | rfl⟩ := ha <;>
          exact ⟨_, rfl, fun nv gs m g h => newGroup_block_numvar nv gs k _ (by omega) m g h⟩) hg
      have hlen : (liftGroupActs k labels).length = 2 * F.numvar := by
        rw [liftGroupActs_length, hn]
      obtain ⟨h1, h2, h3⟩ := hgr
      have h1' : R1.numvar = 2 * k.toNat * F.numvar := by
        rw [h1, hlen, Nat.zero_add, Nat.mul_comm 2 k.toNat, Nat.mul_assoc]
      have hsel := addLinearAllPure_bounded .eq 1 (selectorLists k.toNat (2 * k.toNat * F.numvar))
        ⟨2 * k.toNat * F.numvar, [], addDescription F.header (Header.descr (.lift k)), R1.groups⟩
        (selectorLists_bounded k.toNat F.numvar (by omega))
      simp only [runActsPure, Act.pure, h1', Snap.cnf, h2, h3] at hb
      rw [hsel] at hb
      simp only [List.nil_append, ← selectors_eq] at hb
      rw [List.append_assoc]
      unfold Refines
      simp only [Snap.cnf]
      cases hr : Subst.run ⟨2 * k.toNat * F.numvar, Subst.selectors k.toNat F.numvar⟩ F.numvar
          (Subst.lift k.toNat) F.clauses with
      | error e => simp only [hr] at hb ⊢; exact hb
      | ok G =>
        simp only [hr] at hb ⊢
        obtain ⟨r, e1, e2⟩ := hb
        exact ⟨r, _, e1, e2, rfl, rfl⟩

/-! ### Shuffle -/

/-- the pure model of `Shuffle(F, fl, vp, cp)` for arguments that are `'fixed'` (`none`) or explicit sequences:
the three argument blocks in the code's order, then `Shuffle.core` (C09) -/
def shufflePure (F : CNF) (fl vp cp : Option (List Int)) : Except Err CNF :=
  match resolveFlips F.nvars fl with
  | .error e => .error e
  | .ok fl' =>
    match resolveVperm F.nvars vp with
    | .error e => .error e
    | .ok vp' =>
      match resolveCperm F.clauses.length cp with
      | .error e => .error e
      | .ok mapping => Shuffle.core F fl' vp' mapping

def argOf : Option (List Int) → Shuffle.Arg
  | none => .fixed
  | some l => .explicit l

/-- it is the general model of C09 run without draws -/
theorem shufflePure_eq_run (F : CNF) (fl vp cp : Option (List Int)) :
    Shuffle.run F (argOf fl) (argOf vp) (argOf cp) [] = some (shufflePure F fl vp cp, []) := by
  unfold Shuffle.run shufflePure
  cases fl with
  | none =>
    simp only [argOf, Shuffle.resolveFlips, resolveFlips]
    cases vp with
    | none =>
      simp only [Shuffle.resolveVperm, resolveVperm]
      cases cp with
      | none => simp [Shuffle.resolveCperm, resolveCperm]
      | some c => simp only [Shuffle.resolveCperm, resolveCperm]; cases Shuffle.checkPerm 0 F.clauses.length c <;> rfl
    | some v =>
      simp only [Shuffle.resolveVperm, resolveVperm]
      cases Shuffle.checkPerm 1 F.nvars v with
      | error e => rfl
      | ok u =>
        simp only []
        cases cp with
        | none => simp [Shuffle.resolveCperm, resolveCperm]
        | some c => simp only [Shuffle.resolveCperm, resolveCperm]; cases Shuffle.checkPerm 0 F.clauses.length c <;> rfl
  | some l =>
    simp only [argOf, Shuffle.resolveFlips, resolveFlips]
    cases Shuffle.checkFlips F.nvars l with
    | error e => rfl
    | ok u =>
      simp only []
      cases vp with
      | none =>
        simp only [Shuffle.resolveVperm, resolveVperm]
        cases cp with
        | none => simp [Shuffle.resolveCperm, resolveCperm]
        | some c => simp only [Shuffle.resolveCperm, resolveCperm]; cases Shuffle.checkPerm 0 F.clauses.length c <;> rfl
      | some v =>
        simp only [Shuffle.resolveVperm, resolveVperm]
        cases Shuffle.checkPerm 1 F.nvars v with
        | error e => rfl
        | ok u =>
          simp only []
          cases cp with
          | none => simp [Shuffle.resolveCperm, resolveCperm]
          | some c => simp only [Shuffle.resolveCperm, resolveCperm]; cases Shuffle.checkPerm 0 F.clauses.length c <;> rfl

/-- the four statements `Shuffle` executes on `out` before it looks at its arguments never fail -/
theorem shuffle_pre_pure (cfg : Cfg) (F : Snap) (f : Addr) :
    runActsPure F [.copyHeader f, .reshuffled, .describe "Formula reshuffling", .updVar F.numvar] (snap0 cfg) =
      .ok ⟨F.numvar, [], Shuffle.shuffleHeader F.header, []⟩ := by
  have hn : ¬ ((F.numvar : Int) < 0) := by omega
  simp only [runActsPure, Act.pure, hn, if_false, snap0, Int.toNat_natCast, Nat.zero_max]
  congr 2
  rw [(addDescription_spec _ _).1]
  rfl

/-- T-C19.R5 Shuffle with each argument `'fixed'` or an explicit list OBJECT of the caller (`'shuffle'` draws a new
list and then behaves like an explicit one — C09 `general_call`): same outcome as the pure model of C09, the returned
object's clauses / variable count are the pure result, its header is `shuffleHeader` of the input's (C09
`header_entry`), it has no variable groups. -/
theorem shuffle_refines (cfg : Cfg) (s : Store) (f : Addr) (F : Snap) (fl vp cp : Option Addr)
    (fl' vp' cp' : Option (List Int)) (hF : snap s f = some F)
    (h1 : readArg s fl = some fl') (h2 : readArg s vp = some vp') (h3 : readArg s cp = some cp') :
    match shufflePure F.cnf fl' vp' cp' with
    | .ok G => ∃ r R, ((Tr.shuffle fl vp cp).apply cfg s f).2 = .ok r ∧
        snap ((Tr.shuffle fl vp cp).apply cfg s f).1 r = some R ∧ R.cnf = G ∧
        R.header = Shuffle.shuffleHeader F.header ∧ R.groups = []
    | .error e => ((Tr.shuffle fl vp cp).apply cfg s f).2 = .error e := by
  obtain ⟨hsep, hf⟩ := sep_newCNF cfg s f F hF
  have hpre := shuffle_pre_pure cfg F f
  unfold Tr.apply
  simp only [hF, h1, h2, h3]
  -- the statement list and the deferred argument error
  have key : ∀ (acts : List Act) (chk : Except Err Unit), (∀ a ∈ acts, a.Covered f) →
      (match runActsPure F acts (snap0 cfg), chk with
        | .error e, _ => (match runActs (newCNF cfg s).2 (newCNF cfg s).1 acts with
            | (s2, .error e) => (s2, Except.error e)
            | (s2, .ok _) => match chk with
              | .error e => (s2, .error e)
              | .ok _ => (s2, .ok (newCNF cfg s).2)).2 = .error e
        | .ok _, .error e => (match runActs (newCNF cfg s).2 (newCNF cfg s).1 acts with
            | (s2, .error e) => (s2, Except.error e)
            | (s2, .ok _) => match chk with
              | .error e => (s2, .error e)
              | .ok _ => (s2, .ok (newCNF cfg s).2)).2 = .error e
        | .ok R', .ok _ => ∃ r, (match runActs (newCNF cfg s).2 (newCNF cfg s).1 acts with
            | (s2, .error e) => (s2, Except.error e)
            | (s2, .ok _) => match chk with
              | .error e => (s2, .error e)
              | .ok _ => (s2, .ok (newCNF cfg s).2)).2 = .ok r ∧
            snap (match runActs (newCNF cfg s).2 (newCNF cfg s).1 acts with
              | (s2, .error e) => (s2, Except.error e)
              | (s2, .ok _) => match chk with
                | .error e => (s2, .error e)
                | .ok _ => (s2, .ok (newCNF cfg s).2)).1 r = some R') := by
    intro acts chk hc
    have h := runActs_refines acts (newCNF cfg s).1 (snap0 cfg) hc hsep (snap_newCNF cfg s) hf
    rcases hp : runActs (newCNF cfg s).2 (newCNF cfg s).1 acts with ⟨s2, res⟩
    rw [hp] at h
    cases hr : runActsPure F acts (snap0 cfg) with
    | error e => simp only [hr] at h ⊢; subst h; rfl
    | ok R' =>
      simp only [hr] at h ⊢
      obtain ⟨e1, e2⟩ := h
      subst e1
      cases chk with
      | error e => rfl
      | ok u => exact ⟨_, rfl, e2⟩
  have hcpre : ∀ a ∈ [Act.copyHeader f, .reshuffled, .describe "Formula reshuffling", .updVar F.numvar],
      a.Covered f := by
    intro a ha; simp at ha; rcases ha with rfl | rfl | rfl | rfl <;> simp [Act.Covered]
  unfold shufflePure shuffleActs
  simp only [Snap.cnf]
  cases hr1 : resolveFlips F.numvar fl' with
  | error e => simp only []; have := key _ (.error e) hcpre; simp only [hpre] at this; exact this
  | ok fl'' =>
    simp only []
    cases hr2 : resolveVperm F.numvar vp' with
    | error e => simp only []; have := key _ (.error e) hcpre; simp only [hpre] at this; exact this
    | ok vp'' =>
      simp only []
      cases hr3 : resolveCperm F.clauses.length cp' with
      | error e => simp only []; have := key _ (.error e) hcpre; simp only [hpre] at this; exact this
      | ok mapping =>
        simp only [Shuffle.core]
        cases hr4 : Shuffle.substTable F.numvar fl'' vp'' with
        | error e => simp only []; have := key _ (.error e) hcpre; simp only [hpre] at this; exact this
        | ok tbl =>
          simp only []
          have hcall : ∀ a ∈ [Act.copyHeader f, .reshuffled, .describe "Formula reshuffling", .updVar F.numvar] ++
              [.loadShuffled f tbl mapping], a.Covered f := by
            intro a ha; simp at ha; rcases ha with rfl | rfl | rfl | rfl | rfl <;> simp [Act.Covered]
          have := key _ (.ok ()) hcall
          rw [runActsPure_append, hpre] at this
          simp only [runActsPure, Act.pure, Snap.cnf] at this
          cases hr5 : Shuffle.foldE (Shuffle.loadStep ⟨F.numvar, F.clauses⟩ tbl) ⟨F.numvar, []⟩ mapping with
          | error e => simp only [hr5] at this ⊢; exact this
          | ok G =>
            simp only [hr5] at this ⊢
            obtain ⟨r, e1, e2⟩ := this
            exact ⟨r, _, e1, e2, rfl, rfl, rfl⟩

end Cnfgen.C19
