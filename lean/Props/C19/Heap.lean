/-
C19 on the HEAP model (lean/CnfgenModel/Heap/*): "applying any transformation returns a NEW formula and leaves
the input formula exactly as it was" — stated about objects, addresses and aliasing, for every store,
every input object, every transformation of the library (`Heap.Tr`: FlipPolarity, the six arity-k substitutions,
LinearSubstitution and its four aliases, IfThenElse, FormulaLifting, VariableCompression, Shuffle) with every
argument, for the normal and for every exceptional exit.

  FRAME      `frame`                     every object that existed before the call has its old content after it
             `input_untouched`           in particular the input's deep snapshot: clauses, variable count, header, groups, names
  FRESHNESS  `fresh`                     every object reachable from the result was allocated by the call
             `no_sharing`                result and any earlier formula (the input, an earlier result, …) have no object in common
  NON-INTERFERENCE
             `mutation_invisible`        a mutation of one of two separate formulas is invisible in the other; they stay separate
             `result_mutations_invisible`, `input_mutations_invisible`   any history of later mutations of one side
             `history_quiet`             any interleaving of mutations of the two
             `twice_separate`, `chain_separate`   the same formula transformed twice; a transformation of a result
  HEADER     `description_entry`, `description_chain`   `add_description` on the real string keys
  `!=` LOOP, BUILDERS   Props/C19/Neq.lean (`builder_leaves_caller_objects`, `neq_loop_restores_working_list`, …)
  REFINEMENT            Props/C19/Refine.lean (the returned object, observed deeply, is what the pure models of C05 / C09 compute)

The proofs go through ONE discipline (`Lemmas/HeapFrame.lean: good_runActs`): after `newF = CNF()` the code only
executes statements that write through `newF`; each transformation is an instance (`Lemmas/HeapTrans.lean: good_apply`).
-/
import Lemmas.HeapResult
import Lemmas.HeapHeader
namespace Cnfgen.C19
open Cnfgen Cnfgen.Heap
local notation "Addr" => Nat

/-! ### objects used by the non-vacuity examples -/

/-- the entries `BaseCNF.__init__` adds after `description` (values shortened) -/
def cfgEx : Cfg := ⟨[("generator", "CNFgen"), ("copyright", "(C)"), ("url", "https://…")]⟩

/-- a store holding one formula object at address 3 (`CNF([[1,-2],[2,3]], description="d")`) -/
def storeEx : Store :=
  let (s, f) := newCNF cfgEx #[] (some "d")
  (addAllVals s f true [[1, -2], [2, 3]]).1

example : snap storeEx 3 =
    some ⟨3, [[1, -2], [2, 3]], [("description", "d"), ("generator", "CNFgen"), ("copyright", "(C)"), ("url", "https://…")], []⟩ := by
  decide

/-! ### FRAME -/

/-- T-C19.H1 FRAME.  Whatever the store, the input address (even a dangling one), the transformation and its
arguments, and whether the call returns or raises: no object that existed before the call is modified,
and none disappears. -/
theorem frame (cfg : Cfg) (t : Tr) (s : Store) (f : Addr) :
    s.size ≤ (t.apply cfg s f).1.size ∧ ∀ a, a < s.size → (t.apply cfg s f).1[a]? = s[a]? :=
  ⟨(good_apply cfg t s f).1.size_le, (good_apply cfg t s f).1.frame⟩

example : (Tr.apply cfgEx (.xor 2) storeEx 3).1.size = 19 ∧ storeEx.size = 6 := by decide

/-- T-C19.H1' the input formula is exactly as it was: its clauses (every literal of every clause, in order),
its variable count, its header, its variable groups — hence its names (`all_variable_labels`) — and the very
objects it consists of -/
theorem input_untouched (cfg : Cfg) (t : Tr) (s : Store) (f : Addr) :
    snap (t.apply cfg s f).1 f = snap s f ∧ footprint (t.apply cfg s f).1 f = footprint s f ∧
      (snap (t.apply cfg s f).1 f).map Snap.names = (snap s f).map Snap.names := by
  obtain ⟨e1, e2⟩ := snap_apply cfg t s f
  exact ⟨e1, e2, by rw [e1]⟩

example : snap (Tr.apply cfgEx (.lift 2) storeEx 3).1 3 = snap storeEx 3 ∧
    (Tr.apply cfgEx (.lift 2) storeEx 3).2.toOption = some 9 := by decide

/-- an exceptional exit (`k = 0` is refused) — the theorem covers it -/
example : (Tr.apply cfgEx (.or 0) storeEx 3).2.toOption = none := by decide

/-! ### FRESHNESS -/

/-- T-C19.H2 FRESHNESS.  Every object reachable from the returned formula (the formula object, its header
dictionary, its list of clauses, every clause, its list of groups) was allocated during the call. -/
theorem fresh (cfg : Cfg) (t : Tr) (s : Store) (f : Addr) (r : Addr) (hr : (t.apply cfg s f).2 = .ok r) :
    ∀ y, Reach (t.apply cfg s f).1 r y → s.size ≤ y ∧ y < (t.apply cfg s f).1.size := by
  intro y hy
  obtain ⟨hg, hge⟩ := good_apply cfg t s f
  have h1 := hge r hr
  exact ⟨reach_closed hg.closed hy h1.1, reach_inbounds hg.closed hy h1.1 h1.2⟩

/-- T-C19.H2' NO SHARING.  The result is a well-typed formula, and it has no object in common with ANY formula
`y` that existed before the call — the input `f` (`y := f`), an earlier result of the same input, the input of
the call that produced `f`, …; and each of those looks exactly as before. -/
theorem no_sharing (cfg : Cfg) (t : Tr) (s : Store) (f r y : Addr) (hr : (t.apply cfg s f).2 = .ok r)
    (hy : WT s y) : Sep (t.apply cfg s f).1 r y ∧ snap (t.apply cfg s f).1 y = snap s y :=
  sep_apply_any cfg t s f r y hr hy

/-- the hypothesis of `no_sharing` for `y := f` comes for free: a call that returns had a well-typed input -/
theorem input_well_typed (cfg : Cfg) (t : Tr) (s : Store) (f r : Addr) (hr : (t.apply cfg s f).2 = .ok r) :
    WT s f := wt_input_of_ok cfg t s f r hr

example : WT storeEx 3 := wt_iff_snap.mpr ⟨⟨3, [[1, -2], [2, 3]], [("description", "d"), ("generator", "CNFgen"), ("copyright", "(C)"), ("url", "https://…")], []⟩, by decide⟩
example : footprint (Tr.apply cfgEx .flip storeEx 3).1 9 = [9, 7, 10, 8, 11, 12] ∧
    footprint (Tr.apply cfgEx .flip storeEx 3).1 3 = [3, 1, 0, 2, 4, 5] := by decide

/-! ### NON-INTERFERENCE -/

/-- T-C19.H3 one mutation (`Heap.Mut`: add a clause, overwrite a literal of a stored clause through the alias that
iteration hands out, set a header entry, raise the variable count, create a variable group, add a description) of
a formula `x` is invisible in a formula `y` that shares no object with it, and the two still share no object. -/
theorem mutation_invisible {s : Store} {x y : Addr} (h : Sep s x y) (m : Mut) :
    snap (m.run s x).1 y = snap s y ∧ Sep (m.run s x).1 x y :=
  sep_step h (step_mut m h.wtx)

/-- any history of mutations of `x` -/
theorem mutations_invisible {s : Store} {x y : Addr} (h : Sep s x y) (ms : List Mut) :
    snap (runMuts x s ms) y = snap s y ∧ Sep (runMuts x s ms) x y :=
  sep_runMuts h ms

/-- T-C19.H3a mutating the RESULT later — in any way, any number of times — cannot change the input
(nor any other formula that existed before the call) -/
theorem result_mutations_invisible (cfg : Cfg) (t : Tr) (s : Store) (f r : Addr)
    (hr : (t.apply cfg s f).2 = .ok r) (ms : List Mut) :
    snap (runMuts r (t.apply cfg s f).1 ms) f = snap s f := by
  obtain ⟨hsep, e⟩ := no_sharing cfg t s f r f hr (input_well_typed cfg t s f r hr)
  rw [(mutations_invisible hsep ms).1, e]

/-- T-C19.H3b … and vice versa: mutating the INPUT after the call cannot change the result -/
theorem input_mutations_invisible (cfg : Cfg) (t : Tr) (s : Store) (f r : Addr)
    (hr : (t.apply cfg s f).2 = .ok r) (ms : List Mut) :
    snap (runMuts f (t.apply cfg s f).1 ms) r = snap (t.apply cfg s f).1 r := by
  obtain ⟨hsep, _⟩ := no_sharing cfg t s f r f hr (input_well_typed cfg t s f r hr)
  exact (mutations_invisible hsep.symm ms).1

example : snap (runMuts 9 (Tr.apply cfgEx .flip storeEx 3).1
      [.addClause [5] true, .setLit 0 0 7, .hdrSet "k" "v", .describe "x", .updVar 9, .newGroup (.variable none)]) 3
    = snap storeEx 3 := by decide
/-- the mutations of the example do change the formula they are applied to -/
example : (snap (runMuts 9 (Tr.apply cfgEx .flip storeEx 3).1 [.addClause [5] true, .setLit 0 0 7]) 9).map (·.clauses)
    = some [[7, 2], [-2, -3], [5]] := by decide

/-- an interleaved history: `(true, m)` mutates `x`, `(false, m)` mutates `y` -/
def runHist (x y : Addr) : Store → List (Bool × Mut) → Store
  | s, [] => s
  | s, (true, m) :: ops => runHist x y (m.run s x).1 ops
  | s, (false, m) :: ops => runHist x y (m.run s y).1 ops

/-- along the history, every step leaves the OTHER formula's snapshot unchanged -/
def Quiet (x y : Addr) : Store → List (Bool × Mut) → Prop
  | _, [] => True
  | s, (true, m) :: ops => snap (m.run s x).1 y = snap s y ∧ Quiet x y (m.run s x).1 ops
  | s, (false, m) :: ops => snap (m.run s y).1 x = snap s x ∧ Quiet x y (m.run s y).1 ops

/-- T-C19.H3c any interleaving of mutations of two separate formulas: no step of one is ever visible in the other,
and they are still separate at the end -/
theorem history_quiet {x y : Addr} : ∀ (ops : List (Bool × Mut)) (s : Store), Sep s x y →
    Quiet x y s ops ∧ Sep (runHist x y s ops) x y
  | [], _, h => ⟨trivial, h⟩
  | (true, m) :: ops, s, h => by
    obtain ⟨e, h'⟩ := mutation_invisible h m
    obtain ⟨q, h''⟩ := history_quiet ops _ h'
    exact ⟨⟨e, q⟩, h''⟩
  | (false, m) :: ops, s, h => by
    obtain ⟨e, h'⟩ := mutation_invisible h.symm m
    obtain ⟨q, h''⟩ := history_quiet ops _ h'.symm
    exact ⟨⟨e, q⟩, h''⟩

/-- T-C19.H4 the same formula transformed twice: the two results share nothing with each other nor with the input,
and the first result is not affected by the second call -/
theorem twice_separate (cfg : Cfg) (t1 t2 : Tr) (s : Store) (f r1 r2 : Addr)
    (h1 : (t1.apply cfg s f).2 = .ok r1) (h2 : (t2.apply cfg (t1.apply cfg s f).1 f).2 = .ok r2) :
    let s1 := (t1.apply cfg s f).1
    let s2 := (t2.apply cfg s1 f).1
    Sep s2 r2 r1 ∧ Sep s2 r2 f ∧ Sep s2 r1 f ∧ snap s2 r1 = snap s1 r1 ∧ snap s2 f = snap s f := by
  intro s1 s2
  have hf := input_well_typed cfg t1 s f r1 h1
  obtain ⟨sep1, e1⟩ := no_sharing cfg t1 s f r1 f h1 hf
  obtain ⟨sep21, e21⟩ := no_sharing cfg t2 s1 f r2 r1 h2 sep1.wtx
  obtain ⟨sep2f, e2f⟩ := no_sharing cfg t2 s1 f r2 f h2 sep1.wty
  refine ⟨sep21, sep2f, ?_, e21, by rw [e2f, e1]⟩
  -- r1 and f are still separate: the second call changed no cell of either
  have hg := (good_apply cfg t2 s1 f).1
  have a1 := wt_inbounds sep1.wtx
  have a2 := wt_inbounds sep1.wty
  obtain ⟨_, fp1⟩ := snap_congr (s := s1) (s' := s2) (r := r1) (fun a ha => hg.frame a (a1 a ha))
  obtain ⟨_, fp2⟩ := snap_congr (s := s1) (s' := s2) (r := f) (fun a ha => hg.frame a (a2 a ha))
  exact ⟨sep21.wty, sep2f.wty, fun a h1 h2 => sep1.disj a (fp1 ▸ h1) (fp2 ▸ h2)⟩

/-- T-C19.H4' a transformation of a transformation's result (`-T a -T b`): the final result shares nothing with the
intermediate one nor with the original input; both are as they were -/
theorem chain_separate (cfg : Cfg) (t1 t2 : Tr) (s : Store) (f r1 r2 : Addr)
    (h1 : (t1.apply cfg s f).2 = .ok r1) (h2 : (t2.apply cfg (t1.apply cfg s f).1 r1).2 = .ok r2) :
    let s1 := (t1.apply cfg s f).1
    let s2 := (t2.apply cfg s1 r1).1
    Sep s2 r2 r1 ∧ Sep s2 r2 f ∧ snap s2 r1 = snap s1 r1 ∧ snap s2 f = snap s f := by
  intro s1 s2
  have hf := input_well_typed cfg t1 s f r1 h1
  obtain ⟨sep1, e1⟩ := no_sharing cfg t1 s f r1 f h1 hf
  obtain ⟨sep21, e21⟩ := no_sharing cfg t2 s1 r1 r2 r1 h2 sep1.wtx
  obtain ⟨sep2f, e2f⟩ := no_sharing cfg t2 s1 r1 r2 f h2 sep1.wty
  exact ⟨sep21, sep2f, e21, by rw [e2f, e1]⟩

example : (Tr.apply cfgEx (.or 2) (Tr.apply cfgEx .flip storeEx 3).1 9).2.toOption = some 16 := by decide

/-! ### HEADER: `add_description` on the real keys -/

/-- T-C19.H5 `add_description(F, text)` for ANY header — arbitrary string keys: gaps in the numbering
(`transformation 1`, `transformation 3`), keys that are not numbered at all, keys that only look numbered
(`transformation 01`, `transformation 2 `): every old entry keeps its place and value, ONE entry is added at
the end, its key is `'transformation {}'.format(i)` for the least `i ≥ 1` whose key is not in the header. -/
theorem description_entry (h : Hdr) (text : String) :
    addDescription h text = h ++ [(Shuffle.tkey (Shuffle.firstFree h), text)] ∧ 1 ≤ Shuffle.firstFree h ∧
      hasKey h (Shuffle.tkey (Shuffle.firstFree h)) = false ∧
      ∀ j, 1 ≤ j → j < Shuffle.firstFree h → hasKey h (Shuffle.tkey j) = true :=
  addDescription_spec h text

example : addDescription [("description", "d"), ("transformation 1", "a"), ("transformation 3", "c"),
      ("transformation 02", "x"), ("note", "n")] "new" =
    [("description", "d"), ("transformation 1", "a"), ("transformation 3", "c"), ("transformation 02", "x"),
      ("note", "n"), ("transformation 2", "new")] := by decide

/-- T-C19.H5' a chain of any length: the original header is a prefix of the result; then one entry per step, in
the order of application, with the given texts; the numbers picked are ≥ 1, were free in the original header, and
are strictly increasing along the chain (so the header always tells the order of the steps). -/
theorem description_chain (h : Hdr) (texts : List String) :
    describeAll h texts = h ++ List.zipWith (fun i t => (Shuffle.tkey i, t)) (pickedIdx h texts) texts ∧
      (pickedIdx h texts).length = texts.length ∧ (pickedIdx h texts).Pairwise (· < ·) ∧
      ∀ i ∈ pickedIdx h texts, 1 ≤ i ∧ hasKey h (Shuffle.tkey i) = false := by
  refine ⟨describeAll_eq texts h, pickedIdx_length texts h, pickedIdx_increasing texts h, ?_⟩
  intro i hi
  have := pickedIdx_lower texts h i hi
  have := (addDescription_spec h "").2.1
  exact ⟨by omega, pickedIdx_free texts h i hi⟩

example : pickedIdx [("transformation 1", "a"), ("transformation 3", "c")] ["p", "q", "r"] = [2, 4, 5] := by decide

end Cnfgen.C19
