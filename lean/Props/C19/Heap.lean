/-
C19 on the HEAP model (lean/CnfgenModel/Heap/*): "applying any transformation returns a NEW formula and leaves
the input formula exactly as it was" — stated about objects, addresses and aliasing, for every store,
every input object, every transformation of the library with every argument, for the normal and for every
exceptional exit.

  FRAME      `frame`            every object that existed before the call has its old content after it
             `input_untouched`  in particular the input's deep snapshot (clauses, variable count, header, groups = names)
  FRESHNESS  `fresh`            every object reachable from the result was allocated by the call
             `no_sharing`       the result and the input have no object in common
The proofs go through ONE discipline (`Lemmas/HeapFrame.lean: good_runActs`): after `newF = CNF()` the code only
executes statements that write through `newF`; each transformation is an instance (`good_apply`).
-/
import Lemmas.HeapTrans
namespace Cnfgen.C19
open Cnfgen Cnfgen.Heap
local notation "Addr" => Nat

/-- T-C19.H1 FRAME.  Whatever the store, the input address (even a dangling one), the transformation and its
arguments, and whether the call returns or raises: no object that existed before the call is modified,
and none disappears. -/
theorem frame (cfg : Cfg) (t : Tr) (s : Store) (f : Addr) :
    s.size ≤ (t.apply cfg s f).1.size ∧ ∀ a, a < s.size → (t.apply cfg s f).1[a]? = s[a]? :=
  ⟨(good_apply cfg t s f).1.size_le, (good_apply cfg t s f).1.frame⟩

/-- T-C19.H2 FRESHNESS.  Every object reachable from the returned formula (the formula object, its header
dictionary, its list of clauses, every clause, its list of groups) was allocated during the call. -/
theorem fresh (cfg : Cfg) (t : Tr) (s : Store) (f : Addr) (r : Addr) (hr : (t.apply cfg s f).2 = .ok r) :
    ∀ y, Reach (t.apply cfg s f).1 r y → s.size ≤ y ∧ y < (t.apply cfg s f).1.size := by
  intro y hy
  obtain ⟨hg, hge⟩ := good_apply cfg t s f
  have h1 := hge r hr
  exact ⟨reach_closed hg.closed hy h1.1, reach_inbounds hg.closed hy h1.1 h1.2⟩

end Cnfgen.C19
