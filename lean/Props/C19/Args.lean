/-
C19 — "building a formula from a graph or passing lists of literals, patterns or charges leaves those arguments unchanged":
the arguments of the GENERATORS on the heap model (Heap/Args.lean), worker w19b.

1. Table theorems over the regenerated `Generated.graphUses` (tools/extract_graph_uses.py, from the current source on every
   run): every family, the graph transformation and the variable groups apply to their graph names only what is in the reviewed
   read-only list; the only place where a reference to the caller's graph is KEPT is `BipartiteEdgesVariables.__init__` (O1).
2. For EVERY family program over {value of a graph argument, content of a list / list-of-lists argument, statement on the new
   formula, keep a reference to a graph argument}, every store, every argument list, every exit (normal or exception, in a
   normalisation or in the body): FRAME — no cell that existed before the call is written, hence every graph object,
   charge list, planted assignment keeps its deep content; the returned formula is a new object; a cnfgen graph is used as
   the very same object, a networkx graph is converted into a fresh one.
3. O1 stated precisely: the live group object holds the address of the caller's graph; nothing the formula does ever writes
   that graph; what the group enumerates is a function of the graph object's CURRENT content, so an edit by the caller
   changes the group's answer while the formula's variable count stays (replay: notes/C19.md, harness suite `args_o1`).
-/
import CnfgenModel.Heap.Args
import CnfgenModel.Heap.Prog
import CnfgenModel.Generated.GraphUses
import Lemmas.HeapTrans
import Lemmas.HeapMut
namespace Cnfgen.C19
open Cnfgen Cnfgen.Heap Cnfgen.Generated
local notation "Addr" => Nat

/-! ### 1. what the generators apply to their graph objects (regenerated table) -/

/-- reviewed: methods of graphs.py that read only (none of them assigns an attribute, calls `append` / `insert` / `remove` /
`sort` / `add` on an attribute, or hands out an internal list: generators yield integers, `*_neighbors` return `[:]`) -/
def readOnlyMethods : List String :=
  ["order", "number_of_vertices", "number_of_edges", "vertices", "edges", "has_edge", "neighbors", "degree",
   "predecessors", "successors", "in_degree", "out_degree", "is_dag", "is_bipartite", "parts", "left_order", "right_order",
   "left_neighbors", "right_neighbors", "left_degree", "right_degree"]

/-- reviewed: attributes read (immutable values) -/
def readOnlyAttrs : List String := ["name"]

/-- reviewed: callables a graph object may be handed to.  Each is either a builtin that reads (`isinstance`), or a function /
class whose own uses are rows of the same table (checked by `passCalleesAnalysed`). -/
def passCallees : List String :=
  ["isinstance", "new_graph_edges", "new_digraph_edges", "new_bipartite_edges", "new_sparse_mapping",
   "GraphEdgesVariables", "DiGraphEdgesVariables", "BipartiteEdgesVariables", "UnaryMappingVariables", "__init__",
   "TseitinFormula", "GraphIsomorphism", "SparseStoneFormula", "non_edges", "unique_neighborhoods"]

def normClasses : List String := ["Graph", "DirectedGraph", "BipartiteGraph"]

/-- is this use read-only?  `keep` (a stored reference) is allowed in one place only, see `refKeptOnlyByBipartiteGroup` -/
def useOK : GUse → Bool
  | .call m => readOnlyMethods.contains m
  | .attr a => readOnlyAttrs.contains a
  | .pass_ f _ => passCallees.contains f
  | .passKw _ _ => false
  | .norm c => normClasses.contains c
  | .bind => true
  | .store _ => false
  | .keep s => s == "self.G"
  | .item => false
  | .other _ => false

/-- the rows in which something is not read-only (printed in the goal when the proof breaks) -/
def offending : List (String × String × List GUse) :=
  (graphUses.map (fun r => (r.1, r.2.1, r.2.2.filter (fun u => !useOK u)))).filter (fun r => !r.2.2.isEmpty)

/-- T-C19.A1 — every function of cnfgen/families/*.py, `VariableCompression` and every variable-group class uses its graph
objects ONLY through the reviewed read-only methods / attributes / callees.  A family that starts calling `G.add_edge`,
`G.remove_edge`, `G.update_vertex_number`, touching `G.adjlist[…]`, assigning `G.name = …`, storing the graph somewhere or
passing it to an unreviewed function makes `offending` non-empty: the build, hence the check, fails. -/
theorem families_use_graphs_read_only : offending = [] := by decide +kernel

/-- the functions of the table -/
def analysed : List String := graphUses.map (fun r => r.2.1)

/-- a callee name is analysed if it is a row, a class whose `__init__` is a row, or a method `<Class>.<name>` that is a row -/
def calleeAnalysed (f : String) : Bool :=
  f == "isinstance" || f == "__init__" || analysed.contains f || analysed.contains (f ++ ".__init__") ||
    analysed.any (fun q => q.endsWith ("." ++ f))

/-- T-C19.A2 — every callable that receives a graph object is itself analysed by the table (so A1 covers what it does) -/
theorem passCalleesAnalysed : passCallees.all calleeAnalysed = true := by decide +kernel

/-- where a reference to the caller's graph is kept in a new object -/
def keepers : List String :=
  (graphUses.filter (fun r => r.2.2.any (fun u => match u with | .keep _ => true | _ => false))).map (fun r => r.2.1)

/-- T-C19.A3 (O1, located) — the only statement that keeps a reference to the caller's graph is `self.G = G` in
`BipartiteEdgesVariables.__init__` (inherited by `UnaryMappingVariables`): the groups made by `new_bipartite_edges` and
`new_sparse_mapping`.  `GraphEdgesVariables` / `DiGraphEdgesVariables` keep nothing. -/
theorem refKeptOnlyByBipartiteGroup : keepers = ["BipartiteEdgesVariables.__init__"] := by decide +kernel

/-- the table is not empty: the families with graph arguments are all there -/
theorem table_covers_families :
    ["TseitinFormula", "GraphPigeonholePrinciple", "PebblingFormula", "SubsetCardinalityFormula", "GraphColoringFormula",
     "GraphOrderingPrinciple", "CliqueFormula", "SubgraphFormula", "GraphIsomorphism", "DominatingSet", "Tiling",
     "PerfectMatchingPrinciple", "StoneFormula", "SparseStoneFormula", "PitfallFormula", "EvenColoringFormula",
     "RamseyWitnessFormula", "BinaryCliqueFormula", "GraphAutomorphism", "VariableCompression"].all analysed.contains = true := by
  decide +kernel

/-! ### 2. frame, for every family program -/

theorem size_runFam (r : Addr) (args : List Addr) :
    ∀ (p : FamProg) (s : Store), s.size ≤ (runFam r args s p).1.size := by
  intro p
  induction p with
  | ret => intro s; simp [runFam]
  | raise e => intro s; simp [runFam]
  | readG i k ih =>
    intro s; rw [runFam]; split
    · simp
    · split
      · simp
      · exact ih _ s
  | readL i k ih =>
    intro s; rw [runFam]; split
    · simp
    · split
      · simp
      · exact ih _ s
  | readLL i k ih =>
    intro s; rw [runFam]; split
    · simp
    · split
      · simp
      · exact ih _ s
  | act a k ih =>
    intro s; rw [runFam]
    have h1 := size_runAct s r a
    split
    · rename_i s1 e heq; rw [heq] at h1; exact h1
    · rename_i s1 u heq; rw [heq] at h1; exact Nat.le_trans h1 (ih s1)
  | clause xs c k ih =>
    intro s; rw [runFam]
    have h1 := size_addClauseVals s r xs c
    split
    · rename_i s1 e heq; rw [heq] at h1; exact h1
    · rename_i s1 u heq; rw [heq] at h1; exact Nat.le_trans h1 (ih s1)
  | linear xs op c k ih =>
    intro s; rw [runFam]
    have h1 := size_addLinear s r xs op c
    split
    · rename_i s1 e heq; rw [heq] at h1; exact h1
    · rename_i s1 u heq; rw [heq] at h1; exact Nat.le_trans h1 (ih s1)
  | keepRef i k ih =>
    intro s; rw [runFam]; split
    · simp
    · simp only []
      refine Nat.le_trans ?_ (ih _ _)
      simp

/-- THE GENERIC DISCIPLINE for generators: whatever a family reads from its arguments and however its continuation depends
on it, the body writes only through the new formula `r` -/
theorem good_runFam {s0 : Store} {r : Addr} (args : List Addr) (hr : s0.size ≤ r) :
    ∀ (p : FamProg) (s : Store), Good s0 s → Good s0 (runFam r args s p).1 := by
  intro p
  induction p with
  | ret => intro s h; simpa [runFam] using h
  | raise e => intro s h; simpa [runFam] using h
  | readG i k ih =>
    intro s h; rw [runFam]; split
    · exact h
    · split
      · exact h
      · exact ih _ s h
  | readL i k ih =>
    intro s h; rw [runFam]; split
    · exact h
    · split
      · exact h
      · exact ih _ s h
  | readLL i k ih =>
    intro s h; rw [runFam]; split
    · exact h
    · split
      · exact h
      · exact ih _ s h
  | act a k ih =>
    intro s h; rw [runFam]
    have h1 := good_runAct a h hr
    split
    · rename_i s1 e heq; rw [heq] at h1; exact h1
    · rename_i s1 u heq; rw [heq] at h1; exact ih s1 h1
  | clause xs c k ih =>
    intro s h; rw [runFam]
    have h1 := good_addClauseVals xs c h hr
    split
    · rename_i s1 e heq; rw [heq] at h1; exact h1
    · rename_i s1 u heq; rw [heq] at h1; exact ih s1 h1
  | linear xs op c k ih =>
    intro s h; rw [runFam]
    have h1 := good_addLinear xs op c h hr
    split
    · rename_i s1 e heq; rw [heq] at h1; exact h1
    · rename_i s1 u heq; rw [heq] at h1; exact ih s1 h1
  | keepRef i k ih =>
    intro s h; rw [runFam]; split
    · exact h
    · exact ih _ _ (good_alloc h (by simp [Cell.refsOf]))

theorem good_allocConv {s0 s : Store} (h : Good s0 s) (c : Except Err Cell)
    (hc : ∀ c', c = .ok c' → c'.refsOf = []) : Good s0 (allocConv s c).1 := by
  unfold allocConv
  split
  · rename_i c' ; exact good_alloc h (by rw [hc c' rfl]; simp)
  · exact h

theorem good_normalize {s0 s : Store} (cls : GKind) (a : Addr) (h : Good s0 s) : Good s0 (normalize s cls a).1 := by
  unfold normalize
  split
  · exact h
  · exact h
  · exact h
  · apply good_allocConv h
    intro c' hc'
    simp only [Except.map] at hc'
    split at hc' <;> cases hc'
    rfl
  · apply good_allocConv h
    intro c' hc'
    simp only [Except.map] at hc'
    split at hc' <;> cases hc'
    rfl
  · split
    · apply good_allocConv h
      intro c' hc'; cases hc'; rfl
    · exact h
  · exact h

theorem good_normAll {s0 : Store} : ∀ (ns : List (Nat × GKind)) (s : Store) (args : List Addr), Good s0 s →
    Good s0 (normAll s args ns).1
  | [], s, args, h => by simpa [normAll] using h
  | (i, cls) :: ns, s, args, h => by
    rw [normAll]
    split
    · exact h
    · rename_i a _
      have h1 := good_normalize cls a h
      split
      · rename_i s1 e heq; rw [heq] at h1; exact h1
      · rename_i s1 b heq; rw [heq] at h1; exact good_normAll ns s1 _ h1

/-- every call of every family: the discipline, and the returned formula is a new object -/
theorem good_famCall (cfg : Cfg) (s : Store) (args : List Addr) (norms : List (Nat × GKind)) (d : Option String)
    (body : FamProg) : Disciplined s (famCall cfg s args norms d body) := by
  unfold Disciplined famCall
  have h1 := good_normAll norms s args (Good.refl s)
  split
  · rename_i s1 e heq; rw [heq] at h1; exact ⟨h1, by intro r hr; cases hr⟩
  · rename_i s1 args1 heq
    rw [heq] at h1
    obtain ⟨h2, hr⟩ := good_newCNF cfg d h1
    have hlt := newCNF_addr_lt cfg s1 d
    have h3 := good_runFam args1 hr body _ h2
    have hsz := size_runFam (newCNF cfg s1 d).2 args1 body (newCNF cfg s1 d).1
    simp only []
    split
    · rename_i s2 e heq2; rw [heq2] at h3; exact ⟨h3, by intro r hr'; cases hr'⟩
    · rename_i s2 u heq2
      rw [heq2] at h3 hsz
      refine ⟨h3, ?_⟩
      intro r' hr'
      cases hr'
      dsimp only at hlt hsz hr ⊢
      exact ⟨hr, by omega⟩

/-- T-C19.A4 FRAME for generators.  For every family program (arbitrary continuations), every store, every argument list,
every list of normalisations, at the normal exit and at every exceptional exit (TypeError / ValueError of a normalisation,
any exception of the body): no object that existed before the call is modified. -/
theorem args_frame (cfg : Cfg) (s : Store) (args : List Addr) (norms : List (Nat × GKind)) (d : Option String)
    (body : FamProg) :
    s.size ≤ (famCall cfg s args norms d body).1.size ∧
      ∀ a, a < s.size → (famCall cfg s args norms d body).1[a]? = s[a]? :=
  ⟨(good_famCall cfg s args norms d body).1.size_le, (good_famCall cfg s args norms d body).1.frame⟩

/-- a deep read that succeeded in the old store touches old cells only, so it reads the same in any store that agrees
with the old one on the old cells -/
theorem readIntsAll_frame {s s' : Store} (h : ∀ a, a < s.size → s'[a]? = s[a]?) :
    ∀ (as : List Addr) (v : List (List Int)), readIntsAll s as = some v → readIntsAll s' as = some v
  | [], v, hv => by simpa [readIntsAll] using hv
  | a :: as, v, hv => by
    rw [readIntsAll] at hv ⊢
    cases h1 : readInts s a with
    | none => simp [h1] at hv
    | some x =>
      cases h2 : readIntsAll s as with
      | none => simp [h1, h2] at hv
      | some xs =>
        have ha : a < s.size := by
          unfold readInts at h1
          split at h1
          · rename_i heq; exact lt_size_of_getElem? heq
          · cases h1
        have e1 : readInts s' a = some x := by
          unfold readInts at h1 ⊢; rw [h a ha]; exact h1
        rw [e1, readIntsAll_frame h as xs h2]
        simpa [h1, h2] using hv

/-- T-C19.A5 the ARGUMENTS are exactly as they were — at every exit:
graph objects (cnfgen and networkx) keep their value, lists of integers (charges, literals, permutations) their content,
lists of lists (planted assignments) their deep content and the very objects they consist of. -/
theorem arguments_untouched (cfg : Cfg) (s : Store) (args : List Addr) (norms : List (Nat × GKind)) (d : Option String)
    (body : FamProg) (a : Addr) (ha : a < s.size) :
    let s' := (famCall cfg s args norms d body).1
    readGraph s' a = readGraph s a ∧ readInts s' a = readInts s a ∧ readRefs s' a = readRefs s a ∧
      s'[a]? = s[a]? ∧ (∀ v, readNested s a = some v → readNested s' a = some v) := by
  intro s'
  have hf := (args_frame cfg s args norms d body).2
  have e : s'[a]? = s[a]? := hf a ha
  refine ⟨by unfold readGraph; rw [e], by unfold readInts; rw [e], by unfold readRefs; rw [e], e, ?_⟩
  intro v hv
  unfold readNested at hv ⊢
  have e2 : readRefs s' a = readRefs s a := by unfold readRefs; rw [e]
  rw [e2]
  cases h1 : readRefs s a with
  | none => simp [h1] at hv
  | some as => simp only [h1] at hv ⊢; exact readIntsAll_frame hf as v hv

/-- T-C19.A6 the returned formula is a NEW object: it is none of the arguments, nor anything else that existed -/
theorem result_is_new (cfg : Cfg) (s : Store) (args : List Addr) (norms : List (Nat × GKind)) (d : Option String)
    (body : FamProg) (r : Addr) (hr : (famCall cfg s args norms d body).2 = .ok r) : s.size ≤ r :=
  ((good_famCall cfg s args norms d body).2 r hr).1

/-- T-C19.A7 `normalize` on a cnfgen graph of the class: the SAME object, nothing allocated, nothing written -/
theorem normalize_same_object (s : Store) (a : Addr) :
    (∀ G, s[a]? = some (.graph G) → normalize s .simple a = (s, .ok a)) ∧
    (∀ D, s[a]? = some (.dig D) → normalize s .directed a = (s, .ok a)) ∧
    (∀ B, s[a]? = some (.bipg B) → normalize s .bipartite a = (s, .ok a)) := by
  refine ⟨?_, ?_, ?_⟩ <;> intro G h <;> simp [normalize, h]

/-- T-C19.A8 `normalize` on a networkx object: when it succeeds the result is a FRESH object (the next address), the
networkx object is still there unchanged; at every exit no old cell is written -/
theorem normalize_nx_fresh (s : Store) (cls : GKind) (a : Addr) (dir : Bool) (n : Nat) (es : List (Nat × Nat))
    (h : s[a]? = some (.nx dir n es)) :
    (∀ b, (normalize s cls a).2 = .ok b → b = s.size ∧ b ≠ a) ∧ (normalize s cls a).1[a]? = some (.nx dir n es) ∧
      ∀ x, x < s.size → (normalize s cls a).1[x]? = s[x]? := by
  have hg := good_normalize cls a (Good.refl s)
  have ha := lt_size_of_getElem? h
  refine ⟨?_, by rw [hg.frame a ha]; exact h, hg.frame⟩
  intro b hb
  have key : ∀ c : Except Err Cell, (allocConv s c).2 = .ok b → b = s.size := by
    intro c hc
    unfold allocConv at hc
    split at hc
    · simp [alloc] at hc; exact hc.symm
    · cases hc
  have : b = s.size := by
    unfold normalize at hb
    rw [h] at hb
    cases cls <;> cases dir <;> simp only [] at hb
    · exact key _ hb
    · exact key _ hb
    · cases hb
    · exact key _ hb
    · split at hb
      · exact key _ hb
      · cases hb
    · split at hb
      · exact key _ hb
      · cases hb
  exact ⟨this, by omega⟩

/-! ### 3. O1: the group keeps a reference to the caller's graph -/

/-- T-C19.A9 whatever is done to a formula `x` through its own interface (any history of `Mut`s: add_clause, writes through
iteration aliases, header entries, update_variable_number, new groups, add_description) NEVER writes an object outside the
formula's footprint — in particular never the caller's graph `g` a group of the formula refers to, nor the group object -/
theorem formula_never_writes_graph {s : Store} {x g : Addr} (hx : WT s x) (hg : g < s.size) (hsep : g ∉ footprint s x)
    (ms : List Mut) : (runMuts x s ms)[g]? = s[g]? ∧ readGraph (runMuts x s ms) g = readGraph s g := by
  have st := step_runMuts ms s hx
  have e := st.touch g hg hsep
  exact ⟨e, by unfold readGraph; rw [e]⟩

/-- T-C19.A10 what the live group object enumerates is a function of the CURRENT content of the graph object it refers to:
after the caller's `B.add_edge(u, v)` it enumerates the edges of the edited graph -/
theorem group_follows_graph {s : Store} {a g first : Addr} {B B' : BipG} (ha : s[a]? = some (.bgroup g first))
    (hg : s[g]? = some (.bipg B)) (u v : Int) (hadd : B.addEdge u v = .ok B') :
    bgroupEdges s a = some B.edges ∧
      bgroupEdges (graphAddEdge s g u v).1 a = some B'.edges := by
  have hne : g ≠ a := by intro e; rw [e, ha] at hg; cases hg
  have hgs := lt_size_of_getElem? hg
  refine ⟨by simp [bgroupEdges, ha, hg], ?_⟩
  unfold graphAddEdge
  rw [hg]
  simp only [hadd]
  unfold bgroupEdges
  rw [get_write_ne hne, ha]
  simp only []
  rw [get_write_eq hgs]

/-- while the graph is as it was when the group was made, the live group answers exactly what the by-value group of the
heap model answers: `liveNames1` is `all_variable_labels` -/
theorem liveNames1_unchanged (numvar st : Nat) (B : BipG) (fmt : String) (un : Bool) (cl : List Clause) :
    liveNames1 numvar st B B fmt un = Vars.allLabels ⟨numvar, [.bip st B fmt un], cl⟩ := by
  unfold liveNames1 Vars.allLabels
  by_cases h0 : B.numberOfEdges = 0
  · simp [h0, Vars.allLabelsLoop, Vars.Group.len]
  · simp only [h0, if_false, Vars.allLabelsLoop, Vars.Group.len, Vars.groupNames, Vars.Group.start]
    cases Vars.defaultNames "x{}" 1 st with
    | error e => rfl
    | ok gap =>
      cases (Vars.Group.bip st B fmt un).allLabels with
      | error e => rfl
      | ok ls => simp [bind, Except.bind, pure, Except.pure]

/-- T-C19.A10' as long as the caller has not edited the graph, the names of the formula read through the live group are
the names of its snapshot (so every theorem about `snap` / `Snap.names` speaks about the real answer); the reference
matters only after an edit by the caller -/
theorem liveNames_unchanged {s : Store} {f g first st : Addr} {S : Snap} {B : BipG} {fmt : String} {un : Bool}
    (hS : snap s f = some S) (hgr : S.groups = [.bip st B fmt un]) (hp : s[f + 1]? = some (.bgroup g first))
    (hg : s[g]? = some (.bipg B)) : liveNames s f = some S.names := by
  unfold liveNames
  rw [hS]
  simp only [hp, hgr, hg]
  rw [liveNames1_unchanged _ _ _ _ _ S.clauses, Snap.names, hgr]

/-- the replay of notes/C19.md on the model: `B = BipartiteGraph(2,2)` with the edges (1,1), (2,2);
`F = GraphPigeonholePrinciple(B)`; `p` = the group object; then the caller's `B.add_edge(1,2)` -/
def o1Prog : List Instr :=
  [.mkBip ((BipG.ofEdges 2 2 [(1, 1), (2, 2)]).toOption.getD (BipG.init 0 0)),
   .gphp 0 false false "Graph pigeonhole principle formula on a bipartite graph",
   .liveGroup 1,
   .gAddEdge 0 1 2]

/-- T-C19.A11 (O1, the documented behaviour, NOT a violation of C19: the ARGUMENT is left unchanged by the call; the
RESULT is not independent of what the caller does to the graph afterwards).  On the replay: the call leaves the graph cell
as it was; the group object holds the address of the caller's graph (same alias class); before the edit it enumerates the
two edges, after the edit three — while the formula still has two variables; `all_variable_labels` has two labels before
and THREE after (for two variables). -/
def o1Obs : Option (Bool × Bool × Option (List (Nat × Nat)) × Option (List (Nat × Nat)) × Option Nat × Option Nat ×
    Option Nat × Option Nat) :=
    (do let m1 ← runProg ⟨[]⟩ Machine.init (o1Prog.take 1)
        let m3 ← runProg ⟨[]⟩ Machine.init (o1Prog.take 3)
        let m4 ← runProg ⟨[]⟩ Machine.init o1Prog
        let g ← m3.reg 0; let f ← m3.reg 1; let p ← m3.reg 2
        pure (m3.store[g]? == m1.store[g]?,
              slots m3.store p == [p, g],
              bgroupEdges m3.store p, bgroupEdges m4.store p,
              (snap m3.store f).map (·.cnf.nvars), (snap m4.store f).map (·.cnf.nvars),
              (liveNames m3.store f).bind (fun r => r.toOption.map List.length),
              (liveNames m4.store f).bind (fun r => r.toOption.map List.length)))

theorem o1_replay : o1Obs
      = some (true, true, some [(1, 1), (2, 2)], some [(1, 1), (1, 2), (2, 2)], some 2, some 2, some 2, some 3) := by
  rfl

/-! ### non-vacuity -/

def storeA : Store :=
  #[.graph ((SimpleG.ofEdges 3 [(1, 2), (2, 3), (1, 3)]).toOption.getD (SimpleG.init 0)), .ints [1, 0, 1],
    .nx false 3 [(1, 2), (2, 3)], .ints [1, -2], .ints [-1, 2], .refs [3, 4]]

example : (famCall ⟨[]⟩ storeA [0, 1] [(0, .simple)] (some "T") (tseitinProg true)).2.toOption = some 9 ∧
    (snap (famCall ⟨[]⟩ storeA [0, 1] [(0, .simple)] (some "T") (tseitinProg true)).1 9).map (·.cnf.clauses.length)
      = some 6 := by decide +kernel

/-- a networkx argument: converted into the fresh cell 6, the formula is cell 10 -/
example : (famCall ⟨[]⟩ storeA [2] [(0, .simple)] (some "T") (tseitinProg false)).2.toOption = some 10 ∧
    (normalize storeA .simple 2).2.toOption = some 6 := by decide +kernel

/-- an exceptional exit inside a normalisation (a list is not a graph): TypeError, store unchanged -/
example : (famCall ⟨[]⟩ storeA [1] [(0, .simple)] none (tseitinProg false)).1 = storeA ∧
    (famCall ⟨[]⟩ storeA [1] [(0, .simple)] none (tseitinProg false)).2.toOption = none := by
  decide +kernel

/-- planted assignments: a list of lists is read, the clauses not satisfied by all of them are rejected -/
example : (snap (famCall ⟨[]⟩ storeA [5] [] none (plantedProg 2 2 2 [[1, 2], [-1, -2], [1, -2], [-1, 2]] [])).1 9).map
    (·.cnf.clauses) = some [[1, 2], [-1, -2]] := by decide +kernel

example : (0 : Nat) ∉ footprint (famCall ⟨[]⟩ storeA [0] [(0, .simple)] none (tseitinProg false)).1 9 := by
  decide +kernel

/-- hypotheses of `formula_never_writes_graph`: a well-typed formula made from the graph at address 0, which is outside its footprint -/
example : WT (famCall ⟨[]⟩ storeA [0] [(0, .simple)] none (tseitinProg false)).1 9 :=
  wt_iff_snap.mpr (Option.isSome_iff_exists.mp (by decide +kernel))

/-- hypotheses of `group_follows_graph` / `liveNames_unchanged`: a group object referring to a graph object -/
example : ∃ (s : Store) (a g first : Nat) (B : BipG), s[a]? = some (.bgroup g first) ∧ s[g]? = some (.bipg B) :=
  ⟨#[.bipg (BipG.init 1 1), .bgroup 0 0], 1, 0, 0, _, rfl, rfl⟩

end Cnfgen.C19
