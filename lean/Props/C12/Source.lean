/-
C12 — constants of the writers' model are those of the current source.
-/
import CnfgenModel.IO.Latex
import CnfgenModel.Generated.Tables
namespace Cnfgen.C12
open Cnfgen

theorem clauses_per_page_matches_source : IO.clausesPerPage = Gen.clausesPerPage := by decide

end Cnfgen.C12
