/-
C12, LaTeX at CHARACTER level: the characters `_print_latex` writes (`latexBodyText`: the literal
table with its alignment blanks, `\overline`, `&` / `\land` / `\\` framing, `\left( … \right)`,
` \lor ` / ` + ` separators, coefficients glued to their literals, `\geq` / `=`, the page break every
`split_every` rows, `\square`, `\top`), cut into physical lines and split at white space, are exactly
the token rows the theorems of `Props/C12.lean` speak about; hence an independent reader applied to
the CHARACTERS recovers, row by row and in order, every clause (its literals with names and
polarities) resp. every constraint (coefficients, literals, relation, bound) — in snippet form
(`to_latex`) and in the body of the full document (`to_latex_document`, pages of 35 rows).
Model of the characters: `IO/Latex.lean` (compared byte for byte with the real writer by the harness).
Helper lemmas: `Lemmas/IOLatexText.lean`, `Lemmas/IOLatexTextBody.lean`.
-/
import Props.C12
import Lemmas.IOLatexTextBody
namespace Cnfgen.C12
open Cnfgen Cnfgen.IO

/-- what the character-level theorems need beyond `TableOK`: no white space inside a variable name (a
name with a blank is several words on the page), and — for pseudo-Boolean formulas — coefficients and
bounds of at most 4300 digits (CPython's limit for `str(int)`) -/
abbrev LatexPrintable (F : AnyF) (names : List Str) : Prop := IO.LatexPrintable F names

/-- the lexer inverts the printer: the characters of the body, cut at "\n" and split at white space
(a coefficient un-glued from its literal), are the rows of the token-level `align` blocks — every
formula of either class, every page size, both layouts, the empty formula included -/
theorem latex_text_lex (F : AnyF) (names : List Str) (split : Int) (compact : Bool) (hp : LatexPrintable F names)
    (t : Str) (h : latexBodyText F names split compact = .ok t) :
    ∃ blocks, latexBlocks F names split.toNat compact = .ok blocks ∧ lexLatex t = latexBodyRows blocks :=
  lex_latexBodyText F names split compact hp t h

theorem isAlignRow_frame (land last : Bool) (core : Row) : isAlignRow (frame land last core) = false := by
  unfold frame
  generalize (if land = true then [W "\\land"] else []) ++ core ++ (if last = true then [] else [W "\\\\"]) = x
  cases x with
  | nil => decide
  | cons _ _ => rfl

/-- dropping the `\begin{align}` / `\end{align}` / `\end{align}\pagebreak` lines leaves the rows of the blocks -/
theorem filter_bodyRows : ∀ (blocks : List (List Row)), (∀ b ∈ blocks, ∀ r ∈ b, isAlignRow r = false) →
    (latexBodyRows blocks).filter (fun r => !isAlignRow r) = blocks.flatten
  | [], _ => rfl
  | [b], h => by
    have hb : b.filter (fun r => !isAlignRow r) = b :=
      List.filter_eq_self.2 (fun r hr => by simp [h b (by simp) r hr])
    have c1 : isAlignRow [W "\\begin{align}"] = true := by decide
    have c2 : isAlignRow [W "\\end{align}"] = true := by decide
    simp [latexBodyRows, List.filter_cons, List.filter_append, hb, c1, c2]
  | b :: b' :: bs, h => by
    have ih := filter_bodyRows (b' :: bs) (fun x hx => h x (by simp [hx]))
    have hb : b.filter (fun r => !isAlignRow r) = b :=
      List.filter_eq_self.2 (fun r hr => by simp [h b (by simp) r hr])
    have c1 : isAlignRow [W "\\begin{align}"] = true := by decide
    have c2 : isAlignRow [W "\\end{align}\\pagebreak"] = true := by decide
    have e : latexBodyRows (b :: b' :: bs) =
        [W "\\begin{align}"] :: (b ++ [[W "\\end{align}\\pagebreak"]]) ++ latexBodyRows (b' :: bs) := rfl
    rw [e]
    simp only [List.filter_cons, List.filter_append, hb, c1, c2, Bool.not_true, Bool.false_eq_true, if_false,
      List.filter_nil, List.append_nil, List.cons_append, List.append_assoc, List.nil_append, ih, List.flatten_cons]

theorem blocks_not_align (compact : Bool) (split : Nat) (cores : List Row) :
    ∀ b ∈ (pageBlocks split 0 cores).map (blockRows compact true), ∀ r ∈ b, isAlignRow r = false := by
  intro b hb r hr
  have hfr := blocks_framed compact split cores
  have hmem : r ∈ ((pageBlocks split 0 cores).map (blockRows compact true)).flatten :=
    List.mem_flatten.2 ⟨b, hb, hr⟩
  clear hb hr
  unfold Framed at hfr
  generalize ((pageBlocks split 0 cores).map (blockRows compact true)).flatten = rows at hfr hmem
  induction hfr with
  | nil => simp at hmem
  | cons hx _ ih =>
    rcases List.mem_cons.1 hmem with e | e
    · obtain ⟨land, last, hrow⟩ := hx
      rw [e, hrow]; exact isAlignRow_frame land last _
    · exact ih e

/-- T-C12.2 at CHARACTER level (CNF): the independent reader, applied to the characters `_print_latex`
wrote, returns the clause list — one row per clause, in order, each with exactly its literals (names and
polarities), across page breaks; the empty clause is read from `\square`, the empty formula from `\top` -/
theorem latex_text_rows_cnf (F : CNF) (names : List Str) (hT : TableOK names) (hcl : CleanNames names)
    (split : Int) (compact : Bool) (t : Str) (h : latexBodyText (.cnf F) names split compact = .ok t) :
    readLatexClausesText names t = .ok F.clauses := by
  obtain ⟨blocks, hb, hl⟩ := latex_text_lex (.cnf F) names split compact ⟨hcl, trivial⟩ t h
  unfold readLatexClausesText readLatexRows
  rw [hl]
  by_cases h0 : F.clauses = []
  · have : blocks = [[[W "\\top"]]] := by
      simp [latexBlocks, AnyF.len, h0] at hb; exact hb.symm
    subst this
    have hf : (latexBodyRows [[[W "\\top"]]]).filter (fun r => !isAlignRow r) = [[W "\\top"]] := by decide
    rw [hf, if_pos rfl, h0]
  · have hrows := latex_rows_cnf F names hT split.toNat compact blocks h0 hb
    have hblocks : ∀ b ∈ blocks, ∀ r ∈ b, isAlignRow r = false := by
      unfold latexBlocks at hb
      have h0' : ¬ (AnyF.cnf F).len = 0 := by simpa [AnyF.len] using h0
      simp only [h0', if_false] at hb
      cases hc : latexCores (.cnf F) names compact with
      | error e => simp [hc] at hb
      | ok cores => simp [hc] at hb; subst hb; exact blocks_not_align _ _ _
    rw [filter_bodyRows blocks hblocks]
    simp only
    split
    · rename_i he
      rw [he] at hrows
      simp [List.mapM_cons, readClauseRow, dropFrame, W] at hrows
      cases hrows
    · exact hrows

/-- T-C12.2 at CHARACTER level (pseudo-Boolean formulas): coefficients (a `1` is omitted, any other
integer is printed, glued to its literal), literals, relation and bound of every constraint, in order -/
theorem latex_text_rows_opb (G : OPB) (names : List Str) (hT : TableOK names) (hcl : CleanNames names)
    (hop : ∀ c ∈ G.constraints, c.op = .ge ∨ c.op = .eq) (hsm : ∀ c ∈ G.constraints, SmallPBC c)
    (split : Int) (compact : Bool) (t : Str) (h : latexBodyText (.opb G) names split compact = .ok t) :
    readLatexConstraintsText names t = .ok G.constraints := by
  obtain ⟨blocks, hb, hl⟩ := latex_text_lex (.opb G) names split compact ⟨hcl, hsm⟩ t h
  unfold readLatexConstraintsText readLatexRows
  rw [hl]
  by_cases h0 : G.constraints = []
  · have : blocks = [[[W "\\top"]]] := by
      simp [latexBlocks, AnyF.len, h0] at hb; exact hb.symm
    subst this
    have hf : (latexBodyRows [[[W "\\top"]]]).filter (fun r => !isAlignRow r) = [[W "\\top"]] := by decide
    rw [hf, if_pos rfl, h0]
  · have hrows := latex_rows_opb G names hT split.toNat compact blocks h0 hop hb
    have hblocks : ∀ b ∈ blocks, ∀ r ∈ b, isAlignRow r = false := by
      unfold latexBlocks at hb
      have h0' : ¬ (AnyF.opb G).len = 0 := by simpa [AnyF.len] using h0
      simp only [h0', if_false] at hb
      cases hc : latexCores (.opb G) names compact with
      | error e => simp [hc] at hb
      | ok cores => simp [hc] at hb; subst hb; exact blocks_not_align _ _ _
    rw [filter_bodyRows blocks hblocks]
    simp only
    split
    · rename_i he
      rw [he] at hrows
      simp [List.mapM_cons, readConstraintRow, dropFrame, W] at hrows
      cases hrows
    · exact hrows

/-- `to_latex()` (snippet form: no page split, compact layout) -/
theorem latex_string_rows_cnf (F : CNF) (names : List Str) (hT : TableOK names) (hcl : CleanNames names) (t : Str)
    (h : latexString (.cnf F) names = .ok t) : readLatexClausesText names t = .ok F.clauses :=
  latex_text_rows_cnf F names hT hcl (-1) true t h

theorem latex_string_rows_opb (G : OPB) (names : List Str) (hT : TableOK names) (hcl : CleanNames names)
    (hop : ∀ c ∈ G.constraints, c.op = .ge ∨ c.op = .eq) (hsm : ∀ c ∈ G.constraints, SmallPBC c) (t : Str)
    (h : latexString (.opb G) names = .ok t) : readLatexConstraintsText names t = .ok G.constraints :=
  latex_text_rows_opb G names hT hcl hop hsm (-1) true t h

/-- `to_latex_document()`: the document is a prologue (preamble, title, header listing, extra text,
the line announcing the counts), then verbatim the body `_print_latex` writes with pages of
`clauses_per_page` rows in the non-compact layout, then `\end{document}` — so the two theorems
above apply to the body of the full document, page splits included -/
theorem latex_document_body (F : AnyF) (names : List Str) (hdr : Header) (exportHeader : Bool) (extra t : Str)
    (h : latexDocumentText F names hdr exportHeader extra = .ok t) :
    ∃ prologue body, t = prologue ++ body ++ "\n\\end{document}".toList ∧
      latexBodyText F names clausesPerPage false = .ok body := by
  unfold latexDocumentText at h
  split at h
  · cases h
  · split at h
    · cases h
    · rename_i body hbody
      have h := (Except.ok.inj h).symm
      exact ⟨_, body, h, hbody⟩

/-- the empty formula and the empty clause stay distinct on the page: the body of the empty formula is
exactly `\begin{align}` / `\top` / `\end{align}`, and no body of a non-empty formula lexes to these rows -/
theorem latex_text_top (F : AnyF) (names : List Str) (split : Int) (compact : Bool) (hp : LatexPrintable F names)
    (t : Str) (h : latexBodyText F names split compact = .ok t) :
    lexLatex t = [[W "\\begin{align}"], [W "\\top"], [W "\\end{align}"]] ↔ F.len = 0 := by
  obtain ⟨blocks, hb, hl⟩ := latex_text_lex F names split compact hp t h
  rw [hl, ← latex_top F names split.toNat compact blocks hb]
  constructor
  · intro hrows
    cases blocks with
    | nil => simp [latexBodyRows] at hrows
    | cons b bs =>
      cases bs with
      | nil =>
        simp only [latexBodyRows, List.cons.injEq, true_and] at hrows
        have : b ++ [[W "\\end{align}"]] = [[W "\\top"]] ++ [[W "\\end{align}"]] := hrows
        rw [List.append_cancel_right this]
      | cons b' bs' =>
        have hlen := congrArg List.length hrows
        simp [latexBodyRows] at hlen
        cases bs' <;> simp [latexBodyRows] at hlen <;> omega
  · intro e; subst e; rfl

/-! ### non-vacuity -/

/-- names of the shapes cnfgen produces are clean, and a formula with them is printable -/
example : CleanNames ["x_{1,2}".toList, "{x_{1,2}}^1".toList, "e[1]_{1,3}".toList, "y".toList, "_u".toList] := by
  intro nm h
  simp only [List.mem_cons, List.not_mem_nil, or_false] at h
  rcases h with rfl | rfl | rfl | rfl | rfl <;> exact noWS_lit _ (by decide)

example : SmallPBC ⟨[(2, 1), (0, -3), (-7, 2)], .ge, -2⟩ :=
  ⟨lt_limit_of_le (by decide), fun t ht => by
    simp only [List.mem_cons, List.not_mem_nil, or_false] at ht
    rcases ht with rfl | rfl | rfl <;> exact lt_limit_of_le (by decide)⟩

set_option maxRecDepth 8000 in
/-- the characters of `to_latex()` for a three-clause formula with an empty clause, kernel-evaluated,
and what the character-level reader makes of them -/
example : (latexString (.cnf ⟨3, [[-1, 2], [], [3]]⟩) ["x_1".toList, "y".toList, "z^2".toList]).toOption =
    some ("\\begin{align}\n&       \\left( {\\overline{x}_1} \\lor            {y} \\right) \\\\\n" ++
          "& \\land \\square \\\\\n& \\land \\left(            {z^2} \\right)\n\\end{align}").toList := by decide

set_option maxRecDepth 8000 in
example : (readLatexClausesText ["x_1".toList, "y".toList, "z^2".toList]
    ("\\begin{align}\n&       \\left( {\\overline{x}_1} \\lor            {y} \\right) \\\\\n" ++
     "& \\land \\square \\\\\n& \\land \\left(            {z^2} \\right)\n\\end{align}").toList).toOption =
    some [[-1, 2], [], [3]] := by decide

/-- a page break after two rows, glued coefficients, an empty sum, an equality -/
example : ((latexBodyText (.opb ⟨2, [⟨[(2, 1), (1, -2)], .ge, 2⟩, ⟨[], .eq, 0⟩, ⟨[(-3, 2)], .ge, -1⟩]⟩)
      ["a".toList, "b_1".toList] 2 false).toOption.bind
    (fun t => (readLatexConstraintsText ["a".toList, "b_1".toList] t).toOption)) =
    some [⟨[(2, 1), (1, -2)], .ge, 2⟩, ⟨[], .eq, 0⟩, ⟨[(-3, 2)], .ge, -1⟩] := by decide

/-- a full document exists with or without a description in the header (regression of D46: a missing `description`
used to be a KeyError; it is an empty title since the fix 41a4c01 in /repo) -/
example : (latexDocumentText (.cnf ⟨1, [[1]]⟩) ["x".toList] [("description".toList, "a_b".toList)] false []).toOption.isSome = true ∧
    (latexDocumentText (.cnf ⟨1, [[1]]⟩) ["x".toList] [] false []).toOption.isSome = true := by decide

/-- the hypothesis on names is a real restriction: a name with a blank is several words, and the reader
cannot find the literal -/
example : (readLatexClausesText ["a b".toList] "\\begin{align}\n&       \\left(            {a b} \\right)\n\\end{align}".toList).toOption
    = none := by decide

end Cnfgen.C12
