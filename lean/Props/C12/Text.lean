/-
C12 at CHARACTER level (OPB writer → strict reader): the text `to_opb_file` writes, character by
character (`* #variable= n #constraint= m`, comment lines, `{:+} x{}` / `{:+} ~x{}` terms,
`>=` / `=`, degree), is lexed (`readlines()`, `split()`, `int()`, `x<digits>` tokens) into exactly
the token rows the theorems of `Props/C12.lean` speak about, and hence read back as the
formula.  Helper lemmas: `Lemmas/IOText*.lean`.  LaTeX stays at token level.
-/
import Props.C12
import Lemmas.IOTextOpb
namespace Cnfgen.C12
open Cnfgen Cnfgen.IO

/-- every number the writer prints besides the literals — the two counts, the coefficients, the
degrees — has at most `maxStrDigits` (= 4300) decimal digits: beyond that CPython refuses both
`str(n)` / `'{:+}'.format(n)` and `int(s)`.  (Literals are bounded by `nvars` in a well-formed formula.) -/
def PrintableOpb (G : OPB) : Prop :=
  G.nvars < 10 ^ maxStrDigits ∧ G.constraints.length < 10 ^ maxStrDigits ∧
  ∀ c ∈ G.constraints, c.rhs.natAbs < 10 ^ maxStrDigits ∧ ∀ t ∈ c.terms, t.1.natAbs < 10 ^ maxStrDigits

/-- for a CNF only the two counts matter -/
def PrintableCNF (F : CNF) : Prop := F.nvars < 10 ^ maxStrDigits ∧ F.clauses.length < 10 ^ maxStrDigits

/-- the lexer inverts the printer: lexing the written characters gives the token rows of the
token-level writer — every header dictionary, every label list, both media -/
theorem opb_text_lex (u : Bool) (G : OPB) (hdr : Option Header) (names : Option (List Str))
    (hG : WFOpb G) (hp : PrintableOpb G) :
    lex u (renderOpbText G hdr names) = renderOpb u G hdr names :=
  lex_renderOpbText u G hdr names (opbPrintable_of_wf G hG hp.1 hp.2.1 hp.2.2)

theorem opb_text_lex_cnf (u : Bool) (F : CNF) (hdr : Option Header) (names : Option (List Str))
    (hF : F.WF) (hp : PrintableCNF F) :
    lex u (renderOpbTextCNF F hdr names) = renderOpbCNF u F hdr names :=
  lex_renderOpbTextCNF u F hdr names (dimacsPrintable_of_wf F hF hp.1 hp.2)

/-- T-C12.1 at character level (OPB formulas): the strict reader, applied to the characters the
writer wrote, returns the declared number of variables and, constraint by constraint, the same
coefficients, literals, relation and degree — equalities, empty constraints, any integer
coefficients (up to CPython's own digit limit), with or without header and variable names,
whatever characters the header fields, values and labels contain. -/
theorem opb_text_roundtrip (u : Bool) (G : OPB) (hdr : Option Header) (names : Option (List Str))
    (hG : WFOpb G) (hp : PrintableOpb G) :
    readOpbText u (renderOpbText G hdr names) = .ok (G.nvars, G.constraints) := by
  unfold readOpbText
  rw [opb_text_lex u G hdr names hG hp]
  exact opb_roundtrip u G hdr names hG

/-- T-C12.1 at character level (CNF formulas): every clause is read back as `Σ lits ≥ 1` -/
theorem opb_text_roundtrip_cnf (u : Bool) (F : CNF) (hdr : Option Header) (names : Option (List Str))
    (hF : F.WF) (hp : PrintableCNF F) :
    readOpbText u (renderOpbTextCNF F hdr names) = .ok (F.nvars, F.clauses.map PBC.ofClause) := by
  unfold readOpbText
  rw [opb_text_lex_cnf u F hdr names hF hp]
  exact opb_roundtrip_cnf u F hdr names hF

/-- the CNF branch of the writer writes, character for character, what the OPB branch writes for
the constraints `Σ lits ≥ 1` -/
theorem opb_text_cnf_as_opb (F : CNF) (hdr : Option Header) (names : Option (List Str)) :
    renderOpbTextCNF F hdr names = renderOpbText ⟨F.nvars, F.clauses.map PBC.ofClause⟩ hdr names :=
  renderOpbTextCNF_eq F hdr names

/-- the bound is necessary: a declared number of variables of more than `maxStrDigits` digits is
not read as a number (real CPython raises ValueError inside the writer, in `format`) -/
theorem opb_text_limit (u : Bool) (G : OPB) (hdr : Option Header) (names : Option (List Str))
    (hn : 10 ^ maxStrDigits ≤ G.nvars) :
    readOpbText u (renderOpbText G hdr names) = .error .valueError := by
  obtain ⟨w, b, hrow⟩ := lexLine_opbSpec_big G.nvars G.constraints.length hn
  unfold readOpbText
  rw [lex_renderOpbText_lines, hrow]
  simp [readOpb]

/-- the round trip without the digit bound, as a statement … -/
def OpbTextRoundtripUnbounded : Prop :=
  ∀ (u : Bool) (G : OPB) (hdr : Option Header) (names : Option (List Str)),
    WFOpb G → readOpbText u (renderOpbText G hdr names) = .ok (G.nvars, G.constraints)

/-- … is false of the model (and of CPython): no constraints over `10^4300` variables -/
theorem opb_text_roundtrip_unbounded_false : ¬ OpbTextRoundtripUnbounded := by
  intro h
  have hwf : WFOpb ⟨10 ^ maxStrDigits, []⟩ := by intro c hc; simp at hc
  have h1 := h false ⟨10 ^ maxStrDigits, []⟩ none none hwf
  rw [opb_text_limit false ⟨10 ^ maxStrDigits, []⟩ none none (Nat.le_refl _)] at h1
  cases h1

/-! ### non-vacuity -/

/-- a printable well-formed pseudo-Boolean formula: coefficient > 1, coefficient 0, negative
coefficient, negative literal in an equality, an empty constraint with negative degree -/
example : WFOpb ⟨3, [⟨[(2, 1), (0, -3), (-1, 2)], .ge, 2⟩, ⟨[(5, -1)], .eq, 5⟩, ⟨[], .ge, -1⟩]⟩ ∧
    PrintableOpb ⟨3, [⟨[(2, 1), (0, -3), (-1, 2)], .ge, 2⟩, ⟨[(5, -1)], .eq, 5⟩, ⟨[], .ge, -1⟩]⟩ := by
  refine ⟨by unfold WFOpb GoodPBC; decide, lt_limit_of_le (by decide), lt_limit_of_le (by decide), ?_⟩
  intro c hc
  simp only [List.mem_cons, List.not_mem_nil, or_false] at hc
  rcases hc with rfl | rfl | rfl
  · refine ⟨lt_limit_of_le (by decide), ?_⟩
    intro t ht
    simp only [List.mem_cons, List.not_mem_nil, or_false] at ht
    rcases ht with rfl | rfl | rfl <;> exact lt_limit_of_le (by decide)
  · refine ⟨lt_limit_of_le (by decide), ?_⟩
    intro t ht
    simp only [List.mem_cons, List.not_mem_nil, or_false] at ht
    subst ht; exact lt_limit_of_le (by decide)
  · exact ⟨lt_limit_of_le (by decide), by intro t ht; simp at ht⟩

/-- the characters written for it (multi-line header value whose second line looks like a
constraint, label with a line break), and what the strict reader makes of them -/
example : renderOpbText ⟨3, [⟨[(2, 1), (0, -3), (-1, 2)], .ge, 2⟩, ⟨[(5, -1)], .eq, 5⟩, ⟨[], .ge, -1⟩]⟩
      (some [("d".toList, "g\n+1 x1 >= 1".toList)]) (some ["x\ny".toList]) =
    "* #variable= 3 #constraint= 3\n* d: g\n* +1 x1 >= 1\n*\n* varname x1 x y\n*\n+2 x1 +0 ~x3 -1 x2 >= 2\n+5 ~x1 = 5\n>= -1\n".toList := by
  decide

set_option maxRecDepth 4096 in
example : readOpbText true
    "* #variable= 3 #constraint= 3\n* d: g\n* +1 x1 >= 1\n*\n* varname x1 x y\n*\n+2 x1 +0 ~x3 -1 x2 >= 2\n+5 ~x1 = 5\n>= -1\n".toList =
    .ok (3, [⟨[(2, 1), (0, -3), (-1, 2)], .ge, 2⟩, ⟨[(5, -1)], .eq, 5⟩, ⟨[], .ge, -1⟩]) := by decide

end Cnfgen.C12
