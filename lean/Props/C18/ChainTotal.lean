/-
C18 (`-T` chains, totality) — the transformation parser answers on every chunk of the fragment and the call it hands
over is one `evalTrans` maps; a whole line `<numeric formula> -T … -T …` ends in `ok` or `cliError`, with NO hypothesis on
the base formula (its well-formedness comes from `mapped_formula_wf`) and no "whenever the model answers".
-/
import Props.C18.Chain
import Props.C18.Text
import Props.C18.EndToEnd
import Props.C17.Dispatch
namespace Cnfgen.C18
open Cnfgen Cnfgen.Cli Cnfgen.Gen Cnfgen.Subst

/-- the substitutions `evalTrans` maps, by number of integer arguments -/
def transFns : Nat → List String
  | 0 => ["IfThenElseSubstitution", "FlipPolarity"]
  | 1 => ["XorSubstitution", "OrSubstitution", "MajoritySubstitution", "AllEqualSubstitution",
          "NotAllEqualSubstitution", "ExactlyOneSubstitution", "FormulaLifting"]
  | 2 => ["ExactlyKSubstitution", "AtLeastKSubstitution", "AtMostKSubstitution", "AnythingButKSubstitution"]
  | _ => []

def isIntArg (s : CliSpec) : Expr → Bool
  | .arg d => dtot_intBound s d
  | _ => false

/-- a transformation sub-command with standard options whose single path is `Gen(F, <typed positionals>)`, `Gen` one of
the thirteen substitutions of Trans/Subst.lean -/
def transCovered (s : CliSpec) : Bool :=
  s.kind == "transformation" && s.standard && s.name != "none" &&
  s.templates.all (fun t => t.raises == "" && t.kw.isEmpty &&
    (match t.pos with
     | .name "F" :: rest => rest.all (isIntArg s) && (transFns rest.length).contains t.fn
     | _ => false))

theorem trans_covered_commands :
    (cliSpecs.filter transCovered).map (·.name) =
      ["anybut", "atleast", "atmost", "eq", "exact", "flip", "ite", "lift", "maj", "neq", "one", "or", "xor"] := by
  decide +kernel

/-- the transformation sub-commands outside: `majcomp` `xorcomp` (composed parsers, a bipartite graph or a random one),
`shuffle` (random), `none` (handled by `parseTrans` itself), and the abstract base class -/
theorem trans_excluded_commands :
    (cliSpecs.filter (fun s => s.kind == "transformation" && !transCovered s)).map (·.name) =
      ["", "majcomp", "none", "shuffle", "xorcomp"] := by decide +kernel

theorem evalPos_ints (s : CliSpec) (hstd : s.standard = true) (argv : List String) (b : Ns)
    (h : parseArgs s argv = .ok b) : ∀ (es : List Expr), es.all (isIntArg s) = true →
      ∃ is : List Int, evalPos (namespaceOf s b) es = some (is.map Val.int) ∧ is.length = es.length := by
  intro es
  induction es with
  | nil => intro _; exact ⟨[], rfl, rfl⟩
  | cons e rest ih =>
    intro hall
    simp only [List.all_cons, Bool.and_eq_true] at hall
    obtain ⟨is, his, hlen⟩ := ih hall.2
    cases e with
    | arg d =>
      simp only [isIntArg] at hall
      obtain ⟨i, hi⟩ := dtot_intBound_val s hstd argv b h d hall.1
      refine ⟨i :: is, ?_, by simp [hlen]⟩
      simp [evalPos, evalE, hi, his]
    | _ => simp [isIntArg] at hall

/-- a call `Gen(F, i₁ … iₙ)` with `Gen` among the substitutions for `n` integers is mapped, whatever the formula -/
theorem evalTrans_mapped (env : GraphEnv) (F : CNF) (fn : String) (is : List Int)
    (hfn : (transFns is.length).contains fn = true) :
    (evalTrans env F ⟨fn, .param "F" :: is.map Val.int, []⟩).isSome = true := by
  match is, hfn with
  | [], hfn =>
    simp only [transFns, List.length_nil, List.contains_eq_mem, List.mem_cons, List.not_mem_nil, or_false,
      decide_eq_true_eq] at hfn
    rcases hfn with rfl | rfl <;> simp [evalTrans]
  | [a], hfn =>
    simp only [transFns, List.length_cons, List.length_nil, List.contains_eq_mem, List.mem_cons, List.not_mem_nil,
      or_false, decide_eq_true_eq] at hfn
    rcases hfn with rfl | rfl | rfl | rfl | rfl | rfl | rfl <;> simp [evalTrans]
  | [a, b], hfn =>
    simp only [transFns, List.length_cons, List.length_nil, List.contains_eq_mem, List.mem_cons, List.not_mem_nil,
      or_false, decide_eq_true_eq] at hfn
    rcases hfn with rfl | rfl | rfl | rfl <;> simp [evalTrans]
  | _ :: _ :: _ :: _, hfn => simp [transFns] at hfn

/-- the chunk is parsed into a call that `evalTrans` maps on every formula -/
def _root_.Cnfgen.Cli.TCall.mapped : TCall → Prop
  | .identity => True
  | .call c => ∀ (env : GraphEnv) (F : CNF), (evalTrans env F c).isSome = true

/-- T-C18.T4 TOTALITY OF THE TRANSFORMATION PARSER.  For the thirteen substitution sub-commands and EVERY list of tokens
of the fragment after the name: the parser refuses the chunk (CLIError) or hands over a call `evalTrans` maps — never
"outside the model". -/
theorem parseTrans_total (name : String) (args : List String) (h : HelperSpec) (s : CliSpec)
    (hfind : helpers.find? (fun h => h.kind == "transformation" && h.name == name) = some h)
    (hspec : specOf h = some s) (hc : transCovered s = true) (hf : inFragment s args = true) :
    parseTrans (name :: args) = some (.error ()) ∨
    ∃ t, parseTrans (name :: args) = some (.ok t) ∧ t.mapped := by
  have hs := specOf_mem h s hspec
  unfold transCovered at hc
  simp only [Bool.and_eq_true, beq_iff_eq, bne_iff_ne, ne_eq] at hc
  obtain ⟨⟨⟨_, hstd⟩, hnone⟩, hall⟩ := hc
  have hname : name = s.name := by
    have h1 := List.find?_some hfind
    simp only [Bool.and_eq_true, beq_iff_eq] at h1
    unfold specOf at hspec
    have h2 := List.find?_some hspec
    simp only [Bool.and_eq_true, beq_iff_eq] at h2
    rw [← h1.2, h2.1.2]
  have hnn : (name == "none") = false := by rw [hname]; simpa using hnone
  unfold parseTrans
  simp only [hfind, hnn, Bool.false_eq_true, if_false]
  rcases C17.dispatch_total h s hspec hs hstd args hf with ⟨c, hc⟩ | he
  · rw [hc]
    right
    refine ⟨.call c, rfl, ?_⟩
    -- the shape of the call
    unfold dispatch at hc
    rw [hspec] at hc
    dsimp only at hc
    unfold dispatchSpec at hc
    cases hd : dispatchTemplate s args with
    | error e => rw [hd] at hc; cases hc
    | ok tn =>
      obtain ⟨t, ns⟩ := tn
      rw [hd] at hc
      dsimp only at hc
      have htm := dispatchTemplate_mem s args t ns hd
      have hsh := (List.all_eq_true.1 hall) t htm
      simp only [Bool.and_eq_true, beq_iff_eq] at hsh
      obtain ⟨⟨hr, hkw⟩, hpos⟩ := hsh
      -- the bindings
      have hpa : ∃ b, parseArgs s args = .ok b ∧ ns = namespaceOf s b := by
        unfold dispatchTemplate at hd
        split at hd
        · cases hd
        · cases hb : parseArgs s args with
          | error e => rw [hb] at hd; cases hd
          | ok b =>
            rw [hb] at hd
            dsimp only at hd
            split at hd
            · cases hd
            · cases hd; exact ⟨b, rfl, rfl⟩
      obtain ⟨b, hb, rfl⟩ := hpa
      obtain ⟨guard, raises, fn, pos, kw, eff⟩ := t
      dsimp only at hr hkw hpos
      subst hr
      have hkw' : kw = [] := by simpa using hkw
      subst hkw'
      split at hpos
      · rename_i rest
        simp only [Bool.and_eq_true] at hpos
        obtain ⟨is, his, hlen⟩ := evalPos_ints s hstd args b hb rest hpos.1
        have hfne : (fn == "") = false := by
          cases hfe : (fn == "") with
          | false => rfl
          | true =>
            have : fn = "" := by simpa using hfe
            subst this
            have h2 := hpos.2
            generalize rest.length = n at h2
            match n with
            | 0 => simp [transFns] at h2
            | 1 => simp [transFns] at h2
            | 2 => simp [transFns] at h2
            | _ + 3 => simp [transFns] at h2
        have hc' : c = ⟨fn, .param "F" :: is.map Val.int, []⟩ := by
          simp [instantiate, hfne, evalPos, evalE, his, evalKw] at hc
          exact hc.symm
        subst hc'
        intro env F
        exact evalTrans_mapped env F fn is (by rw [hlen]; exact hpos.2)
      · cases hpos
  · rw [he]; exact Or.inl rfl

/-- a chunk the totality theorem speaks about: empty (`-T` without a transformation), `none`, or one of the thirteen
substitutions followed by tokens of the fragment -/
def ChunkCovered (ch : List String) : Prop :=
  ch = [] ∨ ch = ["none"] ∨
  ∃ name args h s, ch = name :: args ∧
    helpers.find? (fun h => h.kind == "transformation" && h.name == name) = some h ∧
    specOf h = some s ∧ transCovered s = true ∧ inFragment s args = true

theorem parseTrans_covered (ch : List String) (hc : ChunkCovered ch) :
    parseTrans ch = some (.error ()) ∨ ∃ t, parseTrans ch = some (.ok t) ∧ t.mapped := by
  rcases hc with rfl | rfl | ⟨name, args, h, s, rfl, hfind, hspec, hcov, hf⟩
  · exact Or.inl rfl
  · right
    refine ⟨.identity, ?_, trivial⟩
    have hsome : (helpers.find? (fun h => h.kind == "transformation" && h.name == "none")).isSome = true := by
      decide +kernel
    obtain ⟨h0, hh0⟩ := Option.isSome_iff_exists.1 hsome
    simp [parseTrans, hh0]
  · exact parseTrans_total name args h s hfind hspec hcov hf

/-- T-C18.T5 TOTALITY OF THE CHAIN PARSER: a CLIError, or a list of calls every one of which `evalTrans` maps -/
theorem parseChain_total : ∀ (chunks : List (List String)), (∀ ch ∈ chunks, ChunkCovered ch) →
    parseChain chunks = some (.error ()) ∨
    ∃ ts, parseChain chunks = some (.ok ts) ∧ ∀ t ∈ ts, t.mapped := by
  intro chunks
  induction chunks with
  | nil => intro _; exact Or.inr ⟨[], rfl, fun t ht => by simp at ht⟩
  | cons ch rest ih =>
    intro hall
    have h1 := parseTrans_covered ch (hall ch (List.mem_cons_self ..))
    have h2 := ih (fun c hc => hall c (List.mem_cons_of_mem _ hc))
    unfold parseChain
    rcases h1 with h1 | ⟨t, h1, ht⟩ <;> rcases h2 with h2 | ⟨ts, h2, hts⟩ <;> rw [h1, h2]
    · exact Or.inl rfl
    · exact Or.inl rfl
    · exact Or.inl rfl
    · refine Or.inr ⟨t :: ts, rfl, fun x hx => ?_⟩
      rcases List.mem_cons.1 hx with rfl | hx
      · exact ht
      · exact hts x hx

/-- … and such a chain runs to the end on every formula -/
theorem runChain_total (env : GraphEnv) : ∀ (ts : List TCall) (F : CNF), (∀ t ∈ ts, t.mapped) →
    ∃ r, runChain env F ts = some r := by
  intro ts
  induction ts with
  | nil => intro F _; exact ⟨_, rfl⟩
  | cons t rest ih =>
    intro F hall
    have hrest : ∀ x ∈ rest, x.mapped := fun x hx => hall x (List.mem_cons_of_mem _ hx)
    cases t with
    | identity => exact ih F hrest
    | call c =>
      have hm := hall (.call c) (List.mem_cons_self ..)
      obtain ⟨r1, hr1⟩ := Option.isSome_iff_exists.1 (hm env F)
      simp only [runChain, hr1]
      cases r1 with
      | error e => exact ⟨_, rfl⟩
      | ok G => exact ih G hrest

end Cnfgen.C18
