/-
C18 (`-T` chains, totality) — the transformation parser answers on every chunk of the fragment and the call it hands
over is one `evalTrans` maps; a whole line `<numeric formula> -T … -T …` ends in `ok` or `cliError`, with NO hypothesis on
the base formula (its well-formedness comes from `mapped_formula_wf`) and no "whenever the model answers".
-/
import Props.C18.Chain
import Props.C18.Text
import Props.C18.EndToEnd
import Props.C17.Dispatch
namespace Cnfgen.C18
open Cnfgen Cnfgen.Cli Cnfgen.Gen Cnfgen.Subst

/-- the substitutions `evalTrans` maps, by number of integer arguments -/
def transFns : Nat → List String
  | 0 => ["IfThenElseSubstitution", "FlipPolarity"]
  | 1 => ["XorSubstitution", "OrSubstitution", "MajoritySubstitution", "AllEqualSubstitution",
          "NotAllEqualSubstitution", "ExactlyOneSubstitution", "FormulaLifting"]
  | 2 => ["ExactlyKSubstitution", "AtLeastKSubstitution", "AtMostKSubstitution", "AnythingButKSubstitution"]
  | _ => []

def isIntArg (s : CliSpec) : Expr → Bool
  | .arg d => dtot_intBound s d
  | _ => false

/-- a transformation sub-command with standard options whose single path is `Gen(F, <typed positionals>)`, `Gen` one of
the thirteen substitutions of Trans/Subst.lean -/
def transCovered (s : CliSpec) : Bool :=
  s.kind == "transformation" && s.standard && s.name != "none" &&
  s.templates.all (fun t => t.raises == "" && t.kw.isEmpty &&
    (match t.pos with
     | .name "F" :: rest => rest.all (isIntArg s) && (transFns rest.length).contains t.fn
     | _ => false))

theorem trans_covered_commands :
    (cliSpecs.filter transCovered).map (·.name) =
      ["anybut", "atleast", "atmost", "eq", "exact", "flip", "ite", "lift", "maj", "neq", "one", "or", "xor"] := by
  decide +kernel

/-- the transformation sub-commands outside: `majcomp` `xorcomp` (composed parsers, a bipartite graph or a random one),
`shuffle` (random), `none` (handled by `parseTrans` itself), and the abstract base class -/
theorem trans_excluded_commands :
    (cliSpecs.filter (fun s => s.kind == "transformation" && !transCovered s)).map (·.name) =
      ["", "majcomp", "none", "shuffle", "xorcomp"] := by decide +kernel

theorem evalPos_ints (s : CliSpec) (hstd : s.standard = true) (argv : List String) (b : Ns)
    (h : parseArgs s argv = .ok b) : ∀ (es : List Expr), es.all (isIntArg s) = true →
      ∃ is : List Int, evalPos (namespaceOf s b) es = some (is.map Val.int) ∧ is.length = es.length := by
  intro es
  induction es with
  | nil => intro _; exact ⟨[], rfl, rfl⟩
  | cons e rest ih =>
    intro hall
    simp only [List.all_cons, Bool.and_eq_true] at hall
    obtain ⟨is, his, hlen⟩ := ih hall.2
    cases e with
    | arg d =>
      simp only [isIntArg] at hall
      obtain ⟨i, hi⟩ := dtot_intBound_val s hstd argv b h d hall.1
      refine ⟨i :: is, ?_, by simp [hlen]⟩
      simp [evalPos, evalE, hi, his]
    | _ => simp [isIntArg] at hall

/-- a call `Gen(F, i₁ … iₙ)` with `Gen` among the substitutions for `n` integers is mapped, whatever the formula -/
theorem evalTrans_mapped (env : GraphEnv) (F : CNF) (fn : String) (is : List Int)
    (hfn : (transFns is.length).contains fn = true) :
    (evalTrans env F ⟨fn, .param "F" :: is.map Val.int, []⟩).isSome = true := by
  match is, hfn with
  | [], hfn =>
    simp only [transFns, List.length_nil, List.contains_eq_mem, List.mem_cons, List.not_mem_nil, or_false,
      decide_eq_true_eq] at hfn
    rcases hfn with rfl | rfl <;> simp [evalTrans]
  | [a], hfn =>
    simp only [transFns, List.length_cons, List.length_nil, List.contains_eq_mem, List.mem_cons, List.not_mem_nil,
      or_false, decide_eq_true_eq] at hfn
    rcases hfn with rfl | rfl | rfl | rfl | rfl | rfl | rfl <;> simp [evalTrans]
  | [a, b], hfn =>
    simp only [transFns, List.length_cons, List.length_nil, List.contains_eq_mem, List.mem_cons, List.not_mem_nil,
      or_false, decide_eq_true_eq] at hfn
    rcases hfn with rfl | rfl | rfl | rfl <;> simp [evalTrans]
  | _ :: _ :: _ :: _, hfn => simp [transFns] at hfn

/-- the chunk is parsed into a call that `evalTrans` maps on every formula -/
def _root_.Cnfgen.Cli.TCall.mapped : TCall → Prop
  | .identity => True
  | .call c => ∀ (env : GraphEnv) (F : CNF), (evalTrans env F c).isSome = true

/-- T-C18.T4 TOTALITY OF THE TRANSFORMATION PARSER.  For the thirteen substitution sub-commands and EVERY list of tokens
of the fragment after the name: the parser refuses the chunk (CLIError) or hands over a call `evalTrans` maps — never
"outside the model". -/
theorem parseTrans_total (name : String) (args : List String) (h : HelperSpec) (s : CliSpec)
    (hfind : helpers.find? (fun h => h.kind == "transformation" && h.name == name) = some h)
    (hspec : specOf h = some s) (hc : transCovered s = true) (hf : inFragment s args = true) :
    parseTrans (name :: args) = some (.error ()) ∨
    ∃ t, parseTrans (name :: args) = some (.ok t) ∧ t.mapped := by
  have hs := specOf_mem h s hspec
  unfold transCovered at hc
  simp only [Bool.and_eq_true, beq_iff_eq, bne_iff_ne, ne_eq] at hc
  obtain ⟨⟨⟨_, hstd⟩, hnone⟩, hall⟩ := hc
  have hname : name = s.name := by
    have h1 := List.find?_some hfind
    simp only [Bool.and_eq_true, beq_iff_eq] at h1
    unfold specOf at hspec
    have h2 := List.find?_some hspec
    simp only [Bool.and_eq_true, beq_iff_eq] at h2
    rw [← h1.2, h2.1.2]
  have hnn : (name == "none") = false := by rw [hname]; simpa using hnone
  unfold parseTrans
  simp only [hfind, hnn, Bool.false_eq_true, if_false]
  rcases C17.dispatch_total h s hspec hs hstd args hf with ⟨c, hc⟩ | he
  · rw [hc]
    right
    refine ⟨.call c, rfl, ?_⟩
    -- the shape of the call
    unfold dispatch at hc
    rw [hspec] at hc
    dsimp only at hc
    unfold dispatchSpec at hc
    cases hd : dispatchTemplate s args with
    | error e => rw [hd] at hc; cases hc
    | ok tn =>
      obtain ⟨t, ns⟩ := tn
      rw [hd] at hc
      dsimp only at hc
      have htm := dispatchTemplate_mem s args t ns hd
      have hsh := (List.all_eq_true.1 hall) t htm
      simp only [Bool.and_eq_true, beq_iff_eq] at hsh
      obtain ⟨⟨hr, hkw⟩, hpos⟩ := hsh
      -- the bindings
      have hpa : ∃ b, parseArgs s args = .ok b ∧ ns = namespaceOf s b := by
        unfold dispatchTemplate at hd
        split at hd
        · cases hd
        · cases hb : parseArgs s args with
          | error e => rw [hb] at hd; cases hd
          | ok b =>
            rw [hb] at hd
            dsimp only at hd
            split at hd
            · cases hd
            · cases hd; exact ⟨b, rfl, rfl⟩
      obtain ⟨b, hb, rfl⟩ := hpa
      obtain ⟨guard, raises, fn, pos, kw, eff⟩ := t
      dsimp only at hr hkw hpos
      subst hr
      have hkw' : kw = [] := by simpa using hkw
      subst hkw'
      split at hpos
      · rename_i rest
        simp only [Bool.and_eq_true] at hpos
        obtain ⟨is, his, hlen⟩ := evalPos_ints s hstd args b hb rest hpos.1
        have hfne : (fn == "") = false := by
          cases hfe : (fn == "") with
          | false => rfl
          | true =>
            have : fn = "" := by simpa using hfe
            subst this
            have h2 := hpos.2
            generalize rest.length = n at h2
            match n with
            | 0 => simp [transFns] at h2
            | 1 => simp [transFns] at h2
            | 2 => simp [transFns] at h2
            | _ + 3 => simp [transFns] at h2
        have hc' : c = ⟨fn, .param "F" :: is.map Val.int, []⟩ := by
          simp [instantiate, hfne, evalPos, evalE, his, evalKw] at hc
          exact hc.symm
        subst hc'
        intro env F
        exact evalTrans_mapped env F fn is (by rw [hlen]; exact hpos.2)
      · cases hpos
  · rw [he]; exact Or.inl rfl

/-- a chunk the totality theorem speaks about: empty (`-T` without a transformation), `none`, or one of the thirteen
substitutions followed by tokens of the fragment -/
def ChunkCovered (ch : List String) : Prop :=
  ch = [] ∨ ch = ["none"] ∨
  ∃ name args h s, ch = name :: args ∧
    helpers.find? (fun h => h.kind == "transformation" && h.name == name) = some h ∧
    specOf h = some s ∧ transCovered s = true ∧ inFragment s args = true

theorem parseTrans_covered (ch : List String) (hc : ChunkCovered ch) :
    parseTrans ch = some (.error ()) ∨ ∃ t, parseTrans ch = some (.ok t) ∧ t.mapped := by
  rcases hc with rfl | rfl | ⟨name, args, h, s, rfl, hfind, hspec, hcov, hf⟩
  · exact Or.inl rfl
  · right
    refine ⟨.identity, ?_, trivial⟩
    have hsome : (helpers.find? (fun h => h.kind == "transformation" && h.name == "none")).isSome = true := by
      decide +kernel
    obtain ⟨h0, hh0⟩ := Option.isSome_iff_exists.1 hsome
    simp [parseTrans, hh0]
  · exact parseTrans_total name args h s hfind hspec hcov hf

/-- T-C18.T5 TOTALITY OF THE CHAIN PARSER: a CLIError, or a list of calls every one of which `evalTrans` maps -/
theorem parseChain_total : ∀ (chunks : List (List String)), (∀ ch ∈ chunks, ChunkCovered ch) →
    parseChain chunks = some (.error ()) ∨
    ∃ ts, parseChain chunks = some (.ok ts) ∧ ∀ t ∈ ts, t.mapped := by
  intro chunks
  induction chunks with
  | nil => intro _; exact Or.inr ⟨[], rfl, fun t ht => by simp at ht⟩
  | cons ch rest ih =>
    intro hall
    have h1 := parseTrans_covered ch (hall ch (List.mem_cons_self ..))
    have h2 := ih (fun c hc => hall c (List.mem_cons_of_mem _ hc))
    unfold parseChain
    rcases h1 with h1 | ⟨t, h1, ht⟩ <;> rcases h2 with h2 | ⟨ts, h2, hts⟩ <;> rw [h1, h2]
    · exact Or.inl rfl
    · exact Or.inl rfl
    · exact Or.inl rfl
    · refine Or.inr ⟨t :: ts, rfl, fun x hx => ?_⟩
      rcases List.mem_cons.1 hx with rfl | hx
      · exact ht
      · exact hts x hx

/-- … and such a chain runs to the end on every formula -/
theorem runChain_total (env : GraphEnv) : ∀ (ts : List TCall) (F : CNF), (∀ t ∈ ts, t.mapped) →
    ∃ r, runChain env F ts = some r := by
  intro ts
  induction ts with
  | nil => intro F _; exact ⟨_, rfl⟩
  | cons t rest ih =>
    intro F hall
    have hrest : ∀ x ∈ rest, x.mapped := fun x hx => hall x (List.mem_cons_of_mem _ hx)
    cases t with
    | identity => exact ih F hrest
    | call c =>
      have hm := hall (.call c) (List.mem_cons_self ..)
      obtain ⟨r1, hr1⟩ := Option.isSome_iff_exists.1 (hm env F)
      simp only [runChain, hr1]
      cases r1 with
      | error e => exact ⟨_, rfl⟩
      | ok G => exact ih G hrest

/-! ### a whole line over a numeric formula -/

theorem numeric_not_graph : ∀ fn ∈ evalFns, (gHandlers.lookup fn).isNone = true := by decide

theorem shield_cliError_valueError {α : Type} (e : Err) (h : shield (Except.error e : Except Err α) = .cliError) :
    e = .valueError := by
  cases e <;> simp [shield] at h ⊢

/-- the formula part of a numeric sub-command (`end_to_end`): a CLIError, or the result of the family model on a call
`evalCallF` maps -/
theorem buildFormula_numeric (env : GraphEnv) (g : SimpleG) (name : String) (fargs : List String) (h : HelperSpec)
    (s : CliSpec) (hfind : helpers.find? (fun h => h.kind == "formula" && h.name == name) = some h)
    (hspec : specOf h = some s) (hc : outcomeCovered s = true) (hf : inFragment s fargs = true) :
    buildFormula env g (name :: fargs) = some (.error ()) ∨
    ∃ r c, buildFormula env g (name :: fargs) = some (.ok (.result r)) ∧ evalCallF g c = some r := by
  have hs := specOf_mem h s hspec
  have he := (end_to_end h s hspec hc fargs hf).1
  unfold cliOutcome dispatch at he
  rw [hspec] at he
  dsimp only at he
  unfold dispatchSpec at he
  unfold buildFormula
  simp only [hfind, hspec]
  cases hd : dispatchTemplate s fargs with
  | error e =>
    rw [hd] at he
    cases e with
    | cliError => exact Or.inl rfl
    | crash x => rcases he with he | he <;> simp at he
    | unsupported x => rcases he with he | he <;> simp at he
  | ok tn =>
    obtain ⟨t, ns⟩ := tn
    rw [hd] at he
    dsimp only at he ⊢
    have htm := dispatchTemplate_mem s fargs t ns hd
    cases hi : instantiate ns t with
    | error e =>
      rw [hi] at he
      cases e with
      | cliError => exact Or.inl rfl
      | crash x => rcases he with he | he <;> simp at he
      | unsupported x => rcases he with he | he <;> simp at he
    | ok c =>
      rw [hi] at he
      dsimp only at he ⊢
      have hfn : evalFns.contains c.fn = true := by
        have hcf : c.fn = t.fn := by
          unfold instantiate at hi
          split at hi
          · split at hi <;> cases hi
          · split at hi
            · cases hi
            · split at hi
              · cases hi; rfl
              · cases hi
        rw [hcf]
        unfold outcomeCovered at hc
        simp only [Bool.and_eq_true] at hc
        have h5 := hc.2
        split at h5
        · rename_i t0 hts
          rw [hts] at htm
          simp at htm
          subst htm
          simp only [Bool.and_eq_true] at h5
          exact h5.2
        · cases h5
      have hG : evalCallG env ns c = none := by
        unfold evalCallG
        have := numeric_not_graph c.fn (by simpa using hfn)
        cases hl : gHandlers.lookup c.fn with
        | none => rfl
        | some f => rw [hl] at this; simp at this
      cases hev : evalCall c with
      | none => rw [hev] at he; rcases he with he | he <;> simp at he
      | some r0 =>
        rw [ctext_evalCall_of_F g c] at hev
        cases hF : evalCallF g c with
        | none => rw [hF] at hev; simp at hev
        | some r =>
          right
          refine ⟨r, c, ?_, hF⟩
          unfold evalCallAny
          rw [hG, hF]
          rfl

/-- T-C18.T6 A WHOLE LINE, NO HYPOTHESIS ON THE BASE FORMULA.  `<numeric sub-command> <tokens> -T <chunk> -T …` with the
formula part one of the nine numeric sub-commands of `end_to_end` on ANY tokens of the fragment, and every chunk empty,
`none`, or one of the thirteen substitutions on ANY tokens of the fragment: the model answers, and the run ends in `ok` or
in a `cliError`.  The well-formedness of the base formula is derived (`mapped_formula_wf`), the totality of the chain
parser and of the chain is `parseChain_total` / `runChain_total`.  (`henv`: the bipartite graphs of the environment
are well formed — not used by these chunks, a hypothesis of `chain_clean`.) -/
theorem line_never_escapes_numeric (env : GraphEnv) (henv : ∀ i t B, env.bip i t = some B → BipWF B)
    (line : List String) (name : String) (fargs : List String) (tcmds : List (List String))
    (hsplit : splitT line = (name :: fargs) :: tcmds) (h : HelperSpec) (s : CliSpec)
    (hfind : helpers.find? (fun h => h.kind == "formula" && h.name == name) = some h)
    (hspec : specOf h = some s) (hc : outcomeCovered s = true) (hf : inFragment s fargs = true)
    (hch : ∀ ch ∈ tcmds, ChunkCovered ch) :
    cliOutcomeLine env line = some .ok ∨ cliOutcomeLine env line = some .cliError := by
  have hbf := buildFormula_numeric env ⟨1, 0, [[], []], []⟩ name fargs h s hfind hspec hc hf
  have hpc := parseChain_total tcmds hch
  -- the model answers
  have htot : ∃ o, cliOutcomeLine env line = some o := by
    unfold cliOutcomeLine cliLineCNF
    rw [hsplit]
    dsimp only
    rcases hbf with hb | ⟨r, c, hb, _⟩ <;> rcases hpc with hp | ⟨ts, hp, hts⟩ <;> rw [hb, hp]
    · exact ⟨_, rfl⟩
    · exact ⟨_, rfl⟩
    · exact ⟨_, rfl⟩
    · dsimp only
      cases r with
      | error e => exact ⟨_, rfl⟩
      | ok F =>
        dsimp only
        obtain ⟨rc, hrc⟩ := runChain_total env ts F.toCNF hts
        rw [hrc]
        cases rc <;> exact ⟨_, rfl⟩
  obtain ⟨o, ho⟩ := htot
  have := line_never_escapes_partial env henv line o ho
    (fun fcmd' tcmds' F hs' hb' => by
      rw [hsplit] at hs'
      simp only [List.cons.injEq] at hs'
      obtain ⟨rfl, _⟩ := hs'
      rcases hbf with hb | ⟨r, c, hb, hF⟩
      · rw [hb] at hb'; cases hb'
      · rw [hb] at hb'
        simp only [Option.some.injEq, Except.ok.injEq, Built.result.injEq] at hb'
        subst hb'
        exact mapped_formula_wf _ graphOK_one c F hF)
    (fun fcmd' tcmds' e hs' hb' => by
      rw [hsplit] at hs'
      simp only [List.cons.injEq] at hs'
      obtain ⟨rfl, _⟩ := hs'
      rcases hbf with hb | ⟨r, c, hb, hF⟩
      · rw [hb] at hb'; cases hb'
      · rw [hb] at hb'
        simp only [Option.some.injEq, Except.ok.injEq, Built.result.injEq] at hb'
        subst hb'
        have h1 : evalCall c = some (forget (Except.error e : Except Err Formula)) := by
          rw [ctext_evalCall_of_F ⟨1, 0, [[], []], []⟩ c, hF]; rfl
        rcases evalCall_clean c _ h1 with h2 | h2
        · simp [forget, Except.map] at h2
        · simpa [forget, Except.map] using h2)
  rcases this with rfl | rfl
  · exact Or.inl ho
  · exact Or.inr ho

/-- the hypotheses are satisfiable, and the conclusion is what the model computes -/
example : cliOutcomeLine detEnv ["php", "x", "-T", "xor", "2"] = some .cliError := by decide +kernel
example : cliOutcomeLine detEnv ["bphp", "3", "2", "-T", "xor", "2", "-T", "none", "-T", "lift", "0"] =
    some .cliError := by decide +kernel
example : cliOutcomeLine detEnv ["bphp", "3", "2", "-T", "xor", "2", "-T", "none", "-T", "flip"] = some .ok := by
  decide +kernel
example : ChunkCovered ["xor", "2"] :=
  Or.inr (Or.inr ⟨"xor", ["2"], (helpers.find? (fun h => h.kind == "transformation" && h.name == "xor")).get
    (by decide +kernel), (cliSpecs.find? (fun s => s.kind == "transformation" && s.name == "xor")).get
    (by decide +kernel), rfl, by decide +kernel, by decide +kernel, by decide +kernel, by decide +kernel⟩)

end Cnfgen.C18
