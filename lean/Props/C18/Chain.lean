/-
C18 (end to end, `-T` chains) — a command line `<formula> <args> -T <transformation> <args> -T …` ends in a usable
formula or a clean, shielded error.

`cliOutcomeLine` (CnfgenModel/Cli/OutcomeT.lean) = `splitT` ▸ formula part (`dispatch`, graphs, family model) ▸ every
chunk through the transformation parser ▸ the transformations of Trans/Subst.lean applied left to right ▸ `shield`.
The transformations are the models of C05; their "returns a well-formed formula or raises ValueError" comes from the
composition theorems of Props/C05.lean.
-/
import Lemmas.OutcomeG
import CnfgenModel.Cli.OutcomeT
import Props.C18.Graphs
import Props.C05
namespace Cnfgen.C18
open Cnfgen Cnfgen.Cli Cnfgen.Gen Cnfgen.Subst

/-- a step that returns a well-formed formula or raises ValueError -/
def StepClean (r : Except Err CNF) : Prop := (∃ G, r = .ok G ∧ G.WF) ∨ r = .error .valueError

theorem kstep (F : CNF) (k : Int) (f : CNF → Int → Except Err CNF)
    (hrej : ∀ k, k < 1 → f F k = .error .valueError) (hok : ∀ n : Nat, 1 ≤ n → ∃ G, f F n = .ok G ∧ G.WF) :
    StepClean (f F k) := by
  by_cases hk : k < 1
  · exact Or.inr (hrej k hk)
  · have : k = ((k.toNat : Nat) : Int) := by omega
    rw [this]
    exact Or.inl (hok k.toNat (by omega))

/-- T-C18.T1 every transformation step on a well-formed CNF returns a well-formed CNF or raises ValueError — all
thirteen substitutions / liftings and the two compressions, for every argument value and every bipartite graph object -/
theorem trans_step_clean (env : GraphEnv) (henv : ∀ i t B, env.bip i t = some B → BipWF B)
    (F : CNF) (hF : F.WF) (c : Call) (r : Except Err CNF) (h : evalTrans env F c = some r) : StepClean r := by
  unfold evalTrans at h
  split at h
  · split at h
    · cases h
      obtain ⟨G, h1, h2⟩ := C05.ite_composes F hF
      exact Or.inl ⟨G, h1, h2.wf⟩
    · split at h
      · cases h
        obtain ⟨G, h1, h2, _⟩ := C05.flip_composes F hF
        exact Or.inl ⟨G, h1, h2.wf⟩
      · cases h
  · rename_i k _
    repeat' split at h
    all_goals first
      | cases h
      | (simp only [Option.some.injEq] at h; subst h)
    · exact kstep F k xorSubst (fun k hk => C05.kSubst_rejects F k hk _)
        (fun n hn => by obtain ⟨G, h1, h2⟩ := C05.xor_composes F n hn hF; exact ⟨G, h1, h2.wf⟩)
    · exact kstep F k orSubst (fun k hk => C05.kSubst_rejects F k hk _)
        (fun n hn => by obtain ⟨G, h1, h2⟩ := C05.or_composes F n hn hF; exact ⟨G, h1, h2.wf⟩)
    · exact kstep F k majSubst (fun k hk => C05.kSubst_rejects F k hk _)
        (fun n hn => by obtain ⟨G, h1, h2⟩ := C05.maj_composes F n hn hF; exact ⟨G, h1, h2.wf⟩)
    · exact kstep F k (fun F k => allEqual F k) (fun k hk => C05.kSubst_rejects F k hk _)
        (fun n hn => by obtain ⟨G, h1, h2⟩ := C05.allEqual_composes F n hn hF; exact ⟨G, h1, h2.wf⟩)
    · exact kstep F k notAllEqual (fun k hk => by simp [notAllEqual, hk])
        (fun n hn => by obtain ⟨G, h1, h2⟩ := C05.notAllEqual_composes F n hn hF; exact ⟨G, h1, h2.wf⟩)
    · exact kstep F k exactlyOne (fun k hk => C05.kSubst_rejects F k hk _)
        (fun n hn => by obtain ⟨G, h1, h2⟩ := C05.exactlyOne_composes F n hn hF; exact ⟨G, h1, h2.wf⟩)
    · exact kstep F k lifting (fun k hk => C05.lifting_rejects F k hk)
        (fun n hn => by obtain ⟨G, h1, h2⟩ := C05.lifting_composes F n hn hF; exact ⟨G, h1, h2.2.1⟩)
  · rename_i n k _
    repeat' split at h
    all_goals first
      | cases h
      | (simp only [Option.some.injEq] at h; subst h)
    · exact kstep F n (fun F n => exactly F n k) (fun n hn => C05.kSubst_rejects F n hn _)
        (fun m hm => by obtain ⟨G, h1, h2⟩ := C05.exactly_composes F m k hm hF; exact ⟨G, h1, h2.wf⟩)
    · exact kstep F n (fun F n => atLeast F n k) (fun n hn => C05.kSubst_rejects F n hn _)
        (fun m hm => by obtain ⟨G, h1, h2⟩ := C05.atLeast_composes F m k hm hF; exact ⟨G, h1, h2.wf⟩)
    · exact kstep F n (fun F n => atMost F n k) (fun n hn => C05.kSubst_rejects F n hn _)
        (fun m hm => by obtain ⟨G, h1, h2⟩ := C05.atMost_composes F m k hm hF; exact ⟨G, h1, h2.wf⟩)
    · exact kstep F n (fun F n => anythingBut F n k) (fun n hn => C05.kSubst_rejects F n hn _)
        (fun m hm => by obtain ⟨G, h1, h2⟩ := C05.anythingBut_composes F m k hm hF; exact ⟨G, h1, h2.wf⟩)
  · rename_i t _
    split at h
    · split at h
      · rename_i fn hfn
        split at h
        · cases h; exact Or.inr rfl
        · rename_i B hB
          cases h
          have hwf := henv 0 t B hB
          by_cases hl : B.l = F.nvars
          · have hfn' : fn = 0 ∨ fn = 1 := by
              unfold compFn at hfn
              repeat' split at hfn
              all_goals simp_all
            rcases hfn' with rfl | rfl
            · obtain ⟨G, h1, h2⟩ := C05.xorCompression_composes F B hwf hl hF
              exact Or.inl ⟨G, h1, h2.wf⟩
            · obtain ⟨G, h1, h2⟩ := C05.majCompression_composes F B hwf hl hF
              exact Or.inl ⟨G, h1, h2.wf⟩
          · exact Or.inr (C05.compress_rejects F B fn (Or.inr hl))
      · cases h
    · cases h
  · cases h

/-- T-C18.T2 a whole chain of transformations on a well-formed CNF returns a well-formed CNF or raises ValueError
(which `cli()` shields) — never anything else, whatever the chain -/
theorem chain_clean (env : GraphEnv) (henv : ∀ i t B, env.bip i t = some B → BipWF B) :
    ∀ (ts : List TCall) (F : CNF), F.WF → ∀ r, runChain env F ts = some r → StepClean r := by
  intro ts
  induction ts with
  | nil => intro F hF r h; simp only [runChain, Option.some.injEq] at h; subst h; exact Or.inl ⟨F, rfl, hF⟩
  | cons t rest ih =>
    intro F hF r h
    cases t with
    | identity => exact ih F hF r h
    | call c =>
      simp only [runChain] at h
      cases he : evalTrans env F c with
      | none => rw [he] at h; cases h
      | some r1 =>
        rw [he] at h
        rcases trans_step_clean env henv F hF c r1 he with ⟨G, rfl, hG⟩ | rfl
        · exact ih G hG r h
        · simp only [Option.some.injEq] at h; subst h; exact Or.inr rfl

theorem shield_valueError : shield (Except.error .valueError : Except Err Unit) = .cliError := rfl

/-- T-C18.T3 (partial: what is missing is that the model ANSWERS on every command line of the fragment, and the
well-formedness of the base formula is a hypothesis — proved for the numeric generators by `mapped_formula_wf`, for the
graph generators by the `…_wf` theorems of C01–C03 under the graph invariants C16 derives for every graph object).
For every line `<formula> … -T … -T …`, every graph environment with well-formed bipartite graphs: whenever the model
gives an outcome it is `ok` or `cliError` — the transformation parser refuses with a CLIError, every transformation
returns a formula or raises ValueError, nothing escapes at any step of the chain. -/
theorem line_never_escapes_partial (env : GraphEnv) (henv : ∀ i t B, env.bip i t = some B → BipWF B)
    (line : List String) (o : Outcome) (ho : cliOutcomeLine env line = some o)
    (hbase : ∀ fcmd tcmds F, splitT line = fcmd :: tcmds →
      buildFormula env ⟨1, 0, [[], []], []⟩ fcmd = some (.ok (.result (.ok F))) → F.WF)
    (hform : ∀ fcmd tcmds e, splitT line = fcmd :: tcmds →
      buildFormula env ⟨1, 0, [[], []], []⟩ fcmd = some (.ok (.result (.error e))) → e = .valueError) :
    o = .ok ∨ o = .cliError := by
  unfold cliOutcomeLine cliLineCNF at ho
  cases hs : splitT line with
  | nil => rw [hs] at ho; cases ho
  | cons fcmd tcmds =>
    rw [hs] at ho
    dsimp only at ho
    cases hb : buildFormula env ⟨1, 0, [[], []], []⟩ fcmd with
    | none => rw [hb] at ho; cases ho
    | some rb =>
      cases hp : parseChain tcmds with
      | none => rw [hb, hp] at ho; cases rb <;> cases ho
      | some rp =>
        rw [hb, hp] at ho
        cases rb with
        | error u =>
          simp only [Option.map_some, Option.some.injEq] at ho
          subst ho; exact Or.inr rfl
        | ok b =>
          cases rp with
          | error u =>
            simp only [Option.map_some, Option.some.injEq] at ho
            subst ho; exact Or.inr rfl
          | ok ts =>
            dsimp only at ho
            cases b with
            | refused =>
              simp only [Option.map_some, Option.some.injEq] at ho
              subst ho; exact Or.inr rfl
            | result r =>
              cases r with
              | error e =>
                have := hform fcmd tcmds e hs hb
                subst this
                simp only [Option.map_some, Option.some.injEq] at ho
                subst ho; exact Or.inr rfl
              | ok F =>
                dsimp only at ho
                have hwf := ctext_toCNF_wf F (hbase fcmd tcmds F hs hb)
                cases hr : runChain env F.toCNF ts with
                | none => rw [hr] at ho; cases ho
                | some rc =>
                  rw [hr] at ho
                  rcases chain_clean env henv ts F.toCNF hwf rc hr with ⟨G, rfl, _⟩ | rfl
                  · simp only [Option.map_some, Option.some.injEq] at ho
                    subst ho; exact Or.inl rfl
                  · simp only [Option.map_some, Option.some.injEq] at ho
                    subst ho; exact Or.inr rfl

/-- the run ends in `ok` exactly when the formula part builds a formula, every chunk is accepted by the
transformation parser, and every transformation of the chain, applied left to right, returns a formula -/
theorem line_ok_iff (env : GraphEnv) (line : List String) :
    cliOutcomeLine env line = some .ok ↔
      ∃ fcmd tcmds F ts G, splitT line = fcmd :: tcmds ∧
        buildFormula env ⟨1, 0, [[], []], []⟩ fcmd = some (.ok (.result (.ok F))) ∧
        parseChain tcmds = some (.ok ts) ∧ runChain env F.toCNF ts = some (.ok G) := by
  unfold cliOutcomeLine cliLineCNF
  constructor
  · intro ho
    cases hs : splitT line with
    | nil => rw [hs] at ho; cases ho
    | cons fcmd tcmds =>
      rw [hs] at ho
      dsimp only at ho
      cases hb : buildFormula env ⟨1, 0, [[], []], []⟩ fcmd with
      | none => rw [hb] at ho; cases ho
      | some rb =>
        cases hp : parseChain tcmds with
        | none => rw [hb, hp] at ho; cases rb <;> cases ho
        | some rp =>
          rw [hb, hp] at ho
          cases rb with
          | error u => simp at ho
          | ok b =>
            cases rp with
            | error u => simp at ho
            | ok ts =>
              dsimp only at ho
              cases b with
              | refused => simp at ho
              | result r =>
                cases r with
                | error e => cases e <;> simp [shield] at ho
                | ok F =>
                  dsimp only at ho
                  cases hr : runChain env F.toCNF ts with
                  | none => rw [hr] at ho; cases ho
                  | some rc =>
                    rw [hr] at ho
                    cases rc with
                    | error e => cases e <;> simp [shield] at ho
                    | ok G => exact ⟨fcmd, tcmds, F, ts, G, rfl, hb, hp, hr⟩
  · rintro ⟨fcmd, tcmds, F, ts, G, hs, hb, hp, hr⟩
    rw [hs]
    dsimp only
    rw [hb, hp]
    dsimp only
    rw [hr]
    rfl

/-! ### concrete command lines -/

example : cliOutcomeLine detEnv ["php", "3", "2", "-T", "xor", "2"] = some .ok := by decide +kernel
example : cliOutcomeLine detEnv ["php", "3", "2", "-T", "xor", "0"] = some .cliError := by decide +kernel
example : cliOutcomeLine detEnv ["php", "3", "2", "-T"] = some .cliError := by decide +kernel
example : cliOutcomeLine detEnv ["php", "2", "1", "-T", "xor", "2", "-T", "flip", "-T", "none"] = some .ok := by
  decide +kernel
example : cliOutcomeLine detEnv ["php", "2", "1", "-T", "xorcomp", "complete", "2", "3"] = some .ok := by decide +kernel
/-- the left side of the compression graph is not the number of variables: the library's ValueError, shielded -/
example : cliOutcomeLine detEnv ["php", "2", "1", "-T", "xorcomp", "complete", "3", "3"] = some .cliError := by
  decide +kernel
example : cliOutcomeLine detEnv ["kcolor", "2", "complete", "3", "-T", "lift", "2"] = some .ok := by decide +kernel
example : cliOutcomeLine detEnv ["php", "3", "2", "-T", "shuffle"] = none := by decide +kernel

end Cnfgen.C18
