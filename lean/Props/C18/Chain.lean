/-
C18 (end to end, `-T` chains) — a command line `<formula> <args> -T <transformation> <args> -T …` ends in a usable
formula or a clean, shielded error.

`cliOutcomeLine` (CnfgenModel/Cli/OutcomeT.lean) = `splitT` ▸ formula part (`dispatch`, graphs, family model) ▸ every
chunk through the transformation parser ▸ the transformations of Trans/Subst.lean applied left to right ▸ `shield`.
The transformations are the models of C05; their "returns a well-formed formula or raises ValueError" comes from the
composition theorems of Props/C05.lean.
-/
import Lemmas.OutcomeG
import CnfgenModel.Cli.OutcomeT
import Props.C18.Graphs
import Props.C05
import Props.C18.Text
import Props.C18.EndToEnd
import Props.C17.Dispatch
namespace Cnfgen.C18
open Cnfgen Cnfgen.Cli Cnfgen.Gen Cnfgen.Subst

/-- a step that returns a well-formed formula or raises ValueError -/
def StepClean (r : Except Err CNF) : Prop := (∃ G, r = .ok G ∧ G.WF) ∨ r = .error .valueError

theorem kstep (F : CNF) (k : Int) (f : CNF → Int → Except Err CNF)
    (hrej : ∀ k, k < 1 → f F k = .error .valueError) (hok : ∀ n : Nat, 1 ≤ n → ∃ G, f F n = .ok G ∧ G.WF) :
    StepClean (f F k) := by
  by_cases hk : k < 1
  · exact Or.inr (hrej k hk)
  · have : k = ((k.toNat : Nat) : Int) := by omega
    rw [this]
    exact Or.inl (hok k.toNat (by omega))

/-- T-C18.T1 every transformation step on a well-formed CNF returns a well-formed CNF or raises ValueError — all
thirteen substitutions / liftings and the two compressions, for every argument value and every bipartite graph object -/
theorem trans_step_clean (env : GraphEnv) (henv : ∀ i t B, env.bip i t = some B → BipWF B)
    (F : CNF) (hF : F.WF) (c : Call) (r : Except Err CNF) (h : evalTrans env F c = some r) : StepClean r := by
  unfold evalTrans at h
  split at h
  · split at h
    · cases h
      obtain ⟨G, h1, h2⟩ := C05.ite_composes F hF
      exact Or.inl ⟨G, h1, h2.wf⟩
    · split at h
      · cases h
        obtain ⟨G, h1, h2, _⟩ := C05.flip_composes F hF
        exact Or.inl ⟨G, h1, h2.wf⟩
      · cases h
  · rename_i k _
    repeat' split at h
    all_goals first
      | cases h
      | (simp only [Option.some.injEq] at h; subst h)
    · exact kstep F k xorSubst (fun k hk => C05.kSubst_rejects F k hk _)
        (fun n hn => by obtain ⟨G, h1, h2⟩ := C05.xor_composes F n hn hF; exact ⟨G, h1, h2.wf⟩)
    · exact kstep F k orSubst (fun k hk => C05.kSubst_rejects F k hk _)
        (fun n hn => by obtain ⟨G, h1, h2⟩ := C05.or_composes F n hn hF; exact ⟨G, h1, h2.wf⟩)
    · exact kstep F k majSubst (fun k hk => C05.kSubst_rejects F k hk _)
        (fun n hn => by obtain ⟨G, h1, h2⟩ := C05.maj_composes F n hn hF; exact ⟨G, h1, h2.wf⟩)
    · exact kstep F k (fun F k => allEqual F k) (fun k hk => C05.kSubst_rejects F k hk _)
        (fun n hn => by obtain ⟨G, h1, h2⟩ := C05.allEqual_composes F n hn hF; exact ⟨G, h1, h2.wf⟩)
    · exact kstep F k notAllEqual (fun k hk => by simp [notAllEqual, hk])
        (fun n hn => by obtain ⟨G, h1, h2⟩ := C05.notAllEqual_composes F n hn hF; exact ⟨G, h1, h2.wf⟩)
    · exact kstep F k exactlyOne (fun k hk => C05.kSubst_rejects F k hk _)
        (fun n hn => by obtain ⟨G, h1, h2⟩ := C05.exactlyOne_composes F n hn hF; exact ⟨G, h1, h2.wf⟩)
    · exact kstep F k lifting (fun k hk => C05.lifting_rejects F k hk)
        (fun n hn => by obtain ⟨G, h1, h2⟩ := C05.lifting_composes F n hn hF; exact ⟨G, h1, h2.2.1⟩)
  · rename_i n k _
    repeat' split at h
    all_goals first
      | cases h
      | (simp only [Option.some.injEq] at h; subst h)
    · exact kstep F n (fun F n => exactly F n k) (fun n hn => C05.kSubst_rejects F n hn _)
        (fun m hm => by obtain ⟨G, h1, h2⟩ := C05.exactly_composes F m k hm hF; exact ⟨G, h1, h2.wf⟩)
    · exact kstep F n (fun F n => atLeast F n k) (fun n hn => C05.kSubst_rejects F n hn _)
        (fun m hm => by obtain ⟨G, h1, h2⟩ := C05.atLeast_composes F m k hm hF; exact ⟨G, h1, h2.wf⟩)
    · exact kstep F n (fun F n => atMost F n k) (fun n hn => C05.kSubst_rejects F n hn _)
        (fun m hm => by obtain ⟨G, h1, h2⟩ := C05.atMost_composes F m k hm hF; exact ⟨G, h1, h2.wf⟩)
    · exact kstep F n (fun F n => anythingBut F n k) (fun n hn => C05.kSubst_rejects F n hn _)
        (fun m hm => by obtain ⟨G, h1, h2⟩ := C05.anythingBut_composes F m k hm hF; exact ⟨G, h1, h2.wf⟩)
  · rename_i t _
    split at h
    · split at h
      · rename_i fn hfn
        split at h
        · cases h; exact Or.inr rfl
        · rename_i B hB
          cases h
          have hwf := henv 0 t B hB
          by_cases hl : B.l = F.nvars
          · have hfn' : fn = 0 ∨ fn = 1 := by
              unfold compFn at hfn
              repeat' split at hfn
              all_goals simp_all
            rcases hfn' with rfl | rfl
            · obtain ⟨G, h1, h2⟩ := C05.xorCompression_composes F B hwf hl hF
              exact Or.inl ⟨G, h1, h2.wf⟩
            · obtain ⟨G, h1, h2⟩ := C05.majCompression_composes F B hwf hl hF
              exact Or.inl ⟨G, h1, h2.wf⟩
          · exact Or.inr (C05.compress_rejects F B fn (Or.inr hl))
      · cases h
    · cases h
  · cases h

/-- T-C18.T2 a whole chain of transformations on a well-formed CNF returns a well-formed CNF or raises ValueError
(which `cli()` shields) — never anything else, whatever the chain -/
theorem chain_clean (env : GraphEnv) (henv : ∀ i t B, env.bip i t = some B → BipWF B) :
    ∀ (ts : List TCall) (F : CNF), F.WF → ∀ r, runChain env F ts = some r → StepClean r := by
  intro ts
  induction ts with
  | nil => intro F hF r h; simp only [runChain, Option.some.injEq] at h; subst h; exact Or.inl ⟨F, rfl, hF⟩
  | cons t rest ih =>
    intro F hF r h
    cases t with
    | identity => exact ih F hF r h
    | call c =>
      simp only [runChain] at h
      cases he : evalTrans env F c with
      | none => rw [he] at h; cases h
      | some r1 =>
        rw [he] at h
        rcases trans_step_clean env henv F hF c r1 he with ⟨G, rfl, hG⟩ | rfl
        · exact ih G hG r h
        · simp only [Option.some.injEq] at h; subst h; exact Or.inr rfl

theorem shield_valueError : shield (Except.error .valueError : Except Err Unit) = .cliError := rfl

/-- T-C18.T3 (partial: what is missing is that the model ANSWERS on every command line of the fragment, and the
well-formedness of the base formula is a hypothesis — proved for the numeric generators by `mapped_formula_wf`, for the
graph generators by the `…_wf` theorems of C01–C03 under the graph invariants C16 derives for every graph object).
For every line `<formula> … -T … -T …`, every graph environment with well-formed bipartite graphs: whenever the model
gives an outcome it is `ok` or `cliError` — the transformation parser refuses with a CLIError, every transformation
returns a formula or raises ValueError, nothing escapes at any step of the chain. -/
theorem line_never_escapes_partial (env : GraphEnv) (henv : ∀ i t B, env.bip i t = some B → BipWF B)
    (line : List String) (o : Outcome) (ho : cliOutcomeLine env line = some o)
    (hbase : ∀ fcmd tcmds F, splitT line = fcmd :: tcmds →
      buildFormula env ⟨1, 0, [[], []], []⟩ fcmd = some (.ok (.result (.ok F))) → F.WF)
    (hform : ∀ fcmd tcmds e, splitT line = fcmd :: tcmds →
      buildFormula env ⟨1, 0, [[], []], []⟩ fcmd = some (.ok (.result (.error e))) → e = .valueError) :
    o = .ok ∨ o = .cliError := by
  unfold cliOutcomeLine cliLineCNF at ho
  cases hs : splitT line with
  | nil => rw [hs] at ho; cases ho
  | cons fcmd tcmds =>
    rw [hs] at ho
    dsimp only at ho
    cases hb : buildFormula env ⟨1, 0, [[], []], []⟩ fcmd with
    | none => rw [hb] at ho; cases ho
    | some rb =>
      cases hp : parseChain tcmds with
      | none => rw [hb, hp] at ho; cases rb <;> cases ho
      | some rp =>
        rw [hb, hp] at ho
        cases rb with
        | error u =>
          simp only [Option.map_some, Option.some.injEq] at ho
          subst ho; exact Or.inr rfl
        | ok b =>
          cases rp with
          | error u =>
            simp only [Option.map_some, Option.some.injEq] at ho
            subst ho; exact Or.inr rfl
          | ok ts =>
            dsimp only at ho
            cases b with
            | refused =>
              simp only [Option.map_some, Option.some.injEq] at ho
              subst ho; exact Or.inr rfl
            | result r =>
              cases r with
              | error e =>
                have := hform fcmd tcmds e hs hb
                subst this
                simp only [Option.map_some, Option.some.injEq] at ho
                subst ho; exact Or.inr rfl
              | ok F =>
                dsimp only at ho
                have hwf := ctext_toCNF_wf F (hbase fcmd tcmds F hs hb)
                cases hr : runChain env F.toCNF ts with
                | none => rw [hr] at ho; cases ho
                | some rc =>
                  rw [hr] at ho
                  rcases chain_clean env henv ts F.toCNF hwf rc hr with ⟨G, rfl, _⟩ | rfl
                  · simp only [Option.map_some, Option.some.injEq] at ho
                    subst ho; exact Or.inl rfl
                  · simp only [Option.map_some, Option.some.injEq] at ho
                    subst ho; exact Or.inr rfl

/-- the run ends in `ok` exactly when the formula part builds a formula, every chunk is accepted by the
transformation parser, and every transformation of the chain, applied left to right, returns a formula -/
theorem line_ok_iff (env : GraphEnv) (line : List String) :
    cliOutcomeLine env line = some .ok ↔
      ∃ fcmd tcmds F ts G, splitT line = fcmd :: tcmds ∧
        buildFormula env ⟨1, 0, [[], []], []⟩ fcmd = some (.ok (.result (.ok F))) ∧
        parseChain tcmds = some (.ok ts) ∧ runChain env F.toCNF ts = some (.ok G) := by
  unfold cliOutcomeLine cliLineCNF
  constructor
  · intro ho
    cases hs : splitT line with
    | nil => rw [hs] at ho; cases ho
    | cons fcmd tcmds =>
      rw [hs] at ho
      dsimp only at ho
      cases hb : buildFormula env ⟨1, 0, [[], []], []⟩ fcmd with
      | none => rw [hb] at ho; cases ho
      | some rb =>
        cases hp : parseChain tcmds with
        | none => rw [hb, hp] at ho; cases rb <;> cases ho
        | some rp =>
          rw [hb, hp] at ho
          cases rb with
          | error u => simp at ho
          | ok b =>
            cases rp with
            | error u => simp at ho
            | ok ts =>
              dsimp only at ho
              cases b with
              | refused => simp at ho
              | result r =>
                cases r with
                | error e => cases e <;> simp [shield] at ho
                | ok F =>
                  dsimp only at ho
                  cases hr : runChain env F.toCNF ts with
                  | none => rw [hr] at ho; cases ho
                  | some rc =>
                    rw [hr] at ho
                    cases rc with
                    | error e => cases e <;> simp [shield] at ho
                    | ok G => exact ⟨fcmd, tcmds, F, ts, G, rfl, hb, hp, hr⟩
  · rintro ⟨fcmd, tcmds, F, ts, G, hs, hb, hp, hr⟩
    rw [hs]
    dsimp only
    rw [hb, hp]
    dsimp only
    rw [hr]
    rfl

/-! ### concrete command lines -/

example : cliOutcomeLine detEnv ["php", "3", "2", "-T", "xor", "2"] = some .ok := by decide +kernel
example : cliOutcomeLine detEnv ["php", "3", "2", "-T", "xor", "0"] = some .cliError := by decide +kernel
example : cliOutcomeLine detEnv ["php", "3", "2", "-T"] = some .cliError := by decide +kernel
example : cliOutcomeLine detEnv ["php", "2", "1", "-T", "xor", "2", "-T", "flip", "-T", "none"] = some .ok := by
  decide +kernel
example : cliOutcomeLine detEnv ["php", "2", "1", "-T", "xorcomp", "complete", "2", "3"] = some .ok := by decide +kernel
/-- the left side of the compression graph is not the number of variables: the library's ValueError, shielded -/
example : cliOutcomeLine detEnv ["php", "2", "1", "-T", "xorcomp", "complete", "3", "3"] = some .cliError := by
  decide +kernel
example : cliOutcomeLine detEnv ["kcolor", "2", "complete", "3", "-T", "lift", "2"] = some .ok := by decide +kernel
example : cliOutcomeLine detEnv ["php", "3", "2", "-T", "shuffle"] = none := by decide +kernel

/-! ## totality of the chain parser, and a whole line over a numeric formula

over is one `evalTrans` maps; a whole line `<numeric formula> -T … -T …` ends in `ok` or `cliError`, with NO hypothesis on
the base formula (its well-formedness comes from `mapped_formula_wf`) and no "whenever the model answers".
-/

/-- the substitutions `evalTrans` maps, by number of integer arguments -/
def transFns : Nat → List String
  | 0 => ["IfThenElseSubstitution", "FlipPolarity"]
  | 1 => ["XorSubstitution", "OrSubstitution", "MajoritySubstitution", "AllEqualSubstitution",
          "NotAllEqualSubstitution", "ExactlyOneSubstitution", "FormulaLifting"]
  | 2 => ["ExactlyKSubstitution", "AtLeastKSubstitution", "AtMostKSubstitution", "AnythingButKSubstitution"]
  | _ => []

def isIntArg (s : CliSpec) : Expr → Bool
  | .arg d => dtot_intBound s d
  | _ => false

/-- a transformation sub-command with standard options whose single path is `Gen(F, <typed positionals>)`, `Gen` one of
the thirteen substitutions of Trans/Subst.lean -/
def transCovered (s : CliSpec) : Bool :=
  s.kind == "transformation" && s.standard && s.name != "none" &&
  s.templates.all (fun t => t.raises == "" && t.kw.isEmpty &&
    (match t.pos with
     | .name "F" :: rest => rest.all (isIntArg s) && (transFns rest.length).contains t.fn
     | _ => false))

theorem trans_covered_commands :
    (cliSpecs.filter transCovered).map (·.name) =
      ["anybut", "atleast", "atmost", "eq", "exact", "flip", "ite", "lift", "maj", "neq", "one", "or", "xor"] := by
  decide +kernel

/-- the transformation sub-commands outside: `majcomp` `xorcomp` (composed parsers, a bipartite graph or a random one),
`shuffle` (random), `none` (handled by `parseTrans` itself), and the abstract base class -/
theorem trans_excluded_commands :
    (cliSpecs.filter (fun s => s.kind == "transformation" && !transCovered s)).map (·.name) =
      ["", "majcomp", "none", "shuffle", "xorcomp"] := by decide +kernel

theorem evalPos_ints (s : CliSpec) (hstd : s.standard = true) (argv : List String) (b : Ns)
    (h : parseArgs s argv = .ok b) : ∀ (es : List Expr), es.all (isIntArg s) = true →
      ∃ is : List Int, evalPos (namespaceOf s b) es = some (is.map Val.int) ∧ is.length = es.length := by
  intro es
  induction es with
  | nil => intro _; exact ⟨[], rfl, rfl⟩
  | cons e rest ih =>
    intro hall
    simp only [List.all_cons, Bool.and_eq_true] at hall
    obtain ⟨is, his, hlen⟩ := ih hall.2
    cases e with
    | arg d =>
      simp only [isIntArg] at hall
      obtain ⟨i, hi⟩ := dtot_intBound_val s hstd argv b h d hall.1
      refine ⟨i :: is, ?_, by simp [hlen]⟩
      simp [evalPos, evalE, hi, his]
    | _ => simp [isIntArg] at hall

/-- a call `Gen(F, i₁ … iₙ)` with `Gen` among the substitutions for `n` integers is mapped, whatever the formula -/
theorem evalTrans_mapped (env : GraphEnv) (F : CNF) (fn : String) (is : List Int)
    (hfn : (transFns is.length).contains fn = true) :
    (evalTrans env F ⟨fn, .param "F" :: is.map Val.int, []⟩).isSome = true := by
  match is, hfn with
  | [], hfn =>
    simp only [transFns, List.length_nil, List.contains_eq_mem, List.mem_cons, List.not_mem_nil, or_false,
      decide_eq_true_eq] at hfn
    rcases hfn with rfl | rfl <;> simp [evalTrans]
  | [a], hfn =>
    simp only [transFns, List.length_cons, List.length_nil, List.contains_eq_mem, List.mem_cons, List.not_mem_nil,
      or_false, decide_eq_true_eq] at hfn
    rcases hfn with rfl | rfl | rfl | rfl | rfl | rfl | rfl <;> simp [evalTrans]
  | [a, b], hfn =>
    simp only [transFns, List.length_cons, List.length_nil, List.contains_eq_mem, List.mem_cons, List.not_mem_nil,
      or_false, decide_eq_true_eq] at hfn
    rcases hfn with rfl | rfl | rfl | rfl <;> simp [evalTrans]
  | _ :: _ :: _ :: _, hfn => simp [transFns] at hfn

/-- the chunk is parsed into a call that `evalTrans` maps on every formula -/
def _root_.Cnfgen.Cli.TCall.mapped : TCall → Prop
  | .identity => True
  | .call c => ∀ (env : GraphEnv) (F : CNF), (evalTrans env F c).isSome = true

/-- T-C18.T4 TOTALITY OF THE TRANSFORMATION PARSER.  For the thirteen substitution sub-commands and EVERY list of tokens
of the fragment after the name: the parser refuses the chunk (CLIError) or hands over a call `evalTrans` maps — never
"outside the model". -/
theorem parseTrans_total (name : String) (args : List String) (h : HelperSpec) (s : CliSpec)
    (hfind : helpers.find? (fun h => h.kind == "transformation" && h.name == name) = some h)
    (hspec : specOf h = some s) (hc : transCovered s = true) (hf : inFragment s args = true) :
    parseTrans (name :: args) = some (.error ()) ∨
    ∃ t, parseTrans (name :: args) = some (.ok t) ∧ t.mapped := by
  have hs := specOf_mem h s hspec
  unfold transCovered at hc
  simp only [Bool.and_eq_true, beq_iff_eq, bne_iff_ne, ne_eq] at hc
  obtain ⟨⟨⟨_, hstd⟩, hnone⟩, hall⟩ := hc
  have hname : name = s.name := by
    have h1 := List.find?_some hfind
    simp only [Bool.and_eq_true, beq_iff_eq] at h1
    unfold specOf at hspec
    have h2 := List.find?_some hspec
    simp only [Bool.and_eq_true, beq_iff_eq] at h2
    rw [← h1.2, h2.1.2]
  have hnn : (name == "none") = false := by rw [hname]; simpa using hnone
  unfold parseTrans
  simp only [hfind, hnn, Bool.false_eq_true, if_false]
  rcases C17.dispatch_total h s hspec hs hstd args hf with ⟨c, hc⟩ | he
  · rw [hc]
    right
    refine ⟨.call c, rfl, ?_⟩
    -- the shape of the call
    unfold dispatch at hc
    rw [hspec] at hc
    dsimp only at hc
    unfold dispatchSpec at hc
    cases hd : dispatchTemplate s args with
    | error e => rw [hd] at hc; cases hc
    | ok tn =>
      obtain ⟨t, ns⟩ := tn
      rw [hd] at hc
      dsimp only at hc
      have htm := dispatchTemplate_mem s args t ns hd
      have hsh := (List.all_eq_true.1 hall) t htm
      simp only [Bool.and_eq_true, beq_iff_eq] at hsh
      obtain ⟨⟨hr, hkw⟩, hpos⟩ := hsh
      -- the bindings
      have hpa : ∃ b, parseArgs s args = .ok b ∧ ns = namespaceOf s b := by
        unfold dispatchTemplate at hd
        split at hd
        · cases hd
        · cases hb : parseArgs s args with
          | error e => rw [hb] at hd; cases hd
          | ok b =>
            rw [hb] at hd
            dsimp only at hd
            split at hd
            · cases hd
            · cases hd; exact ⟨b, rfl, rfl⟩
      obtain ⟨b, hb, rfl⟩ := hpa
      obtain ⟨guard, raises, fn, pos, kw, eff⟩ := t
      dsimp only at hr hkw hpos
      subst hr
      have hkw' : kw = [] := by simpa using hkw
      subst hkw'
      split at hpos
      · rename_i rest
        simp only [Bool.and_eq_true] at hpos
        obtain ⟨is, his, hlen⟩ := evalPos_ints s hstd args b hb rest hpos.1
        have hfne : (fn == "") = false := by
          cases hfe : (fn == "") with
          | false => rfl
          | true =>
            have : fn = "" := by simpa using hfe
            subst this
            have h2 := hpos.2
            generalize rest.length = n at h2
            match n with
            | 0 => simp [transFns] at h2
            | 1 => simp [transFns] at h2
            | 2 => simp [transFns] at h2
            | _ + 3 => simp [transFns] at h2
        have hc' : c = ⟨fn, .param "F" :: is.map Val.int, []⟩ := by
          simp [instantiate, hfne, evalPos, evalE, his, evalKw] at hc
          exact hc.symm
        subst hc'
        intro env F
        exact evalTrans_mapped env F fn is (by rw [hlen]; exact hpos.2)
      · cases hpos
  · rw [he]; exact Or.inl rfl

/-- a chunk the totality theorem speaks about: empty (`-T` without a transformation), `none`, or one of the thirteen
substitutions followed by tokens of the fragment -/
def ChunkCovered (ch : List String) : Prop :=
  ch = [] ∨ ch = ["none"] ∨
  ∃ name args h s, ch = name :: args ∧
    helpers.find? (fun h => h.kind == "transformation" && h.name == name) = some h ∧
    specOf h = some s ∧ transCovered s = true ∧ inFragment s args = true

theorem parseTrans_covered (ch : List String) (hc : ChunkCovered ch) :
    parseTrans ch = some (.error ()) ∨ ∃ t, parseTrans ch = some (.ok t) ∧ t.mapped := by
  rcases hc with rfl | rfl | ⟨name, args, h, s, rfl, hfind, hspec, hcov, hf⟩
  · exact Or.inl rfl
  · right
    refine ⟨.identity, ?_, trivial⟩
    have hsome : (helpers.find? (fun h => h.kind == "transformation" && h.name == "none")).isSome = true := by
      decide +kernel
    obtain ⟨h0, hh0⟩ := Option.isSome_iff_exists.1 hsome
    simp [parseTrans, hh0]
  · exact parseTrans_total name args h s hfind hspec hcov hf

/-- T-C18.T5 TOTALITY OF THE CHAIN PARSER: a CLIError, or a list of calls every one of which `evalTrans` maps -/
theorem parseChain_total : ∀ (chunks : List (List String)), (∀ ch ∈ chunks, ChunkCovered ch) →
    parseChain chunks = some (.error ()) ∨
    ∃ ts, parseChain chunks = some (.ok ts) ∧ ∀ t ∈ ts, t.mapped := by
  intro chunks
  induction chunks with
  | nil => intro _; exact Or.inr ⟨[], rfl, fun t ht => by simp at ht⟩
  | cons ch rest ih =>
    intro hall
    have h1 := parseTrans_covered ch (hall ch (List.mem_cons_self ..))
    have h2 := ih (fun c hc => hall c (List.mem_cons_of_mem _ hc))
    unfold parseChain
    rcases h1 with h1 | ⟨t, h1, ht⟩ <;> rcases h2 with h2 | ⟨ts, h2, hts⟩ <;> rw [h1, h2]
    · exact Or.inl rfl
    · exact Or.inl rfl
    · exact Or.inl rfl
    · refine Or.inr ⟨t :: ts, rfl, fun x hx => ?_⟩
      rcases List.mem_cons.1 hx with rfl | hx
      · exact ht
      · exact hts x hx

/-- … and such a chain runs to the end on every formula -/
theorem runChain_total (env : GraphEnv) : ∀ (ts : List TCall) (F : CNF), (∀ t ∈ ts, t.mapped) →
    ∃ r, runChain env F ts = some r := by
  intro ts
  induction ts with
  | nil => intro F _; exact ⟨_, rfl⟩
  | cons t rest ih =>
    intro F hall
    have hrest : ∀ x ∈ rest, x.mapped := fun x hx => hall x (List.mem_cons_of_mem _ hx)
    cases t with
    | identity => exact ih F hrest
    | call c =>
      have hm := hall (.call c) (List.mem_cons_self ..)
      obtain ⟨r1, hr1⟩ := Option.isSome_iff_exists.1 (hm env F)
      simp only [runChain, hr1]
      cases r1 with
      | error e => exact ⟨_, rfl⟩
      | ok G => exact ih G hrest

/-! ### a whole line over a numeric formula -/

theorem numeric_not_graph : ∀ fn ∈ evalFns, (gHandlers.lookup fn).isNone = true := by decide

theorem shield_cliError_valueError {α : Type} (e : Err) (h : shield (Except.error e : Except Err α) = .cliError) :
    e = .valueError := by
  cases e <;> simp [shield] at h ⊢

/-- the formula part of a numeric sub-command (`end_to_end`): a CLIError, or the result of the family model on a call
`evalCallF` maps -/
theorem buildFormula_numeric (env : GraphEnv) (g : SimpleG) (name : String) (fargs : List String) (h : HelperSpec)
    (s : CliSpec) (hfind : helpers.find? (fun h => h.kind == "formula" && h.name == name) = some h)
    (hspec : specOf h = some s) (hc : outcomeCovered s = true) (hf : inFragment s fargs = true) :
    buildFormula env g (name :: fargs) = some (.error ()) ∨
    ∃ r c, buildFormula env g (name :: fargs) = some (.ok (.result r)) ∧ evalCallF g c = some r := by
  have hs := specOf_mem h s hspec
  have he := (end_to_end h s hspec hc fargs hf).1
  unfold cliOutcome dispatch at he
  rw [hspec] at he
  dsimp only at he
  unfold dispatchSpec at he
  unfold buildFormula
  simp only [hfind, hspec]
  cases hd : dispatchTemplate s fargs with
  | error e =>
    rw [hd] at he
    cases e with
    | cliError => exact Or.inl rfl
    | crash x => rcases he with he | he <;> simp at he
    | unsupported x => rcases he with he | he <;> simp at he
  | ok tn =>
    obtain ⟨t, ns⟩ := tn
    rw [hd] at he
    dsimp only at he ⊢
    have htm := dispatchTemplate_mem s fargs t ns hd
    cases hi : instantiate ns t with
    | error e =>
      rw [hi] at he
      cases e with
      | cliError => exact Or.inl rfl
      | crash x => rcases he with he | he <;> simp at he
      | unsupported x => rcases he with he | he <;> simp at he
    | ok c =>
      rw [hi] at he
      dsimp only at he ⊢
      have hfn : evalFns.contains c.fn = true := by
        have hcf : c.fn = t.fn := by
          unfold instantiate at hi
          split at hi
          · split at hi <;> cases hi
          · split at hi
            · cases hi
            · split at hi
              · cases hi; rfl
              · cases hi
        rw [hcf]
        unfold outcomeCovered at hc
        simp only [Bool.and_eq_true] at hc
        have h5 := hc.2
        split at h5
        · rename_i t0 hts
          rw [hts] at htm
          simp at htm
          subst htm
          simp only [Bool.and_eq_true] at h5
          exact h5.2
        · cases h5
      have hG : evalCallG env ns c = none := by
        unfold evalCallG
        have := numeric_not_graph c.fn (by simpa using hfn)
        cases hl : gHandlers.lookup c.fn with
        | none => rfl
        | some f => rw [hl] at this; simp at this
      cases hev : evalCall c with
      | none => rw [hev] at he; rcases he with he | he <;> simp at he
      | some r0 =>
        rw [ctext_evalCall_of_F g c] at hev
        cases hF : evalCallF g c with
        | none => rw [hF] at hev; simp at hev
        | some r =>
          right
          refine ⟨r, c, ?_, hF⟩
          unfold evalCallAny
          rw [hG, hF]
          rfl

/-- T-C18.T6 A WHOLE LINE, NO HYPOTHESIS ON THE BASE FORMULA.  `<numeric sub-command> <tokens> -T <chunk> -T …` with the
formula part one of the nine numeric sub-commands of `end_to_end` on ANY tokens of the fragment, and every chunk empty,
`none`, or one of the thirteen substitutions on ANY tokens of the fragment: the model answers, and the run ends in `ok` or
in a `cliError`.  The well-formedness of the base formula is derived (`mapped_formula_wf`), the totality of the chain
parser and of the chain is `parseChain_total` / `runChain_total`.  (`henv`: the bipartite graphs of the environment
are well formed — not used by these chunks, a hypothesis of `chain_clean`.) -/
theorem line_never_escapes_numeric (env : GraphEnv) (henv : ∀ i t B, env.bip i t = some B → BipWF B)
    (line : List String) (name : String) (fargs : List String) (tcmds : List (List String))
    (hsplit : splitT line = (name :: fargs) :: tcmds) (h : HelperSpec) (s : CliSpec)
    (hfind : helpers.find? (fun h => h.kind == "formula" && h.name == name) = some h)
    (hspec : specOf h = some s) (hc : outcomeCovered s = true) (hf : inFragment s fargs = true)
    (hch : ∀ ch ∈ tcmds, ChunkCovered ch) :
    cliOutcomeLine env line = some .ok ∨ cliOutcomeLine env line = some .cliError := by
  have hbf := buildFormula_numeric env ⟨1, 0, [[], []], []⟩ name fargs h s hfind hspec hc hf
  have hpc := parseChain_total tcmds hch
  -- the model answers
  have htot : ∃ o, cliOutcomeLine env line = some o := by
    unfold cliOutcomeLine cliLineCNF
    rw [hsplit]
    dsimp only
    rcases hbf with hb | ⟨r, c, hb, _⟩ <;> rcases hpc with hp | ⟨ts, hp, hts⟩ <;> rw [hb, hp]
    · exact ⟨_, rfl⟩
    · exact ⟨_, rfl⟩
    · exact ⟨_, rfl⟩
    · dsimp only
      cases r with
      | error e => exact ⟨_, rfl⟩
      | ok F =>
        dsimp only
        obtain ⟨rc, hrc⟩ := runChain_total env ts F.toCNF hts
        rw [hrc]
        cases rc <;> exact ⟨_, rfl⟩
  obtain ⟨o, ho⟩ := htot
  have := line_never_escapes_partial env henv line o ho
    (fun fcmd' tcmds' F hs' hb' => by
      rw [hsplit] at hs'
      simp only [List.cons.injEq] at hs'
      obtain ⟨rfl, _⟩ := hs'
      rcases hbf with hb | ⟨r, c, hb, hF⟩
      · rw [hb] at hb'; cases hb'
      · rw [hb] at hb'
        simp only [Option.some.injEq, Except.ok.injEq, Built.result.injEq] at hb'
        subst hb'
        exact mapped_formula_wf _ graphOK_one c F hF)
    (fun fcmd' tcmds' e hs' hb' => by
      rw [hsplit] at hs'
      simp only [List.cons.injEq] at hs'
      obtain ⟨rfl, _⟩ := hs'
      rcases hbf with hb | ⟨r, c, hb, hF⟩
      · rw [hb] at hb'; cases hb'
      · rw [hb] at hb'
        simp only [Option.some.injEq, Except.ok.injEq, Built.result.injEq] at hb'
        subst hb'
        have h1 : evalCall c = some (forget (Except.error e : Except Err Formula)) := by
          rw [ctext_evalCall_of_F ⟨1, 0, [[], []], []⟩ c, hF]; rfl
        rcases evalCall_clean c _ h1 with h2 | h2
        · simp [forget, Except.map] at h2
        · simpa [forget, Except.map] using h2)
  rcases this with rfl | rfl
  · exact Or.inl ho
  · exact Or.inr ho

/-- the hypotheses are satisfiable, and the conclusion is what the model computes -/
example : cliOutcomeLine detEnv ["php", "x", "-T", "xor", "2"] = some .cliError := by decide +kernel
example : cliOutcomeLine detEnv ["bphp", "3", "2", "-T", "xor", "2", "-T", "none", "-T", "lift", "0"] =
    some .cliError := by decide +kernel
example : cliOutcomeLine detEnv ["bphp", "3", "2", "-T", "xor", "2", "-T", "none", "-T", "flip"] = some .ok := by
  decide +kernel
example : ChunkCovered ["xor", "2"] :=
  Or.inr (Or.inr ⟨"xor", ["2"], (helpers.find? (fun h => h.kind == "transformation" && h.name == "xor")).get
    (by decide +kernel), (cliSpecs.find? (fun s => s.kind == "transformation" && s.name == "xor")).get
    (by decide +kernel), rfl, by decide +kernel, by decide +kernel, by decide +kernel, by decide +kernel⟩)


end Cnfgen.C18
