/-
C18 (end to end, EVERY list of tokens) — `op`, `tseitin`, `php`, `subsetcard`: whatever is typed after the sub-command —
abbreviations, `--opt=v`, clusters, `--`, unknown options, `-h`, any number of tokens — and whatever the graph arguments
and the random choices of the helper turn out to be, the run ends in a formula, in a command-line error, or in the help
exit.  Never an escaping exception, never an internal bug, never "outside the model".

`cliOutcomeX` (CnfgenModel/Cli/OutcomeX.lean) = CPython's argparse on every token list (`parseX`, C17) ▸ the helper's
method over the regenerated call templates ▸ graphs (`GraphEnv`) and the helper's own random choices (`RandEnv`) ▸
family model ▸ `shield`.  Proofs: Lemmas/OutcomeX.lean (abstract interpretation over the worlds of the parser, a kind
invariant of the parsing engine), C17's `parser_total_all_tokens`.
-/
import Lemmas.OutcomeX
import Props.C18.Graphs
import Props.C17.Argparse
namespace Cnfgen.C18
open Cnfgen Cnfgen.Cli Cnfgen.Gen Cnfgen.GCli Cnfgen.GRand Cnfgen.Cli.AP

/-- the run ends in the help exit, a formula, or a command-line error -/
def EndsWell (r : Option EndX) : Prop :=
  r = some .help ∨ r = some (.done .ok) ∨ r = some (.done .cliError)

/-- T-C18.X1 every build step `evalCallX` maps — the random paths included — ends in a formula or a command-line error:
a refused graph argument and the ValueError of `bipartite_random_left_regular` are CLIErrors, the generators raise
nothing but ValueError -/
theorem mapped_x_steps_clean (re : RandEnv) (env : GraphEnv) (g : SimpleG) (ns : Ns) (c : Call) (bt : Cli.Built)
    (h : evalCallX re env g ns c = some bt) : bt.outcome = .ok ∨ bt.outcome = .cliError := by
  unfold evalCallX at h
  cases ha : evalCallAny env g ns c with
  | some b => rw [ha] at h; cases h; exact mapped_any_steps_clean env g ns c _ ha
  | none =>
    rw [ha] at h
    dsimp only at h
    unfold evalCallR at h
    split at h
    · split at h
      · cases h
        split
        · exact Or.inr rfl
        · exact Or.inl rfl
      · cases h
    · split at h
      · split at h
        · cases h
          split
          · exact Or.inr rfl
          · exact Or.inl rfl
        · cases h
      · split at h
        · split at h
          · cases h; exact withB_clean _ _ (fun B => ok_clean _)
          · cases h
        · split at h
          · split at h
            · cases h
              refine withD_clean _ _ (fun D => ?_)
              split
              · intro e he; cases he; rfl
              · exact sparseStone_clean D _
            · cases h
          · cases h

/-- the sub-commands whose parser is not made of standard options only: `php` (custom action) and the ones that go
through `compose_two_parsers`.  For all four: the option tables have the shape the derivation of the worlds assumes, and
in every world the helper takes a path that raises a shielded exception or makes a call `evalCallX` maps, with arguments
of the right sort at every position (checked over the regenerated tables). -/
theorem special_formula_commands :
    (cliSpecs.filter (fun s => s.kind == "formula" && s.supportedX && !(s.standard || s.inline))).map (·.name) =
      ["op", "php", "subsetcard", "tseitin"] := by decide +kernel

theorem special_worlds_mapped :
    (cliSpecs.filter (fun s => s.kind == "formula" && s.supportedX && !(s.standard || s.inline))).all
      (fun s => worldTablesOK s && mappedWorldsOK s) = true := by decide +kernel

/-- the run on the bindings of the parser, when the namespace belongs to a world -/
theorem runCallX_world (re : RandEnv) (env : GraphEnv) (g : SimpleG) (ord : List String → Nat) (s : CliSpec)
    (b : Ns) (w : World) (hw : w ∈ worlds s) (hg : gamW w (namespaceOf s b)) (hk : GKns s (namespaceOf s b))
    (hmw : mappedWorldsOK s = true) :
    (runCallX re env g ord s b = some (.done .ok) ∨ runCallX re env g ord s b = some (.done .cliError)) ∧
    (runCallX re env g ord s b = some (.done .ok) ↔
      ∃ t c bt, selectTemplate (namespaceOf s b) (s.templates.map (fixTemplate ord (namespaceOf s b))) = .ok t ∧
        instantiate (namespaceOf s b) t = .ok c ∧ evalCallX re env g (namespaceOf s b) c = some bt ∧
        bt.outcome = .ok) := by
  have hrun : arunG (callOK s) w s.templates [] = true := by
    unfold mappedWorldsOK at hmw
    exact (List.all_eq_true.1 hmw) w hw
  obtain ⟨t0, _, hsel, hP⟩ := arunG_sound ord w (namespaceOf s b) hg (callOK s)
    (PathOK re env g ord (namespaceOf s b))
    (fun w' t hw' hok => callOK_sound re env g ord s (namespaceOf s b) hk w' t hw' hok)
    s.templates [] (by intro p hp; simp at hp) hrun
  unfold runCallX
  dsimp only
  rw [hsel]
  dsimp only
  rcases hP with hc | ⟨c, hc, hsome⟩
  · rw [hc]
    refine ⟨Or.inr rfl, ?_⟩
    constructor
    · intro hh; cases hh
    · rintro ⟨t, c, bt, h1, h2, _⟩
      cases h1
      rw [hc] at h2; cases h2
  · rw [hc]
    dsimp only
    obtain ⟨bt, hbt⟩ := Option.isSome_iff_exists.1 hsome
    rw [hbt]
    dsimp only
    constructor
    · rcases mapped_x_steps_clean re env g _ c bt hbt with h1 | h1 <;> rw [h1] <;> simp
    · constructor
      · intro hh
        simp only [Option.some.injEq, EndX.done.injEq] at hh
        exact ⟨_, c, bt, rfl, hc, hbt, hh⟩
      · rintro ⟨t, c', bt', h1, h2, h3, h4⟩
        cases h1
        rw [hc] at h2; cases h2
        rw [hbt] at h3; cases h3
        rw [h4]

/-- the run on the bindings of the parser, when a single-argument option holds the empty list (the quirk of a second
`--`): a command-line error or a formula -/
theorem runCallX_quirk (re : RandEnv) (env : GraphEnv) (g : SimpleG) (ord : List String → Nat) (s : CliSpec)
    (b : Ns) (hq : hasQuirk s b = true)
    (hraise : ∀ t ∈ s.templates, (t.raises == "" || shielded t.raises) = true) :
    runCallX re env g ord s b = some (.done .ok) ∨ runCallX re env g ord s b = some (.done .cliError) := by
  unfold runCallX
  simp only [hq, if_true]
  cases hsel : selectTemplate (namespaceOf s b) (s.templates.map (fixTemplate ord (namespaceOf s b))) with
  | error e => exact Or.inr rfl
  | ok t =>
    dsimp only
    have htm := selectTemplate_mem _ _ t hsel
    obtain ⟨t0, ht0, rfl⟩ := List.mem_map.1 htm
    have hr : ((fixTemplate ord (namespaceOf s b) t0).raises == "" ||
        shielded (fixTemplate ord (namespaceOf s b) t0).raises) = true := hraise t0 ht0
    rcases instantiate_class (namespaceOf s b) _ hr with ⟨c, hc⟩ | hc | ⟨w, hc⟩
    · rw [hc]
      dsimp only
      cases hx : evalCallX re env g (namespaceOf s b) c with
      | none => exact Or.inr rfl
      | some bt =>
        dsimp only
        rcases mapped_x_steps_clean re env g _ c bt hx with h1 | h1 <;> rw [h1] <;> simp
    · rw [hc]; exact Or.inr rfl
    · rw [hc]; exact Or.inr rfl

/-- T-C18.X2 END TO END ON EVERY LIST OF TOKENS — `op`, `php`, `subsetcard`, `tseitin`.  For either tool, EVERY list
of tokens after the sub-command (no fragment hypothesis), every graph environment, every outcome of the helper's random
choices (`RandEnv`: the bits of the random charges, the graph or ValueError of `bipartite_random_left_regular`), every
order of a graph file: the run ends in the help exit, in a formula, or in a command-line error. -/
theorem end_to_end_special_all_tokens (re : RandEnv) (env : GraphEnv) (g : SimpleG) (tool : String)
    (ord : List String → Nat) (s : CliSpec) (hs : s ∈ cliSpecs) (hkind : s.kind = "formula")
    (hsx : s.supportedX = true) (hns : s.standard = false) (hni : s.inline = false) (argv : List String) :
    EndsWell (cliOutcomeX re env g tool ord s argv) := by
  have hchk := (List.all_eq_true.1 special_worlds_mapped) s
    (List.mem_filter.2 ⟨hs, by simp [hkind, hsx, hns, hni]⟩)
  simp only [Bool.and_eq_true] at hchk
  obtain ⟨htab, hmw⟩ := hchk
  obtain ⟨sp, ht⟩ := worldTables_of s htab
  unfold cliOutcomeX
  simp only [hsx, hni, Bool.not_true, Bool.false_eq_true, if_false]
  split
  · exact Or.inr (Or.inr rfl)
  · rcases C17.parser_total_all_tokens s hs hsx argv with ⟨b, hb⟩ | hb | hb
    · rw [hb]
      dsimp only
      by_cases hq : hasQuirk s b = true
      · rcases runCallX_quirk re env g ord s b hq ht.hraise with h | h <;> rw [h]
        · exact Or.inr (Or.inl rfl)
        · exact Or.inr (Or.inr rfl)
      · have hq' : hasQuirk s b = false := by simpa using hq
        obtain ⟨w, hw, hg⟩ := parseX_in_world s sp ht argv b hb hq'
        have hk := parseX_kind s htab sp ht argv b hb
        rcases (runCallX_world re env g ord s b w hw hg hk hmw).1 with h | h <;> rw [h]
        · exact Or.inr (Or.inl rfl)
        · exact Or.inr (Or.inr rfl)
    · rw [hb]; exact Or.inr (Or.inr rfl)
    · rw [hb]; exact Or.inl rfl

/-- … in particular `op` and `tseitin` (the two sub-commands `never_escapes_any_partial` left open), by name -/
theorem never_escapes_op_tseitin (re : RandEnv) (env : GraphEnv) (g : SimpleG) (tool : String)
    (ord : List String → Nat) (s : CliSpec) (hs : s ∈ cliSpecs) (hkind : s.kind = "formula")
    (hname : s.name = "op" ∨ s.name = "tseitin") (argv : List String) :
    EndsWell (cliOutcomeX re env g tool ord s argv) ∧
    cliOutcomeX re env g tool ord s argv ≠ some (.done .internalBug) ∧
    ∀ e, cliOutcomeX re env g tool ord s argv ≠ some (.done (.escaped e)) := by
  have hall : ∀ s' ∈ cliSpecs, s'.kind = "formula" → (s'.name = "op" ∨ s'.name = "tseitin") →
      s'.supportedX = true ∧ s'.standard = false ∧ s'.inline = false := by decide +kernel
  obtain ⟨h1, h2, h3⟩ := hall s hs hkind hname
  have := end_to_end_special_all_tokens re env g tool ord s hs hkind h1 h2 h3 argv
  refine ⟨this, ?_, ?_⟩
  · rcases this with h | h | h <;> rw [h] <;> simp
  · intro e
    rcases this with h | h | h <;> rw [h] <;> simp

/-- `ok` exactly when the helper's path is a library call whose build step returns a formula (no quirk of `--`) -/
theorem special_ok_iff (re : RandEnv) (env : GraphEnv) (g : SimpleG) (tool : String)
    (ord : List String → Nat) (s : CliSpec) (hs : s ∈ cliSpecs) (hkind : s.kind = "formula")
    (hsx : s.supportedX = true) (hns : s.standard = false) (hni : s.inline = false) (argv : List String) (b : Ns)
    (htop : topAmbiguous tool s.kind argv = false) (hb : parseX s argv = .ok b) (hq : hasQuirk s b = false) :
    cliOutcomeX re env g tool ord s argv = some (.done .ok) ↔
      ∃ t c bt, selectTemplate (namespaceOf s b) (s.templates.map (fixTemplate ord (namespaceOf s b))) = .ok t ∧
        instantiate (namespaceOf s b) t = .ok c ∧ evalCallX re env g (namespaceOf s b) c = some bt ∧
        bt.outcome = .ok := by
  have hchk := (List.all_eq_true.1 special_worlds_mapped) s
    (List.mem_filter.2 ⟨hs, by simp [hkind, hsx, hns, hni]⟩)
  simp only [Bool.and_eq_true] at hchk
  obtain ⟨htab, hmw⟩ := hchk
  obtain ⟨sp, ht⟩ := worldTables_of s htab
  obtain ⟨w, hw, hg⟩ := parseX_in_world s sp ht argv b hb hq
  have hk := parseX_kind s htab sp ht argv b hb
  have := (runCallX_world re env g ord s b w hw hg hk hmw).2
  unfold cliOutcomeX
  simp only [hsx, hni, htop, hb, Bool.not_true, Bool.false_eq_true, if_false]
  exact this

/-! ### concrete command lines -/

def specNamed (n : String) : Option CliSpec := cliSpecs.find? (fun s => s.kind == "formula" && s.name == n)

/-- the hypotheses of `end_to_end_special_all_tokens` are satisfiable -/
example : ∃ s ∈ cliSpecs, s.kind = "formula" ∧ s.supportedX = true ∧ s.standard = false ∧ s.inline = false :=
  ⟨(specNamed "op").get (by decide +kernel), by decide +kernel⟩

example : (specNamed "tseitin").bind (fun s => cliOutcomeX {} detEnv ⟨1, 0, [[], []], []⟩ "cnfgen" (fun _ => 3) s
    ["randomodd", "complete", "4"]) = some (.done .ok) := by decide +kernel
example : (specNamed "tseitin").bind (fun s => cliOutcomeX {} detEnv ⟨1, 0, [[], []], []⟩ "cnfgen" (fun _ => 3) s
    ["first", "complete", "4", "-h"]) = some .help := by decide +kernel
example : (specNamed "tseitin").bind (fun s => cliOutcomeX {} detEnv ⟨1, 0, [[], []], []⟩ "cnfgen" (fun _ => 3) s
    ["5", "3"]) = some (.done .cliError) := by decide +kernel
example : (specNamed "op").bind (fun s => cliOutcomeX {} detEnv ⟨1, 0, [[], []], []⟩ "cnfgen" (fun _ => 3) s
    ["--tot", "-p", "complete", "3"]) = some (.done .ok) := by decide +kernel
/-- `--total` and `--smart` exclude each other -/
example : (specNamed "op").bind (fun s => cliOutcomeX {} detEnv ⟨1, 0, [[], []], []⟩ "cnfgen" (fun _ => 3) s
    ["--tot", "-sp", "complete", "3"]) = some (.done .cliError) := by decide +kernel
example : (specNamed "op").bind (fun s => cliOutcomeX {} detEnv ⟨1, 0, [[], []], []⟩ "cnfgen" (fun _ => 3) s
    ["3", "--knuth2", "--knuth3"]) = some (.done .cliError) := by decide +kernel
example : (specNamed "php").bind (fun s => cliOutcomeX { lreg := fun l r _ => some (BipG.complete l.toNat r.toNat) }
    detEnv ⟨1, 0, [[], []], []⟩ "cnfgen" (fun _ => 3) s ["4", "3", "2", "--onto"]) = some (.done .ok) := by
  decide +kernel
example : (specNamed "php").bind (fun s => cliOutcomeX {} detEnv ⟨1, 0, [[], []], []⟩ "cnfgen" (fun _ => 3) s
    ["4", "3", "2"]) = some (.done .cliError) := by decide +kernel
example : (specNamed "subsetcard").bind (fun s => cliOutcomeX {} detEnv ⟨1, 0, [[], []], []⟩ "cnfgen" (fun _ => 3) s
    ["complete", "2", "3", "--eq"]) = some (.done .ok) := by decide +kernel

end Cnfgen.C18
