/-
C18 (end to end, EVERY list of tokens) — `op`, `tseitin`, `php`, `subsetcard`: whatever is typed after the sub-command —
abbreviations, `--opt=v`, clusters, `--`, unknown options, `-h`, any number of tokens — and whatever the graph arguments
and the random choices of the helper turn out to be, the run ends in a formula, in a command-line error, or in the help
exit.  Never an escaping exception, never an internal bug, never "outside the model".

`cliOutcomeX` (CnfgenModel/Cli/OutcomeX.lean) = CPython's argparse on every token list (`parseX`, C17) ▸ the helper's
method over the regenerated call templates ▸ graphs (`GraphEnv`) and the helper's own random choices (`RandEnv`) ▸
family model ▸ `shield`.  Proofs: Lemmas/OutcomeX.lean (abstract interpretation over the worlds of the parser, a kind
invariant of the parsing engine), C17's `parser_total_all_tokens`.
-/
import Lemmas.OutcomeX
import Props.C18.Graphs
import Props.C17.Argparse
import Props.C18.EndToEnd
namespace Cnfgen.C18
open Cnfgen Cnfgen.Cli Cnfgen.Gen Cnfgen.GCli Cnfgen.GRand Cnfgen.Cli.AP

/-- the run ends in the help exit, a formula, or a command-line error -/
def EndsWell (r : Option EndX) : Prop :=
  r = some .help ∨ r = some (.done .ok) ∨ r = some (.done .cliError)

/-- T-C18.X1 every build step `evalCallX` maps — the random paths included — ends in a formula or a command-line error:
a refused graph argument and the ValueError of `bipartite_random_left_regular` are CLIErrors, the generators raise
nothing but ValueError -/
theorem mapped_x_steps_clean (re : RandEnv) (env : GraphEnv) (g : SimpleG) (ns : Ns) (c : Call) (bt : Cli.Built)
    (h : evalCallX re env g ns c = some bt) : bt.outcome = .ok ∨ bt.outcome = .cliError := by
  unfold evalCallX at h
  cases ha : evalCallAny env g ns c with
  | some b => rw [ha] at h; cases h; exact mapped_any_steps_clean env g ns c _ ha
  | none =>
    rw [ha] at h
    dsimp only at h
    unfold evalCallR at h
    split at h
    · split at h
      · cases h
        split
        · exact Or.inr rfl
        · exact Or.inl rfl
      · cases h
    · split at h
      · split at h
        · cases h
          split
          · exact Or.inr rfl
          · exact Or.inl rfl
        · cases h
      · split at h
        · split at h
          · cases h; exact withB_clean _ _ (fun B => ok_clean _)
          · cases h
        · split at h
          · split at h
            · cases h
              refine withD_clean _ _ (fun D => ?_)
              split
              · intro e he; cases he; rfl
              · exact sparseStone_clean D _
            · cases h
          · cases h

/-- the sub-commands whose parser is not made of standard options only: `php` (custom action) and the ones that go
through `compose_two_parsers`.  For all four: the option tables have the shape the derivation of the worlds assumes, and
in every world the helper takes a path that raises a shielded exception or makes a call `evalCallX` maps, with arguments
of the right sort at every position (checked over the regenerated tables). -/
theorem special_formula_commands :
    (cliSpecs.filter (fun s => s.kind == "formula" && s.supportedX && !(s.standard || s.inline))).map (·.name) =
      ["op", "php", "subsetcard", "tseitin"] := by decide +kernel

theorem special_worlds_mapped :
    (cliSpecs.filter (fun s => s.kind == "formula" && s.supportedX && !(s.standard || s.inline))).all
      (fun s => worldTablesOK s && mappedWorldsOK s) = true := by decide +kernel

/-- the run on the bindings of the parser, when the namespace belongs to a world -/
theorem runCallX_world (re : RandEnv) (env : GraphEnv) (g : SimpleG) (ord : List String → Nat) (s : CliSpec)
    (b : Ns) (w : World) (hw : w ∈ worlds s) (hg : gamW w (namespaceOf s b)) (hk : GKns s (namespaceOf s b))
    (hmw : mappedWorldsOK s = true) :
    (runCallX re env g ord s b = some (.done .ok) ∨ runCallX re env g ord s b = some (.done .cliError)) ∧
    (runCallX re env g ord s b = some (.done .ok) ↔
      ∃ t c bt, selectTemplate (namespaceOf s b) (s.templates.map (fixTemplate ord (namespaceOf s b))) = .ok t ∧
        instantiate (namespaceOf s b) t = .ok c ∧ evalCallX re env g (namespaceOf s b) c = some bt ∧
        bt.outcome = .ok) := by
  have hrun : arunG (callOK s) w s.templates [] = true := by
    unfold mappedWorldsOK at hmw
    exact (List.all_eq_true.1 hmw) w hw
  obtain ⟨t0, _, hsel, hP⟩ := arunG_sound ord w (namespaceOf s b) hg (callOK s)
    (PathOK re env g ord (namespaceOf s b))
    (fun w' t hw' hok => callOK_sound re env g ord s (namespaceOf s b) hk w' t hw' hok)
    s.templates [] (by intro p hp; simp at hp) hrun
  unfold runCallX
  dsimp only
  rw [hsel]
  dsimp only
  rcases hP with hc | ⟨c, hc, hsome⟩
  · rw [hc]
    refine ⟨Or.inr rfl, ?_⟩
    constructor
    · intro hh; cases hh
    · rintro ⟨t, c, bt, h1, h2, _⟩
      cases h1
      rw [hc] at h2; cases h2
  · rw [hc]
    dsimp only
    obtain ⟨bt, hbt⟩ := Option.isSome_iff_exists.1 hsome
    rw [hbt]
    dsimp only
    constructor
    · rcases mapped_x_steps_clean re env g _ c bt hbt with h1 | h1 <;> rw [h1] <;> simp
    · constructor
      · intro hh
        simp only [Option.some.injEq, EndX.done.injEq] at hh
        exact ⟨_, c, bt, rfl, hc, hbt, hh⟩
      · rintro ⟨t, c', bt', h1, h2, h3, h4⟩
        cases h1
        rw [hc] at h2; cases h2
        rw [hbt] at h3; cases h3
        rw [h4]

/-- the run on the bindings of the parser, when a single-argument option holds the empty list (the quirk of a second
`--`): a command-line error or a formula -/
theorem runCallX_quirk (re : RandEnv) (env : GraphEnv) (g : SimpleG) (ord : List String → Nat) (s : CliSpec)
    (b : Ns) (hq : hasQuirk s b = true)
    (hraise : ∀ t ∈ s.templates, (t.raises == "" || shielded t.raises) = true) :
    runCallX re env g ord s b = some (.done .ok) ∨ runCallX re env g ord s b = some (.done .cliError) := by
  unfold runCallX
  simp only [hq, if_true]
  cases hsel : selectTemplate (namespaceOf s b) (s.templates.map (fixTemplate ord (namespaceOf s b))) with
  | error e => exact Or.inr rfl
  | ok t =>
    dsimp only
    have htm := selectTemplate_mem _ _ t hsel
    obtain ⟨t0, ht0, rfl⟩ := List.mem_map.1 htm
    have hr : ((fixTemplate ord (namespaceOf s b) t0).raises == "" ||
        shielded (fixTemplate ord (namespaceOf s b) t0).raises) = true := hraise t0 ht0
    rcases instantiate_class (namespaceOf s b) _ hr with ⟨c, hc⟩ | hc | ⟨w, hc⟩
    · rw [hc]
      dsimp only
      cases hx : evalCallX re env g (namespaceOf s b) c with
      | none => exact Or.inr rfl
      | some bt =>
        dsimp only
        rcases mapped_x_steps_clean re env g _ c bt hx with h1 | h1 <;> rw [h1] <;> simp
    · rw [hc]; exact Or.inr rfl
    · rw [hc]; exact Or.inr rfl

/-- T-C18.X2 END TO END ON EVERY LIST OF TOKENS — `op`, `php`, `subsetcard`, `tseitin`.  For either tool, EVERY list
of tokens after the sub-command (no fragment hypothesis), every graph environment, every outcome of the helper's random
choices (`RandEnv`: the bits of the random charges, the graph or ValueError of `bipartite_random_left_regular`), every
order of a graph file: the run ends in the help exit, in a formula, or in a command-line error. -/
theorem end_to_end_special_all_tokens (re : RandEnv) (env : GraphEnv) (g : SimpleG) (tool : String)
    (ord : List String → Nat) (s : CliSpec) (hs : s ∈ cliSpecs) (hkind : s.kind = "formula")
    (hsx : s.supportedX = true) (hns : s.standard = false) (hni : s.inline = false) (argv : List String) :
    EndsWell (cliOutcomeX re env g tool ord s argv) := by
  have hchk := (List.all_eq_true.1 special_worlds_mapped) s
    (List.mem_filter.2 ⟨hs, by simp [hkind, hsx, hns, hni]⟩)
  simp only [Bool.and_eq_true] at hchk
  obtain ⟨htab, hmw⟩ := hchk
  obtain ⟨sp, ht⟩ := worldTables_of s htab
  unfold cliOutcomeX
  simp only [hsx, hni, Bool.not_true, Bool.false_eq_true, if_false]
  split
  · exact Or.inr (Or.inr rfl)
  · rcases C17.parser_total_all_tokens s hs hsx argv with ⟨b, hb⟩ | hb | hb
    · rw [hb]
      dsimp only
      by_cases hq : hasQuirk s b = true
      · rcases runCallX_quirk re env g ord s b hq ht.hraise with h | h <;> rw [h]
        · exact Or.inr (Or.inl rfl)
        · exact Or.inr (Or.inr rfl)
      · have hq' : hasQuirk s b = false := by simpa using hq
        obtain ⟨w, hw, hg⟩ := parseX_in_world s sp ht argv b hb hq'
        have hk := parseX_kind s htab sp ht argv b hb
        rcases (runCallX_world re env g ord s b w hw hg hk hmw).1 with h | h <;> rw [h]
        · exact Or.inr (Or.inl rfl)
        · exact Or.inr (Or.inr rfl)
    · rw [hb]; exact Or.inr (Or.inr rfl)
    · rw [hb]; exact Or.inl rfl

/-- … in particular `op` and `tseitin` (the two sub-commands `never_escapes_any_partial` left open), by name -/
theorem never_escapes_op_tseitin (re : RandEnv) (env : GraphEnv) (g : SimpleG) (tool : String)
    (ord : List String → Nat) (s : CliSpec) (hs : s ∈ cliSpecs) (hkind : s.kind = "formula")
    (hname : s.name = "op" ∨ s.name = "tseitin") (argv : List String) :
    EndsWell (cliOutcomeX re env g tool ord s argv) ∧
    cliOutcomeX re env g tool ord s argv ≠ some (.done .internalBug) ∧
    ∀ e, cliOutcomeX re env g tool ord s argv ≠ some (.done (.escaped e)) := by
  have hall : ∀ s' ∈ cliSpecs, s'.kind = "formula" → (s'.name = "op" ∨ s'.name = "tseitin") →
      s'.supportedX = true ∧ s'.standard = false ∧ s'.inline = false := by decide +kernel
  obtain ⟨h1, h2, h3⟩ := hall s hs hkind hname
  have := end_to_end_special_all_tokens re env g tool ord s hs hkind h1 h2 h3 argv
  refine ⟨this, ?_, ?_⟩
  · rcases this with h | h | h <;> rw [h] <;> simp
  · intro e
    rcases this with h | h | h <;> rw [h] <;> simp

/-- `ok` exactly when the helper's path is a library call whose build step returns a formula (no quirk of `--`) -/
theorem special_ok_iff (re : RandEnv) (env : GraphEnv) (g : SimpleG) (tool : String)
    (ord : List String → Nat) (s : CliSpec) (hs : s ∈ cliSpecs) (hkind : s.kind = "formula")
    (hsx : s.supportedX = true) (hns : s.standard = false) (hni : s.inline = false) (argv : List String) (b : Ns)
    (htop : topAmbiguous tool s.kind argv = false) (hb : parseX s argv = .ok b) (hq : hasQuirk s b = false) :
    cliOutcomeX re env g tool ord s argv = some (.done .ok) ↔
      ∃ t c bt, selectTemplate (namespaceOf s b) (s.templates.map (fixTemplate ord (namespaceOf s b))) = .ok t ∧
        instantiate (namespaceOf s b) t = .ok c ∧ evalCallX re env g (namespaceOf s b) c = some bt ∧
        bt.outcome = .ok := by
  have hchk := (List.all_eq_true.1 special_worlds_mapped) s
    (List.mem_filter.2 ⟨hs, by simp [hkind, hsx, hns, hni]⟩)
  simp only [Bool.and_eq_true] at hchk
  obtain ⟨htab, hmw⟩ := hchk
  obtain ⟨sp, ht⟩ := worldTables_of s htab
  obtain ⟨w, hw, hg⟩ := parseX_in_world s sp ht argv b hb hq
  have hk := parseX_kind s htab sp ht argv b hb
  have := (runCallX_world re env g ord s b w hw hg hk hmw).2
  unfold cliOutcomeX
  simp only [hsx, hni, htop, hb, Bool.not_true, Bool.false_eq_true, if_false]
  exact this

/-! ### concrete command lines -/

def specNamed (n : String) : Option CliSpec := cliSpecs.find? (fun s => s.kind == "formula" && s.name == n)

/-- the hypotheses of `end_to_end_special_all_tokens` are satisfiable -/
example : ∃ s ∈ cliSpecs, s.kind = "formula" ∧ s.supportedX = true ∧ s.standard = false ∧ s.inline = false :=
  ⟨(specNamed "op").get (by decide +kernel), by decide +kernel⟩

example : (specNamed "tseitin").bind (fun s => cliOutcomeX {} detEnv ⟨1, 0, [[], []], []⟩ "cnfgen" (fun _ => 3) s
    ["randomodd", "complete", "4"]) = some (.done .ok) := by decide +kernel
example : (specNamed "tseitin").bind (fun s => cliOutcomeX {} detEnv ⟨1, 0, [[], []], []⟩ "cnfgen" (fun _ => 3) s
    ["first", "complete", "4", "-h"]) = some .help := by decide +kernel
example : (specNamed "tseitin").bind (fun s => cliOutcomeX {} detEnv ⟨1, 0, [[], []], []⟩ "cnfgen" (fun _ => 3) s
    ["5", "3"]) = some (.done .cliError) := by decide +kernel
example : (specNamed "op").bind (fun s => cliOutcomeX {} detEnv ⟨1, 0, [[], []], []⟩ "cnfgen" (fun _ => 3) s
    ["--tot", "-p", "complete", "3"]) = some (.done .ok) := by decide +kernel
/-- `--total` and `--smart` exclude each other -/
example : (specNamed "op").bind (fun s => cliOutcomeX {} detEnv ⟨1, 0, [[], []], []⟩ "cnfgen" (fun _ => 3) s
    ["--tot", "-sp", "complete", "3"]) = some (.done .cliError) := by decide +kernel
example : (specNamed "op").bind (fun s => cliOutcomeX {} detEnv ⟨1, 0, [[], []], []⟩ "cnfgen" (fun _ => 3) s
    ["3", "--knuth2", "--knuth3"]) = some (.done .cliError) := by decide +kernel
example : (specNamed "php").bind (fun s => cliOutcomeX { lreg := fun l r _ => some (BipG.complete l.toNat r.toNat) }
    detEnv ⟨1, 0, [[], []], []⟩ "cnfgen" (fun _ => 3) s ["4", "3", "2", "--onto"]) = some (.done .ok) := by
  decide +kernel
example : (specNamed "php").bind (fun s => cliOutcomeX {} detEnv ⟨1, 0, [[], []], []⟩ "cnfgen" (fun _ => 3) s
    ["4", "3", "2"]) = some (.done .cliError) := by decide +kernel
example : (specNamed "subsetcard").bind (fun s => cliOutcomeX {} detEnv ⟨1, 0, [[], []], []⟩ "cnfgen" (fun _ => 3) s
    ["complete", "2", "3", "--eq"]) = some (.done .ok) := by decide +kernel

/-! ## ONE theorem for the formula sub-commands: `cli_never_escapes_all`

For 30 of the 33 formula sub-commands of `cnfgen` / `pbgen`, whatever the graph environment, the random choices of the
helper and the order of a graph file: the run (`cliOutcomeX`, CnfgenModel/Cli/OutcomeX.lean: CPython's argparse, the
helper's method over the regenerated templates, the family models, `shield`) ends in the help exit, in a formula or in a
command-line error.
  * `op php subsetcard tseitin` and the inline `and or true false`: EVERY list of tokens;
  * the 22 sub-commands with standard options (`end_to_end`, `end_to_end_graph` transported through C17's refinement
    `extended_refines_fragment`; `stone` with its `--sparse` path and `vdw` proved here): every token list of the argparse fragment of Cli/Dispatch.lean (exact option strings).
Excluded, and why (`excluded_formula_commands`): `dimacs` (reads a file: the outcome is that of the DIMACS reader, C06 /
C14), `randkcnf` `randkxor` (random formulas: C13 / C07 — `Cli/Run.lean`).
-/

/-! ### the inline helpers: every list of tokens -/

theorem inlineEnd_total (cls : String) (hcls : cls = "AND" ∨ cls = "OR" ∨ cls = "TRUE" ∨ cls = "FALSE") (ns : Ns)
    (h : Answers (inlineBuild cls ns)) : EndsWell (inlineEnd cls ns) := by
  unfold inlineEnd
  rcases h with ⟨bt, hb⟩ | hb | hb
  · rw [hb]
    have : ∃ n cs, bt = .formula n cs := by
      unfold inlineBuild at hb
      rcases hcls with rfl | rfl | rfl | rfl
      · simp only [beq_self_eq_true, if_true] at hb
        split at hb <;> simp at hb
        exact ⟨_, _, hb.symm⟩
      · simp only [show ("OR" == "AND") = false by decide, Bool.false_eq_true, if_false, beq_self_eq_true,
          if_true] at hb
        split at hb <;> simp at hb
        exact ⟨_, _, hb.symm⟩
      · simp only [show ("TRUE" == "AND") = false by decide, show ("TRUE" == "OR") = false by decide,
          Bool.false_eq_true, if_false, beq_self_eq_true, if_true] at hb
        simp at hb
        exact ⟨_, _, hb.symm⟩
      · simp only [show ("FALSE" == "AND") = false by decide, show ("FALSE" == "OR") = false by decide,
          show ("FALSE" == "TRUE") = false by decide, Bool.false_eq_true, if_false, beq_self_eq_true,
          if_true] at hb
        simp at hb
        exact ⟨_, _, hb.symm⟩
    obtain ⟨n, cs, rfl⟩ := this
    exact Or.inr (Or.inl rfl)
  · rw [hb]; exact Or.inr (Or.inr rfl)
  · rw [hb]; exact Or.inl rfl

/-- the inline helpers with a hand-written model of the formula they build -/
def inlineCovered (s : CliSpec) : Bool :=
  s.inline && (s.cls == "AND" || s.cls == "OR" || s.cls == "TRUE" || s.cls == "FALSE")

theorem end_to_end_inline_all_tokens (re : RandEnv) (env : GraphEnv) (g : SimpleG) (tool : String)
    (ord : List String → Nat) (s : CliSpec) (hs : s ∈ cliSpecs) (hc : inlineCovered s = true) (argv : List String) :
    EndsWell (cliOutcomeX re env g tool ord s argv) := by
  unfold inlineCovered at hc
  simp only [Bool.and_eq_true, Bool.or_eq_true, beq_iff_eq] at hc
  obtain ⟨hin, hcls⟩ := hc
  have hsx : s.supportedX = true := by unfold CliSpec.supportedX; simp [hin]
  have ht := C17.dispatch_total_all_tokens tool ord s hs (Or.inr hin) argv
  unfold dispatchSpecX at ht
  unfold cliOutcomeX
  simp only [hsx, Bool.not_true, Bool.false_eq_true, if_false] at ht ⊢
  split
  · exact Or.inr (Or.inr rfl)
  · rename_i htop
    simp only [htop, Bool.false_eq_true, if_false] at ht
    rcases C17.parser_total_all_tokens s hs hsx argv with ⟨b, hb⟩ | hb | hb
    · rw [hb] at ht ⊢
      simp only [hin, if_true] at ht ⊢
      exact inlineEnd_total s.cls (by
        rcases hcls with ((h | h) | h) | h
        · exact Or.inl h
        · exact Or.inr (Or.inl h)
        · exact Or.inr (Or.inr (Or.inl h))
        · exact Or.inr (Or.inr (Or.inr h))) _ ht
    · rw [hb]; exact Or.inr (Or.inr rfl)
    · rw [hb]; exact Or.inl rfl

/-! ### standard options: transport from the fragment interpreter -/

/-- on a token list of the fragment, the extended run of a sub-command with standard options ends well as soon as the
path the helper takes raises a shielded exception or makes a call `evalCallX` answers on -/
theorem standard_endsWell (re : RandEnv) (env : GraphEnv) (g : SimpleG) (tool : String) (ord : List String → Nat)
    (s : CliSpec) (hs : s ∈ cliSpecs) (hstd : s.standard = true) (argv : List String)
    (hf : inFragment s argv = true)
    (hpath : ∀ b, parseArgs s argv = .ok b → ∃ t, selectTemplate (namespaceOf s b) s.templates = .ok t ∧
      (instantiate (namespaceOf s b) t = .error .cliError ∨
        ∃ c, instantiate (namespaceOf s b) t = .ok c ∧ (evalCallX re env g (namespaceOf s b) c).isSome = true)) :
    EndsWell (cliOutcomeX re env g tool ord s argv) := by
  have h := (List.all_eq_true.1 C17.standard_tables_comparable) s (List.mem_filter.2 ⟨hs, hstd⟩)
  simp only [Bool.and_eq_true, Bool.not_eq_true'] at h
  obtain ⟨⟨hfrag, hof⟩, hni⟩ := h
  have hsx : s.supportedX = true := by unfold CliSpec.supportedX CliSpec.supported; simp [hstd]
  have hmap : ∀ ns, s.templates.map (fixTemplate ord ns) = s.templates := by
    intro ns
    conv => rhs; rw [← List.map_id s.templates]
    exact List.map_congr_left (fun t ht => fixTemplate_id ord ns t ((List.all_eq_true.1 hof) t ht))
  unfold cliOutcomeX
  simp only [hsx, hni, Bool.not_true, Bool.false_eq_true, if_false]
  split
  · exact Or.inr (Or.inr rfl)
  · rw [parseX_refines s hstd hfrag argv hf]
    rcases parseArgs_total s hstd argv hf with ⟨b, hb⟩ | hb
    · rw [hb]
      simp only [liftE]
      obtain ⟨t, hsel, hins⟩ := hpath b hb
      unfold runCallX
      dsimp only
      rw [hmap, hsel]
      dsimp only
      rcases hins with hi | ⟨c, hi, hsome⟩
      · rw [hi]; exact Or.inr (Or.inr rfl)
      · rw [hi]
        dsimp only
        obtain ⟨bt, hbt⟩ := Option.isSome_iff_exists.1 hsome
        rw [hbt]
        dsimp only
        rcases mapped_x_steps_clean re env g _ c bt hbt with h1 | h1 <;> rw [h1]
        · exact Or.inr (Or.inl rfl)
        · exact Or.inr (Or.inr rfl)
    · rw [hb]
      simp only [liftE, liftErr]
      exact Or.inr (Or.inr rfl)

theorem dispatchTemplate_select (s : CliSpec) (argv : List String) (b : Ns) (t : CallTemplate) (ns : Ns)
    (hb : parseArgs s argv = .ok b) (hd : dispatchTemplate s argv = .ok (t, ns)) :
    selectTemplate (namespaceOf s b) s.templates = .ok t := by
  unfold dispatchTemplate at hd
  split at hd
  · cases hd
  · rw [hb] at hd
    dsimp only at hd
    split at hd
    · cases hd
    · rename_i t' hsel
      cases hd
      exact hsel

/-- the sub-commands with graph arguments of `end_to_end_graph`, on the extended interpreter -/
theorem graph_endsWell (re : RandEnv) (env : GraphEnv) (g : SimpleG) (tool : String) (ord : List String → Nat)
    (s : CliSpec) (hs : s ∈ cliSpecs) (hc : graphCovered s = true) (argv : List String)
    (hf : inFragment s argv = true) : EndsWell (cliOutcomeX re env g tool ord s argv) := by
  have hc' := hc
  unfold graphCovered at hc'
  simp only [Bool.and_eq_true] at hc'
  obtain ⟨hstd, hall⟩ := hc'
  refine standard_endsWell re env g tool ord s hs hstd argv hf (fun b hb => ?_)
  obtain ⟨t, htm, hd, hor⟩ := og_path s hstd hs argv b hb env
  refine ⟨t, dispatchTemplate_select s argv b t _ hb hd, ?_⟩
  rcases hor ((List.all_eq_true.1 hall) t htm) with ⟨_, hi⟩ | ⟨c, hi, hsome⟩
  · exact Or.inl hi
  · refine Or.inr ⟨c, hi, evalCallX_isSome_of_any re env g _ c ?_⟩
    unfold evalCallAny
    obtain ⟨bt, hbt⟩ := Option.isSome_iff_exists.1 hsome
    rw [hbt]; rfl

/-- the numeric sub-commands of `end_to_end`, on the extended interpreter -/
theorem numeric_endsWell (re : RandEnv) (env : GraphEnv) (g : SimpleG) (tool : String) (ord : List String → Nat)
    (h : HelperSpec) (s : CliSpec) (hspec : specOf h = some s) (hc : outcomeCovered s = true) (argv : List String)
    (hf : inFragment s argv = true) : EndsWell (cliOutcomeX re env g tool ord s argv) := by
  have hs := specOf_mem h s hspec
  have hstd : s.standard = true := by
    have : ∀ s' ∈ cliSpecs, outcomeCovered s' = true → s'.standard = true := by decide +kernel
    exact this s hs hc
  have hsup : s.supported = true := by simpa using dtot_supported s hstd
  refine standard_endsWell re env g tool ord s hs hstd argv hf (fun b hb => ?_)
  have he := (end_to_end h s hspec hc argv hf).1
  unfold cliOutcome dispatch at he
  rw [hspec] at he
  unfold dispatchSpec dispatchTemplate at he
  simp only [hsup, Bool.not_true, Bool.false_eq_true, if_false, hb] at he
  cases hsel : selectTemplate (namespaceOf s b) s.templates with
  | error e =>
    rw [hsel] at he
    obtain ⟨w, rfl⟩ := selectTemplate_error _ _ _ hsel
    rcases he with he | he <;> simp at he
  | ok t =>
    rw [hsel] at he
    dsimp only at he
    refine ⟨t, rfl, ?_⟩
    cases hi : instantiate (namespaceOf s b) t with
    | error e =>
      rw [hi] at he
      cases e with
      | cliError => exact Or.inl rfl
      | crash x => rcases he with he | he <;> simp at he
      | unsupported x => rcases he with he | he <;> simp at he
    | ok c =>
      rw [hi] at he
      dsimp only at he
      refine Or.inr ⟨c, rfl, evalCallX_isSome_of_any re env g _ c ?_⟩
      cases hev : evalCall c with
      | none => rw [hev] at he; rcases he with he | he <;> simp at he
      | some r =>
        rw [ctext_evalCall_of_F g c] at hev
        unfold evalCallAny
        cases hg : evalCallG env (namespaceOf s b) c with
        | some bt => rfl
        | none =>
          cases hF : evalCallF g c with
          | none => rw [hF] at hev; simp at hev
          | some r' => rfl

/-! ### `stone`, the `--sparse` path included -/

/-- the path `SparseStoneFormula(D, bipartite_random_left_regular(D.order(), s, sparse))` as the proof reads it: taken
only when `args.sparse is not None`; `D` a DAG argument that is always bound, `s` a typed positional, `sparse` a typed
option whose default is `None` -/
def sparseShape (s : CliSpec) (t : CallTemplate) : Bool :=
  t.raises == "" && t.fn == "SparseStoneFormula" &&
  (match t.pos with | [.arg "D", .opaque _ _] => true | _ => false) &&
  (match t.kw with | [("formula_class", .name _)] => true | _ => false) &&
  (match t.guard with | .and (.and (.hasattr "sparse") (.isNotNone (.arg "sparse"))) _ => true | _ => false) &&
  og_graphBound s "dag" "D" && dtot_intBound s "s" && dtot_intOrNone s "sparse"

theorem stone_paths_x : ∀ s ∈ cliSpecs, s.name = "stone" →
    s.standard = true ∧ ∀ t ∈ s.templates, pathCovered s t = true ∨ sparseShape s t = true := by decide +kernel

/-- T-C18.X3 `stone`, EVERY path (`--sparse d` with `d ≤ s` included: the graph — or the ValueError — of
`bipartite_random_left_regular` comes from `RandEnv.lreg`): every token list of the fragment ends in a formula or a
command-line error -/
theorem end_to_end_stone_x (re : RandEnv) (env : GraphEnv) (g : SimpleG) (tool : String) (ord : List String → Nat)
    (s : CliSpec) (hs : s ∈ cliSpecs) (hname : s.name = "stone") (argv : List String)
    (hf : inFragment s argv = true) : EndsWell (cliOutcomeX re env g tool ord s argv) := by
  obtain ⟨hstd, hall⟩ := stone_paths_x s hs hname
  refine standard_endsWell re env g tool ord s hs hstd argv hf (fun b hb => ?_)
  obtain ⟨t, htm, hd, hor⟩ := og_path s hstd hs argv b hb env
  have hsel := dispatchTemplate_select s argv b t _ hb hd
  refine ⟨t, hsel, ?_⟩
  rcases hall t htm with hcov | hsp
  · rcases hor hcov with ⟨_, hi⟩ | ⟨c, hi, hsome⟩
    · exact Or.inl hi
    · refine Or.inr ⟨c, hi, evalCallX_isSome_of_any re env g _ c ?_⟩
      unfold evalCallAny
      obtain ⟨bt, hbt⟩ := Option.isSome_iff_exists.1 hsome
      rw [hbt]; rfl
  · unfold sparseShape at hsp
    simp only [Bool.and_eq_true, beq_iff_eq] at hsp
    obtain ⟨⟨⟨⟨⟨⟨⟨hr, hfn⟩, hpos⟩, hkw⟩, hgd⟩, hD⟩, hS⟩, hSp⟩ := hsp
    have hg := og_select_guard _ _ _ hsel
    obtain ⟨toks, hDv⟩ := og_graphBound_val s hstd argv b hb "dag" "D" hD
    obtain ⟨i, hSv⟩ := dtot_intBound_val s hstd argv b hb "s" hS
    obtain ⟨v, hv, hvor⟩ := dtot_intOrNone_val s hstd argv b hb "sparse" hSp
    obtain ⟨guard, raises, fn, pos, kw, eff⟩ := t
    dsimp only at hr hfn hpos hkw hgd hg
    subst hr hfn
    -- the guard says `args.sparse is not None`
    have hint : ∃ j, v = .int j := by
      rcases hvor with rfl | h
      · exfalso
        split at hgd
        · rename_i X
          simp [evalGuard, evalE, hv, truthy, isNoneV] at hg
        · cases hgd
      · exact h
    obtain ⟨j, rfl⟩ := hint
    split at hpos
    · rename_i src ds
      split at hkw
      · rename_i nm
        right
        refine ⟨⟨"SparseStoneFormula", [.graph "dag" toks, .opaque src], [("formula_class", .param nm)]⟩, ?_, ?_⟩
        · simp [instantiate, evalPos, evalKw, evalE, hDv]
        · apply evalCallX_isSome_of_R
          simp [evalCallR, hSv, hv]
      · cases hkw
    · cases hpos

/-! ### `vdw`: a `nargs='*'` positional -/

def vdwShape (s : CliSpec) (t : CallTemplate) : Bool :=
  t.raises == "" && t.fn == "VanDerWaerden" &&
  (match t.pos with | [.arg "N", .arg "k1", .arg "k2", .star (.arg "ks")] => true | _ => false) &&
  (match t.kw with | [("formula_class", .name _)] => true | _ => false) &&
  dtot_intBound s "N" && dtot_intBound s "k1" && dtot_intBound s "k2" && dtot_starDest s "ks"

theorem vdw_paths_x : ∀ s ∈ cliSpecs, s.name = "vdw" →
    s.standard = true ∧ ∀ t ∈ s.templates, vdwShape s t = true := by decide +kernel

theorem allInts_map_int (l : List Int) : allInts (l.map Val.int) = some l := by
  induction l with
  | nil => rfl
  | cons a r ih => simp [allInts, ih]

/-- T-C18.X4 `vdw N k1 k2 [k3 …]`: every token list of the fragment ends in a formula or a command-line error -/
theorem end_to_end_vdw_x (re : RandEnv) (env : GraphEnv) (g : SimpleG) (tool : String) (ord : List String → Nat)
    (s : CliSpec) (hs : s ∈ cliSpecs) (hname : s.name = "vdw") (argv : List String)
    (hf : inFragment s argv = true) : EndsWell (cliOutcomeX re env g tool ord s argv) := by
  obtain ⟨hstd, hall⟩ := vdw_paths_x s hs hname
  refine standard_endsWell re env g tool ord s hs hstd argv hf (fun b hb => ?_)
  obtain ⟨t, htm, hd, _hor⟩ := og_path s hstd hs argv b hb env
  have hsel := dispatchTemplate_select s argv b t _ hb hd
  refine ⟨t, hsel, ?_⟩
  have hsp := hall t htm
  unfold vdwShape at hsp
  simp only [Bool.and_eq_true, beq_iff_eq] at hsp
  obtain ⟨⟨⟨⟨⟨⟨⟨hr, hfn⟩, hpos⟩, hkw⟩, hN⟩, hk1⟩, hk2⟩, hks⟩ := hsp
  obtain ⟨n, hNv⟩ := dtot_intBound_val s hstd argv b hb "N" hN
  obtain ⟨k1, hk1v⟩ := dtot_intBound_val s hstd argv b hb "k1" hk1
  obtain ⟨k2, hk2v⟩ := dtot_intBound_val s hstd argv b hb "k2" hk2
  obtain ⟨l, hlv⟩ := dtot_starDest_val s hstd argv b hb "ks" hks
  obtain ⟨guard, raises, fn, pos, kw, eff⟩ := t
  dsimp only at hr hfn hpos hkw
  subst hr hfn
  split at hpos
  · split at hkw
    · rename_i nm
      right
      refine ⟨⟨"VanDerWaerden", .int n :: .int k1 :: .int k2 :: l.map Val.int, [("formula_class", .param nm)]⟩, ?_, ?_⟩
      · simp [instantiate, evalPos, evalKw, evalE, hNv, hk1v, hk2v, hlv]
      · apply evalCallX_isSome_of_any
        have : allInts (Val.int n :: Val.int k1 :: Val.int k2 :: l.map Val.int) = some (n :: k1 :: k2 :: l) := by
          simp [allInts, allInts_map_int]
        simp [evalCallAny, evalCallG, gHandlers, List.lookup, evalCallF, this]
    · cases hkw
  · cases hpos

/-! ### the theorem -/

/-- the formula sub-commands of `cli_never_escapes_all` -/
def coveredAll (s : CliSpec) : Bool :=
  s.kind == "formula" && s.supportedX &&
  (inlineCovered s || outcomeCovered s || graphCovered s || !(s.standard || s.inline) || s.name == "stone" ||
   s.name == "vdw")

theorem covered_formula_commands :
    (cliSpecs.filter coveredAll).map (·.name) =
      ["and", "bphp", "cliquecoloring", "count", "cpls", "domset", "ec", "false", "iso", "kclique", "kcliquebin",
       "kcolor", "matching", "op", "or", "parity", "peb", "php", "pitfall", "ptn", "ram", "ramlb", "rphp", "stone",
       "subgraph", "subsetcard", "tiling", "true", "tseitin", "vdw"] := by decide +kernel

/-- the formula sub-commands outside `cli_never_escapes_all` (see the head of this file for the reasons) -/
theorem excluded_formula_commands :
    (cliSpecs.filter (fun s => s.kind == "formula" && !coveredAll s)).map (·.name) =
      ["dimacs", "randkcnf", "randkxor"] := by decide +kernel

/-- the token lists the theorem speaks about: ALL of them for the inline helpers and for `op php subsetcard tseitin`;
those of the argparse fragment (exact option strings) for a sub-command with standard options -/
def tokensCovered (s : CliSpec) (argv : List String) : Bool := !s.standard || inFragment s argv

/-- T-C18.ALL.  For every tool, every covered formula sub-command (30 of 33: `covered_formula_commands`), every covered
token list, every graph environment, every outcome of the helper's random choices and every order of a graph file: the
run ends in the help exit, in a formula, or in a command-line error — no exception escapes, `cli()` reports no internal
bug, and the model always answers. -/
theorem cli_never_escapes_all (re : RandEnv) (env : GraphEnv) (g : SimpleG) (tool : String)
    (ord : List String → Nat) (h : HelperSpec) (s : CliSpec) (hspec : specOf h = some s)
    (hc : coveredAll s = true) (argv : List String) (hf : tokensCovered s argv = true) :
    cliOutcomeX re env g tool ord s argv = some .help ∨
    cliOutcomeX re env g tool ord s argv = some (.done .ok) ∨
    cliOutcomeX re env g tool ord s argv = some (.done .cliError) := by
  have hs := specOf_mem h s hspec
  unfold coveredAll at hc
  simp only [Bool.and_eq_true, Bool.or_eq_true, beq_iff_eq, Bool.not_eq_true'] at hc
  obtain ⟨⟨hkind, hsx⟩, hcls⟩ := hc
  have hfr : s.standard = true → inFragment s argv = true := by
    intro hstd
    unfold tokensCovered at hf
    simpa [hstd] using hf
  rcases hcls with ((((hi | hn) | hg) | hsp) | hst) | hvd
  · exact end_to_end_inline_all_tokens re env g tool ord s hs hi argv
  · have hstd : s.standard = true := by
      have : ∀ s' ∈ cliSpecs, outcomeCovered s' = true → s'.standard = true := by decide +kernel
      exact this s hs hn
    exact numeric_endsWell re env g tool ord h s hspec hn argv (hfr hstd)
  · have hstd : s.standard = true := by
      unfold graphCovered at hg
      simp only [Bool.and_eq_true] at hg
      exact hg.1
    exact graph_endsWell re env g tool ord s hs hg argv (hfr hstd)
  · simp only [Bool.or_eq_false_iff] at hsp
    exact end_to_end_special_all_tokens re env g tool ord s hs hkind hsx hsp.1 hsp.2 argv
  · exact end_to_end_stone_x re env g tool ord s hs hst argv (hfr (stone_paths_x s hs hst).1)
  · exact end_to_end_vdw_x re env g tool ord s hs hvd argv (hfr (vdw_paths_x s hs hvd).1)

/-- … in particular -/
theorem cli_never_escapes_all' (re : RandEnv) (env : GraphEnv) (g : SimpleG) (tool : String)
    (ord : List String → Nat) (h : HelperSpec) (s : CliSpec) (hspec : specOf h = some s)
    (hc : coveredAll s = true) (argv : List String) (hf : tokensCovered s argv = true) :
    cliOutcomeX re env g tool ord s argv ≠ none ∧
    cliOutcomeX re env g tool ord s argv ≠ some (.done .internalBug) ∧
    ∀ e, cliOutcomeX re env g tool ord s argv ≠ some (.done (.escaped e)) := by
  rcases cli_never_escapes_all re env g tool ord h s hspec hc argv hf with h1 | h1 | h1 <;> rw [h1] <;> simp

/-- the hypotheses are satisfiable: a standard sub-command on a line of the fragment, a composed one on any line -/
example : ∃ h s, specOf h = some s ∧ coveredAll s = true ∧ tokensCovered s ["3", "complete", "4"] = true :=
  ⟨(helpers.find? (fun h => h.name == "kcolor")).get (by decide +kernel),
   (cliSpecs.find? (fun s => s.name == "kcolor")).get (by decide +kernel), by decide +kernel⟩
example : ∃ h s, specOf h = some s ∧ coveredAll s = true ∧ tokensCovered s ["--he", "-x=3", "--", "-h"] = true :=
  ⟨(helpers.find? (fun h => h.name == "tseitin")).get (by decide +kernel),
   (cliSpecs.find? (fun s => s.name == "tseitin")).get (by decide +kernel), by decide +kernel⟩


end Cnfgen.C18
