/-
C18 / C17 — `php` (custom argparse action `PHPArgs`), end to end, and `dispatch` total on it.

`php <bipartite graph>`, `php N`, `php M N`, `php M N D`.  Proofs: Lemmas/OutcomePhp.lean (the action binds `B`, or
`degree`, `holes`, `pigeons` together; the three paths of `PHPCmdHelper.build_formula`).
-/
import Lemmas.OutcomePhp
import Props.C18.Graphs
namespace Cnfgen.C18
open Cnfgen Cnfgen.Cli Cnfgen.Gen

/-- the `php` sub-command the translator regenerates from the CURRENT source is the one the proofs below speak about
(a changed option, guard or argument of `PHPCmdHelper` breaks this) -/
theorem current_php_is_documented :
    cliSpecs.find? (fun s => s.name == "php" && s.kind == "formula") = some phpS := by decide +kernel

/-- T-C17.5c′ TOTALITY for `php` (the sub-command `C17.dispatch_total` leaves out: its options are not standard).
For EVERY command line of the fragment `dispatch` returns a library call or a CLIError — never `unsupported`, never
another exception. -/
theorem dispatch_total_php (h : HelperSpec) (hspec : specOf h = some phpS) (argv : List String)
    (hf : inFragment phpS argv = true) :
    (∃ c, dispatch h argv = .ok c) ∨ dispatch h argv = .error .cliError := by
  unfold dispatch
  rw [hspec]
  dsimp only
  unfold dispatchSpec
  rcases parseArgs_total_supported phpS (by decide) argv hf with ⟨b, hb⟩ | he
  · obtain ⟨x, y, hp⟩ := oph_paths argv b hb
    rcases hp with ⟨toks, _, h1, h2⟩ | ⟨pp, hh, _, _, h1, h2⟩ | ⟨h1, h2⟩ <;>
    · rw [h1]; dsimp only; rw [h2]; exact Or.inl ⟨_, rfl⟩
  · right
    unfold dispatchTemplate
    have hsup : (!phpS.supported) = false := by decide
    rw [hsup, he]
    rfl

/-- T-C18.G6 END TO END for `php`.  For EVERY token list of the fragment and EVERY graph environment the run

* ends in `ok` or in a `cliError`, or
* takes the path `php M N D` with `D ≠ N` (the helper draws a random left-regular bipartite graph itself: the model
  gives no outcome — observed by the correspondence of C17 and the oracle of C18);

and it ends in `ok` exactly when the parser accepts the tokens and either the argument is a bipartite graph that
`make_graph_from_spec` built, or the numbers select the plain principle (`php N`, `php M N`, `php M N N`) and are not
negative (the action refuses negative numbers itself, so this always holds — the theorem does not need it). -/
theorem end_to_end_php (env : GraphEnv) (h : HelperSpec) (hspec : specOf h = some phpS) (argv : List String)
    (hf : inFragment phpS argv = true) :
    (cliOutcomeG env h argv = some .ok ∨ cliOutcomeG env h argv = some .cliError ∨
      (cliOutcomeG env h argv = none ∧ ∃ ns, dispatchTemplate phpS argv = .ok (phpT3, ns))) ∧
    (cliOutcomeG env h argv = some .ok ↔
      (∃ ns toks, dispatchTemplate phpS argv = .ok (phpT1, ns) ∧
        ns.lookup "B" = some (.graph "bipartite" toks) ∧ (env.bip 0 toks).isSome = true) ∨
      (∃ ns pp hh, dispatchTemplate phpS argv = .ok (phpT2, ns) ∧ ns.lookup "pigeons" = some (.int pp) ∧
        ns.lookup "holes" = some (.int hh) ∧ 0 ≤ pp ∧ 0 ≤ hh)) := by
  rcases parseArgs_total_supported phpS (by decide) argv hf with ⟨b, hb⟩ | he
  · obtain ⟨x, y, hp⟩ := oph_paths argv b hb
    rcases hp with ⟨toks, hlook, h1, h2⟩ | ⟨pp, hh, hl1, hl2, h1, h2⟩ | ⟨h1, h2⟩
    · -- the graph form
      rw [oph_outcome env h phpS hspec argv _ _ _ h1 h2, oph_eval1]
      cases hg : env.bip 0 toks with
      | none =>
        refine ⟨Or.inr (Or.inl rfl), ?_⟩
        constructor
        · intro hh; cases hh
        · rintro (⟨ns, toks', hd, hl, hs⟩ | ⟨ns, _, _, hd, _⟩)
          · rw [h1] at hd
            cases hd
            rw [hlook] at hl
            cases hl
            rw [hg] at hs; cases hs
          · rw [h1] at hd; cases hd
      | some B =>
        refine ⟨Or.inl rfl, ?_⟩
        constructor
        · intro _
          exact Or.inl ⟨_, toks, h1, hlook, by rw [hg]; rfl⟩
        · intro _; rfl
    · -- the plain principle
      rw [oph_outcome env h phpS hspec argv _ _ _ h1 h2, oph_eval2]
      simp only [Option.map_some, Option.some.injEq]
      rcases dout_php pp hh x y with ⟨he, hnot⟩ | ⟨⟨F, hF⟩, hpre⟩
      · rw [he]
        refine ⟨Or.inr (Or.inl rfl), ?_⟩
        constructor
        · intro hc; cases hc
        · rintro (⟨ns, toks', hd, _⟩ | ⟨ns, pp', hh', hd, hl1', hl2', hpos⟩)
          · rw [h1] at hd; cases hd
          · rw [h1] at hd
            cases hd
            rw [hl1] at hl1'; rw [hl2] at hl2'
            cases hl1'; cases hl2'
            exact absurd hpos hnot
      · rw [hF]
        refine ⟨Or.inl rfl, ?_⟩
        constructor
        · intro _
          exact Or.inr ⟨_, pp, hh, h1, hl1, hl2, hpre⟩
        · intro _; rfl
    · -- `php M N D`, D ≠ N
      rw [oph_outcome env h phpS hspec argv _ _ _ h1 h2, oph_eval3]
      refine ⟨Or.inr (Or.inr ⟨rfl, _, h1⟩), ?_⟩
      constructor
      · intro hh; cases hh
      · rintro (⟨ns, toks', hd, _⟩ | ⟨ns, _, _, hd, _⟩) <;> (rw [h1] at hd; cases hd)
  · have hd : dispatchTemplate phpS argv = .error .cliError := by
      unfold dispatchTemplate
      have hsup : (!phpS.supported) = false := by decide
      rw [hsup, he]
      rfl
    rw [oph_outcome_err env h phpS hspec argv hd]
    refine ⟨Or.inr (Or.inl rfl), ?_⟩
    constructor
    · intro hh; cases hh
    · rintro (⟨ns, toks', hd', _⟩ | ⟨ns, _, _, hd', _⟩) <;> (rw [hd] at hd'; cases hd')

/-- the hypotheses are satisfiable: the helper of `php` has exactly this specification, and `3 2` is in the fragment -/
example : (helpers.find? (fun h => h.kind == "formula" && h.name == "php")).bind specOf = some phpS ∧
    inFragment phpS ["3", "2", "--functional"] = true := by decide +kernel

example : (helpers.find? (fun h => h.name == "php")).bind (fun h => cliOutcomeG detEnv h ["3", "2"]) = some .ok := by
  decide +kernel
example : (helpers.find? (fun h => h.name == "php")).bind (fun h => cliOutcomeG detEnv h ["3", "2", "1"]) = none := by
  decide +kernel
example : (helpers.find? (fun h => h.name == "php")).bind (fun h => cliOutcomeG detEnv h ["3", "-2"]) =
    some .cliError := by decide +kernel

end Cnfgen.C18
