/-
C18 (end to end) — a command line ends in a usable formula or a clean, shielded error.

`cliOutcome` (CnfgenModel/Cli/Outcome.lean) = `dispatch` (the command line → library call interpreter of C17, over
the call templates regenerated from the helpers' source on every run) ▸ `evalCall` (the family models) ▸ `shield`
(the try/except of `cli()`).  Proofs: Lemmas/Outcome.lean.
-/
import Lemmas.Outcome
import Props.C18.Families
namespace Cnfgen.C18
open Cnfgen Cnfgen.Cli Cnfgen.Gen

/-- the sub-commands covered by the end-to-end theorem: the numeric sub-commands WITHOUT options whose single
unguarded path is one library call that `evalCall` maps to a family model (`outcomeCovered`) — a subset of the class
of `C17.positional_tokens_no_swap` (`randkcnf`, `randkxor` and the transformations are numeric too, but their calls
are not mapped) -/
theorem covered_commands :
    (cliSpecs.filter outcomeCovered).map (fun s => (s.kind, s.name)) =
      [("formula", "bphp"), ("formula", "cliquecoloring"), ("formula", "count"), ("formula", "cpls"),
       ("formula", "parity"), ("formula", "pitfall"), ("formula", "ptn"), ("formula", "ram"),
       ("formula", "rphp")] := by decide +kernel

/-- for the covered sub-commands every positional has an integer validator, the call template takes the positionals
(and integer constants) at the number of arguments the family model expects, keywords are constants -/
theorem covered_calls_evaluate : (cliSpecs.filter outcomeCovered).all dout_shapeOK = true := dout_covered_shapeOK

/-- T-C18.E1 every build step `evalCall` maps succeeds or raises ValueError — nothing else — and it succeeds exactly
when the generator's documented precondition `GenPre` holds -/
theorem mapped_build_steps_clean (c : Call) (r : Except Err Unit) (h : evalCall c = some r) :
    (r = .ok () ∨ r = .error .valueError) ∧ (r = .ok () ↔ GenPre c) :=
  ⟨evalCall_clean c r h, evalCall_ok_iff c r h⟩

/-- T-C18.E2 END TO END.  For every covered sub-command and EVERY token list of the argparse fragment, the run ends in
`ok` or in a `cliError` — never an escaped exception, never an internal bug, never outside the model — and it ends in
`ok` EXACTLY when the number of tokens is the number of positionals, the i-th token passes the validator of the i-th
positional (value `vᵢ`), and the call made with `v₁ … vₙ` satisfies the generator's own precondition. -/
theorem end_to_end (h : HelperSpec) (s : CliSpec) (hspec : specOf h = some s)
    (hc : outcomeCovered s = true) (argv : List String) (hf : inFragment s argv = true) :
    (cliOutcome h argv = some .ok ∨ cliOutcome h argv = some .cliError) ∧
    (cliOutcome h argv = some .ok ↔
      ∃ vals : List Int, ∃ c : Call,
        (argTokens s argv).length = (positionals s).length ∧ vals.length = (positionals s).length ∧
        (∀ p ∈ ((positionals s).zip (argTokens s argv)).zip vals, validate p.1.1.ty p.1.2 = some p.2) ∧
        callOfVals s vals = some c ∧ GenPre c) :=
  cliOutcome_covered h s hspec hc argv hf

/-- … in particular no exception escapes and `cli()` never reports an internal bug -/
theorem never_escapes (h : HelperSpec) (s : CliSpec) (hspec : specOf h = some s)
    (hc : outcomeCovered s = true) (argv : List String) (hf : inFragment s argv = true) :
    cliOutcome h argv ≠ some .internalBug ∧ ∀ e, cliOutcome h argv ≠ some (.escaped e) := by
  rcases (end_to_end h s hspec hc argv hf).1 with h1 | h1 <;> rw [h1] <;> simp

/-! ### the `Clean` theorems missing in Props/C18/Families.lean -/

theorem clean_of_forget {α : Type} (x : Except Err α)
    (h : forget x = .ok () ∨ forget x = .error .valueError) : Clean x := by
  intro e he
  subst he
  rcases h with h | h
  · simp [forget, Except.map] at h
  · simpa [forget, Except.map] using h

theorem ptn_clean (N : Int) : Clean (Fam.Ramsey.ptn N) :=
  clean_of_forget _ (evalCall_clean ⟨"PythagoreanTriples", [.int N], []⟩ _ (by simp [evalCall]))

theorem ramseyNumber_clean (s k N : Int) : Clean (Fam.Ramsey.ramseyNumber s k N) :=
  clean_of_forget _ (evalCall_clean ⟨"RamseyNumber", [.int s, .int k, .int N], []⟩ _ (by simp [evalCall]))

theorem vdw_clean (N k1 k2 : Int) (ks : List Int) : Clean (Fam.Ramsey.vdw N k1 k2 ks) := by
  have hall : allInts ((N :: k1 :: k2 :: ks).map Val.int) = some (N :: k1 :: k2 :: ks) := by
    generalize (N :: k1 :: k2 :: ks) = l
    induction l with
    | nil => rfl
    | cons a r ih => simp [allInts, ih]
  have hev : evalCall ⟨"VanDerWaerden", (N :: k1 :: k2 :: ks).map Val.int, []⟩ =
      some (forget (Fam.Ramsey.vdw N k1 k2 ks)) := by
    simp only [evalCall]
    rw [hall]
    simp
  exact clean_of_forget _ (evalCall_clean _ _ hev)

theorem cpls_clean (a b c : Int) : Clean (Fam.Cpls.cpls a b c) :=
  clean_of_forget _ (evalCall_clean ⟨"CPLSFormula", [.int a, .int b, .int c], []⟩ _ (by simp [evalCall]))

theorem pitfall_check_clean (v d ny nz k : Int) : Clean (Fam.Pitfall.check v d ny nz k) := by
  intro e he
  have hev : evalCall ⟨"PitfallFormula", [.int v, .int d, .int ny, .int nz, .int k], []⟩ =
      some (Fam.Pitfall.check v d ny nz k) := by simp [evalCall]
  rcases evalCall_clean _ _ hev with h | h
  · rw [h] at he; exact absurd he (by simp)
  · rw [h] at he; simpa using he.symm

/-! ### concrete command lines -/

example : cliOutcomeNamed "formula" "pitfall" ["2", "2", "2", "2", "2"] = some .cliError := by decide +kernel
example : cliOutcomeNamed "formula" "pitfall" ["4", "3", "1", "2", "2"] = some .ok := by decide +kernel
example : cliOutcomeNamed "formula" "pitfall" ["4", "3", "1", "2", "x"] = some .cliError := by decide +kernel
example : cliOutcomeNamed "formula" "cpls" ["2", "3", "4"] = some .cliError := by decide +kernel
example : cliOutcomeNamed "formula" "bphp" ["0", "3"] = some .cliError := by decide +kernel
example : cliOutcomeNamed "formula" "count" ["4", "0"] = some .cliError := by decide +kernel
example : cliOutcomeNamed "formula" "ram" ["3", "3", "5"] = some .ok := by decide +kernel
example : cliOutcomeNamed "formula" "php" ["-1"] = some .cliError := by decide +kernel
example : cliOutcomeNamed "formula" "op" ["--total", "4"] = some .ok := by decide +kernel
example : cliOutcomeNamed "formula" "kcolor" ["3", "complete", "4"] = none := by decide +kernel
/-- the hypotheses of `end_to_end` are satisfiable -/
example : ∃ h s, specOf h = some s ∧ outcomeCovered s = true ∧ inFragment s ["5", "3"] = true :=
  ⟨(helpers.find? (fun h => h.name == "bphp")).get (by decide +kernel),
   (cliSpecs.find? (fun s => s.name == "bphp")).get (by decide +kernel), by decide +kernel⟩

end Cnfgen.C18
