/-
C18 for the two SMALL TOOLS, end to end: `cnfshuffle` and `kthlist2pebbling` as processes
(model `CnfgenModel/Cli/Tools.lean`: argparse on every token list ▸ open ▸ read with the character-level reader ▸
Shuffle / PebblingFormula ▸ `to_dimacs_file`).  Quantified over EVERY argv token list, EVERY environment
(`Env`: stdin content, file system as a function, header strings) and EVERY input text.

  (a) how a run can end            `cnfshuffle_outcome`, `k2p_outcome` (complete case lists),
                                   `tool_never_escapes_partial` (+ the two proven counter-models that make it partial),
  (b) what a successful run wrote  `tool_output_readable_cnfshuffle`, `k2p_ok_spec` (`C17.tool_output_readable_k2p`),
  (·) the report                   `report_prefix_*` (the prefix the tools really use — not the comment marker).

The composition with C09 (the written formula is the shuffle of the formula read) is in Props/C09/Tools.lean, the one
with C03 / C14 / C17 (pebbling formula of the DAG read, unsatisfiable, same call as `cnfgen peb`) in
Props/C17/Tools.lean.

Findings kept as theorems about the model of the code as it is (notes/C18_tools.md):
  C18-T1  an option written `-o=--` / `-o--` / `--output=--` / `-i=--` stores `[]` (argparse quirk) and the tool dies with
       AttributeError                                              → `dashdash_value_escapes`
  C18-T2  an input that opens but cannot be read (OSError) is swallowed by `main()`: exit status 0, nothing written
                                                                   → `unreadable_input_is_silent`
  C18-T3  the reports of the two tools do not carry the comment marker → `report_prefix_cnfshuffle`, `report_prefix_k2p`
-/
import Props.C06.Text
import Props.C09
import Props.C14
import Lemmas.Tools
namespace Cnfgen.C18
open Cnfgen Cnfgen.IO Cnfgen.Cli.ToolArgs Cnfgen.Cli.Tools Cnfgen.ToolsL

/-- the three ways the property allows a run to end -/
def Clean : Cli.Tools.Outcome → Prop
  | .ok _ _ => True
  | .help => True
  | .cliError _ _ => True
  | _ => False

/-! ## the reader side: whatever the DIMACS reader returns can be printed again -/

/-- a formula read from ANY text is well formed and both its counts have at most 4300 digits (they were
returned by `int()`), so `to_dimacs_file` can print it and the strict reader reads it back -/
theorem read_wf_printable (u : Bool) (s : IO.Str) (F : CNF) (h : readDimacsText u s = .ok F) :
    F.WF ∧ C06.Printable F := by
  obtain ⟨pre, post, a, b, m, hrows, _, _, _, _, hwf, hm⟩ := C06.reader_sound (lex u s) F h
  have hr : [a, b, Tok.int (F.nvars : Int), Tok.int (m : Int)] ∈ lex u s := by rw [hrows]; simp
  have h1 := lex_int_bound u s _ hr (F.nvars : Int) (by simp)
  have h2 := lex_int_bound u s _ hr (m : Int) (by simp)
  refine ⟨hwf, ?_, ?_⟩
  · simpa using h1
  · rw [hm]; simpa using h2

/-- the reader fails with ValueError only (restating `C06.reader_total` on texts) -/
theorem read_error_is_valueError (u : Bool) (s : IO.Str) (e : Err) (h : readDimacsText u s = .error e) :
    e = .valueError := by
  rcases C06.reader_total (lex u s) with ⟨F, hF⟩ | hE
  · unfold readDimacsText at h; rw [hF] at h; cases h
  · unfold readDimacsText at h; rw [hE] at h; cases h; rfl

/-! ## (b) what was written can be read -/

/-- THE OUTPUT IS A COMPLETE FORMULA: the characters `to_dimacs_file` writes for a well-formed printable formula,
with or without header, are read back by the strict reader as that formula (in both newline modes); lexed, they are
comment rows (first token `c`), then the problem row with the TRUE counts, then one row per clause. -/
theorem written_text_readable (G : CNF) (hdr : Option Header) (hwf : G.WF) (hp : C06.Printable G) (u : Bool) :
    readDimacsText u (renderDimacsText G hdr none) = .ok G ∧
    ∃ comments : List Row,
      lex u (renderDimacsText G hdr none) =
        comments ++ [Tok.word ['p'], Tok.word "cnf".toList, Tok.int (G.nvars : Int), Tok.int (G.clauses.length : Int)] ::
          G.clauses.map (fun c => c.map Tok.int ++ [Tok.int 0]) ∧
      ∀ r ∈ comments, r.cls = .comment ∧ ∃ rest, r = Tok.word ['c'] :: rest := by
  refine ⟨C06.dimacs_text_roundtrip u G hdr none hwf hp, ?_⟩
  rw [C06.dimacs_text_lex u G hdr none hwf hp]
  exact C06.render_shape u G hdr none

/-! ## cnfshuffle -/

open Cnfgen.Shuffle in
/-- the draws are a legal answer of the `random` module to the calls `Shuffle` makes on `F` with the switches
of the namespace: one `choice` in `{-1, 1}` per variable unless `-p`, one shuffled `[1..N]` unless `-v`, one
shuffled `[0..M-1]` unless `-c`, nothing else; `fl vp cp` are the arguments they determine -/
def LegalDraws (st : Args) (F : CNF) (ds : List Draw) (fl vp cp : List Int) : Prop :=
  Resolves F (toolArg st.noFlips) (toolArg st.noVperm) (toolArg st.noCperm) ds fl vp cp

theorem toolArg_eq_C09 (b : Bool) : Cli.Tools.toolArg b = C09.toolArg b := rfl

/-- the header cnfshuffle writes (unless `-q`) -/
def shuffleHdr (env : Env) (name : String) : Shuffle.Header :=
  Shuffle.shuffleHeader (baseHeader env ("Formula from DIMACS file " ++ name))

/-- everything `cnfshuffle` does after a successful parse, case by case (`st` = the namespace) -/
theorem shuffleBody_cases (env : Env) (st : Args) (ds : List Shuffle.Draw) :
    (st.input = .nil ∧ shuffleBody env st ds = .escaped "AttributeError") ∨
    (∃ u n, inputOf env st = some (.unreadable, u, n) ∧ shuffleBody env st ds = .silent) ∨
    (∃ u n, inputOf env st = some (.undecodable, u, n) ∧ shuffleBody env st ds = .cliError .reader "") ∨
    (∃ s u n, inputOf env st = some (.text s, u, n) ∧ readDimacsText u s = .error .valueError ∧
      shuffleBody env st ds = .cliError .reader "") ∨
    (∃ s u n F, inputOf env st = some (.text s, u, n) ∧ readDimacsText u s = .ok F ∧
      shuffleBody env st ds =
        match Shuffle.run F (toolArg st.noFlips) (toolArg st.noVperm) (toolArg st.noCperm) ds with
        | none => .badDraws
        | some (.error e, _) => errOutcome "" e
        | some (.ok G, _) => writeOut st G (shuffleHdr env n)) := by
  unfold shuffleBody
  cases hin : inputOf env st with
  | none =>
    left
    refine ⟨?_, rfl⟩
    unfold inputOf at hin
    cases hi : st.input with
    | nil => rfl
    | stdin => rw [hi] at hin; simp at hin
    | file p => rw [hi] at hin; simp at hin
  | some x =>
    obtain ⟨c, u, n⟩ := x
    right
    cases c with
    | unreadable => left; exact ⟨u, n, rfl, rfl⟩
    | undecodable => right; left; exact ⟨u, n, rfl, rfl⟩
    | text s =>
      right; right
      cases hr : readDimacsText u s with
      | error e =>
        left
        have := read_error_is_valueError u s e hr
        subst this
        exact ⟨s, u, n, rfl, hr, by simp [hr, errOutcome]⟩
      | ok F =>
        right
        refine ⟨s, u, n, F, rfl, hr, ?_⟩
        simp only [hr, shuffleHdr]
        rcases Shuffle.run F (toolArg st.noFlips) (toolArg st.noVperm) (toolArg st.noCperm) ds with _ | ⟨⟨e | G⟩, r⟩ <;> rfl

/-- with legal draws: the formula read is shuffled by the arguments the draws determine, and written -/
theorem shuffleBody_legal (env : Env) (st : Args) (ds : List Shuffle.Draw) (s : IO.Str) (u : Bool) (n : String)
    (F : CNF) (hin : inputOf env st = some (.text s, u, n)) (hF : readDimacsText u s = .ok F)
    (fl vp cp : List Int) (hl : LegalDraws st F ds fl vp cp) :
    ∃ G, Shuffle.shuffle F fl vp cp = .ok G ∧ Shuffle.Valid F fl vp cp ∧
      (st.noFlips = true → fl = List.replicate F.nvars 1) ∧ (st.noVperm = true → vp = Shuffle.iota 1 F.nvars) ∧
      (st.noCperm = true → cp = Shuffle.iota 0 F.clauses.length) ∧
      shuffleBody env st ds = writeOut st G (shuffleHdr env n) := by
  have hwf := (read_wf_printable u s F hF).1
  obtain ⟨G, hrun, hsh, hV, h1, h2, h3⟩ := C09.tool_call F hwf st.noFlips st.noVperm st.noCperm ds fl vp cp hl
  refine ⟨G, hsh, hV, h1, h2, h3, ?_⟩
  unfold shuffleBody
  rw [hin]
  simp only [hF]
  rw [toolArg_eq_C09, toolArg_eq_C09, toolArg_eq_C09, hrun]
  rfl

/-- `AllLegal env argv ds`: whatever formula the command line makes the tool read, the draws are legal for it -/
def AllLegal (env : Env) (argv : List String) (ds : List Shuffle.Draw) : Prop :=
  ∀ st s u n F, parse shuffleSpec (act env) argv {} = .ok st → inputOf env st = some (.text s, u, n) →
    readDimacsText u s = .ok F → ∃ fl vp cp, LegalDraws st F ds fl vp cp

/-- no file is unreadable (opens, but reading it raises OSError), nor is standard input -/
def Readable (env : Env) : Prop := env.stdin ≠ .unreadable ∧ ∀ p, env.file p ≠ some .unreadable

/-- the parse of `argv` binds `[]` to no file option (no `-o=--`, `-o--`, `--output=--`, `-i=--`, … on the line) -/
def NoDashDashValue (spec : Spec) (env : Env) (argv : List String) : Prop :=
  ∀ st, parse spec (act env) argv {} = .ok st → st.input ≠ .nil ∧ st.output ≠ .nil

theorem inputOf_not_unreadable (env : Env) (st : Args) (hr : Readable env) (ho : InputOpened env st) (u : Bool)
    (n : String) : inputOf env st ≠ some (.unreadable, u, n) := by
  unfold inputOf
  cases hi : st.input with
  | nil => simp
  | stdin => simp only [ne_eq, Option.some.injEq, Prod.mk.injEq, not_and]; intro h; exact absurd h hr.1
  | file p =>
    simp only [ne_eq, Option.some.injEq, Prod.mk.injEq, not_and]
    intro h
    split at h
    · cases h
    · rename_i hnot
      rcases ho p hi with h1 | h1
      · exact absurd h1 hnot
      · cases hf : env.file p with
        | none => rw [hf] at h1; cases h1
        | some c => rw [hf] at h; simp at h; exact absurd (h ▸ hf) (hr.2 p)

/-- (a) for cnfshuffle, COMPLETE: every run ends in one of six ways, each with its cause -/
theorem cnfshuffle_outcome (env : Env) (argv : List String) (ds : List Shuffle.Draw) :
    cnfshuffleRun env argv ds = .help ∨
    cnfshuffleRun env argv ds = .cliError .parser "" ∨
    cnfshuffleRun env argv ds = .cliError .reader "" ∨
    (∃ d t, cnfshuffleRun env argv ds = .ok d t) ∨
    (∃ st, parse shuffleSpec (act env) argv {} = .ok st ∧
      ((cnfshuffleRun env argv ds = .escaped "AttributeError" ∧ (st.input = .nil ∨ st.output = .nil)) ∨
       (cnfshuffleRun env argv ds = .silent ∧ ∃ u n, inputOf env st = some (.unreadable, u, n)) ∨
       (∃ s u n F, inputOf env st = some (.text s, u, n) ∧ readDimacsText u s = .ok F ∧
          ¬ ∃ fl vp cp, LegalDraws st F ds fl vp cp))) := by
  unfold cnfshuffleRun
  cases hp : parse shuffleSpec (act env) argv {} with
  | error x =>
    cases x with
    | help => left; rfl
    | error => right; left; rfl
    | sub a b c d => right; left; rfl
  | ok st =>
    simp only
    rcases shuffleBody_cases env st ds with ⟨hi, hb⟩ | ⟨u, n, hi, hb⟩ | ⟨u, n, _, hb⟩ | ⟨s, u, n, _, _, hb⟩ |
        ⟨s, u, n, F, hi, hF, hb⟩
    · right; right; right; right; exact ⟨st, rfl, Or.inl ⟨hb, Or.inl hi⟩⟩
    · right; right; right; right; exact ⟨st, rfl, Or.inr (Or.inl ⟨hb, u, n, hi⟩)⟩
    · right; right; left; exact hb
    · right; right; left; exact hb
    · by_cases hl : ∃ fl vp cp, LegalDraws st F ds fl vp cp
      · obtain ⟨fl, vp, cp, hl⟩ := hl
        obtain ⟨G, _, _, _, _, _, hw⟩ := shuffleBody_legal env st ds s u n F hi hF fl vp cp hl
        rcases writeOut_cases st G (shuffleHdr env n) with ⟨ho, hx⟩ | ⟨d, _, hx⟩
        · right; right; right; right; exact ⟨st, rfl, Or.inl ⟨by rw [hw, hx], Or.inr ho⟩⟩
        · right; right; right; left; exact ⟨d, _, by rw [hw, hx]⟩
      · right; right; right; right; exact ⟨st, rfl, Or.inr (Or.inr ⟨s, u, n, F, hi, hF, hl⟩)⟩

/-- (a) `tool_never_escapes` for cnfshuffle, PARTIAL: the run ends in a formula, the help or a reported error —
for every argv, every environment in which no input is unreadable, all legal draws — PROVIDED the command line gives
no file option the explicit value `--` (finding C18-T1).  Missing at full strength: exactly the two hypotheses
`NoDashDashValue` and `Readable`, both necessary (`dashdash_value_escapes`, `unreadable_input_is_silent`). -/
theorem tool_never_escapes_cnfshuffle_partial (env : Env) (argv : List String) (ds : List Shuffle.Draw)
    (hdd : NoDashDashValue shuffleSpec env argv) (hr : Readable env) (hl : AllLegal env argv ds) :
    Clean (cnfshuffleRun env argv ds) := by
  rcases cnfshuffle_outcome env argv ds with h | h | h | ⟨d, t, h⟩ | ⟨st, hp, h⟩
  · rw [h]; trivial
  · rw [h]; trivial
  · rw [h]; trivial
  · rw [h]; trivial
  · exfalso
    rcases h with ⟨_, hn⟩ | ⟨_, u, n, hi⟩ | ⟨s, u, n, F, hi, hF, hno⟩
    · have := hdd st hp; rcases hn with hn | hn
      · exact this.1 hn
      · exact this.2 hn
    · exact inputOf_not_unreadable env st hr (parse_inputOpened env shuffleSpec argv st hp) u n hi
    · exact hno (hl st s u n F hp hi hF)

/-- the statement of the property for the tool, at full strength … -/
def ToolNeverEscapesCnfshuffle : Prop :=
  ∀ (env : Env) (argv : List String) (ds : List Shuffle.Draw), AllLegal env argv ds → Clean (cnfshuffleRun env argv ds)

/-- a small environment: a one-clause formula on stdin, no files -/
def demoEnv (stdin : Content) : Env :=
  { stdin := stdin, stdinUniversal := true, stdinName := "<stdin>", file := fun _ => none, writable := fun _ => true,
    generator := "CNFgen", copyright := "(C)", url := "https://massimolauria.net/cnfgen" }

/-- C18-T1 (finding): `cnfshuffle -p -v -c -o=--` on a perfectly good formula dies with AttributeError -/
theorem dashdash_value_escapes :
    cnfshuffleRun (demoEnv (.text "p cnf 2 1\n1 -2 0\n".toList)) ["-p", "-v", "-c", "-o=--"] [] =
      .escaped "AttributeError" := by decide +kernel

/-- C18-T2 (finding): an input that cannot be read ends the tool silently with exit status 0 -/
theorem unreadable_input_is_silent :
    cnfshuffleRun (demoEnv .unreadable) [] [] = .silent ∧ exitStatus .silent = 0 := by decide +kernel

/-- … is therefore FALSE of the code as it is -/
theorem tool_never_escapes_cnfshuffle_false : ¬ ToolNeverEscapesCnfshuffle := by
  intro h
  have h1 := h (demoEnv .unreadable) [] [] (by
    intro st s u n F hp hi _
    have : st = {} := by
      have : parse shuffleSpec (act (demoEnv .unreadable)) [] {} = .ok {} := rfl
      rw [this] at hp; cases hp; rfl
    subst this
    simp [inputOf, demoEnv] at hi)
  rw [unreadable_input_is_silent.1] at h1
  exact h1

/-- (b) for cnfshuffle: when the run ends with exit status 0 and a text `t` written to `d` (legal draws), `t` is the
DIMACS rendering of a well-formed formula `G` with printable counts — hence the strict reader accepts the written
CHARACTERS and returns `G`, the problem line states the true counts of `G`, every row before it is a comment and
every row after it a clause — and `G` is the shuffle of the formula `F` the input text denotes by the arguments
`fl vp cp` the draws determine (the input text is the one the command line names: stdin or the `-i` file). -/
theorem cnfshuffle_ok_spec (env : Env) (argv : List String) (ds : List Shuffle.Draw) (d : Dest) (t : IO.Str)
    (h : cnfshuffleRun env argv ds = .ok d t) (hl : AllLegal env argv ds) :
    ∃ st s u n F G fl vp cp,
      parse shuffleSpec (act env) argv {} = .ok st ∧ inputOf env st = some (.text s, u, n) ∧
      readDimacsText u s = .ok F ∧ LegalDraws st F ds fl vp cp ∧
      Shuffle.shuffle F fl vp cp = .ok G ∧ Shuffle.Valid F fl vp cp ∧
      (st.noFlips = true → fl = List.replicate F.nvars 1) ∧ (st.noVperm = true → vp = Shuffle.iota 1 F.nvars) ∧
      (st.noCperm = true → cp = Shuffle.iota 0 F.clauses.length) ∧
      destOf st.output = some d ∧
      t = renderDimacsText G (if st.verbose then some (toIOHeader (shuffleHdr env n)) else none) none ∧
      F.WF ∧ G.WF ∧ C06.Printable G := by
  unfold cnfshuffleRun at h
  cases hp : parse shuffleSpec (act env) argv {} with
  | error x => rw [hp] at h; cases x <;> cases h
  | ok st =>
    rw [hp] at h
    simp only at h
    rcases shuffleBody_cases env st ds with ⟨_, hb⟩ | ⟨u, n, _, hb⟩ | ⟨u, n, _, hb⟩ | ⟨s, u, n, _, _, hb⟩ |
        ⟨s, u, n, F, hi, hF, _⟩
    · rw [hb] at h; cases h
    · rw [hb] at h; cases h
    · rw [hb] at h; cases h
    · rw [hb] at h; cases h
    · obtain ⟨fl, vp, cp, hleg⟩ := hl st s u n F hp hi hF
      obtain ⟨G, hsh, hV, h1, h2, h3, hw⟩ := shuffleBody_legal env st ds s u n F hi hF fl vp cp hleg
      rw [hw] at h
      rcases writeOut_cases st G (shuffleHdr env n) with ⟨_, hx⟩ | ⟨d', hd', hx⟩
      · rw [hx] at h; cases h
      · rw [hx] at h
        cases h
        obtain ⟨hwf, hpr⟩ := read_wf_printable u s F hF
        have hGwf : G.WF := C09.result_wf hwf hsh
        have hGp : C06.Printable G := by
          unfold C06.Printable
          rw [C09.nvars_eq hwf hsh, C09.clauses_length_eq hwf hsh]
          exact hpr
        exact ⟨st, s, u, n, F, G, fl, vp, cp, rfl, hi, hF, hleg, hsh, hV, h1, h2, h3, hd', rfl, hwf, hGwf, hGp⟩

/-- (b) `tool_output_readable` for cnfshuffle -/
theorem tool_output_readable_cnfshuffle (env : Env) (argv : List String) (ds : List Shuffle.Draw) (d : Dest)
    (t : IO.Str) (h : cnfshuffleRun env argv ds = .ok d t) (hl : AllLegal env argv ds) (u : Bool) :
    ∃ G : CNF, readDimacsText u t = .ok G ∧ G.WF ∧
      ∃ comments : List Row,
        lex u t = comments ++ [Tok.word ['p'], Tok.word "cnf".toList, Tok.int (G.nvars : Int), Tok.int (G.clauses.length : Int)] ::
          G.clauses.map (fun c => c.map Tok.int ++ [Tok.int 0]) ∧
        ∀ r ∈ comments, r.cls = .comment ∧ ∃ rest, r = Tok.word ['c'] :: rest := by
  obtain ⟨st, s, u', n, F, G, fl, vp, cp, _, _, _, _, _, _, _, _, _, _, ht, _, hG, hGp⟩ :=
    cnfshuffle_ok_spec env argv ds d t h hl
  subst ht
  obtain ⟨h1, h2⟩ := written_text_readable G _ hG hGp u
  exact ⟨G, h1, hG, h2⟩

theorem errOutcome_prefix (p : String) (e : Err) (src : ErrSrc) (pfx : String)
    (h : errOutcome p e = .cliError src pfx) : pfx = p := by
  unfold errOutcome at h
  split at h <;> cases h
  rfl

theorem writeOut_not_cliError (st : Args) (F : CNF) (hdr : Shuffle.Header) (src : ErrSrc) (pfx : String) :
    writeOut st F hdr ≠ .cliError src pfx := by
  unfold writeOut; split <;> simp

theorem shuffleBody_prefix (env : Env) (st : Args) (ds : List Shuffle.Draw) (src : ErrSrc) (pfx : String)
    (h : shuffleBody env st ds = .cliError src pfx) : pfx = "" := by
  unfold shuffleBody at h
  split at h
  · cases h
  · cases h
  · cases h; rfl
  · split at h
    · exact errOutcome_prefix _ _ _ _ h
    · split at h
      · cases h
      · exact errOutcome_prefix _ _ _ _ h
      · exact absurd h (writeOut_not_cliError _ _ _ _ _)

/-- the report of cnfshuffle NEVER carries the comment marker `c ` (finding C18-T3): the prefix is empty in every
error outcome, whatever the cause -/
theorem report_prefix_cnfshuffle (env : Env) (argv : List String) (ds : List Shuffle.Draw) (src : ErrSrc)
    (pfx : String) (h : cnfshuffleRun env argv ds = .cliError src pfx) : pfx = "" := by
  unfold cnfshuffleRun at h
  cases hp : parse shuffleSpec (act env) argv {} with
  | error x => rw [hp] at h; cases x <;> cases h <;> rfl
  | ok st => rw [hp] at h; exact shuffleBody_prefix env st ds src pfx h

/-! non-vacuity: a complete run by the kernel -/

/-- `cnfshuffle -q -c` on a 3-variable formula with comments and odd layout; draws: three flips, the variable order -/
example : cnfshuffleRun (demoEnv (.text "c hi\np cnf 3 2\n1 -2\n 0 3 0\n".toList)) ["-q", "-c"]
    [.choice (-1), .choice 1, .choice 1, .shuffled [2, 3, 1]] = .ok .stdout "p cnf 3 2\n-2 -3 0\n1 0\n".toList := by
  decide +kernel

example : cnfshuffleRun (demoEnv (.text "p cnf 1 1\n1 0\n".toList)) ["-pvc"] [] =
    .ok .stdout ("c description: Formula from DIMACS file <stdin> (reshuffled)\nc generator: CNFgen\nc copyright: (C)\n" ++
      "c url: https://massimolauria.net/cnfgen\nc transformation 1: Formula reshuffling\nc\np cnf 1 1\n1 0\n").toList := by
  decide +kernel

example : cnfshuffleRun (demoEnv (.text "p cnf 1 1\n2 0\n".toList)) [] [] = .cliError .reader "" := by decide +kernel
example : cnfshuffleRun (demoEnv (.text [])) ["-i", "missing"] [] = .cliError .parser "" := by decide +kernel
example : cnfshuffleRun (demoEnv (.text [])) ["-i", "missing", "-h"] [] = .cliError .parser "" := by decide +kernel
example : cnfshuffleRun (demoEnv (.text [])) ["-h", "-i", "missing"] [] = .help := by decide +kernel
example : cnfshuffleRun (demoEnv (.text [])) ["--no"] [] = .cliError .parser "" := by decide +kernel
example : cnfshuffleRun (demoEnv (.text [])) ["-h", "--no"] [] = .cliError .parser "" := by decide +kernel

/-! ## kthlist2pebbling -/

/-- the DAG a text denotes for the tool: lexed (after newline translation if the stream translates) and read by the
`dag` kthlist reader of C14 -/
def readDag (u : Bool) (s : IO.Str) : Except Err GraphFmt.AnyG :=
  GraphFmt.readGraph .dag (.kth (GraphLex.lexKth (if u then GraphLex.universalNL s else s)))

/-- the header kthlist2pebbling writes (unless `-q`) -/
def k2pHdr (env : Env) (u : Bool) (s : IO.Str) : Shuffle.Header :=
  baseHeader env ("Pebbling formula for " ++
    String.ofList (kthName (GraphLex.readlines (if u then GraphLex.universalNL s else s))))

theorem readDag_error (u : Bool) (s : IO.Str) (e : Err) (h : readDag u s = .error e) : e = .valueError :=
  C14.reader_raises_only_valueError .dag _ e h

theorem readDag_ok (u : Bool) (s : IO.Str) (G : GraphFmt.AnyG) (h : readDag u s = .ok G) :
    ∃ D, G = .di D ∧ DiG.Inv D ∧ D.stillDag = true ∧ ∀ e ∈ D.edges, e.1 < e.2 :=
  C14.dag_edges_increasing _ G h

/-- everything `kthlist2pebbling` (without a transformation) does after a successful parse, case by case -/
theorem k2pBody_cases (env : Env) (st : Args) :
    (st.input = .nil ∧ k2pBody env st = .escaped "AttributeError") ∨
    (∃ u n, inputOf env st = some (.unreadable, u, n) ∧ k2pBody env st = .silent) ∨
    (∃ u n, inputOf env st = some (.undecodable, u, n) ∧ k2pBody env st = .cliError .reader "c ") ∨
    (∃ s u n, inputOf env st = some (.text s, u, n) ∧ readDag u s = .error .valueError ∧
      k2pBody env st = .cliError .reader "c ") ∨
    (∃ s u n D, inputOf env st = some (.text s, u, n) ∧ readDag u s = .ok (.di D) ∧ DiG.Inv D ∧ D.stillDag = true ∧
      k2pBody env st = writeOut st (Fam.Pebbling.peb D).toCNF (k2pHdr env u s)) := by
  unfold k2pBody
  cases hin : inputOf env st with
  | none =>
    left
    refine ⟨?_, rfl⟩
    unfold inputOf at hin
    cases hi : st.input with
    | nil => rfl
    | stdin => rw [hi] at hin; simp at hin
    | file p => rw [hi] at hin; simp at hin
  | some x =>
    obtain ⟨c, u, n⟩ := x
    right
    cases c with
    | unreadable => left; exact ⟨u, n, rfl, rfl⟩
    | undecodable => right; left; exact ⟨u, n, rfl, rfl⟩
    | text s =>
      right; right
      cases hr : readDag u s with
      | error e =>
        left
        have := readDag_error u s e hr
        subst this
        refine ⟨s, u, n, rfl, hr, ?_⟩
        unfold readDag at hr
        simp only [hr, errOutcome_valueError]
      | ok G =>
        right
        obtain ⟨D, rfl, hinv, hd, _⟩ := readDag_ok u s G hr
        refine ⟨s, u, n, D, rfl, hr, hinv, hd, ?_⟩
        unfold readDag at hr
        simp only [hr, Fam.Pebbling.pebbling, hd, k2pHdr]
        rfl

/-- (a) for kthlist2pebbling without a transformation sub-command, COMPLETE -/
theorem k2p_outcome (env : Env) (argv : List String) :
    (k2pRun env argv = none ∧ ∃ name rest st ex, parse k2pSpec (act env) argv {} = .error (.sub name rest st ex) ∧
        name ∈ transformationNames) ∨
    k2pRun env argv = some .help ∨
    k2pRun env argv = some (.cliError .parser "") ∨
    k2pRun env argv = some (.cliError .reader "c ") ∨
    (∃ d t, k2pRun env argv = some (.ok d t)) ∨
    (∃ st, parse k2pSpec (act env) argv {} = .ok st ∧
      ((k2pRun env argv = some (.escaped "AttributeError") ∧ (st.input = .nil ∨ st.output = .nil)) ∨
       (k2pRun env argv = some .silent ∧ ∃ u n, inputOf env st = some (.unreadable, u, n)))) := by
  unfold k2pRun
  cases hp : parse k2pSpec (act env) argv {} with
  | error x =>
    cases x with
    | help => right; left; rfl
    | error => right; right; left; rfl
    | sub a b c d =>
      left
      refine ⟨rfl, a, b, c, d, rfl, ?_⟩
      exact sub_name_mem k2pSpec (act env) argv {} a b c d hp transformationNames rfl
  | ok st =>
    simp only
    rcases k2pBody_cases env st with ⟨hi, hb⟩ | ⟨u, n, hi, hb⟩ | ⟨u, n, _, hb⟩ | ⟨s, u, n, _, _, hb⟩ |
        ⟨s, u, n, D, _, _, _, _, hb⟩
    · right; right; right; right; right; exact ⟨st, rfl, Or.inl ⟨by rw [hb], Or.inl hi⟩⟩
    · right; right; right; right; right; exact ⟨st, rfl, Or.inr ⟨by rw [hb], u, n, hi⟩⟩
    · right; right; right; left; rw [hb]
    · right; right; right; left; rw [hb]
    · rcases writeOut_cases st (Fam.Pebbling.peb D).toCNF (k2pHdr env u s) with ⟨ho, hx⟩ | ⟨d, _, hx⟩
      · right; right; right; right; right; exact ⟨st, rfl, Or.inl ⟨by rw [hb, hx], Or.inr ho⟩⟩
      · right; right; right; right; left; exact ⟨d, _, by rw [hb, hx]⟩

/-- (a) `tool_never_escapes` for kthlist2pebbling, PARTIAL: every command line that does not select a transformation
sub-command ends in a formula, the help or a reported error, under the same two hypotheses as for cnfshuffle.
Missing at full strength: the transformation sub-commands (their sub-parsers and `transform_cnf` are outside this
model: `k2pRun = none`), `NoDashDashValue` (C18-T1) and `Readable` (C18-T2). -/
theorem tool_never_escapes_k2p_partial (env : Env) (argv : List String)
    (hdd : NoDashDashValue k2pSpec env argv) (hr : Readable env) :
    k2pRun env argv = none ∨ ∃ o, k2pRun env argv = some o ∧ Clean o := by
  rcases k2p_outcome env argv with ⟨h, _⟩ | h | h | h | ⟨d, t, h⟩ | ⟨st, hp, h⟩
  · left; exact h
  · right; exact ⟨_, h, trivial⟩
  · right; exact ⟨_, h, trivial⟩
  · right; exact ⟨_, h, trivial⟩
  · right; exact ⟨_, h, trivial⟩
  · exfalso
    rcases h with ⟨_, hn⟩ | ⟨_, u, n, hi⟩
    · have := hdd st hp; rcases hn with hn | hn
      · exact this.1 hn
      · exact this.2 hn
    · exact inputOf_not_unreadable env st hr (parse_inputOpened env k2pSpec argv st hp) u n hi

/-- (b) for kthlist2pebbling: when the run ends with exit status 0 and a text `t` written to `d`, the input text denotes a
DAG `D` (the `dag` kthlist reader accepted it: every edge increasing) and `t` is the DIMACS rendering of the pebbling
formula of `D`, with the header unless `-q` -/
theorem k2p_ok_spec (env : Env) (argv : List String) (d : Dest) (t : IO.Str) (h : k2pRun env argv = some (.ok d t)) :
    ∃ st s u n D,
      parse k2pSpec (act env) argv {} = .ok st ∧ inputOf env st = some (.text s, u, n) ∧
      readDag u s = .ok (.di D) ∧ DiG.Inv D ∧ D.stillDag = true ∧ destOf st.output = some d ∧
      t = renderDimacsText (Fam.Pebbling.peb D).toCNF (if st.verbose then some (toIOHeader (k2pHdr env u s)) else none) none := by
  unfold k2pRun at h
  cases hp : parse k2pSpec (act env) argv {} with
  | error x => rw [hp] at h; cases x <;> simp at h
  | ok st =>
    rw [hp] at h
    simp only [Option.some.injEq] at h
    rcases k2pBody_cases env st with ⟨_, hb⟩ | ⟨u, n, _, hb⟩ | ⟨u, n, _, hb⟩ | ⟨s, u, n, _, _, hb⟩ |
        ⟨s, u, n, D, hi, hr, hinv, hd, hb⟩
    · rw [hb] at h; cases h
    · rw [hb] at h; cases h
    · rw [hb] at h; cases h
    · rw [hb] at h; cases h
    · rw [hb] at h
      rcases writeOut_cases st (Fam.Pebbling.peb D).toCNF (k2pHdr env u s) with ⟨_, hx⟩ | ⟨d', hd', hx⟩
      · rw [hx] at h; cases h
      · rw [hx] at h; cases h
        exact ⟨st, s, u, n, D, rfl, hi, hr, hinv, hd, hd', rfl⟩

/-- the report of kthlist2pebbling carries `c ` exactly when the READER refused the input (the prefix set inside
`with msg_prefix('c ')` survives the exception); a refused command line is reported without it (finding C18-T3) -/
theorem report_prefix_k2p (env : Env) (argv : List String) (src : ErrSrc) (pfx : String)
    (h : k2pRun env argv = some (.cliError src pfx)) :
    (src = .parser ∧ pfx = "") ∨ (src = .reader ∧ pfx = "c ") := by
  rcases k2p_outcome env argv with ⟨h', _⟩ | h' | h' | h' | ⟨d, t, h'⟩ | ⟨st, _, h'⟩
  · rw [h'] at h; cases h
  · rw [h'] at h; cases h
  · rw [h'] at h; cases h; left; exact ⟨rfl, rfl⟩
  · rw [h'] at h; cases h; right; exact ⟨rfl, rfl⟩
  · rw [h'] at h; cases h
  · rcases h' with ⟨h', _⟩ | ⟨h', _⟩ <;> rw [h'] at h <;> cases h

/-! non-vacuity -/

example : k2pRun (demoEnv (.text "c pyramid\n3\n1 : 0\n2 : 0\n3 : 1 2 0\n".toList)) ["-q"] =
    some (.ok .stdout "p cnf 3 4\n1 0\n2 0\n-1 -2 3 0\n-3 0\n".toList) := by decide +kernel

example : k2pRun (demoEnv (.text "c pyramid\r\n1\r\n".toList)) [] =
    some (.ok .stdout ("c description: Pebbling formula for pyramid\nc generator: CNFgen\nc copyright: (C)\n" ++
      "c url: https://massimolauria.net/cnfgen\nc\np cnf 1 2\n1 0\n-1 0\n").toList) := by decide +kernel

/-- not in increasing order: refused, with the prefixed report -/
example : k2pRun (demoEnv (.text "2\n1 : 2 0\n2 : 0\n".toList)) [] = some (.cliError .reader "c ") := by decide +kernel
example : k2pRun (demoEnv (.text "2\n".toList)) ["--bogus"] = some (.cliError .parser "") := by decide +kernel
example : k2pRun (demoEnv (.text "2\n".toList)) ["nosuch"] = some (.cliError .parser "") := by decide +kernel
example : k2pRun (demoEnv (.text "2\n".toList)) ["xor", "2"] = none := by decide +kernel
example : k2pRun (demoEnv (.text "2\n".toList)) ["-i--"] = some (.escaped "AttributeError") := by decide +kernel
example : k2pRun (demoEnv .unreadable) [] = some .silent := by decide +kernel

end Cnfgen.C18

namespace Cnfgen.C18
open Cnfgen Cnfgen.Cli.ToolArgs Cnfgen.Cli.Tools

/-! ## the tie of the two hand-written parsers to the source

`Gen.tools` is regenerated from `cnfshuffle.py` / `kthlist2pebbling.py` on every run (tools/extract_tables.py): every
`add_argument` with its option strings, `type=`, `action=`, default.  The option tables of the model ARE the generated
ones (plus the `-h`, `--help` of argparse itself); a new, renamed or re-typed option breaks this proof. -/

/-- what the model assumes about each option's `type=` / `action=` -/
def argSpecOK (a : Gen.ArgSpec) : Bool :=
  (a.dest == "output" && a.ty == "argparse.FileType('w')" && a.action == "" && a.default == "-") ||
  (a.dest == "input" && a.ty == "argparse.FileType('r')" && a.action == "" && a.default == "-") ||
  (a.dest == "seed" && a.ty == "str" && a.action == "store" && a.default == "None") ||
  ((a.dest == "no_polarity_flips" || a.dest == "no_variables_permutation" || a.dest == "no_clauses_permutation") &&
    a.ty == "" && a.action == "store_true") ||
  (a.dest == "verbose" && a.ty == "" && a.action == "store_false" && (a.default == "" || a.default == "True"))

theorem tool_parsers_match_source :
    shuffleSpec.opts = generatedOpts "cnfshuffle" ∧ k2pSpec.opts = generatedOpts "kthlist2pebbling" ∧
    (Gen.tools.all (fun t => (t.tool != "cnfshuffle" && t.tool != "kthlist2pebbling") ||
      t.args.all (fun a => argSpecOK a && a.nargs == "" && a.choices.isEmpty))) = true ∧
    shuffleSpec.noNegativeOptions = true ∧ k2pSpec.noNegativeOptions = true ∧
    shuffleSpec.subs = none ∧ k2pSpec.subs = some transformationNames ∧ transformationNames.length = 17 ∧
    "--" ∉ transformationNames := by
  decide +kernel

end Cnfgen.C18

namespace Cnfgen.C18
open Cnfgen Cnfgen.IO Cnfgen.Cli.ToolArgs Cnfgen.Cli.Tools Cnfgen.ToolsL

/-! ## non-vacuity of the hypotheses of `tool_never_escapes_cnfshuffle_partial` -/

example (s : IO.Str) : Readable (demoEnv (.text s)) := ⟨by simp [demoEnv], by simp [demoEnv]⟩

example (s : IO.Str) : NoDashDashValue shuffleSpec (demoEnv (.text s)) ["-q", "--no-p", "-vc"] := by
  intro st h
  have : parse shuffleSpec (act (demoEnv (.text s))) ["-q", "--no-p", "-vc"] {} =
      .ok { verbose := false, noFlips := true, noVperm := true, noCperm := true } := rfl
  rw [this] at h; cases h
  exact ⟨by simp, by simp⟩

/-- with the three switches on the command line the only legal draw list is the empty one, for whatever is read -/
example (s : IO.Str) : AllLegal (demoEnv (.text s)) ["-p", "-v", "-c"] [] := by
  intro st s' u n F hp _ _
  have : parse shuffleSpec (act (demoEnv (.text s))) ["-p", "-v", "-c"] {} =
      .ok { noFlips := true, noVperm := true, noCperm := true } := rfl
  rw [this] at hp; cases hp
  exact ⟨List.replicate F.nvars 1, Shuffle.iota 1 F.nvars, Shuffle.iota 0 F.clauses.length,
    [], [], [], rfl, ⟨rfl, rfl⟩, ⟨rfl, rfl⟩, ⟨rfl, rfl⟩⟩

/-- … and so the theorem applies: a clean end for every text on standard input -/
example (s : IO.Str) : Clean (cnfshuffleRun (demoEnv (.text s)) ["-p", "-v", "-c"] []) := by
  apply tool_never_escapes_cnfshuffle_partial
  · intro st h
    have : parse shuffleSpec (act (demoEnv (.text s))) ["-p", "-v", "-c"] {} =
        .ok { noFlips := true, noVperm := true, noCperm := true } := rfl
    rw [this] at h; cases h
    exact ⟨by simp, by simp⟩
  · exact ⟨by simp [demoEnv], by simp [demoEnv]⟩
  · intro st s' u n F hp _ _
    have : parse shuffleSpec (act (demoEnv (.text s))) ["-p", "-v", "-c"] {} =
        .ok { noFlips := true, noVperm := true, noCperm := true } := rfl
    rw [this] at hp; cases hp
    exact ⟨List.replicate F.nvars 1, Shuffle.iota 1 F.nvars, Shuffle.iota 0 F.clauses.length,
      [], [], [], rfl, ⟨rfl, rfl⟩, ⟨rfl, rfl⟩, ⟨rfl, rfl⟩⟩

end Cnfgen.C18
