/-
C18 for the two SMALL TOOLS, end to end: `cnfshuffle` and `kthlist2pebbling` as processes
(model `CnfgenModel/Cli/Tools.lean`: argparse on every token list ▸ open ▸ read with the character-level reader ▸
Shuffle / PebblingFormula ▸ `to_dimacs_file`).  Quantified over EVERY argv token list, EVERY environment
(`Env`: stdin content, file system as a function, header strings) and EVERY input text.

  (a) how a run can end            `cnfshuffle_outcome`, `k2p_outcome` (complete case lists),
                                   `tool_never_escapes_cnfshuffle`, `tool_never_escapes_k2p` (FULL statements),
  (b) what a successful run wrote  `tool_output_readable_cnfshuffle`, `k2p_ok_spec` (`C17.tool_output_readable_k2p`),
  (·) the report                   `report_prefix_cnfshuffle`, `report_prefix_k2p`: every report carries the comment marker.

The composition with C09 (the written formula is the shuffle of the formula read) is in Props/C09/Tools.lean, the one
with C03 / C14 / C17 (pebbling formula of the DAG read, unsatisfiable, same call as `cnfgen peb`) in
Props/C17/Tools.lean.

Three defects found with this model are FIXED in /repo; the model follows the fixed code and the former failing inputs are
kept as regression statements (notes/C18_tools.md):
  C18-T1 (3772171)  an option written `-o=--` / `-o--` / `--output=--` / `-i=--` stored `[]` (argparse quirk) and the tool died
                    with AttributeError; now a reported error                → `dashdash_value_regression`
  C18-T2 (e014bd6)  an input that opens but cannot be read (OSError) was swallowed by `main()`: exit status 0, nothing
                    written; now a reported error                            → `unreadable_input_regression`
  C18-T3 (0ec5c04)  the reports of the two tools did not carry the comment marker; now every one does
                                                                             → `report_prefix_cnfshuffle`, `report_prefix_k2p`
-/
import Props.C06.Text
import Props.C09
import Props.C14
import Lemmas.Tools
import CnfgenModel.Cli.Msg
namespace Cnfgen.C18
open Cnfgen Cnfgen.IO Cnfgen.Cli.ToolArgs Cnfgen.Cli.Tools Cnfgen.ToolsL

/-- the three ways the property allows a run to end -/
def Clean : Cli.Tools.Outcome → Prop
  | .ok _ _ => True
  | .help => True
  | .cliError _ _ => True
  | _ => False

/-! ## the reader side: whatever the DIMACS reader returns can be printed again -/

/-- a formula read from ANY text is well formed and both its counts have at most 4300 digits (they were
returned by `int()`), so `to_dimacs_file` can print it and the strict reader reads it back -/
theorem read_wf_printable (u : Bool) (s : IO.Str) (F : CNF) (h : readDimacsText u s = .ok F) :
    F.WF ∧ C06.Printable F := by
  obtain ⟨pre, post, a, b, m, hrows, _, _, _, _, hwf, hm⟩ := C06.reader_sound (lex u s) F h
  have hr : [a, b, Tok.int (F.nvars : Int), Tok.int (m : Int)] ∈ lex u s := by rw [hrows]; simp
  have h1 := lex_int_bound u s _ hr (F.nvars : Int) (by simp)
  have h2 := lex_int_bound u s _ hr (m : Int) (by simp)
  refine ⟨hwf, ?_, ?_⟩
  · simpa using h1
  · rw [hm]; simpa using h2

/-- the reader fails with ValueError only (restating `C06.reader_total` on texts) -/
theorem read_error_is_valueError (u : Bool) (s : IO.Str) (e : Err) (h : readDimacsText u s = .error e) :
    e = .valueError := by
  rcases C06.reader_total (lex u s) with ⟨F, hF⟩ | hE
  · unfold readDimacsText at h; rw [hF] at h; cases h
  · unfold readDimacsText at h; rw [hE] at h; cases h; rfl

/-! ## (b) what was written can be read -/

/-- THE OUTPUT IS A COMPLETE FORMULA: the characters `to_dimacs_file` writes for a well-formed printable formula,
with or without header, are read back by the strict reader as that formula (in both newline modes); lexed, they are
comment rows (first token `c`), then the problem row with the TRUE counts, then one row per clause. -/
theorem written_text_readable (G : CNF) (hdr : Option Header) (hwf : G.WF) (hp : C06.Printable G) (u : Bool) :
    readDimacsText u (renderDimacsText G hdr none) = .ok G ∧
    ∃ comments : List Row,
      lex u (renderDimacsText G hdr none) =
        comments ++ [Tok.word ['p'], Tok.word "cnf".toList, Tok.int (G.nvars : Int), Tok.int (G.clauses.length : Int)] ::
          G.clauses.map (fun c => c.map Tok.int ++ [Tok.int 0]) ∧
      ∀ r ∈ comments, r.cls = .comment ∧ ∃ rest, r = Tok.word ['c'] :: rest := by
  refine ⟨C06.dimacs_text_roundtrip u G hdr none hwf hp, ?_⟩
  rw [C06.dimacs_text_lex u G hdr none hwf hp]
  exact C06.render_shape u G hdr none

/-! ## cnfshuffle -/

open Cnfgen.Shuffle in
/-- the draws are a legal answer of the `random` module to the calls `Shuffle` makes on `F` with the switches
of the namespace: one `choice` in `{-1, 1}` per variable unless `-p`, one shuffled `[1..N]` unless `-v`, one
shuffled `[0..M-1]` unless `-c`, nothing else; `fl vp cp` are the arguments they determine -/
def LegalDraws (st : Args) (F : CNF) (ds : List Draw) (fl vp cp : List Int) : Prop :=
  Resolves F (toolArg st.noFlips) (toolArg st.noVperm) (toolArg st.noCperm) ds fl vp cp

theorem toolArg_eq_C09 (b : Bool) : Cli.Tools.toolArg b = C09.toolArg b := rfl

/-- the header cnfshuffle writes (unless `-q`) -/
def shuffleHdr (env : Env) (name : String) : Shuffle.Header :=
  Shuffle.shuffleHeader (baseHeader env ("Formula from DIMACS file " ++ name))

/-- everything `cnfshuffle` does after a successful parse, case by case (`st` = the namespace) -/
theorem shuffleBody_cases (env : Env) (st : Args) (ds : List Shuffle.Draw) :
    (∃ u n, inputOf env st = (.unreadable, u, n) ∧ shuffleBody env st ds = .cliError .parser "c ") ∨
    (∃ u n, inputOf env st = (.undecodable, u, n) ∧ shuffleBody env st ds = .cliError .reader "c ") ∨
    (∃ s u n, inputOf env st = (.text s, u, n) ∧ readDimacsText u s = .error .valueError ∧
      shuffleBody env st ds = .cliError .reader "c ") ∨
    (∃ s u n F, inputOf env st = (.text s, u, n) ∧ readDimacsText u s = .ok F ∧
      shuffleBody env st ds =
        match Shuffle.run F (toolArg st.noFlips) (toolArg st.noVperm) (toolArg st.noCperm) ds with
        | none => .badDraws
        | some (.error e, _) => errOutcome "" e
        | some (.ok G, _) => writeOut st G (shuffleHdr env n)) := by
  unfold shuffleBody
  rcases hin : inputOf env st with ⟨c, u, n⟩
  cases c with
  | unreadable => left; exact ⟨u, n, rfl, rfl⟩
  | undecodable => right; left; exact ⟨u, n, rfl, rfl⟩
  | text s =>
    right; right
    cases hr : readDimacsText u s with
    | error e =>
      left
      have := read_error_is_valueError u s e hr
      subst this
      exact ⟨s, u, n, rfl, hr, by simp [hr, errOutcome]⟩
    | ok F =>
      right
      refine ⟨s, u, n, F, rfl, hr, ?_⟩
      simp only [hr, shuffleHdr]
      rcases Shuffle.run F (toolArg st.noFlips) (toolArg st.noVperm) (toolArg st.noCperm) ds with _ | ⟨⟨e | G⟩, r⟩ <;> rfl

/-- with legal draws: the formula read is shuffled by the arguments the draws determine, and written -/
theorem shuffleBody_legal (env : Env) (st : Args) (ds : List Shuffle.Draw) (s : IO.Str) (u : Bool) (n : String)
    (F : CNF) (hin : inputOf env st = (.text s, u, n)) (hF : readDimacsText u s = .ok F)
    (fl vp cp : List Int) (hl : LegalDraws st F ds fl vp cp) :
    ∃ G, Shuffle.shuffle F fl vp cp = .ok G ∧ Shuffle.Valid F fl vp cp ∧
      (st.noFlips = true → fl = List.replicate F.nvars 1) ∧ (st.noVperm = true → vp = Shuffle.iota 1 F.nvars) ∧
      (st.noCperm = true → cp = Shuffle.iota 0 F.clauses.length) ∧
      shuffleBody env st ds = writeOut st G (shuffleHdr env n) := by
  have hwf := (read_wf_printable u s F hF).1
  obtain ⟨G, hrun, hsh, hV, h1, h2, h3⟩ := C09.tool_call F hwf st.noFlips st.noVperm st.noCperm ds fl vp cp hl
  refine ⟨G, hsh, hV, h1, h2, h3, ?_⟩
  unfold shuffleBody
  rw [hin]
  simp only [hF]
  rw [toolArg_eq_C09, toolArg_eq_C09, toolArg_eq_C09, hrun]
  rfl

/-- `AllLegal env argv ds`: whatever formula the command line makes the tool read, the draws are legal for it -/
def AllLegal (env : Env) (argv : List String) (ds : List Shuffle.Draw) : Prop :=
  ∀ st s u n F, parse shuffleSpec (act env) argv {} = .ok st → inputOf env st = (.text s, u, n) →
    readDimacsText u s = .ok F → ∃ fl vp cp, LegalDraws st F ds fl vp cp

/-- (a) for cnfshuffle, COMPLETE: every run ends in one of four ways — or the draws are not legal -/
theorem cnfshuffle_outcome (env : Env) (argv : List String) (ds : List Shuffle.Draw) :
    cnfshuffleRun env argv ds = .help ∨
    cnfshuffleRun env argv ds = .cliError .parser "c " ∨
    cnfshuffleRun env argv ds = .cliError .reader "c " ∨
    (∃ d t, cnfshuffleRun env argv ds = .ok d t) ∨
    (∃ st s u n F, parse shuffleSpec (act env) argv {} = .ok st ∧ inputOf env st = (.text s, u, n) ∧
      readDimacsText u s = .ok F ∧ ¬ ∃ fl vp cp, LegalDraws st F ds fl vp cp) := by
  unfold cnfshuffleRun
  cases hp : parse shuffleSpec (act env) argv {} with
  | error x =>
    cases x with
    | help => left; rfl
    | error => right; left; rfl
    | sub a b c d => right; left; rfl
  | ok st =>
    simp only
    rcases shuffleBody_cases env st ds with ⟨u, n, _, hb⟩ | ⟨u, n, _, hb⟩ | ⟨s, u, n, _, _, hb⟩ | ⟨s, u, n, F, hi, hF, hb⟩
    · right; left; exact hb
    · right; right; left; exact hb
    · right; right; left; exact hb
    · by_cases hl : ∃ fl vp cp, LegalDraws st F ds fl vp cp
      · obtain ⟨fl, vp, cp, hl⟩ := hl
        obtain ⟨G, _, _, _, _, _, hw⟩ := shuffleBody_legal env st ds s u n F hi hF fl vp cp hl
        right; right; right; left; exact ⟨_, _, by rw [hw, writeOut_eq]⟩
      · right; right; right; right; exact ⟨st, s, u, n, F, rfl, hi, hF, hl⟩

/-- (a) `tool_never_escapes` for cnfshuffle, FULL STRENGTH: for every argv token list, every environment (every stdin
content and file system: missing, undecodable and unreadable files included) and all legal draws, the run ends in a written
formula, the help, or a reported error.  (Full since the fixes 3772171 and e014bd6 of /repo; `AllLegal` is the only
assumption on Python's `random`: `choice([-1,1])` answers -1 or 1, `shuffle` permutes its list.) -/
theorem tool_never_escapes_cnfshuffle (env : Env) (argv : List String) (ds : List Shuffle.Draw)
    (hl : AllLegal env argv ds) : Clean (cnfshuffleRun env argv ds) := by
  rcases cnfshuffle_outcome env argv ds with h | h | h | ⟨d, t, h⟩ | ⟨st, s, u, n, F, hp, hi, hF, hno⟩
  · rw [h]; trivial
  · rw [h]; trivial
  · rw [h]; trivial
  · rw [h]; trivial
  · exact absurd (hl st s u n F hp hi hF) hno

/-- a small environment: the given content on stdin, no files -/
def demoEnv (stdin : Content) : Env :=
  { stdin := stdin, stdinUniversal := true, stdinName := "<stdin>", file := fun _ => none, writable := fun _ => true,
    generator := "CNFgen", copyright := "(C)", url := "https://massimolauria.net/cnfgen" }

/-- regression (C18-T1, fixed by 3772171): `cnfshuffle -p -v -c -o=--` used to die with AttributeError; the explicit value
`--` is now a reported command-line error, in every spelling -/
theorem dashdash_value_regression :
    cnfshuffleRun (demoEnv (.text "p cnf 2 1\n1 -2 0\n".toList)) ["-p", "-v", "-c", "-o=--"] [] = .cliError .parser "c " ∧
    cnfshuffleRun (demoEnv (.text "p cnf 2 1\n1 -2 0\n".toList)) ["-o--"] [] = .cliError .parser "c " ∧
    cnfshuffleRun (demoEnv (.text "p cnf 2 1\n1 -2 0\n".toList)) ["--input=--"] [] = .cliError .parser "c " ∧
    cnfshuffleRun (demoEnv (.text "p cnf 2 1\n1 -2 0\n".toList)) ["-qS--"] [] = .cliError .parser "c " := by
  decide +kernel

/-- regression (C18-T2, fixed by e014bd6): an input that cannot be read used to end the tool silently with exit status 0;
it is now a reported error with status 255 -/
theorem unreadable_input_regression :
    cnfshuffleRun (demoEnv .unreadable) [] [] = .cliError .parser "c " ∧ exitStatus (.cliError .parser "c ") = 255 := by
  decide +kernel

/-- (b) for cnfshuffle: when the run ends with exit status 0 and a text `t` written to `d` (legal draws), `t` is the
DIMACS rendering of a well-formed formula `G` with printable counts — hence the strict reader accepts the written
CHARACTERS and returns `G`, the problem line states the true counts of `G`, every row before it is a comment and
every row after it a clause — and `G` is the shuffle of the formula `F` the input text denotes by the arguments
`fl vp cp` the draws determine (the input text is the one the command line names: stdin or the `-i` file). -/
theorem cnfshuffle_ok_spec (env : Env) (argv : List String) (ds : List Shuffle.Draw) (d : Dest) (t : IO.Str)
    (h : cnfshuffleRun env argv ds = .ok d t) (hl : AllLegal env argv ds) :
    ∃ st s u n F G fl vp cp,
      parse shuffleSpec (act env) argv {} = .ok st ∧ inputOf env st = (.text s, u, n) ∧
      readDimacsText u s = .ok F ∧ LegalDraws st F ds fl vp cp ∧
      Shuffle.shuffle F fl vp cp = .ok G ∧ Shuffle.Valid F fl vp cp ∧
      (st.noFlips = true → fl = List.replicate F.nvars 1) ∧ (st.noVperm = true → vp = Shuffle.iota 1 F.nvars) ∧
      (st.noCperm = true → cp = Shuffle.iota 0 F.clauses.length) ∧
      destOf st.output = d ∧
      t = renderDimacsText G (if st.verbose then some (toIOHeader (shuffleHdr env n)) else none) none ∧
      F.WF ∧ G.WF ∧ C06.Printable G := by
  unfold cnfshuffleRun at h
  cases hp : parse shuffleSpec (act env) argv {} with
  | error x => rw [hp] at h; cases x <;> cases h
  | ok st =>
    rw [hp] at h
    simp only at h
    rcases shuffleBody_cases env st ds with ⟨u, n, _, hb⟩ | ⟨u, n, _, hb⟩ | ⟨s, u, n, _, _, hb⟩ | ⟨s, u, n, F, hi, hF, _⟩
    · rw [hb] at h; cases h
    · rw [hb] at h; cases h
    · rw [hb] at h; cases h
    · obtain ⟨fl, vp, cp, hleg⟩ := hl st s u n F hp hi hF
      obtain ⟨G, hsh, hV, h1, h2, h3, hw⟩ := shuffleBody_legal env st ds s u n F hi hF fl vp cp hleg
      rw [hw, writeOut_eq] at h
      cases h
      obtain ⟨hwf, hpr⟩ := read_wf_printable u s F hF
      have hGwf : G.WF := C09.result_wf hwf hsh
      have hGp : C06.Printable G := by
        unfold C06.Printable
        rw [C09.nvars_eq hwf hsh, C09.clauses_length_eq hwf hsh]
        exact hpr
      exact ⟨st, s, u, n, F, G, fl, vp, cp, rfl, hi, hF, hleg, hsh, hV, h1, h2, h3, rfl, rfl, hwf, hGwf, hGp⟩

/-- (b) `tool_output_readable` for cnfshuffle -/
theorem tool_output_readable_cnfshuffle (env : Env) (argv : List String) (ds : List Shuffle.Draw) (d : Dest)
    (t : IO.Str) (h : cnfshuffleRun env argv ds = .ok d t) (hl : AllLegal env argv ds) (u : Bool) :
    ∃ G : CNF, readDimacsText u t = .ok G ∧ G.WF ∧
      ∃ comments : List Row,
        lex u t = comments ++ [Tok.word ['p'], Tok.word "cnf".toList, Tok.int (G.nvars : Int), Tok.int (G.clauses.length : Int)] ::
          G.clauses.map (fun c => c.map Tok.int ++ [Tok.int 0]) ∧
        ∀ r ∈ comments, r.cls = .comment ∧ ∃ rest, r = Tok.word ['c'] :: rest := by
  obtain ⟨st, s, u', n, F, G, fl, vp, cp, _, _, _, _, _, _, _, _, _, _, ht, _, hG, hGp⟩ :=
    cnfshuffle_ok_spec env argv ds d t h hl
  subst ht
  obtain ⟨h1, h2⟩ := written_text_readable G _ hG hGp u
  exact ⟨G, h1, hG, h2⟩

theorem errOutcome_prefix (p : String) (e : Err) (src : ErrSrc) (pfx : String)
    (h : errOutcome p e = .cliError src pfx) : pfx = p := by
  unfold errOutcome at h
  split at h <;> cases h
  rfl

/-- the comment marker of the output format of both tools (DIMACS), from the regenerated table of msg prefixes -/
theorem comment_marker_dimacs : Cli.prefixOf "dimacs" = "c " := by decide +kernel

/-- C18's "prefixed with the comment marker", FULL STRENGTH for cnfshuffle (since fix 0ec5c04): whatever makes the run end in
a report — a refused command line, a file that cannot be opened, an unreadable or undecodable input, a text that denotes no
formula — every line of the report starts with the comment marker of the output format (legal draws: `Shuffle` itself
then raises nothing) -/
theorem report_prefix_cnfshuffle (env : Env) (argv : List String) (ds : List Shuffle.Draw) (src : ErrSrc)
    (pfx : String) (hl : AllLegal env argv ds) (h : cnfshuffleRun env argv ds = .cliError src pfx) :
    pfx = Cli.prefixOf "dimacs" := by
  rw [comment_marker_dimacs]
  rcases cnfshuffle_outcome env argv ds with h' | h' | h' | ⟨d, t, h'⟩ | ⟨st, s, u, n, F, hp, hi, hF, hno⟩
  · rw [h'] at h; cases h
  · rw [h'] at h; cases h; rfl
  · rw [h'] at h; cases h; rfl
  · rw [h'] at h; cases h
  · exact absurd (hl st s u n F hp hi hF) hno

/-! non-vacuity: a complete run by the kernel -/

/-- `cnfshuffle -q -c` on a 3-variable formula with comments and odd layout; draws: three flips, the variable order -/
example : cnfshuffleRun (demoEnv (.text "c hi\np cnf 3 2\n1 -2\n 0 3 0\n".toList)) ["-q", "-c"]
    [.choice (-1), .choice 1, .choice 1, .shuffled [2, 3, 1]] = .ok .stdout "p cnf 3 2\n-2 -3 0\n1 0\n".toList := by
  decide +kernel

example : cnfshuffleRun (demoEnv (.text "p cnf 1 1\n1 0\n".toList)) ["-pvc"] [] =
    .ok .stdout ("c description: Formula from DIMACS file <stdin> (reshuffled)\nc generator: CNFgen\nc copyright: (C)\n" ++
      "c url: https://massimolauria.net/cnfgen\nc transformation 1: Formula reshuffling\nc\np cnf 1 1\n1 0\n").toList := by
  decide +kernel

example : cnfshuffleRun (demoEnv (.text "p cnf 1 1\n2 0\n".toList)) [] [] = .cliError .reader "c " := by decide +kernel
example : cnfshuffleRun (demoEnv (.text [])) ["-i", "missing"] [] = .cliError .parser "c " := by decide +kernel
example : cnfshuffleRun (demoEnv (.text [])) ["-i", "missing", "-h"] [] = .cliError .parser "c " := by decide +kernel
example : cnfshuffleRun (demoEnv (.text [])) ["-h", "-i", "missing"] [] = .help := by decide +kernel
example : cnfshuffleRun (demoEnv (.text [])) ["--no"] [] = .cliError .parser "c " := by decide +kernel
example : cnfshuffleRun (demoEnv (.text [])) ["-h", "--no"] [] = .cliError .parser "c " := by decide +kernel

/-! ## kthlist2pebbling -/

/-- the DAG a text denotes for the tool: lexed (after newline translation if the stream translates) and read by the
`dag` kthlist reader of C14 -/
def readDag (u : Bool) (s : IO.Str) : Except Err GraphFmt.AnyG :=
  GraphFmt.readGraph .dag (.kth (GraphLex.lexKth (if u then GraphLex.universalNL s else s)))

/-- the header kthlist2pebbling writes (unless `-q`) -/
def k2pHdr (env : Env) (u : Bool) (s : IO.Str) : Shuffle.Header :=
  baseHeader env ("Pebbling formula for " ++
    String.ofList (kthName (GraphLex.readlines (if u then GraphLex.universalNL s else s))))

theorem readDag_error (u : Bool) (s : IO.Str) (e : Err) (h : readDag u s = .error e) : e = .valueError :=
  C14.reader_raises_only_valueError .dag _ e h

theorem readDag_ok (u : Bool) (s : IO.Str) (G : GraphFmt.AnyG) (h : readDag u s = .ok G) :
    ∃ D, G = .di D ∧ DiG.Inv D ∧ D.stillDag = true ∧ ∀ e ∈ D.edges, e.1 < e.2 :=
  C14.dag_edges_increasing _ G h

/-- everything `kthlist2pebbling` (without a transformation) does after a successful parse, case by case -/
theorem k2pBody_cases (env : Env) (st : Args) :
    (∃ u n, inputOf env st = (.unreadable, u, n) ∧ k2pBody env st = .cliError .parser "c ") ∨
    (∃ u n, inputOf env st = (.undecodable, u, n) ∧ k2pBody env st = .cliError .reader "c ") ∨
    (∃ s u n, inputOf env st = (.text s, u, n) ∧ readDag u s = .error .valueError ∧
      k2pBody env st = .cliError .reader "c ") ∨
    (∃ s u n D, inputOf env st = (.text s, u, n) ∧ readDag u s = .ok (.di D) ∧ DiG.Inv D ∧ D.stillDag = true ∧
      k2pBody env st = writeOut st (Fam.Pebbling.peb D).toCNF (k2pHdr env u s)) := by
  unfold k2pBody
  rcases hin : inputOf env st with ⟨c, u, n⟩
  cases c with
  | unreadable => left; exact ⟨u, n, rfl, rfl⟩
  | undecodable => right; left; exact ⟨u, n, rfl, rfl⟩
  | text s =>
    right; right
    cases hr : readDag u s with
    | error e =>
      left
      have := readDag_error u s e hr
      subst this
      refine ⟨s, u, n, rfl, hr, ?_⟩
      unfold readDag at hr
      simp only [hr, errOutcome_valueError]
    | ok G =>
      right
      obtain ⟨D, rfl, hinv, hd, _⟩ := readDag_ok u s G hr
      refine ⟨s, u, n, D, rfl, hr, hinv, hd, ?_⟩
      unfold readDag at hr
      simp only [hr, Fam.Pebbling.pebbling, hd, k2pHdr]
      rfl

/-- (a) for kthlist2pebbling, COMPLETE: the command line selects a transformation sub-command (outside this model), or
the run ends in one of four ways -/
theorem k2p_outcome (env : Env) (argv : List String) :
    (k2pRun env argv = none ∧ ∃ name rest st ex, parse k2pSpec (act env) argv {} = .error (.sub name rest st ex) ∧
        name ∈ transformationNames) ∨
    k2pRun env argv = some .help ∨
    k2pRun env argv = some (.cliError .parser "c ") ∨
    k2pRun env argv = some (.cliError .reader "c ") ∨
    (∃ d t, k2pRun env argv = some (.ok d t)) := by
  unfold k2pRun
  cases hp : parse k2pSpec (act env) argv {} with
  | error x =>
    cases x with
    | help => right; left; rfl
    | error => right; right; left; rfl
    | sub a b c d =>
      left
      refine ⟨rfl, a, b, c, d, rfl, ?_⟩
      exact sub_name_mem k2pSpec (act env) argv {} a b c d hp transformationNames rfl
  | ok st =>
    simp only
    rcases k2pBody_cases env st with ⟨u, n, _, hb⟩ | ⟨u, n, _, hb⟩ | ⟨s, u, n, _, _, hb⟩ | ⟨s, u, n, D, _, _, _, _, hb⟩
    · right; right; left; rw [hb]
    · right; right; right; left; rw [hb]
    · right; right; right; left; rw [hb]
    · right; right; right; right; exact ⟨_, _, by rw [hb, writeOut_eq]⟩

/-- (a) `tool_never_escapes` for kthlist2pebbling: for every argv token list and every environment (missing, undecodable,
unreadable inputs included), a run the model covers ends in a written formula, the help, or a reported error — with NO
hypothesis (full since the fixes 3772171 and e014bd6 of /repo).  `k2pRun = none` exactly when the command line selects one
of the 17 transformation sub-commands (`k2p_outcome`): their sub-parsers and `transform_cnf` are outside this model, and
that is the only thing missing. -/
theorem tool_never_escapes_k2p (env : Env) (argv : List String) (o : Cli.Tools.Outcome)
    (h : k2pRun env argv = some o) : Clean o := by
  rcases k2p_outcome env argv with ⟨h', _⟩ | h' | h' | h' | ⟨d, t, h'⟩ <;> rw [h'] at h <;> cases h <;> trivial

/-- (b) for kthlist2pebbling: when the run ends with exit status 0 and a text `t` written to `d`, the input text denotes a
DAG `D` (the `dag` kthlist reader accepted it: every edge increasing) and `t` is the DIMACS rendering of the pebbling
formula of `D`, with the header unless `-q` -/
theorem k2p_ok_spec (env : Env) (argv : List String) (d : Dest) (t : IO.Str) (h : k2pRun env argv = some (.ok d t)) :
    ∃ st s u n D,
      parse k2pSpec (act env) argv {} = .ok st ∧ inputOf env st = (.text s, u, n) ∧
      readDag u s = .ok (.di D) ∧ DiG.Inv D ∧ D.stillDag = true ∧ destOf st.output = d ∧
      t = renderDimacsText (Fam.Pebbling.peb D).toCNF (if st.verbose then some (toIOHeader (k2pHdr env u s)) else none) none := by
  unfold k2pRun at h
  cases hp : parse k2pSpec (act env) argv {} with
  | error x => rw [hp] at h; cases x <;> simp at h
  | ok st =>
    rw [hp] at h
    simp only [Option.some.injEq] at h
    rcases k2pBody_cases env st with ⟨u, n, _, hb⟩ | ⟨u, n, _, hb⟩ | ⟨s, u, n, _, _, hb⟩ |
        ⟨s, u, n, D, hi, hr, hinv, hd, hb⟩
    · rw [hb] at h; cases h
    · rw [hb] at h; cases h
    · rw [hb] at h; cases h
    · rw [hb, writeOut_eq] at h
      cases h
      exact ⟨st, s, u, n, D, rfl, hi, hr, hinv, hd, rfl, rfl⟩

/-- C18's "prefixed with the comment marker", FULL STRENGTH for kthlist2pebbling (since fix 0ec5c04): every report — refused
command line, file that cannot be opened, unreadable / undecodable input, text that is not a DAG in increasing order —
carries the comment marker of the output format -/
theorem report_prefix_k2p (env : Env) (argv : List String) (src : ErrSrc) (pfx : String)
    (h : k2pRun env argv = some (.cliError src pfx)) : pfx = Cli.prefixOf "dimacs" := by
  rw [comment_marker_dimacs]
  rcases k2p_outcome env argv with ⟨h', _⟩ | h' | h' | h' | ⟨d, t, h'⟩ <;> rw [h'] at h <;> cases h <;> rfl

/-! non-vacuity -/

example : k2pRun (demoEnv (.text "c pyramid\n3\n1 : 0\n2 : 0\n3 : 1 2 0\n".toList)) ["-q"] =
    some (.ok .stdout "p cnf 3 4\n1 0\n2 0\n-1 -2 3 0\n-3 0\n".toList) := by decide +kernel

example : k2pRun (demoEnv (.text "c pyramid\r\n1\r\n".toList)) [] =
    some (.ok .stdout ("c description: Pebbling formula for pyramid\nc generator: CNFgen\nc copyright: (C)\n" ++
      "c url: https://massimolauria.net/cnfgen\nc\np cnf 1 2\n1 0\n-1 0\n").toList) := by decide +kernel

/-- not in increasing order: refused, with the prefixed report -/
example : k2pRun (demoEnv (.text "2\n1 : 2 0\n2 : 0\n".toList)) [] = some (.cliError .reader "c ") := by decide +kernel
example : k2pRun (demoEnv (.text "2\n".toList)) ["--bogus"] = some (.cliError .parser "c ") := by decide +kernel
example : k2pRun (demoEnv (.text "2\n".toList)) ["nosuch"] = some (.cliError .parser "c ") := by decide +kernel
example : k2pRun (demoEnv (.text "2\n".toList)) ["xor", "2"] = none := by decide +kernel
/-- regressions (C18-T1, C18-T2): reported errors now -/
example : k2pRun (demoEnv (.text "2\n".toList)) ["-i--"] = some (.cliError .parser "c ") := by decide +kernel
example : k2pRun (demoEnv .unreadable) [] = some (.cliError .parser "c ") := by decide +kernel

end Cnfgen.C18

namespace Cnfgen.C18
open Cnfgen Cnfgen.Cli.ToolArgs Cnfgen.Cli.Tools

/-! ## the tie of the two hand-written parsers to the source

`Gen.tools` is regenerated from `cnfshuffle.py` / `kthlist2pebbling.py` on every run (tools/extract_tables.py): every
`add_argument` with its option strings, `type=`, `action=`, default.  The option tables of the model ARE the generated
ones (plus the `-h`, `--help` of argparse itself); a new, renamed or re-typed option breaks this proof. -/

/-- what the model assumes about each option's `type=` / `action=` -/
def argSpecOK (a : Gen.ArgSpec) : Bool :=
  (a.dest == "output" && a.ty == "argparse.FileType('w')" && a.action == "" && a.default == "-") ||
  (a.dest == "input" && a.ty == "argparse.FileType('r')" && a.action == "" && a.default == "-") ||
  (a.dest == "seed" && a.ty == "str" && a.action == "store" && a.default == "None") ||
  ((a.dest == "no_polarity_flips" || a.dest == "no_variables_permutation" || a.dest == "no_clauses_permutation") &&
    a.ty == "" && a.action == "store_true") ||
  (a.dest == "verbose" && a.ty == "" && a.action == "store_false" && (a.default == "" || a.default == "True"))

theorem tool_parsers_match_source :
    shuffleSpec.opts = generatedOpts "cnfshuffle" ∧ k2pSpec.opts = generatedOpts "kthlist2pebbling" ∧
    (Gen.tools.all (fun t => (t.tool != "cnfshuffle" && t.tool != "kthlist2pebbling") ||
      t.args.all (fun a => argSpecOK a && a.nargs == "" && a.choices.isEmpty))) = true ∧
    shuffleSpec.noNegativeOptions = true ∧ k2pSpec.noNegativeOptions = true ∧
    shuffleSpec.subs = none ∧ k2pSpec.subs = some transformationNames ∧ transformationNames.length = 17 ∧
    "--" ∉ transformationNames := by
  decide +kernel

end Cnfgen.C18

namespace Cnfgen.C18
open Cnfgen Cnfgen.IO Cnfgen.Cli.ToolArgs Cnfgen.Cli.Tools Cnfgen.ToolsL

/-! ## non-vacuity of the hypothesis of `tool_never_escapes_cnfshuffle` -/

/-- with the three switches on the command line the only legal draw list is the empty one, for whatever is read -/
example (s : IO.Str) : AllLegal (demoEnv (.text s)) ["-p", "-v", "-c"] [] := by
  intro st s' u n F hp _ _
  have : parse shuffleSpec (act (demoEnv (.text s))) ["-p", "-v", "-c"] {} =
      .ok { noFlips := true, noVperm := true, noCperm := true } := rfl
  rw [this] at hp; cases hp
  exact ⟨List.replicate F.nvars 1, Shuffle.iota 1 F.nvars, Shuffle.iota 0 F.clauses.length,
    [], [], [], rfl, ⟨rfl, rfl⟩, ⟨rfl, rfl⟩, ⟨rfl, rfl⟩⟩

/-- a command line that the parser refuses makes `AllLegal` hold for every draw list: the theorem applies to all of them -/
example (c : Content) (ds : List Shuffle.Draw) : Clean (cnfshuffleRun (demoEnv c) ["-o=--"] ds) := by
  apply tool_never_escapes_cnfshuffle
  intro st s u n F hp _ _
  have : parse shuffleSpec (act (demoEnv c)) ["-o=--"] {} = .error .error := rfl
  rw [this] at hp; cases hp

end Cnfgen.C18
