/-
C18 — the generators can fail only with ValueError, which `cli()` shields (`C18.shield_total`):
for every family model and every argument tuple (also out-of-range ones) the outcome of the build step is
a formula or a command-line error, never an escaped exception.
-/
import CnfgenModel.Cli.Validate
import CnfgenModel.Fam.Php
import CnfgenModel.Fam.Counting
import CnfgenModel.Fam.CliqueColoring
import CnfgenModel.Fam.Coloring
import CnfgenModel.Fam.DomSet
import CnfgenModel.Fam.Ordering
import CnfgenModel.Fam.Pebbling
import CnfgenModel.Fam.Subgraph
import CnfgenModel.Fam.Ramsey
namespace Cnfgen.C18
open Cnfgen Cnfgen.Cli Cnfgen.Fam

/-- a build step is *clean* when it can only fail with ValueError -/
def Clean {α : Type} (r : Except Err α) : Prop := ∀ e, r = .error e → e = .valueError

theorem clean_shielded {α : Type} (r : Except Err α) (h : Clean r) : shield r = .ok ∨ shield r = .cliError := by
  cases r with
  | ok a => exact Or.inl rfl
  | error e => have := h e rfl; subst this; exact Or.inr rfl

theorem php_clean (m n : Int) (f o : Bool) : Clean (php m n f o) := by
  intro e h; unfold php at h; split at h <;> simp_all
theorem bphp_clean (m n : Int) : Clean (bphp m n) := by
  intro e h; unfold bphp at h; repeat (first | split at h | skip) <;> simp_all
theorem rphp_clean (m r n : Int) : Clean (rphp m r n) := by
  intro e h; unfold rphp at h; split at h <;> simp_all
theorem counting_clean (M p : Int) : Clean (counting M p) := by
  intro e h; unfold counting at h; split at h
  · simp_all
  · split at h <;> simp_all
theorem cliqueColoring_clean (n k c : Int) : Clean (cliqueColoring n k c) := by
  intro e h; unfold cliqueColoring at h; split at h <;> simp_all
theorem coloring_clean (G : SimpleG) (k : Int) (fn : Bool) : Clean (coloring G k fn) := by
  intro e h; unfold coloring at h; split at h <;> simp_all
theorem evenColoring_clean (G : SimpleG) : Clean (evenColoring G) := by
  intro e h; unfold evenColoring at h; split at h <;> simp_all
theorem domset_clean (G : SimpleG) (d : Int) (alt : Bool) : Clean (domset G d alt) := by
  intro e h; unfold domset at h; split at h <;> simp_all
theorem op_clean (n : Int) (t s p : Bool) (k : Int) : Clean (Ordering.op n t s p k) := by
  intro e h; unfold Ordering.op at h; split at h <;> simp_all
theorem pebbling_clean (D : DiG) : Clean (Pebbling.pebbling D) := by
  intro e h; unfold Pebbling.pebbling at h; split at h <;> simp_all
theorem sparseStone_clean (D : DiG) (B : BipG) : Clean (Pebbling.sparseStone D B) := by
  intro e h; unfold Pebbling.sparseStone at h; repeat (first | split at h | skip) <;> simp_all
theorem stone_clean (D : DiG) (k : Int) : Clean (Pebbling.stone D k) := by
  intro e h; unfold Pebbling.stone at h
  split at h
  · simp_all
  · split at h
    · simp_all
    · exact sparseStone_clean D _ e h

theorem cliqueFormula_clean (G : SimpleG) (k : Int) (sb : Bool) : Clean (G2.cliqueFormula G k sb) := by
  intro e h; unfold G2.cliqueFormula at h; split at h <;> simp_all
theorem ramseyWitness_clean (G : SimpleG) (k s : Int) (sb : Bool) : Clean (G2.ramseyWitnessFormula G k s sb) := by
  intro e h; unfold G2.ramseyWitnessFormula at h; repeat (first | split at h | skip) <;> simp_all

/-- the build step of every sub-command modelled here ends in a formula or a command-line error -/
theorem families_shielded :
    (∀ m n f o, shield (php m n f o) = .ok ∨ shield (php m n f o) = .cliError) ∧
    (∀ M p, shield (counting M p) = .ok ∨ shield (counting M p) = .cliError) ∧
    (∀ D, shield (Pebbling.pebbling D) = .ok ∨ shield (Pebbling.pebbling D) = .cliError) ∧
    (∀ D k, shield (Pebbling.stone D k) = .ok ∨ shield (Pebbling.stone D k) = .cliError) ∧
    (∀ n t s p k, shield (Ordering.op n t s p k) = .ok ∨ shield (Ordering.op n t s p k) = .cliError) :=
  ⟨fun m n f o => clean_shielded _ (php_clean m n f o), fun M p => clean_shielded _ (counting_clean M p),
   fun D => clean_shielded _ (pebbling_clean D), fun D k => clean_shielded _ (stone_clean D k),
   fun n t s p k => clean_shielded _ (op_clean n t s p k)⟩

example : shield (php (-1) 3 false false) = .cliError := by decide
example : shield (counting 4 0) = .cliError := by decide

end Cnfgen.C18
