/-
C18 (output text) — what a successful run writes is a complete formula that the strict reader of the chosen format
accepts: header counts matching the body, nothing but comments around it.

`cliText` (CnfgenModel/Cli/Text.lean) = the writer of the output format applied to the rendering (CNF for `cnfgen`,
OPB for `pbgen`) of the formula of the family model reached by `dispatch`, under the header `cli()` completes and the
variable names — both arbitrary.  The theorem composes `C18.end_to_end` with the character-level round trips
`C06.dimacs_text_roundtrip`, `C12.opb_text_roundtrip`, `C12.opb_text_roundtrip_cnf`.
-/
import Lemmas.CliText
import Props.C18.EndToEnd
import Props.C06.Text
import Props.C12.Text
import Props.C01.Php
import Props.C01.Bphp
import Props.C01.Rphp
import Props.C01.Counting
import Props.C01.CliqueColoring
import Props.C03.Ramsey
import Props.C03.Order
namespace Cnfgen.C18
open Cnfgen Cnfgen.Cli Cnfgen.Gen Cnfgen.IO

/-! ### the formula of every mapped generator is well formed -/

theorem php_ok_wf (m n : Int) (f o : Bool) (F : Formula) (h : Fam.php m n f o = .ok F) : F.WF := by
  unfold Fam.php at h
  split at h
  · cases h
  · cases h; exact C01.php_wf _ _ f o

theorem bphp_ok_wf (m n : Int) (F : Formula) (h : Fam.bphp m n = .ok F) : F.WF := by
  unfold Fam.bphp at h
  split at h
  · cases h
  · cases h; exact C01.bphp_wf _ _

theorem rphp_ok_wf (m r n : Int) (F : Formula) (h : Fam.rphp m r n = .ok F) : F.WF := by
  unfold Fam.rphp at h
  split at h
  · cases h
  · cases h; exact C01.rphp_wf _ _ _

theorem counting_ok_wf (m p : Int) (F : Formula) (h : Fam.counting m p = .ok F) : F.WF := by
  unfold Fam.counting at h
  split at h
  · cases h
  · split at h
    · cases h
    · cases h; exact C01.counting_wf _ _

theorem cliqueColoring_ok_wf (n k c : Int) (F : Formula) (h : Fam.cliqueColoring n k c = .ok F) : F.WF := by
  unfold Fam.cliqueColoring at h
  split at h
  · cases h
  · cases h; exact C01.cc_wf _ _ _

theorem op_ok_wf (n : Int) (t s p : Bool) (k : Int) (F : Formula) (h : Fam.Ordering.op n t s p k = .ok F) :
    F.WF := by
  unfold Fam.Ordering.op at h
  split at h
  · cases h
  · cases h; exact Fam.Ordering.gop_wf _ (Fam.Ordering.completeG_ok _) t s p k

theorem dich_ok {α : Type} (x : Except Err α) (P : Prop) (hd : dout_Dich x P) (a : α) (h : x = .ok a) : P := by
  rcases hd with ⟨he, _⟩ | ⟨_, hp⟩
  · rw [h] at he; cases he
  · exact hp

theorem ptn_ok_wf (n : Int) (F : Formula) (h : Fam.Ramsey.ptn n = .ok F) : F.WF := by
  have hp := dich_ok _ _ (dout_ptn n) F h
  have hn : n = ((n.toNat : Nat) : Int) := by omega
  rw [hn] at h
  exact (C03.ptn_nvars_wf n.toNat F h).2

theorem ramseyNumber_ok_wf (s k n : Int) (F : Formula) (h : Fam.Ramsey.ramseyNumber s k n = .ok F) : F.WF := by
  have hp := dich_ok _ _ (dout_ramsey s k n) F h
  have hs : s = ((s.toNat : Nat) : Int) := by omega
  have hk : k = ((k.toNat : Nat) : Int) := by omega
  have hn : n = ((n.toNat : Nat) : Int) := by omega
  rw [hs, hk, hn] at h
  exact (C03.ramsey_nvars_wf s.toNat k.toNat n.toNat (by omega) (by omega) F h).2

theorem map_toNat_cast (ks : List Int) (h : ∀ x ∈ ks, 1 ≤ x) :
    (ks.map Int.toNat).map (fun (x : Nat) => (x : Int)) = ks := by
  induction ks with
  | nil => rfl
  | cons a r ih =>
    have := h a (by simp)
    simp only [List.map_cons, List.cons.injEq]
    exact ⟨by omega, ih (fun x hx => h x (by simp [hx]))⟩

theorem vdw_ok_wf (n k1 k2 : Int) (ks : List Int) (F : Formula) (h : Fam.Ramsey.vdw n k1 k2 ks = .ok F) :
    F.WF := by
  obtain ⟨h0, h1, h2, h3⟩ := dich_ok _ _ (dout_vdw n k1 k2 ks) F h
  have e1 : k1 = ((k1.toNat : Nat) : Int) := by omega
  have e2 : k2 = ((k2.toNat : Nat) : Int) := by omega
  have en : n = ((n.toNat : Nat) : Int) := by omega
  cases ks with
  | nil =>
    rw [en, e1, e2] at h
    exact (C03.vdw2_nvars_wf n.toNat k1.toNat k2.toNat (by omega) (by omega) F h).2
  | cons a r =>
    rw [en, e1, e2, ← map_toNat_cast (a :: r) h3] at h
    refine (C03.vdwMulti_nvars_wf n.toNat k1.toNat k2.toNat ((a :: r).map Int.toNat) (by simp) (by omega) (by omega)
      ?_ F h).2
    intro x hx
    obtain ⟨y, hy, rfl⟩ := List.mem_map.1 hx
    have := h3 y hy
    omega

theorem cpls_ok_wf (a b c : Int) (F : Formula) (h : Fam.Cpls.cpls a b c = .ok F) : F.WF := by
  obtain ⟨a', p, q, rfl, rfl, rfl, ha⟩ := dich_ok _ _ (dout_cpls a b c) F h
  exact (C03.cpls_counts_wf a' p q ha F h).2.2

theorem pitfall_ok_wf (v d ny nz k : Int) (g : SimpleG) (hg : FamPitfall.GraphOK g) (F : Formula)
    (h : Fam.Pitfall.pitfall v d ny nz k g = .ok F) : F.WF := by
  unfold Fam.Pitfall.pitfall at h
  cases hc : Fam.Pitfall.check v d ny nz k with
  | error e => rw [hc] at h; simp [bind, Except.bind] at h
  | ok u =>
    rw [hc] at h
    simp only [bind, Except.bind, pure, Except.pure, Except.ok.injEq] at h
    subst h
    exact (C03.pitfall_nvars_wf _ _ _ g hg).2

/-- T-C18.X1 every formula a mapped generator returns is well formed: literals non-zero and within the number of
variables (`g`: the graph drawn for Pitfall, any graph object) -/
theorem mapped_formula_wf (g : SimpleG) (hg : FamPitfall.GraphOK g) (c : Call) (F : Formula)
    (h : evalCallF g c = some (.ok F)) : F.WF := by
  obtain ⟨fn, pos, kw⟩ := c
  unfold evalCallF at h
  simp only at h
  repeat' split at h
  all_goals first
    | cases h
    | (simp only [Option.some.injEq] at h; first
        | exact php_ok_wf _ _ _ _ F h | exact bphp_ok_wf _ _ F h | exact rphp_ok_wf _ _ _ F h
        | exact counting_ok_wf _ _ F h | exact cliqueColoring_ok_wf _ _ _ F h | exact op_ok_wf _ _ _ _ _ F h
        | exact ptn_ok_wf _ F h | exact ramseyNumber_ok_wf _ _ _ F h | exact vdw_ok_wf _ _ _ _ F h
        | exact cpls_ok_wf _ _ _ F h | exact pitfall_ok_wf _ _ _ _ _ g hg F h)

/-! ### outcome `ok` ⇒ there is a formula -/

/-- T-C18.X2 the run ends in `ok` exactly when `cliFormula` is a formula: `cliOutcome` is `cliFormula` with the
formula forgotten -/
theorem outcome_ok_iff_formula (g : SimpleG) (h : HelperSpec) (argv : List String) :
    cliOutcome h argv = some .ok ↔ ∃ F, cliFormula g h argv = some (.ok F) := by
  unfold cliOutcome cliFormula
  cases hd : dispatch h argv with
  | error e => cases e <;> simp
  | ok c =>
    simp only [ctext_evalCall_of_F g c]
    cases hr : evalCallF g c with
    | none => simp
    | some r => cases r with
      | ok F => simp [shield, forget, Except.map]
      | error e => cases e <;> simp [shield, forget, Except.map]

/-! ### the text -/

/-- the numbers the writer prints fit CPython's limit on `str(int)` / `int(str)` (4300 digits): for `cnfgen` the
two counts; for `pbgen` the counts, the coefficients and the degrees.  Necessary: `C06.dimacs_text_limit`,
`C12.opb_text_limit` (beyond it CPython raises ValueError inside the writer). -/
def PrintableOut (gl : Global) (F : Formula) : Prop :=
  match gl.tool with
  | .cnfgen => C06.Printable F.toCNF
  | .pbgen => C12.PrintableOpb F.toOPB

/-- what the strict reader of the output format returns on a text: `cnfgen` + DIMACS: cnfgen's own reader
(`from_dimacs_file`); OPB: the strict specification-side reader `readOpb` (cnfgen has none) -/
def StrictlyRead (gl : Global) (u : Bool) (text : Str) (F : Formula) : Prop :=
  match gl.tool, gl.fmt with
  | .cnfgen, .dimacs => readDimacsText u text = .ok F.toCNF
  | .cnfgen, .opb => readOpbText u text = .ok (F.nvars, F.toCNF.clauses.map PBC.ofClause)
  | .pbgen, _ => readOpbText u text = .ok (F.nvars, F.toOPB.constraints)

/-- the physical lines of the text, lexed: comment rows (each starts with the comment marker word), ONE problem
line stating the true counts, one row per clause / constraint in order — nothing else.  DIMACS: comments, `p cnf n m`,
clauses.  OPB: `* #variable= n #constraint= m`, comments, constraints. -/
def ShapeOK (gl : Global) (u : Bool) (text : Str) (F : Formula) : Prop :=
  match gl.tool, gl.fmt with
  | .cnfgen, .dimacs =>
    ∃ comments : List Row,
      lex u text = comments ++ [Tok.word ['p'], Tok.word "cnf".toList, Tok.int (F.nvars : Int),
          Tok.int (F.toCNF.clauses.length : Int)] :: F.toCNF.clauses.map (fun c => c.map Tok.int ++ [Tok.int 0]) ∧
      ∀ r ∈ comments, ∃ rest, r = Tok.word ['c'] :: rest
  | .cnfgen, .opb =>
    ∃ comments : List Row,
      lex u text = [Tok.word ['*'], Tok.word "#variable=".toList, Tok.int (F.nvars : Int),
          Tok.word "#constraint=".toList, Tok.int (F.toCNF.clauses.length : Int)] ::
        (comments ++ (F.toCNF.clauses.map PBC.ofClause).map opbConstraintRow) ∧
      ∀ r ∈ comments, ∃ rest, r = Tok.word ['*'] :: rest
  | .pbgen, _ =>
    ∃ comments : List Row,
      lex u text = [Tok.word ['*'], Tok.word "#variable=".toList, Tok.int (F.nvars : Int),
          Tok.word "#constraint=".toList, Tok.int (F.toOPB.constraints.length : Int)] ::
        (comments ++ F.toOPB.constraints.map opbConstraintRow) ∧
      ∀ r ∈ comments, ∃ rest, r = Tok.word ['*'] :: rest

/-- the writer's text for ANY well-formed formula, header and label list is strictly readable and has the shape -/
theorem text_of_wf_formula (gl : Global) (u : Bool) (famHdr : Header) (names : List Str) (F : Formula)
    (hF : F.WF) (hp : PrintableOut gl F) :
    StrictlyRead gl u (cliText gl famHdr names F) F ∧ ShapeOK gl u (cliText gl famHdr names F) F := by
  obtain ⟨tool, fmt, verbose, varnames, seed, cmdline⟩ := gl
  have hcnf := ctext_toCNF_wf F hF
  have hopb : C12.WFOpb F.toOPB := ctext_toOPB_good F hF
  cases tool with
  | cnfgen =>
    have hp' : C06.Printable F.toCNF := hp
    cases fmt with
    | dimacs =>
      refine ⟨C06.dimacs_text_roundtrip u _ _ _ hcnf hp', ?_⟩
      simp only [ShapeOK, cliText]
      rw [C06.dimacs_text_lex u _ _ _ hcnf hp']
      obtain ⟨comments, h1, h2⟩ := C06.render_shape u F.toCNF
        (if verbose then some (cliHeader ⟨.cnfgen, .dimacs, verbose, varnames, seed, cmdline⟩ famHdr) else none)
        (if varnames then some names else none)
      exact ⟨comments, h1, fun r hr => (h2 r hr).2⟩
    | opb =>
      refine ⟨C12.opb_text_roundtrip_cnf u _ _ _ hcnf hp', ?_⟩
      simp only [ShapeOK, cliText]
      rw [C12.opb_text_lex_cnf u _ _ _ hcnf hp', renderOpbCNF_eq]
      obtain ⟨comments, h1, h2⟩ := C12.opb_shape u ⟨F.toCNF.nvars, F.toCNF.clauses.map PBC.ofClause⟩
        (if verbose then some (cliHeader ⟨.cnfgen, .opb, verbose, varnames, seed, cmdline⟩ famHdr) else none)
        (if varnames then some names else none)
      refine ⟨comments, ?_, h2⟩
      rw [h1]
      simp [Formula.toCNF]
  | pbgen =>
    have hp' : C12.PrintableOpb F.toOPB := hp
    have hr := C12.opb_text_roundtrip u F.toOPB
    have hl := C12.opb_text_lex u F.toOPB
    have hs := C12.opb_shape u F.toOPB
    cases fmt <;>
    · refine ⟨hr _ _ hopb hp', ?_⟩
      simp only [ShapeOK, cliText]
      rw [hl _ _ hopb hp']
      obtain ⟨comments, h1, h2⟩ := hs
        (if verbose then some (cliHeader ⟨.pbgen, _, verbose, varnames, seed, cmdline⟩ famHdr) else none)
        (if varnames then some names else none)
      exact ⟨comments, h1, h2⟩

/-- T-C18.X3 THE WRITTEN TEXT IS STRICTLY READABLE.  For every covered sub-command (`covered_commands`), both
tools, both formats, `-q` or not, `--varnames` or not, any seed, EVERY token list of the fragment, every header the
generator may have made, every list of variable names, every graph Pitfall may have drawn: whenever the run ends in
`ok` there is a formula `F` of the family model such that the text written for it

* is accepted by the strict reader of the chosen format, which returns exactly `F` in the tool's rendering
  (the variable count, and every clause / constraint in order);
* consists of comment lines (each starting with the comment marker), ONE problem line stating the true number of
  variables and of clauses / constraints, and one line per clause / constraint — nothing else

(up to CPython's 4300-digit limit on the printed counts, `PrintableOut`: beyond it the real writer raises). -/
theorem cli_output_strictly_readable (gl : Global) (g : SimpleG) (hg : FamPitfall.GraphOK g)
    (h : HelperSpec) (argv : List String) (hok : cliOutcome h argv = some .ok)
    (u : Bool) (famHdr : Header) (names : List Str) :
    ∃ F : Formula, cliFormula g h argv = some (.ok F) ∧ F.WF ∧
      (PrintableOut gl F →
        StrictlyRead gl u (cliText gl famHdr names F) F ∧ ShapeOK gl u (cliText gl famHdr names F) F) := by
  obtain ⟨F, hF⟩ := (outcome_ok_iff_formula g h argv).1 hok
  have hwf : F.WF := by
    unfold cliFormula at hF
    cases hd : dispatch h argv with
    | error e => rw [hd] at hF; cases hF
    | ok c => rw [hd] at hF; exact mapped_formula_wf g hg c F hF
  exact ⟨F, hF, hwf, fun hp => text_of_wf_formula gl u famHdr names F hwf hp⟩

/-- … with `end_to_end`: for the covered sub-commands the run ends in `ok` (and writes that text) or in a CLIError
(and writes nothing: `cliFormula` is then not a formula) — for every token list -/
theorem text_or_nothing (g : SimpleG) (h : HelperSpec) (s : CliSpec) (hspec : specOf h = some s)
    (hc : outcomeCovered s = true) (argv : List String) (hf : inFragment s argv = true) :
    (∃ F, cliFormula g h argv = some (.ok F)) ∨
    (cliOutcome h argv = some .cliError ∧ ∀ F, cliFormula g h argv ≠ some (.ok F)) := by
  rcases (end_to_end h s hspec hc argv hf).1 with h1 | h1
  · exact Or.inl ((outcome_ok_iff_formula g h argv).1 h1)
  · refine Or.inr ⟨h1, fun F hF => ?_⟩
    have := (outcome_ok_iff_formula g h argv).2 ⟨F, hF⟩
    rw [h1] at this
    cases this

/-! ### non-vacuity -/

/-- the graph on one vertex is a graph object -/
theorem graphOK_one : FamPitfall.GraphOK ⟨1, 0, [[], []], []⟩ := by
  intro v h1 h2
  have : v = 1 := by simpa using Nat.le_antisymm h2 h1
  subst this
  simp [SimpleG.nbrs]

/-- `cnfgen -q php 2 1`: the formula, the text, and what the reader makes of it -/
example : (cliFormulaNamed ⟨1, 0, [[], []], []⟩ "formula" "php" ["2", "1"]).map (fun r => r.map Formula.toCNF) =
    some (.ok ⟨2, [[1], [2], [-1, -2]]⟩) := by decide +kernel

example : cliText ⟨.cnfgen, .dimacs, false, false, none, ["-q", "php", "2", "1"]⟩ [] []
    ⟨2, [.clause [1], .clause [2], .clause [-1, -2]]⟩ = "p cnf 2 3\n1 0\n2 0\n-1 -2 0\n".toList := by decide +kernel

example : cliText ⟨.pbgen, .opb, true, false, some 7, ["-S", "7", "php", "2", "1"]⟩ [("d".toList, "x".toList)] []
    ⟨2, [.clause [1], .clause [2], .clause [-1, -2]]⟩ =
    ("* #variable= 2 #constraint= 3\n* d: x\n* random seed: 7\n* command line: pbgen -S 7 php 2 1\n*\n" ++
     "+1 x1 >= 1\n+1 x2 >= 1\n+1 ~x1 +1 ~x2 >= 1\n").toList := by decide +kernel

/-- the hypotheses of `cli_output_strictly_readable` are satisfiable: `cnfgen bphp 3 2` ends in `ok` -/
example : cliOutcomeNamed "formula" "bphp" ["3", "2"] = some .ok := by decide +kernel

end Cnfgen.C18
