/-
C18 (end to end, GRAPH arguments) — a command line with graph arguments ends in a usable formula or a clean, shielded
error.

`cliOutcomeG env` (CnfgenModel/Cli/OutcomeG.lean) = `dispatch` ▸ the graphs named by the graph arguments (`env`: the
result of `make_graph_from_spec` on the tokens of each graph argument — object, or refusal) ▸ family model ▸ `shield`.
Proofs: Lemmas/OutcomeG.lean.  `make_graph_from_spec` itself — every construction, modifier, file, random draws as
explicit draw lists — is the subject of `C15.make_graph_clean`; `graph_argument_outcomes` below says what a `GraphEnv`
abstracts from its runs.
-/
import Lemmas.OutcomeG
import Props.C18.Families
import Props.C15.GraphSpecObtain
namespace Cnfgen.C18
open Cnfgen Cnfgen.Cli Cnfgen.Gen Cnfgen.GCli Cnfgen.GRand

/-- the sub-commands of `end_to_end_graph`: standard options, every path of the helper raises a shielded exception or
calls a generator with graph arguments that `evalCallG` maps, with arguments of the right sort at every position -/
theorem graph_covered_commands :
    (cliSpecs.filter graphCovered).map (fun s => s.name) =
      ["domset", "ec", "iso", "kclique", "kcliquebin", "kcolor", "matching", "peb", "ramlb", "subgraph", "tiling"] := by
  decide +kernel

/-- `stone`: the paths `degree > stones` (the helper's own ValueError) and `StoneFormula(D, s)` are covered; the path
`--sparse d` with `d ≤ s` draws a random bipartite graph inside the helper and is not mapped -/
theorem stone_paths :
    (cliSpecs.filter (fun s => s.name == "stone")).map (fun s => s.templates.map (fun t =>
      pathCovered s t)) = [[true, false, true]] := by decide +kernel

/-! ### every mapped build step is clean -/

theorem shield_clean {α : Type} (r : Except Err α) (h : Clean r) : shield r = .ok ∨ shield r = .cliError :=
  clean_shielded r h

theorem withS_clean (g : Option SimpleG) (f : SimpleG → Except Err Formula) (hf : ∀ G, Clean (f G)) :
    (withS g f).outcome = .ok ∨ (withS g f).outcome = .cliError := by
  cases g with
  | none => exact Or.inr rfl
  | some G => exact shield_clean _ (hf G)

theorem withD_clean (g : Option DiG) (f : DiG → Except Err Formula) (hf : ∀ G, Clean (f G)) :
    (withD g f).outcome = .ok ∨ (withD g f).outcome = .cliError := by
  cases g with
  | none => exact Or.inr rfl
  | some G => exact shield_clean _ (hf G)

theorem withB_clean (g : Option BipG) (f : BipG → Except Err Formula) (hf : ∀ G, Clean (f G)) :
    (withB g f).outcome = .ok ∨ (withB g f).outcome = .cliError := by
  cases g with
  | none => exact Or.inr rfl
  | some G => exact shield_clean _ (hf G)

theorem ok_clean {α : Type} (a : α) : Clean (Except.ok a : Except Err α) := by
  intro e h; cases h

theorem binaryCliqueFormula_clean (G : SimpleG) (k : Int) (sb : Bool) : Clean (Fam.G2.binaryCliqueFormula G k sb) := by
  intro e h; unfold Fam.G2.binaryCliqueFormula at h; split at h <;> simp_all

/-- T-C18.G1 every build step with graph arguments that `evalCallG` maps ends in a formula or a command-line error —
whatever the graph environment, the namespace and the call: a refused graph argument is a CLIError, the generators
raise nothing but ValueError -/
theorem mapped_graph_steps_clean (env : GraphEnv) (ns : Ns) (c : Call) (bt : Built)
    (h : evalCallG env ns c = some bt) : bt.outcome = .ok ∨ bt.outcome = .cliError := by
  unfold evalCallG at h
  cases hl : gHandlers.lookup c.fn with
  | none => rw [hl] at h; cases h
  | some f =>
    rw [hl] at h
    dsimp only at h
    have hm := dtot_lookup_mem gHandlers c.fn f hl
    simp only [gHandlers, List.mem_cons, List.not_mem_nil, or_false, Prod.mk.injEq] at hm
    rcases hm with ⟨_, rfl⟩ | ⟨_, rfl⟩ | ⟨_, rfl⟩ | ⟨_, rfl⟩ | ⟨_, rfl⟩ | ⟨_, rfl⟩ | ⟨_, rfl⟩ | ⟨_, rfl⟩ | ⟨_, rfl⟩ |
      ⟨_, rfl⟩ | ⟨_, rfl⟩ | ⟨_, rfl⟩ | ⟨_, rfl⟩ | ⟨_, rfl⟩ | ⟨_, rfl⟩ | ⟨_, rfl⟩
    · unfold gClique at h; split at h
      · cases h; exact withS_clean _ _ (fun G => cliqueFormula_clean G _ _)
      · cases h
    · unfold gBinClique at h; split at h
      · cases h; exact withS_clean _ _ (fun G => binaryCliqueFormula_clean G _ _)
      · cases h
    · unfold gRamseyWitness at h; split at h
      · cases h; exact withS_clean _ _ (fun G => ramseyWitness_clean G _ _ _)
      · cases h
    · unfold gColoring at h; split at h
      · cases h; exact withS_clean _ _ (fun G => coloring_clean G _ _)
      · cases h
    · unfold gEvenColoring at h; split at h
      · cases h; exact withS_clean _ _ (fun G => evenColoring_clean G)
      · cases h
    · unfold gDomset at h; split at h
      · cases h; exact withS_clean _ _ (fun G => domset_clean G _ _)
      · cases h
    · unfold gTiling at h; split at h
      · cases h; exact withS_clean _ _ (fun G => ok_clean _)
      · cases h
    · unfold gMatching at h; split at h
      · cases h; exact withS_clean _ _ (fun G => ok_clean _)
      · cases h
    · unfold gAutomorphism at h; split at h
      · cases h; exact withS_clean _ _ (fun G => ok_clean _)
      · cases h
    · unfold gIsomorphism at h; split at h
      · cases h; split
        · exact Or.inl rfl
        · exact Or.inr rfl
      · cases h
    · unfold gSubgraph at h; split at h
      · cases h; split
        · exact Or.inl rfl
        · exact Or.inr rfl
      · cases h
    · unfold gPebbling at h; split at h
      · cases h; exact withD_clean _ _ (fun D => pebbling_clean D)
      · cases h
    · unfold gStone at h; split at h
      · cases h; exact withD_clean _ _ (fun D => stone_clean D _)
      · cases h
    · unfold gGraphPhp at h; split at h
      · cases h; exact withB_clean _ _ (fun B => ok_clean _)
      · cases h
    · unfold gGraphOrdering at h; split at h
      · split at h
        · cases h; exact withS_clean _ _ (fun G => ok_clean _)
        · cases h
      · cases h
    · unfold gTseitin at h; split at h
      · split at h
        · cases h; exact Or.inr rfl
        · split at h
          · cases h; exact Or.inl rfl
          · cases h
      · cases h

/-- … and so is every numeric one, hence every build step of `evalCallAny` -/
theorem mapped_any_steps_clean (env : GraphEnv) (g : SimpleG) (ns : Ns) (c : Call) (bt : Built)
    (h : evalCallAny env g ns c = some bt) : bt.outcome = .ok ∨ bt.outcome = .cliError := by
  unfold evalCallAny at h
  cases hg : evalCallG env ns c with
  | some b => rw [hg] at h; cases h; exact mapped_graph_steps_clean env ns c _ hg
  | none =>
    rw [hg] at h
    cases hf : evalCallF g c with
    | none => rw [hf] at h; cases h
    | some r =>
      rw [hf] at h
      simp only [Option.map_some, Option.some.injEq] at h
      subst h
      have h1 : evalCall c = some (forget r) := by rw [ctext_evalCall_of_F g c, hf]; rfl
      rcases evalCall_clean c _ h1 with h2 | h2
      · left
        obtain ⟨F, hF⟩ := (dout_forget_ok r).1 h2
        subst hF; rfl
      · right
        have := (dout_forget_err r .valueError).1 h2
        subst this; rfl

/-! ### the generators' preconditions: when is a built step `ok` -/

/-- T-C18.G2 a step with one graph argument is `ok` exactly when the graph was built and the generator accepts it -/
theorem withS_ok_iff (g : Option SimpleG) (f : SimpleG → Except Err Formula) :
    (withS g f).outcome = .ok ↔ ∃ G, g = some G ∧ ∃ F, f G = .ok F := by
  cases g with
  | none => simp [withS, Built.outcome]
  | some G =>
    simp only [withS, Built.outcome, Option.some.injEq, exists_eq_left']
    cases hf : f G with
    | ok F => simp [shield]
    | error e => cases e <;> simp [shield]

theorem withD_ok_iff (g : Option DiG) (f : DiG → Except Err Formula) :
    (withD g f).outcome = .ok ↔ ∃ G, g = some G ∧ ∃ F, f G = .ok F := by
  cases g with
  | none => simp [withD, Built.outcome]
  | some G =>
    simp only [withD, Built.outcome, Option.some.injEq, exists_eq_left']
    cases hf : f G with
    | ok F => simp [shield]
    | error e => cases e <;> simp [shield]

/-- the preconditions of the generators with graph arguments, on graph OBJECTS: what remains to hold once every graph
argument has been built -/
theorem graph_generator_preconditions :
    (∀ G k sb, (∃ F, Fam.G2.cliqueFormula G k sb = .ok F) ↔ 0 ≤ k) ∧
    (∀ G k sb, (∃ F, Fam.G2.binaryCliqueFormula G k sb = .ok F) ↔ 0 ≤ k) ∧
    (∀ G k s sb, (∃ F, Fam.G2.ramseyWitnessFormula G k s sb = .ok F) ↔ 0 ≤ k ∧ 0 ≤ s) ∧
    (∀ G k fn, (∃ F, Fam.coloring G k fn = .ok F) ↔ 0 ≤ k) ∧
    (∀ G, (∃ F, Fam.evenColoring G = .ok F) ↔ ∀ v ∈ rangeN 1 (G.n + 1), (G.nbrs v).length % 2 = 0) ∧
    (∀ G d alt, (∃ F, Fam.domset G d alt = .ok F) ↔ 1 ≤ d) ∧
    (∀ D, (∃ F, Fam.Pebbling.pebbling D = .ok F) ↔ D.stillDag = true) ∧
    (∀ D s, (∃ F, Fam.Pebbling.stone D s = .ok F) ↔ D.stillDag = true ∧ 0 ≤ s) := by
  refine ⟨?_, ?_, ?_, ?_, ?_, ?_, ?_, ?_⟩
  · intro G k sb; unfold Fam.G2.cliqueFormula; split <;> simp <;> omega
  · intro G k sb; unfold Fam.G2.binaryCliqueFormula; split <;> simp <;> omega
  · intro G k s sb; unfold Fam.G2.ramseyWitnessFormula
    split
    · simp; omega
    · split <;> simp <;> omega
  · intro G k fn; unfold Fam.coloring; split <;> simp <;> omega
  · intro G; unfold Fam.evenColoring
    split
    · rename_i h
      simp only [reduceCtorEq, exists_false, false_iff, not_forall]
      rw [List.any_eq_true] at h
      obtain ⟨v, hv, hodd⟩ := h
      exact ⟨v, hv, by simp at hodd; omega⟩
    · rename_i h
      simp only [Except.ok.injEq, exists_eq', true_iff]
      intro v hv
      rw [Bool.not_eq_true, List.any_eq_false] at h
      have := h v hv
      simp at this; omega
  · intro G d alt; unfold Fam.domset; split <;> simp <;> omega
  · intro D; unfold Fam.Pebbling.pebbling; split <;> simp_all
  · intro D s; unfold Fam.Pebbling.stone Fam.Pebbling.sparseStone
    split
    · simp_all
    · split
      · simp_all
      · rename_i h1 h2
        simp [BipG.complete]
        constructor
        · simpa using h1
        · omega

/-! ### the end-to-end theorem -/

theorem specOf_mem (h : HelperSpec) (s : CliSpec) (hspec : specOf h = some s) : s ∈ cliSpecs := by
  unfold specOf at hspec
  exact List.mem_of_find?_eq_some hspec

/-- T-C18.G3 END TO END with graph arguments, path by path.  For every sub-command with standard options, EVERY token
list of the argparse fragment and EVERY graph environment: the parser refuses the tokens (CLIError), or the helper takes a
path `t` (`dispatchTemplate`); when that path is covered (`pathCovered`: it raises a shielded exception, or calls a
mapped generator with arguments of the right sort) the run ends in `ok` or in a `cliError` — never an escaped
exception, never an internal bug, never outside the model — and it ends in `ok` EXACTLY when the path is a library
call `c` whose build step — graphs from `env`, then the family model — returns a formula. -/
theorem end_to_end_graph_path (env : GraphEnv) (h : HelperSpec) (s : CliSpec) (hspec : specOf h = some s)
    (hstd : s.standard = true) (argv : List String) (hf : inFragment s argv = true)
    (hpath : ∀ t ns, dispatchTemplate s argv = .ok (t, ns) → pathCovered s t = true) :
    (cliOutcomeG env h argv = some .ok ∨ cliOutcomeG env h argv = some .cliError) ∧
    (cliOutcomeG env h argv = some .ok ↔
      ∃ t ns c bt, dispatchTemplate s argv = .ok (t, ns) ∧ instantiate ns t = .ok c ∧
        evalCallG env ns c = some bt ∧ bt.outcome = .ok) := by
  have hs := specOf_mem h s hspec
  unfold cliOutcomeG
  rw [hspec]
  dsimp only
  rcases parseArgs_total s hstd argv hf with ⟨b, hb⟩ | he
  · obtain ⟨t, _, hd, hor⟩ := og_path s hstd hs argv b hb env
    have hor := hor (hpath t _ hd)
    rw [hd]
    dsimp only
    rcases hor with ⟨_, hi⟩ | ⟨c, hi, hsome⟩
    · rw [hi]
      refine ⟨Or.inr rfl, ?_⟩
      constructor
      · intro hh; cases hh
      · rintro ⟨t', ns', c', bt, h1, h2, _⟩
        cases h1
        rw [hi] at h2; cases h2
    · rw [hi]
      dsimp only
      obtain ⟨bt, hbt⟩ := Option.isSome_iff_exists.1 hsome
      have hany : evalCallAny env ⟨1, 0, [[], []], []⟩ (namespaceOf s b) c = some bt := by
        unfold evalCallAny; rw [hbt]
      rw [hany]
      simp only [Option.map_some, Option.some.injEq]
      refine ⟨mapped_graph_steps_clean env _ c bt hbt, ?_⟩
      constructor
      · intro hh
        exact ⟨t, _, c, bt, rfl, hi, hbt, hh⟩
      · rintro ⟨t', ns', c', bt', h1, h2, h3, h4⟩
        cases h1
        rw [hi] at h2; cases h2
        rw [hbt] at h3; cases h3
        exact h4
  · have hd : dispatchTemplate s argv = .error .cliError := by
      unfold dispatchTemplate
      rw [dtot_supported s hstd, he]
      rfl
    rw [hd]
    refine ⟨Or.inr rfl, ?_⟩
    constructor
    · intro hh; cases hh
    · rintro ⟨t', ns', c', bt, h1, _⟩
      cases h1

/-- the path a command line takes is one of the paths of the helper -/
theorem dispatchTemplate_mem (s : CliSpec) (argv : List String) (t : CallTemplate) (ns : Ns)
    (h : dispatchTemplate s argv = .ok (t, ns)) : t ∈ s.templates := by
  unfold dispatchTemplate at h
  split at h
  · cases h
  · split at h
    · cases h
    · split at h
      · cases h
      · rename_i t' hsel
        cases h
        clear * - hsel
        generalize s.templates = ts at hsel
        induction ts with
        | nil => simp [selectTemplate] at hsel
        | cons t1 rest ih =>
          unfold selectTemplate at hsel
          split at hsel
          · cases hsel
          · cases hsel; exact List.mem_cons_self ..
          · exact List.mem_cons_of_mem _ (ih hsel)

/-- T-C18.G3′ END TO END with graph arguments: for the covered sub-commands (`graph_covered_commands`: every path is
covered) the conclusion of `end_to_end_graph_path` holds for EVERY token list of the fragment. -/
theorem end_to_end_graph (env : GraphEnv) (h : HelperSpec) (s : CliSpec) (hspec : specOf h = some s)
    (hc : graphCovered s = true) (argv : List String) (hf : inFragment s argv = true) :
    (cliOutcomeG env h argv = some .ok ∨ cliOutcomeG env h argv = some .cliError) ∧
    (cliOutcomeG env h argv = some .ok ↔
      ∃ t ns c bt, dispatchTemplate s argv = .ok (t, ns) ∧ instantiate ns t = .ok c ∧
        evalCallG env ns c = some bt ∧ bt.outcome = .ok) := by
  unfold graphCovered at hc
  simp only [Bool.and_eq_true] at hc
  exact end_to_end_graph_path env h s hspec hc.1 argv hf
    (fun t ns hd => List.all_eq_true.1 hc.2 t (dispatchTemplate_mem s argv t ns hd))

/-- `stone`: every command line that does not take the path `--sparse d` with `d ≤ stones` (the helper then draws a
random bipartite graph itself: not mapped) ends in `ok` or in a `cliError` -/
theorem end_to_end_stone (env : GraphEnv) (h : HelperSpec) (s : CliSpec) (hspec : specOf h = some s)
    (hname : s.name = "stone") (argv : List String) (hf : inFragment s argv = true)
    (hpath : ∀ t ns, dispatchTemplate s argv = .ok (t, ns) → t.fn ≠ "SparseStoneFormula") :
    cliOutcomeG env h argv = some .ok ∨ cliOutcomeG env h argv = some .cliError := by
  have hs := specOf_mem h s hspec
  have hall : ∀ s' ∈ cliSpecs, s'.name = "stone" →
      s'.standard = true ∧ ∀ t ∈ s'.templates, t.fn ≠ "SparseStoneFormula" → pathCovered s' t = true := by
    decide +kernel
  obtain ⟨hstd, hcov⟩ := hall s hs hname
  exact (end_to_end_graph_path env h s hspec hstd argv hf
    (fun t ns hd => hcov t (dispatchTemplate_mem s argv t ns hd) (hpath t ns hd))).1

/-- … in particular no exception escapes and `cli()` never reports an internal bug -/
theorem never_escapes_graph (env : GraphEnv) (h : HelperSpec) (s : CliSpec) (hspec : specOf h = some s)
    (hc : graphCovered s = true) (argv : List String) (hf : inFragment s argv = true) :
    cliOutcomeG env h argv ≠ some .internalBug ∧ ∀ e, cliOutcomeG env h argv ≠ some (.escaped e) := by
  rcases (end_to_end_graph env h s hspec hc argv hf).1 with h1 | h1 <;> rw [h1] <;> simp

/-! ### every formula sub-command: no escape wherever the model answers (`php`, `op`, `tseitin`, `subsetcard`, … included) -/

theorem selectTemplate_error (ns : Ns) (ts : List CallTemplate) (e : CliErr) (h : selectTemplate ns ts = .error e) :
    ∃ why, e = .unsupported why := by
  induction ts with
  | nil => simp only [selectTemplate, Except.error.injEq] at h; exact ⟨_, h.symm⟩
  | cons t rest ih =>
    unfold selectTemplate at h
    split at h
    · simp only [Except.error.injEq] at h; exact ⟨_, h.symm⟩
    · cases h
    · exact ih h

/-- every path of every formula helper that raises, raises an exception `cli()` shields (ValueError / CLIError) -/
theorem formula_helpers_raise_shielded :
    (cliSpecs.filter (fun s => s.kind == "formula")).all
      (fun s => s.templates.all (fun t => t.raises == "" || shielded t.raises)) = true := by decide +kernel

/-- T-C18.G5 (partial for `php`, `op`, `tseitin`, `subsetcard`, `stone --sparse`: what is missing is that the model
ANSWERS on every command line of the fragment — proved only for the sub-commands of `end_to_end`, `end_to_end_graph`
and `end_to_end_stone`).  For EVERY formula sub-command the model handles, every token list of the fragment and every
graph environment: whenever the model gives an outcome, it is `ok` or `cliError` — no path of `dispatch`, no mapped
generator and no graph argument produces an escaping exception or an internal bug. -/
theorem never_escapes_any_partial (env : GraphEnv) (h : HelperSpec) (s : CliSpec) (hspec : specOf h = some s)
    (hkind : s.kind = "formula") (argv : List String) (hf : inFragment s argv = true) (o : Outcome)
    (ho : cliOutcomeG env h argv = some o) : o = .ok ∨ o = .cliError := by
  have hs := specOf_mem h s hspec
  have hr : ∀ t ∈ s.templates, (t.raises == "" || shielded t.raises) = true := by
    have := List.all_eq_true.1 formula_helpers_raise_shielded s
      (List.mem_filter.2 ⟨hs, by simp [hkind]⟩)
    exact List.all_eq_true.1 this
  unfold cliOutcomeG at ho
  rw [hspec] at ho
  dsimp only at ho
  cases hd : dispatchTemplate s argv with
  | error e =>
    rw [hd] at ho
    unfold dispatchTemplate at hd
    split at hd
    · cases hd; cases ho
    · rename_i hsup
      have hsup' : s.supported = true := by simpa using hsup
      rcases parseArgs_total_supported s hsup' argv hf with ⟨b, hb⟩ | hb
      · rw [hb] at hd
        dsimp only at hd
        split at hd
        · rename_i e' hsel
          obtain ⟨why, rfl⟩ := selectTemplate_error _ _ _ hsel
          cases hd; cases ho
        · cases hd
      · rw [hb] at hd
        cases hd
        cases ho
        exact Or.inr rfl
  | ok tn =>
    obtain ⟨t, ns⟩ := tn
    rw [hd] at ho
    dsimp only at ho
    have htm := dispatchTemplate_mem s argv t ns hd
    cases hi : instantiate ns t with
    | error e =>
      rw [hi] at ho
      unfold instantiate at hi
      split at hi
      · split at hi
        · cases hi; cases ho; exact Or.inr rfl
        · rename_i hne hns
          have := hr t htm
          simp only [Bool.or_eq_true, beq_iff_eq] at this
          rcases this with h1 | h1
          · rw [h1] at hne; simp at hne
          · rw [h1] at hns; simp at hns
      · split at hi
        · cases hi; cases ho
        · split at hi
          · cases hi
          · cases hi; cases ho
    | ok c =>
      rw [hi] at ho
      dsimp only at ho
      cases ha : evalCallAny env ⟨1, 0, [[], []], []⟩ ns c with
      | none => rw [ha] at ho; cases ho
      | some bt =>
        rw [ha] at ho
        simp only [Option.map_some, Option.some.injEq] at ho
        subst ho
        exact mapped_any_steps_clean env _ ns c bt ha

/-! ### what a `GraphEnv` abstracts from the runs of `make_graph_from_spec` -/

/-- T-C18.G4 for every graph type, EVERY token list, every world (values of the numerals, results of the third-party
generators, outcome of opening and reading a file — exceptions of the class `isOSError`, the reader returning an
object of the class of the graph type and raising no third-party exception), every draw list and recursion budget: the
argparse action (`except ValueError` / `except OSError` → `parser.error`) sees a graph or turns the exception into a
CLIError — `graphOfRun` is `some _` — unless the draw list does not fit the run (`stuck`) or the construction
`regular` exhausts the recursion budget (`C15.regular_restart_budget_witness`): the only exception of a graph
argument that can escape. -/
theorem graph_argument_outcomes {ty : String} (hk : C15.Known ty) (w : GSpec.World) (toks : List String)
    (isOSError : Err → Bool)
    (hext : ∀ g, w.ext = some g → kindOK .simple g)
    (hopen : ∀ e, w.openFile = .error e → isOSError e = true)
    (hread : ∀ ds e, w.readGraph ds = .exc e → isOSError e = true)
    (hkind : ∀ gt, GSpec.gtypeOf ty = some gt → Returns (kindOK gt) w.readGraph)
    (hnf : NoForeign w.readGraph) (ds : List Draw) :
    (∃ r, graphOfRun isOSError (GSpec.makeGraphFromSpec w ty toks ds) = some r) ∨
    GSpec.makeGraphFromSpec w ty toks ds = .stuck ∨
    (GSpec.makeGraphFromSpec w ty toks ds = .exc .recursion ∧ toks.head? = some "regular") := by
  cases hr : GSpec.makeGraphFromSpec w ty toks ds with
  | ok a rest => obtain ⟨G, sv⟩ := a; exact Or.inl ⟨some G, rfl⟩
  | stuck => exact Or.inr (Or.inl rfl)
  | foreign => exact absurd hr (C15.make_graph_noForeign w ty toks hnf ds)
  | exc e =>
    rcases C15.make_graph_clean hk w toks (fun e => isOSError e = true) hext hopen hread hkind ds e hr with
      h1 | ⟨h1, h2⟩ | h1
    · subst h1; exact Or.inl ⟨none, rfl⟩
    · subst h1; exact Or.inr (Or.inr ⟨rfl, h2⟩)
    · exact Or.inl ⟨none, by simp [graphOfRun, h1]⟩

/-! ### concrete command lines (the deterministic constructions: `detEnv`) -/

example : cliOutcomeNamed "formula" "kcolor" ["3", "complete", "4"] = none := by decide +kernel
example : (helpers.find? (fun h => h.name == "kcolor")).bind (fun h => cliOutcomeG detEnv h ["3", "complete", "4"]) =
    some .ok := by decide +kernel
example : (helpers.find? (fun h => h.name == "kcolor")).bind (fun h => cliOutcomeG detEnv h ["3", "complete", "0"]) =
    some .cliError := by decide +kernel
example : (helpers.find? (fun h => h.name == "kcolor")).bind (fun h => cliOutcomeG detEnv h ["0", "complete", "3"]) =
    some .cliError := by decide +kernel
example : (helpers.find? (fun h => h.name == "peb")).bind (fun h => cliOutcomeG detEnv h ["pyramid", "2"]) =
    some .ok := by decide +kernel
example : (helpers.find? (fun h => h.name == "peb")).bind (fun h => cliOutcomeG detEnv h ["pyramid", "2", ""]) =
    some .cliError := by decide +kernel
example : (helpers.find? (fun h => h.name == "iso")).bind
    (fun h => cliOutcomeG detEnv h ["complete", "3", "-e", "empty", "3"]) = some .ok := by decide +kernel
example : (helpers.find? (fun h => h.name == "stone")).bind
    (fun h => cliOutcomeG detEnv h ["2", "pyramid", "1", "--sparse", "3"]) = some .cliError := by decide +kernel
example : (helpers.find? (fun h => h.name == "php")).bind
    (fun h => cliOutcomeG detEnv h ["complete", "3", "2", "--functional"]) = some .ok := by decide +kernel
example : (helpers.find? (fun h => h.name == "tseitin")).bind
    (fun h => cliOutcomeG detEnv h ["first", "complete", "4"]) = some .ok := by decide +kernel
example : (helpers.find? (fun h => h.name == "op")).bind
    (fun h => cliOutcomeG detEnv h ["--total", "complete", "3"]) = some .ok := by decide +kernel
/-- the hypotheses of `end_to_end_graph` are satisfiable -/
example : ∃ h s, specOf h = some s ∧ graphCovered s = true ∧ inFragment s ["3", "complete", "4"] = true :=
  ⟨(helpers.find? (fun h => h.name == "kclique")).get (by decide +kernel),
   (cliSpecs.find? (fun s => s.name == "kclique")).get (by decide +kernel), by decide +kernel⟩

end Cnfgen.C18
