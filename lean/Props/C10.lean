/-
C10 — Every formula mentions only variables it owns, and allocates them freshly.
This file: the manager part (T-C10.2) — the history invariant of the `VariablesManager` /
`BaseCNF` state machine (`CnfgenModel/Vars/Manager.lean`): operations `add_clause(c, check)`,
`update_variable_number(n)`, `new_*(…)`.  Family theorems (T-C10.1) are added by the family files.
Property theorems only; helper lemmas are in `Lemmas/VarsManager.lean`.
-/
import Lemmas.VarsManager
namespace Cnfgen.C10
open Cnfgen Cnfgen.Vars

/-- the invariant: the largest variable mentioned by a stored clause is within the declared number
of variables; equivalently every stored literal is -/
theorem inv_meaning (s : MState) : Inv s ↔ ∀ c ∈ s.clauses, ∀ l ∈ c, l.natAbs ≤ s.numvar := inv_iff s

/-- T-C10.2a it holds initially and is preserved by every checked clause insertion — accepted
(the count is raised to the largest variable of the clause) or rejected (a clause containing 0
raises ValueError and leaves the formula unchanged) —, by `update_variable_number` (also when it
raises), and by every `new_*` (successful or failing) -/
theorem inv_preserved {s : MState} (h : Inv s) :
    (∀ c, Inv (addClause s c true).1) ∧ (∀ n, Inv (updateVarNum s n).1) ∧ (∀ spec, Inv (newGroup s spec).1) :=
  ⟨fun c => addClause_checked_inv c h, fun n => updateVarNum_inv n h, fun spec => newGroup_inv spec h⟩

theorem inv_initial : Inv MState.init := inv_init

/-- a rejected insertion does not leave the clause behind (D32, fixed in /repo) -/
theorem rejected_clause_not_stored {s : MState} {c : Clause} {check : Bool} {e : Err}
    (h : (addClause s c check).2 = .error e) : (addClause s c check).1 = s ∧ e = .valueError ∧ check = true :=
  addClause_rejected h

/-- T-C10.2b an unchecked insertion (`check=False`, the mode every family uses) preserves the
invariant **iff** the clause is within the declared variables — the obligation each family
discharges (T-C10.1) -/
theorem unchecked_inv_iff {s : MState} (c : Clause) (h : Inv s) :
    Inv (addClause s c false).1 ↔ maxAbs c ≤ s.numvar :=
  addClause_unchecked_inv c h

/-- T-C10.2c a new group is exactly `[numvar+1, numvar+len]`, the count becomes `numvar+len`,
nothing else changes; the count never decreases -/
theorem new_group_range {s : MState} {spec : GroupSpec} {g : Group} (h : (newGroup s spec).2 = .ok (some g)) :
    g.start = s.numvar + 1 ∧ g.ids = List.range' (s.numvar + 1) g.len ∧
    (newGroup s spec).1.numvar = s.numvar + g.len ∧
    (newGroup s spec).1.groups = s.groups ++ [g] ∧ (newGroup s spec).1.clauses = s.clauses :=
  newGroup_ok h

theorem numvar_monotone (s : MState) (ops : List MOp) : s.numvar ≤ (run s ops).numvar := run_numvar_mono s ops

/-- T-C10.2d freshness: under the invariant, no identifier of a new group was mentioned by an
earlier clause -/
theorem new_group_fresh {s : MState} {spec : GroupSpec} {g : Group} (hinv : Inv s)
    (h : (newGroup s spec).2 = .ok (some g)) :
    ∀ v ∈ g.ids, s.maxMentioned < v ∧ ∀ c ∈ s.clauses, ∀ l ∈ c, l.natAbs ≠ v :=
  newGroup_fresh hinv h

/-- T-C10.2 for histories: after every history (from the empty formula) all of whose unchecked
insertions were within the variables declared at that moment, the invariant holds … -/
theorem history_inv {ops : List MOp} (hg : GuardedRun MState.init ops) : Inv (run MState.init ops) :=
  run_inv inv_init hg

/-- … and whenever such a history creates a group, none of its identifiers was mentioned by any
clause stored before, for all interleavings of group creation, clause insertion and raises of
the variable count -/
theorem history_groups_fresh {ops : List MOp} {spec : GroupSpec} {g : Group}
    (hg : GuardedRun MState.init (ops ++ [.newGroup spec]))
    (h : (newGroup (run MState.init ops) spec).2 = .ok (some g)) :
    ∀ v ∈ g.ids, ∀ c ∈ (run MState.init ops).clauses, ∀ l ∈ c, l.natAbs ≠ v :=
  history_fresh hg h

/-- the guard is necessary: `add_clause([9], check=False)` then `new_variable()` hands out
identifier 1 … 9 later — here the very next variable is 1, and after eight more, 9 is reused.
(`check=False` is documented as trusting the caller: a witness, not a finding.) -/
theorem unguarded_history_reuses :
    ¬ Inv (run MState.init [.addClause [9] false]) ∧
    (newGroup (run MState.init [.addClause [9] false]) (.block [9] none)).2 = .ok (some (.block 1 [9] "X({})")) ∧
    (9 : Nat) ∈ (Group.block 1 [9] "X({})").ids :=
  ⟨by unfold Vars.Inv; decide, by rfl, by decide⟩

/-- non-vacuity: a guarded history with every kind of operation, including failing ones -/
example : GuardedRun MState.init
    [.updateVarNum 2, .newGroup (.block [2, 2] none), .addClause [3, -6] false, .addClause [0, 7] true,
     .addClause [-9] true, .newGroup (.mapping 2 2 none), .updateVarNum (-1), .newGroup (.block [] none)] := by
  simp only [GuardedRun, Guarded, and_true, true_and]
  decide

end Cnfgen.C10
