/-
C18 — any command line ends in a usable formula or a clean, shielded error.
What is proven here: the decision logic that keeps internal exceptions away —
validators imply the generators' own argument checks (over the regenerated tables),
the shielding of `cli()`, and the comment-marker table.  (partial: argparse, the OS and
process exit are observed by the harness, not modelled.)
-/
import CnfgenModel.Cli.TableChecks
import CnfgenModel.Cli.Validate
import CnfgenModel.Cli.Msg
namespace Cnfgen.C18
open Cnfgen Cnfgen.Cli Cnfgen.Gen

/-- T-C18.1a for every pair in the implication table: a value accepted by the command-line validator
is accepted by the library check (guards regenerated from cmdline.py and localtypes.py) -/
theorem impliesTab_sound : ∀ p ∈ impliesTab, ∀ v : Int, cliRejects p.1 v = false → libRejects p.2 v = false := by
  intro p hp v
  simp only [impliesTab, List.mem_cons, List.mem_nil_iff, or_false] at hp
  rcases hp with rfl | rfl | rfl | rfl | rfl | rfl | rfl | rfl <;>
    simp [cliRejects, libRejects, cli_positive_int_rejects, cli_nonnegative_int_rejects,
      cli_positive_even_int_rejects, lib_positive_int_rejects, lib_non_negative_int_rejects,
      lib_any_int_rejects] <;> omega

/-- T-C18.1b every integer option of every helper is validated strongly enough for the parameter of
the generator it is passed to (so the generators' own `positive_int(x)` … checks cannot fire on a
value argparse accepted) -/
theorem validators_suffice : helpers.all helperValidatorsSuffice = true := by decide +kernel

/-- non-vacuity: there really are such obligations in the tables -/
theorem obligations_exist : 40 ≤ allObligations.length := by decide +kernel

/-- T-C18.1c accepted tokens denote the integer Python's `int` reads, and it satisfies the guard -/
theorem validate_sound (name tok : String) (v : Int) (h : validate name tok = some v) :
    pyInt? tok = some v ∧ cliRejects name v = false := by
  unfold validate at h
  cases hp : pyInt? tok with
  | none => simp [hp] at h
  | some w =>
    simp only [hp] at h
    by_cases hr : cliRejects name w = true
    · simp [hr] at h
    · simp only [hr] at h
      simp at h; subst h; simp at hr; exact ⟨rfl, hr⟩

/-- T-C18.2 shielding: a build / transformation step that can only fail with ValueError never lets an
exception escape from `cli()` -/
theorem shield_total {α : Type} (r : Except Err α) (h : ∀ e, r = .error e → e = .valueError) :
    shield r = .ok ∨ shield r = .cliError := by
  cases r with
  | ok a => exact Or.inl rfl
  | error e => have := h e rfl; subst this; exact Or.inr rfl

/-- and only an escaped exception ends in status 1 (traceback); errors exit with 255, success with 0 -/
theorem exit_status (o : Outcome) : exitStatus o = 1 ↔ ∃ e, o = .escaped e := by
  cases o <;> simp [exitStatus]

/-- T-C18.3 the comment markers used to shield error messages are those of the three output formats -/
theorem comment_markers : commentChar = [("dimacs", "c "), ("latex", "% "), ("opb", "* ")] := by decide

/-- T-C18.3b every line of a reported command-line error — the `ERROR:` lines, the blank separators, the usage text
and the closing hint alike — is printed behind the comment marker of the output format, so the error stream
of a failed run is itself a sequence of comment lines of that format -/
theorem error_report_is_shielded (fmt : String) (message : List String) (usage : Option (List String)) (prog : String) :
    ∀ l ∈ errorMsgLines (prefixOf fmt) (cliErrorLines message usage prog), ∃ rest, l = prefixOf fmt ++ rest :=
  errorMsgLines_prefixed _ _

theorem prefix_table : prefixOf "dimacs" = "c " ∧ prefixOf "opb" = "* " ∧ prefixOf "latex" = "% " := by decide

/-- the report is never empty and starts with the `ERROR:` lines of the message -/
theorem error_report_shape (pre : String) (message : List String) (usage : Option (List String)) (prog : String) :
    (errorMsgLines pre (cliErrorLines message usage prog)).take message.length = message.map (fun m => pre ++ "ERROR: " ++ m) ∧
    message.length + 2 ≤ (errorMsgLines pre (cliErrorLines message usage prog)).length := by
  constructor
  · simp [errorMsgLines, cliErrorLines, List.map_append, List.take_append_of_le_length, String.append_assoc]
  · cases usage <;> simp [errorMsgLines, cliErrorLines] <;> omega

example : validate "positive_even_int" " +1_0 " = some 10 := by decide
example : validate "positive_int" "0" = none := by decide
example : shield (Except.error Err.indexError : Except Err Nat) = .escaped .indexError := rfl

end Cnfgen.C18
