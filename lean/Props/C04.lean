/-
C04 — Linear, parity and mapping constraint builders mean what their names say.
Property theorems only; helper lemmas are in `Lemmas/`.
-/
import Lemmas.Linear
import Lemmas.OPB
namespace Cnfgen.C04
open Cnfgen Linear

/-- every literal of the list is a legal (non-zero) DIMACS literal — what
`_check_and_update` enforces when `check=True` -/
def NonZero (ls : List Int) : Prop := ∀ l ∈ ls, l ≠ 0

/-- T-C04.1 `add_linear(lits, op, k)` constrains exactly to `count op k`, for every
literal list (repeats, opposite literals), every operator and every integer `k`. -/
theorem linear_holds (α : Assign) (ls : List Int) (o : Op) (k : Int) (h : NonZero ls) :
    (∀ c ∈ Linear.add ls o k, clauseHolds α c = true) ↔ o.denote (count α ls) k = true := by
  cases o <;> simp only [Linear.add, Op.denote, decide_eq_true_eq]
  · exact leq_holds α ls k h
  · exact geq_holds α ls k
  · rw [leq_holds α ls (k-1) h]; omega
  · rw [geq_holds α ls (k+1)]; omega
  · simp only [List.mem_append]
    constructor
    · intro hh
      have h1 := (leq_holds α ls k h).1 (fun c hc => hh c (Or.inl hc))
      have h2 := (geq_holds α ls k).1 (fun c hc => hh c (Or.inr hc))
      omega
    · intro he c hc
      rcases hc with hc | hc
      · exact (leq_holds α ls k h).2 (by omega) c hc
      · exact (geq_holds α ls k).2 (by omega) c hc
  · exact neq_holds α ls k h

/-- non-vacuity: a list with a repeated and an opposite literal, negative constant -/
example : NonZero [1, -1, 2, 2] := by intro l hl; simp at hl; omega

/-- T-C04.2 parity: constant 1 ↔ odd number of true literals, constant 0 ↔ even -/
theorem parity_holds (α : Assign) (ls : List Int) (b : Bool) (h : NonZero ls) :
    (∀ c ∈ Linear.parity ls (if b then 1 else 0), clauseHolds α c = true) ↔
      (count α ls % 2 = (if b then 1 else 0)) := by
  unfold Linear.parity
  rw [parityClauses_holds α ls _ h]
  cases b <;> simp <;> omega

/-- T-C04.3 majorities / minorities (CNF encoding) -/
theorem looseMajority_holds (α : Assign) (ls : List Int) (h : NonZero ls) :
    (∀ c ∈ looseMajority ls, clauseHolds α c = true) ↔ ls.length ≤ 2 * count α ls := by
  unfold looseMajority; rw [linear_holds α ls _ _ h]; simp [Op.denote]; omega

theorem looseMinority_holds (α : Assign) (ls : List Int) (h : NonZero ls) :
    (∀ c ∈ looseMinority ls, clauseHolds α c = true) ↔ 2 * count α ls ≤ ls.length := by
  unfold looseMinority; rw [linear_holds α ls _ _ h]; simp [Op.denote]; omega

theorem strictMajority_holds (α : Assign) (ls : List Int) (h : NonZero ls) :
    (∀ c ∈ strictMajority ls, clauseHolds α c = true) ↔ ls.length < 2 * count α ls := by
  unfold strictMajority; rw [linear_holds α ls _ _ h]; simp [Op.denote]; omega

theorem strictMinority_holds (α : Assign) (ls : List Int) (h : NonZero ls) :
    (∀ c ∈ strictMinority ls, clauseHolds α c = true) ↔ 2 * count α ls < ls.length := by
  unfold strictMinority; rw [linear_holds α ls _ _ h]; simp [Op.denote]; omega

/-! ### pseudo-Boolean side -/

def NonZeroTerms (ts : List (Int × Int)) : Prop := ∀ t ∈ ts, t.2 ≠ 0

/-- T-C04.4a normalisation never changes the set of satisfying assignments
(arbitrary integer coefficients, every operator) -/
theorem normalize_sem (c : PBC) (α : Assign) (h : NonZeroTerms c.terms) :
    (PB.normalize c).holds α = c.holds α := by
  obtain ⟨ts, o, v⟩ := c
  simp only [PBC.holds, PB.normalize]
  cases o <;> simp only [Op.denote]
  · -- le
    have hm : ∀ t ∈ ts.map (fun t => (-t.1, t.2)), t.2 ≠ 0 := by
      intro t ht; simp only [List.mem_map] at ht; obtain ⟨t', ht', rfl⟩ := ht; exact h t' ht'
    have := normTerms_sum α (ts.map (fun t => (-t.1, t.2))) (-v) hm
    rw [pbSum_map_neg] at this
    simp only [decide_eq_decide]; omega
  · have := normTerms_sum α ts v h
    simp only [decide_eq_decide]; omega
  · -- lt
    have hm : ∀ t ∈ ts.map (fun t => (-t.1, t.2)), t.2 ≠ 0 := by
      intro t ht; simp only [List.mem_map] at ht; obtain ⟨t', ht', rfl⟩ := ht; exact h t' ht'
    have := normTerms_sum α (ts.map (fun t => (-t.1, t.2))) (-(v-1)) hm
    rw [pbSum_map_neg] at this
    simp only [decide_eq_decide]; omega
  · have := normTerms_sum α ts (v+1) h
    simp only [decide_eq_decide]; omega
  · have := normTerms_sum α ts v h
    simp only [decide_eq_decide]; omega
  · have := normTerms_sum α ts v h
    simp only [decide_eq_decide]; omega

/-- T-C04.4b the result uses only `>=` or `==` (for the five operators `add_constraint`
documents) and has no negative coefficient -/
theorem normalize_form (c : PBC) (hop : c.op ≠ .ne) :
    ((PB.normalize c).op = .ge ∨ (PB.normalize c).op = .eq) ∧
    ∀ t ∈ (PB.normalize c).terms, 0 ≤ t.1 := by
  obtain ⟨ts, o, v⟩ := c
  cases o <;> simp [PB.normalize] at hop ⊢ <;> exact fun a b hab => normTerms_nonneg _ _ (a, b) hab

/-- T-C04.4c "leaves only positive coefficients": every coefficient of the normal form is
strictly positive (terms with coefficient zero are dropped — since the repair of D27) -/
theorem normalize_pos (c : PBC) : ∀ t ∈ (PB.normalize c).terms, 0 < t.1 := by
  obtain ⟨ts, o, v⟩ := c
  cases o <;> simp only [PB.normalize] <;> exact normTerms_pos _ _

/-- T-C04.5 the OPB cardinality builders constrain to the same arithmetic -/
theorem opb_linear_holds (α : Assign) (ls : List Int) (o : Op) (k : Int) (h : NonZero ls) :
    (∀ c ∈ PB.add ls o k, c.holds α = true) ↔ o.denote (count α ls) k = true := by
  have hu : NonZeroTerms (PB.unit ls) := by
    intro t ht; simp only [PB.unit, List.mem_map] at ht; obtain ⟨l, hl, rfl⟩ := ht; exact h l hl
  have key : ∀ o', (PB.card ls o' k).holds α = o'.denote (count α ls) k := by
    intro o'
    unfold PB.card
    rw [normalize_sem _ α hu]
    simp [PBC.holds, pbSum_unit]
  cases o
  case ne =>
    simp only [PB.add, List.mem_map, forall_exists_index, and_imp, forall_apply_eq_imp_iff₂]
    have : ∀ c : Clause, (PBC.ofClause c).holds α = clauseHolds α c := ofClause_holds α
    simp only [this]
    simpa [Linear.add] using linear_holds α ls .ne k h
  all_goals simp [PB.add, key]

theorem opb_parity_holds (α : Assign) (ls : List Int) (b : Bool) (h : NonZero ls) :
    (∀ c ∈ PB.parity ls (if b then 1 else 0), c.holds α = true) ↔
      (count α ls % 2 = (if b then 1 else 0)) := by
  simp only [PB.parity, List.mem_map, forall_exists_index, and_imp, forall_apply_eq_imp_iff₂,
    ofClause_holds]
  exact parity_holds α ls b h

theorem opb_looseMajority_holds (α : Assign) (ls : List Int) (h : NonZero ls) :
    (∀ c ∈ PB.looseMajority ls, c.holds α = true) ↔ ls.length ≤ 2 * count α ls := by
  have := opb_linear_holds α ls .ge ((ls.length + 1) / 2 : Nat) h
  simp only [PB.add, Op.denote] at this
  simp only [PB.looseMajority]; rw [this]; simp; omega

theorem opb_looseMinority_holds (α : Assign) (ls : List Int) (h : NonZero ls) :
    (∀ c ∈ PB.looseMinority ls, c.holds α = true) ↔ 2 * count α ls ≤ ls.length := by
  have := opb_linear_holds α ls .le (ls.length / 2 : Nat) h
  simp only [PB.add, Op.denote] at this
  simp only [PB.looseMinority]; rw [this]; simp; omega

theorem opb_strictMajority_holds (α : Assign) (ls : List Int) (h : NonZero ls) :
    (∀ c ∈ PB.strictMajority ls, c.holds α = true) ↔ ls.length < 2 * count α ls := by
  have := opb_linear_holds α ls .gt (ls.length / 2 : Nat) h
  simp only [PB.add, Op.denote] at this
  simp only [PB.strictMajority]; rw [this]; simp; omega

theorem opb_strictMinority_holds (α : Assign) (ls : List Int) (h : NonZero ls) :
    (∀ c ∈ PB.strictMinority ls, c.holds α = true) ↔ 2 * count α ls < ls.length := by
  have := opb_linear_holds α ls .lt ((ls.length + 1) / 2 : Nat) h
  simp only [PB.add, Op.denote] at this
  simp only [PB.strictMinority]; rw [this]; simp; omega

/-- CNF and OPB encodings of the same constraint have the same satisfying assignments
(the builder-level core of C08) -/
theorem cnf_opb_linear_equiv (α : Assign) (ls : List Int) (o : Op) (k : Int) (h : NonZero ls) :
    (∀ c ∈ Linear.add ls o k, clauseHolds α c = true) ↔ (∀ c ∈ PB.add ls o k, c.holds α = true) := by
  rw [linear_holds α ls o k h, opb_linear_holds α ls o k h]

end Cnfgen.C04
