/-
C16 bridge → C03 (share "ramsey": the Pitfall formula and its Tseitin template).
The hypothesis `C03.GraphOK` (= `FamPitfall.GraphOK`: rows of the vertices `1..n` strictly increasing,
within `1..n`, loop-free, symmetric) follows from C16's representation invariant, hence holds after
EVERY history of updates.
-/
import Props.C16.BridgeBase
import Props.C03.Ramsey
namespace Cnfgen.C16
open Cnfgen Cnfgen.Fam

theorem graphOK_of_inv (g : SimpleG) (h : SimpleG.Inv g) : C03.GraphOK g := by
  intro v _ _
  refine ⟨h.nbrs_sorted v, fun u hu => ?_⟩
  have r := h.nbrs_range hu
  exact ⟨r.2.2.1, r.2.2.2.1, fun e => r.2.2.2.2 e.symm, h.mem_nbrs_comm.1 hu⟩

/-- the lemma-level copy of the hypothesis is the same proposition -/
theorem famGraphOK_of_inv (g : SimpleG) (h : SimpleG.Inv g) : FamPitfall.GraphOK g :=
  graphOK_of_inv g h

theorem graphOK_history (n : Nat) (ops : List GOp) : C03.GraphOK ((SimpleG.init n).run ops) :=
  graphOK_of_inv _ (simple_inv_history n ops)

/-! ### payoff -/

/-- the Tseitin template with odd total charge is unsatisfiable on every reachable graph with at
least one vertex -/
theorem tseitin_template_unsat_reachable (n : Nat) (ops : List GOp) (hn : 1 ≤ n) (β : Assign) :
    (PitfallTseitin.template ((SimpleG.init n).run ops)).holds β = false :=
  C03.tseitin_template_unsat _ (graphOK_history n ops)
    (Nat.le_trans hn (simple_history_n_le n ops)) β

/-- Pitfall is a contradiction whatever reachable `Graph` object stands for the drawn regular
graph (every history, every size ≥ 1), in the abstract formula and both renderings; its variable
count is the documented one and it is well formed -/
theorem pitfall_unsat_reachable (n : Nat) (ops : List GOp) (hn : 1 ≤ n) (v d ny nz k : Int)
    (hny : 2 ≤ ny) (F : Formula)
    (h : Pitfall.pitfall v d ny nz k ((SimpleG.init n).run ops) = .ok F) (α : Assign) :
    F.holds α = false ∧ F.toCNF.holds α = false ∧ F.toOPB.holds α = false :=
  C03.pitfall_unsat v d ny nz k _ (graphOK_history n ops)
    (Nat.le_trans hn (simple_history_n_le n ops)) hny F h α

theorem pitfall_nvars_wf_reachable (n : Nat) (ops : List GOp) (ny nz k : Nat) :
    let g := (SimpleG.init n).run ops
    (Pitfall.build ny nz k g).nvars =
      k * g.numberOfEdges + k * ny + k * nz + k * (g.numberOfEdges + nz) + k * 3 ∧
    (Pitfall.build ny nz k g).WF := by
  have h := C03.pitfall_nvars_wf ny nz k _ (graphOK_history n ops)
  have hm : ((SimpleG.init n).run ops).numberOfEdges = ((SimpleG.init n).run ops).edges.length :=
    (simple_inv_history n ops).m_eq_length_edges
  intro g
  exact ⟨by rw [hm]; exact h.1, h.2⟩

end Cnfgen.C16
