/-
C16 bridge → C04 (mapping part) and C11 (variable groups over graph edges).
* the hypothesis `BipG.WF` of `Lemmas/BipWF.lean` is C16's `BipG.Inv` field by field, so it holds
  after EVERY history of updates of a `BipartiteGraph`;
* the hypotheses `graphAux G = .ok B` / `digraphAux D succ = .ok B` of C11 (the construction of
  the auxiliary bipartite graph inside `GraphEdgesVariables` / `DiGraphEdgesVariables` did not
  raise) are always fulfilled on a consistent `Graph` / `DirectedGraph`: every listed edge is
  inside the graph, so no `add_edge` of the construction can fail.
-/
import Props.C16.BridgeBase
import Props.C04.Mapping
import Props.C11
namespace Cnfgen.C16
open Cnfgen Cnfgen.Vars

theorem bipGWF_of_inv (G : BipG) (h : BipG.Inv G) : G.WF where
  ladj_len := h.ladj_length
  radj_len := h.radj_length
  row_sorted := h.rnbrs_sorted
  col_sorted := h.lnbrs_sorted
  mem_row _ _ := h.mem_rnbrs
  mem_col _ _ := h.mem_lnbrs
  edge_range := h.range
  edges_nodup := h.nodup

theorem bipGWF_history (l r : Nat) (ops : List GOp) : ((BipG.init l r).run ops).WF :=
  bipGWF_of_inv _ (bip_inv_history l r ops)

/-- a fold of steps that cannot fail on states of fixed size does not fail -/
theorem foldlM_ok_of_sized {α : Type} (step : BipG → α → Except Err BipG) (l r : Nat) (xs : List α)
    (hstep : ∀ B : BipG, B.l = l → B.r = r → ∀ x ∈ xs, ∃ B', step B x = .ok B' ∧ B'.l = l ∧ B'.r = r)
    (B : BipG) (hl : B.l = l) (hr : B.r = r) : ∃ B', xs.foldlM step B = .ok B' := by
  induction xs generalizing B with
  | nil => exact ⟨B, rfl⟩
  | cons x xs ih =>
    obtain ⟨B1, h1, hl1, hr1⟩ := hstep B hl hr x (by simp)
    obtain ⟨B', h'⟩ := ih (fun B a b y hy => hstep B a b y (by simp [hy])) B1 hl1 hr1
    exact ⟨B', by rw [List.foldlM_cons, h1]; exact h'⟩

/-- an `add_edge` with arguments inside the graph returns, and keeps the two sides -/
theorem bip_addEdge_ok (B : BipG) (u v : Int) (h : BipG.Valid B.l B.r u v) :
    ∃ B', B.addEdge u v = .ok B' ∧ B'.l = B.l ∧ B'.r = B.r := by
  rcases BipG.addEdge_cases B u v with ⟨hn, _⟩ | ⟨_, _, h1⟩ | ⟨_, _, h1⟩
  · exact absurd h hn
  · exact ⟨_, h1, rfl, rfl⟩
  · exact ⟨_, h1, rfl, rfl⟩

/-- `GraphEdgesVariables(G)`: on a consistent `Graph` the auxiliary bipartite graph is built
without exception -/
theorem graphAux_ok_of_inv (G : SimpleG) (h : SimpleG.Inv G) : ∃ B, graphAux G = .ok B := by
  refine foldlM_ok_of_sized _ G.n G.n G.edges (fun B hl hr e he => ?_) (BipG.init G.n G.n) rfl rfl
  have r := h.edges_range (u := e.1) (v := e.2) he
  simp only []
  split
  · exact ⟨B, rfl, hl, hr⟩
  · obtain ⟨B', h1, h2, h3⟩ := bip_addEdge_ok B (min (e.1 : Int) (e.2 : Int)) (max (e.1 : Int) (e.2 : Int))
      (by simp only [BipG.Valid, hl, hr]; omega)
    exact ⟨B', h1, h2.trans hl, h3.trans hr⟩

theorem graphAux_ok_history (n : Nat) (ops : List GOp) :
    ∃ B, graphAux ((SimpleG.init n).run ops) = .ok B :=
  graphAux_ok_of_inv _ (simple_inv_history n ops)

/-- `DiGraphEdgesVariables(D, sortby)`: likewise on a consistent `DirectedGraph` -/
theorem digraphAux_ok_of_inv (D : DiG) (h : DiG.Inv D) (succ : Bool) :
    ∃ B, digraphAux D succ = .ok B := by
  refine foldlM_ok_of_sized _ D.n D.n D.edges (fun B hl hr e he => ?_) (BipG.init D.n D.n) rfl rfl
  have r := h.range e.1 e.2 (h.mem_edges.1 he)
  cases succ
  · obtain ⟨B', h1, h2, h3⟩ := bip_addEdge_ok B (e.1 : Int) (e.2 : Int)
      (by simp only [BipG.Valid, hl, hr]; omega)
    exact ⟨B', by simpa using h1, h2.trans hl, h3.trans hr⟩
  · obtain ⟨B', h1, h2, h3⟩ := bip_addEdge_ok B (e.2 : Int) (e.1 : Int)
      (by simp only [BipG.Valid, hl, hr]; omega)
    exact ⟨B', by simpa using h1, h2.trans hl, h3.trans hr⟩

theorem digraphAux_ok_history (n : Nat) (ops : List GOp) (succ : Bool) :
    ∃ B, digraphAux ((DiG.init n).run ops) succ = .ok B :=
  digraphAux_ok_of_inv _ (di_inv_history n ops) succ

/-! ### payoff -/

/-- C11: the edge variables of every reachable `BipartiteGraph` are numbered consecutively in
`edges()` order, and `to_index` inverts `__call__` without ever raising anything but `ValueError` -/
theorem bip_bijection_reachable (l r : Nat) (ops : List GOp) (s : Nat) :
    let G := (BipG.init l r).run ops
    G.edges.map (fun e => bipId G s e.1 e.2) = List.range' s G.numberOfEdges ∧
    (∀ u v, (u, v) ∈ G.edgeset →
      bipIndex G s (bipId G s u v : Int) = .ok (u, v) ∧ bipIndex G s (-(bipId G s u v : Int)) = .ok (u, v)) ∧
    (∀ lit u v, bipIndex G s lit = .ok (u, v) → (u, v) ∈ G.edgeset ∧ bipId G s u v = lit.natAbs) ∧
    (∀ lit e, bipIndex G s lit = .error e → e = .valueError) :=
  C11.bip_bijection (bipGWF_history l r ops) s

/-- C11: `new_graph_edges(G)` on every reachable `Graph`: the group exists and is well formed for
every legal first identifier -/
theorem graph_edges_reachable (n : Nat) (ops : List GOp) (s : Nat) (hs : 1 ≤ s) (f : String) :
    ∃ B, graphAux ((SimpleG.init n).run ops) = .ok B ∧ (Group.graph s B f).WF := by
  obtain ⟨B, hB⟩ := graphAux_ok_history n ops
  exact ⟨B, hB, (C11.graph_edges hB s f).2 hs⟩

/-- C11: `new_digraph_edges(D, sortby)` on every reachable `DirectedGraph` -/
theorem digraph_edges_reachable (n : Nat) (ops : List GOp) (succ : Bool) (s : Nat) (hs : 1 ≤ s)
    (f : String) :
    let D := (DiG.init n).run ops
    ∃ B, digraphAux D succ = .ok B ∧ (Group.digraph s B succ f).WF ∧
      (∀ a b, (a, b) ∈ B.edgeset ↔ (if succ then (b, a) else (a, b)) ∈ D.edges) := by
  obtain ⟨B, hB⟩ := digraphAux_ok_history n ops succ
  exact ⟨B, hB, C11.digraph_edges hB s f hs⟩

/-- C04: `force_complete_mapping` on a sparse mapping over every reachable `BipartiteGraph` means
"every domain element is mapped somewhere", in both encodings -/
theorem mapping_unary_complete_reachable (α : Assign) (l r : Nat) (ops : List GOp) {s : Nat}
    (hs : 1 ≤ s) :
    let G := (BipG.init l r).run ops
    ∃ cons, forceComplete (.unary s G) = .ok cons ∧
      Means α cons (∀ u, 1 ≤ u → u ≤ G.l → ∃ v ∈ G.rnbrs u, atom α G s u v) :=
  C04.mapping_unary_complete α (bipGWF_history l r ops) hs

end Cnfgen.C16
