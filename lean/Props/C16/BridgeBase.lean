/-
C16 bridges, common part: the order of a reachable object.  `DirectedGraph` and
`BipartiteGraph` have no update that changes the number of vertices; `Graph` can only grow.
(Used by the bridge corollaries whose family theorems relate the sizes of two graph arguments.)
-/
import Props.C16
namespace Cnfgen.C16
open Cnfgen

theorem di_step_n (G : DiG) (op : GOp) : (G.step op).1.n = G.n := by
  cases op with
  | addEdge u v =>
    simp only [DiG.step]
    split
    · rename_i G' he; exact DiG.addEdge_n he
    · rfl
  | removeEdge u v => rfl
  | updateVertexNumber k => rfl
  | addEdgesFrom es => exact DiG.addEdgesFromP_n G es

/-- a `DirectedGraph(n)` has `n` vertices after every history -/
theorem di_run_n (G : DiG) (ops : List GOp) : (G.run ops).n = G.n := by
  induction ops generalizing G with
  | nil => rfl
  | cons o os ih => exact (ih (G.step o).1).trans (di_step_n G o)

theorem di_history_n (n : Nat) (ops : List GOp) : ((DiG.init n).run ops).n = n := di_run_n _ ops

theorem bip_step_lr (G : BipG) (op : GOp) : (G.step op).1.l = G.l ∧ (G.step op).1.r = G.r := by
  cases op with
  | addEdge u v =>
    simp only [BipG.step]
    split
    · rename_i G' he; exact BipG.addEdge_lr he
    · exact ⟨rfl, rfl⟩
  | removeEdge u v => exact ⟨rfl, rfl⟩
  | updateVertexNumber k => exact ⟨rfl, rfl⟩
  | addEdgesFrom es => exact BipG.addEdgesFromP_lr G es

/-- a `BipartiteGraph(l, r)` keeps its two sides after every history -/
theorem bip_run_lr (G : BipG) (ops : List GOp) : (G.run ops).l = G.l ∧ (G.run ops).r = G.r := by
  induction ops generalizing G with
  | nil => exact ⟨rfl, rfl⟩
  | cons o os ih =>
    exact ⟨(ih (G.step o).1).1.trans (bip_step_lr G o).1, (ih (G.step o).1).2.trans (bip_step_lr G o).2⟩

theorem bip_history_lr (l r : Nat) (ops : List GOp) :
    ((BipG.init l r).run ops).l = l ∧ ((BipG.init l r).run ops).r = r := bip_run_lr _ ops

theorem simple_step_n_le (G : SimpleG) (op : GOp) : G.n ≤ (G.step op).1.n := by
  cases op with
  | addEdge u v =>
    simp only [SimpleG.step]
    split
    · rename_i G' he; exact Nat.le_of_eq (SimpleG.addEdge_n he).symm
    · exact Nat.le_refl _
  | removeEdge u v => exact Nat.le_of_eq (SimpleG.removeEdge_n G u v).symm
  | updateVertexNumber k =>
    simp only [SimpleG.step]
    rcases SimpleG.updateVertexNumber_cases G k with ⟨_, he⟩ | ⟨_, G', he, hn, _⟩
    · rw [he]; exact Nat.le_refl _
    · rw [he]; simp only [hn]; omega
  | addEdgesFrom es => exact Nat.le_of_eq (SimpleG.addEdgesFromP_n G es).symm

/-- a `Graph(n)` never loses vertices -/
theorem simple_run_n_le (G : SimpleG) (ops : List GOp) : G.n ≤ (G.run ops).n := by
  induction ops generalizing G with
  | nil => exact Nat.le_refl _
  | cons o os ih => exact Nat.le_trans (simple_step_n_le G o) (ih (G.step o).1)

theorem simple_history_n_le (n : Nat) (ops : List GOp) : n ≤ ((SimpleG.init n).run ops).n :=
  simple_run_n_le (SimpleG.init n) ops

example : ((SimpleG.init 2).run [.updateVertexNumber 5, .updateVertexNumber 3]).n = 5 := by decide

end Cnfgen.C16
