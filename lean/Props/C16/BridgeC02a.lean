/-
C16 bridge → C02 (first share: Tseitin, colouring, even colouring, dominating set, tiling).
The hypothesis `Fam.GoodGraph` of those family theorems follows from C16's representation
invariant, hence holds after EVERY history of `add_edge` / `remove_edge` /
`update_vertex_number` / `add_edges_from` calls with arbitrary arguments, from every size.
The corollaries restate the headline theorems of `Props/C02/Graphs1.lean` without any graph
hypothesis, for every reachable `Graph` object.
-/
import Props.C16
import Props.C02.Graphs1
namespace Cnfgen.C16
open Cnfgen Cnfgen.Fam

/-- `Fam.GoodGraph` (slot 0 empty, `m = |edges()|`, rows strictly increasing, within `1..n`,
loop-free, symmetric) is a consequence of the representation invariant -/
theorem goodGraph_of_inv (G : SimpleG) (h : SimpleG.Inv G) : Fam.GoodGraph G := by
  refine ⟨h.nbrs_of_not_vertex (by omega), h.m_eq_length_edges,
    fun u _ => ⟨h.nbrs_sorted u, fun v hv => ?_⟩⟩
  have r := h.nbrs_range hv
  exact ⟨r.2.2.1, r.2.2.2.1, fun e => r.2.2.2.2 e.symm, h.mem_nbrs_comm.1 hv⟩

/-- … hence of every history -/
theorem goodGraph_history (n : Nat) (ops : List GOp) : Fam.GoodGraph ((SimpleG.init n).run ops) :=
  goodGraph_of_inv _ (simple_inv_history n ops)

/-- … and of every `ofEdges` result -/
theorem goodGraph_ofEdges (n : Nat) (es : List (Nat × Nat)) (G : SimpleG)
    (h : SimpleG.ofEdges n es = .ok G) : Fam.GoodGraph G :=
  goodGraph_of_inv _ (SimpleG.inv_ofEdges h)

/-- non-vacuity: a history with a removal, a growth and rejected calls -/
example : ((SimpleG.init 3).run [.addEdge 1 2, .addEdge 3 1, .addEdge 0 1, .removeEdge 2 1,
    .updateVertexNumber 5, .addEdgesFrom [(5, 1), (9, 9)]]).edges = [(1, 3), (1, 5)] := by decide

/-! ### payoff: the C02 theorems for every reachable `Graph` object -/

/-- Tseitin on every reachable graph, every charge vector: well formed, `|E|` variables, both
renderings mean the parity specification -/
theorem tseitin_holds_reachable (n : Nat) (ops : List GOp) (ch : Option (List Bool)) (α : Assign) :
    let G := (SimpleG.init n).run ops
    (tseitin G ch).WF ∧ (tseitin G ch).nvars = G.numberOfEdges ∧
    ((tseitin G ch).toCNF.holds α = true ↔ TseitinSpec G ch α) ∧
    ((tseitin G ch).toOPB.holds α = true ↔ TseitinSpec G ch α) :=
  have hG := goodGraph_history n ops
  ⟨(C02.tseitin_wf _ hG ch).1, (C02.tseitin_wf _ hG ch).2, C02.tseitin_cnf _ hG ch α,
   C02.tseitin_opb _ hG ch α⟩

/-- the documented satisfiability criterion of Tseitin formulas, on every reachable graph -/
theorem tseitin_sat_iff_reachable (n : Nat) (ops : List GOp) (ch : Option (List Bool)) :
    C02.TseitinSatIff ((SimpleG.init n).run ops) ch :=
  C02.tseitin_sat_iff _ (goodGraph_history n ops) ch

/-- `k`-colouring formula satisfiable iff a proper `k`-colouring exists, on every reachable graph -/
theorem coloring_sat_iff_reachable (n : Nat) (ops : List GOp) (k : Nat) (fn : Bool) :
    let G := (SimpleG.init n).run ops
    (coloringF G k fn).WF ∧
    ((∃ α, (coloringF G k fn).holds α = true) ↔ ∃ col, ProperColoring G k col) :=
  have hG := goodGraph_history n ops
  ⟨(C02.coloring_wf _ hG k fn).1, C02.coloring_sat_iff _ hG k fn⟩

/-- even colouring: specification in both renderings, on every reachable graph -/
theorem evenColoring_holds_reachable (n : Nat) (ops : List GOp) (α : Assign) :
    let G := (SimpleG.init n).run ops
    (evenColoringF G).WF ∧ ((evenColoringF G).holds α = true ↔ EvenColoringSpec G α) :=
  have hG := goodGraph_history n ops
  ⟨(C02.evenColoring_wf _ hG).1, C02.evenColoring_holds _ hG α⟩

/-- dominating set (both encodings) satisfiable iff a dominating set of size ≤ d exists -/
theorem domset_sat_iff_reachable (n : Nat) (ops : List GOp) (d : Nat) (alt : Bool) :
    let G := (SimpleG.init n).run ops
    (domsetF G d alt).WF ∧
    ((∃ α, (domsetF G d alt).holds α = true) ↔ ∃ S, Dominating G S ∧ S.length ≤ d) :=
  have hG := goodGraph_history n ops
  ⟨(C02.domset_wf _ hG d alt).1, C02.domset_sat_iff _ hG d alt⟩

/-- tiling satisfiable iff a perfect dominating set exists -/
theorem tiling_sat_iff_reachable (n : Nat) (ops : List GOp) :
    let G := (SimpleG.init n).run ops
    (tiling G).WF ∧ ((∃ α, (tiling G).holds α = true) ↔ ∃ S, IsTiling G S) :=
  have hG := goodGraph_history n ops
  ⟨(C02.tiling_wf _ hG).1, C02.tiling_sat_iff _ hG⟩

end Cnfgen.C16
