/-
C16 bridge → C14 (graph files round-trip).  C14's hypothesis `InvAny` IS C16's representation
invariant (by cases on the class), so it holds after EVERY history of updates; C14's round-trip
statement applies to every reachable graph object of every class.
-/
import Props.C16.BridgeBase
import Props.C14
namespace Cnfgen.C16
open Cnfgen GraphFmt GraphLex

theorem invAny_simple_history (n : Nat) (ops : List GOp) :
    C14.InvAny (.simple ((SimpleG.init n).run ops)) := simple_inv_history n ops

theorem invAny_di_history (n : Nat) (ops : List GOp) :
    C14.InvAny (.di ((DiG.init n).run ops)) := di_inv_history n ops

theorem invAny_bip_history (l r : Nat) (ops : List GOp) :
    C14.InvAny (.bip ((BipG.init l r).run ops)) := bip_inv_history l r ops

/-! ### payoff: write-then-read returns the same graph, for every reachable object -/

theorem roundtrip_simple_reachable (name : Str) (fmt : Fmt) (hin : C14.InHouse fmt)
    (hsup : fmt ∈ supported .simple) (n : Nat) (ops : List GOp) :
    let G := AnyG.simple ((SimpleG.init n).run ops)
    ∃ rows G', writeGraph name .simple fmt G = .ok rows ∧ readGraph .simple rows = .ok G' ∧
      C14.SameAny G G' :=
  C14.roundtrip name .simple fmt _ hin hsup trivial (invAny_simple_history n ops)

theorem roundtrip_digraph_reachable (name : Str) (fmt : Fmt) (hin : C14.InHouse fmt)
    (hsup : fmt ∈ supported .digraph) (n : Nat) (ops : List GOp) :
    let G := AnyG.di ((DiG.init n).run ops)
    ∃ rows G', writeGraph name .digraph fmt G = .ok rows ∧ readGraph .digraph rows = .ok G' ∧
      C14.SameAny G G' :=
  C14.roundtrip name .digraph fmt _ hin hsup trivial (invAny_di_history n ops)

/-- type `'dag'`: every history after which `is_dag()` answers True -/
theorem roundtrip_dag_reachable (name : Str) (fmt : Fmt) (hin : C14.InHouse fmt)
    (hsup : fmt ∈ supported .dag) (n : Nat) (ops : List GOp)
    (hd : ((DiG.init n).run ops).isDag = true) :
    let G := AnyG.di ((DiG.init n).run ops)
    ∃ rows G', writeGraph name .dag fmt G = .ok rows ∧ readGraph .dag rows = .ok G' ∧
      C14.SameAny G G' :=
  C14.roundtrip name .dag fmt _ hin hsup hd (invAny_di_history n ops)

theorem roundtrip_bipartite_reachable (name : Str) (fmt : Fmt) (hin : C14.InHouse fmt)
    (hsup : fmt ∈ supported .bipartite) (l r : Nat) (ops : List GOp) :
    let G := AnyG.bip ((BipG.init l r).run ops)
    ∃ rows G', writeGraph name .bipartite fmt G = .ok rows ∧ readGraph .bipartite rows = .ok G' ∧
      C14.SameAny G G' :=
  C14.roundtrip name .bipartite fmt _ hin hsup trivial (invAny_bip_history l r ops)

end Cnfgen.C16
