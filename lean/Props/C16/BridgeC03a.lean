/-
C16 bridge → C03 (share "order": pebbling, stone / sparse stone, graph ordering principle).
The hypotheses `TopoDAG` (a `DirectedGraph` whose `is_dag()` answers True), `BipOK`, `NbrsOK` follow
from C16's representation invariants, hence hold after EVERY history of updates.
-/
import Props.C16.BridgeBase
import Props.C03.Order
namespace Cnfgen.C16
open Cnfgen Cnfgen.Fam Cnfgen.FamC03a Cnfgen.Fam.Pebbling Cnfgen.Fam.Ordering

/-- a consistent `DirectedGraph` whose `is_dag()` is True is a DAG in topological order with all
adjacency entries inside `1..n` (through `di_isDag_iff`: the flag says every stored edge is
increasing) -/
theorem topoDAG_of_inv (D : DiG) (h : DiG.Inv D) (hd : D.isDag = true) : TopoDAG D := by
  have inc : ∀ e ∈ D.edgeset, e.1 < e.2 := (di_isDag_iff D ⟨D.n, D.edgeset⟩ h.refines).1 hd
  constructor
  · intro v _ _ p hp
    have he := h.mem_preds.1 hp
    exact ⟨(h.range p v he).1, inc _ he⟩
  · intro v _ _ s hs
    have he := h.mem_succs.1 hs
    exact ⟨inc _ he, (h.range v s he).2.2.2⟩

/-- every history of a `DirectedGraph(n)` after which `is_dag()` answers True -/
theorem topoDAG_history (n : Nat) (ops : List GOp) (hd : ((DiG.init n).run ops).isDag = true) :
    TopoDAG ((DiG.init n).run ops) :=
  topoDAG_of_inv _ (di_inv_history n ops) hd

/-- the same, with the flag read off the history: every accepted insertion was increasing -/
theorem topoDAG_history' (n : Nat) (ops : List GOp) (hinc : ∀ e ∈ DiG.inserted n ops, e.1 < e.2) :
    TopoDAG ((DiG.init n).run ops) :=
  topoDAG_history n ops ((di_isDag_history n ops).2 hinc)

theorem bipOK_of_inv (B : BipG) (h : BipG.Inv B) : BipOK B where
  rng u _ _ j hj := (h.rnbrs_range hj).2.2
  degsum := by
    rw [h.numberOfEdges_eq, BipG.Inv.edges_eq_table, tableEdges, List.length_flatMap]
    simp

theorem bipOK_history (l r : Nat) (ops : List GOp) : BipOK ((BipG.init l r).run ops) :=
  bipOK_of_inv _ (bip_inv_history l r ops)

theorem nbrsOK_of_inv (G : SimpleG) (h : SimpleG.Inv G) : NbrsOK G := by
  intro v _ _ u hu
  have r := h.nbrs_range hu
  exact ⟨r.2.2.1, r.2.2.2.1, fun e => r.2.2.2.2 e.symm⟩

theorem nbrsOK_history (n : Nat) (ops : List GOp) : NbrsOK ((SimpleG.init n).run ops) :=
  nbrsOK_of_inv _ (simple_inv_history n ops)

/-! ### payoff: the C03 theorems for every reachable graph object -/

/-- every `DirectedGraph` with at least one vertex, after any history that leaves `is_dag()` True:
the generator accepts it, the pebbling formula is well formed and unsatisfiable, in both renderings -/
theorem peb_unsat_reachable (n : Nat) (ops : List GOp) (hn : 1 ≤ n)
    (hd : ((DiG.init n).run ops).isDag = true) :
    let D := (DiG.init n).run ops
    pebbling D = .ok (peb D) ∧ (peb D).WF ∧ (¬ ∃ α, (peb D).holds α = true) ∧
    (¬ ∃ α, (peb D).toCNF.holds α = true) ∧ (¬ ∃ α, (peb D).toOPB.holds α = true) :=
  have hD := topoDAG_history n ops hd
  have hn' : 1 ≤ ((DiG.init n).run ops).n := by rw [di_history_n]; exact hn
  ⟨C03.pebbling_accepts _ hd, C03.peb_wf _ hD, C03.peb_unsat _ hD hn', C03.peb_unsat_rendered _ hD hn'⟩

/-- … and when `is_dag()` is False the generator raises `ValueError` -/
theorem peb_rejects_reachable (n : Nat) (ops : List GOp) (hd : ((DiG.init n).run ops).isDag = false) :
    pebbling ((DiG.init n).run ops) = .error .valueError :=
  C03.pebbling_rejects _ hd

/-- sparse stone formula: any reachable DAG on `n ≥ 1` vertices, any reachable availability graph
`BipartiteGraph(n, r)` (any number of stones) -/
theorem sstone_unsat_reachable (n r : Nat) (opsD opsB : List GOp) (hn : 1 ≤ n)
    (hd : ((DiG.init n).run opsD).isDag = true) :
    let D := (DiG.init n).run opsD
    let B := (BipG.init n r).run opsB
    (sstone D B).WF ∧ (¬ ∃ α, (sstone D B).holds α = true) ∧
    (¬ ∃ α, (sstone D B).toCNF.holds α = true) ∧ (¬ ∃ α, (sstone D B).toOPB.holds α = true) :=
  have hD := topoDAG_history n opsD hd
  have hB := bipOK_history n r opsB
  have hl : ((BipG.init n r).run opsB).l = ((DiG.init n).run opsD).n := by
    rw [di_history_n, (bip_history_lr n r opsB).1]
  have hn' : 1 ≤ ((DiG.init n).run opsD).n := by rw [di_history_n]; exact hn
  ⟨C03.sstone_wf _ _ hD hl hB, C03.sstone_unsat _ _ hD hl hn', C03.sstone_unsat_rendered _ _ hD hl hB hn'⟩

/-- stone formula, every stone count -/
theorem stone_unsat_reachable (n k : Nat) (ops : List GOp) (hn : 1 ≤ n)
    (hd : ((DiG.init n).run ops).isDag = true) :
    let D := (DiG.init n).run ops
    (¬ ∃ α, (sstone D (BipG.complete D.n k)).toCNF.holds α = true) ∧
    (¬ ∃ α, (sstone D (BipG.complete D.n k)).toOPB.holds α = true) :=
  C03.stone_unsat_rendered _ k (topoDAG_history n ops hd) (by rw [di_history_n]; exact hn)

/-- graph ordering principle — plain, total, smart, every Knuth variant — on every reachable `Graph`
with at least one vertex: well formed and unsatisfiable in both renderings -/
theorem gop_unsat_reachable (n : Nat) (ops : List GOp) (hn : 1 ≤ n) (total smart : Bool) (knuth : Int) :
    let G := (SimpleG.init n).run ops
    (gop G total smart false knuth).WF ∧
    (¬ ∃ α, (gop G total smart false knuth).toCNF.holds α = true) ∧
    (¬ ∃ α, (gop G total smart false knuth).toOPB.holds α = true) :=
  have hG := nbrsOK_history n ops
  ⟨C03.gop_wf _ hG total smart false knuth,
   C03.gop_unsat_rendered _ hG (Nat.le_trans hn (simple_history_n_le n ops)) total smart knuth⟩

/-- planted variant: satisfiable iff an order with the documented properties exists -/
theorem gop_planted_sat_iff_reachable (n : Nat) (ops : List GOp) (total plant : Bool) (knuth : Int) :
    let G := (SimpleG.init n).run ops
    (∃ α, (gop G total false plant knuth).holds α = true) ↔ ∃ R, OrdSpec G total plant knuth R :=
  C03.gop_planted_sat_iff _ (nbrsOK_history n ops) total plant knuth

/-- non-vacuity: a history with a rejected and a duplicate call keeps `is_dag()` True; one
decreasing insertion turns it off for good -/
example : ((DiG.init 3).run [.addEdge 1 3, .addEdge 0 1, .addEdge 1 3, .addEdgesFrom [(2, 3)]]).isDag = true ∧
    ((DiG.init 3).run [.addEdge 1 3, .addEdge 3 2, .addEdge 2 3]).isDag = false := by decide

end Cnfgen.C16
