/-
C16 bridge → C15 (random modifications of a graph: `split_random_edges`, planted clique /
biclique).  The hypotheses `GRand.ViewOK`, `SimpleG.Sym`, `BipG.InvGB` follow from C16's
representation invariants, hence hold after EVERY history of updates.
-/
import Props.C16.BridgeBase
import Props.C15
namespace Cnfgen.C16
open Cnfgen Cnfgen.GRand

theorem viewOK_of_inv (G : SimpleG) (h : SimpleG.Inv G) : GRand.ViewOK G where
  view e he := by
    have r := h.edges_range (u := e.1) (v := e.2) he
    exact ⟨r.1, r.2.1, (h.mem_edges'.1 he).2⟩
  inside e he := by
    have r := h.range e.1 e.2 he
    exact ⟨r.2.1, r.2.2.2.1⟩

theorem viewOK_history (n : Nat) (ops : List GOp) : GRand.ViewOK ((SimpleG.init n).run ops) :=
  viewOK_of_inv _ (simple_inv_history n ops)

theorem sym_of_inv (G : SimpleG) (h : SimpleG.Inv G) : G.Sym := h.symm

theorem sym_history (n : Nat) (ops : List GOp) : ((SimpleG.init n).run ops).Sym :=
  sym_of_inv _ (simple_inv_history n ops)

/-- a sorted row has as many entries as the edge set has pairs at that vertex -/
theorem length_row_eq_countP {es : List (Nat × Nat)} (hes : es.Nodup) {row : List Nat}
    (hrow : row.Nodup) (mk : Nat → Nat × Nat) (p : Nat × Nat → Bool)
    (hinj : ∀ a b, mk a = mk b → a = b) (hmem : ∀ e, e ∈ row.map mk ↔ e ∈ es ∧ p e = true) :
    row.length = es.countP p := by
  have hn : (row.map mk).Nodup := List.Pairwise.map mk (fun a b hab e => hab (hinj a b e)) hrow
  have hp : (row.map mk).Perm (es.filter p) :=
    (List.perm_ext_iff_of_nodup hn (hes.filter p)).2 (fun e => by rw [hmem, List.mem_filter])
  rw [List.countP_eq_length_filter, ← hp.length_eq, List.length_map]

theorem invGB_of_inv (G : BipG) (h : BipG.Inv G) : G.InvGB where
  lrows := h.ladj_length
  rrows := h.radj_length
  inside e he := h.range e.1 e.2 he
  nodup := h.nodup
  ldeg u := by
    refine length_row_eq_countP h.nodup (h.rnbrs_nodup u) (fun v => (u, v)) _
      (fun a b e => (Prod.mk.inj e).2) (fun e => ?_)
    simp only [List.mem_map, beq_iff_eq]
    constructor
    · rintro ⟨v, hv, rfl⟩; exact ⟨h.mem_rnbrs.1 hv, rfl⟩
    · rintro ⟨he, rfl⟩; exact ⟨e.2, h.mem_rnbrs.2 he, rfl⟩
  rdeg v := by
    refine length_row_eq_countP h.nodup (h.lnbrs_nodup v) (fun u => (u, v)) _
      (fun a b e => (Prod.mk.inj e).1) (fun e => ?_)
    simp only [List.mem_map, beq_iff_eq]
    constructor
    · rintro ⟨u, hu, rfl⟩; exact ⟨h.mem_lnbrs.1 hu, rfl⟩
    · rintro ⟨he, rfl⟩; exact ⟨e.1, h.mem_lnbrs.2 he, rfl⟩

theorem invGB_history (l r : Nat) (ops : List GOp) : ((BipG.init l r).run ops).InvGB :=
  invGB_of_inv _ (bip_inv_history l r ops)

/-! ### payoff -/

/-- `split_random_edges(G, k)` on every reachable `Graph`, every outcome of the random generator:
whenever it returns, exactly `k` vertices and `k` edges were added -/
theorem splitedges_exact_reachable (n : Nat) (ops : List GOp) (G' : SimpleG) (k : Int)
    (ds rest : List Draw) (h : splitEdges ((SimpleG.init n).run ops) k ds = .ok G' rest) :
    let G := (SimpleG.init n).run ops
    G'.n = G.n + k.toNat ∧ G'.m = G.m + k.toNat ∧ 0 ≤ k ∧ k ≤ G.m :=
  C15.splitedges_exact _ G' k ds rest (viewOK_history n ops) h

/-- planted clique on every reachable `Graph` -/
theorem plantclique_leaves_clique_reachable (n : Nat) (ops : List GOp) (G' : SimpleG) (k : Int)
    (ds rest : List Draw) (h : plantClique ((SimpleG.init n).run ops) k ds = .ok G' rest) :
    let G := (SimpleG.init n).run ops
    G'.n = G.n ∧ (∀ e ∈ G.edgeset, e ∈ G'.edgeset) ∧
    ∃ clique : List Nat, (clique.length : Int) = k ∧ clique.Nodup ∧ (∀ v ∈ clique, 1 ≤ v ∧ v ≤ G.n) ∧
      ∀ v ∈ clique, ∀ w ∈ clique, v ≠ w → (v, w) ∈ G'.edgeset :=
  C15.plantclique_leaves_clique _ G' k ds rest (sym_history n ops) h

/-- planted biclique on every reachable `BipartiteGraph` -/
theorem plantbiclique_leaves_biclique_reachable (l r : Nat) (ops : List GOp) (G' : BipG) (a b : Int)
    (ds rest : List Draw) (h : plantBiclique ((BipG.init l r).run ops) a b ds = .ok G' rest) :
    let G := (BipG.init l r).run ops
    G'.InvGB ∧ G'.l = G.l ∧ G'.r = G.r ∧ (∀ e ∈ G.edgeset, e ∈ G'.edgeset) ∧
    ∃ left right : List Nat, (left.length : Int) = a ∧ (right.length : Int) = b ∧ left.Nodup ∧ right.Nodup ∧
      (∀ v ∈ left, 1 ≤ v ∧ v ≤ G.l) ∧ (∀ w ∈ right, 1 ≤ w ∧ w ≤ G.r) ∧
      ∀ v ∈ left, ∀ w ∈ right, (v, w) ∈ G'.edgeset :=
  C15.plantbiclique_leaves_biclique _ G' a b ds rest (invGB_history l r ops) h

end Cnfgen.C16
