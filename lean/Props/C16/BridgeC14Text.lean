/-
C16 bridge → C14 at CHARACTER level.  C14's hypothesis `InvAny` is C16's representation invariant,
which holds after EVERY history of updates; so the character-level round trip of `Props/C14/Text.lean`
(write the graph as text, read the characters back) applies to every reachable graph object of every
class — the only remaining hypothesis is that the numbers fit CPython's `str()` / `int()` (`Printable`).
-/
import Props.C16.BridgeC14
import Props.C14.Text
namespace Cnfgen.C16
open Cnfgen GraphFmt GraphLex

/-- simple graphs: every history of `add_edge` / `remove_edge` / `update_vertex_number` … -/
theorem graph_text_roundtrip_simple_reachable (u : Bool) (name : Str) (fmt : Fmt) (hin : C14.InHouse fmt)
    (hsup : fmt ∈ supported .simple) (n : Nat) (ops : List GOp)
    (hp : C14.Printable (.simple ((SimpleG.init n).run ops))) :
    let G := AnyG.simple ((SimpleG.init n).run ops)
    ∃ t G', writeText name .simple fmt G = .ok t ∧ readText u .simple fmt t = .ok G' ∧ C14.SameAny G G' :=
  C14.graph_text_roundtrip u name .simple fmt _ hin hsup trivial (invAny_simple_history n ops) hp

theorem graph_text_roundtrip_digraph_reachable (u : Bool) (name : Str) (fmt : Fmt) (hin : C14.InHouse fmt)
    (hsup : fmt ∈ supported .digraph) (n : Nat) (ops : List GOp)
    (hp : C14.Printable (.di ((DiG.init n).run ops))) :
    let G := AnyG.di ((DiG.init n).run ops)
    ∃ t G', writeText name .digraph fmt G = .ok t ∧ readText u .digraph fmt t = .ok G' ∧ C14.SameAny G G' :=
  C14.graph_text_roundtrip u name .digraph fmt _ hin hsup trivial (invAny_di_history n ops) hp

/-- type `'dag'`: every history after which `is_dag()` answers True -/
theorem graph_text_roundtrip_dag_reachable (u : Bool) (name : Str) (fmt : Fmt) (hin : C14.InHouse fmt)
    (hsup : fmt ∈ supported .dag) (n : Nat) (ops : List GOp) (hd : ((DiG.init n).run ops).isDag = true)
    (hp : C14.Printable (.di ((DiG.init n).run ops))) :
    let G := AnyG.di ((DiG.init n).run ops)
    ∃ t G', writeText name .dag fmt G = .ok t ∧ readText u .dag fmt t = .ok G' ∧ C14.SameAny G G' :=
  C14.graph_text_roundtrip u name .dag fmt _ hin hsup hd (invAny_di_history n ops) hp

theorem graph_text_roundtrip_bipartite_reachable (u : Bool) (name : Str) (fmt : Fmt) (hin : C14.InHouse fmt)
    (hsup : fmt ∈ supported .bipartite) (l r : Nat) (ops : List GOp)
    (hp : C14.Printable (.bip ((BipG.init l r).run ops))) :
    let G := AnyG.bip ((BipG.init l r).run ops)
    ∃ t G', writeText name .bipartite fmt G = .ok t ∧ readText u .bipartite fmt t = .ok G' ∧ C14.SameAny G G' :=
  C14.graph_text_roundtrip u name .bipartite fmt _ hin hsup trivial (invAny_bip_history l r ops) hp

/-- non-vacuity: a printable reachable object (updates never change the order of a bipartite graph) -/
example : C14.Printable (.bip ((BipG.init 3 11).run [])) := IO.lt_limit_of_le (by decide)

end Cnfgen.C16
