/-
C16, `from_networkx` on a RAW edge listing.

A networkx object handed to `Graph.from_networkx` / `DirectedGraph.from_networkx` /
`BipartiteGraph.from_networkx` need not be the image of a cnfgen graph: a `MultiGraph` reports an
edge several times, a `DiGraph` reports both orientations, any class may hold loops, a coloured
graph may hold an edge inside one side.  The model (`fromNx`) inserts whatever listing it is given,
one pair at a time; the driver request `gfromnx` (suite `nxraw` of harness/props/C16.py) compares
it with the real classmethods on networkx objects of every class.

What is proved here, for EVERY listing (no hypothesis on it):
* the result is either an object satisfying the representation invariant (hence all views agree,
  `*_views` of Props/C16.lean) or `ValueError` — nothing else, and never an inconsistent object;
* exactly which listings are refused (simple: a loop or a vertex out of range; directed: a vertex
  out of range; bipartite: in particular every listing with a pair inside one side);
* the edge set of an accepted conversion is the set of pairs of the listing (normalised for simple
  graphs), however often and in whichever orientation they are reported.
-/
import Props.C16
namespace Cnfgen.C16
open Cnfgen

/-- T-C16.4 (raw listing, simple): `Graph.from_networkx` either builds a consistent object whose
edges are exactly the normalised pairs of the listing, or refuses with `ValueError`; it refuses
iff some pair is a loop or leaves `1..n`. -/
theorem simple_fromNx_raw (n : Nat) (es : List (Nat × Nat)) :
    (∀ G, SimpleG.fromNx (n, es) = .ok G → G.Inv) ∧
    ((∀ e ∈ es, 1 ≤ e.1 ∧ e.1 ≤ n ∧ 1 ≤ e.2 ∧ e.2 ≤ n ∧ e.1 ≠ e.2) →
      ∃ G, SimpleG.fromNx (n, es) = .ok G ∧ G.n = n ∧ ∀ p, p ∈ G.abs ↔ ∃ e ∈ es, p = SimpleG.norm e.1 e.2) ∧
    ((¬ ∀ e ∈ es, 1 ≤ e.1 ∧ e.1 ≤ n ∧ 1 ≤ e.2 ∧ e.2 ≤ n ∧ e.1 ≠ e.2) →
      SimpleG.fromNx (n, es) = .error .valueError) :=
  simple_ofEdges n es

/-- a multigraph listing (an edge three times, in both orientations) is one edge; a loop is refused -/
example : (SimpleG.fromNx (3, [(1, 2), (2, 1), (1, 2), (2, 3)])).map (fun G => (G.m, G.edges)) =
    .ok (2, [(1, 2), (2, 3)]) := rfl
example : SimpleG.fromNx (3, [(1, 2), (2, 2)]) = .error .valueError := rfl

/-- T-C16.4 (raw listing, directed): consistent object with exactly the listed pairs, or `ValueError`
(iff a vertex leaves `1..n`); loops and 2-cycles are legal. -/
theorem di_fromNx_raw (n : Nat) (es : List (Nat × Nat)) :
    (∀ G, DiG.fromNx (n, es) = .ok G → G.Inv) ∧
    ((∀ e ∈ es, 1 ≤ e.1 ∧ e.1 ≤ n ∧ 1 ≤ e.2 ∧ e.2 ≤ n) →
      ∃ G, DiG.fromNx (n, es) = .ok G ∧ G.n = n ∧ ∀ p, p ∈ G.edgeset ↔ p ∈ es) ∧
    ((¬ ∀ e ∈ es, 1 ≤ e.1 ∧ e.1 ≤ n ∧ 1 ≤ e.2 ∧ e.2 ≤ n) → DiG.fromNx (n, es) = .error .valueError) :=
  di_ofEdges n es

example : (DiG.fromNx (3, [(2, 1), (2, 1), (2, 2)])).map (fun G => (G.m, G.edges, G.isDag)) =
    .ok (2, [(2, 1), (2, 2)], false) := rfl

/-! ### bipartite -/

/-- one step of the loop of `BipartiteGraph.from_networkx` -/
def bipNxStep (l : Nat) (g : BipG) (e : Nat × Nat) : Except Err BipG := do
  let p ← BipG.fromNxEdge l e; g.addEdge p.1 p.2

theorem bip_fromNx_fold (l r : Nat) (es : List (Nat × Nat)) :
    BipG.fromNx (l, r, es) = es.foldlM (bipNxStep l) (BipG.init l r) := rfl

theorem fromNxEdge_error {l : Nat} {e : Nat × Nat} {x : Err} (h : BipG.fromNxEdge l e = .error x) :
    x = .valueError := by
  unfold BipG.fromNxEdge at h
  simp only at h
  split at h
  · cases h; rfl
  · split at h <;> cases h

/-- both ends on the same side (in particular a loop): the pair is refused -/
theorem fromNxEdge_same_side {l : Nat} {e : Nat × Nat} (h : e.1 ≤ l ↔ e.2 ≤ l) :
    BipG.fromNxEdge l e = .error .valueError := by
  unfold BipG.fromNxEdge
  simp only
  by_cases h1 : e.1 ≤ l
  · have h2 : ¬ l < e.2 := by have := h.1 h1; omega
    simp [h1, h2]
  · have h2 : l < e.2 := by
      have : ¬ e.2 ≤ l := fun c => h1 (h.2 c)
      omega
    simp [h1, h2]

theorem bipNxStep_error {l : Nat} {g : BipG} {e : Nat × Nat} {x : Err} (h : bipNxStep l g e = .error x) :
    x = .valueError := by
  unfold bipNxStep at h
  cases hp : BipG.fromNxEdge l e with
  | error y =>
    rw [hp] at h
    have : y = x := by injection h
    exact this ▸ fromNxEdge_error hp
  | ok p =>
    rw [hp] at h
    change g.addEdge p.1 p.2 = .error x at h
    rcases BipG.addEdge_cases g p.1 p.2 with ⟨_, h1⟩ | ⟨_, _, h1⟩ | ⟨_, _, h1⟩ <;> rw [h1] at h <;> cases h
    rfl

theorem bipNxStep_ok {l : Nat} {g g' : BipG} {e : Nat × Nat} (hi : g.Inv) (h : bipNxStep l g e = .ok g') :
    g'.Inv ∧ g'.l = g.l ∧ g'.r = g.r := by
  unfold bipNxStep at h
  cases hp : BipG.fromNxEdge l e with
  | error y => rw [hp] at h; cases h
  | ok p =>
    rw [hp] at h
    change g.addEdge p.1 p.2 = .ok g' at h
    exact ⟨BipG.inv_addEdge hi h, BipG.addEdge_lr h⟩

theorem bip_fold_ok {l : Nat} (es : List (Nat × Nat)) {g g' : BipG} (hi : g.Inv)
    (h : es.foldlM (bipNxStep l) g = .ok g') : g'.Inv ∧ g'.l = g.l ∧ g'.r = g.r := by
  induction es generalizing g with
  | nil => simp only [List.foldlM_nil] at h; cases h; exact ⟨hi, rfl, rfl⟩
  | cons e es ih =>
    simp only [List.foldlM_cons] at h
    cases hs : bipNxStep l g e with
    | error x => rw [hs] at h; cases h
    | ok g1 =>
      rw [hs] at h
      obtain ⟨h1, h2, h3⟩ := bipNxStep_ok hi hs
      obtain ⟨k1, k2, k3⟩ := ih h1 h
      exact ⟨k1, k2.trans h2, k3.trans h3⟩

theorem bip_fold_error {l : Nat} (es : List (Nat × Nat)) {g : BipG} {x : Err}
    (h : es.foldlM (bipNxStep l) g = .error x) : x = .valueError := by
  induction es generalizing g with
  | nil => simp only [List.foldlM_nil] at h; cases h
  | cons e es ih =>
    simp only [List.foldlM_cons] at h
    cases hs : bipNxStep l g e with
    | error y =>
      rw [hs] at h
      have : y = x := by injection h
      exact this ▸ bipNxStep_error hs
    | ok g1 => rw [hs] at h; exact ih h

theorem bip_fold_refuses {l : Nat} (es : List (Nat × Nat)) (g : BipG)
    (hb : ∃ e ∈ es, (e.1 ≤ l ↔ e.2 ≤ l)) : es.foldlM (bipNxStep l) g = .error .valueError := by
  induction es generalizing g with
  | nil => obtain ⟨e, he, _⟩ := hb; cases he
  | cons e es ih =>
    simp only [List.foldlM_cons]
    cases hs : bipNxStep l g e with
    | error y => rw [bipNxStep_error hs]; rfl
    | ok g1 =>
      obtain ⟨b, hb1, hb2⟩ := hb
      rcases List.mem_cons.1 hb1 with rfl | hb1
      · unfold bipNxStep at hs
        rw [fromNxEdge_same_side hb2] at hs
        cases hs
      · exact ih g1 ⟨b, hb1, hb2⟩

/-- T-C16.4 (raw listing, bipartite): whatever pairs the coloured networkx object reports,
`BipartiteGraph.from_networkx` returns an object with the invariant and the sides of the colouring,
or raises `ValueError` — nothing else; a listing with a pair inside one side (a loop included) is
always refused.  (Accepted listings of cross pairs: `bip_nx_any_listing`.) -/
theorem bip_fromNx_raw (l r : Nat) (es : List (Nat × Nat)) :
    (∀ G, BipG.fromNx (l, r, es) = .ok G → G.Inv ∧ G.l = l ∧ G.r = r) ∧
    (∀ x, BipG.fromNx (l, r, es) = .error x → x = .valueError) ∧
    ((∃ e ∈ es, (e.1 ≤ l ↔ e.2 ≤ l)) → BipG.fromNx (l, r, es) = .error .valueError) := by
  refine ⟨fun G h => ?_, fun x h => ?_, fun hb => ?_⟩
  · rw [bip_fromNx_fold] at h
    exact bip_fold_ok es (BipG.inv_init l r) h
  · rw [bip_fromNx_fold] at h
    exact bip_fold_error es h
  · rw [bip_fromNx_fold]
    exact bip_fold_refuses es _ hb

/-- a multigraph report of two cross edges (one of them twice, in both orientations) -/
example : (BipG.fromNx (2, 2, [(1, 3), (3, 1), (4, 2)])).map (fun G => (G.numberOfEdges, G.edges)) =
    .ok (2, [(1, 1), (2, 2)]) := rfl
/-- an edge inside the left side, a loop on the right side -/
example : BipG.fromNx (2, 2, [(1, 3), (1, 2)]) = .error .valueError := rfl
example : BipG.fromNx (2, 2, [(3, 3)]) = .error .valueError := rfl

end Cnfgen.C16
