/-
C16 bridge → C01 (graph pigeonhole principle, perfect matching, subset cardinality).
The hypotheses `Fam.GoodBip` (= `C01.GoodBip`) and `Fam.GoodSimple` (= `C01.GoodSimple`) of those
family theorems follow from C16's representation invariants, hence hold after EVERY history of
updates with arbitrary arguments, from every size.
-/
import Props.C16
import Props.C01.Gphp
import Props.C01.Matching
import Props.C01.SubsetCard
namespace Cnfgen.C16
open Cnfgen Cnfgen.Fam

/-- the prefix sums of the right degrees count the entries of the edge listing -/
theorem degSum_eq_length_tableEdges (B : BipG) (k : Nat) :
    degSum B k = (tableEdges B.rnbrs k).length := by
  induction k with
  | zero => simp [degSum, tableEdges]
  | succ k ih =>
    have : tableEdges B.rnbrs (k + 1) =
        tableEdges B.rnbrs k ++ (B.rnbrs (k + 1)).map (fun v => (k + 1, v)) := by
      simp [tableEdges, List.range_succ, List.flatMap_append]
    rw [this, List.length_append, List.length_map, ← ih]; rfl

theorem goodBip_of_inv (B : BipG) (h : BipG.Inv B) : Fam.GoodBip B where
  rnodup := h.rnbrs_nodup
  lnodup := h.lnbrs_nodup
  adj u v := by
    constructor
    · rintro ⟨_, _, hv⟩
      have r := h.rnbrs_range hv
      exact ⟨r.2.2.1, r.2.2.2, h.mem_rnbrs_iff_mem_lnbrs.1 hv⟩
    · rintro ⟨_, _, hu⟩
      have r := h.lnbrs_range hu
      exact ⟨r.1, r.2.1, h.mem_rnbrs_iff_mem_lnbrs.2 hu⟩
  card := by
    rw [h.numberOfEdges_eq, BipG.Inv.edges_eq_table, degSum_eq_length_tableEdges]

theorem goodBip_history (l r : Nat) (ops : List GOp) : Fam.GoodBip ((BipG.init l r).run ops) :=
  goodBip_of_inv _ (bip_inv_history l r ops)

/-- `CompleteBipartiteGraph(l, r)` as consumed by the families -/
theorem goodBip_complete (l r : Nat) : Fam.GoodBip (BipG.complete l r) :=
  goodBip_of_inv _ (BipG.inv_complete l r)

theorem goodSimple_of_inv (G : SimpleG) (h : SimpleG.Inv G) : Fam.GoodSimple G where
  nodup := h.nbrs_nodup
  noloop u hu := (h.nbrs_range hu).2.2.2.2 rfl
  sym u v := by
    rintro ⟨_, _, hv⟩
    have r := h.nbrs_range hv
    exact ⟨r.2.2.1, r.2.2.2.1, h.mem_nbrs_comm.1 hv⟩

theorem goodSimple_history (n : Nat) (ops : List GOp) : Fam.GoodSimple ((SimpleG.init n).run ops) :=
  goodSimple_of_inv _ (simple_inv_history n ops)

/-! ### payoff: the C01 theorems for every reachable graph object -/

/-- T-C01.1 on every reachable `BipartiteGraph`: both flags, every assignment, the abstract
formula and both renderings -/
theorem gphp_spec_reachable (l r : Nat) (ops : List GOp) (f o : Bool) (α : Assign) :
    let B := (BipG.init l r).run ops
    (gphp B f o).WF ∧
    ((gphp B f o).holds α = true ↔ C01.GPHPSpec B f o (C01.gphpRel B α)) ∧
    ((gphp B f o).toCNF.holds α = true ↔ C01.GPHPSpec B f o (C01.gphpRel B α)) ∧
    ((gphp B f o).toOPB.holds α = true ↔ C01.GPHPSpec B f o (C01.gphpRel B α)) :=
  have hB := goodBip_history l r ops
  ⟨C01.gphp_wf _ hB f o, C01.gphp_spec _ hB f o α, C01.gphp_cnf_spec _ hB f o α,
   C01.gphp_opb_spec _ hB f o α⟩

/-- "satisfiable iff the graph has a matching of size |L|", on every reachable `BipartiteGraph` -/
theorem gphp_sat_iff_matching_reachable (l r : Nat) (ops : List GOp) (f : Bool) :
    let B := (BipG.init l r).run ops
    (∃ α, (gphp B f false).holds α = true) ↔
      ∃ g : Nat → Nat, (∀ u, 1 ≤ u → u ≤ B.l → g u ∈ B.rnbrs u) ∧
        (∀ u, 1 ≤ u → u ≤ B.l → ∀ u', 1 ≤ u' → u' ≤ B.l → g u = g u' → u = u') :=
  C01.gphp_sat_iff_matching _ (goodBip_history l r ops) f

/-- perfect matching principle on every reachable `Graph` -/
theorem pm_spec_reachable (n : Nat) (ops : List GOp) (α : Assign) :
    let G := (SimpleG.init n).run ops
    (pmF G).WF ∧ ((pmF G).holds α = true ↔ C01.PMSpec G (C01.pmRel G α)) ∧
    ((pmF G).toCNF.holds α = true ↔ C01.PMSpec G (C01.pmRel G α)) ∧
    ((pmF G).toOPB.holds α = true ↔ C01.PMSpec G (C01.pmRel G α)) :=
  have hG := goodSimple_history n ops
  ⟨C01.pm_wf _ hG, C01.pm_spec _ hG α, C01.pm_cnf_spec _ hG α, C01.pm_opb_spec _ hG α⟩

/-- subset cardinality formula on every reachable `BipartiteGraph` -/
theorem sc_spec_reachable (l r : Nat) (ops : List GOp) (eq : Bool) (α : Assign) :
    let B := (BipG.init l r).run ops
    (subsetCardF B eq).WF ∧
    ((subsetCardF B eq).holds α = true ↔ C01.SCSpec B eq (C01.scLabel B α)) ∧
    ((subsetCardF B eq).toCNF.holds α = true ↔ C01.SCSpec B eq (C01.scLabel B α)) ∧
    ((subsetCardF B eq).toOPB.holds α = true ↔ C01.SCSpec B eq (C01.scLabel B α)) :=
  have hB := goodBip_history l r ops
  ⟨C01.sc_wf _ hB eq, C01.sc_spec _ hB eq α, C01.sc_cnf_spec _ hB eq α, C01.sc_opb_spec _ hB eq α⟩

/-- non-vacuity -/
example : ((BipG.init 2 3).run [.addEdge 1 2, .addEdge 1 2, .addEdge 9 9, .removeEdge 1 2,
    .addEdgesFrom [(2, 3), (2, 1), (0, 1), (1, 1)]]).edges = [(1, 2), (2, 1), (2, 3)] := by decide

end Cnfgen.C16
