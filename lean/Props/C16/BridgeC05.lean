/-
C16 bridge → C05 (variable compression through a bipartite graph).
The hypothesis `Subst.BipWF` (recorded right neighbours are right vertices) follows from C16's
representation invariant, hence holds after EVERY history of updates of a `BipartiteGraph`.
-/
import Props.C16.BridgeBase
import Props.C05
namespace Cnfgen.C16
open Cnfgen Cnfgen.Subst

theorem bipWF_of_inv (B : BipG) (h : BipG.Inv B) : BipWF B :=
  fun _ _ hx => (h.rnbrs_range hx).2.2

theorem bipWF_history (l r : Nat) (ops : List GOp) : BipWF ((BipG.init l r).run ops) :=
  bipWF_of_inv _ (bip_inv_history l r ops)

theorem bipWF_complete (l r : Nat) : BipWF (BipG.complete l r) :=
  bipWF_of_inv _ (BipG.inv_complete l r)

/-! ### payoff -/

/-- XOR compression composes for every well-formed CNF and EVERY reachable `BipartiteGraph` whose
left side has one vertex per variable (any history, any number `r` of new variables) -/
theorem xorCompression_composes_reachable (F : CNF) (hF : F.WF) (r : Nat) (ops : List GOp) :
    let B := (BipG.init F.nvars r).run ops
    ∃ G, compress F B 0 = .ok G ∧
      C05.Composes F G r (fun β v => decide (C05.nbCount B β v % 2 = 1)) := by
  have h := C05.xorCompression_composes F _ (bipWF_history F.nvars r ops)
    (bip_history_lr F.nvars r ops).1 hF
  rw [(bip_history_lr F.nvars r ops).2] at h
  exact h

/-- majority compression, likewise -/
theorem majCompression_composes_reachable (F : CNF) (hF : F.WF) (r : Nat) (ops : List GOp) :
    let B := (BipG.init F.nvars r).run ops
    ∃ G, compress F B 1 = .ok G ∧
      C05.Composes F G r (fun β v => decide ((B.rnbrs v).length ≤ 2 * C05.nbCount B β v)) := by
  have h := C05.majCompression_composes F _ (bipWF_history F.nvars r ops)
    (bip_history_lr F.nvars r ops).1 hF
  rw [(bip_history_lr F.nvars r ops).2] at h
  exact h

end Cnfgen.C16
