/-
C16 bridge → C02 (second share: isomorphism / automorphism, subgraph, clique, Ramsey witness).
The hypothesis `Fam.G2.GoodGraph` (`has_edge` symmetric and irreflexive) follows from C16's
representation invariant, hence holds after every history of updates.
-/
import Props.C16
import Props.C02.Graphs2
namespace Cnfgen.C16
open Cnfgen Cnfgen.Fam.G2

theorem g2GoodGraph_of_inv (G : SimpleG) (h : SimpleG.Inv G) : Fam.G2.GoodGraph G :=
  goodGraph_of_edgeset G (fun e he => ⟨h.symm e.1 e.2 he, (h.range e.1 e.2 he).2.2.2.2⟩)

theorem g2GoodGraph_history (n : Nat) (ops : List GOp) :
    Fam.G2.GoodGraph ((SimpleG.init n).run ops) :=
  g2GoodGraph_of_inv _ (simple_inv_history n ops)

theorem g2GoodGraph_ofEdges (n : Nat) (es : List (Nat × Nat)) (G : SimpleG)
    (h : SimpleG.ofEdges n es = .ok G) : Fam.G2.GoodGraph G :=
  g2GoodGraph_of_inv _ (SimpleG.inv_ofEdges h)

/-! ### payoff: the C02 theorems for every pair of reachable `Graph` objects -/

/-- the isomorphism formula of two reachable graphs (any two histories, any sizes) means
"`α` encodes an isomorphism" … -/
theorem graphIsomorphism_holds_reachable (n1 n2 : Nat) (ops1 ops2 : List GOp) (α : Assign) :
    let G1 := (SimpleG.init n1).run ops1
    let G2 := (SimpleG.init n2).run ops2
    (graphIsomorphism G1 G2).holds α = true ↔ C02.IsoSpec G1 G2 α :=
  C02.graphIsomorphism_holds _ _ (g2GoodGraph_history n1 ops1) (g2GoodGraph_history n2 ops2) α

/-- … and is satisfiable iff the two graphs are isomorphic -/
theorem graphIsomorphism_sat_iff_reachable (n1 n2 : Nat) (ops1 ops2 : List GOp) :
    let G1 := (SimpleG.init n1).run ops1
    let G2 := (SimpleG.init n2).run ops2
    (∃ α, (graphIsomorphism G1 G2).holds α = true) ↔ ∃ f, C02.IsIsomorphism G1 G2 f :=
  C02.graphIsomorphism_sat_iff _ _ (g2GoodGraph_history n1 ops1) (g2GoodGraph_history n2 ops2)

theorem graphAutomorphism_sat_iff_reachable (n : Nat) (ops : List GOp) :
    let G := (SimpleG.init n).run ops
    (∃ α, (graphAutomorphism G).holds α = true) ↔ ∃ l, C02.IsIsoTable G G l ∧ l ≠ verts G.n :=
  C02.graphAutomorphism_sat_iff _ (g2GoodGraph_history n ops)

theorem cliqueCore_sat_iff_reachable (n : Nat) (ops : List GOp) (k : Nat) (sb : Bool) :
    let G := (SimpleG.init n).run ops
    (∃ α, (cliqueCore G k sb).holds α = true) ↔ C02.HasClique G k :=
  C02.cliqueCore_sat_iff _ (g2GoodGraph_history n ops) k sb

theorem binaryCliqueCore_sat_iff_reachable (n : Nat) (ops : List GOp) (k : Nat) (sb : Bool) :
    let G := (SimpleG.init n).run ops
    (∃ α, (binaryCliqueCore G k sb).holds α = true) ↔ C02.HasClique G k :=
  C02.binaryCliqueCore_sat_iff _ (g2GoodGraph_history n ops) k sb

theorem subgraphFormula_sat_iff_reachable (n m : Nat) (opsG opsH : List GOp) (ind sb : Bool) :
    let G := (SimpleG.init n).run opsG
    let H := (SimpleG.init m).run opsH
    (∃ α, (subgraphFormula G H ind sb).holds α = true) ↔ ∃ l, C02.IsEmbTable G H ind sb l :=
  C02.subgraphFormula_sat_iff _ _ (g2GoodGraph_history n opsG) (g2GoodGraph_history m opsH) ind sb

/-- the Ramsey-witness formula of a reachable graph is satisfiable iff the graph has a `k`-clique or an independent
set of size `s` — every `k`, `s` (D25 fixed), both symmetry modes -/
theorem ramseyWitness_sat_iff_reachable (n : Nat) (ops : List GOp) (k s : Nat) (sb : Bool) :
    let G := (SimpleG.init n).run ops
    (∃ α, (ramseyWitnessCore G k s sb).holds α = true) ↔ (C02.HasClique G k ∨ C02.HasIndep G s) :=
  C02.ramseyWitness_sat_iff _ (g2GoodGraph_history n ops) k s sb

end Cnfgen.C16
