/-
C08 — the pseudo-Boolean (OPB) and CNF renderings of a family are the same formula.
Every family model is ONE list of abstract constraints (`Formula`), rendered by `toCNF` (what the
CNF class does with add_clause / add_linear / add_parity …) or by `toOPB` (what the OPB class does).
The generic theorem below is therefore the whole property on the model; the files in Props/C08/
instantiate it for each family with that family's well-formedness theorem.
-/
import Lemmas.Constr
namespace Cnfgen.C08
open Cnfgen

/-- T-C08.1 for every well-formed formula (every literal non-zero and within the declared variables):
both renderings declare the same number of variables and have exactly the same satisfying assignments -/
theorem renderings_agree (F : Formula) (h : F.WF) :
    F.toCNF.nvars = F.toOPB.nvars ∧ ∀ α : Assign, F.toCNF.holds α = F.toOPB.holds α :=
  ⟨rfl, fun α => by rw [Formula.toCNF_holds α F h, Formula.toOPB_holds α F h]⟩

/-- constraint by constraint: the clauses the CNF class appends and the constraints the OPB class
appends for the same abstract constraint accept the same assignments -/
theorem constraint_renderings_agree (c : Con) (h : ∀ l ∈ c.lits, l ≠ 0) (α : Assign) :
    (∀ cl ∈ c.toCNF, clauseHolds α cl = true) ↔ (∀ p ∈ c.toOPB, p.holds α = true) := by
  rw [Con.toCNF_holds α c h, Con.toOPB_holds α c h]

/-- hence equal satisfiability -/
theorem sat_iff (F : Formula) (h : F.WF) :
    (∃ α, F.toCNF.holds α = true) ↔ (∃ α, F.toOPB.holds α = true) := by
  constructor <;> rintro ⟨α, hα⟩ <;> exact ⟨α, by rw [← hα, (renderings_agree F h).2 α]⟩

/-- non-vacuity: a formula with a cardinality, a parity and a majority constraint -/
def exF : Formula := ⟨4, [.lin [1, -2, 3] .le 1, .parity [2, 4] 1, .maj .strictMaj [1, 2, 3], .clause [-4]]⟩
example : exF.WF := by unfold Formula.WF exF; decide
example : exF.toCNF.clauses.length = 9 ∧ exF.toOPB.constraints.length = 5 := by decide

end Cnfgen.C08
