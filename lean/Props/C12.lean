/-
C12 — OPB and LaTeX renderings denote the formula held in memory.
Property theorems only; helper lemmas are in `Lemmas/IOOpb.lean`, `Lemmas/IOLatex.lean`,
`Lemmas/IOComments.lean`.  Token level (see C06): the text → token-row step is the lexer,
compared with Python on every harness case.  `readOpb`, `readClauseRow`, `readConstraintRow`
are specification-side readers written in the model (cnfgen has no reader for these formats).
-/
import Lemmas.IOOpb
import Lemmas.IOLatex
import Lemmas.IOLatexNames
namespace Cnfgen.C12
open Cnfgen Cnfgen.IO

/-- a pseudo-Boolean formula as `BaseOPB` holds it: every relation is `>=` or `==`, every literal
is non-zero and within `nvars`.  Coefficients are arbitrary integers (so "arbitrary positive
coefficients" is covered with room to spare). -/
def WFOpb (G : OPB) : Prop := ∀ c ∈ G.constraints, GoodPBC G.nvars c

/-- T-C12.2-shape for OPB: the file starts with the row declaring the true number of variables
and of constraints; then come comment rows — each starts with the word `*` —, then one row per
constraint, in order.  For every header dictionary and label list. -/
theorem opb_shape (u : Bool) (G : OPB) (hdr : Option Header) (names : Option (List Str)) :
    ∃ comments : List Row,
      renderOpb u G hdr names =
        [Tok.word ['*'], Tok.word "#variable=".toList, Tok.int (G.nvars : Int),
          Tok.word "#constraint=".toList, Tok.int (G.constraints.length : Int)] ::
        (comments ++ G.constraints.map opbConstraintRow) ∧
      ∀ r ∈ comments, ∃ rest, r = Tok.word ['*'] :: rest :=
  ⟨opbCommentRows u hdr names, rfl, opbCommentRows_star u hdr names⟩

/-- T-C12.1 (OPB formulas): the strict reader, applied to what the writer wrote, returns the
declared number of variables and, constraint by constraint, the same coefficients, literals,
relation and degree — equalities, empty constraints, any integer coefficients, with or without
header and variable names, whatever the header values and labels contain. -/
theorem opb_roundtrip (u : Bool) (G : OPB) (hdr : Option Header) (names : Option (List Str)) (hG : WFOpb G) :
    readOpb (renderOpb u G hdr names) = .ok (G.nvars, G.constraints) := by
  have hfilter : (opbCommentRows u hdr names ++ G.constraints.map opbConstraintRow).filter (fun r => !opbIsComment r) =
      G.constraints.map opbConstraintRow := by
    rw [List.filter_append]
    have h1 : (opbCommentRows u hdr names).filter (fun r => !opbIsComment r) = [] := by
      rw [List.filter_eq_nil_iff]
      intro r hr
      obtain ⟨rest, rfl⟩ := opbCommentRows_star u hdr names r hr
      simp [opbIsComment]
    have h2 : (G.constraints.map opbConstraintRow).filter (fun r => !opbIsComment r) = G.constraints.map opbConstraintRow := by
      rw [List.filter_eq_self]
      intro r hr
      obtain ⟨c, _, rfl⟩ := List.mem_map.1 hr
      simp [opbConstraintRow_notComment]
    rw [h1, h2]; rfl
  have hn : ¬ ((G.nvars : Int) < 0) := by omega
  have hm : ¬ ((G.constraints.length : Int) < 0) := by omega
  simp only [renderOpb, opbSpecRow, readOpb, hfilter, Int.toNat_natCast,
    mapM_readConstraint G.nvars G.constraints hG]
  simp

/-- T-C12.1 (CNF formulas): every clause is read back as the constraint `Σ lits ≥ 1` -/
theorem opb_roundtrip_cnf (u : Bool) (F : CNF) (hdr : Option Header) (names : Option (List Str)) (hF : F.WF) :
    readOpb (renderOpbCNF u F hdr names) = .ok (F.nvars, F.clauses.map PBC.ofClause) := by
  rw [renderOpbCNF_eq]
  apply opb_roundtrip u ⟨F.nvars, F.clauses.map PBC.ofClause⟩ hdr names
  intro c hc
  obtain ⟨cl, hcl, rfl⟩ := List.mem_map.1 hc
  refine ⟨Or.inl rfl, ?_⟩
  intro t ht
  simp only [PBC.ofClause, List.mem_map] at ht
  obtain ⟨l, hl, rfl⟩ := ht
  exact hF cl hcl l hl

/-! ### LaTeX -/

/-- T-C12.2 (row fidelity, CNF): the content of a row, framed in any way the writer frames it
(`&`, optional `\land`, optional `\\`), is read back as exactly that clause — its literals with
their names and polarities, in order; names only need pairwise distinct literal texts. -/
theorem latex_clause_row (names : List Str) (hT : TableOK names) (compact : Bool) (c : Clause) (core : Row)
    (h : clauseCore names compact c = .ok core) (land last : Bool) :
    readClauseRow names (frame land last core) = .ok c :=
  (clauseCore_read names hT compact c core h).2 land last

/-- T-C12.2 (row fidelity, OPB): coefficients (a `1` is omitted, every other integer is printed),
literals, relation and bound are read back exactly -/
theorem latex_constraint_row (names : List Str) (hT : TableOK names) (c : PBC) (hop : c.op = .ge ∨ c.op = .eq)
    (core : Row) (h : constraintCore names c = .ok core) (land last : Bool) :
    readConstraintRow names (frame land last core) = .ok c :=
  (constraintCore_read names hT c hop core h).2 land last

/-- T-C12.2 (names): pairwise distinct names, none starting with `\overline{` and none with a `}`
before the point where it is split for `\overline` (first `_`/`^` at a positive index), have pairwise
distinct literal texts — so the two theorems above apply to them -/
theorem latex_names_ok (names : List Str) (hd : names.Nodup) (hok : ∀ nm ∈ names, NameOK nm) : TableOK names :=
  tableOK_of_names names hd hok

/-- T-C12.2 (one row per clause, in order, across pages): reading the rows of all `align` blocks
in order gives back the clause list — for every page size and both layouts. -/
theorem latex_rows_cnf (F : CNF) (names : List Str) (hT : TableOK names) (split : Nat) (compact : Bool)
    (blocks : List (List Row)) (hne : F.clauses ≠ [])
    (h : latexBlocks (.cnf F) names split compact = .ok blocks) :
    blocks.flatten.mapM (readClauseRow names) = .ok F.clauses := by
  unfold latexBlocks at h
  have h0 : ¬ (AnyF.cnf F).len = 0 := by simpa [AnyF.len] using hne
  simp only [h0, if_false] at h
  cases hc : latexCores (.cnf F) names compact with
  | error e => simp [hc] at h
  | ok cores =>
    simp [hc] at h; subst h
    have hrel := mapM_forall₂ _ F.clauses cores hc
    have hfr := blocks_framed (compact && !(AnyF.cnf F).isOpb) split cores
    apply mapM_of_allRel
    refine AllRel.comp ?_ hfr hrel.flip
    intro row core c ⟨land, last, hrow⟩ hcore
    rw [hrow]; exact latex_clause_row names hT compact c core hcore land last

theorem latex_rows_opb (G : OPB) (names : List Str) (hT : TableOK names) (split : Nat) (compact : Bool)
    (blocks : List (List Row)) (hne : G.constraints ≠ []) (hop : ∀ c ∈ G.constraints, c.op = .ge ∨ c.op = .eq)
    (h : latexBlocks (.opb G) names split compact = .ok blocks) :
    blocks.flatten.mapM (readConstraintRow names) = .ok G.constraints := by
  unfold latexBlocks at h
  have h0 : ¬ (AnyF.opb G).len = 0 := by simpa [AnyF.len] using hne
  simp only [h0, if_false] at h
  cases hc : latexCores (.opb G) names compact with
  | error e => simp [hc] at h
  | ok cores =>
    simp [hc] at h; subst h
    have hrel := mapM_forall₂ _ G.constraints cores hc
    have hfr := blocks_framed (compact && !(AnyF.opb G).isOpb) split cores
    -- keep the membership information needed for the relation hypothesis
    have hrel' : AllRel (fun core c => ∀ land last, readConstraintRow names (frame land last core) = .ok c)
        cores G.constraints := by
      have : ∀ (cs : List PBC) (cores : List Row), (∀ c ∈ cs, c.op = .ge ∨ c.op = .eq) →
          AllRel (fun c core => constraintCore names c = .ok core) cs cores →
          AllRel (fun core c => ∀ land last, readConstraintRow names (frame land last core) = .ok c) cores cs := by
        intro cs cores hops hr
        induction hr with
        | nil => exact .nil
        | cons hx _ ih =>
          rename_i c core cs' cores' _
          exact .cons (fun land last => latex_constraint_row names hT c (hops c (by simp)) core hx land last)
            (ih (fun c' hc' => hops c' (by simp [hc'])))
      exact this _ _ hop hrel
    apply mapM_of_allRel
    refine AllRel.comp ?_ hfr hrel'
    intro row core c ⟨land, last, hrow⟩ hcore
    rw [hrow]; exact hcore land last

/-- T-C12.2 (page splitting): the blocks partition the row list — concatenated they are the
original list, none is empty, and with a positive page size none exceeds it — for any length. -/
theorem latex_pages {α} (split : Nat) (rows : List α) :
    (pageBlocks split 0 rows).flatten = rows ∧
    (∀ b ∈ pageBlocks split 0 rows, b ≠ []) ∧
    (0 < split → ∀ b ∈ pageBlocks split 0 rows, b.length ≤ split) :=
  ⟨pageBlocks_flatten split rows 0, pageBlocks_nonempty split rows 0,
   fun h => (pageBlocks_length split h rows 0).1⟩

/-- T-C12.2 (`\square`): a row's content is `\square` exactly for the empty clause -/
theorem latex_square (names : List Str) (compact : Bool) (c : Clause) (core : Row)
    (h : clauseCore names compact c = .ok core) : core = [W "\\square"] ↔ c = [] :=
  square_iff names compact c core h

/-- T-C12.2 (`\top`): the body is the single row `\top` exactly for the empty formula; it is
distinct from every rendering of a non-empty formula (whose rows all start with `&`) -/
theorem latex_top (F : AnyF) (names : List Str) (split : Nat) (compact : Bool) (blocks : List (List Row))
    (h : latexBlocks F names split compact = .ok blocks) : blocks = [[[W "\\top"]]] ↔ F.len = 0 :=
  top_iff F names split compact blocks h

/-! ### format selection (T-C12.3) -/

/-- an explicit request wins, whatever the file is -/
theorem guess_explicit (f : FileArg) :
    guessOutputFormat f (some "latex".toList) = .ok .latex ∧
    guessOutputFormat f (some "dimacs".toList) = .ok .dimacs ∧
    guessOutputFormat f (some "opb".toList) = .ok .opb := by
  refine ⟨by simp [guessOutputFormat], ?_, ?_⟩
  · simp [guessOutputFormat]
  · simp [guessOutputFormat]

/-- any other request is a `ValueError` -/
theorem guess_unknown (f : FileArg) (r : Str) (h1 : r ≠ "latex".toList) (h2 : r ≠ "dimacs".toList)
    (h3 : r ≠ "opb".toList) : guessOutputFormat f (some r) = .error .valueError := by
  show (if r = "latex".toList then _ else if r = "dimacs".toList then _ else if r = "opb".toList then _ else _) = _
  rw [if_neg h1, if_neg h2, if_neg h3]

/-- without a request the extension decides, and guessing never fails: `.tex` ↦ latex,
`.opb` ↦ opb, anything else (no name, non-string name, other extension) ↦ dimacs -/
theorem guess_default (f : FileArg) :
    guessOutputFormat f none =
      .ok (if fileExt f = some "tex".toList then .latex else if fileExt f = some "opb".toList then .opb else .dimacs) := by
  simp only [guessOutputFormat]
  split
  · rfl
  · split <;> rfl

/-- the writer `to_file` runs: CNF objects write what was guessed; OPB objects write LaTeX when
latex was guessed and OPB otherwise (never DIMACS) -/
theorem writer_table (f : FileArg) (request : Option Str) (g : Fmt) (h : guessOutputFormat f request = .ok g) :
    toFileWriter false f request = .ok g ∧
    toFileWriter true f request = .ok (if g = .latex then .latex else .opb) := by
  cases g <;> simp [toFileWriter, h]

/-! ### non-vacuity -/

/-- a well-formed pseudo-Boolean formula: coefficient > 1, coefficient 0, negative literal in an
equality, an empty constraint -/
example : WFOpb ⟨3, [⟨[(2, 1), (0, -3), (1, 2)], .ge, 2⟩, ⟨[(5, -1)], .eq, 5⟩, ⟨[], .ge, -1⟩]⟩ := by
  unfold WFOpb GoodPBC; decide

/-- the OPB round trip evaluated by the kernel, with a multi-line header value (D14 witness) -/
example : readOpb (renderOpb true ⟨2, [⟨[(2, 1), (1, -2)], .ge, 2⟩, ⟨[], .eq, 0⟩]⟩
    (some [("description".toList, "graph\nname\n".toList)]) (some ["x\ny".toList, "b".toList])) =
    .ok (2, [⟨[(2, 1), (1, -2)], .ge, 2⟩, ⟨[], .eq, 0⟩]) := by decide

/-- names of the shape cnfgen produces have pairwise distinct literal texts -/
example : TableOK ["x_{1,2}".toList, "{x_{1,2}}^1".toList, "e[1]_{1,3}".toList, "y".toList, "_u".toList] := by
  unfold TableOK; decide

/-- `NameOK` on names of the shapes cnfgen produces -/
example : ∀ nm ∈ ["x_{1,2}".toList, "{x_{1,2}}^1".toList, "e[1]_{1,3}".toList, "y".toList, "_u".toList], NameOK nm := by
  intro nm h
  simp only [List.mem_cons, List.not_mem_nil, or_false] at h
  rcases h with rfl | rfl | rfl | rfl | rfl <;> exact ⟨by decide, by intro k hk; revert hk; decide +revert⟩

/-- the excluded region of `TableOK` is real: a variable *named* `\overline{x}_1` next to `x_1` -/
example : ¬ TableOK ["x_1".toList, "\\overline{x}_1".toList] := by unfold TableOK; decide

/-- a row read back, kernel-evaluated: `& \land \left( {\overline{x}_1} \lor {x_2} \right) \\` -/
example : readClauseRow ["x_1".toList, "x_2".toList]
    [W "&", W "\\land", W "\\left(", W "{\\overline{x}_1}", W "\\lor", W "{x_2}", W "\\right)", W "\\\\"] = .ok [-1, 2] := by
  decide

/-- `& 2{x_3} + {\overline{x}_1} \geq 2` -/
example : readConstraintRow ["x_1".toList, "x_2".toList, "x_3".toList]
    [W "&", .int 2, W "{x_3}", W "+", W "{\\overline{x}_1}", W "\\geq", .int 2] = .ok ⟨[(2, 3), (1, -1)], .ge, 2⟩ := by
  decide

/-- 71 rows with page size 35 give blocks of 35, 35 and 1 rows -/
example : (pageBlocks 35 0 (List.range 71)).map List.length = [35, 35, 1] := by decide

/-- extensions as `os.path.splitext` sees them -/
example : fileExt (.path "out.tex".toList) = some "tex".toList ∧ fileExt (.path "a.tex/out".toList) = some [] ∧
    fileExt (.path ".tex".toList) = some [] ∧ fileExt (.named "dir/f.opb".toList) = some "opb".toList ∧
    fileExt .fdNamed = none := by decide

end Cnfgen.C12
