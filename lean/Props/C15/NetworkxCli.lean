/-
C15 — the networkx-backed constructions THROUGH cnfgen's own argument checks:
`obtain_grid_or_torus`, `obtain_complete_simple`, `obtain_gnp`, `obtain_gnm` (Cli/GraphArgs.lean), with
the third-party result no longer an input but computed by the model of networkx (`GCli.nxExt`,
`GCli.constructNx`, Cli/GraphArgsNx.lean; compared with the real `obtain_graph`, modifiers and `save`
included, by the correspondence suite `nx_cli`).

Each statement is a dichotomy for EVERY list of numeric tokens: the request is accepted and the graph that
comes back is the one characterised in `Props/C15/Networkx.lean` (`grid_torus_spec`, `complete_blocks_spec`,
`gnp_spec`, `gnm_spec` apply to it), or it is refused with `ValueError` — never a third-party exception, never
a graph of another shape.  `intsOf args = some dims`: every token has an integer value (`int(tok)` succeeded).
-/
import Lemmas.C15NxCli
import Props.C15.Networkx
namespace Cnfgen.C15
open Cnfgen Cnfgen.GRand Cnfgen.GCli Cnfgen.Nx

/-- the documented domain of `grid` / `torus`: at least one dimension, all positive; for the torus no
dimension equal to 1 (a cycle of length 1 is not a simple graph) -/
def GridAccepts (p : Bool) (dims : List Int) : Prop :=
  dims ≠ [] ∧ (∀ d ∈ dims, 0 < d) ∧ ¬ (p = true ∧ (1 : Int) ∈ dims)

/-- `grid d1 … dk` / `torus d1 … dk` on the command line: inside the documented domain the answer is the
grid / torus of `grid_torus_spec` (no draw is consumed); outside it is `ValueError` -/
theorem cli_grid_torus (p : Bool) (args : List Arg) (nx : List NxDraw) (e : Option CG) (fuel : Nat) (ds : List Draw) :
    (∃ dims S, intsOf args = some dims ∧ GridAccepts p dims ∧ gridSimple (dims.map Int.toNat) p = .ok S ∧
      S.n = prodL (dims.map Int.toNat) ∧ SimpleG.Inv S ∧ S.m = gridEdgeCount p (dims.map Int.toNat) ∧
      constructNx (if p then .torus else .grid) args nx e fuel ds = .ok (.simple S) ds) ∨
    ((¬ ∃ dims, intsOf args = some dims ∧ GridAccepts p dims) ∧
      constructNx (if p then .torus else .grid) args nx e fuel ds = .exc .valueError) := by
  have hc : constructNx (if p then .torus else .grid) args nx e fuel ds = obtainGridOrTorus args p (gridExt args p) ds := by
    cases p <;> rfl
  rw [hc, obtainGridOrTorus_apply]
  cases hI : intsOf args with
  | none => right; exact ⟨(by rintro ⟨d, h, _⟩; cases h), rfl⟩
  | some dims =>
    simp only
    by_cases hacc : GridAccepts p dims
    · left
      obtain ⟨a1, a2, a3⟩ := hacc
      have hne : dims.map Int.toNat ≠ [] := by simpa using a1
      have h1 : ¬ (p = true ∧ 1 ∈ dims.map Int.toNat) := by
        rw [mem_map_toNat_one a2]; exact a3
      obtain ⟨S, s1, s2, s3, _, s5⟩ := grid_torus_spec p _ hne h1
      refine ⟨dims, S, rfl, ⟨a1, a2, a3⟩, s1, s2, s3, s5, ?_⟩
      have g1 : gridDimsGiven dims = true := by
        cases dims with
        | nil => exact absurd rfl a1
        | cons x xs => simp [gridDimsGiven]
      have g2 : gridGuard dims = true := (gridGuard_iff dims).2 a2
      have g3 : ¬ (p = true ∧ torusPre dims = false) := by
        rintro ⟨hp, ht⟩
        apply a3
        refine ⟨hp, ?_⟩
        by_contra hc
        have := (torusPre_iff dims).2 hc
        rw [this] at ht; cases ht
      rw [if_pos ⟨g1, g2, g3⟩, ext_apply]
      simp only [gridExt, hI, s1, simpleOf]
    · right
      refine ⟨(by rintro ⟨d, h, hd⟩; cases h; exact hacc hd), ?_⟩
      rw [if_neg]
      rintro ⟨g1, g2, g3⟩
      apply hacc
      refine ⟨?_, (gridGuard_iff dims).1 g2, ?_⟩
      · intro h; subst h; simp [gridDimsGiven] at g1
      · rintro ⟨hp, h1⟩
        apply g3
        refine ⟨hp, ?_⟩
        cases ht : torusPre dims with
        | false => rfl
        | true => exact absurd h1 ((torusPre_iff dims).1 ht)

example : ∃ S, constructNx .torus [⟨some 3, some (3, 1)⟩, ⟨some 4, some (4, 1)⟩] [] none 0 [] = .ok (.simple S) [] ∧ S.n = 12 := by
  rcases cli_grid_torus true [⟨some 3, some (3, 1)⟩, ⟨some 4, some (4, 1)⟩] [] none 0 [] with
    ⟨dims, S, h1, _, _, h4, _, _, h7⟩ | ⟨h, _⟩
  · simp only [intsOf] at h1
    cases h1
    exact ⟨S, h7, h4⟩
  · exfalso; apply h
    refine ⟨[3, 4], rfl, by simp, ?_, by simp⟩
    intro d hd; simp at hd; omega

/-- `complete N B` on the command line: for `N > 0`, `B > 0` the complete `B`-partite graph of
`complete_blocks_spec`; otherwise `ValueError` -/
theorem cli_complete_blocks (a b : Arg) (nx : List NxDraw) (e : Option CG) (fuel : Nat) (ds : List Draw) :
    (∃ n k S, a.int? = some n ∧ b.int? = some k ∧ 0 < n ∧ 0 < k ∧ completeBlocksSimple n.toNat k.toNat = .ok S ∧
      S.n = k.toNat * n.toNat ∧ SimpleG.Inv S ∧ 2 * S.m = n.toNat * n.toNat * (k.toNat * (k.toNat - 1)) ∧
      constructNx .completeS [a, b] nx e fuel ds = .ok (.simple S) ds) ∨
    ((¬ ∃ n k, a.int? = some n ∧ b.int? = some k ∧ 0 < n ∧ 0 < k) ∧
      constructNx .completeS [a, b] nx e fuel ds = .exc .valueError) := by
  have hc : constructNx .completeS [a, b] nx e fuel ds = obtainCompleteSimple [a, b] (nxExt .completeS [a, b] nx) ds := rfl
  rw [hc]
  simp only [obtainCompleteSimple, bind_apply, argInt_apply, guard_apply, nxExt]
  cases ha : a.int? with
  | none => right; exact ⟨(by rintro ⟨n, k, h, _⟩; cases h), rfl⟩
  | some n =>
    cases hb : b.int? with
    | none => right; exact ⟨(by rintro ⟨n, k, _, h, _⟩; cases h), rfl⟩
    | some k =>
      simp only
      by_cases hg : 0 < n ∧ 0 < k
      · left
        obtain ⟨S, s1, s2, s3, _, s5⟩ := complete_blocks_spec n.toNat k.toNat
        refine ⟨n, k, S, rfl, rfl, hg.1, hg.2, s1, s2, s3, s5, ?_⟩
        have : completeMultiGuard n k = true := by simp [completeMultiGuard, hg.1, hg.2]
        simp only [this, ↓reduceIte, ext_apply, s1, simpleOf]
      · right
        refine ⟨(by rintro ⟨n', k', h1, h2, h3⟩; cases h1; cases h2; exact hg h3), ?_⟩
        have : completeMultiGuard n k = false := by
          simp only [completeMultiGuard, Bool.and_eq_false_iff, decide_eq_false_iff_not]
          omega
        simp [this]

example : ∃ S, constructNx .completeS [⟨some 2, some (2, 1)⟩, ⟨some 3, some (3, 1)⟩] [] none 0 [] = .ok (.simple S) [] ∧
    S.n = 6 := by
  rcases cli_complete_blocks ⟨some 2, some (2, 1)⟩ ⟨some 3, some (3, 1)⟩ [] none 0 [] with
    ⟨n, k, S, h1, h2, _, _, _, h6, _, _, h9⟩ | ⟨h, _⟩
  · cases h1; cases h2; exact ⟨S, h9, h6⟩
  · exact absurd ⟨2, 3, rfl, rfl, by decide, by decide⟩ h

theorem gnmGuard_nat {n m : Int} (h : gnmGuard n m = true) :
    0 < n ∧ 0 ≤ m ∧ 2 * m.toNat ≤ n.toNat * (n.toNat - 1) := by
  simp only [gnmGuard, Bool.and_eq_true, decide_eq_true_eq] at h
  obtain ⟨⟨h1, h2⟩, h3⟩ := h
  refine ⟨h1, h2, ?_⟩
  obtain ⟨N, rfl⟩ : ∃ N : Nat, n = (N : Int) := ⟨n.toNat, by omega⟩
  obtain ⟨M, rfl⟩ : ∃ M : Nat, m = (M : Int) := ⟨m.toNat, by omega⟩
  simp only [Int.toNat_natCast]
  have hN : 1 ≤ N := by omega
  have hcast : ((N : Int) * ((N : Int) - 1)) = ((N * (N - 1) : Nat) : Int) := by
    rw [Int.natCast_mul, Int.natCast_sub hN]; rfl
  rw [hcast] at h3
  omega

example : gnmGuard 5 10 = true := by decide

/-- `gnm N m` on the command line, for EVERY pair of tokens and EVERY draw list of networkx: a run that
returns has `N > 0`, `0 ≤ m ≤ N(N-1)/2`, consumed none of cnfgen's own draws, and returns a graph object
on `N` vertices with EXACTLY `m` edges satisfying the invariant of C16; an exception is `ValueError`; no
third-party exception escapes -/
theorem cli_gnm (a b : Arg) (nx : List NxDraw) (e : Option CG) (fuel : Nat) (ds : List Draw) :
    (∀ G rest, constructNx .gnm [a, b] nx e fuel ds = .ok G rest →
      ∃ n m S, a.int? = some n ∧ b.int? = some m ∧ gnmGuard n m = true ∧ rest = ds ∧ G = .simple S ∧
        S.n = n.toNat ∧ S.m = m.toNat ∧ S.edges.length = m.toNat ∧ SimpleG.Inv S) ∧
    (∀ x, constructNx .gnm [a, b] nx e fuel ds = .exc x → x = .valueError) ∧
    constructNx .gnm [a, b] nx e fuel ds ≠ .foreign := by
  have hc : constructNx .gnm [a, b] nx e fuel ds = obtainGnm [a, b] (nxExt .gnm [a, b] nx) ds := rfl
  rw [hc]
  simp only [obtainGnm, bind_apply, argInt_apply, guard_apply, nxExt]
  cases ha : a.int? with
  | none => simp
  | some n =>
    cases hb : b.int? with
    | none => simp
    | some m =>
      simp only
      cases hg : gnmGuard n m with
      | false => simp
      | true =>
        simp only [↓reduceIte, ext_apply]
        obtain ⟨g1, g2, g3⟩ := gnmGuard_nat hg
        cases hs : gnmSimple n.toNat m.toNat nx with
        | stuck => simp [outOf, simpleOf]
        | ok r rest' =>
          obtain ⟨S, s1, s2, s3, s4, s5, _⟩ := gnm_spec n.toNat m.toNat g3 nx r rest' hs
          subst s1
          simp only [outOf, simpleOf]
          refine ⟨?_, (by intro x h; cases h), (by intro h; cases h)⟩
          intro G rest h
          cases h
          exact ⟨n, m, S, rfl, rfl, hg, rfl, rfl, s2, s4, s5, s3⟩

example : ∃ S, constructNx .gnm [⟨some 4, some (4, 1)⟩, ⟨some 2, some (2, 1)⟩]
    [.choice 0, .choice 0, .choice 1, .choice 2, .choice 2, .choice 1, .choice 3, .choice 0] none 0 [] = .ok (.simple S) [] :=
  ⟨_, rfl⟩

/-- `gnp N p` on the command line (two tokens: `t = 1`), for EVERY pair of tokens and EVERY draw list of
networkx: a run that returns has `N > 0`, `0 ≤ p ≤ 1`, and returns the value of
`Graph.normalize(networkx.gnp_random_graph(N, p))` as modelled — the object of `gnp_spec` (`0 < p < 1`),
`gnp_one` (`p = 1`) or `gnp_zero` (`p = 0`); an exception is `ValueError`; no third-party exception escapes -/
theorem cli_gnp (a p : Arg) (nx : List NxDraw) (e : Option CG) (fuel : Nat) (ds : List Draw) :
    (∀ G rest, constructNx .gnp [a, p] nx e fuel ds = .ok G rest →
      ∃ n pn pd S nxrest, a.int? = some n ∧ p.flt? = some (pn, pd) ∧ gnpGuard n pn pd 1 = true ∧ rest = ds ∧
        G = .simple S ∧ gnpSimple n.toNat pn pd nx = .ok (.ok S) nxrest) ∧
    (∀ x, constructNx .gnp [a, p] nx e fuel ds = .exc x → x = .valueError) ∧
    constructNx .gnp [a, p] nx e fuel ds ≠ .foreign := by
  have hc : constructNx .gnp [a, p] nx e fuel ds = obtainGnp [a, p] (nxExt .gnp [a, p] nx) ds := rfl
  rw [hc]
  simp only [obtainGnp, obtainGnpGo, bind_apply, argInt_apply, nxExt]
  cases ha : a.int? with
  | none => simp
  | some n =>
    cases hp : p.flt? with
    | none => simp [valueError_apply]
    | some q =>
      obtain ⟨pn, pd⟩ := q
      simp only [bind_apply, pure_apply, guard_apply]
      cases hg : gnpGuard n pn pd 1 with
      | false => simp
      | true =>
        simp only [↓reduceIte, ext_apply]
        cases hs : gnpSimple n.toNat pn pd nx with
        | stuck => simp [outOf, simpleOf]
        | ok r rest' =>
          cases r with
          | error x => simp [outOf, simpleOf]
          | ok S =>
            simp only [outOf, simpleOf]
            refine ⟨?_, (by intro x h; cases h), (by intro h; cases h)⟩
            intro G rest h
            cases h
            exact ⟨n, pn, pd, S, rest', rfl, rfl, hg, rfl, rfl, hs⟩

example : ∃ S, constructNx .gnp [⟨some 3, some (3, 1)⟩, ⟨none, some (1, 2)⟩]
    [.unit 0, .unit (Nx.unitDen - 1), .unit 5] none 0 [] = .ok (.simple S) [] :=
  ⟨_, rfl⟩

theorem gndGuard_nat {n d : Int} (h : gndGuard n d = true) (ho : gndOdd n d = false) :
    0 < d ∧ d < n ∧ (n.toNat * d.toNat) % 2 = 0 ∧ nxRegularPre d n = true := by
  simp only [gndGuard, Bool.and_eq_true, decide_eq_true_eq] at h
  simp only [gndOdd, beq_eq_false_iff_ne, ne_eq] at ho
  obtain ⟨⟨h1, h2⟩, h3⟩ := h
  obtain ⟨N, rfl⟩ : ∃ N : Nat, n = (N : Int) := ⟨n.toNat, by omega⟩
  obtain ⟨D, rfl⟩ : ∃ D : Nat, d = (D : Int) := ⟨d.toNat, by omega⟩
  have hcast : ((N : Int) * (D : Int)) = ((N * D : Nat) : Int) := by rw [Int.natCast_mul]
  rw [hcast] at ho
  refine ⟨h2, h3, ?_, ?_⟩
  · simp only [Int.toNat_natCast]; omega
  · simp only [nxRegularPre, Bool.and_eq_true, beq_iff_eq, decide_eq_true_eq]
    rw [hcast]; omega

example : gndGuard 6 3 = true ∧ gndOdd 6 3 = false := by decide

/-- `gnd N d` on the command line, for EVERY pair of tokens and EVERY list of shuffles networkx asks
for: a run that returns has `N > d > 0`, `N·d` even, consumed none of cnfgen's own draws, and returns a
`d`-REGULAR graph object on `N` vertices (every neighbour row has `d` entries) with `N·d/2` edges
satisfying the invariant of C16; an exception is `ValueError`; no `NetworkXError` escapes -/
theorem cli_gnd (a b : Arg) (nx : List NxDraw) (e : Option CG) (fuel : Nat) (ds : List Draw) :
    (∀ G rest, constructNx .gnd [a, b] nx e fuel ds = .ok G rest →
      ∃ n d S, a.int? = some n ∧ b.int? = some d ∧ 0 < d ∧ d < n ∧ rest = ds ∧ G = .simple S ∧
        S.n = n.toNat ∧ SimpleG.Inv S ∧ (∀ v : Nat, 1 ≤ v → v ≤ n.toNat → (S.nbrs v).length = d.toNat) ∧
        2 * S.m = n.toNat * d.toNat) ∧
    (∀ x, constructNx .gnd [a, b] nx e fuel ds = .exc x → x = .valueError) ∧
    constructNx .gnd [a, b] nx e fuel ds ≠ .foreign := by
  have hc : constructNx .gnd [a, b] nx e fuel ds = obtainGnd [a, b] (nxExt .gnd [a, b] nx) ds := rfl
  rw [hc]
  simp only [obtainGnd, bind_apply, argInt_apply, guard_apply, nxExt]
  cases ha : a.int? with
  | none => simp
  | some n =>
    cases hb : b.int? with
    | none => simp
    | some d =>
      simp only
      cases hg : gndGuard n d with
      | false => simp
      | true =>
        simp only [↓reduceIte]
        cases ho : gndOdd n d with
        | true => simp [valueError_apply]
        | false =>
          obtain ⟨g1, g2, g3, g4⟩ := gndGuard_nat hg ho
          simp only [Bool.false_eq_true, ↓reduceIte, g4, Bool.not_true, ext_apply]
          cases hs : gndSimple n.toNat d.toNat nx with
          | stuck => simp
          | ok r rest' =>
            obtain ⟨S, s1, s2, s3, s4, s5, _⟩ := gnd_spec n.toNat d.toNat g3 (by omega) nx r rest' hs
            subst s1
            simp only [simpleOf]
            refine ⟨?_, (by intro x h; cases h), (by intro h; cases h)⟩
            intro G rest h
            cases h
            exact ⟨n, d, S, rfl, rfl, g1, g2, rfl, rfl, s2, s3, fun v h1 h2 => (s4 v h1 h2).1, s5⟩

example : ∃ S, constructNx .gnd [⟨some 4, some (4, 1)⟩, ⟨some 2, some (2, 1)⟩]
    [.shuffle [0, 1, 2, 3, 0, 1, 2, 3] [0, 1, 1, 2, 2, 3, 3, 0]] none 0 [] = .ok (.simple S) [] :=
  ⟨_, rfl⟩

end Cnfgen.C15
