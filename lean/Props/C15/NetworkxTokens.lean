/-
C15 — the networkx-backed constructions FROM THE WORDS of the command line:
`make_graph_from_spec('simple', [name, tok₁, …])` = `parse_graph_argument` (Cli/GraphSpec.lean, over the
tables regenerated from the source) followed by `obtain_graph` (Cli/GraphArgs.lean), with the third-party
part computed by the model of networkx (`GCli.nxExt`).  Combines `parse_render` (Props/C15/GraphSpec.lean)
with the `cli_*` theorems (Props/C15/NetworkxCli.lean).

`World.interp tok` = the pair (`int(tok)`, `float(tok)`) of a numeral; the statements hold for every
interpretation of the numerals (the lexer of numbers is Python's).
-/
import Props.C15.GraphSpec
import Props.C15.NetworkxCli
import CnfgenModel.Cli.GraphSpecObtain
namespace Cnfgen.C15
open Cnfgen Cnfgen.GRand Cnfgen.GCli Cnfgen.GSpec Cnfgen.Nx

/-- `obtain_graph` of a request without options: the construction, nothing else, nothing saved -/
theorem obtainGraph_plain (k : Cons) (args : List Arg) (e : Option CG) (fuel : Nat) (ds : List Draw) :
    obtainGraph .simple ⟨k, args, none, none, none, none, none⟩ e fuel ds =
      match construct k args e fuel ds with
      | .ok G rest => .ok (G, none) rest
      | .exc x => .exc x
      | .foreign => .foreign
      | .stuck => .stuck := by
  simp only [obtainGraph, applyOpt, bind_apply, pure_apply]
  cases construct k args e fuel ds <;> rfl

/-- the words `name tok₁ … tok_k` (`name` a construction of simple graphs, every `tok_i` a numeral)
are parsed to the plain request for that construction, and `make_graph_from_spec` is `obtain_graph` of it -/
theorem makeGraph_plain_construction (w : World) (name : String) (k : Cons) (toks : List String)
    (hname : name ∈ consL "simple") (hk : consOf .simple name = some k) (hnum : ∀ t ∈ toks, isFloat t = true) :
    makeGraphFromSpec w "simple" (name :: toks) =
      obtainGraph .simple ⟨k, toks.map w.interp, none, none, none, none, none⟩ w.ext w.fuel := by
  have hwf : WellFormed w.dot "simple" ⟨"simple", some name, none, none, some (some toks), [], none⟩ :=
    ⟨(show "simple" ∈ typeNames by decide), rfl, SourceOK.construction name toks hname rfl rfl rfl rfl hnum,
      ⟨by simp, by simp, by simp⟩⟩
  have hp := parse_render w.dot _ hwf
  have hr : renderSpec ⟨"simple", some name, none, none, some (some toks), [], none⟩ w.dot = name :: toks := by
    simp [renderSpec, renderSave]
  rw [hr] at hp
  unfold makeGraphFromSpec
  rw [hp]
  simp only [gtypeOf, hk, request, List.lookup, Option.map_none]

/-- `grid d1 … dk` / `torus d1 … dk` FROM WORDS: numerals whose integer values lie in the documented
domain give the grid / torus of `grid_torus_spec` (returned, nothing saved, no draw consumed); any other
numerals give `ValueError` -/
theorem make_graph_grid_torus_from_tokens (w : World) (p : Bool) (toks : List String)
    (hnum : ∀ t ∈ toks, isFloat t = true) (nx : List NxDraw)
    (hext : w.ext = nxExt (if p then .torus else .grid) (toks.map w.interp) nx) (ds : List Draw) :
    (∃ dims S, intsOf (toks.map w.interp) = some dims ∧ GridAccepts p dims ∧
      gridSimple (dims.map Int.toNat) p = .ok S ∧ S.n = prodL (dims.map Int.toNat) ∧ SimpleG.Inv S ∧
      makeGraphFromSpec w "simple" ((if p then "torus" else "grid") :: toks) ds = .ok (.simple S, none) ds) ∨
    ((¬ ∃ dims, intsOf (toks.map w.interp) = some dims ∧ GridAccepts p dims) ∧
      makeGraphFromSpec w "simple" ((if p then "torus" else "grid") :: toks) ds = .exc .valueError) := by
  have hmk : makeGraphFromSpec w "simple" ((if p then "torus" else "grid") :: toks) =
      obtainGraph .simple ⟨if p then .torus else .grid, toks.map w.interp, none, none, none, none, none⟩ w.ext w.fuel := by
    cases p
    · exact makeGraph_plain_construction w "grid" .grid toks (by decide) rfl hnum
    · exact makeGraph_plain_construction w "torus" .torus toks (by decide) rfl hnum
  rw [hmk, obtainGraph_plain]
  have hc : construct (if p then .torus else .grid) (toks.map w.interp) w.ext w.fuel ds =
      constructNx (if p then .torus else .grid) (toks.map w.interp) nx none w.fuel ds := by
    rw [hext]; cases p <;> rfl
  rw [hc]
  rcases cli_grid_torus p (toks.map w.interp) nx none w.fuel ds with
    ⟨dims, S, h1, h2, h3, h4, h5, _, h7⟩ | ⟨h1, h2⟩
  · left; exact ⟨dims, S, h1, h2, h3, h4, h5, by rw [h7]⟩
  · right; exact ⟨h1, by rw [h2]⟩

/-- `gnm N m` FROM WORDS, for every interpretation of the two numerals and EVERY list of draws of
networkx: a run that returns gives a graph on `N` vertices with EXACTLY `m` edges (C16 invariant), nothing
saved; an exception is `ValueError`; no third-party exception escapes -/
theorem make_graph_gnm_from_tokens (w : World) (ta tb : String) (ha : isFloat ta = true) (hb : isFloat tb = true)
    (nx : List NxDraw) (hext : w.ext = nxExt .gnm [w.interp ta, w.interp tb] nx) (ds : List Draw) :
    (∀ R rest, makeGraphFromSpec w "simple" ["gnm", ta, tb] ds = .ok R rest →
      ∃ n m S, (w.interp ta).int? = some n ∧ (w.interp tb).int? = some m ∧ R = (.simple S, none) ∧ rest = ds ∧
        S.n = n.toNat ∧ S.m = m.toNat ∧ S.edges.length = m.toNat ∧ SimpleG.Inv S) ∧
    (∀ x, makeGraphFromSpec w "simple" ["gnm", ta, tb] ds = .exc x → x = .valueError) ∧
    makeGraphFromSpec w "simple" ["gnm", ta, tb] ds ≠ .foreign := by
  have hmk := makeGraph_plain_construction w "gnm" .gnm [ta, tb] (by decide) rfl
    (by intro t ht; simp at ht; rcases ht with rfl | rfl <;> assumption)
  rw [hmk, obtainGraph_plain]
  have hc : construct .gnm ([ta, tb].map w.interp) w.ext w.fuel ds =
      constructNx .gnm [w.interp ta, w.interp tb] nx none w.fuel ds := by rw [hext]; rfl
  rw [hc]
  obtain ⟨c1, c2, c3⟩ := cli_gnm (w.interp ta) (w.interp tb) nx none w.fuel ds
  cases hcons : constructNx .gnm [w.interp ta, w.interp tb] nx none w.fuel ds with
  | ok G rest =>
    obtain ⟨n, m, S, h1, h2, _, h4, h5, h6, h7, h8, h9⟩ := c1 G rest hcons
    refine ⟨?_, (by intro x h; simp at h), (by simp)⟩
    intro R rest' h
    simp only [Out.ok.injEq] at h
    obtain ⟨rfl, rfl⟩ := h
    exact ⟨n, m, S, h1, h2, by rw [h5], h4, h6, h7, h8, h9⟩
  | exc x =>
    refine ⟨(by intro R rest h; simp at h), ?_, (by simp)⟩
    intro y h
    simp only [Out.exc.injEq] at h
    subst h; exact c2 x hcons
  | foreign => exact absurd hcons c3
  | stuck => simp

/-- `gnd N d` FROM WORDS, for every interpretation of the two numerals and EVERY list of shuffles of
networkx: a run that returns gives a `d`-REGULAR graph on `N` vertices (C16 invariant), nothing saved; an
exception is `ValueError`; no `NetworkXError` escapes -/
theorem make_graph_gnd_from_tokens (w : World) (ta tb : String) (ha : isFloat ta = true) (hb : isFloat tb = true)
    (nx : List NxDraw) (hext : w.ext = nxExt .gnd [w.interp ta, w.interp tb] nx) (ds : List Draw) :
    (∀ R rest, makeGraphFromSpec w "simple" ["gnd", ta, tb] ds = .ok R rest →
      ∃ n d S, (w.interp ta).int? = some n ∧ (w.interp tb).int? = some d ∧ R = (.simple S, none) ∧ rest = ds ∧
        S.n = n.toNat ∧ SimpleG.Inv S ∧ (∀ v : Nat, 1 ≤ v → v ≤ n.toNat → (S.nbrs v).length = d.toNat) ∧
        2 * S.m = n.toNat * d.toNat) ∧
    (∀ x, makeGraphFromSpec w "simple" ["gnd", ta, tb] ds = .exc x → x = .valueError) ∧
    makeGraphFromSpec w "simple" ["gnd", ta, tb] ds ≠ .foreign := by
  have hmk := makeGraph_plain_construction w "gnd" .gnd [ta, tb] (by decide) rfl
    (by intro t ht; simp at ht; rcases ht with rfl | rfl <;> assumption)
  rw [hmk, obtainGraph_plain]
  have hc : construct .gnd ([ta, tb].map w.interp) w.ext w.fuel ds =
      constructNx .gnd [w.interp ta, w.interp tb] nx none w.fuel ds := by rw [hext]; rfl
  rw [hc]
  obtain ⟨c1, c2, c3⟩ := cli_gnd (w.interp ta) (w.interp tb) nx none w.fuel ds
  cases hcons : constructNx .gnd [w.interp ta, w.interp tb] nx none w.fuel ds with
  | ok G rest =>
    obtain ⟨n, d, S, h1, h2, _, _, h4, h5, h6, h7, h8, h9⟩ := c1 G rest hcons
    refine ⟨?_, (by intro x h; simp at h), (by simp)⟩
    intro R rest' h
    simp only [Out.ok.injEq] at h
    obtain ⟨rfl, rfl⟩ := h
    exact ⟨n, d, S, h1, h2, by rw [h5], h4, h6, h7, h8, h9⟩
  | exc x =>
    refine ⟨(by intro R rest h; simp at h), ?_, (by simp)⟩
    intro y h
    simp only [Out.exc.injEq] at h
    subst h; exact c2 x hcons
  | foreign => exact absurd hcons c3
  | stuck => simp

/-- non-vacuity: the words `torus 3 4` with Python's reading of the numerals -/
example : ∃ S, makeGraphFromSpec
      ⟨fun t => if t = "3" then ⟨some 3, some (3, 1)⟩ else ⟨some 4, some (4, 1)⟩,
        nxExt .torus [⟨some 3, some (3, 1)⟩, ⟨some 4, some (4, 1)⟩] [], .ok (), fun _ => .stuck, 0, true⟩
      "simple" ["torus", "3", "4"] [] = .ok (.simple S, none) [] ∧ S.n = 12 := by
  rcases make_graph_grid_torus_from_tokens
      ⟨fun t => if t = "3" then ⟨some 3, some (3, 1)⟩ else ⟨some 4, some (4, 1)⟩,
        nxExt .torus [⟨some 3, some (3, 1)⟩, ⟨some 4, some (4, 1)⟩] [], .ok (), fun _ => .stuck, 0, true⟩
      true ["3", "4"] (by decide) [] rfl [] with ⟨dims, S, h1, _, _, h4, _, h6⟩ | ⟨h, _⟩
  · have : dims = [3, 4] := by
      have : intsOf [⟨some 3, some (3, 1)⟩, ⟨some 4, some (4, 1)⟩] = some dims := h1
      simp only [intsOf] at this; cases this; rfl
    subst this
    exact ⟨S, h6, h4⟩
  · exfalso; apply h
    refine ⟨[3, 4], rfl, by simp, ?_, by simp⟩
    intro d hd; simp at hd; omega

/-- non-vacuity: the words `gnm 4 2` and `gnd 4 2` with draws of networkx on which the runs return -/
example : ∃ S, makeGraphFromSpec
      ⟨fun t => if t = "4" then ⟨some 4, some (4, 1)⟩ else ⟨some 2, some (2, 1)⟩,
        nxExt .gnm [⟨some 4, some (4, 1)⟩, ⟨some 2, some (2, 1)⟩] [.choice 0, .choice 0, .choice 1, .choice 2, .choice 3, .choice 0],
        .ok (), fun _ => .stuck, 0, true⟩
      "simple" ["gnm", "4", "2"] [] = .ok (.simple S, none) [] := ⟨_, rfl⟩

example : ∃ S, makeGraphFromSpec
      ⟨fun t => if t = "4" then ⟨some 4, some (4, 1)⟩ else ⟨some 2, some (2, 1)⟩,
        nxExt .gnd [⟨some 4, some (4, 1)⟩, ⟨some 2, some (2, 1)⟩] [.shuffle [0, 1, 2, 3, 0, 1, 2, 3] [0, 1, 1, 2, 2, 3, 3, 0]],
        .ok (), fun _ => .stuck, 0, true⟩
      "simple" ["gnd", "4", "2"] [] = .ok (.simple S, none) [] := ⟨_, rfl⟩

end Cnfgen.C15
