/-
C15 — the closed-form DAG constructions of cnfgen/graphs.py (`dag_path`, `dag_complete_binary_tree`, `dag_pyramid`) as
TRANSLATED from the source: the translation keeps what the code does to its `DirectedGraph` — the number of vertices
it is created with and the `add_edge` calls in order — and that is exactly the model's `…Order` / `…Calls`
(`Graph/Build.lean`); replaying the log on the model's graph object gives the model's construction.
-/
import Lemmas.GenDag
set_option linter.unusedSimpArgs false
namespace Cnfgen.C15
open Cnfgen Cnfgen.PyGen Cnfgen.GBuild Cnfgen.GenVars Cnfgen.GenDag

/-- a fresh `DirectedGraph(n)` to which the logged `add_edge` calls are applied in order -/
def replayDi (D : Int × List (Int × Int)) : Except Err DiG :=
  (DiG.initI D.1) >>= fun G => G.addEdgesFrom D.2

theorem replayDi_nat (n : Nat) (calls : List (Nat × Nat)) :
    replayDi ((n : Int), intPairs calls) = DiG.ofEdges n calls := by
  have h : ¬ ((n : Int) < 0) := by omega
  simp [replayDi, DiG.initI, DiG.ofEdges, intPairs, h]

/-- `dag_path(length)`: `length + 1` vertices, the calls `add_edge(i, i+1)` for `i = 1 … length` -/
theorem gen_dag_path_eq_model (length : Int) :
    dag_path length = if length < 0 then Except.error Err.valueError
      else Except.ok (((length.toNat + 1 : Nat) : Int), intPairs (pathCalls length.toNat)) := by
  simp only [dag_path]
  by_cases h : length < 0
  · rw [if_pos h, if_pos h]
  · rw [if_neg h, if_neg h]
    have hl : length = (length.toNat : Int) := by omega
    rw [path_loop]
    congr 2
    · omega
    · rw [List.nil_append, Py.range_one_toList]
      simp only [pathCalls, intPairs, List.map_map]
      apply List.map_congr_left
      intro i _
      simp

theorem gen_dag_path_replay (length : Int) : (dag_path length) >>= replayDi = GBuild.path length := by
  rw [gen_dag_path_eq_model]
  unfold GBuild.path
  by_cases h : length < 0
  · rw [if_pos h, if_pos h]; rfl
  · rw [if_neg h, if_neg h, Py.ok_bind, replayDi_nat]

/-- `dag_complete_binary_tree(height)`: `2·2^h − 1` vertices, for each inner vertex the two edges from its children -/
theorem gen_dag_tree_eq_model (height : Int) :
    dag_complete_binary_tree height = if height < 0 then Except.error Err.valueError
      else Except.ok (((treeOrder height.toNat : Nat) : Int), intPairs (treeCalls height.toNat)) := by
  simp only [dag_complete_binary_tree, treeCalls, treeOrder]
  by_cases h : height < 0
  · rw [if_pos h, if_pos h]
  · rw [if_neg h, if_neg h]
    have hN : (2 : Int) * Py.pow 2 height = ((2 * 2 ^ height.toNat : Nat) : Int) := by
      simp [Py.pow]
    rw [hN, Py.floordiv_two, Py.ok_bind]
    rw [Py.foldl_ext _ treeStep (by intro s a; rfl)]
    have hpos : 0 < 2 ^ height.toNat := Nat.pow_pos (by omega)
    generalize 2 ^ height.toNat = p at hpos ⊢
    have hrange : Py.Range.toList (Py.Range.mk ((((2 * p) / 2 : Nat) : Int) + 1) ((2 * p : Nat) : Int)) =
        rangeI (((2 * p) / 2 + 1 : Nat) : Int) ((((2 * p) / 2 + 1 : Nat) : Int) + ((2 * p - ((2 * p) / 2 + 1) : Nat) : Int)) := by
      simp only [Py.Range.toList]
      congr 1
      · push_cast; omega
    rw [hrange]
    have := tree_loop (((2 * p : Nat) : Int) - 1) (2 * p - ((2 * p) / 2 + 1)) [] 1 ((2 * p) / 2 + 1)
    simp only [Nat.cast_one] at this
    rw [this]
    simp only [List.nil_append]
    congr 2
    omega

theorem gen_dag_tree_replay (height : Int) :
    (dag_complete_binary_tree height) >>= replayDi = GBuild.tree height := by
  rw [gen_dag_tree_eq_model]
  unfold GBuild.tree
  by_cases h : height < 0
  · rw [if_pos h, if_pos h]; rfl
  · rw [if_neg h, if_neg h, Py.ok_bind, replayDi_nat]

/-- `dag_pyramid(height)`: `(h+1)(h+2)/2` vertices, layer by layer the two edges into each vertex of the next layer -/
theorem gen_dag_pyramid_eq_model (height : Int) :
    dag_pyramid height = if height < 0 then Except.error Err.valueError
      else Except.ok (((pyramidOrder height.toNat : Nat) : Int), intPairs (pyramidCalls height.toNat)) := by
  simp only [dag_pyramid]
  by_cases h : height < 0
  · rw [if_pos h, if_pos h]
  · rw [if_neg h, if_neg h]
    have hh : height = (height.toNat : Int) := by omega
    generalize height.toNat = k at hh
    subst hh
    have hn : ((k : Int) + 1) * ((k : Int) + 2) = (((k + 1) * (k + 2) : Nat) : Int) := by push_cast; rfl
    rw [hn, Py.floordiv_two, Py.ok_bind]
    rw [Py.foldl_ext _ (layerStep (k : Int)) (by intro s a; rfl)]
    have hrange : Py.Range.toList (Py.Range.mk 1 ((k : Int) + 1)) =
        rangeI (((k - k + 1 : Nat) : Int)) (((k - k + 1 : Nat) : Int) + (k : Int)) := by
      simp only [Py.Range.toList]; congr 1 <;> omega
    rw [hrange]
    have := layers_loop ((((k + 1) * (k + 2) / 2 : Nat)) : Int) k k [] 1 (k + 2) (Nat.le_refl k)
    simp only [Nat.cast_one, List.nil_append] at this
    have hd : ((k : Int) + 2) = ((k + 2 : Nat) : Int) := by push_cast; rfl
    rw [hd]
    rw [show ∀ (x : (Int × List (Int × Int)) × Int × Int), (Except.ok x.1 : Except Err _) = Except.ok x.1 from fun _ => rfl]
    rw [this]
    rfl

theorem gen_dag_pyramid_replay (height : Int) : (dag_pyramid height) >>= replayDi = GBuild.pyramid height := by
  rw [gen_dag_pyramid_eq_model]
  unfold GBuild.pyramid
  by_cases h : height < 0
  · rw [if_pos h, if_pos h]; rfl
  · rw [if_neg h, if_neg h, Py.ok_bind, replayDi_nat]

/-- a fresh `BipartiteGraph(L, R)` to which the logged `add_edge` calls are applied in order -/
def replayBip (B : (Int × Int) × List (Int × Int)) : Except Err BipG :=
  (BipG.initI B.1.1 B.1.2) >>= fun G => G.addEdgesFrom B.2

/-- `bipartite_shift(N, M, pattern)`: `BipartiteGraph(N, M)`, then for every left vertex and every offset of the SORTED
pattern the call `add_edge(u, 1 + (u - 1 + offset) % M)` (Python's `%`; `M ≥ 1`, so no ZeroDivisionError) -/
theorem gen_bipartite_shift_eq_model (N M : Int) (pattern : List Int) :
    bipartite_shift N M pattern = if N < 1 ∨ M < 1 then Except.error Err.valueError
      else Except.ok ((N, M), shiftCalls N.toNat M.toNat (sortInt pattern)) := by
  simp only [bipartite_shift]
  by_cases h : N < 1 ∨ M < 1
  · rw [if_pos h, if_pos h]
  · rw [if_neg h, if_neg h]
    have hN : N = (N.toNat : Int) := by omega
    have hM : M = (M.toNat : Int) := by omega
    have hMpos : 0 < M.toNat := by omega
    have hL : Py.Range.toList (Py.Range.mk 1 (N + 1)) = ints (rangeN 1 (N.toNat + 1)) := by
      rw [Py.range_one_toList]
    rw [hL, sorted_eq]
    conv_lhs => rw [hM]
    rw [Py.foldlM_ext _ _ (fun s a => rfl), shift_outer M.toNat hMpos, Py.ok_bind]
    simp only [List.nil_append, shiftCalls]
    rw [← hM]

theorem gen_bipartite_shift_replay (N M : Int) (pattern : List Int) :
    (bipartite_shift N M pattern) >>= replayBip = (GBuild.shift N M pattern).map (·.2) := by
  rw [gen_bipartite_shift_eq_model]
  unfold GBuild.shift
  by_cases h : N < 1 ∨ M < 1
  · rw [if_pos h, if_pos h]; rfl
  · rw [if_neg h, if_neg h, Py.ok_bind]
    have hN : ¬ (N < 0 ∨ M < 0) := by omega
    simp only [replayBip, BipG.initI, hN, if_false, Py.ok_bind, bind, Except.bind]
    cases (BipG.init N.toNat M.toNat).addEdgesFrom (shiftCalls N.toNat M.toNat (sortInt pattern)) <;> rfl

/-- non-vacuity -/
example : bipartite_shift 2 3 [2, 0] = Except.ok ((2, 3), [(1, 1), (1, 3), (2, 2), (2, 1)]) := by decide
example : dag_path 3 = Except.ok (4, [(1, 2), (2, 3), (3, 4)]) := by decide
example : dag_pyramid 2 = Except.ok (6, [(1, 4), (2, 4), (2, 5), (3, 5), (4, 6), (5, 6)]) := by decide
example : dag_complete_binary_tree 1 = Except.ok (3, [(1, 3), (2, 3)]) := by decide

end Cnfgen.C15
