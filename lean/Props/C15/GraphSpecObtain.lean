/-
C15 (graph specifications, TOKEN level) — composition of the parser with `obtain_graph`:
`make_graph_from_spec` from the words of the command line.
-/
import Lemmas.GraphBuildCli
import Props.C15.GraphSpec
import CnfgenModel.Cli.GraphSpecObtain
namespace Cnfgen.C15
open Cnfgen Cnfgen.GRand Cnfgen.GCli Cnfgen.GSpec

/-- `finish` is the tail of `obtain_graph` -/
theorem obtainGraph_eq_finish (gt : GType) (p : GCli.Parsed) (e : Option CG) (fuel : Nat) :
    obtainGraph gt p e fuel = construct p.cons p.args e fuel >>= finish gt p := rfl

/-- what the proofs use of the tables: every graph type has a class, every construction of the type has its
`obtain_*` function and that function builds the class of the type; `splitedges` is offered for simple
graphs only -/
def obtainTablesOK : Bool :=
  typeNames.all (fun ty =>
    match gtypeOf ty with
    | none => false
    | some gt =>
      (consL ty).all (fun c => match consOf gt c with
        | some k => decide (k.gtype = gt) && (decide (k = .regular) == decide (c = "regular"))
        | none => false) &&
      (decide (gt = .simple) || !(optL ty).contains "splitedges"))

theorem obtain_tables_ok : obtainTablesOK = true := by decide

theorem finish_only (gt : GType) (p : GCli.Parsed) (G0 : CG) (hk0 : kindOK gt G0)
    (hsplit : gt ≠ .simple → p.splitedges = none) : Only VE (finish gt p G0) := by
  intro ds err h
  unfold finish at h
  rw [bind_exc] at h
  rcases h with h | ⟨G1, m1, h1, h⟩
  · cases gt
    · exact applyOpt_only _ _ _ (fun a => modifyPlantclique_only a G0) _ _ h
    · exact absurd h (pure_ne_exc _ _ _)
    · exact applyOpt_only _ _ _ (fun a => modifyPlantbiclique_only a G0) _ _ h
  have hk1 : kindOK gt G1 := by
    cases gt
    · exact applyOpt_kind _ _ _ _ hk0 (fun a => modifyPlantclique_kind a G0 _ hk0) _ _ _ h1
    · have h1' : (pure G0 : RM CG) ds = .ok G1 m1 := h1
      rw [pure_ok] at h1'; exact h1'.1 ▸ hk0
    · exact applyOpt_kind _ _ _ _ hk0 (fun a => modifyPlantbiclique_kind a G0 _ hk0) _ _ _ h1
  rw [bind_exc] at h
  rcases h with h | ⟨G2, m2, h2, h⟩
  · exact applyOpt_only _ _ _ (fun a => modifyAddedges_only a G1) _ _ h
  have hk2 : kindOK gt G2 := applyOpt_kind _ _ _ _ hk1 (fun a => modifyAddedges_kind a G1 _ hk1) _ _ _ h2
  rw [bind_exc] at h
  rcases h with h | ⟨G3, m3, _, h⟩
  · by_cases hs : gt = .simple
    · subst hs
      rcases hsp : p.splitedges with _ | a
      · rw [hsp] at h; exact absurd h (pure_ne_exc _ _ _)
      · rw [hsp] at h
        rcases modifySplitedges_only a G2 _ _ h with he | ⟨_, hns⟩
        · exact he
        · exfalso
          cases G2 <;> simp [kindOK] at hk2
          exact hns _ rfl
    · rw [hsplit hs] at h
      exact absurd h (pure_ne_exc _ _ _)
  · rcases hs : p.save with _ | b
    · simp only [hs] at h; exact absurd h (pure_ne_exc _ _ _)
    · cases b
      · simp only [hs] at h; exact valueError_only _ _ h
      · simp only [hs] at h; exact absurd h (pure_ne_exc _ _ _)

theorem finish_noForeign (gt : GType) (p : GCli.Parsed) (G0 : CG) : NoForeign (finish gt p G0) := by
  unfold finish
  refine NoForeign.bind ?_ (fun G1 =>
    NoForeign.bind (applyOpt_noForeign _ _ _ modifyAddedges_noForeign) (fun G2 =>
    NoForeign.bind (applyOpt_noForeign _ _ _ modifySplitedges_noForeign) (fun G3 => ?_)))
  · split
    · exact applyOpt_noForeign _ _ _ modifyPlantclique_noForeign
    · exact applyOpt_noForeign _ _ _ modifyPlantbiclique_noForeign
    · exact NoForeign.pure _
  · split
    · exact NoForeign.pure _
    · exact NoForeign.pure _
    · exact valueError_noForeign

/-- the first word of an accepted request with a construction IS the construction -/
theorem parse_construction_head {ty : String} (h : Known ty) (dot : Bool) (toks : List String) (p : GSpec.Parsed)
    (hp : parseGraphArgument ty toks dot = .ok p) (c : String) (hc : p.construction = some c) :
    toks.head? = some c := by
  cases toks with
  | nil => cases hp
  | cons s0 rest =>
    rw [parse_cons h] at hp
    split at hp
    · have := (loop_invariant h dot _ _ _ p (Nat.le_refl _) (optsOK_start dot ty _ rfl rfl) hp).2.2.1
      rw [hc] at this; simp at this; simp [this]
    split at hp
    · cases rest with
      | nil => cases hp
      | cons fn rest' =>
        have := (loop_invariant h dot _ _ _ p (Nat.le_refl _) (optsOK_start dot ty _ rfl rfl) hp).2.2.1
        rw [hc] at this; simp at this
    split at hp; · cases hp
    split at hp; · cases hp
    have := (loop_invariant h dot _ _ _ p (Nat.le_refl _) (optsOK_start dot ty _ rfl rfl) hp).2.2.1
    rw [hc] at this; simp at this

/-- `splitedges` reaches `obtain_graph` for simple graphs only -/
theorem request_split {ty : String} (h : Known ty) (w : World) (toks : List String) (p : GSpec.Parsed)
    (hp : parseGraphArgument ty toks w.dot = .ok p) (gt : GType) (hgt : gtypeOf ty = some gt)
    (k : Cons) (as : List String) (hns : gt ≠ .simple) : (request w k as p).splitedges = none := by
  have hw := parse_wellFormed h w.dot toks p hp
  have ht := obtain_tables_ok
  unfold obtainTablesOK at ht
  rw [List.all_eq_true] at ht
  have ht' := ht ty h
  rw [hgt] at ht'
  simp only [Bool.and_eq_true, Bool.or_eq_true, decide_eq_true_eq, Bool.not_eq_true',
    List.contains_eq_mem, decide_eq_false_iff_not] at ht'
  have hno : "splitedges" ∉ optL ty := by
    rcases ht'.2 with h1 | h1
    · exact absurd h1 hns
    · exact h1
  have : List.lookup "splitedges" p.opts = none := by
    rw [List.lookup_eq_none_iff]
    intro o ho
    rw [bne_iff_ne]
    intro e
    exact hno (e ▸ (hw.opts.names o ho).1)
  simp [request, this]

/-- the request handed to `obtain_graph` is one "as the parser produces it" (`FromParser` of Props/C15.lean) -/
theorem request_fromParser {ty : String} (h : Known ty) (w : World) (toks : List String) (p : GSpec.Parsed)
    (hp : parseGraphArgument ty toks w.dot = .ok p) (gt : GType) (hgt : gtypeOf ty = some gt)
    (k : Cons) (as : List String) (hk : k.gtype = gt) (hext : ∀ g, w.ext = some g → kindOK .simple g) :
    FromParser gt (request w k as p) w.ext :=
  ⟨hk, request_split h w toks p hp gt hgt k as, hext⟩

/-- (d) COMPOSITION — `obtain_graph_clean` from TOKENS.  For every graph type of the tables, EVERY token list,
every value of the numerals, every result of the third-party generators (objects of class `Graph`), every
outcome of opening / reading a file (`S` = the exceptions `open` and the reader can raise; the reader returns an
object of the class of the graph type), all random draws and every recursion budget:
`make_graph_from_spec` returns a graph, or raises `ValueError`, or

* `RecursionError` — only for the construction `regular` (`regular_restart_budget_witness`),
* an exception of `S` (an `OSError` of `open`, which the argparse actions turn into a usage error).

No `IndexError` (C15-S1 is fixed: `parse_only_valueError`), `TypeError`, `KeyError`, `AssertionError`,
`ZeroDivisionError`, no third-party exception. -/
theorem make_graph_clean {ty : String} (h : Known ty) (w : World) (toks : List String) (S : Err → Prop)
    (hext : ∀ g, w.ext = some g → kindOK .simple g)
    (hopen : ∀ e, w.openFile = .error e → S e)
    (hread : ∀ ds e, w.readGraph ds = .exc e → S e)
    (hkind : ∀ gt, gtypeOf ty = some gt → Returns (kindOK gt) w.readGraph)
    (ds : List Draw) (err : Err) (herr : makeGraphFromSpec w ty toks ds = .exc err) :
    err = .valueError ∨ (err = .recursion ∧ toks.head? = some "regular") ∨ S err := by
  unfold makeGraphFromSpec at herr
  cases hp : parseGraphArgument ty toks w.dot with
  | error e =>
    rw [hp] at herr
    simp only [raise_exc] at herr
    subst herr
    exact Or.inl (parse_only_valueError h w.dot toks e hp)
  | ok p =>
    rw [hp] at herr
    have hwf := parse_wellFormed h w.dot toks p hp
    have ht := obtain_tables_ok
    unfold obtainTablesOK at ht
    rw [List.all_eq_true] at ht
    have ht' := ht ty h
    cases hgt : gtypeOf ty with
    | none => rw [hgt] at ht'; cases ht'
    | some gt =>
      rw [hgt] at ht'
      simp only [hgt] at herr
      simp only [Bool.and_eq_true, List.all_eq_true] at ht'
      cases hwf.source with
      | construction c as hc h1 h2 h3 h4 h5 =>
        rw [h1, h4] at herr
        simp only [] at herr
        have hcc := ht'.1 c hc
        cases hk : consOf gt c with
        | none => rw [hk] at hcc; cases hcc
        | some k =>
          rw [hk] at hcc herr
          simp only [Bool.and_eq_true, decide_eq_true_eq, beq_iff_eq, decide_eq_decide] at hcc
          simp only [] at herr
          have hfp := request_fromParser h w toks p hp gt hgt k as hcc.1 hext
          rcases obtainGraph_only_parsed gt _ w.ext w.fuel hfp ds err herr with h6 | ⟨h6, h7⟩
          · exact Or.inl h6
          · refine Or.inr (Or.inl ⟨h7, ?_⟩)
            have hreg : c = "regular" := hcc.2.mp h6
            rw [parse_construction_head h w.dot toks p hp c h1, hreg]
      | fileWithFormat f fn hc hf h1 h2 h3 h4 =>
        rw [h1, h2, h3] at herr
        simp only [] at herr
        exact file_case h w toks S hext hopen hread hkind ds err p hp gt hgt fn f herr
      | fileByName fn hc hf ha hb h1 h2 h3 h4 =>
        rw [h1, h2, h3] at herr
        simp only [] at herr
        exact file_case h w toks S hext hopen hread hkind ds err p hp gt hgt fn "autodetect" herr
where
  file_case {ty : String} (h : Known ty) (w : World) (toks : List String) (S : Err → Prop)
      (hext : ∀ g, w.ext = some g → kindOK .simple g)
      (hopen : ∀ e, w.openFile = .error e → S e)
      (hread : ∀ ds e, w.readGraph ds = .exc e → S e)
      (hkind : ∀ gt, gtypeOf ty = some gt → Returns (kindOK gt) w.readGraph)
      (ds : List Draw) (err : Err) (p : GSpec.Parsed) (hp : parseGraphArgument ty toks w.dot = .ok p)
      (gt : GType) (hgt : gtypeOf ty = some gt) (fn ff : String)
      (herr : (readSource w ty fn ff >>= finish gt (request w default [] p)) ds = .exc err) :
      err = .valueError ∨ (err = .recursion ∧ toks.head? = some "regular") ∨ S err := by
    obtain ⟨_, hf, _, _, _⟩ := known_tables h w.dot
    rw [bind_exc] at herr
    rcases herr with herr | ⟨G0, mid, h0, herr⟩
    · unfold readSource at herr
      cases ho : w.openFile with
      | error e =>
        rw [ho] at herr; simp only [raise_exc] at herr
        exact Or.inr (Or.inr (herr ▸ hopen e ho))
      | ok u =>
        rw [ho] at herr
        simp only [hf] at herr
        split at herr
        · exact Or.inl (valueError_only _ _ herr)
        · exact Or.inr (Or.inr (hread _ _ herr))
    · have hk0 : kindOK gt G0 := by
        unfold readSource at h0
        cases ho : w.openFile with
        | error e => rw [ho] at h0; simp [RM.raise] at h0
        | ok u =>
          rw [ho] at h0
          simp only [hf] at h0
          split at h0
          · simp [valueError, RM.raise] at h0
          · exact hkind gt hgt _ _ _ h0
      exact Or.inl (finish_only gt _ G0 hk0 (request_split h w toks p hp gt hgt default []) _ _ herr)

/-- (d) … and no exception class of a third-party library escapes (the reader of graph files is C14's) -/
theorem make_graph_noForeign (w : World) (ty : String) (toks : List String) (hread : NoForeign w.readGraph) :
    NoForeign (makeGraphFromSpec w ty toks) := by
  unfold makeGraphFromSpec
  split
  · exact NoForeign.raise _
  · split
    · exact NoForeign.raise _
    · split
      · split
        · exact obtainGraph_noForeign _ _ _ _
        · exact NoForeign.raise _
      · split
        · refine NoForeign.bind ?_ (fun G0 => finish_noForeign _ _ G0)
          unfold readSource
          split
          · exact NoForeign.raise _
          · split
            · exact NoForeign.raise _
            · split
              · exact valueError_noForeign
              · exact hread
        · exact NoForeign.raise _

/-- a world for the examples: the numeral `1`, no third-party generator, no file -/
def exampleWorld : World :=
  { interp := fun s => if s = "1" then ⟨some 1, some (1, 1)⟩ else ⟨none, none⟩
    ext := none, openFile := .error .valueError, readGraph := RM.raise .valueError, fuel := 1, dot := true }

/-- non-vacuity: `pyramid 1 save f.kthlist` builds the pyramid and hands THAT graph to `writeGraph`;
`pyramid 1 save f.txt` is refused (no format can be guessed); `pyramid 1 ''` is refused (C15-S1 regression) -/
example : (∃ G, makeGraphFromSpec exampleWorld "dag" ["pyramid", "1", "save", "f.kthlist"] [] = .ok (G, some G) []) ∧
    makeGraphFromSpec exampleWorld "dag" ["pyramid", "1", "save", "f.txt"] [] = .exc .valueError ∧
    makeGraphFromSpec exampleWorld "dag" ["pyramid", "1", ""] [] = .exc .valueError ∧
    makeGraphFromSpec exampleWorld "dag" ["pyramid", "x"] [] = .exc .valueError := by
  exact ⟨⟨_, rfl⟩, rfl, rfl, rfl⟩

end Cnfgen.C15
