/-
C15 (graph specifications, TOKEN level) — theorems about `Cnfgen.GSpec.parseGraphArgument`, the model of
`parse_graph_argument(graphtype, spec)` of cnfgen/clitools/graph_args.py.
-/
import CnfgenModel.Cli.GraphSpec
namespace Cnfgen.C15
open Cnfgen Cnfgen.GSpec

/-! ## the tables of the current source -/

/-- `constructions[ty]`, `formats[ty]`, `options[ty]` as total functions (`[]` where the key is missing) -/
def consL (ty : String) : List String := match constructionsOf ty with | .ok l => l | .error _ => []
def fmtL (dot : Bool) (ty : String) : List String := match formatsOf dot ty with | .ok l => l | .error _ => []
def optL (ty : String) : List String := match optionsOf ty with | .ok l => l | .error _ => []

/-- the keys every `parsed` dictionary has besides the options -/
def reservedKeys : List String := ["graphtype", "construction", "filename", "fileformat", "args"]

/-- what the proofs use of the generated tables: every graph type has its three rows; no option word
is a numeral, a graph type name, a reserved key or empty; `autodetect` is not a format name -/
def tablesOK : Bool :=
  typeNames.all (fun ty =>
    (constructionsOf ty).toBool && (formatsOf true ty).toBool && (formatsOf false ty).toBool && (optionsOf ty).toBool &&
    (optL ty).all (fun o => !isFloat o && !typeNames.contains o && !reservedKeys.contains o && o != "") &&
    !(fmtL true ty).contains "autodetect" && !(fmtL false ty).contains "autodetect")

/-- re-checked by the kernel against the tables regenerated from the source on every run -/
theorem tables_ok : tablesOK = true := by decide

example : typeNames = ["simple", "dag", "digraph", "bipartite"] := by decide

/-- a graph type of the tables -/
def Known (ty : String) : Prop := ty ∈ typeNames

theorem known_tables {ty : String} (h : Known ty) (dot : Bool) :
    constructionsOf ty = .ok (consL ty) ∧ formatsOf dot ty = .ok (fmtL dot ty) ∧ optionsOf ty = .ok (optL ty) ∧
    (∀ o ∈ optL ty, isFloat o = false ∧ o ∉ typeNames ∧ o ∉ reservedKeys ∧ o ≠ "") ∧ "autodetect" ∉ fmtL dot ty := by
  have h0 := tables_ok
  unfold tablesOK at h0
  rw [List.all_eq_true] at h0
  have h1 := h0 ty h
  simp only [Bool.and_eq_true, Bool.not_eq_true', List.all_eq_true, bne_iff_ne, ne_eq] at h1
  obtain ⟨⟨⟨⟨⟨⟨hc, hf1⟩, hf0⟩, ho⟩, hw⟩, ha1⟩, ha0⟩ := h1
  refine ⟨?_, ?_, ?_, ?_, ?_⟩
  · unfold consL; cases hx : constructionsOf ty <;> simp_all [Except.toBool]
  · cases dot
    · unfold fmtL; cases hx : formatsOf false ty <;> simp_all [Except.toBool]
    · unfold fmtL; cases hx : formatsOf true ty <;> simp_all [Except.toBool]
  · unfold optL; cases hx : optionsOf ty <;> simp_all [Except.toBool]
  · intro o hmem
    have := hw o hmem
    simp only [List.contains_eq_mem, decide_eq_false_iff_not] at this
    exact ⟨this.1.1.1, this.1.1.2, this.1.2, this.2⟩
  · cases dot
    · simpa using ha0
    · simpa using ha1

/-- a graph type that is not in the tables: the first dictionary look-up raises `KeyError` -/
theorem unknown_tables {ty : String} (h : ¬ Known ty) : constructionsOf ty = .error .keyError := by
  unfold constructionsOf getTab
  have : List.lookup ty Gen.graphConstructions.reverse = none := by
    rw [List.lookup_eq_none_iff]
    intro p hp
    have hp' : p ∈ Gen.graphConstructions := List.mem_reverse.mp hp
    rw [bne_iff_ne]
    intro heq
    apply h
    unfold Known typeNames
    exact heq ▸ List.mem_map_of_mem hp'
  rw [this]; rfl

/-! ## the option loop, one round at a time -/

theorem badOption_known {ty : String} (h : Known ty) (dot : Bool) (name : String) :
    badOption dot ty name = .valueError := by
  obtain ⟨hc, hf, _, _, _⟩ := known_tables h dot
  unfold badOption
  simp only [hf, hc]
  split <;> rfl

/-- one round of the loop for a graph type of the tables -/
theorem optionLoop_succ {ty : String} (h : Known ty) (dot : Bool) (f : Nat) (res : Parsed) (name : String)
    (rest : List String) :
    optionLoop dot ty (f + 1) res (name :: rest) =
      if name ∈ typeNames then .error .valueError
      else if name ∉ optL ty then .error .valueError
      else if name ∈ res.keys then .error .valueError
      else if name = "save" then
        match rest with
        | [] => .error .valueError
        | t :: rest' =>
          if t ∈ fmtL dot ty then
            match rest' with
            | [] => .error .valueError
            | fn :: rest'' => optionLoop dot ty f { res with save := some [t, fn] } rest''
          else optionLoop dot ty f { res with save := some ["autodetect", t] } rest'
      else optionLoop dot ty f { res with opts := res.opts ++ [(name, rest.takeWhile isFloat)] }
            (rest.dropWhile isFloat) := by
  obtain ⟨_, hf, ho, _, _⟩ := known_tables h dot
  rw [optionLoop]
  simp only [ho, badOption_known h, consumeNumbers]
  split
  · rfl
  · split
    · rfl
    · split
      · rfl
      · split
        · cases rest with
          | nil => rfl
          | cons t rest' =>
            simp only [consumeSaveInfo, hf]
            by_cases ht : t ∈ fmtL dot ty
            · simp only [ht, if_true]
              cases rest' with
              | nil => rfl
              | cons fn rest'' => rfl
            · simp only [ht, if_false]; rfl
        · rfl

/-- the fuel never runs out: any fuel ≥ the number of tokens gives the same answer -/
theorem optionLoop_fuel {ty : String} (h : Known ty) (dot : Bool) (f : Nat) :
    ∀ (res : Parsed) (toks : List String), toks.length ≤ f →
      optionLoop dot ty f res toks = optionLoop dot ty toks.length res toks := by
  induction f using Nat.strongRecOn with
  | ind f ih =>
    intro res toks hl
    cases toks with
    | nil => cases f <;> rfl
    | cons name rest =>
      cases f with
      | zero => simp at hl
      | succ f =>
        have hl' : rest.length ≤ f := by simpa using hl
        have hd : (rest.dropWhile isFloat).length ≤ rest.length := (List.dropWhile_suffix _).length_le
        rw [List.length_cons, optionLoop_succ h, optionLoop_succ h]
        split; · rfl
        split; · rfl
        split; · rfl
        split
        · cases rest with
          | nil => rfl
          | cons t rest' =>
            have h1 : rest'.length ≤ f := by simp at hl'; omega
            simp only []
            split
            · cases rest' with
              | nil => rfl
              | cons fn rest'' =>
                have h2 : rest''.length ≤ f := by simp at h1; omega
                simp only []
                rw [ih f (Nat.lt_succ_self f) _ _ h2,
                    ih (t :: fn :: rest'').length (by simp at hl' ⊢; omega) _ _ (by simp; omega)]
            · rw [ih f (Nat.lt_succ_self f) _ _ h1, ih (t :: rest').length (by simp at hl' ⊢; omega) _ _ (by simp)]
        · rw [ih f (Nat.lt_succ_self f) _ _ (by omega), ih rest.length (by omega) _ _ hd]

/-- the loop with exactly the fuel the parser gives it -/
def loop (dot : Bool) (ty : String) (res : Parsed) (toks : List String) : Except Err Parsed :=
  optionLoop dot ty toks.length res toks

theorem loop_nil (dot : Bool) (ty : String) (res : Parsed) : loop dot ty res [] = .ok res := rfl

/-- the loop as a recursion on the remaining tokens -/
theorem loop_cons {ty : String} (h : Known ty) (dot : Bool) (res : Parsed) (name : String) (rest : List String) :
    loop dot ty res (name :: rest) =
      if name ∈ typeNames then .error .valueError
      else if name ∉ optL ty then .error .valueError
      else if name ∈ res.keys then .error .valueError
      else if name = "save" then
        match rest with
        | [] => .error .valueError
        | t :: rest' =>
          if t ∈ fmtL dot ty then
            match rest' with
            | [] => .error .valueError
            | fn :: rest'' => loop dot ty { res with save := some [t, fn] } rest''
          else loop dot ty { res with save := some ["autodetect", t] } rest'
      else loop dot ty { res with opts := res.opts ++ [(name, rest.takeWhile isFloat)] } (rest.dropWhile isFloat) := by
  unfold loop
  rw [List.length_cons, optionLoop_succ h]
  split; · rfl
  split; · rfl
  split; · rfl
  split
  · cases rest with
    | nil => rfl
    | cons t rest' =>
      simp only []
      split
      · cases rest' with
        | nil => rfl
        | cons fn rest'' => exact optionLoop_fuel h dot _ _ _ (by simp; omega)
      · exact optionLoop_fuel h dot _ _ _ (by simp)
  · exact optionLoop_fuel h dot _ _ _ (List.dropWhile_suffix _).length_le

/-- the three kinds of source, for a graph type of the tables -/
theorem parse_cons {ty : String} (h : Known ty) (dot : Bool) (s0 : String) (rest : List String) :
    parseGraphArgument ty (s0 :: rest) dot =
      if s0 ∈ consL ty then
        loop dot ty { graphtype := ty, construction := some s0, filename := none, fileformat := none,
                      args := some (some (rest.takeWhile isFloat)) } (rest.dropWhile isFloat)
      else if s0 ∈ fmtL dot ty then
        match rest with
        | [] => .error .valueError
        | fn :: rest' =>
          loop dot ty { graphtype := ty, construction := none, filename := some fn, fileformat := some s0,
                        args := some none } rest'
      else if formatForAnotherType dot s0 ty = true then .error .valueError
      else if constructionForAnotherType s0 ty = true then .error .valueError
      else loop dot ty { graphtype := ty, construction := none, filename := some s0,
                         fileformat := some "autodetect", args := none } rest := by
  obtain ⟨hc, hf, _, _, _⟩ := known_tables h dot
  unfold parseGraphArgument loop
  simp only [hc, hf, consumeNumbers]
  split
  · rfl
  · split
    · cases rest <;> rfl
    · split
      · rfl
      · split <;> rfl

theorem parse_nil (ty : String) (dot : Bool) : parseGraphArgument ty [] dot = .error .valueError := rfl

/-! ## (a) the only exception is ValueError -/

theorem loop_only {ty : String} (h : Known ty) (dot : Bool) :
    ∀ (n : Nat) (toks : List String) (res : Parsed) (e : Err), toks.length ≤ n →
      loop dot ty res toks = .error e → e = .valueError := by
  intro n
  induction n with
  | zero =>
    intro toks res e hl he
    have : toks = [] := List.length_eq_zero_iff.mp (Nat.le_zero.mp hl)
    subst this; rw [loop_nil] at he; cases he
  | succ n ih =>
    intro toks res e hl he
    cases toks with
    | nil => rw [loop_nil] at he; cases he
    | cons name rest =>
      have hl' : rest.length ≤ n := by simpa using hl
      rw [loop_cons h] at he
      split at he
      · cases he; rfl
      split at he
      · cases he; rfl
      split at he
      · cases he; rfl
      split at he
      · cases rest with
        | nil => cases he; rfl
        | cons t rest' =>
          simp only [] at he
          split at he
          · cases rest' with
            | nil => cases he; rfl
            | cons fn rest'' => exact ih rest'' _ e (by simp at hl'; omega) he
          · exact ih rest' _ e (by simp at hl'; omega) he
      · have hs : rest.dropWhile isFloat <:+ rest := List.dropWhile_suffix _
        exact ih _ _ e (Nat.le_trans hs.length_le hl') he

/-- (a) CLEANLINESS, full strength.  For a graph type of the tables and EVERY token list,
`parse_graph_argument` returns a dictionary or raises `ValueError`; nothing else.
(False before the fix 4e949d4 of finding C15-S1: the empty word in option position raised `IndexError`;
see `parse_empty_word_regression`.) -/
theorem parse_only_valueError {ty : String} (h : Known ty) (dot : Bool) (toks : List String) (e : Err)
    (he : parseGraphArgument ty toks dot = .error e) : e = .valueError := by
  cases toks with
  | nil => cases he; rfl
  | cons s0 rest =>
    rw [parse_cons h] at he
    split at he
    · exact loop_only h dot _ _ _ e (Nat.le_refl _) he
    split at he
    · cases rest with
      | nil => cases he; rfl
      | cons fn rest' => exact loop_only h dot _ _ _ e (Nat.le_refl _) he
    split at he
    · cases he; rfl
    split at he
    · cases he; rfl
    · exact loop_only h dot _ _ _ e (Nat.le_refl _) he

/-- regression of C15-S1: the token lists on which the old code (`optionname[0]`) raised `IndexError`
are refused with `ValueError` -/
theorem parse_empty_word_regression :
    parseGraphArgument "simple" ["x", ""] = .error .valueError ∧
    parseGraphArgument "simple" ["gnp", ""] = .error .valueError ∧
    parseGraphArgument "bipartite" ["glrd", "1", "2", "3", "addedges", "", "save", "x"] = .error .valueError ∧
    parseGraphArgument "dag" ["x", ""] false = .error .valueError := by decide

/-- a graph type that is not a key of the tables: `ValueError` for the empty list, otherwise the
`KeyError` of `constructions[graphtype]` (the command line only uses `simple`, `bipartite`, `dag`) -/
theorem parse_unknown_type {ty : String} (h : ¬ Known ty) (dot : Bool) (toks : List String) :
    parseGraphArgument ty toks dot = .error (if toks = [] then .valueError else .keyError) := by
  cases toks with
  | nil => rfl
  | cons s0 rest => unfold parseGraphArgument; rw [unknown_tables h]; rfl

/-- all outcomes, any graph type: a dictionary, `ValueError`, or — unknown graph type only — `KeyError`;
in particular the fuel guard of the model (`RuntimeError`) is never the answer -/
theorem parse_total (ty : String) (dot : Bool) (toks : List String) :
    (∃ p, parseGraphArgument ty toks dot = .ok p) ∨ parseGraphArgument ty toks dot = .error .valueError ∨
    (¬ Known ty ∧ parseGraphArgument ty toks dot = .error .keyError) := by
  by_cases h : Known ty
  · cases hp : parseGraphArgument ty toks dot with
    | ok p => exact Or.inl ⟨p, rfl⟩
    | error e => rw [parse_only_valueError h dot toks e hp]; exact Or.inr (Or.inl rfl)
  · rw [parse_unknown_type h]
    by_cases ht : toks = []
    · simp [ht]
    · simp [ht, h]

/-! ## what follows an accepted prefix -/

/-- the first word of the list (if any) is not a numeral -/
def HeadNotNumeral (ext : List String) : Prop := ∀ t, ext.head? = some t → isFloat t = false

theorem takeWhile_append_head {ext : List String} (hx : HeadNotNumeral ext) :
    ∀ rest : List String, (rest ++ ext).takeWhile isFloat = rest.takeWhile isFloat
  | [] => by
    cases ext with
    | nil => rfl
    | cons t ext' => have := hx t rfl; simp [this]
  | a :: rest => by
    simp only [List.cons_append, List.takeWhile_cons]
    split
    · rw [takeWhile_append_head hx rest]
    · rfl

theorem dropWhile_append_head {ext : List String} (hx : HeadNotNumeral ext) :
    ∀ rest : List String, (rest ++ ext).dropWhile isFloat = rest.dropWhile isFloat ++ ext
  | [] => by
    cases ext with
    | nil => rfl
    | cons t ext' => have := hx t rfl; simp [this]
  | a :: rest => by
    simp only [List.cons_append, List.dropWhile_cons]
    split
    · rw [dropWhile_append_head hx rest]
    · rfl

/-- CONTINUATION: if the loop accepts `pre` and what follows does not start with a numeral, the loop on
`pre ++ ext` goes on from the dictionary reached after `pre` -/
theorem loop_append {ty : String} (h : Known ty) (dot : Bool) {ext : List String} (hx : HeadNotNumeral ext) :
    ∀ (n : Nat) (pre : List String) (res p : Parsed), pre.length ≤ n →
      loop dot ty res pre = .ok p → loop dot ty res (pre ++ ext) = loop dot ty p ext := by
  intro n
  induction n with
  | zero =>
    intro pre res p hl hp
    have : pre = [] := List.length_eq_zero_iff.mp (Nat.le_zero.mp hl)
    subst this; rw [loop_nil] at hp; cases hp; rfl
  | succ n ih =>
    intro pre res p hl hp
    cases pre with
    | nil => rw [loop_nil] at hp; cases hp; rfl
    | cons name rest =>
      have hl' : rest.length ≤ n := by simpa using hl
      rw [loop_cons h] at hp
      rw [List.cons_append, loop_cons h]
      split at hp; · cases hp
      rename_i h1; rw [if_neg h1]
      split at hp; · cases hp
      rename_i h2; rw [if_neg h2]
      split at hp; · cases hp
      rename_i h3; rw [if_neg h3]
      split at hp
      · rename_i h4; rw [if_pos h4]
        cases rest with
        | nil => cases hp
        | cons t rest' =>
          simp only [List.cons_append] at hp ⊢
          split at hp
          · rename_i h5; rw [if_pos h5]
            cases rest' with
            | nil => cases hp
            | cons fn rest'' => exact ih rest'' _ p (by simp at hl'; omega) hp
          · rename_i h5; rw [if_neg h5]
            exact ih rest' _ p (by simp at hl'; omega) hp
      · rename_i h4; rw [if_neg h4]
        rw [takeWhile_append_head hx, dropWhile_append_head hx]
        exact ih _ _ p (Nat.le_trans (List.dropWhile_suffix _).length_le hl') hp

theorem takeWhile_all (p : String → Bool) : ∀ (l : List String) (a : String), a ∈ l.takeWhile p → p a = true
  | [], a, h => by simp at h
  | b :: l, a, h => by
    rw [List.takeWhile_cons] at h
    split at h
    · rcases List.mem_cons.mp h with h1 | h1
      · rw [h1]; assumption
      · exact takeWhile_all p l a h1
    · simp at h

/-- numerals followed by something that does not start with a numeral: `consumenumbers` takes exactly them -/
theorem span_numerals {tail : List String} (hx : HeadNotNumeral tail) :
    ∀ (as : List String), (∀ a ∈ as, isFloat a = true) →
      (as ++ tail).takeWhile isFloat = as ∧ (as ++ tail).dropWhile isFloat = tail
  | [], _ => by
    have h1 := takeWhile_append_head hx []
    have h2 := dropWhile_append_head hx []
    simpa using ⟨h1, h2⟩
  | a :: as, h => by
    have ha : isFloat a = true := h a (by simp)
    have := span_numerals hx as (fun b hb => h b (List.mem_cons_of_mem _ hb))
    simp only [List.cons_append, List.takeWhile_cons, List.dropWhile_cons, ha, if_true]
    exact ⟨by rw [this.1], this.2⟩

theorem headNotNumeral_empty_word (post : List String) : HeadNotNumeral ("" :: post) := by
  intro t ht
  simp at ht
  subst ht; decide

theorem empty_word_not_a_type : "" ∉ typeNames := by decide

/-- the empty word in option position is refused -/
theorem loop_empty_word {ty : String} (h : Known ty) (dot : Bool) (res : Parsed) (post : List String) :
    loop dot ty res ("" :: post) = .error .valueError := by
  obtain ⟨_, _, _, hw, _⟩ := known_tables h dot
  rw [loop_cons h, if_neg empty_word_not_a_type, if_pos (fun hm => (hw "" hm).2.2.2 rfl)]

/-- CONTINUATION for the parser: an accepted list followed by words that do not start with a numeral is
parsed by continuing the option loop from the accepted request -/
theorem parse_append {ty : String} (h : Known ty) (dot : Bool) {ext : List String} (hx : HeadNotNumeral ext)
    (pre : List String) (p : Parsed) (hp : parseGraphArgument ty pre dot = .ok p) :
    parseGraphArgument ty (pre ++ ext) dot = loop dot ty p ext := by
  cases pre with
  | nil => cases hp
  | cons s0 rest =>
    rw [parse_cons h] at hp
    rw [List.cons_append, parse_cons h]
    split at hp
    · rename_i h1; rw [if_pos h1, takeWhile_append_head hx, dropWhile_append_head hx]
      exact loop_append h dot hx _ _ _ _ (Nat.le_refl _) hp
    rename_i h1; rw [if_neg h1]
    split at hp
    · rename_i h2; rw [if_pos h2]
      cases rest with
      | nil => cases hp
      | cons fn rest' => exact loop_append h dot hx _ _ _ _ (Nat.le_refl _) hp
    rename_i h2; rw [if_neg h2]
    split at hp; · cases hp
    rename_i h3; rw [if_neg h3]
    split at hp; · cases hp
    rename_i h4; rw [if_neg h4]
    exact loop_append h dot hx _ _ _ _ (Nat.le_refl _) hp

/-- regression of C15-S1, in general: an ACCEPTED list followed by the empty word and anything (exactly the
lists on which the old code raised `IndexError`) is refused with `ValueError` -/
theorem parse_empty_word_refused {ty : String} (h : Known ty) (dot : Bool) (pre post : List String) (p : Parsed)
    (hp : parseGraphArgument ty pre dot = .ok p) :
    parseGraphArgument ty (pre ++ "" :: post) dot = .error .valueError := by
  rw [parse_append h dot (headNotNumeral_empty_word post) pre p hp]
  exact loop_empty_word h dot p post

/-! ## (b) the shape of an accepted request -/

/-- exactly one source: a construction of the graph type with its numerals, or a file with a format of
the graph type, or a file whose format is to be guessed from its name (then the name is no keyword) -/
inductive SourceOK (dot : Bool) (ty : String) (p : Parsed) : Prop
  | construction (c : String) (as : List String) (hc : c ∈ consL ty)
      (h1 : p.construction = some c) (h2 : p.filename = none) (h3 : p.fileformat = none)
      (h4 : p.args = some (some as)) (h5 : ∀ a ∈ as, isFloat a = true)
  | fileWithFormat (f fn : String) (hc : f ∉ consL ty) (hf : f ∈ fmtL dot ty)
      (h1 : p.construction = none) (h2 : p.filename = some fn) (h3 : p.fileformat = some f) (h4 : p.args = some none)
  | fileByName (fn : String) (hc : fn ∉ consL ty) (hf : fn ∉ fmtL dot ty)
      (ha : formatForAnotherType dot fn ty = false) (hb : constructionForAnotherType fn ty = false)
      (h1 : p.construction = none) (h2 : p.filename = some fn) (h3 : p.fileformat = some "autodetect")
      (h4 : p.args = none)

/-- the options: each at most once, only words of `options[ty]`, numerals only; `save` has a format
(one of the graph type, or `autodetect` when the word after `save` is not a format) and a file name -/
structure OptsOK (dot : Bool) (ty : String) (p : Parsed) : Prop where
  nodup : (p.opts.map (·.1)).Nodup
  names : ∀ o ∈ p.opts, o.1 ∈ optL ty ∧ o.1 ≠ "save" ∧ ∀ a ∈ o.2, isFloat a = true
  save : ∀ l, p.save = some l → "save" ∈ optL ty ∧
    ∃ f fn, l = [f, fn] ∧ (f ∈ fmtL dot ty ∨ (f = "autodetect" ∧ fn ∉ fmtL dot ty))

structure WellFormed (dot : Bool) (ty : String) (p : Parsed) : Prop where
  known : Known ty
  gtype : p.graphtype = ty
  source : SourceOK dot ty p
  opts : OptsOK dot ty p

theorem not_mem_keys {p : Parsed} {name : String} (h : name ∉ p.keys) :
    name ∉ p.opts.map (·.1) ∧ (p.save.isSome = true → name ≠ "save") := by
  unfold Parsed.keys at h
  simp only [List.mem_append, not_or] at h
  refine ⟨h.1.2, fun hs hn => h.2 ?_⟩
  rw [if_pos hs, hn]; simp

/-- the loop only adds options: the source fields are those of the start, and the options stay in order -/
theorem loop_invariant {ty : String} (h : Known ty) (dot : Bool) :
    ∀ (n : Nat) (toks : List String) (res p : Parsed), toks.length ≤ n → OptsOK dot ty res →
      loop dot ty res toks = .ok p →
      OptsOK dot ty p ∧ p.graphtype = res.graphtype ∧ p.construction = res.construction ∧
      p.filename = res.filename ∧ p.fileformat = res.fileformat ∧ p.args = res.args := by
  intro n
  induction n with
  | zero =>
    intro toks res p hl hres hp
    have : toks = [] := List.length_eq_zero_iff.mp (Nat.le_zero.mp hl)
    subst this; rw [loop_nil] at hp; cases hp; exact ⟨hres, rfl, rfl, rfl, rfl, rfl⟩
  | succ n ih =>
    intro toks res p hl hres hp
    cases toks with
    | nil => rw [loop_nil] at hp; cases hp; exact ⟨hres, rfl, rfl, rfl, rfl, rfl⟩
    | cons name rest =>
      have hl' : rest.length ≤ n := by simpa using hl
      rw [loop_cons h] at hp
      split at hp; · cases hp
      split at hp; · cases hp
      rename_i h2
      have hname : name ∈ optL ty := Classical.not_not.mp h2
      split at hp; · cases hp
      rename_i h3
      split at hp
      · rename_i h4
        cases rest with
        | nil => cases hp
        | cons t rest' =>
          simp only [] at hp
          split at hp
          · rename_i h5
            cases rest' with
            | nil => cases hp
            | cons fn rest'' =>
              refine ih rest'' { res with save := some [t, fn] } p (by simp at hl'; omega) ?_ hp
              exact ⟨hres.nodup, hres.names, fun l hl0 => by
                  simp only [Option.some.injEq] at hl0
                  exact ⟨h4 ▸ hname, t, fn, hl0.symm, Or.inl h5⟩⟩
          · rename_i h5
            refine ih rest' { res with save := some ["autodetect", t] } p (by simp at hl'; omega) ?_ hp
            exact ⟨hres.nodup, hres.names, fun l hl0 => by
                simp only [Option.some.injEq] at hl0
                exact ⟨h4 ▸ hname, "autodetect", t, hl0.symm, Or.inr ⟨rfl, h5⟩⟩⟩
      · rename_i h4
        refine ih _ { res with opts := res.opts ++ [(name, rest.takeWhile isFloat)] } p
          (Nat.le_trans (List.dropWhile_suffix _).length_le hl') ?_ hp
        refine ⟨?_, ?_, ?_⟩
        · simp only [List.map_append, List.map_cons, List.map_nil]
          rw [List.nodup_append]
          refine ⟨hres.nodup, by simp, ?_⟩
          intro a ha b hb
          simp only [List.mem_singleton] at hb
          subst hb
          intro hab; subst hab
          exact (not_mem_keys h3).1 ha
        · intro o ho
          rcases List.mem_append.mp ho with ho | ho
          · exact hres.names o ho
          · simp only [List.mem_singleton] at ho
            subst ho
            exact ⟨hname, h4, takeWhile_all isFloat rest⟩
        · exact hres.save

theorem optsOK_start (dot : Bool) (ty : String) (p : Parsed) (h1 : p.opts = []) (h2 : p.save = none) :
    OptsOK dot ty p :=
  ⟨by rw [h1]; simp, by rw [h1]; simp, by rw [h2]; simp⟩

/-- (b) SHAPE.  Every request the parser accepts is well formed: the graph type is recorded, there is
exactly one source, every option occurs at most once and is an option of the graph type with numerals
only, `save` has a format and a file name -/
theorem parse_wellFormed {ty : String} (h : Known ty) (dot : Bool) (toks : List String) (p : Parsed)
    (hp : parseGraphArgument ty toks dot = .ok p) : WellFormed dot ty p := by
  cases toks with
  | nil => cases hp
  | cons s0 rest =>
    rw [parse_cons h] at hp
    split at hp
    · rename_i h1
      obtain ⟨ho, e1, e2, e3, e4, e5⟩ :=
        loop_invariant h dot _ _ _ p (Nat.le_refl _) (optsOK_start dot ty _ rfl rfl) hp
      exact ⟨h, e1, .construction s0 _ h1 e2 e3 e4 e5 (takeWhile_all isFloat rest), ho⟩
    rename_i h1
    split at hp
    · rename_i h2
      cases rest with
      | nil => cases hp
      | cons fn rest' =>
        obtain ⟨ho, e1, e2, e3, e4, e5⟩ :=
          loop_invariant h dot _ _ _ p (Nat.le_refl _) (optsOK_start dot ty _ rfl rfl) hp
        exact ⟨h, e1, .fileWithFormat s0 fn h1 h2 e2 e3 e4 e5, ho⟩
    rename_i h2
    split at hp; · cases hp
    rename_i h3
    split at hp; · cases hp
    rename_i h4
    obtain ⟨ho, e1, e2, e3, e4, e5⟩ :=
      loop_invariant h dot _ _ _ p (Nat.le_refl _) (optsOK_start dot ty _ rfl rfl) hp
    exact ⟨h, e1, .fileByName s0 h1 h2 (by simpa using h3) (by simpa using h4) e2 e3 e4 e5, ho⟩

/-- each modifier belongs to the graph types the documentation names (re-checked against the
`options` table of the current source) -/
theorem modifier_graph_types : ∀ ty ∈ typeNames,
    ("plantclique" ∈ optL ty → ty = "simple") ∧ ("splitedges" ∈ optL ty → ty = "simple") ∧
    ("plantbiclique" ∈ optL ty → ty = "bipartite") ∧ ("addedges" ∈ optL ty → ty = "simple" ∨ ty = "bipartite") ∧
    "save" ∈ optL ty := by decide

/-- (b, corollary) a directed graph request carries no modifier at all; `plantclique` / `splitedges` are
accepted for simple graphs only, `plantbiclique` for bipartite graphs only -/
theorem accepted_modifiers {ty : String} (h : Known ty) (dot : Bool) (toks : List String) (p : Parsed)
    (hp : parseGraphArgument ty toks dot = .ok p) (o : String × List String) (ho : o ∈ p.opts) :
    (o.1 = "plantclique" → ty = "simple") ∧ (o.1 = "splitedges" → ty = "simple") ∧
    (o.1 = "plantbiclique" → ty = "bipartite") ∧ (o.1 = "addedges" → ty = "simple" ∨ ty = "bipartite") ∧
    ty ≠ "dag" ∧ ty ≠ "digraph" ∧ (p.opts.map (·.1)).count o.1 = 1 := by
  have hw := parse_wellFormed h dot toks p hp
  have hm := (hw.opts.names o ho).1
  have hns := (hw.opts.names o ho).2.1
  have ht := modifier_graph_types ty h
  refine ⟨fun e => ht.1 (e ▸ hm), fun e => ht.2.1 (e ▸ hm), fun e => ht.2.2.1 (e ▸ hm),
    fun e => ht.2.2.2.1 (e ▸ hm), ?_, ?_, ?_⟩
  · intro e; subst e
    have : optL "dag" = ["save"] := by decide
    rw [this] at hm; simp at hm; exact hns hm
  · intro e; subst e
    have : optL "digraph" = ["save"] := by decide
    rw [this] at hm; simp at hm; exact hns hm
  · rw [hw.opts.nodup.count, if_pos (List.mem_map_of_mem ho)]

/-! ## (c) the canonical printer -/

theorem mem_keys (p : Parsed) (x : String) :
    x ∈ p.keys ↔ x ∈ ["graphtype", "construction", "filename", "fileformat"] ∨ (p.args.isSome = true ∧ x = "args") ∨
      x ∈ p.opts.map (·.1) ∨ (p.save.isSome = true ∧ x = "save") := by
  unfold Parsed.keys
  simp only [List.mem_append]
  constructor
  · rintro (((h | h) | h) | h)
    · exact Or.inl h
    · split at h
      · rename_i ha; exact Or.inr (Or.inl ⟨ha, by simpa using h⟩)
      · simp at h
    · exact Or.inr (Or.inr (Or.inl h))
    · split at h
      · rename_i ha; exact Or.inr (Or.inr (Or.inr ⟨ha, by simpa using h⟩))
      · simp at h
  · rintro (h | ⟨ha, h⟩ | h | ⟨ha, h⟩)
    · exact Or.inl (Or.inl (Or.inl h))
    · exact Or.inl (Or.inl (Or.inr (by rw [if_pos ha, h]; simp)))
    · exact Or.inl (Or.inr h)
    · exact Or.inr (by rw [if_pos ha, h]; simp)

theorem renderSave_known {ty : String} (h : Known ty) (dot : Bool) (f fn : String) :
    renderSave dot ty (some [f, fn]) = if f ∈ fmtL dot ty then ["save", f, fn] else ["save", fn] := by
  obtain ⟨_, hf, _, _, _⟩ := known_tables h dot
  unfold renderSave
  simp only [hf]

/-- what the printer puts after the source does not start with a numeral -/
theorem render_tail_head {ty : String} (h : Known ty) (dot : Bool) (opts : List (String × List String))
    (sv : Option (List String)) (hn : ∀ o ∈ opts, o.1 ∈ optL ty)
    (hs : ∀ l, sv = some l → "save" ∈ optL ty ∧ ∃ f fn, l = [f, fn]) :
    HeadNotNumeral (opts.flatMap (fun o => o.1 :: o.2) ++ renderSave dot ty sv) := by
  obtain ⟨_, _, _, hw, _⟩ := known_tables h dot
  intro t ht
  cases opts with
  | cons o opts' =>
    simp at ht; subst ht
    exact (hw _ (hn o (by simp))).1
  | nil =>
    cases sv with
    | none => simp [renderSave] at ht
    | some l =>
      obtain ⟨hsv, f, fn, hl⟩ := hs l rfl
      subst hl
      rw [renderSave_known h] at ht
      have : t = "save" := by split at ht <;> simp at ht <;> exact ht.symm
      subst this
      exact (hw _ hsv).1

/-- the loop on the printed options and `save`, started from a dictionary without them -/
theorem loop_render {ty : String} (h : Known ty) (dot : Bool) (sv : Option (List String))
    (hs : ∀ l, sv = some l → "save" ∈ optL ty ∧
      ∃ f fn, l = [f, fn] ∧ (f ∈ fmtL dot ty ∨ (f = "autodetect" ∧ fn ∉ fmtL dot ty))) :
    ∀ (opts : List (String × List String)) (res : Parsed), res.save = none → "save" ∉ res.keys →
      (∀ o ∈ opts, o.1 ∈ optL ty ∧ o.1 ≠ "save" ∧ ∀ a ∈ o.2, isFloat a = true) →
      (opts.map (·.1)).Nodup → (∀ o ∈ opts, o.1 ∉ res.keys) →
      loop dot ty res (opts.flatMap (fun o => o.1 :: o.2) ++ renderSave dot ty sv) =
        .ok { res with opts := res.opts ++ opts, save := sv } := by
  obtain ⟨_, _, _, hw, _⟩ := known_tables h dot
  intro opts
  induction opts with
  | nil =>
    intro res hrs hsk _ _ _
    simp only [List.flatMap_nil, List.nil_append, List.append_nil]
    cases sv with
    | none =>
      simp only [renderSave, loop_nil]
      cases res; simp_all
    | some l =>
      obtain ⟨hsv, f, fn, hl, hcase⟩ := hs l rfl
      subst hl
      rw [renderSave_known h]
      by_cases hf : f ∈ fmtL dot ty
      · rw [if_pos hf, loop_cons h, if_neg (hw _ hsv).2.1, if_neg (by simpa using hsv), if_neg hsk, if_pos rfl]
        simp only []
        rw [if_pos hf]
        simp only [loop_nil]
      · rw [if_neg hf, loop_cons h, if_neg (hw _ hsv).2.1, if_neg (by simpa using hsv), if_neg hsk, if_pos rfl]
        rcases hcase with hc | ⟨hc, hfn⟩
        · exact absurd hc hf
        · simp only []
          rw [if_neg hfn]
          simp only [loop_nil, hc]
  | cons o opts ih =>
    intro res hrs hsk hnames hnd hfresh
    have ho := hnames o (by simp)
    have hx : HeadNotNumeral (opts.flatMap (fun o => o.1 :: o.2) ++ renderSave dot ty sv) :=
      render_tail_head h dot opts sv (fun o' ho' => (hnames o' (List.mem_cons_of_mem _ ho')).1)
        (fun l hl => ⟨(hs l hl).1, by obtain ⟨f, fn, e, _⟩ := (hs l hl).2; exact ⟨f, fn, e⟩⟩)
    have hsp := span_numerals hx o.2 ho.2.2
    simp only [List.flatMap_cons, List.cons_append, List.append_assoc]
    rw [loop_cons h, if_neg (hw _ ho.1).2.1, if_neg (by simpa using ho.1), if_neg (hfresh o (by simp)),
      if_neg ho.2.1, hsp.1, hsp.2]
    simp only [List.map_cons, List.nodup_cons] at hnd
    have key : ∀ x, x ∈ ({ res with opts := res.opts ++ [(o.1, o.2)] } : Parsed).keys ↔ x ∈ res.keys ∨ x = o.1 := by
      intro x
      rw [mem_keys, mem_keys]
      simp only [List.map_append, List.map_cons, List.map_nil, List.mem_append, List.mem_singleton]
      constructor
      · rintro (h1 | h1 | (h1 | h1) | h1)
        · exact Or.inl (Or.inl h1)
        · exact Or.inl (Or.inr (Or.inl h1))
        · exact Or.inl (Or.inr (Or.inr (Or.inl h1)))
        · exact Or.inr h1
        · exact Or.inl (Or.inr (Or.inr (Or.inr h1)))
      · rintro ((h1 | h1 | h1 | h1) | h1)
        · exact Or.inl h1
        · exact Or.inr (Or.inl h1)
        · exact Or.inr (Or.inr (Or.inl (Or.inl h1)))
        · exact Or.inr (Or.inr (Or.inr h1))
        · exact Or.inr (Or.inr (Or.inl (Or.inr h1)))
    rw [ih { res with opts := res.opts ++ [(o.1, o.2)] } hrs
      (by rw [key]; rintro (h1 | h1); exact hsk h1; exact ho.2.1 h1.symm)
      (fun o' ho' => hnames o' (List.mem_cons_of_mem _ ho')) hnd.2
      (by
        intro o' ho'
        rw [key]
        rintro (h1 | h1)
        · exact hfresh o' (List.mem_cons_of_mem _ ho') h1
        · exact hnd.1 (h1 ▸ List.mem_map_of_mem ho'))]
    simp only [List.append_assoc, List.singleton_append]

theorem reserved_not_keys {ty : String} (h : Known ty) (dot : Bool) (res : Parsed) (hopts : res.opts = [])
    (hsave : res.save = none) (x : String) (hx : x ∈ optL ty) : x ∉ res.keys := by
  obtain ⟨_, _, _, hw, _⟩ := known_tables h dot
  have hr := (hw x hx).2.2.1
  rw [mem_keys, hopts, hsave]
  simp only [reservedKeys, List.mem_cons, List.not_mem_nil, or_false, not_or] at hr
  simp only [List.mem_cons, List.not_mem_nil, or_false, List.map_nil, Option.isSome_none, Bool.false_eq_true,
    false_and, not_or]
  exact ⟨⟨hr.1, hr.2.1, hr.2.2.1, hr.2.2.2.1⟩, fun ha => hr.2.2.2.2 ha.2⟩

/-- (c) ROUND TRIP.  The canonical printer (source, options in their order, `save`) is inverted by the parser
on every well-formed request -/
theorem parse_render {ty : String} (dot : Bool) (p : Parsed) (hwf : WellFormed dot ty p) :
    parseGraphArgument ty (renderSpec p dot) dot = .ok p := by
  obtain ⟨h, hg, hsrc, hopts⟩ := hwf
  obtain ⟨_, _, _, hw, hauto⟩ := known_tables h dot
  have hx : HeadNotNumeral (p.opts.flatMap (fun o => o.1 :: o.2) ++ renderSave dot ty p.save) :=
    render_tail_head h dot p.opts p.save (fun o ho => (hopts.names o ho).1)
      (fun l hl => ⟨(hopts.save l hl).1, by obtain ⟨f, fn, e, _⟩ := (hopts.save l hl).2; exact ⟨f, fn, e⟩⟩)
  have hsaveKey : ∀ res : Parsed, res.opts = [] → res.save = none → "save" ∉ res.keys := by
    intro res h1 h2
    exact reserved_not_keys h dot res h1 h2 "save" (modifier_graph_types ty h).2.2.2.2
  have run : ∀ res : Parsed, res.opts = [] → res.save = none →
      loop dot ty res (p.opts.flatMap (fun o => o.1 :: o.2) ++ renderSave dot ty p.save) =
        .ok { res with opts := res.opts ++ p.opts, save := p.save } := by
    intro res h1 h2
    exact loop_render h dot p.save hopts.save p.opts res h2 (hsaveKey res h1 h2) hopts.names hopts.nodup
      (fun o ho => reserved_not_keys h dot res h1 h2 o.1 (hopts.names o ho).1)
  unfold renderSpec
  rw [hg]
  cases hsrc with
  | construction c as hc h1 h2 h3 h4 h5 =>
    rw [h1, h4]
    simp only [List.cons_append, List.append_assoc]
    have hsp := span_numerals hx as h5
    rw [parse_cons h, if_pos hc, hsp.1, hsp.2, run _ rfl rfl]
    cases p; simp_all
  | fileWithFormat f fn hc hf h1 h2 h3 h4 =>
    have hne : f ≠ "autodetect" := fun e => hauto (e ▸ hf)
    rw [h1, h2, h3]
    simp only [hne, if_false, List.cons_append, List.nil_append]
    rw [parse_cons h, if_neg hc, if_pos hf]
    simp only []
    rw [run _ rfl rfl]
    cases p; simp_all
  | fileByName fn hc hf ha hb h1 h2 h3 h4 =>
    rw [h1, h2, h3]
    simp only [if_true, List.cons_append, List.nil_append]
    rw [parse_cons h, if_neg hc, if_neg hf, if_neg (by simp [ha]), if_neg (by simp [hb]), run _ rfl rfl]
    cases p; simp_all

/-- (c) IDEMPOTENCE.  Printing an accepted request and parsing the print gives the same request: the
canonical form of a token list is a fixed point -/
theorem render_parse_idempotent {ty : String} (h : Known ty) (dot : Bool) (toks : List String) (p : Parsed)
    (hp : parseGraphArgument ty toks dot = .ok p) :
    parseGraphArgument ty (renderSpec p dot) dot = .ok p :=
  parse_render dot p (parse_wellFormed h dot toks p hp)

/-- … and the printer is a normal form: printing the re-parsed request prints the same words -/
theorem render_canonical {ty : String} (h : Known ty) (dot : Bool) (toks : List String) (p q : Parsed)
    (hp : parseGraphArgument ty toks dot = .ok p) (hq : parseGraphArgument ty (renderSpec p dot) dot = .ok q) :
    renderSpec q dot = renderSpec p dot := by
  rw [render_parse_idempotent h dot toks p hp] at hq
  cases hq; rfl

/-- well-formed requests exist for every kind of source (non-vacuity of `parse_render`) -/
example : WellFormed true "simple"
    ⟨"simple", some "gnm", none, none, some (some ["10", "15"]), [("addedges", ["4"])], some ["kthlist", "out.txt"]⟩ :=
  parse_wellFormed (show "simple" ∈ typeNames by decide) true
    ["gnm", "10", "15", "addedges", "4", "save", "kthlist", "out.txt"] _ (by decide)

example : parseGraphArgument "simple" ["gnm", "10", "15", "save", "kthlist", "out.txt", "addedges", "4"] =
      .ok ⟨"simple", some "gnm", none, none, some (some ["10", "15"]), [("addedges", ["4"])], some ["kthlist", "out.txt"]⟩ ∧
    renderSpec ⟨"simple", some "gnm", none, none, some (some ["10", "15"]), [("addedges", ["4"])], some ["kthlist", "out.txt"]⟩ =
      ["gnm", "10", "15", "addedges", "4", "save", "kthlist", "out.txt"] ∧
    parseGraphArgument "bipartite" ["dot", "file"] = .ok ⟨"bipartite", none, some "file", some "dot", some none, [], none⟩ ∧
    parseGraphArgument "dag" ["file.gml", "save", "copy"] =
      .ok ⟨"dag", none, some "file.gml", some "autodetect", none, [], some ["autodetect", "copy"]⟩ := by decide
/-! ## the format `writeGraph` / `read_graph_from_input` settle on -/

/-- `_process_graph_io_arguments`: the format that is used is one of the graph type; an explicit format is
taken as it is, `autodetect` means the extension of the file name -/
theorem resolveFormat_supported {ty : String} (h : Known ty) (dot : Bool) (f fn g : String)
    (hr : resolveFormat dot ty f fn = some g) :
    g ∈ fmtL dot ty ∧ (f ≠ "autodetect" → g = f) ∧ (f = "autodetect" → g = extension fn) := by
  obtain ⟨_, hf, _, _, _⟩ := known_tables h dot
  unfold resolveFormat at hr
  simp only [hf] at hr
  by_cases he : f = "autodetect"
  · simp only [he, if_true] at hr
    by_cases hm : extension fn ∈ fmtL dot ty
    · rw [if_pos hm] at hr
      simp only [Option.some.injEq] at hr
      subst hr
      exact ⟨hm, fun hne => absurd he hne, fun _ => rfl⟩
    · rw [if_neg hm] at hr; cases hr
  · simp only [he, if_false] at hr
    by_cases hm : f ∈ fmtL dot ty
    · rw [if_pos hm] at hr
      simp only [Option.some.injEq] at hr
      subst hr
      exact ⟨hm, fun _ => rfl, fun h0 => absurd h0 he⟩
    · rw [if_neg hm] at hr; cases hr

/-- the `save` of an accepted request with an explicit format is never refused by `writeGraph`; with
`autodetect` it is refused exactly when the extension of the file name is not a format of the graph type -/
theorem accepted_save_resolves {ty : String} (h : Known ty) (dot : Bool) (toks : List String) (p : Parsed)
    (hp : parseGraphArgument ty toks dot = .ok p) (l : List String) (hs : p.save = some l) :
    ∃ f fn, l = [f, fn] ∧
      (f ≠ "autodetect" → resolveFormat dot ty f fn = some f) ∧
      (f = "autodetect" → (resolveFormat dot ty f fn = none ↔ extension fn ∉ fmtL dot ty)) := by
  obtain ⟨_, hf, _, _, hauto⟩ := known_tables h dot
  obtain ⟨_, f, fn, hl, hcase⟩ := (parse_wellFormed h dot toks p hp).opts.save l hs
  refine ⟨f, fn, hl, ?_, ?_⟩
  · intro hne
    rcases hcase with hc | ⟨hc, _⟩
    · unfold resolveFormat; simp [hf, hne, hc]
    · exact absurd hc hne
  · intro he
    unfold resolveFormat
    simp only [hf, he, if_true]
    constructor
    · intro hx; split at hx
      · cases hx
      · assumption
    · intro hx; rw [if_neg hx]

example : extension "out.kthlist" = "kthlist" ∧ extension "a.b/c" = "" ∧ extension ".gml" = "" ∧
    extension "dir/..gml" = "" ∧ extension "a..gml" = "gml" ∧
    resolveFormat true "bipartite" "autodetect" "g.dimacs" = none ∧
    resolveFormat true "simple" "autodetect" "g.dimacs" = some "dimacs" ∧
    resolveFormat false "simple" "autodetect" "g.dot" = none := by decide

end Cnfgen.C15
