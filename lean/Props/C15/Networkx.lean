/-
C15 — graph constructions on the command line deliver the structure they name:
the networkx-backed constructions `grid`, `torus`, `complete N B`, `gnp`, `gnm`.

Until round 6 their result was an INPUT of the model.  Now the model computes it
(`CnfgenModel/Graph/NxBuild.lean`: networkx.Graph as insertion-ordered adjacency, path / cycle /
cartesian product / relabelling copy / complete multipartite; `CnfgenModel/Rand/NxDraws.lean`: the
draw loops of `gnp_random_graph` and `gnm_random_graph`; `Nx.fromNetworkx`: cnfgen's
`Graph.from_networkx` as the exact sequence of `add_edge` calls through the model's own `SimpleG.addEdge`),
and the theorems below say which graph object comes out — for ALL dimension vectors / block sizes /
draw lists.  The tie to the installed networkx (3.6.1) is the correspondence of
`harness/props/C15_nx.py` (node order, `G.edges()`, every adjacency row, every `add_edge` call, every
recorded draw).

Reading guide.
* `prodL ds` = `d_1 · … · d_k`; `coords ds r` = the mixed-radix digits of `r`, FIRST dimension least
  significant: vertex `v` of `grid d_1 … d_k` is the node `(x_k, …, x_1)` of networkx with
  `[x_1, …, x_k] = coords ds (v - 1)`.
* `LineAdj p d a b`: `a`, `b` are neighbours on the path (`p = false`) or cycle (`p = true`) of length `d`.
* `GridAdj p ds x y`: the vectors differ in exactly one coordinate, by a `LineAdj` step there
  (`gridAdj_iff_index`).
* `SimpleG.Inv` is the representation invariant of C16 (adjacency rows sorted and duplicate-free, edge
  set symmetric, in range, loop-free, counter = number of edges).
* a sampler outcome `.ok r rest`: the run consumed a prefix of the draw list and left `rest`; `.stuck`:
  the list is not a legal record of a run.  "For every legal draw list" = for every list whose run is `.ok`.
-/
import Lemmas.C15NxGrid
import Lemmas.C15NxMulti
import Lemmas.C15NxRand
import Lemmas.C15NxRegular
namespace Cnfgen.C15
open Cnfgen Cnfgen.Nx

/-! ## T-C15.N1 grid and torus -/

/-- `grid d_1 … d_k` (`p = false`) / `torus d_1 … d_k` (`p = true`, no dimension equal to 1):
`d_1 ⋯ d_k` vertices; `u ~ v` iff the coordinate vectors of `u - 1`, `v - 1` differ by one step in exactly
one coordinate; the edge counter is `Σ_i e(d_i) · Π_{j≠i} d_j` (`e(d) = d - 1` on a path, `d` on a cycle of
length ≥ 3, `1` on the "cycle" of length 2); the object satisfies the invariant of C16. -/
theorem grid_torus_spec (p : Bool) (ds : List Nat) (hne : ds ≠ []) (h1 : ¬ (p = true ∧ 1 ∈ ds)) :
    ∃ S, gridSimple ds p = .ok S ∧ S.n = prodL ds ∧ SimpleG.Inv S ∧
      (∀ u v, (u, v) ∈ S.edgeset ↔ 1 ≤ u ∧ u ≤ prodL ds ∧ 1 ≤ v ∧ v ≤ prodL ds ∧
        GridAdj p ds (coords ds (u - 1)) (coords ds (v - 1))) ∧
      S.m = gridEdgeCount p ds := by
  obtain ⟨hn, hW, hE⟩ := gridProduct_spec p ds hne
  have hL := gridProduct_loopless p ds hne h1
  have hW' : (gridGraph ds p).WF := NxG.relabelCopy_WF hW
  have hL' : (gridGraph ds p).Loopless := (NxG.relabelCopy_oriented hL).loopless
  obtain ⟨S, s1, s2, s3, s4, s5⟩ := fromNetworkx_spec hW' hL'
  refine ⟨S, s1, by rw [s2]; exact hn, s3, ?_, ?_⟩
  · intro u v
    rw [s4]
    show _ ∧ _ ∧ (gridProduct p ds).relabelCopy.E _ _ ↔ _
    rw [NxG.relabelCopy_E hW, hE]
    constructor
    · rintro ⟨a1, a2, a3, a4, a5⟩; exact ⟨a1, by omega, a2, by omega, a5⟩
    · rintro ⟨a1, a2, a3, a4, a5⟩; exact ⟨a1, a3, by omega, by omega, a5⟩
  · rw [s5]
    show (gridProduct p ds).relabelCopy.edges.length = _
    rw [NxG.length_edges_relabelCopy hW hL, gridProduct_edges_length p ds hne h1]

example : ∃ S, gridSimple [2, 3] false = .ok S ∧ S.n = 6 ∧ S.m = 7 := by
  obtain ⟨S, h1, h2, _, _, h5⟩ := grid_torus_spec false [2, 3] (by simp) (by simp)
  exact ⟨S, h1, h2, h5⟩

/-- the same adjacency, coordinate by coordinate: `u ~ v` iff for exactly one index `i` the digits
`(u-1) / (d_1⋯d_i) % d_{i+1}` and `(v-1) / (d_1⋯d_i) % d_{i+1}` are neighbours on the path / cycle of
length `d_{i+1}`, all other digits being equal -/
theorem grid_torus_adjacent_iff (p : Bool) (ds : List Nat) (hne : ds ≠ []) (h1 : ¬ (p = true ∧ 1 ∈ ds))
    {S : SimpleG} (hS : gridSimple ds p = .ok S) (u v : Nat) :
    (u, v) ∈ S.edgeset ↔ 1 ≤ u ∧ u ≤ prodL ds ∧ 1 ≤ v ∧ v ≤ prodL ds ∧
      ∃ i, i < ds.length ∧
        LineAdj p (ds.getD i 0) ((u - 1) / prodL (ds.take i) % ds.getD i 0) ((v - 1) / prodL (ds.take i) % ds.getD i 0) ∧
        ∀ j, j < ds.length → j ≠ i →
          (u - 1) / prodL (ds.take j) % ds.getD j 0 = (v - 1) / prodL (ds.take j) % ds.getD j 0 := by
  obtain ⟨S', s1, _, _, s4, _⟩ := grid_torus_spec p ds hne h1
  rw [hS] at s1; cases s1
  rw [s4, gridAdj_iff_index p ds _ _ (length_coords _ _) (length_coords _ _)]
  constructor
  · rintro ⟨a1, a2, a3, a4, i, hi, h2, h3⟩
    refine ⟨a1, a2, a3, a4, i, hi, ?_, ?_⟩
    · rwa [coords_getD _ _ _ hi, coords_getD _ _ _ hi] at h2
    · intro j hj hne'
      have := h3 j hj hne'
      rwa [coords_getD _ _ _ hj, coords_getD _ _ _ hj] at this
  · rintro ⟨a1, a2, a3, a4, i, hi, h2, h3⟩
    refine ⟨a1, a2, a3, a4, i, hi, ?_, ?_⟩
    · rwa [coords_getD _ _ _ hi, coords_getD _ _ _ hi]
    · intro j hj hne'
      rw [coords_getD _ _ _ hj, coords_getD _ _ _ hj]
      exact h3 j hj hne'

example : ∃ S, gridSimple [2, 3] false = .ok S ∧ (1, 3) ∈ S.edgeset ∧ (1, 4) ∉ S.edgeset := by
  obtain ⟨S, h1, _⟩ := grid_torus_spec false [2, 3] (by simp) (by simp)
  refine ⟨S, h1, ?_, ?_⟩
  · rw [grid_torus_adjacent_iff false [2, 3] (by simp) (by simp) h1]; decide
  · rw [grid_torus_adjacent_iff false [2, 3] (by simp) (by simp) h1]; decide

/-- the torus with all dimensions ≥ 3 is `2k`-regular (what the documentation of `torus` promises):
every neighbour row has `2k` entries, `degree(v)` answers `2k` -/
theorem torus_regular (ds : List Nat) (hne : ds ≠ []) (h3 : ∀ d ∈ ds, 3 ≤ d) :
    ∃ S, gridSimple ds true = .ok S ∧ ∀ v : Nat, 1 ≤ v → v ≤ prodL ds →
      (S.nbrs v).length = 2 * ds.length ∧ S.degree (v : Int) = .ok (2 * ds.length) := by
  have h1 : ¬ (true = true ∧ 1 ∈ ds) := fun h => by have := h3 1 h.2; omega
  obtain ⟨hn, hW, hE⟩ := gridProduct_spec true ds hne
  have hL := gridProduct_loopless true ds hne h1
  have hW' : (gridGraph ds true).WF := NxG.relabelCopy_WF hW
  have hL' : (gridGraph ds true).Loopless := (NxG.relabelCopy_oriented hL).loopless
  obtain ⟨S, s1, s2, s3, s4, _⟩ := fromNetworkx_spec hW' hL'
  refine ⟨S, s1, ?_⟩
  intro v hv1 hv2
  have hdeg : (S.nbrs v).length = 2 * ds.length := by
    have := fromNetworkx_degree hW' s3 s4 (v - 1)
    rw [show v - 1 + 1 = v by omega] at this
    rw [this]
    show (gridProduct true ds).relabelCopy.deg (v - 1) = _
    rw [NxG.deg_congr (G := (gridProduct true ds).relabelCopy) (H := gridProduct true ds) rfl
      (fun a b => NxG.relabelCopy_E hW)]
    exact torus_deg ds hne h3 (v - 1) (by omega)
  refine ⟨hdeg, ?_⟩
  have hn' : S.n = prodL ds := by rw [s2]; exact hn
  simp only [SimpleG.degree, SimpleG.neighbors]
  rw [if_neg (by simp only [Decidable.not_not]; omega)]
  simp only [bind, Except.bind, pure, Except.pure, Int.toNat_natCast]
  congr 1

example : ∃ S, gridSimple [3, 4, 3] true = .ok S ∧ (S.nbrs 17).length = 6 := by
  obtain ⟨S, h1, h2⟩ := torus_regular [3, 4, 3] (by simp) (by simp)
  exact ⟨S, h1, (h2 17 (by omega) (by simp [prodL])).1⟩

/-- the number of edges of such a torus: `k · d_1 ⋯ d_k` -/
theorem torus_edge_count (ds : List Nat) (h3 : ∀ d ∈ ds, 3 ≤ d) : gridEdgeCount true ds = ds.length * prodL ds := by
  induction ds with
  | nil => simp [gridEdgeCount]
  | cons d ds ih =>
    have hd : 3 ≤ d := h3 d (by simp)
    simp only [gridEdgeCount, lineEdges, hd, and_self, ↓reduceIte, ih (fun x hx => h3 x (by simp [hx])), prodL,
      List.length_cons]
    ring

example : gridEdgeCount true [3, 4, 5] = 3 * 60 := torus_edge_count [3, 4, 5] (by intro d hd; simp at hd; omega)

/-- `torus` with a dimension equal to 1 (all dimensions positive): networkx's cycle on one node is a
self-loop, `Graph.add_edge` refuses it — `ValueError`, a clean refusal -/
theorem torus_dimension_one_refused (ds : List Nat) (h1 : 1 ∈ ds) (hpos : ∀ d ∈ ds, 0 < d) :
    gridSimple ds true = .error .valueError := by
  have hne : ds ≠ [] := by intro h; rw [h] at h1; cases h1
  obtain ⟨hn, hW, _⟩ := gridProduct_spec true ds hne
  have hloop := gridProduct_loop ds h1 hpos
  have h0 : (0, 0) ∈ (gridGraph ds true).tedges := by
    show (0, 0) ∈ (gridProduct true ds).edges
    rw [NxG.mem_edges]
    exact ⟨by rw [hn]; exact prodL_pos hpos, Nat.le_refl _, hloop⟩
  exact fromNetworkx_loop (NxG.relabelCopy_WF hW) h0

example : gridSimple [3, 1, 2] true = .error .valueError :=
  torus_dimension_one_refused [3, 1, 2] (by simp) (by intro d hd; simp at hd; omega)

/-! ## T-C15.N2 complete multipartite -/

/-- `complete_multipartite_graph(*sizes)` through `Graph.from_networkx`: `Σ sizes` vertices, `u ~ v` iff
they lie in different blocks (blocks laid out in order), `Σ_{i<j} s_i s_j` edges, invariant of C16 -/
theorem multipartite_spec (sizes : List Nat) :
    ∃ S, multipartiteSimple sizes = .ok S ∧ S.n = sizes.sum ∧ SimpleG.Inv S ∧
      (∀ u v, (u, v) ∈ S.edgeset ↔ 1 ≤ u ∧ u ≤ sizes.sum ∧ 1 ≤ v ∧ v ≤ sizes.sum ∧
        blockOf sizes (u - 1) ≠ blockOf sizes (v - 1)) ∧
      S.m = multiEdgeCount sizes := by
  obtain ⟨S, s1, s2, s3, s4, s5⟩ := fromNetworkx_spec (completeMultipartite_WF sizes)
    (completeMultipartite_oriented sizes).loopless
  refine ⟨S, s1, s2, s3, ?_, by rw [s5, completeMultipartite_edges_length]⟩
  intro u v
  rw [s4, completeMultipartite_E]
  omega

/-- `complete N B` on the command line: `B·N` vertices, `u ~ v` iff `(u-1)/N ≠ (v-1)/N`,
`N²·B(B-1)/2` edges -/
theorem complete_blocks_spec (n b : Nat) :
    ∃ S, completeBlocksSimple n b = .ok S ∧ S.n = b * n ∧ SimpleG.Inv S ∧
      (∀ u v, (u, v) ∈ S.edgeset ↔ 1 ≤ u ∧ u ≤ b * n ∧ 1 ≤ v ∧ v ≤ b * n ∧ (u - 1) / n ≠ (v - 1) / n) ∧
      2 * S.m = n * n * (b * (b - 1)) := by
  obtain ⟨S, s1, s2, s3, s4, s5⟩ := multipartite_spec (List.replicate b n)
  rw [sum_replicate] at s2 s4
  refine ⟨S, s1, s2, s3, ?_, by rw [s5, multiEdgeCount_replicate]⟩
  intro u v
  rw [s4]
  constructor
  · rintro ⟨a1, a2, a3, a4, h⟩
    rw [blockOf_replicate (by omega), blockOf_replicate (by omega)] at h
    exact ⟨a1, a2, a3, a4, h⟩
  · rintro ⟨a1, a2, a3, a4, h⟩
    refine ⟨a1, a2, a3, a4, ?_⟩
    rw [blockOf_replicate (by omega), blockOf_replicate (by omega)]
    exact h

example : ∃ S, completeBlocksSimple 2 3 = .ok S ∧ S.n = 6 ∧ 2 * S.m = 24 := by
  obtain ⟨S, h1, h2, _, _, h5⟩ := complete_blocks_spec 2 3
  exact ⟨S, h1, h2, h5⟩

/-! ## T-C15.N3 gnp -/

/-- `gnp N p` with `0 < p < 1` (`p = pn/pd` exactly), for EVERY draw list: a run that is not stuck has
consumed exactly one legal `random()` value per pair of `combinations(range(N), 2)`, in that order; the
result has `N` vertices, satisfies the invariant of C16 (so its edges are pairs of distinct vertices in
range), pair number `k` is an edge IFF draw number `k` is `< p`, and the edge counter is the number of
draws below `p` -/
theorem gnp_spec (n : Nat) (pn : Int) (pd : Nat) (h0 : 0 < pn) (h1 : pn < pd) (ds : List NxDraw)
    (r : Except Err SimpleG) (rest : List NxDraw) (h : gnpSimple n pn pd ds = .ok r rest) :
    ∃ (S : SimpleG) (nums : List Nat), r = .ok S ∧ S.n = n ∧ SimpleG.Inv S ∧
      ds = nums.map NxDraw.unit ++ rest ∧ (∀ x ∈ nums, x < unitDen) ∧
      ∃ hlen : nums.length = (allPairs n).length,
      (∀ k (hk : k < (allPairs n).length),
        (((allPairs n)[k]).1 + 1, ((allPairs n)[k]).2 + 1) ∈ S.edgeset ↔ unitLt (nums[k]'(by omega)) pn pd = true) ∧
      S.m = (nums.filter (fun x => unitLt x pn pd)).length := by
  unfold gnpSimple gnpGraph at h
  rw [if_neg (by omega), if_neg (by omega)] at h
  split at h
  · rename_i G rest' hG
    split at hG
    · rename_i l rest'' hloop
      cases hG; cases h
      obtain ⟨nums, n1, n2, n3, n4⟩ := gnpLoop_ok hloop
      have hsub := keep_sublist pn pd (allPairs n) nums
      have hW : NxG.WF ⟨n, l⟩ := by
        rintro ⟨u, v⟩ he
        have := mem_allPairs.1 (hsub.subset (n4 ▸ he))
        simp only; omega
      have hO : NxG.Oriented ⟨n, l⟩ := by
        rintro ⟨u, v⟩ he
        exact (mem_allPairs.1 (hsub.subset (n4 ▸ he))).1
      have hN : l.Nodup := n4 ▸ hsub.nodup (nodup_allPairs n)
      obtain ⟨S, s1, s2, s3, s4, s5⟩ := fromNetworkx_spec hW hO.loopless
      refine ⟨S, nums, s1, s2, s3, n2, n3, n1, ?_, ?_⟩
      · intro k hk
        rw [s4]
        simp only [Nat.add_sub_cancel, NxG.E]
        rw [← mem_keep (nodup_allPairs n) n1 k hk, ← n4]
        have hp := (mem_allPairs (n := n) (u := ((allPairs n)[k]).1) (v := ((allPairs n)[k]).2)).1 (List.getElem_mem hk)
        constructor
        · rintro ⟨_, _, h | h⟩
          · exact h
          · have := hO _ h; simp only at this; omega
        · intro h; exact ⟨by omega, by omega, Or.inl h⟩
      · rw [s5, NxG.length_edges hW hO hN, n4, length_keep pn pd _ _ n1]
    · cases hG
  · cases h

/-- conversely EVERY list of `N(N-1)/2` legal `random()` values is a run of `gnp N p` -/
theorem gnp_accepts (n : Nat) (pn : Int) (pd : Nat) (h0 : 0 < pn) (h1 : pn < pd) (nums : List Nat) (rest : List NxDraw)
    (hlen : nums.length = (allPairs n).length) (hleg : ∀ x ∈ nums, x < unitDen) :
    ∃ r, gnpSimple n pn pd (nums.map NxDraw.unit ++ rest) = .ok r rest := by
  unfold gnpSimple gnpGraph
  rw [if_neg (by omega), if_neg (by omega), gnpLoop_complete pn pd _ nums rest hlen hleg]
  exact ⟨_, rfl⟩

example : ∃ S, gnpSimple 3 1 2 [.unit 0, .unit (unitDen - 1), .unit 5] = .ok (.ok S) [] ∧ S.m = 2 := by
  refine ⟨_, rfl, ?_⟩; decide

example : ∃ r, gnpSimple 3 1 2 ([0, unitDen - 1, 5].map NxDraw.unit ++ [.choice 1]) = .ok r [.choice 1] :=
  gnp_accepts 3 1 2 (by decide) (by decide) [0, unitDen - 1, 5] [.choice 1] (by decide) (by decide)

/-- `p ≥ 1`: the complete graph, no draw -/
theorem gnp_one (n : Nat) (pn : Int) (pd : Nat) (h : (pd : Int) ≤ pn) (ds : List NxDraw) :
    ∃ S, gnpSimple n pn pd ds = .ok (.ok S) ds ∧ S.n = n ∧ SimpleG.Inv S ∧ 2 * S.m = n * (n - 1) ∧
      ∀ u v, (u, v) ∈ S.edgeset ↔ 1 ≤ u ∧ u ≤ n ∧ 1 ≤ v ∧ v ≤ n ∧ u ≠ v := by
  obtain ⟨S, s1, s2, s3, s4, s5⟩ := fromNetworkx_spec (completeGraph_WF n) (completeGraph_oriented n).loopless
  refine ⟨S, ?_, s2, s3, by rw [s5]; exact completeGraph_edges_length n, ?_⟩
  · unfold gnpSimple gnpGraph; rw [if_pos h]; simp only; rw [s1]
  · intro u v; rw [s4, completeGraph_E]; omega

example : ∃ S, gnpSimple 4 1 1 [] = .ok (.ok S) [] ∧ 2 * S.m = 12 := by
  obtain ⟨S, h1, _, _, h4, _⟩ := gnp_one 4 1 1 (by decide) []
  exact ⟨S, h1, h4⟩

/-- `p ≤ 0`: the empty graph, no draw -/
theorem gnp_zero (n : Nat) (pn : Int) (pd : Nat) (h0 : pn ≤ 0) (hd : 0 < pd) (ds : List NxDraw) :
    ∃ S, gnpSimple n pn pd ds = .ok (.ok S) ds ∧ S.n = n ∧ S.m = 0 ∧ S.edgeset = [] := by
  refine ⟨SimpleG.init n, ?_, rfl, rfl, rfl⟩
  unfold gnpSimple gnpGraph
  rw [if_neg (by omega), if_pos h0]
  simp only [fromNetworkx, fromNxCalls, NxG.relabelCopy]
  have : (emptyGraph n).edges = [] := emptyGraph_edges n
  have h2 : NxG.edges ⟨(emptyGraph n).n, []⟩ = [] := emptyGraph_edges n
  rw [this, h2]
  rfl

example : ∃ S, gnpSimple 4 0 1 [.unit 3] = .ok (.ok S) [.unit 3] ∧ S.m = 0 := by
  obtain ⟨S, h1, _, h3, _⟩ := gnp_zero 4 0 1 (by decide) (by decide) [.unit 3]
  exact ⟨S, h1, h3⟩

/-! ## T-C15.N4 gnm -/

/-- `gnm N m` with `m ≤ N(N-1)/2` (cnfgen's guard), for EVERY draw list: a run that is not stuck returns
a graph object on `N` vertices satisfying the invariant of C16 — edges are pairs of distinct vertices in
range, none twice — with EXACTLY `m` edges (counter and edge view), whichever of the three branches of
networkx is taken (`n == 1`, `m >= n(n-1)/2`: the complete graph without a draw, or the rejection loop
with any number of repeated / loop draws); the run consumed a prefix of the draws -/
theorem gnm_spec (n m : Nat) (hm : 2 * m ≤ n * (n - 1)) (ds : List NxDraw)
    (r : Except Err SimpleG) (rest : List NxDraw) (h : gnmSimple n m ds = .ok r rest) :
    ∃ S, r = .ok S ∧ S.n = n ∧ SimpleG.Inv S ∧ S.m = m ∧ S.edges.length = m ∧ ∃ used, ds = used ++ rest := by
  unfold gnmSimple at h
  split at h
  · rename_i G rest' hG
    cases h
    obtain ⟨g1, g2, g3, g4, g5⟩ := gnmGraph_ok hm hG
    obtain ⟨S, s1, s2, s3, _, s5⟩ := fromNetworkx_spec g2 g3
    exact ⟨S, s1, by rw [s2, g1], s3, by rw [s5, g4], by rw [← s3.m_eq_length_edges, s5, g4], g5⟩
  · cases h

example : ∃ S, gnmSimple 4 2 [.choice 0, .choice 0, .choice 1, .choice 2, .choice 2, .choice 1, .choice 3, .choice 0] =
    .ok (.ok S) [] ∧ S.m = 2 := by
  refine ⟨_, rfl, ?_⟩; decide

/-! ## T-C15.N5 gnd -/

/-- `gnd N d` with `N·d` even and `d < N` (what cnfgen's guards leave), for EVERY list of shuffles: a run
of `networkx.random_regular_graph` that ends — after any number of pairing rounds and any number of
restarts, whatever `_suitable` answered — gives, through `Graph.normalize`, a graph object on `N` vertices
satisfying the invariant of C16 in which EVERY vertex has exactly `d` neighbours (`degree(v) = d`), with
`N·d/2` edges; no `NetworkXError`; the run consumed a prefix of the draws.
(The order in which networkx hands the edges over — the iteration order of a Python set — is not modelled;
the object `S` does not depend on it except for the internal order of the list `S.edgeset`, which stands for a set.) -/
theorem gnd_spec (n d : Nat) (heven : (n * d) % 2 = 0) (hd : d < n) (ds : List NxDraw)
    (r : Option (Except Err SimpleG)) (rest : List NxDraw) (h : gndSimple n d ds = .ok r rest) :
    ∃ S, r = some (.ok S) ∧ S.n = n ∧ SimpleG.Inv S ∧
      (∀ v : Nat, 1 ≤ v → v ≤ n → (S.nbrs v).length = d ∧ S.degree (v : Int) = .ok d) ∧
      2 * S.m = n * d ∧ ∃ used, ds = used ++ rest := by
  unfold gndSimple at h
  split at h
  · rename_i G rest' hG
    cases h
    obtain ⟨G', g0, g1, g2, g3, g4, g5, g6⟩ := regularGraph_ok heven hd hG
    cases g0
    obtain ⟨S, s1, s2, s3, s4, s5⟩ := fromNetworkx_spec g2 g3
    refine ⟨S, by rw [s1], by rw [s2, g1], s3, ?_, by rw [s5]; exact g5, g6⟩
    intro v hv1 hv2
    have hdeg : (S.nbrs v).length = d := by
      have := fromNetworkx_degree g2 s3 s4 (v - 1)
      rw [show v - 1 + 1 = v by omega] at this
      rw [this]; exact g4 (v - 1) (by omega)
    refine ⟨hdeg, ?_⟩
    simp only [SimpleG.degree, SimpleG.neighbors]
    rw [if_neg (by simp only [Decidable.not_not]; rw [s2, g1]; omega)]
    simp only [bind, Except.bind, pure, Except.pure, Int.toNat_natCast]
    congr 1
  · rename_i rest' hG
    obtain ⟨G', g0, _⟩ := regularGraph_ok heven hd hG
    cases g0
  · cases h

example : ∃ S, gndSimple 4 2 [.shuffle [0, 1, 2, 3, 0, 1, 2, 3] [0, 1, 1, 2, 2, 3, 3, 0]] = .ok (some (.ok S)) [] ∧
    (S.nbrs 3).length = 2 := by
  refine ⟨_, rfl, ?_⟩; decide

/-- a run with two rounds: the first shuffle pairs `0,1` twice and `2` with itself, the left-over stubs
`0,1,2,2` are shuffled again and resolved (runs with restarts are exercised by the correspondence suite
`nx_gnd`, class `gnd:restarted`) -/
example : ∃ S, gndSimple 3 2 [.shuffle [0, 1, 2, 0, 1, 2] [0, 1, 0, 1, 2, 2], .shuffle [0, 1, 2, 2] [0, 2, 1, 2]] =
    .ok (some (.ok S)) [] ∧ S.m = 3 := by
  refine ⟨_, rfl, ?_⟩; decide

end Cnfgen.C15
