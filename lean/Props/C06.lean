/-
C06 — DIMACS output round-trips and the DIMACS reader never misreads.
Property theorems only; helper lemmas are in `Lemmas/IOLex.lean`, `Lemmas/IOComments.lean`,
`Lemmas/IODimacs.lean`.  Everything is about token rows (`List (List Tok)`); the step
text → token rows is the lexer, compared with Python by the correspondence harness.
-/
import Lemmas.IODimacs
import Lemmas.IOComments
namespace Cnfgen.C06
open Cnfgen Cnfgen.IO

/-- What a token matrix *says*, read off the definition of the format and not off the reader:
comments / blank rows, then one problem row `p … n m`, no second problem row, and the
integers on the remaining non-comment rows are, in order, the clauses of `F` each closed by `0`;
every literal is within `1..n`; there are exactly `m` clauses. -/
def Denotes (rows : List Row) (F : CNF) : Prop :=
  ∃ (pre post : List Row) (a b : Tok) (m : Nat),
    rows = pre ++ [a, b, .int (F.nvars : Int), .int (m : Int)] :: post ∧
    (∀ r ∈ pre, r.cls = .blank ∨ r.cls = .comment) ∧
    Row.cls [a, b, .int (F.nvars : Int), .int (m : Int)] = .spec ∧
    (∀ r ∈ post, r.cls ≠ .spec) ∧
    litToks post = (F.clauses.flatMap (fun c => c ++ [0])).map Tok.int ∧
    F.WF ∧ F.clauses.length = m

/-- T-C06.3 reader soundness: whatever the reader returns is exactly what the rows denote —
one `p` row before any literal, literals between zeros = the clauses in order, every literal
within the declared range, clause count = declared `m`. -/
theorem reader_sound (rows : List Row) (F : CNF) (h : parseDimacs rows = .ok F) : Denotes rows F := by
  unfold parseDimacs at h
  cases hg : runGenerator rows with
  | error e => simp [hg] at h
  | ok st =>
    simp only [hg] at h
    unfold runGenerator at hg
    cases hf : rows.foldlM rowStep PState.init with
    | error e => simp [hf] at hg
    | ok st0 =>
      simp only [hf] at hg
      obtain ⟨rfl, hbuf, n, hspec⟩ := finish_ok hg
      simp only [hspec] at h
      rcases rows_before_spec rows st hf with ⟨e, _⟩ | ⟨pre, r, nm, post, hrows, hpre, hr, hps, hpost⟩
      · rw [e] at hspec; simp [PState.init] at hspec
      · obtain ⟨hns, hlit, hsp⟩ := rows_after_spec nm.1 nm.2 post [] [] st hpost
        rw [hspec] at hsp
        obtain ⟨n1, m1⟩ := nm
        simp only [Option.some.injEq, Prod.mk.injEq] at hsp
        obtain ⟨rfl, rfl⟩ := hsp
        rw [hbuf] at hlit
        obtain ⟨henc, hgood⟩ := (litFold_iff n (litToks post) st.out).1 hlit
        have hF : F = ⟨n, st.out⟩ := by
          have : CNF.empty.updateVarNum n = ⟨n, []⟩ := by simp [CNF.empty, CNF.updateVarNum]
          rw [this, addClauses_good n st.out [] hgood] at h
          simpa using h.symm
        subst hF
        obtain ⟨a, b, hrow⟩ := parseSpec_ok hps
        subst hrow
        exact ⟨pre, post, a, b, st.out.length, hrows, hpre, hr, hns, by rw [henc, enc_eq_map], hgood, rfl⟩

/-- the converse: every token matrix that denotes a formula is read, and read as that formula
(the reader rejects nothing that is well-formed) -/
theorem reader_complete (rows : List Row) (F : CNF) (h : Denotes rows F) : parseDimacs rows = .ok F := by
  obtain ⟨pre, post, a, b, m, rfl, hpre, hcls, hns, hlit, hwf, hm⟩ := h
  obtain ⟨n, cs⟩ := F
  simp only at hlit hm hcls
  have hgood : ∀ c ∈ cs, GoodLits n c := hwf
  have h1 : (pre ++ [a, b, Tok.int (n : Int), Tok.int (m : Int)] :: post).foldlM rowStep PState.init =
      .ok ⟨some (n, m), [], cs⟩ := by
    rw [List.foldlM_append, rows_skip PState.init pre hpre]
    simp only [except_bind_ok, List.foldlM_cons]
    have : rowStep PState.init [a, b, Tok.int (n : Int), Tok.int (m : Int)] = .ok ⟨some (n, m), [], []⟩ := by
      simp [rowStep, hcls, PState.init, parseSpec_nat]
    rw [this]
    simp only [except_bind_ok]
    apply rows_after_spec_complete n m post [] [] [] cs hns
    rw [hlit, ← enc_eq_map]
    exact (litFold_iff n (enc cs) cs).2 ⟨rfl, hgood⟩
  have h2 : runGenerator (pre ++ [a, b, Tok.int (n : Int), Tok.int (m : Int)] :: post) = .ok ⟨some (n, m), [], cs⟩ := by
    unfold runGenerator; rw [h1]; simp [finish, hm]
  unfold parseDimacs
  rw [h2]
  have : CNF.empty.updateVarNum n = ⟨n, []⟩ := by simp [CNF.empty, CNF.updateVarNum]
  simp only [this]
  simpa using addClauses_good n cs [] hgood

/-- the reader accepts exactly the token matrices that denote a formula, with that formula -/
theorem reader_iff (rows : List Row) (F : CNF) : parseDimacs rows = .ok F ↔ Denotes rows F :=
  ⟨reader_sound rows F, reader_complete rows F⟩

/-- corollary of T-C06.3: no literal outside the declared range is ever accepted … -/
theorem reader_range (rows : List Row) (F : CNF) (h : parseDimacs rows = .ok F) :
    ∀ c ∈ F.clauses, ∀ l ∈ c, l ≠ 0 ∧ l.natAbs ≤ F.nvars := by
  obtain ⟨_, _, _, _, _, _, _, _, _, _, hwf, _⟩ := reader_sound rows F h
  exact hwf

/-- … and no wrong clause count: the `p` row of an accepted matrix states `nvars` and `#clauses` -/
theorem reader_count (rows : List Row) (F : CNF) (h : parseDimacs rows = .ok F) :
    ∃ a b, [a, b, Tok.int (F.nvars : Int), Tok.int (F.clauses.length : Int)] ∈ rows := by
  obtain ⟨pre, post, a, b, m, hrows, _, _, _, _, _, hm⟩ := reader_sound rows F h
  exact ⟨a, b, by rw [hrows, hm]; simp⟩

/-- T-C06.4 reader totality: on every token matrix the reader returns a formula or raises
`ValueError`; no other exception kind is reachable (in particular not the `StopIteration` of
`next()` on a generator that yields nothing, nor anything from `add_clause`). -/
theorem reader_total (rows : List Row) :
    (∃ F, parseDimacs rows = .ok F) ∨ parseDimacs rows = .error .valueError := by
  cases h : parseDimacs rows with
  | ok F => exact Or.inl ⟨F, rfl⟩
  | error e =>
    right
    congr
    unfold parseDimacs at h
    cases hg : runGenerator rows with
    | error e' =>
      simp [hg] at h; subst h
      unfold runGenerator at hg
      cases hf : rows.foldlM rowStep PState.init with
      | error e'' => simp [hf] at hg; subst hg; exact foldlM_err _ rowStep_err _ _ _ hf
      | ok st0 => simp [hf] at hg; exact finish_err _ _ hg
    | ok st =>
      simp only [hg] at h
      unfold runGenerator at hg
      cases hf : rows.foldlM rowStep PState.init with
      | error e'' => simp [hf] at hg
      | ok st0 =>
        simp only [hf] at hg
        obtain ⟨rfl, _, n, hspec⟩ := finish_ok hg
        simp only [hspec] at h
        exact foldlM_err _ (fun F c e => addClause_err F c e) _ _ _ h

/-- T-C06.2 shape of the output: comment rows (every one starts with the word `c`), then the
problem row stating the true number of variables and of clauses, then one row per clause:
its literals followed by `0`.  Holds for every header dictionary and every label list. -/
theorem render_shape (u : Bool) (F : CNF) (hdr : Option Header) (names : Option (List Str)) :
    ∃ comments : List Row,
      renderDimacs u F hdr names =
        comments ++ [Tok.word ['p'], Tok.word "cnf".toList, Tok.int (F.nvars : Int), Tok.int (F.clauses.length : Int)] ::
          F.clauses.map (fun c => c.map Tok.int ++ [Tok.int 0]) ∧
      ∀ r ∈ comments, r.cls = .comment ∧ ∃ rest, r = Tok.word ['c'] :: rest := by
  refine ⟨dimacsCommentRows u hdr names, rfl, ?_⟩
  intro r hr
  obtain ⟨rest, rfl⟩ := dimacsCommentRows_c u hdr names r hr
  exact ⟨by simp [Row.cls], rest, rfl⟩

/-- T-C06.1 round trip: reading back what the writer wrote gives the same number of variables
and the same clauses in the same order — for every well-formed formula (empty formula, empty
clauses, unused variables, repeated literals included), with or without header and variable
names, whatever characters (line breaks included) the header values and labels contain. -/
theorem roundtrip (u : Bool) (F : CNF) (hdr : Option Header) (names : Option (List Str)) (hF : F.WF) :
    parseDimacs (renderDimacs u F hdr names) = .ok F := by
  apply reader_complete
  refine ⟨dimacsCommentRows u hdr names, F.clauses.map clauseRow, Tok.word ['p'], Tok.word "cnf".toList,
    F.clauses.length, rfl, ?_, by simp [Row.cls], ?_, ?_, hF, rfl⟩
  · intro r hr
    obtain ⟨rest, rfl⟩ := dimacsCommentRows_c u hdr names r hr
    right; simp [Row.cls]
  · intro r hr
    simp only [List.mem_map] at hr
    obtain ⟨c, _, rfl⟩ := hr
    cases c <;> simp [clauseRow, Row.cls]
  · have : ∀ cs : List Clause, litToks (cs.map clauseRow) = enc cs := by
      intro cs
      induction cs with
      | nil => rfl
      | cons c cs ih =>
        have hc : isLits (clauseRow c) = true := by cases c <;> simp [isLits, clauseRow, Row.cls]
        simp only [litToks] at ih
        simp [litToks, hc, ih, enc]
    rw [this, enc_eq_map]

/-- the round trip, stated on the two observable components -/
theorem roundtrip_components (u : Bool) (F : CNF) (hdr : Option Header) (names : Option (List Str)) (hF : F.WF) :
    ∃ G, parseDimacs (renderDimacs u F hdr names) = .ok G ∧ G.nvars = F.nvars ∧ G.clauses = F.clauses :=
  ⟨F, roundtrip u F hdr names hF, rfl, rfl⟩

/-! ### non-vacuity -/

/-- a well-formed formula with an empty clause, a repeated literal and unused variables -/
example : (CNF.mk 5 [[1, -2], [], [3, 3, -1]]).WF := by
  unfold CNF.WF; decide

/-- the round trip on a concrete formula with a multi-line header value and a multi-line label
(the D14 witness): evaluated by the kernel -/
example : parseDimacs (renderDimacs true ⟨2, [[1, -2], []]⟩
    (some [("description".toList, "graph\nname\n".toList)]) (some ["x\ny".toList, "b".toList])) =
    .ok ⟨2, [[1, -2], []]⟩ := by decide

/-- a token matrix that denotes a formula although no writer of cnfgen lays it out this way:
clause split over rows, comment in between, two clauses on one row -/
example : parseDimacs [[.word ['c']], [.word ['p'], .word ['x'], .int 3, .int 3], [.int 1], [.word ['c', '1']],
    [.int (-3), .int 0, .int 0, .int 2], [], [.int 0]] = .ok ⟨3, [[1, -3], [], [2]]⟩ := by decide

/-- rejected matrices: literal out of range, wrong count, second problem row, literal before it -/
example : parseDimacs [[.word ['p'], .word ['x'], .int 2, .int 1], [.int 3, .int 0]] = .error .valueError := by decide
example : parseDimacs [[.word ['p'], .word ['x'], .int 2, .int 2], [.int 1, .int 0]] = .error .valueError := by decide
example : parseDimacs [[.word ['p'], .word ['x'], .int 2, .int 0], [.word ['p'], .word ['x'], .int 2, .int 0]] =
    .error .valueError := by decide
example : parseDimacs [[.int 1, .int 0], [.word ['p'], .word ['x'], .int 2, .int 1]] = .error .valueError := by decide

end Cnfgen.C06
