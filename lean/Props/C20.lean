/-
C20 — solve() and is_satisfiable() report what the SAT solver found.

Property theorems only; helper lemmas are in `Lemmas/Solver*.lean`.  The model
(`CnfgenModel/Solver/*.lean`) is the code of cnfgen/utils/solver.py as of /repo 1de50c9
(after the fixes of D24, D28, D28c, D28d, D35):

  T-C20.1  what the `s`/`v` loop and the minisat-file reader return, for every list of lines /
           every file text; well-formed answers split and interleaved in any way
  T-C20.2  the returned witness is the solver's literals, ordered by variable; it satisfies
           whatever the solver's literals satisfy
  T-C20.3  which interface function and command line `sat_solve` chooses, and which error
  T-C20.4  is_satisfiable = first component of solve

PARTIAL with respect to the property as a whole: starting the process, pipes, exit status and
the removal of temporary files are not modelled (observed by harness/props/C20.py).  Within the
model nothing but the documented `ValueError` (unknown `sameas`) and `RuntimeError` can come out of
`solve` (`solve_error_kinds`).
-/
import Lemmas.SolverAnswer
import Lemmas.SolverSelect
namespace Cnfgen.C20
open Cnfgen Cnfgen.Solver

/-! ## T-C20.1 — parsing of the DIMACS-convention answer (`_satsolve_stdin_stdout`,
`_satsolve_filein_stdout`) -/

/-- T-C20.1a  For EVERY list of output lines on which the loop raises nothing: the verdict is the
one left by the status lines (`lastVerdict`, see `last_status_line_decides`), no verdict is
`RuntimeError`, and the witness is the concatenation of the integers of the `v` lines (minus
`v`/`0`) sorted by variable — present exactly when the verdict is "satisfiable". -/
theorem parseStdout_spec (lines : List Str) (h : ∀ l ∈ lines, lineErr l = none) :
    parseStdout lines =
      match lastVerdict none lines with
      | none => .error .runtimeError
      | some r => .ok (r, witnessIf r (sortByVar (lines.flatMap lineLits))) := by
  rw [parseStdout_of_ok lines h]; rfl

/-- T-C20.1b  Of several status lines the LAST one decides (a line is a status line iff its first
character is `s`; its verdict is its second word). -/
theorem last_status_line_decides (pre post : List Str) (cs : Str)
    (hok : ∀ l ∈ pre ++ ('s' :: cs) :: post, lineErr l = none)
    (hpost : ∀ l ∈ post, l.head? ≠ some 's') :
    parseStdout (pre ++ ('s' :: cs) :: post) =
      match verdictOfWords (pySplit ('s' :: cs)) with
      | none => .error .runtimeError
      | some r => .ok (r, witnessIf r (sortByVar ((pre ++ ('s' :: cs) :: post).flatMap lineLits))) := by
  rw [parseStdout_spec _ hok]
  have hp : ∀ l ∈ post, lineVerdict l = none := by
    intro l hl
    have := hpost l hl
    cases l with
    | nil => rfl
    | cons c r =>
      have hc : c ≠ 's' := by intro h; subst h; simp at this
      simp [lineVerdict, hc]
  rw [lastVerdict_last none pre post ('s' :: cs) _ (lineVerdict_status cs) hp]

/-- non-vacuity: `s UNSATISFIABLE`, then `s SATISFIABLE`; the second one wins -/
example : parseStdout ["s UNSATISFIABLE".toList, "c x".toList, "s SATISFIABLE".toList, "v -2 1 0".toList]
    = .ok (true, some [1, -2]) := by decide

/-- T-C20.1c  The first line on which the loop raises determines the exception … -/
theorem parseStdout_raises (pre post : List Str) (bad : Str) (e : Err)
    (hpre : ∀ l ∈ pre, lineErr l = none) (hbad : lineErr bad = some e) :
    parseStdout (pre ++ bad :: post) = .error e := by
  simp [parseStdout, runLines_err _ pre post bad e hpre hbad]

/-- … and it is always the documented `RuntimeError` (a non-integer word on a line starting with
`v`: the `ValueError` of `int()` is caught and re-raised; D28c fixed).  A status line without second
word raises nothing (D28 fixed). -/
theorem lineErr_kind (l : Str) (e : Err) (h : lineErr l = some e) : e = .runtimeError := by
  cases l with
  | nil => simp [lineErr] at h
  | cons c cs =>
    by_cases hv : c = 'v'
    · subst hv
      simp only [lineErr, if_true] at h
      split at h
      · rename_i e' heq
        injection h with h; subst h
        exact catchValueError_mapE _ _ heq
      · cases h
    · simp [lineErr, hv] at h

/-- `v 1 x 0` is "no usable answer": RuntimeError (regression for D28c; was ValueError) -/
theorem garbled_value_line_runtimeError :
    parseStdout ["s SATISFIABLE".toList, "v 1 x 0".toList] = .error .runtimeError := by decide

/-- a bare `s` line is "no verdict", i.e. the documented RuntimeError (regression for D28) -/
theorem bare_status_line_runtimeError : parseStdout ["s".toList] = .error .runtimeError := by decide

/-- T-C20.1d  Whatever the solver prints, the parser raises NOTHING BUT the documented
`RuntimeError` (no verdict, or a garbled value line). -/
theorem parseStdout_only_runtimeError (lines : List Str) (e : Err)
    (h : parseStdout lines = .error e) : e = .runtimeError := by
  by_cases hall : ∀ l ∈ lines, lineErr l = none
  · rw [parseStdout_spec lines hall] at h
    split at h
    · injection h with h; exact h.symm
    · cases h
  · -- some line raises: walk to the first one
    unfold parseStdout at h
    have key : ∀ (st : PState) (ls : List Str), (¬ ∀ l ∈ ls, lineErr l = none) →
        ∀ e, runLines st ls = .error e → e = .runtimeError := by
      intro st ls
      induction ls generalizing st with
      | nil => intro hn; exact absurd (by simp) hn
      | cons l ls ih =>
        intro hn e he
        simp only [runLines] at he
        cases hl : lineErr l with
        | some e1 =>
          rw [stepLine_err st l e1 hl] at he
          injection he with he; subst he
          exact lineErr_kind l _ hl
        | none =>
          rw [stepLine_ok st l hl] at he
          refine ih _ ?_ e he
          intro hls; apply hn
          intro x hx
          simp only [List.mem_cons] at hx
          rcases hx with rfl | hx
          · exact hl
          · exact hls x hx
    cases hr : runLines ⟨none, []⟩ lines with
    | error e1 =>
      rw [hr] at h; injection h with h; subst h
      exact key _ _ hall _ hr
    | ok st =>
      exact absurd (lineErr_of_runLines_ok _ _ _ hr) hall

/-- bytes outside ASCII are replaced, not fatal (regression for D28d): a comment with `é` (0xE9) -/
theorem non_ascii_comment_harmless :
    parseOutput (decodeAscii [99, 32, 99, 97, 102, 0xE9, 10, 115, 32, 83, 65, 84, 73, 83, 70, 73, 65, 66,
      76, 69, 10, 118, 32, 49, 32, 48, 10]) = .ok (true, some [1]) := by decide

/-- T-C20.1e  no status line at all (no answer, or only comments) → RuntimeError -/
theorem no_verdict_raises (lines : List Str) (hok : ∀ l ∈ lines, lineErr l = none)
    (hno : ∀ l ∈ lines, l.head? ≠ some 's') : parseStdout lines = .error .runtimeError := by
  rw [parseStdout_spec _ hok]
  have hp : ∀ l ∈ lines, lineVerdict l = none := by
    intro l hl
    have := hno l hl
    cases l with
    | nil => rfl
    | cons c r =>
      have hc : c ≠ 's' := by intro h; subst h; simp at this
      simp [lineVerdict, hc]
  rw [lastVerdict_no_status none lines hp]

example : parseStdout [] = .error .runtimeError := by decide
example : parseStdout ["c only comments".toList, "v 1 2 0".toList] = .error .runtimeError := by decide

/-! ### well-formed answers, split and interleaved in ANY way -/

/-! The vocabulary is in `Lemmas/SolverAnswer.lean`: a `Piece` is a comment / blank / other line
(`other text`, first character neither `s` nor `v`), the status line (`status`), or a value line
(`values lits zero trail`: `v`, then every literal preceded by a non-empty run of blanks, an optional
`0`, trailing blanks); `Piece.render sat` prints it, `Piece.Good` says the separators are blanks and
the literals are non-zero integers below the digit limit of `int()`, `allLits ps` is what the
solver printed, in the order printed. -/

/-- T-C20.1f  A solver that prints its status line (at least once, anywhere) and its assignment on
any number of `v` lines, cut anywhere, in any order, with comment / blank lines interleaved
anywhere: the result is `(sat, the printed literals ordered by variable)` for "satisfiable" and
`(False, None)` for "unsatisfiable". -/
theorem wellformed_answer (sat : Bool) (ps : List Piece) (hg : ∀ p ∈ ps, p.Good)
    (hs : Piece.status ∈ ps) :
    parseStdout (ps.map (Piece.render sat)) = .ok (sat, witnessIf sat (sortByVar (allLits ps))) := by
  have hok : ∀ l ∈ ps.map (Piece.render sat), lineErr l = none := by
    intro l hl
    obtain ⟨p, hp, rfl⟩ := List.mem_map.mp hl
    exact render_err sat p (hg p hp)
  rw [parseStdout_spec _ hok, flatMap_render_lits sat ps hg]
  have hv : lastVerdict none (ps.map (Piece.render sat)) = some sat := by
    apply lastVerdict_const
    · intro l hl
      obtain ⟨p, hp, rfl⟩ := List.mem_map.mp hl
      exact render_verdict sat p (hg p hp)
    · exact ⟨statusLine sat, List.mem_map.mpr ⟨Piece.status, hs, rfl⟩, statusLine_verdict sat⟩
  rw [hv]

/-- the full statement of the DIMACS-convention part of the property, for every number of
variables INCLUDING ZERO: a satisfiable answer yields `(True, assignment)`.
(Before /repo 9a497ce this was false for the empty assignment — D24 — and only the
`allLits ps ≠ []` part was provable.) -/
def FullStatement : Prop :=
  ∀ (ps : List Piece), (∀ p ∈ ps, p.Good) → Piece.status ∈ ps →
    parseStdout (ps.map (Piece.render true)) = .ok (true, some (sortByVar (allLits ps)))

theorem fullStatement : FullStatement := by
  intro ps hg hs
  rw [wellformed_answer true ps hg hs]; rfl

/-- zero variables: `s SATISFIABLE` / `v 0` gives the empty assignment, not `None` (regression for D24) -/
theorem zero_variables_answer :
    parseStdout ["s SATISFIABLE".toList, "v 0".toList] = .ok (true, some []) := by decide

theorem wellformed_unsat (ps : List Piece) (hg : ∀ p ∈ ps, p.Good) (hs : Piece.status ∈ ps) :
    parseStdout (ps.map (Piece.render false)) = .ok (false, none) := by
  rw [wellformed_answer false ps hg hs]; rfl

/-- T-C20.1g  if the printed literals are one per variable of `1..n` (in any order), the returned
assignment has the literal of variable `i` at position `i` -/
theorem wellformed_total_assignment (ps : List Piece) (n : Nat) (hg : ∀ p ∈ ps, p.Good)
    (hs : Piece.status ∈ ps) (htot : ((allLits ps).map Int.natAbs).Perm (List.range' 1 n)) :
    ∃ A, parseStdout (ps.map (Piece.render true)) = .ok (true, some A) ∧
      A.map Int.natAbs = List.range' 1 n ∧ A.Perm (allLits ps) :=
  ⟨sortByVar (allLits ps), fullStatement ps hg hs, sortByVar_total _ n htot, sortByVar_perm _⟩

/-- non-vacuity: comments interleaved, status in the middle, literals out of order, split 2 + 1,
tab separators, `0` on the last line -/
def exPieces : List Piece :=
  [.other "c solver 1.0".toList, .values [(" ".toList, -3), ("\t".toList, 1)] none [],
   .other [], .status, .other "c".toList, .values [("  ".toList, 2)] (some " ".toList) " ".toList]

example : (∀ p ∈ exPieces, p.Good) ∧ Piece.status ∈ exPieces ∧
    ((allLits exPieces).map Int.natAbs).Perm (List.range' 1 3) := by
  refine ⟨?_, by simp [exPieces], by decide⟩
  intro p hp
  simp only [exPieces, List.mem_cons, List.not_mem_nil, or_false] at hp
  have hsp : ∀ c : Char, c = ' ' ∨ c = '\t' → isSpace c = true := by
    intro c hc; rcases hc with rfl | rfl <;> decide
  have hbig : ∀ k : Nat, k ≤ 3 → k < 10 ^ maxStrDigits := by
    intro k hk
    calc k < 10 ^ 1 := by omega
      _ ≤ 10 ^ maxStrDigits := Nat.pow_le_pow_right (by omega) (by decide)
  rcases hp with rfl | rfl | rfl | rfl | rfl | rfl
  · exact Or.inr ⟨_, _, rfl, by decide, by decide⟩
  · refine ⟨?_, trivial, by intro c hc; simp at hc⟩
    intro q hq
    simp only [List.mem_cons, List.not_mem_nil, or_false] at hq
    rcases hq with rfl | rfl
    · exact ⟨by intro c hc; simp at hc; exact hsp c (Or.inl hc), by simp, by decide, hbig 3 (by omega)⟩
    · exact ⟨by intro c hc; simp at hc; exact hsp c (Or.inr hc), by simp, by decide, hbig 1 (by omega)⟩
  · exact Or.inl rfl
  · trivial
  · exact Or.inr ⟨_, _, rfl, by decide, by decide⟩
  · refine ⟨?_, ⟨by intro c hc; simp at hc; exact hsp c (Or.inl hc), by simp⟩,
      by intro c hc; simp at hc; exact hsp c (Or.inl hc)⟩
    intro q hq
    simp only [List.mem_cons, List.not_mem_nil, or_false] at hq
    subst hq
    exact ⟨by intro c hc; simp at hc; exact hsp c (Or.inl hc), by simp, by decide, hbig 2 (by omega)⟩

example : parseStdout (exPieces.map (Piece.render true)) = .ok (true, some [1, 2, -3]) := by decide

/-- T-C20.1h  the same from the decoded TEXT of standard output (lines ended by `\n`) -/
theorem wellformed_text (sat : Bool) (ps : List Piece) (hg : ∀ p ∈ ps, p.Good)
    (hs : Piece.status ∈ ps) (hb : ∀ p ∈ ps, NoBreak (p.render sat)) :
    parseOutput (joinLines (ps.map (Piece.render sat)))
      = .ok (sat, witnessIf sat (sortByVar (allLits ps))) := by
  unfold parseOutput
  rw [splitLines_joinLines]
  · exact wellformed_answer sat ps hg hs
  · intro l hl
    obtain ⟨p, hp, rfl⟩ := List.mem_map.mp hl
    exact hb p hp

/-! ### the minisat file convention (`_satsolve_filein_fileout`) -/

/-- T-C20.1i  `SAT` + literals in any layout → `(True, literals ordered by variable)`, for every
number of literals including none (D24 fixed) -/
theorem minisat_sat (lead : Str) (lits : List (Str × Int)) (zero : Option Str) (trail : Str)
    (hl : AllSpace lead) (h : GoodLits lits) (hz : GoodZero zero) (ht : AllSpace trail) :
    parseMinisatFile (renderSatFile lead lits zero trail)
      = .ok (true, some (sortByVar (lits.map (·.2)))) := by
  have hsplit : pySplit (renderSatFile lead lits zero trail)
      = tokSat :: (litSegs lits ++ zeroSeg zero).map (·.2) := by
    unfold renderSatFile pySplit
    rw [pySplitAux_allSpace_nil _ _ hl]
    exact pySplit_word_glue tokSat (by intro c hc; simp [tokSat] at hc; rcases hc with rfl | rfl | rfl <;> decide)
      (by simp [tokSat]) _ (goodSegs_lits lits zero h hz) trail ht
  unfold parseMinisatFile
  rw [hsplit]
  simp only [parseMinisatTokens, if_true]
  rw [filter0_map_lits lits zero h, mapE_showInt lits h]
  rfl

example : parseMinisatFile "SAT\n-2 3\n1 0\n".toList = .ok (true, some [1, -2, 3]) := by decide
example : parseMinisatFile "SAT\n0\n".toList = .ok (true, some []) := by decide

/-- T-C20.1j  first word `UNSAT` → `(False, None)` whatever follows -/
theorem minisat_unsat (text : Str) (rest : List Str) (h : pySplit text = tokUnsat :: rest) :
    parseMinisatFile text = .ok (false, none) := by
  unfold parseMinisatFile
  rw [h]
  have : tokUnsat ≠ tokSat := by decide
  simp [parseMinisatTokens, this]

example : pySplit "UNSAT\n".toList = tokUnsat :: [] := by decide

/-- T-C20.1k  empty file, or a first word other than SAT / UNSAT (`INDET`) → RuntimeError -/
theorem minisat_no_answer (text : Str)
    (h : pySplit text = [] ∨ ∃ t rest, pySplit text = t :: rest ∧ t ≠ tokSat ∧ t ≠ tokUnsat) :
    parseMinisatFile text = .error .runtimeError := by
  unfold parseMinisatFile
  rcases h with h | ⟨t, rest, h, h1, h2⟩
  · rw [h]; rfl
  · rw [h]; simp [parseMinisatTokens, h1, h2]

example : parseMinisatFile "INDET\n".toList = .error .runtimeError := by decide
example : parseMinisatFile [] = .error .runtimeError := by decide

/-- a non-integer word after `SAT`: the documented RuntimeError (regression for D28c) -/
theorem minisat_garbled_runtimeError :
    parseMinisatFile "SAT\n1 x 0\n".toList = .error .runtimeError := by decide

/-- T-C20.1l  whatever is in the result file, nothing but `RuntimeError` is raised -/
theorem parseMinisatFile_only_runtimeError (text : Str) (e : Err)
    (h : parseMinisatFile text = .error e) : e = .runtimeError := by
  unfold parseMinisatFile parseMinisatTokens at h
  split at h
  · injection h with h; exact h.symm
  · split at h
    · split at h
      · rename_i e' heq
        injection h with h; subst h
        exact catchValueError_mapE _ _ heq
      · cases h
    · split at h
      · cases h
      · injection h with h; exact h.symm

/-! ## T-C20.2 — the witness is the solver's, ordered by variable -/

/-! `SatisfiedBy A F`: every clause of `F` contains a literal of the list `A`;
`assignOf A v` = "`+v` is listed"; `Consistent A`: no `0`, no variable both ways
(`Lemmas/SolverAnswer.lean`). -/

/-- T-C20.2a  Whenever `solve()` returns `(True, A')` through the DIMACS convention: `A'` is a
permutation of the literals the solver printed, it is ordered by variable, and it satisfies every
formula that the solver's literals satisfy. -/
theorem witness_sound (F : CNF) (lines : List Str) (A' : List Int)
    (h : parseStdout lines = .ok (true, some A')) :
    A'.Perm (lines.flatMap lineLits) ∧ ByVar A' ∧
      (SatisfiedBy (lines.flatMap lineLits) F → SatisfiedBy A' F) := by
  obtain ⟨_, hfin⟩ := parseStdout_ok_inv lines _ h
  have hA : A' = sortByVar (lines.flatMap lineLits) := by
    unfold finish at hfin
    split at hfin
    · cases hfin
    · rename_i r _
      injection hfin with hfin
      injection hfin with h1 h2
      subst h1
      simp [witnessIf] at h2
      exact h2.symm
  subst hA
  refine ⟨sortByVar_perm _, sortByVar_sorted _, ?_⟩
  intro hs c hc
  obtain ⟨l, hl, hlA⟩ := hs c hc
  exact ⟨l, hl, (mem_sortByVar _ l).mpr hlA⟩

/-- T-C20.2b  the same for the minisat file -/
theorem minisat_witness_sound (F : CNF) (text : Str) (A' : List Int)
    (h : parseMinisatFile text = .ok (true, some A')) :
    ∃ W, A'.Perm W ∧ ByVar A' ∧ A' = sortByVar W ∧ (SatisfiedBy W F → SatisfiedBy A' F) := by
  unfold parseMinisatFile parseMinisatTokens at h
  split at h
  · cases h
  · rename_i t rest _
    split at h
    · split at h
      · cases h
      · rename_i ws _
        injection h with h
        injection h with _ h2
        simp [witnessIf] at h2
        subst h2
        refine ⟨ws, sortByVar_perm _, sortByVar_sorted _, rfl, ?_⟩
        intro hs c hc
        obtain ⟨l, hl, hlA⟩ := hs c hc
        exact ⟨l, hl, (mem_sortByVar _ l).mpr hlA⟩
    · split at h
      · injection h with h; injection h with h1 _; cases h1
      · cases h

/-- T-C20.2c  in terms of the semantics of `Core/Sem.lean`: a consistent list of literals that
satisfies `F` clause by clause makes `F.holds` true under the induced assignment; the induced
assignment is the same before and after sorting -/
theorem satisfiedBy_holds (A : List Int) (F : CNF) (hc : Consistent A) (h : SatisfiedBy A F) :
    F.holds (assignOf A) = true := by
  unfold CNF.holds
  rw [List.all_eq_true]
  intro c hcF
  obtain ⟨l, hl, hlA⟩ := h c hcF
  unfold clauseHolds
  rw [List.any_eq_true]
  refine ⟨l, hl, ?_⟩
  have hl0 : l ≠ 0 := by intro h0; subst h0; exact hc.1 hlA
  unfold litHolds assignOf
  by_cases hp : 0 < l
  · have : ((l.natAbs : Nat) : Int) = l := by omega
    simp [hp, this, hlA]
  · have : ((l.natAbs : Nat) : Int) = -l := by omega
    simp [hp, this, hc.2 l hlA]

/-- T-C20.2d  together: if the literals the solver printed are consistent and satisfy `F`, the
assignment induced by what `solve()` returns makes `F` true -/
theorem witness_holds (F : CNF) (lines : List Str) (A' : List Int)
    (h : parseStdout lines = .ok (true, some A'))
    (hc : Consistent (lines.flatMap lineLits)) (hs : SatisfiedBy (lines.flatMap lineLits) F) :
    F.holds (assignOf A') = true := by
  obtain ⟨hp, _, himp⟩ := witness_sound F lines A' h
  refine satisfiedBy_holds A' F ?_ (himp hs)
  exact ⟨fun h0 => hc.1 (hp.mem_iff.mp h0),
    fun l hl hn => hc.2 l (hp.mem_iff.mp hl) (hp.mem_iff.mp hn)⟩

/-- non-vacuity for T-C20.2 -/
example : SatisfiedBy [-3, 1, 2] ⟨3, [[1, -2], [2, 3], [-1, -3]]⟩ ∧ Consistent [-3, 1, 2] := by
  refine ⟨?_, by decide, by decide⟩
  intro c hc
  simp at hc
  rcases hc with rfl | rfl | rfl
  · exact ⟨1, by simp, by simp⟩
  · exact ⟨2, by simp, by simp⟩
  · exact ⟨-3, by simp, by simp⟩

/-! ## T-C20.3 — which solver, which interface, which error (`sat_solve`) -/

/-- T-C20.3a  an unknown `sameas` is `ValueError`, whatever else is given or installed -/
theorem unknown_sameas (cmd : Option String) (s : String) (inst : List String) (hs : s ∉ names) :
    selectInterface cmd (some s) inst = .error .valueError :=
  select_sameas_unknown cmd s inst hs

example : "nosuchsolver" ∉ names := by decide

/-- T-C20.3b  an unsupported command without `sameas` is `RuntimeError` -/
theorem unsupported_command (c : String) (t : Str) (ts : List Str) (inst : List String)
    (hc : pySplit c.toList = t :: ts) (hn : String.ofList t ∉ names) :
    selectInterface (some c) none inst = .error .runtimeError := by
  rw [select_cmd c t ts none inst (by intro s h; cases h) hc]
  simp [namedChoice, hn]

example : pySplit "mysolver --fast".toList = "mysolver".toList :: ["--fast".toList] ∧
    String.ofList "mysolver".toList ∉ names := by decide

/-- T-C20.3c  no command (None or blank), `sameas` absent or supported: the FIRST installed
solver in table order is called, by its bare name, through its own interface — `sameas` plays
no role -/
theorem auto_first_installed (cmd : Option String) (sameas : Option String) (inst : List String)
    (hblank : cmd = none ∨ ∃ c, cmd = some c ∧ pySplit c.toList = [])
    (hsame : ∀ s, sameas = some s → s ∈ names)
    (pre post : List (String × Iface)) (n : String) (f : Iface)
    (htable : table = pre ++ (n, f) :: post)
    (hpre : ∀ p ∈ pre, p.1 ∉ inst) (hn : n ∈ inst) :
    selectInterface cmd sameas inst = .ok (f, n) := by
  have hauto : selectInterface cmd sameas inst = autoChoice inst := by
    rcases hblank with rfl | ⟨c, rfl, hc⟩
    · exact select_none sameas inst hsame
    · exact select_blank c sameas inst hsame hc
  rw [hauto]
  unfold autoChoice
  rw [htable, find?_first _ pre post (n, f) (by intro p hp; simp [hpre p hp]) (by simp [hn])]

/-- non-vacuity: only `march` and `sat4j` installed → `march` through file-in/stdout -/
example : selectInterface none none ["sat4j", "march"] = .ok (.fileInStdout, "march") := by decide

/-- T-C20.3d  no command and no supported solver installed → RuntimeError -/
theorem none_installed (cmd : Option String) (sameas : Option String) (inst : List String)
    (hblank : cmd = none ∨ ∃ c, cmd = some c ∧ pySplit c.toList = [])
    (hsame : ∀ s, sameas = some s → s ∈ names) (hno : ∀ n ∈ names, n ∉ inst) :
    selectInterface cmd sameas inst = .error .runtimeError := by
  have hauto : selectInterface cmd sameas inst = autoChoice inst := by
    rcases hblank with rfl | ⟨c, rfl, hc⟩
    · exact select_none sameas inst hsame
    · exact select_blank c sameas inst hsame hc
  rw [hauto]
  unfold autoChoice
  have : table.find? (fun p => inst.contains p.1) = none := by
    rw [List.find?_eq_none]
    intro p hp
    have : p.1 ∈ names := List.mem_map.mpr ⟨p, hp, rfl⟩
    simp [hno p.1 this]
  rw [this]

/-- T-C20.3e  a supported solver named on the command line and installed: its own interface, the
command line passed on unchanged -/
theorem named_solver (c : String) (t : Str) (ts : List Str) (inst : List String)
    (hc : pySplit c.toList = t :: ts) (hn : String.ofList t ∈ names) (hi : String.ofList t ∈ inst) :
    ∃ f, lookup (String.ofList t) = some f ∧ selectInterface (some c) none inst = .ok (f, c) := by
  obtain ⟨f, hf⟩ := lookup_isSome _ hn
  refine ⟨f, hf, ?_⟩
  rw [select_cmd c t ts none inst (by intro s h; cases h) hc]
  simp [namedChoice, hn, keyOf, hf, hi]

/-- T-C20.3f  `sameas = s` (supported): the interface of `s`, the given command line, any
program name -/
theorem sameas_interface (c : String) (t : Str) (ts : List Str) (s : String) (inst : List String)
    (hc : pySplit c.toList = t :: ts) (hs : s ∈ names) (hi : String.ofList t ∈ inst) :
    ∃ f, lookup s = some f ∧ selectInterface (some c) (some s) inst = .ok (f, c) := by
  obtain ⟨f, hf⟩ := lookup_isSome _ hs
  refine ⟨f, hf, ?_⟩
  rw [select_cmd c t ts (some s) inst (by intro s' h; injection h with h; subst h; exact hs) hc]
  simp [namedChoice, keyOf, names_nonempty s hs, hf, hi]

example : selectInterface (some "my-hacked-minisat -pre") (some "minisat") ["my-hacked-minisat"]
    = .ok (.fileInFileOut, "my-hacked-minisat -pre") := by decide

/-- T-C20.3g  the named program is not installed (cannot be started) → RuntimeError -/
theorem not_installed (c : String) (t : Str) (ts : List Str) (sameas : Option String)
    (inst : List String) (hc : pySplit c.toList = t :: ts)
    (hsame : ∀ s, sameas = some s → s ∈ names) (hi : String.ofList t ∉ inst) :
    selectInterface (some c) sameas inst = .error .runtimeError := by
  rw [select_cmd c t ts sameas inst hsame hc]
  unfold namedChoice
  split
  · rfl
  · rename_i hcond
    have hsup : String.ofList t ∈ names ∨ sameas ≠ none := by
      cases sameas with
      | none => left; simpa using hcond
      | some s => right; simp
    obtain ⟨f, hf⟩ := lookup_isSome _ (namedChoice_key _ sameas hsame hsup)
    rw [hf]
    simp [hi]

/-- T-C20.3h  `sat_solve` raises nothing but `ValueError` (unknown `sameas`) and `RuntimeError`
before a solver is started — in particular never the `KeyError` of the table lookup -/
theorem select_error_kinds (cmd sameas : Option String) (inst : List String) (e : Err)
    (h : selectInterface cmd sameas inst = .error e) : e = .valueError ∨ e = .runtimeError := by
  by_cases hu : sameasUnknown sameas = true
  · left
    unfold selectInterface at h
    simp [hu] at h
    exact h.symm
  · right
    have hsame : ∀ s, sameas = some s → s ∈ names := by
      intro s hs; subst hs
      simpa [sameasUnknown] using hu
    cases cmd with
    | none =>
      rw [select_none sameas inst hsame] at h
      exact autoChoice_errors inst e h
    | some c =>
      cases hc : pySplit c.toList with
      | nil =>
        rw [select_blank c sameas inst hsame hc] at h
        exact autoChoice_errors inst e h
      | cons t ts =>
        rw [select_cmd c t ts sameas inst hsame hc] at h
        exact namedChoice_errors c _ sameas inst hsame e h

/-- T-C20.3i  facts of the table itself (re-proved whenever `Solver/Table.lean` is regenerated):
names are distinct, each is a single word (so that `cmd = name` selects it) and has an interface;
the conventions stated in the docstrings of solver.py -/
theorem table_names_nodup : names.Nodup := by decide

theorem table_names_are_words : ∀ n ∈ names, pySplit n.toList = [n.toList] := by decide

theorem table_documented_conventions :
    lookup "lingeling" = some .stdinStdout ∧ lookup "cryptominisat" = some .stdinStdout ∧
    lookup "sat4j" = some .fileInStdout ∧ lookup "march" = some .fileInStdout ∧
    lookup "minisat" = some .fileInFileOut := by decide

/-! ## T-C20.4 — `is_satisfiable` is the verdict of `solve`; composition -/

/-- T-C20.4a -/
theorem isSatisfiable_eq (inst : List String) (world : Iface → String → Option ProcOut)
    (cmd sameas : Option String) :
    isSatisfiable inst world cmd sameas = (solve inst world cmd sameas).map (·.1) := by
  unfold isSatisfiable
  cases solve inst world cmd sameas <;> rfl

/-- T-C20.4b  selection errors come out of both, unchanged, and no solver is consulted -/
theorem solve_select_error (inst : List String) (world : Iface → String → Option ProcOut)
    (cmd sameas : Option String) (e : Err) (h : selectInterface cmd sameas inst = .error e) :
    solve inst world cmd sameas = .error e ∧ isSatisfiable inst world cmd sameas = .error e := by
  simp [isSatisfiable, solve, h]

/-- T-C20.4c  a solver that cannot be started after all (`Popen` raises `OSError`): RuntimeError,
for all three conventions (D28 fixed: no `UnboundLocalError`) -/
theorem solve_cannot_start (inst : List String) (world : Iface → String → Option ProcOut)
    (cmd sameas : Option String) (f : Iface) (c : String)
    (h : selectInterface cmd sameas inst = .ok (f, c)) (hw : world f c = none) :
    solve inst world cmd sameas = .error .runtimeError := by
  simp only [solve, h, hw]
  cases f <;> decide

/-- T-C20.4c'  `solve` / `is_satisfiable` raise nothing but the two documented errors, whatever is
installed and whatever the solver process does -/
theorem solve_error_kinds (inst : List String) (world : Iface → String → Option ProcOut)
    (cmd sameas : Option String) (e : Err) (h : solve inst world cmd sameas = .error e) :
    e = .valueError ∨ e = .runtimeError := by
  unfold solve at h
  cases hs : selectInterface cmd sameas inst with
  | error e1 =>
    rw [hs] at h; injection h with h; subst h
    exact select_error_kinds cmd sameas inst _ hs
  | ok r =>
    obtain ⟨f, c⟩ := r
    rw [hs] at h
    right
    simp only at h
    cases f <;> cases hw : world _ c <;> rw [hw] at h <;> simp only [runIface] at h
    all_goals first
      | exact parseStdout_only_runtimeError _ e h
      | exact parseMinisatFile_only_runtimeError _ e h
      | (injection h with h; exact h.symm)

/-- T-C20.4d  end to end on the model, DIMACS conventions: selection succeeds with a stdout
interface and the process prints a well-formed answer → `solve` returns it, `is_satisfiable`
returns its verdict -/
theorem solve_wellformed_stdout (inst : List String) (world : Iface → String → Option ProcOut)
    (cmd sameas : Option String) (f : Iface) (c : String) (out : ProcOut)
    (h : selectInterface cmd sameas inst = .ok (f, c)) (hf : f ≠ .fileInFileOut)
    (hw : world f c = some out)
    (sat : Bool) (ps : List Piece) (hg : ∀ p ∈ ps, p.Good) (hs : Piece.status ∈ ps)
    (hb : ∀ p ∈ ps, NoBreak (p.render sat))
    (hout : out.stdout = joinLines (ps.map (Piece.render sat))) :
    solve inst world cmd sameas = .ok (sat, witnessIf sat (sortByVar (allLits ps))) ∧
    isSatisfiable inst world cmd sameas = .ok sat := by
  have hsolve : solve inst world cmd sameas = .ok (sat, witnessIf sat (sortByVar (allLits ps))) := by
    simp only [solve, h, hw]
    cases f with
    | fileInFileOut => exact absurd rfl hf
    | stdinStdout => simp only [runIface]; rw [hout]; exact wellformed_text sat ps hg hs hb
    | fileInStdout => simp only [runIface]; rw [hout]; exact wellformed_text sat ps hg hs hb
  exact ⟨hsolve, by simp [isSatisfiable, hsolve]⟩

/-- T-C20.4e  end to end on the model, minisat convention -/
theorem solve_wellformed_minisat (inst : List String) (world : Iface → String → Option ProcOut)
    (cmd sameas : Option String) (c : String) (out : ProcOut)
    (h : selectInterface cmd sameas inst = .ok (.fileInFileOut, c))
    (hw : world .fileInFileOut c = some out)
    (lead : Str) (lits : List (Str × Int)) (zero : Option Str) (trail : Str)
    (hl : AllSpace lead) (hg : GoodLits lits) (hz : GoodZero zero) (ht : AllSpace trail)
    (hout : out.file = renderSatFile lead lits zero trail) :
    solve inst world cmd sameas = .ok (true, some (sortByVar (lits.map (·.2)))) ∧
    isSatisfiable inst world cmd sameas = .ok true := by
  have hsolve : solve inst world cmd sameas = .ok (true, some (sortByVar (lits.map (·.2)))) := by
    simp only [solve, h, hw, runIface]
    rw [hout]
    exact minisat_sat lead lits zero trail hl hg hz ht
  exact ⟨hsolve, by simp [isSatisfiable, hsolve]⟩

end Cnfgen.C20
