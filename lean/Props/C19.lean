/-
C19 — transformations leave their inputs untouched and record provenance.
This file: the PURE model — every transformation is a function, so "the input is unchanged" is automatic; what is
proven here is the provenance logic of the header (on classified keys) and the restore logic of the one place where
the code works in place (the `!=` loop), as arithmetic on lists.
Objects, addresses, aliasing ("a NEW formula", "leaves the input untouched", "mutating the result later cannot change
the input") are stated and proved on the HEAP model: Props/C19/Heap.lean (frame, freshness, non-interference, header on
string keys), Props/C19/Neq.lean (builders and the `!=` loop on caller-owned lists), Props/C19/Refine.lean (the heap
model computes what the pure model computes).
-/
import Props.C05
import Props.C09
namespace Cnfgen.C19
open Cnfgen

/-- T-C19.2a (substitutions, lifting, compression, flip): the result's header is the input's header
— every entry kept, in order, `description` included — plus exactly one new entry `transformation i`,
`i ≥ 1` the first number not yet used -/
theorem transformation_header (h : Header.Hdr) (t : Header.T) :
    Header.transform h t = h ++ [(.trans (Header.freeIndex h), Header.descr t)] ∧
    Header.hasKey h (.trans (Header.freeIndex h)) = false ∧ 1 ≤ Header.freeIndex h ∧
    (∀ j, 1 ≤ j → j < Header.freeIndex h → Header.hasKey h (.trans j) = true) ∧
    (∀ k, Header.hasKey h k = true → Header.get? (Header.transform h t) k = Header.get? h k) :=
  C05.header_provenance h t

/-- T-C19.2b a chain of transformations: the input header is a prefix of the result, followed by one
numbered entry per step, in the order of application -/
theorem chain_header (h : Header.Hdr) (ts : List Header.T) :
    ∃ suf : Header.Hdr, Header.transformAll h ts = h ++ suf ∧
      suf.map (·.2) = ts.map Header.descr ∧ ∀ e ∈ suf, ∃ i, 1 ≤ i ∧ e.1 = Header.Key.trans i :=
  C05.header_chain h ts

/-- T-C19.2c Shuffle: old entries in order (the description gets the suffix " (reshuffled)", i.e. the
original description is kept as a prefix), then one new numbered entry -/
theorem shuffle_header (h : Shuffle.Header) :
    ∃ i, 1 ≤ i ∧
      Shuffle.shuffleHeader h =
        h.map (fun p => if p.1 == "description" then (p.1, p.2 ++ " (reshuffled)") else p) ++
          [(Shuffle.tkey i, "Formula reshuffling")] ∧
      Shuffle.hasKey h (Shuffle.tkey i) = false ∧ ∀ j, 1 ≤ j → j < i → Shuffle.hasKey h (Shuffle.tkey j) = true :=
  C09.header_entry h

/-! ### the in-place loop of the `!=` constraint -/

/-- `for i in flips: lits[i] *= -1` for a set of distinct positions -/
def flipSet (S : List Nat) (l : List Int) : List Int :=
  l.mapIdx (fun j x => if S.contains j then -x else x)

/-- one iteration of the loop: flip, emit a copy, flip back; returns (emitted clause, working list) -/
def neqIteration (S : List Nat) (work : List Int) : Clause × List Int :=
  let flipped := flipSet S work
  (flipped, flipSet S flipped)

/-- the whole loop over the chosen position sets -/
def neqLoop (sets : List (List Nat)) (work : List Int) : List Clause × List Int :=
  sets.foldl (fun acc S => let r := neqIteration S acc.2; (acc.1 ++ [r.1], r.2)) ([], work)

theorem flipSet_involutive (S : List Nat) (l : List Int) : flipSet S (flipSet S l) = l := by
  unfold flipSet
  apply List.ext_getElem
  · simp
  · intro i h1 h2
    simp only [List.getElem_mapIdx]
    by_cases hc : S.contains i = true
    · simp only [hc, if_true]; omega
    · simp only [hc]; simp

/-- T-C19.1 whatever position sets the loop runs over, the working list is back to its initial
content after every iteration and at the end, and every emitted clause is the list with exactly that
set of positions negated -/
theorem neq_loop_restores (sets : List (List Nat)) (work : List Int) :
    (neqLoop sets work).2 = work ∧ (neqLoop sets work).1 = sets.map (fun S => flipSet S work) := by
  unfold neqLoop
  suffices h : ∀ (acc : List Clause),
      (sets.foldl (fun acc S => let r := neqIteration S acc.2; (acc.1 ++ [r.1], r.2)) (acc, work)).2 = work ∧
      (sets.foldl (fun acc S => let r := neqIteration S acc.2; (acc.1 ++ [r.1], r.2)) (acc, work)).1
        = acc ++ sets.map (fun S => flipSet S work) by simpa using h []
  induction sets with
  | nil => intro acc; simp
  | cons S rest ih =>
    intro acc
    have := ih (acc ++ [flipSet S work])
    simp only [List.foldl_cons, neqIteration, flipSet_involutive] at this ⊢
    simpa [List.append_assoc] using this

example : neqLoop [[0, 2], [1]] [1, -2, 3] = ([[-1, -2, -3], [1, 2, 3]], [1, -2, 3]) := by decide

end Cnfgen.C19
