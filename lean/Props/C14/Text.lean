/-
C14 at CHARACTER level: the text `writeGraph` produces for the in-house formats (kthlist, DIMACS
edge format, matrix — `_write_graph_kthlist_nonbipartite`, `_write_graph_kthlist_bipartite`,
`_write_graph_dimacs_format`, `_write_graph_matrix_format`, character by character: the `c` lines
of the graph name, `str(v) + " :"`, `' ' + str(i)`, `" 0\n"`, `p edge n m`, `e u v`, `" ".join(row)`,
the final empty line) is turned by the readers' own treatment of characters (`readlines()`,
`l[0] == 'c'`, `strip()`, `split()`, `':' in l`, `split(':')`, `int()`) into exactly the rows the
theorems of `Props/C14.lean` speak about — hence the written CHARACTERS, read back, give the same
graph; and reading ANY string either succeeds or raises ValueError.
Model of the characters: `IO/GraphLex.lean`, `kthText/dimacsText/matrixText/writeText/readText` in
`IO/GraphFmt.lean` (compared byte for byte with the real writers / readers by the harness).
Helper lemmas: `Lemmas/IOGraphText.lean`, `Lemmas/IOGraphTextFmt.lean`, `Lemmas/IOText*.lean`.
-/
import Props.C14
import Lemmas.IOGraphTextFmt
namespace Cnfgen.C14
open Cnfgen GraphFmt GraphLex

/-- every number the writers print for the graph — the order (for bipartite graphs `l + r`: the
kthlist writer shifts the right vertices by `l`) and, for DIMACS, the number of edges — has at most
`maxStrDigits` (= 4300) decimal digits: beyond that CPython refuses both `str(n)` and `int(s)`
(`sys.get_int_max_str_digits`).  Under the invariant every vertex number is then printable too. -/
def Printable : AnyG → Prop
  | .simple G => Small G.n ∧ Small G.m
  | .di G => Small G.n ∧ Small G.m
  | .bip G => Small (G.l + G.r)

theorem small_of_le {a b : Nat} (h : a ≤ b) (hb : Small b) : Small a := Nat.lt_of_le_of_lt h hb

/-- the lexer inverts the printer: whenever the row-level writer succeeds, the text writer succeeds and
lexing its characters — read from a `StringIO` (`u = false`) or from a text-mode file (`u = true`:
universal newlines) — gives exactly the rows of the row-level writer.  For every graph with the
invariant, every graph name (any characters, any number of lines), every in-house format. -/
theorem graph_text_lex (u : Bool) (name : Str) (ty : GType) (fmt : Fmt) (G : AnyG) (hinv : InvAny G)
    (hp : Printable G) (rows : Rows) (hw : writeGraph name ty fmt G = .ok rows) :
    ∃ t, writeText name ty fmt G = .ok t ∧ lexText fmt (if u then universalNL t else t) = some rows := by
  unfold writeGraph at hw
  unfold writeText
  cases hc : checkArgs ty fmt with
  | error e => rw [hc] at hw; cases hw
  | ok _ =>
    rw [hc] at hw
    simp only at hw ⊢
    cases fmt <;> cases G <;> simp only [reduceCtorEq] at hw <;> try (cases hw)
    · -- kthlist, simple
      rename_i g
      have hinv : SimpleG.Inv g := hinv
      refine ⟨_, rfl, ?_⟩
      simp only [lexText, writeKthSimple]
      rw [lexKth_kthText u name g.n (simpleLists g) hp.1]
      intro p hpm
      obtain ⟨i, hi, rfl⟩ := List.mem_map.1 hpm
      have hi' : i < g.n := List.mem_range.1 hi
      refine ⟨small_of_le (by simp only; omega) hp.1, fun j hj => ?_⟩
      have := hinv.nbrs_range hj
      exact small_of_le this.2.2.2.1 hp.1
    · -- kthlist, directed
      rename_i g
      have hinv : DiG.Inv g := hinv
      refine ⟨_, rfl, ?_⟩
      simp only [lexText, writeKthDi]
      rw [lexKth_kthText u name g.n (diLists g) hp.1]
      intro p hpm
      obtain ⟨i, hi, rfl⟩ := List.mem_map.1 hpm
      have hi' : i < g.n := List.mem_range.1 hi
      refine ⟨small_of_le (by simp only; omega) hp.1, fun j hj => ?_⟩
      have := hinv.range _ _ (hinv.mem_preds.1 hj)
      exact small_of_le this.2.1 hp.1
    · -- kthlist, bipartite
      rename_i g
      have hinv : BipG.Inv g := hinv
      have hp : Small (g.l + g.r) := hp
      refine ⟨_, rfl, ?_⟩
      simp only [lexText, writeKthBip]
      rw [lexKth_kthText u name (g.l + g.r) (bipLists g) hp]
      intro p hpm
      obtain ⟨i, hi, rfl⟩ := List.mem_map.1 hpm
      have hi' : i < g.l := List.mem_range.1 hi
      refine ⟨small_of_le (by simp only; omega) hp, fun j hj => ?_⟩
      obtain ⟨v, hv, rfl⟩ := List.mem_map.1 hj
      have := hinv.range _ _ (hinv.mem_rnbrs.1 hv)
      exact small_of_le (by omega) hp
    · -- dimacs, simple
      rename_i g
      have hinv : SimpleG.Inv g := hinv
      refine ⟨_, rfl, ?_⟩
      simp only [lexText, writeDimacsSimple]
      rw [lexDimacs_dimacsText u name g.n g.m g.edges hp.1 hp.2]
      intro e he
      have := hinv.edges_range (u := e.1) (v := e.2) he
      exact ⟨small_of_le (by omega) hp.1, small_of_le this.2.2 hp.1⟩
    · -- dimacs, directed
      rename_i g
      have hinv : DiG.Inv g := hinv
      refine ⟨_, rfl, ?_⟩
      simp only [lexText, writeDimacsDi]
      rw [lexDimacs_dimacsText u name g.n g.m g.edges hp.1 hp.2]
      intro e he
      have := hinv.range e.1 e.2 (hinv.mem_edges.1 he)
      exact ⟨small_of_le this.2.1 hp.1, small_of_le this.2.2.2 hp.1⟩
    · -- matrix
      rename_i g
      have hp : Small (g.l + g.r) := hp
      refine ⟨_, rfl, ?_⟩
      simp only [lexText]
      rw [lexMatrix_matrixText u g (small_of_le (by omega) hp) (small_of_le (by omega) hp)]

/-- T-C14.1 at CHARACTER level.  Writing a graph of any of the four types in any in-house format
supported for the type and reading the written characters back (line splitting, `strip`, `split`,
`int()` included; from a `StringIO` or from a text-mode file) returns the same graph: same order /
left-right split, same numbering, same edges (every adjacency table identical) — isolated vertices,
empty sides, empty graphs, ten or more vertices, every graph name included; all sizes up to the
digit limit of CPython itself. -/
theorem graph_text_roundtrip (u : Bool) (name : Str) (ty : GType) (fmt : Fmt) (G : AnyG) (hin : InHouse fmt)
    (hsup : fmt ∈ supported ty) (hty : HasType ty G) (hinv : InvAny G) (hp : Printable G) :
    ∃ t G', writeText name ty fmt G = .ok t ∧ readText u ty fmt t = .ok G' ∧ SameAny G G' := by
  obtain ⟨rows, G', hw, hr, hs⟩ := roundtrip name ty fmt G hin hsup hty hinv
  obtain ⟨t, ht, hl⟩ := graph_text_lex u name ty fmt G hinv hp rows hw
  have hc : checkArgs ty fmt = .ok () := by
    unfold checkArgs
    rw [if_pos (List.contains_iff_mem.2 hsup)]
  refine ⟨t, G', ht, ?_, hs⟩
  unfold readText
  rw [hc]
  simp only [hl, hr]

/-- kthlist (`graph_text_roundtrip` for the format, which every type supports) -/
theorem graph_text_roundtrip_kthlist (u : Bool) (name : Str) (ty : GType) (G : AnyG)
    (hty : HasType ty G) (hinv : InvAny G) (hp : Printable G) :
    ∃ t G', writeText name ty .kthlist G = .ok t ∧ readText u ty .kthlist t = .ok G' ∧ SameAny G G' :=
  graph_text_roundtrip u name ty .kthlist G (Or.inl rfl) (by cases ty <;> decide) hty hinv hp

/-- DIMACS edge format (simple, directed, acyclic graphs) -/
theorem graph_text_roundtrip_dimacs (u : Bool) (name : Str) (ty : GType) (G : AnyG) (hnb : ty ≠ .bipartite)
    (hty : HasType ty G) (hinv : InvAny G) (hp : Printable G) :
    ∃ t G', writeText name ty .dimacs G = .ok t ∧ readText u ty .dimacs t = .ok G' ∧ SameAny G G' :=
  graph_text_roundtrip u name ty .dimacs G (Or.inr (Or.inl rfl))
    (by cases ty <;> first | decide | exact absurd rfl hnb) hty hinv hp

/-- adjacency matrix (bipartite graphs) -/
theorem graph_text_roundtrip_matrix (u : Bool) (name : Str) (G : BipG) (hinv : BipG.Inv G)
    (hp : Small (G.l + G.r)) :
    ∃ t G', writeText name .bipartite .matrix (.bip G) = .ok t ∧
      readText u .bipartite .matrix t = .ok (.bip G') ∧ BipG.Same G G' := by
  obtain ⟨t, G', h1, h2, h3⟩ := graph_text_roundtrip u name .bipartite .matrix (.bip G) (Or.inr (Or.inr rfl))
    (by decide) trivial hinv hp
  cases G' with
  | bip g' => exact ⟨t, g', h1, h2, h3⟩
  | simple _ => exact absurd h3 (by simp [SameAny])
  | di _ => exact absurd h3 (by simp [SameAny])

/-- the bound is necessary: with `10^4300` or more vertices the reader rejects the size line the
model's writer lays out (real CPython already raises ValueError inside the writer, at
`"{}".format(G.order())`) -/
theorem graph_text_limit_kthlist (u : Bool) (name : Str) (G : SimpleG) (h : ¬ Small G.n) (t : Str)
    (ht : writeText name .simple .kthlist (.simple G) = .ok t) :
    readText u .simple .kthlist t = .error .valueError := by
  have hbig : 10 ^ maxStrDigits ≤ G.n := by unfold Small at h; omega
  have e : t = kthText name G.n (simpleLists G) := by
    simp [writeText, checkArgs, supported] at ht; exact ht.symm
  subst e
  simp only [readText, checkArgs, supported, lexText, readGraph, Rows.fmt, List.contains_cons, beq_self_eq_true,
    Bool.true_or, if_true, readKth, kthHeader_kthText_big u name G.n (simpleLists G) hbig]
  rfl

/-- the round trip without the digit bound, as a statement … -/
def TextRoundtripUnbounded : Prop :=
  ∀ (u : Bool) (name : Str) (G : SimpleG), SimpleG.Inv G →
    ∃ t G', writeText name .simple .kthlist (.simple G) = .ok t ∧ readText u .simple .kthlist t = .ok G'

/-- … is false of the model (and of CPython): the graph with `10^4300` isolated vertices -/
theorem graph_text_roundtrip_unbounded_false : ¬ TextRoundtripUnbounded := by
  intro h
  obtain ⟨t, G', h1, h2⟩ := h false [] (SimpleG.init (10 ^ maxStrDigits)) (SimpleG.inv_init _)
  have h3 := graph_text_limit_kthlist false [] (SimpleG.init (10 ^ maxStrDigits))
    (by unfold Small; exact Nat.lt_irrefl _) t h1
  rw [h3] at h2
  cases h2

/-! ## the readers on ARBITRARY text -/

/-- T-C14.2a at CHARACTER level: reading ANY string in an in-house format, as any graph type, from
a `StringIO` or a text-mode file, either succeeds or raises ValueError — no other exception. -/
theorem reader_text_raises_only_valueError (u : Bool) (ty : GType) (fmt : Fmt) (hin : InHouse fmt) (s : Str)
    (e : Err) (h : readText u ty fmt s = .error e) : e = .valueError := by
  unfold readText at h
  cases hc : checkArgs ty fmt with
  | error x =>
    rw [hc] at h
    unfold checkArgs at hc
    split at hc
    · cases hc
    · cases hc; cases h; rfl
  | ok _ =>
    rw [hc] at h
    simp only at h
    rcases hin with rfl | rfl | rfl <;> simp only [lexText] at h <;>
      exact reader_raises_only_valueError ty _ e h

/-- … stated for Lean `String`s -/
theorem reader_string_raises_only_valueError (u : Bool) (ty : GType) (fmt : Fmt) (hin : InHouse fmt) (s : String)
    (e : Err) (h : readText u ty fmt s.toList = .error e) : e = .valueError :=
  reader_text_raises_only_valueError u ty fmt hin s.toList e h

/-- the rows of a text (in-house format) -/
def rowsOf (u : Bool) (fmt : Fmt) (s : Str) : Option Rows := lexText fmt (if u then universalNL s else s)

/-- an accepted text is an accepted row list: every row-level contract of `Props/C14.lean`
(`*_consistent`, `dag_*_only_increasing`) applies to the rows of the text -/
theorem readText_ok_rows (u : Bool) (ty : GType) (fmt : Fmt) (s : Str) (G : AnyG)
    (h : readText u ty fmt s = .ok G) : ∃ rows, rowsOf u fmt s = some rows ∧ readGraph ty rows = .ok G := by
  unfold readText at h
  cases hc : checkArgs ty fmt with
  | error x => rw [hc] at h; cases h
  | ok _ =>
    rw [hc] at h
    simp only at h
    unfold rowsOf
    cases hl : lexText fmt (if u then universalNL s else s) with
    | none => rw [hl] at h; cases h
    | some rows => rw [hl] at h; exact ⟨rows, rfl, h⟩

/-- T-C14.3 at CHARACTER level: a kthlist text is accepted as a `'dag'` only if every predecessor
it states is smaller than its vertex … -/
theorem dag_kthlist_text_only_increasing (u : Bool) (s : Str) (G : AnyG) (h : readText u .dag .kthlist s = .ok G) :
    ∀ x ∈ kthPairs (lexKth (if u then universalNL s else s)), x.1 < x.2 := by
  obtain ⟨rows, hr, hg⟩ := readText_ok_rows u .dag .kthlist s G h
  simp only [rowsOf, lexText, Option.some.injEq] at hr
  subst hr
  exact dag_kthlist_only_increasing _ G hg

/-- … and a DIMACS text only if every edge line `e u v` has `u < v` -/
theorem dag_dimacs_text_only_increasing (u : Bool) (s : Str) (G : AnyG) (h : readText u .dag .dimacs s = .ok G) :
    ∀ x ∈ dimacsPairs (lexDimacs (if u then universalNL s else s)), x.1 < x.2 := by
  obtain ⟨rows, hr, hg⟩ := readText_ok_rows u .dag .dimacs s G h
  simp only [rowsOf, lexText, Option.some.injEq] at hr
  subst hr
  exact dag_dimacs_only_increasing _ G hg

/-! ## non-vacuity -/

/-- a printable 12-vertex graph with two-digit vertex numbers and isolated vertices -/
example : ∃ G, SimpleG.ofEdges 12 [(1, 2), (10, 11), (3, 12), (12, 1)] = .ok G ∧ InvAny (.simple G) ∧
    HasType .simple (.simple G) := by
  obtain ⟨G, h1, h2, _⟩ := SimpleG.ofEdges_spec (n := 12) (es := [(1, 2), (10, 11), (3, 12), (12, 1)]) (by decide)
  exact ⟨G, h1, h2, trivial⟩
example : Printable (.bip (BipG.init 4 0)) ∧ Printable (.simple (SimpleG.init 0)) ∧ Printable (.di (DiG.init 11)) :=
  ⟨IO.lt_limit_of_le (by decide), ⟨IO.lt_limit_of_le (by decide), IO.lt_limit_of_le (by decide)⟩,
   ⟨IO.lt_limit_of_le (by decide), IO.lt_limit_of_le (by decide)⟩⟩

/-- the characters written for a bipartite graph with 2 + 11 vertices under a two-line name whose
second line looks like an adjacency list (former defect D40), kernel-evaluated, and what the
character-level reader makes of them -/
example : (BipG.ofEdges 2 11 [(1, 10), (2, 1), (2, 11)]).toOption.bind
    (fun G => (writeText "x\n1 : 2 0".toList .bipartite .kthlist (.bip G)).toOption) =
    some "c x\nc 1 : 2 0\n13\n1 : 12 0\n2 : 3 13 0\n\n".toList := by decide
example : (readText true .bipartite .kthlist "c x\nc 1 : 2 0\n13\n1 : 12 0\n2 : 3 13 0\n\n".toList).toOption.map
    (fun G => match G with | .bip g => (g.l, g.r, g.edges) | _ => (0, 0, [])) = some (2, 11, [(1, 10), (2, 1), (2, 11)]) := by
  decide
/-- a text-mode file with "\r\n" line ends; a blank line and an odd integer spelling in a DIMACS file -/
example : (readText true .dag .dimacs "c n\r\np edge 3 2\r\n\r\ne 1 +3\r\ne 0_2 3\r\n".toList).toOption.map
    (fun G => match G with | .di g => (g.n, g.edges) | _ => (0, [])) = some (3, [(1, 3), (2, 3)]) := by decide
/-- the same characters in a `StringIO` (no newline translation): "\r" is white space for `strip`/`split` -/
example : (readText false .dag .dimacs "c n\r\np edge 3 2\r\n\r\ne 1 +3\r\ne 0_2 3\r\n".toList).toOption.map
    (fun G => match G with | .di g => (g.n, g.edges) | _ => (0, [])) = some (3, [(1, 3), (2, 3)]) := by decide
/-- malformed texts: empty, truncated list, backward edge in a dag, matrix with a missing entry -/
example : readText false .simple .kthlist [] = .error .valueError ∧
    readText false .simple .kthlist "3\n1 : 2".toList = .error .valueError ∧
    readText true .dag .kthlist "3\n1 : 2 0\n".toList = .error .valueError ∧
    readText false .bipartite .matrix "2 2\n1 0\n0\n".toList = .error .valueError := ⟨rfl, rfl, rfl, rfl⟩

end Cnfgen.C14
