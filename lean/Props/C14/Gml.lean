/-
C14 — graph files, format `gml`: the part that goes through networkx
(`networkx.readwrite.gml`: `generate_gml` / `write_gml` / `escape`, `read_gml` / `parse_gml_lines` /
`unescape`) is MODELLED in `CnfgenModel/IO/Gml.lean` (tied to the installed networkx 3.6.1 by the
correspondence suites `gml_w`, `gml_p`, `gml_r`, `gml_rt`, `gml_esc`), and the round trip
"write gml → read gml" is a theorem about the characters of the file.

Property theorems only; helper lemmas are in `Lemmas/GmlLex.lean` (tokenizer), `Lemmas/GmlWrite.lean`
(the written lines, the parser on them), `Lemmas/GmlBuild.lean` (graph construction),
`Lemmas/GmlRead.lean` (cnfgen's relabelling and `from_networkx`).

Hypotheses: the C16 representation invariant of the object (`SimpleG.Inv` …: proved in C16 for every
object reachable by any update history) and `Printable n`: the vertex count has at most 4300 decimal
digits (beyond that CPython's `str(int)` raises inside networkx's writer and `int(str)` inside its
reader; the model's `natStr` is the unbounded decimal printer).
-/
import Lemmas.GmlRead
import Lemmas.GmlContract
namespace Cnfgen.C14
open Cnfgen GraphLex GraphFmt Gml

/-- the vertex count can be printed and read back by CPython (at most 4300 digits) -/
def GmlPrintable (n : Nat) : Prop := (natStr n).length ≤ maxStrDigits

instance (n : Nat) : Decidable (GmlPrintable n) := by unfold GmlPrintable; infer_instance

/-- the representation invariant of C16, whatever the class -/
def GmlInv : AnyG → Prop
  | .simple G => SimpleG.Inv G
  | .di G => DiG.Inv G
  | .bip G => BipG.Inv G

/-- the object is of the class `writeGraph` / `readGraph` use for the graph type, and a graph written
as `'dag'` is acyclic in cnfgen's sense (`is_dag()`) -/
def GmlHasType : GType → AnyG → Prop
  | .simple, .simple _ => True
  | .digraph, .di _ => True
  | .dag, .di G => G.stillDag = true
  | .bipartite, .bip _ => True
  | _, _ => False

def gmlOrder : AnyG → Nat
  | .simple G => G.n
  | .di G => G.n
  | .bip G => G.l + G.r

/-- equal in everything a caller can observe: class, order (left/right split), edge counter, every
adjacency table (hence numbering, neighbour views, edge listing), `is_dag`, the edge set -/
def GmlSame : AnyG → AnyG → Prop
  | .simple G, .simple G' => SimpleG.Same G G'
  | .di G, .di G' => DiG.Same G G'
  | .bip G, .bip G' => BipG.Same G G'
  | _, _ => False

/-! ## the written text is inside the modelled subset -/

/-- T-C14.G1 `write_in_subset`.  For every networkx object `X` of the kind `to_networkx()` builds
(nodes first, then edges between them; any name) the model of `networkx.read_gml(..., label='id')`
applied to the CHARACTERS `write_gml` + `print` produce — through a text-mode file or a StringIO —
is defined (never "unmodelled", never an exception) and returns `X`: the same directed flag, the ids
`0..n-1` in order, the `bipartite` attributes, the edges `G.edges()` reported in the same order, the
name. -/
theorem gml_write_in_subset (u : Bool) (X : NxOut) (hp : Gml.Printable X)
    (hd : EdgesDistinct X.directed (nxEdges X.directed X.nodes.length X.tedges)) :
    parseGml u (gmlText X) = .ok (parsedOf X) :=
  parseGml_gmlText u X hp hd

/-- … and the token stream in between is the expected one: `graph [`, the graph attributes, one
`node [ id i label "i+1" (bipartite b) ]` per node, one `edge [ source s target t ]` per edge, `]`, EOF -/
theorem gml_written_tokens (u : Bool) (X : NxOut) (hp : Gml.Printable X) :
    tokenize u (gmlText X) = gmlToks X ∧ parseToks (gmlToks X) = .ok [("graph".toList, .dict (graphItems X))] :=
  ⟨tokenize_gmlText u X hp, parseToks_gmlToks X⟩

/-- `unescape(escape(s)) = s` for EVERY string: quotes, ampersands, control characters, line breaks,
non-ASCII characters are written as decimal character references and read back -/
theorem gml_escape_roundtrip (s : Str) : unescape (escape s) = .ok s := unescape_escape s

/-- what `escape` emits is printable ASCII without a double quote (so a name never breaks the line
or the string it is written in) -/
theorem gml_escape_printable (s : Str) : ∀ c ∈ escape s, 32 ≤ c.toNat ∧ c.toNat ≤ 126 ∧ c ≠ '"' :=
  escape_plain s

/-! ## T-C14.G2 round trip -/

/-- simple graphs: `readGraph(f, 'simple', 'gml')` on what `writeGraph(G, f, 'simple', 'gml')` wrote
returns the same graph — any number of vertices (ten or more, isolated ones included), any name -/
theorem gml_roundtrip_simple (u : Bool) (name : Str) {G : SimpleG} (h : SimpleG.Inv G) (hp : GmlPrintable G.n) :
    ∃ G', readGml u .simple (writeGml name (.simple G)) = .ok (.simple G', .one (.str [])) ∧ SimpleG.Same G G' :=
  readGml_writeGml_simple u name h hp

example : ∃ G : SimpleG, SimpleG.Inv G ∧ GmlPrintable G.n ∧ G.n = 12 ∧ G.m = 2 :=
  ⟨_, SimpleG.inv_ofEdges (n := 12) (es := [(11, 2), (1, 12)]) rfl, (by decide : GmlPrintable 12), rfl, rfl⟩

theorem gml_roundtrip_digraph (u : Bool) (name : Str) {G : DiG} (h : DiG.Inv G) (hp : GmlPrintable G.n) :
    ∃ G', readGml u .digraph (writeGml name (.di G)) = .ok (.di G', .one (.str [])) ∧ DiG.Same G G' :=
  readGml_writeGml_di u name .digraph (Or.inl rfl) h hp (fun e => by cases e)

example : ∃ G : DiG, DiG.Inv G ∧ GmlPrintable G.n ∧ G.stillDag = false :=
  ⟨_, DiG.inv_ofEdges (n := 11) (es := [(11, 2), (1, 10), (3, 3)]) rfl, (by decide : GmlPrintable 11), rfl⟩

/-- a graph written as `'dag'` (every edge increasing) is accepted as `'dag'` and comes back the same -/
theorem gml_roundtrip_dag (u : Bool) (name : Str) {G : DiG} (h : DiG.Inv G) (hp : GmlPrintable G.n)
    (hd : G.stillDag = true) :
    ∃ G', readGml u .dag (writeGml name (.di G)) = .ok (.di G', .one (.str [])) ∧ DiG.Same G G' :=
  readGml_writeGml_di u name .dag (Or.inr rfl) h hp (fun _ => hd)

example : ∃ G : DiG, DiG.Inv G ∧ GmlPrintable G.n ∧ G.stillDag = true ∧ G.m = 2 :=
  ⟨_, DiG.inv_ofEdges (n := 11) (es := [(2, 11), (1, 10)]) rfl, (by decide : GmlPrintable 11), rfl, rfl⟩

/-- bipartite graphs: same split, same numbering on both sides, same edges; the name comes back as
networkx reads it (`nameVal`: the string itself, except that it turns the two strings `"()"` and
`"[]"` into an empty tuple / list) -/
theorem gml_roundtrip_bipartite (u : Bool) (name : Str) {G : BipG} (h : BipG.Inv G) (hp : GmlPrintable (G.l + G.r)) :
    ∃ G', readGml u .bipartite (writeGml name (.bip G)) = .ok (.bip G', .one (nameVal name)) ∧ BipG.Same G G' :=
  readGml_writeGml_bip u name h hp

example : ∃ G : BipG, BipG.Inv G ∧ GmlPrintable (G.l + G.r) ∧ G.l = 10 ∧ G.edgeset.length = 2 :=
  ⟨_, BipG.inv_ofEdges (l := 10) (r := 3) (es := [(10, 1), (2, 3)]) rfl, (by decide : GmlPrintable 13), rfl, rfl⟩

/-- the name of a bipartite graph survives, whatever characters it contains -/
theorem gml_name_roundtrip (name : Str) (h1 : name ≠ "()".toList) (h2 : name ≠ "[]".toList) :
    nameVal name = .str name := by
  unfold nameVal
  rw [if_neg h1, if_neg h2]

/-- T-C14.G2, all types at once -/
theorem gml_roundtrip (u : Bool) (name : Str) (ty : GType) (G : AnyG) (hty : GmlHasType ty G) (hinv : GmlInv G)
    (hp : GmlPrintable (gmlOrder G)) :
    ∃ G' nm, readGml u ty (writeGml name G) = .ok (G', nm) ∧ GmlSame G G' := by
  cases ty <;> cases G <;> simp only [GmlHasType] at hty
  · obtain ⟨G', h1, h2⟩ := gml_roundtrip_simple u name hinv hp
    exact ⟨_, _, h1, h2⟩
  · obtain ⟨G', h1, h2⟩ := gml_roundtrip_digraph u name hinv hp
    exact ⟨_, _, h1, h2⟩
  · obtain ⟨G', h1, h2⟩ := gml_roundtrip_dag u name hinv hp hty
    exact ⟨_, _, h1, h2⟩
  · obtain ⟨G', h1, h2⟩ := gml_roundtrip_bipartite u name hinv hp
    exact ⟨_, _, h1, h2⟩

/-! ## T-C14.G3 reader contract -/

/-- Whatever the text, the modelled `readGraph(f, ty, 'gml')` raises ValueError or nothing (full
strength since 3609e15; outside the modelled subset the model answers `unmodelled`, not an error) -/
theorem gml_reader_raises_only_valueError (u : Bool) (ty : GType) (text : Str) (e : Exc)
    (h : readGml u ty text = .err e) : e = .valueError := by
  unfold readGml at h
  split at h
  · rename_i e' _
    cases h
    cases e' <;> rfl
  · cases h
  · rename_i G nm _
    split at h
    · split at h
      · cases h
      · cases h; rfl
    · cases h

/-- regression (former defect D43, fixed in 3609e15): on these texts networkx raises AttributeError
(`.pop` on a non-dictionary value); `readGraph` used to let it escape, now it is a ValueError -/
theorem gml_regression_nonDict :
    parseGml false "graph 5".toList = .err .attributeError ∧
    parseGml false "graph \"x\"".toList = .err .attributeError ∧
    parseGml false "graph [ node 1 ]".toList = .err .attributeError ∧
    parseGml false "graph [ node [ id 1 ] edge 3 ]".toList = .err .attributeError ∧
    cnfgenCatchOld .attributeError = .attributeError ∧
    readGml false .simple "graph 5".toList = .err .valueError ∧
    readGml false .simple "graph [ node [ id 1 ] edge 3 ]".toList = .err .valueError :=
  ⟨by rfl, by rfl, by rfl, by rfl, by rfl, by rfl, by rfl⟩

/-! ### an accepted text yields a graph consistent with the text

The tokenizer and the parser are functions (`tokenize`, `parseToks`: the regular expressions and the
recursive descent of networkx, compared with it on every run); what is PROVED is what every accepted
text guarantees from there on: the parsed networkx graph is well formed, and the cnfgen object has one
vertex per `node` of the text, numbered in the order `normalize_networkx_labels` gives (`Parsed.rank`),
and exactly the edges of the text between the renumbered ends. -/

/-- whatever `parse_gml_lines` accepts: distinct ids, edges between declared nodes, no edge twice -/
theorem gml_parsed_wellFormed (u : Bool) (text : Str) (P : Parsed) (h : parseGml u text = .ok P) : P.WF :=
  parseGml_wf h

example : ∃ P, parseGml false "graph [ node [ id 7 ] node [ id 3 ] edge [ source 3 target 7 ] ]".toList = .ok P ∧
    P.labels = [.int 7, .int 3] ∧ P.tedges = [(1, 0)] := ⟨_, rfl, rfl, rfl⟩

/-- type `simple` -/
theorem gml_reader_consistent_simple (u : Bool) (text : Str) (G : AnyG) (nm : Field)
    (h : readGml u .simple text = .ok (G, nm)) :
    ∃ P g, parseGml u text = .ok P ∧ P.WF ∧ G = .simple g ∧ SimpleG.Inv g ∧ g.n = P.labels.length ∧
      ∀ x y, (x, y) ∈ g.edgeset ↔ ∃ i j, ((i, j) ∈ P.tedges ∨ (j, i) ∈ P.tedges) ∧ x = P.rank i ∧ y = P.rank j := by
  obtain ⟨P, hp, hn, _, _⟩ := readGml_ok_inv h
  have hW := parseGml_wf hp
  obtain ⟨g, h1, h2, h3, h4⟩ := normalize_simple_spec hW hn
  exact ⟨P, g, hp, hW, h1, h2, h3, h4⟩

example : ∃ G nm, readGml false .simple "graph [ node [ id 7 ] node [ id 3 ] edge [ source 3 target 7 ] ]".toList = .ok (G, nm) :=
  ⟨_, _, rfl⟩

/-- types `digraph` and `dag`: only a text that says `directed 1` (a true value) is accepted; the edges
keep their orientation; a text read as `dag` is accepted only if EVERY edge goes from a lower to a
higher vertex (in the numbering of the result) -/
theorem gml_reader_consistent_directed (u : Bool) (ty : GType) (hty : ty = .digraph ∨ ty = .dag) (text : Str)
    (G : AnyG) (nm : Field) (h : readGml u ty text = .ok (G, nm)) :
    ∃ P g, parseGml u text = .ok P ∧ P.WF ∧ P.directed = true ∧ G = .di g ∧ DiG.Inv g ∧ g.n = P.labels.length ∧
      (∀ x y, (x, y) ∈ g.edgeset ↔ ∃ i j, (i, j) ∈ P.tedges ∧ x = P.rank i ∧ y = P.rank j) ∧
      (ty = .dag → g.stillDag = true ∧ (∀ e ∈ g.edges, e.1 < e.2) ∧ ∀ e ∈ P.tedges, P.rank e.1 < P.rank e.2) := by
  obtain ⟨P, hp, hn, _, hdag⟩ := readGml_ok_inv h
  have hW := parseGml_wf hp
  obtain ⟨hd, g, h1, h2, h3, h4⟩ := normalize_di_spec ty hty hW hn
  refine ⟨P, g, hp, hW, hd, h1, h2, h3, h4, ?_⟩
  intro hdg
  have hs := hdag hdg g h1
  have hall := h2.dag.1 hs
  refine ⟨hs, fun e he => hall e (h2.mem_edges.1 he), ?_⟩
  intro e he
  exact hall (P.rank e.1, P.rank e.2) ((h4 _ _).2 ⟨e.1, e.2, he, rfl, rfl⟩)

/-- type `bipartite`: an accepted text gives every node a side (`bipartite` ∈ `0 1 "0" "1"`); the two sides are
numbered separately in the order of the file (`rank` in `Parsed.side`: NO sorting of the ids); every edge of the
text joins the two sides — whichever of `source` / `target` is on the left — and the object has exactly those edges -/
theorem gml_reader_consistent_bipartite (u : Bool) (text : Str) (G : AnyG) (nm : Field)
    (h : readGml u .bipartite text = .ok (G, nm)) :
    ∃ P g, parseGml u text = .ok P ∧ P.WF ∧ G = .bip g ∧ BipG.Inv g ∧
      g.l = (P.side false).length ∧ g.r = (P.side true).length ∧
      (∀ c ∈ P.colours.map colourBool, c ≠ none) ∧
      (∀ e ∈ P.tedges, (e.1 ∈ P.side false ∧ e.2 ∈ P.side true) ∨ (e.2 ∈ P.side false ∧ e.1 ∈ P.side true)) ∧
      ∀ x y, (x, y) ∈ g.edgeset ↔ ∃ i j, ((i, j) ∈ P.tedges ∨ (j, i) ∈ P.tedges) ∧ i ∈ P.side false ∧ j ∈ P.side true ∧
        x = rank (P.side false) i ∧ y = rank (P.side true) j := by
  obtain ⟨P, hp, hn, _, _⟩ := readGml_ok_inv h
  have hW := parseGml_wf hp
  obtain ⟨g, h1, h2, h3, h4, h5, h6, h7⟩ := normalize_bip_edges hW hn
  exact ⟨P, g, hp, hW, h1, h2, h3, h4, h5, h6, h7⟩

example : ∃ G nm, readGml false .bipartite
    "graph [ node [ id 9 bipartite 1 ] node [ id 2 bipartite 0 ] edge [ source 9 target 2 ] ]".toList = .ok (G, nm) :=
  ⟨_, _, rfl⟩
example : readGml false .bipartite
    "graph [ node [ id 9 bipartite 0 ] node [ id 2 bipartite 0 ] edge [ source 9 target 2 ] ]".toList = .err .valueError := by rfl

/-- T-C14.3 for gml, the short form: a file declared acyclic is accepted only with increasing edges -/
theorem gml_dag_only_increasing (u : Bool) (text : Str) (G : AnyG) (nm : Field)
    (h : readGml u .dag text = .ok (G, nm)) :
    ∃ g, G = .di g ∧ g.stillDag = true ∧ ∀ e ∈ g.edges, e.1 < e.2 := by
  obtain ⟨_, g, _, _, _, h1, _, _, _, h2⟩ := gml_reader_consistent_directed u .dag (Or.inr rfl) text G nm h
  exact ⟨g, h1, (h2 rfl).1, (h2 rfl).2.1⟩

example : readGml false .dag "graph [ directed 1 node [ id 7 ] node [ id 3 ] edge [ source 7 target 3 ] ]".toList =
    .err .valueError := by rfl
example : ∃ G nm, readGml false .dag "graph [ directed 1 node [ id 7 ] node [ id 3 ] edge [ source 3 target 7 ] ]".toList =
    .ok (G, nm) := ⟨_, _, rfl⟩
example : readGml false .digraph "graph [ node [ id 7 ] ]".toList = .err .valueError := by rfl

/-- the numbering: when the ids of the text are (distinct) integers, the vertex of a node is one more
than the number of nodes with a smaller id, i.e. the nodes are numbered `1..n` in increasing order of
their ids (`sorted()`); ids that mix integers and strings keep the order of the file (`ranks`) -/
theorem gml_numbering_sorted_ids (zs : List Int) (hn : zs.Nodup) :
    ranks (zs.map Label.int) = zs.map (fun z => zs.countP (fun y => decide (y < z)) + 1) :=
  ranks_int zs hn

example : ranks [.int 7, .int (-3), .int 10] = [2, 1, 3] := by decide
example : ranks [.int 7, .str ['a'], .int 1] = [1, 2, 3] := by decide

end Cnfgen.C14
