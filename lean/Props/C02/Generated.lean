/-
C02 — family generators on simple graphs as TRANSLATED from cnfgen/families/coloring.py and tseitin.py are the family
models (`Fam.coloring`, `Fam.evenColoring`, `Fam.tseitin`), on every graph object with the representation invariant of
`Graph` (C16).  The edge variables go through the translated `GraphEdgesVariables` (Props/C11/GeneratedGraph.lean); the
model's identifier arithmetic (`edgeId`, `upNbrs`, `loNbrs`) is proved equal to that of the auxiliary graph the source's
loop builds (Lemmas/GenAuxBip.lean, GenEdgeId.lean).
-/
import Lemmas.GenFamGraph
import Lemmas.GenEdgeId
import Props.C01.Generated
import Props.C03.GeneratedPeb
import Props.C02.Graphs1
set_option linter.unusedSimpArgs false
namespace Cnfgen.C02
open Cnfgen Cnfgen.Vars Cnfgen.PyGen Cnfgen.GenVars Cnfgen.Fam Cnfgen.PyF Cnfgen.GenFam Cnfgen.C11
open Cnfgen.GenAuxBip Cnfgen.GenEdgeId
open Cnfgen.C01 (stateOf formulaOf formulaOf_stateOf gen_non_negative_int_eq)
open Cnfgen.C03 (mapM_ok foldlM_pushAll_nv)


theorem graph_edges (G : SimpleG) : (absGraph G).edges = G.edges.map (fun e => ((e.1 : Int), (e.2 : Int))) := rfl

theorem graph_neighbors' (G : SimpleG) (v : Nat) (hv : 1 ≤ v ∧ v ≤ G.n) :
    (absGraph G).neighbors (v : Int) = Except.ok (ints (G.nbrs v)) := by
  have h : (1 : Int) ≤ (v : Int) ∧ (v : Int) ≤ (G.n : Int) := by omega
  have h' : ¬ (G.n < v) := by omega
  simp [absGraph, SimpleG.neighbors, SimpleG.nbrs, h, h', ints]

theorem umap_row_eq (s k v : Nat) : (UMap.mk s 0 k).row v = mapRow s k v := by
  simp [UMap.row, UMap.lit, UMap.var, mapRow, idx]

/-- **`GraphColoringFormula` of the source is `Fam.coloring` of the model**: every integer number of colours (negative:
the same ValueError), both values of `functional`, every graph object with the invariant -/
theorem gen_coloring_eq_model (G : SimpleG) (hG : SimpleG.Inv G) (colors : Int) (functional : Bool) :
    GraphColoringFormula (absGraph G) colors functional = (coloring G colors functional).map stateOf := by
  unfold GraphColoringFormula
  rw [coloring_validation]
  simp only [gen_non_negative_int_eq]
  by_cases hc : colors < 0
  · simp [hc]
  · obtain ⟨k, rfl⟩ := Int.eq_ofNat_of_zero_le (by omega : 0 ≤ colors)
    have hn : (absGraph G).order = (G.n : Int) := rfl
    have hneg : ¬ ((G.n : Int) < 0 ∨ (k : Int) < 0) := by omega
    simp only [hc, if_false, Py.ok_bind, hn, Py.map_ok, Int.toNat_natCast]
    rw [new_mapping_eq PyF.empty 0 rfl, if_neg hneg]
    simp only [Py.tryExcept, Py.ok_bind, Int.toNat_natCast]
    have hw := BipG.wf_complete G.n k
    rw [force_complete_unary_eq _ 0 hw, Py.ok_bind]
    have hgood := goodGraph_of_inv G hG
    have hwf := (coloring_wf G hgood k functional).1
    have hrow : ∀ v, 1 ≤ v ∧ v ≤ G.n → (SMap.mk (BipG.complete G.n k) (0 + 1)).row v = mapRow 1 k v := by
      intro v hv
      rw [smap_row_complete_start _ _ _ _ hv]
      simp [UMap.row, UMap.lit, UMap.var, mapRow, idx]
    have hl : (BipG.complete G.n k).l = G.n := rfl
    have hcomp : (SMap.mk (BipG.complete G.n k) (0 + 1)).forceComplete =
        (rangeN 1 (G.n + 1)).map (fun v => Con.clause (mapRow 1 k v)) := by
      simp only [SMap.forceComplete, hl, idx]
      apply List.map_congr_left
      intro v hv
      rw [hrow v (Fam.mem_idx.1 hv)]
    have hfun : (SMap.mk (BipG.complete G.n k) (0 + 1)).forceFunctional =
        (rangeN 1 (G.n + 1)).map (fun v => Con.lin (mapRow 1 k v) .le 1) := by
      simp only [SMap.forceFunctional, hl, idx]
      apply List.map_congr_left
      intro v hv
      rw [hrow v (Fam.mem_idx.1 hv)]
    have hstep : ∀ (body : FState → Int × Int → Except Err FState), (∀ F x, body F x = (
          (List.foldlM (fun (F : FState) (c : Int) =>
            (UnaryMappingVariables.call (unarySelf 0 (BipG.complete G.n k)) [some x.1, some c]) >>= fun r8 =>
            ((match r8 with | .inl v => Except.ok v | .inr _ => Except.error Err.typeError)) >>= fun v9 =>
            (UnaryMappingVariables.call (unarySelf 0 (BipG.complete G.n k)) [some x.2, some c]) >>= fun r10 =>
            ((match r10 with | .inl v => Except.ok v | .inr _ => Except.error Err.typeError)) >>= fun v11 =>
            (PyF.add_clause F [(-v9), (-v11)] true) >>= fun F12 =>
            Except.ok F12) F (Py.Range.toList (Py.Range.mk (1 : Int) ((k : Int) + (1 : Int))))) >>= fun F =>
          Except.ok F)) →
        ∀ (s0 : FState), s0.numvar = (((coloringF G k functional).nvars : Nat) : Int) →
        List.foldlM body s0 (absGraph G).edges =
        Except.ok { s0 with cons := s0.cons ++ G.edges.flatMap (fun e => (rangeN 1 (k + 1)).map (fun c =>
           Con.clause [-(Vars.mapId 1 k e.1 c : Int), -(Vars.mapId 1 k e.2 c : Int)])) } := by
      intro body hbody s0 hs0
      rw [Py.foldlM_ext body _ hbody]
      show List.foldlM (fun (F : FState) (x : Int × Int) =>
          (List.foldlM (fun (F : FState) (c : Int) =>
            (UnaryMappingVariables.call (unarySelf 0 (BipG.complete G.n k)) [some x.1, some c]) >>= fun r8 =>
            ((match r8 with | .inl v => Except.ok v | .inr _ => Except.error Err.typeError)) >>= fun v9 =>
            (UnaryMappingVariables.call (unarySelf 0 (BipG.complete G.n k)) [some x.2, some c]) >>= fun r10 =>
            ((match r10 with | .inl v => Except.ok v | .inr _ => Except.error Err.typeError)) >>= fun v11 =>
            (PyF.add_clause F [(-v9), (-v11)] true) >>= fun F12 =>
            Except.ok F12) F (Py.Range.toList (Py.Range.mk (1 : Int) ((k : Int) + (1 : Int))))) >>= fun F =>
          Except.ok F) s0 (absGraph G).edges =
        Except.ok { s0 with cons := s0.cons ++ G.edges.flatMap (fun e => (rangeN 1 (k + 1)).map (fun c =>
           Con.clause [-(Vars.mapId 1 k e.1 c : Int), -(Vars.mapId 1 k e.2 c : Int)])) }
      rw [graph_edges, foldlM_pushAll_nv _ _ _ (fun (x : Int × Int) => (rangeN 1 (k + 1)).map (fun c =>
        Con.clause [-(Vars.mapId 1 k x.1.toNat c : Int), -(Vars.mapId 1 k x.2.toNat c : Int)])) _ s0 hs0]
      · simp [List.flatMap_map, Function.comp_def]
      · intro s x hx hs
        simp only [List.mem_map] at hx
        obtain ⟨e, he, rfl⟩ := hx
        have her := hG.edges_range (u := e.1) (v := e.2) he
        rw [range_toList_nat, foldlM_push_nv _ (ints (rangeN 1 (k + 1))) _ (fun (c : Int) =>
          Con.clause [-(Vars.mapId 1 k e.1 c.toNat : Int), -(Vars.mapId 1 k e.2 c.toNat : Int)]) _ s hs, Py.ok_bind]
        · simp [ints, List.map_map, Function.comp_def]
        · intro s c hc' hs
          simp only [ints, List.mem_map] at hc'
          obtain ⟨c, hc', rfl⟩ := hc'
          rw [Fam.mem_rangeN] at hc'
          simp only [Int.ofNat_eq_natCast,
            unary_call_pair_complete 0 G.n k e.1 c ⟨her.1, by omega⟩ ⟨hc'.1, by omega⟩,
            unary_call_pair_complete 0 G.n k e.2 c ⟨by omega, her.2.2⟩ ⟨hc'.1, by omega⟩, Py.ok_bind,
            Int.toNat_natCast, UMap.lit, UMap.var, Nat.zero_add]
          have hm : Con.clause [-(Vars.mapId 1 k e.1 c : Int), -(Vars.mapId 1 k e.2 c : Int)] ∈
              (coloringF G k functional).cons := by
            simp only [coloringF, List.mem_append, List.mem_flatMap, List.mem_map]
            exact Or.inr ⟨e, he, c, (Fam.mem_rangeN).2 hc', rfl⟩
          exact add_clause_wf hwf s hs _ hm
    have hnv : ((0 + G.n * k : Nat) : Int) = (((coloringF G k functional).nvars : Nat) : Int) := by
      simp [coloringF]
    cases functional
    · simp only [Bool.false_eq_true, if_false, Py.ok_bind]
      rw [hstep _ (by intro F x; rfl) _ hnv]
      simp [stateOf, PyF.empty, coloringF, hcomp]
    · simp only [if_true]
      rw [force_functional_unary_eq _ 0 hw, Py.ok_bind, Py.ok_bind, hstep _ (by intro F x; rfl) _ hnv]
      simp [stateOf, PyF.empty, coloringF, hcomp, hfun]


/-! ## TseitinFormula -/

/-- the literals `[e(u, v) for u in G.neighbors(v)]` through the translated group -/
theorem tseitin_lits_call {G : SimpleG} (hG : SimpleG.Inv G) {B : BipG} (hB : graphAux G = .ok B) (v : Nat) :
    ∀ z ∈ ints (G.nbrs v),
      ((GraphEdgesVariables.call (graphSelf 0 B) [some z, some (v : Int)]) >>= fun r => Except.ok r) =
        Except.ok (Sum.inl ((edgeId G 1 z.toNat v : Nat) : Int)) := by
  intro z hz
  simp only [ints, List.mem_map] at hz
  obtain ⟨u, hu, rfl⟩ := hz
  have hwfB := (graphAux_spec hB).1
  have hlt : ∀ a b, (a, b) ∈ B.edgeset → a < b := fun a b hab => ((graphAux_mem_edgeset hG hB a b).1 hab).1
  have hr := hG.nbrs_range hu
  have hmem : (min u v, max u v) ∈ B.edgeset := by
    rw [graphAux_mem_edgeset hG hB]
    rcases Nat.lt_or_gt_of_ne hr.2.2.2.2 with hlt' | hgt
    · rw [Nat.min_eq_right (by omega), Nat.max_eq_left (by omega)]
      exact ⟨hlt', hG.mem_nbrs_comm.1 (hG.mem_nbrs_comm.2 (hG.mem_nbrs_comm.1 hu) |> fun h => hG.mem_nbrs_comm.1 h) |> fun _ => hu⟩
    · rw [Nat.min_eq_left (by omega), Nat.max_eq_right (by omega)]
      exact ⟨hgt, hG.mem_nbrs_comm.1 hu⟩
  rw [Int.ofNat_eq_natCast, graph_call_pair 0 hwfB hlt u v hmem, Py.ok_bind, Int.toNat_natCast, Nat.zero_add]
  have := graphAux_bipId_edgeId_of_mem hG hB 1 hu
  rw [Nat.min_comm, Nat.max_comm] at this
  rw [this, edgeId_comm]

/-- the loop of `TseitinFormula` over the vertices and the (already padded) charges -/
theorem gen_tseitin_core (G : SimpleG) (hG : SimpleG.Inv G) (ch : Option (List Bool)) {B : BipG}
    (hB : graphAux G = .ok B) (body : FState → Int × Bool → Except Err FState)
    (hbody : ∀ tse x, body tse x = (
      ((absGraph G).neighbors x.1) >>= fun o8 =>
      (List.mapM (fun (z9 : Int) => (GraphEdgesVariables.call (graphSelf 0 B) [(some z9), (some x.1)]) >>= fun r10 =>
        Except.ok r10) o8) >>= fun l11 =>
      (PyF.lits l11) >>= fun ls12 =>
      (PyF.add_parity tse ls12 (if x.2 = true then (1 : Int) else (0 : Int)) true) >>= fun tse13 =>
      Except.ok tse13)) :
    List.foldlM body ⟨((0 + B.numberOfEdges : Nat) : Int), PyF.empty.cons⟩
        (List.zip (Py.Range.toList (absGraph G).vertices) (charges G.n ch)) =
      Except.ok (stateOf (tseitin G ch)) := by
  rw [Py.foldlM_ext body _ hbody]
  have hgood := goodGraph_of_inv G hG
  have hwf := Fam.tseitin_wf G hgood ch
  have hnum := graphAux_numberOfEdges_edges hG hB
  have hnv : ((0 + B.numberOfEdges : Nat) : Int) = (((tseitin G ch).nvars : Nat) : Int) := by
    simp [tseitin, hnum]
  have hverts : Py.Range.toList (absGraph G).vertices = ints (rangeN 1 (G.n + 1)) := range_toList_nat G.n
  have hzip : List.zip (ints (rangeN 1 (G.n + 1))) (charges G.n ch) =
      ((rangeN 1 (G.n + 1)).zip (charges G.n ch)).map (fun p => ((p.1 : Int), p.2)) := by
    simp [ints, List.zip_map_left]
  rw [hverts, hzip, foldlM_push_nv (((tseitin G ch).nvars : Nat) : Int) _ _
    (fun (x : Int × Bool) => Con.parity (tseitinLits G x.1.toNat) (if x.2 then 1 else 0)) _ _ hnv]
  · simp [stateOf, PyF.empty, tseitin, List.map_map, Function.comp_def, hnum]
  · intro s x hx hs
    simp only [List.mem_map] at hx
    obtain ⟨p, hp, rfl⟩ := hx
    have hp1 := Fam.mem_rangeN.1 (List.of_mem_zip hp).1
    simp only [graph_neighbors' G p.1 ⟨hp1.1, by omega⟩, Py.ok_bind]
    rw [mapM_ok (fun (z9 : Int) => (GraphEdgesVariables.call (graphSelf 0 B) [(some z9), (some (p.1 : Int))]) >>= fun r10 =>
        Except.ok r10) (fun z => Sum.inl ((edgeId G 1 z.toNat p.1 : Nat) : Int)) (ints (G.nbrs p.1))
      (tseitin_lits_call hG hB p.1), Py.ok_bind]
    have hl : List.map (fun (z : Int) => (Sum.inl ((edgeId G 1 z.toNat p.1 : Nat) : Int) : Sum Int (List Int)))
        (ints (G.nbrs p.1)) = (tseitinLits G p.1).map Sum.inl := by
      simp [tseitinLits, ints, List.map_map, Function.comp_def]
    rw [hl, lits_inl, Py.ok_bind]
    have hm : Con.parity (tseitinLits G p.1) (if p.2 then 1 else 0) ∈ (tseitin G ch).cons := by
      simp only [tseitin, List.mem_map]
      exact ⟨p, hp, rfl⟩
    have := add_parity_wf hwf s hs _ _ hm
    simpa [Int.toNat_natCast] using this

/-- **`TseitinFormula` of the source is `Fam.tseitin` of the model**: default charge, explicit charges (padded or cut to the
number of vertices), on every graph object with the invariant -/
theorem gen_tseitin_eq_model (G : SimpleG) (hG : SimpleG.Inv G) (ch : Option (List Bool)) :
    TseitinFormula (absGraph G) ch = Except.ok (stateOf (tseitin G ch)) := by
  obtain ⟨B, hB⟩ := graphAux_ok G hG
  unfold TseitinFormula
  have hn : (absGraph G).order = (G.n : Int) := rfl
  have h1 : ((G.n : Int) - 1).toNat = G.n - 1 := by omega
  cases ch with
  | none =>
    have hch : (if Py.len ([true] ++ List.replicate (G.n - 1) false) < (G.n : Int) then
        [true] ++ List.replicate (G.n - 1) false ++
          List.replicate ((G.n : Int) - Py.len ([true] ++ List.replicate (G.n - 1) false)).toNat false
        else [true] ++ List.replicate (G.n - 1) false) = charges G.n none := by
      simp only [charges, padCharges, Py.len_eq, List.singleton_append, List.length_cons, List.length_replicate]
      have : ¬ (((G.n - 1 + 1 : Nat) : Int) < (G.n : Int)) := by omega
      have h' : ¬ (G.n - 1 + 1 < G.n) := by omega
      rw [if_neg this, if_neg h']
    simp only [hn, h1, hch]
    rw [new_graph_edges_eq PyF.empty 0 rfl hB]
    simp only [Py.ok_bind]
    rw [gen_tseitin_core G hG none hB _ (by intro tse x; rfl), Py.ok_bind]
  | some c =>
    have hch : (if Py.len (List.map (fun (z : Bool) => z) c) < (G.n : Int) then
        List.map (fun (z : Bool) => z) c ++
          List.replicate ((G.n : Int) - Py.len (List.map (fun (z : Bool) => z) c)).toNat false
        else List.map (fun (z : Bool) => z) c) = charges G.n (some c) := by
      simp only [charges, padCharges, List.map_id', Py.len_eq]
      by_cases hlt : c.length < G.n
      · have : ((c.length : Nat) : Int) < (G.n : Int) := by omega
        have h2 : ((G.n : Int) - (c.length : Int)).toNat = G.n - c.length := by omega
        rw [if_pos this, if_pos hlt, h2]
      · have : ¬ (((c.length : Nat) : Int) < (G.n : Int)) := by omega
        rw [if_neg this, if_neg hlt]
    simp only [hn, hch]
    rw [new_graph_edges_eq PyF.empty 0 rfl hB]
    simp only [Py.ok_bind]
    rw [gen_tseitin_core G hG (some c) hB _ (by intro tse x; rfl), Py.ok_bind]


/-! ## EvenColoringFormula -/

theorem graph_degree (G : SimpleG) (v : Nat) (hv : 1 ≤ v ∧ v ≤ G.n) :
    (absGraph G).degree (v : Int) = Except.ok (((G.nbrs v).length : Nat) : Int) := by
  have h : (1 : Int) ≤ (v : Int) ∧ (v : Int) ≤ (G.n : Int) := by omega
  have h' : ¬ (G.n < v) := by omega
  simp [absGraph, SimpleG.degree, SimpleG.neighbors, SimpleG.nbrs, h, h', bind, Except.bind, pure, Except.pure]

/-- the body of the loop of `EvenColoringFormula` on a vertex of even degree -/
theorem even_body_ok {G : SimpleG} (hG : SimpleG.Inv G) {B : BipG} (hB : graphAux G = .ok B) (s : FState)
    (hs : s.numvar = (((evenColoringF G).nvars : Nat) : Int)) (v : Nat) (hv : 1 ≤ v ∧ v ≤ G.n)
    (heven : (G.nbrs v).length % 2 = 0) :
    (((absGraph G).degree (v : Int)) >>= fun o2 =>
      (Py.mod o2 (2 : Int)) >>= fun r3 =>
      if (r3 = (1 : Int)) then Except.error Err.valueError
      else
        (GraphEdgesVariables.indices (graphSelf 0 B) [(some (v : Int)), (none : (Option Int))]) >>= fun r5 =>
        (List.mapM (fun (z6 : (Int × Int)) => (GraphEdgesVariables.call (graphSelf 0 B) [(some z6.1), (some z6.2)]) >>= fun r7 =>
          Except.ok r7) r5) >>= fun l8 =>
        (Py.floordiv (Py.len l8) (2 : Int)) >>= fun q9 =>
        (PyF.lits l8) >>= fun ls10 =>
        (PyF.cardinality_eq s ls10 q9 true) >>= fun F11 =>
        Except.ok F11) =
      Except.ok (push s (Con.lin (incidentLits G v) .eq ((incidentLits G v).length / 2 : Nat))) := by
  have hwfB := (graphAux_spec hB).1
  have hl : B.l = G.n := (graphAux_spec hB).2.1
  have hr : B.r = G.n := (graphAux_spec hB).2.2.1
  have hlt : ∀ a b, (a, b) ∈ B.edgeset → a < b := fun a b hab => ((graphAux_mem_edgeset hG hB a b).1 hab).1
  have hgood := goodGraph_of_inv G hG
  have h2 : (2 : Int) = ((2 : Nat) : Int) := rfl
  rw [graph_degree G v hv, Py.ok_bind, h2, Py.mod_nat _ 2 (by omega), Py.ok_bind, heven]
  have h01 : ¬ (((0 : Nat) : Int) = 1) := by omega
  rw [if_neg h01, graph_indices_row 0 hwfB hlt v ⟨⟨hv.1, by omega⟩, ⟨hv.1, by omega⟩⟩, Py.ok_bind,
    graphAux_lnbrs_loNbrs hG hB, graphAux_rnbrs_upNbrs hG hB]
  have hpairs : (loNbrs G v).map (fun u => (u, v)) ++ (upNbrs G v).map (fun x => (v, x)) = incidentPairs G v := by
    unfold incidentPairs
    congr 2
    symm
    rw [List.filter_eq_self]
    intro a ha
    have := ((mem_upNbrs hgood).1 ha).1
    simp; omega
  rw [hpairs]
  rw [mapM_ok (fun (z6 : (Int × Int)) => (GraphEdgesVariables.call (graphSelf 0 B) [(some z6.1), (some z6.2)]) >>= fun r7 =>
      Except.ok r7) (fun z => Sum.inl ((edgeId G 1 z.1.toNat z.2.toNat : Nat) : Int)) (intPairs (incidentPairs G v)) (by
    intro z hz
    simp only [intPairs, List.mem_map] at hz
    obtain ⟨p, hp, rfl⟩ := hz
    have hadj : p.2 ∈ G.nbrs p.1 := by
      rw [← hpairs, List.mem_append, List.mem_map, List.mem_map] at hp
      rcases hp with ⟨u, hu, rfl⟩ | ⟨x, hx, rfl⟩
      · rw [← graphAux_lnbrs_loNbrs hG hB] at hu
        have := (graphAux_mem_edgeset hG hB u v).1 ((hwfB.mem_col _ _).1 hu)
        exact this.2
      · rw [← graphAux_rnbrs_upNbrs hG hB] at hx
        have := (graphAux_mem_edgeset hG hB v x).1 ((hwfB.mem_row _ _).1 hx)
        exact this.2
    have hrng := hG.nbrs_range hadj
    have hmem : (min p.1 p.2, max p.1 p.2) ∈ B.edgeset := by
      rw [graphAux_mem_edgeset hG hB]
      rcases Nat.lt_or_gt_of_ne hrng.2.2.2.2 with hlt' | hgt
      · rw [Nat.min_eq_left (by omega), Nat.max_eq_right (by omega)]; exact ⟨hlt', hadj⟩
      · rw [Nat.min_eq_right (by omega), Nat.max_eq_left (by omega)]; exact ⟨hgt, hG.mem_nbrs_comm.1 hadj⟩
    rw [graph_call_pair 0 hwfB hlt p.1 p.2 hmem, Py.ok_bind, Int.toNat_natCast, Int.toNat_natCast, Nat.zero_add,
      graphAux_bipId_edgeId_of_mem hG hB 1 hadj]), Py.ok_bind]
  have hlits : List.map (fun (z : Int × Int) => (Sum.inl ((edgeId G 1 z.1.toNat z.2.toNat : Nat) : Int) : Sum Int (List Int)))
      (intPairs (incidentPairs G v)) = (incidentLits G v).map Sum.inl := by
    simp [incidentLits, intPairs, List.map_map, Function.comp_def]
  rw [hlits]
  have hlen : Py.len ((incidentLits G v).map (Sum.inl : Int → Sum Int (List Int))) =
      (((incidentLits G v).length : Nat) : Int) := by simp
  rw [hlen, Py.floordiv_nat _ 2 (by omega), Py.ok_bind, lits_inl, Py.ok_bind]
  have hwf := evenColoringF_wf G hgood
  have hm : Con.lin (incidentLits G v) .eq ((incidentLits G v).length / 2 : Nat) ∈ (evenColoringF G).cons := by
    simp only [evenColoringF, List.mem_map]
    exact ⟨v, Fam.mem_rangeN.2 ⟨hv.1, by omega⟩, rfl⟩
  exact cardinality_eq_wf hwf s hs _ _ hm


theorem first_true {α : Type} (p : α → Bool) : ∀ (l : List α), l.any p = true →
    ∃ pre x post, l = pre ++ x :: post ∧ p x = true ∧ ∀ y ∈ pre, p y = false
  | [], h => by simp at h
  | a :: l, h => by
    by_cases ha : p a = true
    · exact ⟨[], a, l, rfl, ha, by simp⟩
    · have hl : l.any p = true := by simpa [List.any_cons, ha] using h
      obtain ⟨pre, x, post, rfl, hx, hpre⟩ := first_true p l hl
      refine ⟨a :: pre, x, post, rfl, hx, ?_⟩
      intro y hy
      rcases List.mem_cons.1 hy with rfl | hy
      · simpa using ha
      · exact hpre y hy

/-- **`EvenColoringFormula` of the source is `Fam.evenColoring` of the model**: the same ValueError when some vertex has
odd degree (raised at the first such vertex), otherwise "exactly half of the incident edges" at every vertex -/
theorem gen_evenColoring_eq_model (G : SimpleG) (hG : SimpleG.Inv G) :
    EvenColoringFormula (absGraph G) = (evenColoring G).map stateOf := by
  obtain ⟨B, hB⟩ := graphAux_ok G hG
  unfold EvenColoringFormula
  simp only []
  rw [new_graph_edges_eq PyF.empty 0 rfl hB]
  simp only [Py.ok_bind]
  have hnum := graphAux_numberOfEdges_edges hG hB
  have hnv : ((0 + B.numberOfEdges : Nat) : Int) = (((evenColoringF G).nvars : Nat) : Int) := by
    simp [evenColoringF, hnum]
  have hverts : Py.Range.toList (absGraph G).vertices = ints (rangeN 1 (G.n + 1)) := range_toList_nat G.n
  rw [hverts, Py.foldlM_ext _ (fun (s : FState) (x : Int) =>
    (((absGraph G).degree x) >>= fun o2 =>
      (Py.mod o2 (2 : Int)) >>= fun r3 =>
      if (r3 = (1 : Int)) then Except.error Err.valueError
      else
        (GraphEdgesVariables.indices (graphSelf 0 B) [(some x), (none : (Option Int))]) >>= fun r5 =>
        (List.mapM (fun (z6 : (Int × Int)) => (GraphEdgesVariables.call (graphSelf 0 B) [(some z6.1), (some z6.2)]) >>= fun r7 =>
          Except.ok r7) r5) >>= fun l8 =>
        (Py.floordiv (Py.len l8) (2 : Int)) >>= fun q9 =>
        (PyF.lits l8) >>= fun ls10 =>
        (PyF.cardinality_eq s ls10 q9 true) >>= fun F11 =>
        Except.ok F11)) (by intro s a; rfl)]
  unfold evenColoring
  by_cases hany : (rangeN 1 (G.n + 1)).any (fun v => (G.nbrs v).length % 2 == 1) = true
  · rw [if_pos hany]
    obtain ⟨pre, x, post, hsplit, hx, hpre⟩ := first_true _ _ hany
    have hmem : ∀ y, y ∈ pre ++ x :: post → 1 ≤ y ∧ y ≤ G.n := by
      intro y hy
      rw [← hsplit] at hy
      have := Fam.mem_rangeN.1 hy
      omega
    rw [hsplit, ints, List.map_append, List.map_cons]
    rw [foldlM_error_at (((evenColoringF G).nvars : Nat) : Int) (pre.map Int.ofNat) (Int.ofNat x) (post.map Int.ofNat) _
      (fun (v : Int) => Con.lin (incidentLits G v.toNat) .eq ((incidentLits G v.toNat).length / 2 : Nat)) Err.valueError
      _ _ _ hnv]
    · rfl
    · intro s y hy hs
      simp only [List.mem_map] at hy
      obtain ⟨v, hv, rfl⟩ := hy
      have hv' := hmem v (by simp [hv])
      have heven : (G.nbrs v).length % 2 = 0 := by
        have := hpre v hv
        simp only [beq_eq_false_iff_ne, ne_eq] at this
        omega
      simpa using even_body_ok hG hB s hs v hv' heven
    · intro s hs
      have hx' := hmem x (by simp)
      have hodd : (G.nbrs x).length % 2 = 1 := by simpa using hx
      have h2 : (2 : Int) = ((2 : Nat) : Int) := rfl
      simp only [Int.ofNat_eq_natCast]
      rw [graph_degree G x hx', Py.ok_bind, h2, Py.mod_nat _ 2 (by omega), Py.ok_bind, hodd]
      rfl
  · rw [if_neg hany]
    rw [foldlM_push_nv (((evenColoringF G).nvars : Nat) : Int) (ints (rangeN 1 (G.n + 1))) _
      (fun (v : Int) => Con.lin (incidentLits G v.toNat) .eq ((incidentLits G v.toNat).length / 2 : Nat)) _ _ hnv]
    · simp [stateOf, PyF.empty, evenColoringF, ints, List.map_map, Function.comp_def, hnum]
    · intro s y hy hs
      simp only [ints, List.mem_map] at hy
      obtain ⟨v, hv, rfl⟩ := hy
      have hv' := Fam.mem_rangeN.1 hv
      have heven : (G.nbrs v).length % 2 = 0 := by
        have hf : ¬ ((G.nbrs v).length % 2 == 1) = true := by
          intro hc; exact hany (List.any_eq_true.2 ⟨v, hv, hc⟩)
        simp only [beq_iff_eq] at hf
        omega
      simpa using even_body_ok hG hB s hs v ⟨hv'.1, by omega⟩ heven


/-! ## headlines on the generated definitions -/

/-- **the Tseitin formula of the source** on every graph object built by `add_edge` and every charge vector: one variable
per edge; an assignment satisfies it (abstract constraints, CNF, OPB) iff at every vertex the xor of the incident edge
variables is the charge; and it is satisfiable iff every connected component carries an even number of odd charges -/
theorem gen_tseitin_spec (G : SimpleG) (hG : SimpleG.Inv G) (ch : Option (List Bool)) :
    ∃ s : FState, TseitinFormula (absGraph G) ch = Except.ok s ∧ s.numvar = ((G.m : Nat) : Int) ∧
      (∀ α, ((formulaOf s).holds α = true ↔ TseitinSpec G ch α) ∧
        ((formulaOf s).toCNF.holds α = true ↔ TseitinSpec G ch α) ∧
        ((formulaOf s).toOPB.holds α = true ↔ TseitinSpec G ch α)) ∧
      ((∃ α, (formulaOf s).holds α = true) ↔
        ∀ C : Nat → Bool, (∀ v u, C v = true → u ∈ G.nbrs v → C u = true) →
          Even ((Finset.Icc 1 G.n).filter (fun v => C v = true ∧ chargeAt G.n ch v = true)).card) := by
  have hgood := goodGraph_of_inv G hG
  refine ⟨stateOf (tseitin G ch), gen_tseitin_eq_model G hG ch, ?_, ?_, ?_⟩
  · have := (tseitin_wf G hgood ch).2
    simp only [stateOf]; exact_mod_cast this
  · intro α
    rw [formulaOf_stateOf]
    exact ⟨tseitin_holds G ch α, tseitin_cnf G hgood ch α, tseitin_opb G hgood ch α⟩
  · rw [formulaOf_stateOf]
    exact tseitin_sat_iff G hgood ch

/-- **the k-colouring formula of the source**: `n·k` variables; satisfiable (abstract constraints) iff the graph has a
proper `k`-colouring; the renderings have the documented models -/
theorem gen_coloring_spec (G : SimpleG) (hG : SimpleG.Inv G) (k : Nat) (fn : Bool) :
    ∃ s : FState, GraphColoringFormula (absGraph G) (k : Int) fn = Except.ok s ∧
      s.numvar = ((G.n * k : Nat) : Int) ∧
      (∀ α, ((formulaOf s).holds α = true ↔ ColoringSpec G k fn α) ∧
        ((formulaOf s).toCNF.holds α = true ↔ ColoringSpec G k fn α) ∧
        ((formulaOf s).toOPB.holds α = true ↔ ColoringSpec G k fn α)) ∧
      ((∃ α, (formulaOf s).holds α = true) ↔ ∃ col, ProperColoring G k col) := by
  have hgood := goodGraph_of_inv G hG
  refine ⟨stateOf (coloringF G k fn), ?_, rfl, ?_, ?_⟩
  · rw [gen_coloring_eq_model G hG, coloring_validation]
    have : ¬ ((k : Int) < 0) := by omega
    simp [this]
  · intro α
    rw [formulaOf_stateOf]
    exact ⟨coloring_holds G k fn α, coloring_cnf G hgood k fn α, coloring_opb G hgood k fn α⟩
  · rw [formulaOf_stateOf]
    exact coloring_sat_iff G hgood k fn

/-- **the even colouring formula of the source**: refused (ValueError) exactly when some vertex has odd degree; otherwise
the models are the edge colourings with exactly half of the edges at every vertex true -/
theorem gen_evenColoring_spec (G : SimpleG) (hG : SimpleG.Inv G) :
    ((∃ s, EvenColoringFormula (absGraph G) = Except.ok s) ↔ ∀ v, 1 ≤ v → v ≤ G.n → (G.nbrs v).length % 2 = 0) ∧
    (∀ s, EvenColoringFormula (absGraph G) = Except.ok s → s.numvar = ((G.m : Nat) : Int) ∧
      ∀ α, ((formulaOf s).holds α = true ↔ EvenColoringSpec G α) ∧
        ((formulaOf s).toCNF.holds α = true ↔ EvenColoringSpec G α) ∧
        ((formulaOf s).toOPB.holds α = true ↔ EvenColoringSpec G α)) ∧
    (∀ e, EvenColoringFormula (absGraph G) = Except.error e → e = Err.valueError) := by
  have hgood := goodGraph_of_inv G hG
  have hval := evenColoring_validation G
  rw [gen_evenColoring_eq_model G hG]
  refine ⟨?_, ?_, ?_⟩
  · rw [← hval.1]
    constructor
    · rintro ⟨s, hs⟩
      cases hF : evenColoring G with
      | error e => rw [hF] at hs; cases hs
      | ok F => exact ⟨F, rfl⟩
    · rintro ⟨F, hF⟩; exact ⟨stateOf F, by rw [hF]; rfl⟩
  · intro s hs
    cases hF : evenColoring G with
    | error e => rw [hF] at hs; cases hs
    | ok F =>
      rw [hF] at hs
      have hFe := hval.2.1 F hF
      subst hFe
      have hs' : s = stateOf (evenColoringF G) := (Except.ok.inj hs).symm
      subst hs'
      refine ⟨?_, ?_⟩
      · have := (evenColoring_wf G hgood).2
        simp only [stateOf]; exact_mod_cast this
      · intro α
        rw [formulaOf_stateOf]
        exact ⟨evenColoring_holds G hgood α, evenColoring_cnf G hgood α, evenColoring_opb G hgood α⟩
  · intro e he
    cases hF : evenColoring G with
    | error e' =>
      rw [hF] at he
      have : e' = e := Except.error.inj he
      rw [← this]; exact hval.2.2 e' hF
    | ok F => rw [hF] at he; cases he

end Cnfgen.C02
