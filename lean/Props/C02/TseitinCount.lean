/-
C02 — the model count of the Tseitin formula.

"Where the documented variables are exactly the witness, the number of satisfying assignments
equals the number of witnesses (e.g. 2^(|E|-|V|+components) for a satisfiable Tseitin formula)".

Objects (all in `Lemmas/FamTseitinCount.lean`):
* `EdgeVec G` = assignments of the edge variables `1..|E|` (functions on the subtype
  `{e // e ∈ Finset.Icc 1 G.m}`); `extE` extends one by `false` to an `Assign`, `resE` restricts.
  The formula only reads these variables (`tseitin_reads_edge_variables`).
* `Reach G` = `Relation.ReflTransGen (Step G)`, the reachability relation used by the proof of
  `tseitin_sat_iff`; `rep G v` = the least vertex reachable from `v`; `reps G` = the vertices
  `r ∈ 1..n` with `rep G r = r`; `components G = (reps G).card`.  `components_spec` ties this to
  the reachability relation and to the closed vertex sets of `TseitinSatIff`.
* exponent: `G.m + components G - G.n`, with `G.n ≤ G.m + components G` proved
  (`tseitin_cyclomatic_le`), i.e. `|E| - |V| + c` without truncation.

Proof: two applications of "a xor-linear map has `2^dim = |kernel| · |image|`" —
to the boundary map `bdry` (its image is characterised by `tseitin_sat_iff`) and to the
component-parity map `compPar` (which is onto).
-/
import Lemmas.FamTseitinCount
namespace Cnfgen.C02
open Cnfgen Cnfgen.Fam

/-- the formula only reads the edge variables `1..|E|`: an assignment and its restriction
(extended by `false`) agree on it -/
theorem tseitin_reads_edge_variables (G : SimpleG) (hG : GoodGraph G) (ch : Option (List Bool))
    (α : Assign) :
    (tseitin G ch).holds (extE G (resE G α)) = (tseitin G ch).holds α := by
  rw [Bool.eq_iff_iff, tseitin_holds_iff, tseitin_holds_iff]
  exact spec_resE hG ch α

/-- What `components G` counts.  (1) it is the number of representatives; (2) a representative is
a vertex of `1..n` from which no smaller vertex can be reached; (3) every vertex reaches exactly
one representative, so representatives correspond to the classes of mutual reachability;
(4) reachability is symmetric; (5) the class of a representative, as a vertex set, is closed
under adjacency — one of the sets `C` quantified over in `TseitinSatIff` — and consists exactly
of the vertices reachable from it; (6) every closed set containing `r` contains that class. -/
theorem components_spec (G : SimpleG) (hG : GoodGraph G) :
    components G = (reps G).card ∧
    (∀ r, r ∈ reps G ↔ (1 ≤ r ∧ r ≤ G.n) ∧ ∀ u, Reach G r u → r ≤ u) ∧
    (∀ v, 1 ≤ v → v ≤ G.n → ∃ r, (r ∈ reps G ∧ Reach G v r) ∧
      ∀ r', r' ∈ reps G ∧ Reach G v r' → r' = r) ∧
    (∀ a b, Reach G a b → Reach G b a) ∧
    (∀ r ∈ reps G,
      (∀ v u, compSet G r v = true → u ∈ G.nbrs v → compSet G r u = true) ∧
      (∀ v, compSet G r v = true ↔ Reach G r v)) ∧
    (∀ r, ∀ C : Nat → Bool, (∀ v u, C v = true → u ∈ G.nbrs v → C u = true) → C r = true →
      ∀ v, Reach G r v → C v = true) := by
  refine ⟨rfl, fun r => mem_reps_iff_min, ?_, fun a b h => reach_symm hG h, ?_, ?_⟩
  · intro v h1 h2
    refine ⟨rep G v, ⟨rep_mem_reps hG ⟨h1, h2⟩, rep_reach v⟩, ?_⟩
    rintro r' ⟨hr', hreach⟩
    rw [rep_congr hG hreach]
    exact ((mem_reps.1 hr').2).symm
  · intro r hr
    exact ⟨compSet_closed hG r, compSet_iff_reach hG hr⟩
  · intro r C hC hr v h
    exact closed_reach C hC h hr

/-- `|V| ≤ |E| + c`: the exponent `|E| + c - |V|` below is the cyclomatic number `|E| - |V| + c`,
no truncated subtraction is involved; and `c ≤ |V|` -/
theorem tseitin_cyclomatic_le (G : SimpleG) (hG : GoodGraph G) :
    G.n ≤ G.m + components G ∧ components G ≤ G.n :=
  ⟨vertices_le_edges_add_components hG, components_le G⟩

/-- T-C02.1e the solution set is a coset of the cycle space, as an explicit bijection: if `x₀` is
a model then `x ↦ x xor x₀` maps the models (over the edge variables) onto the edge sets with all
degrees even, and is its own inverse. -/
theorem tseitin_solutions_coset (G : SimpleG) (ch : Option (List Bool)) (x₀ : EdgeVec G)
    (h₀ : (tseitin G ch).holds (extE G x₀) = true) :
    (∀ x : EdgeVec G, (tseitin G ch).holds (extE G x) = true →
      ∀ v, 1 ≤ v → v ≤ G.n → vcount G (extE G (bxor x x₀)) v % 2 = 0) ∧
    (∀ y : EdgeVec G, (∀ v, 1 ≤ v → v ≤ G.n → vcount G (extE G y) v % 2 = 0) →
      (tseitin G ch).holds (extE G (bxor y x₀)) = true) ∧
    (∀ x : EdgeVec G, bxor (bxor x x₀) x₀ = x) := by
  have s₀ := (tseitin_holds_iff G ch _).1 h₀
  refine ⟨fun x hx v h1 h2 => ?_, fun y hy => ?_, fun x => bxor_cancel x x₀⟩
  · have sx := (tseitin_holds_iff G ch _).1 hx
    have a := sx v h1 h2
    have b := s₀ v h1 h2
    change vcount G _ v % 2 = _ at a b
    rw [vcount_bxor]
    generalize (if chargeAt G.n ch v = true then 1 else 0) = k at a b
    omega
  · rw [tseitin_holds_iff]
    intro v h1 h2
    have a := hy v h1 h2
    have b := s₀ v h1 h2
    change vcount G _ v % 2 = _ at b
    change vcount G _ v % 2 = _
    rw [vcount_bxor]
    generalize (if chargeAt G.n ch v = true then 1 else 0) = k at b ⊢
    omega

/-- T-C02.1f the cycle space: the number of edge sets in which every vertex has even degree is
`2^(|E| - |V| + c)` -/
theorem tseitin_cycle_space_count (G : SimpleG) (hG : GoodGraph G) :
    Fintype.card {y : EdgeVec G // ∀ v : VertIdx G, vcount G (extE G y) v.1 % 2 = 0} =
      2 ^ (G.m + components G - G.n) := by
  rw [Fintype.card_subtype, ← kernel_card hG]
  congr 1
  apply Finset.filter_congr
  intro y _
  constructor
  · intro h
    funext v
    simp [bdry, bzero, h v]
  · intro h v
    have := congrFun h v
    simp only [bdry, bzero, decide_eq_false_iff_not] at this
    omega

/-- **T-C02.1g the model count.**  For every good graph and every charge vector for which the
formula is satisfiable, the number of satisfying assignments of the edge variables `1..|E|` is
`2^(|E| - |V| + c)`, `c = components G` the number of connected components. -/
theorem tseitin_model_count (G : SimpleG) (hG : GoodGraph G) (ch : Option (List Bool))
    (hsat : ∃ α, (tseitin G ch).holds α = true) :
    Fintype.card {x : EdgeVec G // (tseitin G ch).holds (extE G x) = true} =
      2 ^ (G.m + components G - G.n) := by
  obtain ⟨α, hα⟩ := hsat
  have h₀ : bdry G (resE G α) = chV G ch :=
    (spec_iff_bdry ch _).1 ((spec_resE hG ch α).2 ((tseitin_holds_iff G ch α).1 hα))
  rw [Fintype.card_subtype, ← fiber_card hG (resE G α)]
  congr 1
  apply Finset.filter_congr
  intro x _
  rw [tseitin_holds_iff, spec_iff_bdry, h₀]

/-- the same count with the documented criterion as hypothesis, and `0` otherwise: the number of
models is `2^(|E|-|V|+c)` if every closed vertex set has an even number of odd-charged vertices,
and there is no model if some closed set has an odd number -/
theorem tseitin_model_count_iff (G : SimpleG) (hG : GoodGraph G) (ch : Option (List Bool)) :
    ((∀ C : Nat → Bool, (∀ v u, C v = true → u ∈ G.nbrs v → C u = true) →
        Even ((Finset.Icc 1 G.n).filter (fun v => C v = true ∧ chargeAt G.n ch v = true)).card) →
      Fintype.card {x : EdgeVec G // (tseitin G ch).holds (extE G x) = true} =
        2 ^ (G.m + components G - G.n)) ∧
    ((∃ C : Nat → Bool, (∀ v u, C v = true → u ∈ G.nbrs v → C u = true) ∧
        ¬ Even ((Finset.Icc 1 G.n).filter (fun v => C v = true ∧ chargeAt G.n ch v = true)).card) →
      Fintype.card {x : EdgeVec G // (tseitin G ch).holds (extE G x) = true} = 0) := by
  constructor
  · intro h
    obtain ⟨α, hα⟩ := tseitin_converse hG ch h
    exact tseitin_model_count G hG ch ⟨α, (tseitin_holds_iff G ch α).2 hα⟩
  · rintro ⟨C, hC, hodd⟩
    rw [Fintype.card_eq_zero_iff]
    constructor
    rintro ⟨x, hx⟩
    exact hodd (tseitin_parity G hG ch _ ((tseitin_holds_iff G ch _).1 hx) C hC)

/-- non-vacuity: `exG` (triangle 1-2-3, edge 4-5, isolated 6; 4 edges, 6 vertices, 3 components)
with odd charges on the vertices 1 and 2 is satisfiable (edge variable 1 = the edge 1-2), and has
exactly `2^(4+3-6) = 2` models (the edge 1-2, or the path 1-3-2); with the default charges (odd on
vertex 1 only) it has none -/
example : (∃ α, (tseitin exG (some [true, true])).holds α = true) ∧
    Fintype.card {x : EdgeVec exG // (tseitin exG (some [true, true])).holds (extE exG x) = true} = 2 ∧
    Fintype.card {x : EdgeVec exG // (tseitin exG none).holds (extE exG x) = true} = 0 := by
  have hsat : ∃ α, (tseitin exG (some [true, true])).holds α = true :=
    ⟨fun i => i == 1, by decide⟩
  refine ⟨hsat, ?_, ?_⟩
  · rw [tseitin_model_count exG exG_good _ hsat, exG_components]; rfl
  · apply (tseitin_model_count_iff exG exG_good none).2
    exact ⟨fun v => decide (v ≤ 3), exG_triangle_closed, by decide⟩

end Cnfgen.C02
