/-
C02 (second half) — graph isomorphism / automorphism, (induced) subgraph, k-clique (unary and binary,
with and without symmetry breaking), Ramsey witness: the formula holds under an assignment exactly
when the assignment encodes the documented witness.
Property theorems only; helper lemmas are in `Lemmas/Fam*.lean`.
-/
import Lemmas.FamIso
import Lemmas.FamSubgraph
import Lemmas.FamRamseyWitness
import Lemmas.FamBinary
import Lemmas.FamCount
import Lemmas.Constr
namespace Cnfgen.C02
open Cnfgen Cnfgen.Fam.G2 Vars

/-- `i` is a vertex of a graph of order `n` (vertices are `1 … n`) -/
def V (n i : Nat) : Prop := 1 ≤ i ∧ i ≤ n

/-- the relation `i ↦ j` that `α` induces through the mapping variables (first identifier `st`,
range of size `N`): the documented meaning of `x_{i,j}` / `s_{i,j}` -/
def Rel (st N : Nat) (α : Assign) (i j : Nat) : Prop := α (mapId st N i j) = true

/-! ## T-C02.4 graph isomorphism -/

/-- the relation induced by `α` is a bijection `V₁ → V₂` preserving edges and non-edges -/
def IsoSpec (G1 G2 : SimpleG) (α : Assign) : Prop :=
  (∀ i, V G1.n i → ∃ j, V G2.n j ∧ Rel 1 G2.n α i j ∧ ∀ j', V G2.n j' → Rel 1 G2.n α i j' → j' = j) ∧
  (∀ j, V G2.n j → ∃ i, V G1.n i ∧ Rel 1 G2.n α i j ∧ ∀ i', V G1.n i' → Rel 1 G2.n α i' j → i' = i) ∧
  (∀ i i' j j', V G1.n i → V G1.n i' → V G2.n j → V G2.n j' →
      Rel 1 G2.n α i j → Rel 1 G2.n α i' j' → adj G1 i i' = adj G2 j j')

theorem graphIsomorphism_nvars (G1 G2 : SimpleG) : (graphIsomorphism G1 G2).nvars = G1.n * G2.n := rfl

theorem graphIsomorphism_wf (G1 G2 : SimpleG) : (graphIsomorphism G1 G2).WF :=
  wf_of_consIn (graphIsomorphism_consIn G1 G2)

/-- specification theorem: for all graphs and all assignments -/
theorem graphIsomorphism_holds (G1 G2 : SimpleG) (h1 : GoodGraph G1) (h2 : GoodGraph G2) (α : Assign) :
    (graphIsomorphism G1 G2).holds α = true ↔ IsoSpec G1 G2 α := by
  simp only [Formula.holds, graphIsomorphism, List.all_append, Bool.and_eq_true, List.all_eq_true]
  rw [forceComplete_holds α _ _ (Nat.le_refl 1), forceSurjective_holds α _ _ (Nat.le_refl 1),
    forceFunctional_holds α _ _ (Nat.le_refl 1), forceInjective_holds α _ _ (Nat.le_refl 1),
    isoEdgeCons_holds]
  unfold IsoSpec V Rel
  constructor
  · rintro ⟨⟨⟨⟨hc, hs⟩, hf⟩, hi⟩, he⟩
    refine ⟨?_, ?_, ?_⟩
    · rintro i ⟨a, b⟩
      obtain ⟨j, j1, j2, hj⟩ := hc i a b
      exact ⟨j, ⟨j1, j2⟩, hj, fun j' hj' r => hf i a b j' hj'.1 hj'.2 j j1 j2 r hj⟩
    · rintro j ⟨a, b⟩
      obtain ⟨i, i1, i2, hi'⟩ := hs j a b
      exact ⟨i, ⟨i1, i2⟩, hi', fun i' hi'' r => hi j a b i' hi''.1 hi''.2 i i1 i2 r hi'⟩
    · rintro i i' j j' ⟨a, b⟩ ⟨a', b'⟩ ⟨c, d⟩ ⟨c', d'⟩ r r'
      -- by the order of i, i' and of j, j'
      rcases Nat.lt_trichotomy i i' with hlt | heq | hgt
      · rcases Nat.lt_trichotomy j j' with jlt | jeq | jgt
        · cases e : (adj G1 i i' == adj G2 j j')
          · have := (he i i' a hlt b' j j' c jlt d' (by simpa using e)).1
            exact absurd ⟨r, r'⟩ this
          · simpa using e
        · subst jeq; have := hi j c d i a b i' a' b' r r'; omega
        · rw [h2.symm j j']
          cases e : (adj G1 i i' == adj G2 j' j)
          · have := (he i i' a hlt b' j' j c' jgt d (by simpa using e)).2
            exact absurd ⟨r, r'⟩ this
          · simpa using e
      · subst heq
        have := hf i a b j c d j' c' d' r r'
        subst this
        rw [h1.irrefl, h2.irrefl]
      · rw [h1.symm i i']
        rcases Nat.lt_trichotomy j j' with jlt | jeq | jgt
        · cases e : (adj G1 i' i == adj G2 j j')
          · have := (he i' i a' hgt b j j' c jlt d' (by simpa using e)).2
            exact absurd ⟨r', r⟩ this
          · simpa using e
        · subst jeq; have := hi j c d i a b i' a' b' r r'; omega
        · rw [h2.symm j j']
          cases e : (adj G1 i' i == adj G2 j' j)
          · have := (he i' i a' hgt b j' j c' jgt d (by simpa using e)).1
            exact absurd ⟨r', r⟩ this
          · simpa using e
  · rintro ⟨ht, hb, he⟩
    refine ⟨⟨⟨⟨?_, ?_⟩, ?_⟩, ?_⟩, ?_⟩
    · intro i a b
      obtain ⟨j, hj, r, _⟩ := ht i ⟨a, b⟩
      exact ⟨j, hj.1, hj.2, r⟩
    · intro j a b
      obtain ⟨i, hi, r, _⟩ := hb j ⟨a, b⟩
      exact ⟨i, hi.1, hi.2, r⟩
    · intro i a b j c d j' c' d' r r'
      obtain ⟨j0, _, _, hu⟩ := ht i ⟨a, b⟩
      rw [hu j ⟨c, d⟩ r, hu j' ⟨c', d'⟩ r']
    · intro j a b i c d i' c' d' r r'
      obtain ⟨i0, _, _, hu⟩ := hb j ⟨a, b⟩
      rw [hu i ⟨c, d⟩ r, hu i' ⟨c', d'⟩ r']
    · intro u1 u2 a hlt b v1 v2 c vlt d hne
      constructor
      · rintro ⟨r, r'⟩
        exact hne (he u1 u2 v1 v2 ⟨a, by omega⟩ ⟨by omega, b⟩ ⟨c, by omega⟩ ⟨by omega, d⟩ r r')
      · rintro ⟨r, r'⟩
        have := he u1 u2 v2 v1 ⟨a, by omega⟩ ⟨by omega, b⟩ ⟨by omega, d⟩ ⟨c, by omega⟩ r r'
        rw [h2.symm v2 v1] at this
        exact hne this

/-- non-vacuity: the identity on the path `1-2-3` -/
example : IsoSpec ⟨3, 2, [[], [2], [1, 3], [2]], [(3, 2), (2, 3), (2, 1), (1, 2)]⟩
    ⟨3, 2, [[], [2], [1, 3], [2]], [(3, 2), (2, 3), (2, 1), (1, 2)]⟩ (encode 1 3 3 [1, 2, 3]) := by
  have hg : GoodGraph ⟨3, 2, [[], [2], [1, 3], [2]], [(3, 2), (2, 3), (2, 1), (1, 2)]⟩ :=
    goodGraph_of_edgeset _ (by decide)
  rw [← graphIsomorphism_holds _ _ hg hg]; decide

/-- `l = [f 1, …, f n₁]` is the table of an isomorphism `f : V₁ → V₂` -/
structure IsIsoTable (G1 G2 : SimpleG) (l : List Nat) : Prop where
  len : l.length = G1.n
  rng : ∀ v ∈ l, 1 ≤ v ∧ v ≤ G2.n
  nodup : l.Nodup
  onto : ∀ j, 1 ≤ j → j ≤ G2.n → j ∈ l
  edges : ∀ i i', V G1.n i → V G1.n i' → adj G1 i i' = adj G2 (img l i) (img l i')

/-- the satisfying assignments are exactly the encodings of isomorphism tables -/
theorem graphIsomorphism_holds_iff_table (G1 G2 : SimpleG) (h1 : GoodGraph G1) (h2 : GoodGraph G2) (α : Assign) :
    (graphIsomorphism G1 G2).holds α = true ↔ ∃ l, IsIsoTable G1 G2 l ∧ EncL 1 G1.n G2.n α l := by
  rw [graphIsomorphism_holds G1 G2 h1 h2]
  unfold IsoSpec V Rel
  constructor
  · rintro ⟨ht, hb, he⟩
    have htf : TotFun 1 G1.n G2.n α := by
      constructor
      · intro i a b; obtain ⟨j, hj, r, _⟩ := ht i ⟨a, b⟩; exact ⟨j, hj.1, hj.2, r⟩
      · intro i a b j c d j' c' d' r r'
        obtain ⟨j0, _, _, hu⟩ := ht i ⟨a, b⟩
        rw [hu j ⟨c, d⟩ r, hu j' ⟨c', d'⟩ r']
    obtain ⟨l, hl⟩ := htf.exists_encL
    refine ⟨l, ⟨hl.len, hl.rng, ?_, ?_, ?_⟩, hl⟩
    · rw [← hl.injective_iff]
      intro j a b i c d i' c' d' r r'
      obtain ⟨i0, _, _, hu⟩ := hb j ⟨a, b⟩
      rw [hu i ⟨c, d⟩ r, hu i' ⟨c', d'⟩ r']
    · rw [← hl.surjective_iff]
      intro j a b; obtain ⟨i, hi, r, _⟩ := hb j ⟨a, b⟩; exact ⟨i, hi.1, hi.2, r⟩
    · rintro i i' ⟨a, b⟩ ⟨a', b'⟩
      exact he i i' _ _ ⟨a, b⟩ ⟨a', b'⟩ (hl.img_rng a b) (hl.img_rng a' b') (hl.holds_img a b) (hl.holds_img a' b')
  · rintro ⟨l, ⟨_, _, hnd, honto, hedges⟩, hl⟩
    refine ⟨?_, ?_, ?_⟩
    · rintro i ⟨a, b⟩
      refine ⟨img l i, hl.img_rng a b, hl.holds_img a b, ?_⟩
      intro j' hj' r
      exact ((hl.rel_iff a b hj'.1 hj'.2).1 r).symm
    · rintro j ⟨a, b⟩
      obtain ⟨i, i1, i2, r⟩ := (hl.surjective_iff.2 honto) j a b
      refine ⟨i, ⟨i1, i2⟩, r, ?_⟩
      intro i' hi' r'
      exact (hl.injective_iff.2 hnd) j a b i' hi'.1 hi'.2 i i1 i2 r' r
    · rintro i i' j j' ⟨a, b⟩ ⟨a', b'⟩ ⟨c, d⟩ ⟨c', d'⟩ r r'
      rw [← (hl.rel_iff a b c d).1 r, ← (hl.rel_iff a' b' c' d').1 r']
      exact hedges i i' ⟨a, b⟩ ⟨a', b'⟩

/-- an isomorphism as a function on vertices -/
def IsIsomorphism (G1 G2 : SimpleG) (f : Nat → Nat) : Prop :=
  (∀ i, V G1.n i → V G2.n (f i)) ∧
  (∀ i i', V G1.n i → V G1.n i' → f i = f i' → i = i') ∧
  (∀ j, V G2.n j → ∃ i, V G1.n i ∧ f i = j) ∧
  (∀ i i', V G1.n i → V G1.n i' → adj G1 i i' = adj G2 (f i) (f i'))

theorem isIsoTable_iff_isIsomorphism (G1 G2 : SimpleG) :
    (∃ l, IsIsoTable G1 G2 l) ↔ ∃ f, IsIsomorphism G1 G2 f := by
  constructor
  · rintro ⟨l, hlen, hrng, hnd, honto, hedges⟩
    refine ⟨img l, ?_, ?_, ?_, hedges⟩
    · rintro i ⟨a, b⟩; exact hrng _ (img_mem a (by omega))
    · rintro i i' ⟨a, b⟩ ⟨a', b'⟩ e
      rw [img_eq a (by omega), img_eq a' (by omega)] at e
      rw [List.nodup_iff_pairwise_ne, List.pairwise_iff_getElem] at hnd
      rcases Nat.lt_trichotomy i i' with hlt | heq | hgt
      · exact absurd e (hnd (i - 1) (i' - 1) (by omega) (by omega) (by omega))
      · exact heq
      · exact absurd e.symm (hnd (i' - 1) (i - 1) (by omega) (by omega) (by omega))
    · rintro j ⟨a, b⟩
      obtain ⟨i, i1, i2, e⟩ := exists_img_of_mem (honto j a b)
      exact ⟨i, ⟨i1, by omega⟩, e⟩
  · rintro ⟨f, hr, hinj, hsurj, hedges⟩
    have him : ∀ i, 1 ≤ i → i ≤ G1.n → img ((List.range G1.n).map (fun p => f (p + 1))) i = f i :=
      fun i a b => img_map_range f a b
    refine ⟨(List.range G1.n).map (fun p => f (p + 1)), by simp, ?_, ?_, ?_, ?_⟩
    · intro v hv
      simp only [List.mem_map, List.mem_range] at hv
      obtain ⟨p, hp, rfl⟩ := hv
      exact hr (p + 1) ⟨by omega, by omega⟩
    · rw [List.nodup_iff_pairwise_ne, List.pairwise_iff_getElem]
      intro p q hp hq hpq e
      simp only [List.length_map, List.length_range] at hp hq
      simp only [List.getElem_map, List.getElem_range] at e
      have := hinj (p + 1) (q + 1) ⟨by omega, by omega⟩ ⟨by omega, by omega⟩ e
      omega
    · intro j a b
      obtain ⟨i, hi, e⟩ := hsurj j ⟨a, b⟩
      simp only [List.mem_map, List.mem_range]
      exact ⟨i - 1, by have := hi.1; have := hi.2; omega, by rw [← e]; congr 1; have := hi.1; omega⟩
    · rintro i i' ⟨a, b⟩ ⟨a', b'⟩
      rw [him i a b, him i' a' b']
      exact hedges i i' ⟨a, b⟩ ⟨a', b'⟩

/-- satisfiable iff the graphs are isomorphic -/
theorem graphIsomorphism_sat_iff (G1 G2 : SimpleG) (h1 : GoodGraph G1) (h2 : GoodGraph G2) :
    (∃ α, (graphIsomorphism G1 G2).holds α = true) ↔ ∃ f, IsIsomorphism G1 G2 f := by
  rw [← isIsoTable_iff_isIsomorphism]
  constructor
  · rintro ⟨α, hα⟩
    obtain ⟨l, hl, _⟩ := (graphIsomorphism_holds_iff_table G1 G2 h1 h2 α).1 hα
    exact ⟨l, hl⟩
  · rintro ⟨l, hl⟩
    exact ⟨encode 1 G1.n G2.n l,
      (graphIsomorphism_holds_iff_table G1 G2 h1 h2 _).2 ⟨l, hl, encode_encL hl.len hl.rng⟩⟩

/-- the explicit bijection: `l ↦ encode l` sends isomorphism tables to satisfying assignments, reaches
every satisfying assignment (on the variables `1 … n₁·n₂`) and is injective — so the number of satisfying
assignments is the number of isomorphisms -/
theorem graphIsomorphism_count (G1 G2 : SimpleG) (h1 : GoodGraph G1) (h2 : GoodGraph G2) :
    (∀ l, IsIsoTable G1 G2 l → (graphIsomorphism G1 G2).holds (encode 1 G1.n G2.n l) = true) ∧
    (∀ α, (graphIsomorphism G1 G2).holds α = true →
        ∃ l, IsIsoTable G1 G2 l ∧ AgreeOn (G1.n * G2.n) α (encode 1 G1.n G2.n l)) ∧
    (∀ l l', IsIsoTable G1 G2 l → IsIsoTable G1 G2 l' →
        AgreeOn (G1.n * G2.n) (encode 1 G1.n G2.n l) (encode 1 G1.n G2.n l') → l = l') :=
  unary_counting (graphIsomorphism G1 G2) G1.n G2.n rfl (IsIsoTable G1 G2)
    (graphIsomorphism_holds_iff_table G1 G2 h1 h2) (fun _ hl => ⟨hl.len, hl.rng⟩)

theorem graphIsomorphism_models_equiv (G1 G2 : SimpleG) (h1 : GoodGraph G1) (h2 : GoodGraph G2) :
    Nonempty (Models (graphIsomorphism G1 G2) ≃ {l : List Nat // IsIsoTable G1 G2 l}) :=
  unary_counting_equiv (graphIsomorphism G1 G2) (graphIsomorphism_wf G1 G2) G1.n G2.n rfl (IsIsoTable G1 G2)
    (graphIsomorphism_holds_iff_table G1 G2 h1 h2) (fun _ hl => ⟨hl.len, hl.rng⟩)

/-- graphs of different orders: no isomorphism table, hence no satisfying assignment (count 0) -/
theorem isIsoTable_order_eq (G1 G2 : SimpleG) (l : List Nat) (h : IsIsoTable G1 G2 l) : G1.n = G2.n := by
  have hp : l.Perm (verts G2.n) := by
    rw [List.perm_ext_iff_of_nodup h.nodup (verts_nodup _)]
    intro a
    rw [mem_verts]
    exact ⟨fun ha => h.rng a ha, fun ha => h.onto a ha.1 ha.2⟩
  have := hp.length_eq
  rw [h.len, verts_length] at this
  exact this

theorem graphIsomorphism_unsat_of_order_ne (G1 G2 : SimpleG) (h1 : GoodGraph G1) (h2 : GoodGraph G2)
    (hne : G1.n ≠ G2.n) (α : Assign) : (graphIsomorphism G1 G2).holds α = false := by
  cases h : (graphIsomorphism G1 G2).holds α
  · rfl
  · obtain ⟨l, hl, _⟩ := (graphIsomorphism_holds_iff_table G1 G2 h1 h2 α).1 h
    exact absurd (isIsoTable_order_eq G1 G2 l hl) hne

/-- transfer to the two renderings the code produces (CNF clauses, OPB constraints) -/
theorem graphIsomorphism_cnf (G1 G2 : SimpleG) (α : Assign) :
    (graphIsomorphism G1 G2).toCNF.holds α = (graphIsomorphism G1 G2).holds α :=
  Formula.toCNF_holds α _ (graphIsomorphism_wf G1 G2)

theorem graphIsomorphism_opb (G1 G2 : SimpleG) (α : Assign) :
    (graphIsomorphism G1 G2).toOPB.holds α = (graphIsomorphism G1 G2).holds α :=
  Formula.toOPB_holds α _ (graphIsomorphism_wf G1 G2)

/-! ## T-C02.4 graph automorphism -/

theorem graphAutomorphism_nvars (G : SimpleG) : (graphAutomorphism G).nvars = G.n * G.n := rfl

theorem graphAutomorphism_wf (G : SimpleG) : (graphAutomorphism G).WF :=
  wf_of_consIn (graphAutomorphism_consIn G)

/-- specification theorem: an isomorphism of `G` with itself that moves some vertex -/
theorem graphAutomorphism_holds (G : SimpleG) (hG : GoodGraph G) (α : Assign) :
    (graphAutomorphism G).holds α = true ↔ IsoSpec G G α ∧ ∃ u, V G.n u ∧ ¬ Rel 1 G.n α u u := by
  have : (graphAutomorphism G).holds α =
      ((graphIsomorphism G G).holds α && Con.holds α (.clause ((verts G.n).map (fun u => -(mlit 1 G.n u u))))) := by
    simp [Formula.holds, graphAutomorphism, List.all_append]
  rw [this, Bool.and_eq_true, graphIsomorphism_holds G G hG hG, notIdentity_holds]
  unfold V Rel
  constructor
  · rintro ⟨h, u, a, b, e⟩; exact ⟨h, u, ⟨a, b⟩, by simp [e]⟩
  · rintro ⟨h, u, ⟨a, b⟩, e⟩; exact ⟨h, u, a, b, by simpa using e⟩

/-- the satisfying assignments are the encodings of the automorphism tables other than the identity `[1, …, n]` -/
theorem graphAutomorphism_holds_iff_table (G : SimpleG) (hG : GoodGraph G) (α : Assign) :
    (graphAutomorphism G).holds α = true ↔
      ∃ l, (IsIsoTable G G l ∧ l ≠ verts G.n) ∧ EncL 1 G.n G.n α l := by
  rw [graphAutomorphism_holds G hG, ← graphIsomorphism_holds G G hG hG, graphIsomorphism_holds_iff_table G G hG hG]
  unfold V Rel
  constructor
  · rintro ⟨⟨l, hl, he⟩, u, ⟨a, b⟩, hu⟩
    refine ⟨l, ⟨hl, ?_⟩, he⟩
    intro e
    apply hu
    rw [he.rel_iff a b a b, e, img_verts a b]
  · rintro ⟨l, ⟨hl, hne⟩, he⟩
    refine ⟨⟨l, hl, he⟩, ?_⟩
    apply Classical.byContradiction
    intro hno
    apply hne
    apply ext_img (by rw [hl.len, verts_length])
    intro i a b
    rw [hl.len] at b
    rw [img_verts a b]
    apply Classical.byContradiction
    intro hi
    exact hno ⟨i, ⟨a, b⟩, fun r => hi ((he.rel_iff a b a b).1 r)⟩

/-- satisfiable iff `G` has an automorphism other than the identity -/
theorem graphAutomorphism_sat_iff (G : SimpleG) (hG : GoodGraph G) :
    (∃ α, (graphAutomorphism G).holds α = true) ↔ ∃ l, IsIsoTable G G l ∧ l ≠ verts G.n := by
  constructor
  · rintro ⟨α, hα⟩
    obtain ⟨l, hl, _⟩ := (graphAutomorphism_holds_iff_table G hG α).1 hα
    exact ⟨l, hl⟩
  · rintro ⟨l, hl⟩
    exact ⟨encode 1 G.n G.n l,
      (graphAutomorphism_holds_iff_table G hG _).2 ⟨l, hl, encode_encL hl.1.len hl.1.rng⟩⟩

/-- one satisfying assignment per non-identical automorphism -/
theorem graphAutomorphism_count (G : SimpleG) (hG : GoodGraph G) :
    (∀ l, (IsIsoTable G G l ∧ l ≠ verts G.n) → (graphAutomorphism G).holds (encode 1 G.n G.n l) = true) ∧
    (∀ α, (graphAutomorphism G).holds α = true →
        ∃ l, (IsIsoTable G G l ∧ l ≠ verts G.n) ∧ AgreeOn (G.n * G.n) α (encode 1 G.n G.n l)) ∧
    (∀ l l', (IsIsoTable G G l ∧ l ≠ verts G.n) → (IsIsoTable G G l' ∧ l' ≠ verts G.n) →
        AgreeOn (G.n * G.n) (encode 1 G.n G.n l) (encode 1 G.n G.n l') → l = l') :=
  unary_counting (graphAutomorphism G) G.n G.n rfl (fun l => IsIsoTable G G l ∧ l ≠ verts G.n)
    (graphAutomorphism_holds_iff_table G hG) (fun _ hl => ⟨hl.1.len, hl.1.rng⟩)

theorem graphAutomorphism_models_equiv (G : SimpleG) (hG : GoodGraph G) :
    Nonempty (Models (graphAutomorphism G) ≃ {l : List Nat // IsIsoTable G G l ∧ l ≠ verts G.n}) :=
  unary_counting_equiv (graphAutomorphism G) (graphAutomorphism_wf G) G.n G.n rfl
    (fun l => IsIsoTable G G l ∧ l ≠ verts G.n)
    (graphAutomorphism_holds_iff_table G hG) (fun _ hl => ⟨hl.1.len, hl.1.rng⟩)

/-- non-vacuity: swapping the end points of the path `1-2-3` -/
example : IsIsoTable ⟨3, 2, [[], [2], [1, 3], [2]], [(3, 2), (2, 3), (2, 1), (1, 2)]⟩
    ⟨3, 2, [[], [2], [1, 3], [2]], [(3, 2), (2, 3), (2, 1), (1, 2)]⟩ [3, 2, 1] ∧ [3, 2, 1] ≠ verts 3 := by
  refine ⟨⟨rfl, by decide, by decide, ?_, ?_⟩, by decide⟩
  · intro j a b
    have : j = 1 ∨ j = 2 ∨ j = 3 := by simp only at b; omega
    rcases this with rfl | rfl | rfl <;> decide
  · rintro i i' ⟨a, b⟩ ⟨a', b'⟩
    have h1 : i = 1 ∨ i = 2 ∨ i = 3 := by simp only at b; omega
    have h2 : i' = 1 ∨ i' = 2 ∨ i' = 3 := by simp only at b'; omega
    rcases h1 with rfl | rfl | rfl <;> rcases h2 with rfl | rfl | rfl <;> decide

theorem graphAutomorphism_cnf (G : SimpleG) (α : Assign) :
    (graphAutomorphism G).toCNF.holds α = (graphAutomorphism G).holds α :=
  Formula.toCNF_holds α _ (graphAutomorphism_wf G)

theorem graphAutomorphism_opb (G : SimpleG) (α : Assign) :
    (graphAutomorphism G).toOPB.holds α = (graphAutomorphism G).holds α :=
  Formula.toOPB_holds α _ (graphAutomorphism_wf G)

/-! ## T-C02.5 k-clique (unary encoding) -/

/-- `l = [f 1, …, f k]` lists a `k`-clique of `G`: `k` vertices, pairwise adjacent; strictly increasing
when symmetry breaking is on (one table per clique), repetition-free otherwise (an *ordered* `k`-clique) -/
structure IsCliqueTable (G : SimpleG) (k : Nat) (symbreak : Bool) (l : List Nat) : Prop where
  len : l.length = k
  rng : ∀ v ∈ l, 1 ≤ v ∧ v ≤ G.n
  shape : if symbreak then l.Pairwise (· < ·) else l.Nodup
  adjacent : l.Pairwise (fun a b => adj G a b = true)

theorem cliqueCore_nvars (G : SimpleG) (k : Nat) (sb : Bool) : (cliqueCore G k sb).nvars = k * G.n := rfl

theorem cliqueCore_wf (G : SimpleG) (k : Nat) (sb : Bool) : (cliqueCore G k sb).WF :=
  wf_of_consIn (cliqueCore_consIn G k sb)

/-- parameter validation of `CliqueFormula` -/
theorem cliqueFormula_eq (G : SimpleG) (k : Int) (sb : Bool) :
    cliqueFormula G k sb = if k < 0 then .error .valueError else .ok (cliqueCore G k.toNat sb) := rfl

/-- specification theorem: the formula holds exactly under the assignments that encode an increasing
embedding of `K_k` (symmetry breaking) / an ordered `k`-clique (no symmetry breaking) -/
theorem cliqueCore_holds (G : SimpleG) (hG : GoodGraph G) (k : Nat) (sb : Bool) (α : Assign) :
    (cliqueCore G k sb).holds α = true ↔ ∃ l, IsCliqueTable G k sb l ∧ EncL 1 k G.n α l := by
  simp only [Formula.holds, cliqueCore, List.all_eq_true]
  rw [List.forall_mem_append, prefix_sym_holds]
  constructor
  · rintro ⟨⟨l, hl, hs⟩, he⟩
    exact ⟨l, ⟨hl.len, hl.rng, hs, (cliqueEdges_iff hG hl hs).1 he⟩, hl⟩
  · rintro ⟨l, ⟨_, _, hs, ha⟩, hl⟩
    exact ⟨⟨l, hl, hs⟩, (cliqueEdges_iff hG hl hs).2 ha⟩

/-- non-vacuity: the triangle `{1,2,3}` in `K_3` plus a pendant vertex -/
example : IsCliqueTable ⟨4, 4, [[], [2, 3], [1, 3], [1, 2, 4], [3]],
    [(4, 3), (3, 4), (3, 2), (2, 3), (3, 1), (1, 3), (2, 1), (1, 2)]⟩ 3 true [1, 2, 3] :=
  ⟨rfl, by decide, by decide, by decide⟩

/-- a `k`-clique of `G` as a set of vertices (strictly increasing list) -/
def IsClique (G : SimpleG) (S : List Nat) : Prop :=
  S.Pairwise (· < ·) ∧ (∀ v ∈ S, 1 ≤ v ∧ v ≤ G.n) ∧ ∀ u ∈ S, ∀ v ∈ S, u ≠ v → adj G u v = true

def HasClique (G : SimpleG) (k : Nat) : Prop := ∃ S, IsClique G S ∧ S.length = k

theorem isCliqueTable_true_iff (G : SimpleG) (hG : GoodGraph G) (k : Nat) (l : List Nat) :
    IsCliqueTable G k true l ↔ IsClique G l ∧ l.length = k := by
  constructor
  · rintro ⟨a, b, c, d⟩
    exact ⟨⟨c, b, (pairwise_adj_iff hG (nodup_of_sorted c)).1 d⟩, a⟩
  · rintro ⟨⟨c, b, d⟩, a⟩
    exact ⟨a, b, c, (pairwise_adj_iff hG (nodup_of_sorted c)).2 d⟩

/-- satisfiable iff `G` has a `k`-clique — with and without symmetry breaking -/
theorem cliqueCore_sat_iff (G : SimpleG) (hG : GoodGraph G) (k : Nat) (sb : Bool) :
    (∃ α, (cliqueCore G k sb).holds α = true) ↔ HasClique G k := by
  constructor
  · rintro ⟨α, hα⟩
    obtain ⟨l, ⟨a, b, c, d⟩, _⟩ := (cliqueCore_holds G hG k sb α).1 hα
    cases sb
    · obtain ⟨l', hp, hs, hadj⟩ := exists_sorted_of_nodup hG c d
      refine ⟨l', ⟨hs, fun v hv => b v (hp.mem_iff.1 hv), (pairwise_adj_iff hG (nodup_of_sorted hs)).1 hadj⟩, ?_⟩
      rw [hp.length_eq, a]
    · exact ⟨l, ((isCliqueTable_true_iff G hG k l).1 ⟨a, b, c, d⟩).1, a⟩
  · rintro ⟨S, hS, hk⟩
    have ht := (isCliqueTable_true_iff G hG k S).2 ⟨hS, hk⟩
    have ht' : IsCliqueTable G k sb S := by
      cases sb
      · exact ⟨ht.len, ht.rng, nodup_of_sorted ht.shape, ht.adjacent⟩
      · exact ht
    exact ⟨encode 1 k G.n S, (cliqueCore_holds G hG k sb _).2 ⟨S, ht', encode_encL ht'.len ht'.rng⟩⟩

/-- no clique is larger than the graph: unsatisfiable for `k > |V|` -/
theorem not_hasClique_of_gt (G : SimpleG) (k : Nat) (h : G.n < k) : ¬ HasClique G k := by
  rintro ⟨S, ⟨hs, hr, _⟩, hk⟩
  have := List.Nodup.length_le_of_subset (nodup_of_sorted hs) (l₂ := verts G.n)
    (fun v hv => mem_verts.2 (hr v hv))
  rw [verts_length] at this
  omega

theorem cliqueCore_unsat_of_gt (G : SimpleG) (hG : GoodGraph G) (k : Nat) (sb : Bool) (h : G.n < k) (α : Assign) :
    (cliqueCore G k sb).holds α = false := by
  cases e : (cliqueCore G k sb).holds α
  · rfl
  · exact absurd ((cliqueCore_sat_iff G hG k sb).1 ⟨α, e⟩) (not_hasClique_of_gt G k h)

/-- the explicit bijection between satisfying assignments and clique tables: with symmetry breaking
the tables are the `k`-cliques themselves, without they are the ordered `k`-cliques -/
theorem cliqueCore_count (G : SimpleG) (hG : GoodGraph G) (k : Nat) (sb : Bool) :
    (∀ l, IsCliqueTable G k sb l → (cliqueCore G k sb).holds (encode 1 k G.n l) = true) ∧
    (∀ α, (cliqueCore G k sb).holds α = true →
        ∃ l, IsCliqueTable G k sb l ∧ AgreeOn (k * G.n) α (encode 1 k G.n l)) ∧
    (∀ l l', IsCliqueTable G k sb l → IsCliqueTable G k sb l' →
        AgreeOn (k * G.n) (encode 1 k G.n l) (encode 1 k G.n l') → l = l') :=
  unary_counting (cliqueCore G k sb) k G.n rfl (IsCliqueTable G k sb)
    (cliqueCore_holds G hG k sb) (fun _ hl => ⟨hl.len, hl.rng⟩)

theorem cliqueCore_models_equiv (G : SimpleG) (hG : GoodGraph G) (k : Nat) (sb : Bool) :
    Nonempty (Models (cliqueCore G k sb) ≃ {l : List Nat // IsCliqueTable G k sb l}) :=
  unary_counting_equiv (cliqueCore G k sb) (cliqueCore_wf G k sb) k G.n rfl (IsCliqueTable G k sb)
    (cliqueCore_holds G hG k sb) (fun _ hl => ⟨hl.len, hl.rng⟩)

/-- with symmetry breaking: satisfying assignments ↔ `k`-cliques (as vertex sets) -/
theorem cliqueCore_models_equiv_cliques (G : SimpleG) (hG : GoodGraph G) (k : Nat) :
    Nonempty (Models (cliqueCore G k true) ≃ {S : List Nat // IsClique G S ∧ S.length = k}) := by
  obtain ⟨e⟩ := cliqueCore_models_equiv G hG k true
  exact ⟨e.trans
    ⟨fun x => ⟨x.1, (isCliqueTable_true_iff G hG k x.1).1 x.2⟩,
     fun x => ⟨x.1, (isCliqueTable_true_iff G hG k x.1).2 x.2⟩, fun _ => rfl, fun _ => rfl⟩⟩

theorem cliqueCore_cnf (G : SimpleG) (k : Nat) (sb : Bool) (α : Assign) :
    (cliqueCore G k sb).toCNF.holds α = (cliqueCore G k sb).holds α :=
  Formula.toCNF_holds α _ (cliqueCore_wf G k sb)

theorem cliqueCore_opb (G : SimpleG) (k : Nat) (sb : Bool) (α : Assign) :
    (cliqueCore G k sb).toOPB.holds α = (cliqueCore G k sb).holds α :=
  Formula.toOPB_holds α _ (cliqueCore_wf G k sb)

/-! ## T-C02.5 k-clique, binary encoding -/

theorem binaryCliqueCore_nvars (G : SimpleG) (k : Nat) (sb : Bool) :
    (binaryCliqueCore G k sb).nvars = k * clog2 G.n := rfl

/-- `clog2 N` is `⌈log₂ N⌉`: the least `b` with `N ≤ 2^b` -/
theorem clog2_spec (N : Nat) : N ≤ 2 ^ clog2 N ∧ ∀ b, N ≤ 2 ^ b → clog2 N ≤ b :=
  Vars.clog2_spec N

theorem binaryCliqueCore_wf (G : SimpleG) (k : Nat) (sb : Bool) : (binaryCliqueCore G k sb).WF :=
  wf_of_consIn (binaryCliqueCore_consIn G k sb)

/-- parameter validation of `BinaryCliqueFormula`: ValueError exactly for `k < 0`; `k = 0` and the graph without
vertices are accepted (fix of D42: `BinaryMappingVariables` takes an empty domain or range) -/
theorem binaryCliqueFormula_eq (G : SimpleG) (k : Int) (sb : Bool) :
    binaryCliqueFormula G k sb =
      if k < 0 then .error .valueError else .ok (binaryCliqueCore G k.toNat sb) := rfl

/-- every code handed to `forbid` is below `2^bits`: the ValueError branch of `forbid` is never taken,
which is why the model uses the guard-free `forbidC` -/
theorem forbid_eq_forbidC (st bits i j : Nat) (h : j < 2 ^ bits) :
    Vars.forbid st bits i j = .ok (Fam.G2.forbidC st bits i j) := by
  have : ¬ j ≥ 2 ^ bits := by omega
  simp [Vars.forbid, Fam.G2.forbidC, this]

/-- specification theorem, through the 0-based code: the formula holds exactly when the vertices
`code α i + 1` (`i = 1 … k`) form a clique table (increasing with symmetry breaking, ordered without) -/
theorem binaryCliqueCore_holds (G : SimpleG) (hG : GoodGraph G) (k : Nat) (sb : Bool) (α : Assign) :
    (binaryCliqueCore G k sb).holds α = true ↔ IsCliqueTable G k sb (binTable α (clog2 G.n) k) := by
  have hN := le_two_pow_clog2 G.n
  have hlen : (binTable α (clog2 G.n) k).length = k := by simp [binTable]
  have himg : ∀ i, 1 ≤ i → i ≤ k → img (binTable α (clog2 G.n) k) i = code α (clog2 G.n) i + 1 :=
    fun i a b => img_binTable α _ a b
  simp only [Formula.holds, binaryCliqueCore, List.all_eq_true]
  rw [List.forall_mem_append, List.forall_mem_append, List.forall_mem_append,
    binComplete_holds α _ k G.n, binInjective_holds α _ k G.n hN, binCliqueEdgeCons_holds α G k sb hN]
  constructor
  · rintro ⟨⟨⟨hc, hi⟩, hn⟩, he⟩
    have hne : ∀ i, 1 ≤ i → ∀ i', i < i' → i' ≤ k → code α (clog2 G.n) i ≠ code α (clog2 G.n) i' := by
      intro i a i' hlt b e
      exact hi _ (hc i a (by omega)) i a i' hlt b ⟨rfl, e.symm⟩
    have hlt : sb = true → ∀ i, 1 ≤ i → ∀ i', i < i' → i' ≤ k →
        code α (clog2 G.n) i < code α (clog2 G.n) i' := by
      intro hs i a i' hii' b
      subst hs
      simp only [if_true] at hn
      rw [binNondecreasing_holds α _ k G.n hN] at hn
      have h1 := hne i a i' hii' b
      rcases Nat.lt_or_gt_of_ne h1 with h2 | h2
      · exact h2
      · exact absurd ⟨rfl, rfl⟩ (hn i a i' hii' b _ _ h2 (hc i a (by omega)))
    refine ⟨hlen, ?_, ?_, ?_⟩
    · intro v hv
      simp only [binTable, List.mem_map, List.mem_range] at hv
      obtain ⟨p, hp, rfl⟩ := hv
      have := hc (p + 1) (by omega) (by omega)
      omega
    · cases sb
      · simp only [Bool.false_eq_true, if_false]
        rw [List.nodup_iff_pairwise_ne, ← pairwise_img_iff hlen]
        intro i a i' hii' b
        rw [himg i a (by omega), himg i' (by omega) b]
        have := hne i a i' hii' b
        omega
      · simp only [if_true]
        rw [← pairwise_img_iff hlen]
        intro i a i' hii' b
        rw [himg i a (by omega), himg i' (by omega) b]
        have := hlt rfl i a i' hii' b
        omega
    · rw [← pairwise_img_iff hlen]
      intro i a i' hii' b
      rw [himg i a (by omega), himg i' (by omega) b]
      have c1 := hc i a (by omega)
      have c2 := hc i' (by omega) b
      rcases Nat.lt_or_gt_of_ne (hne i a i' hii' b) with h2 | h2
      · cases e : adj G (code α (clog2 G.n) i + 1) (code α (clog2 G.n) i' + 1)
        · exact absurd ⟨by omega, by omega⟩
            (he i a i' hii' b (code α (clog2 G.n) i + 1) (code α (clog2 G.n) i' + 1) (by omega) (by omega) (by omega) e).1
        · rfl
      · have hsb : sb = false := by
          cases sb
          · rfl
          · have := hlt rfl i a i' hii' b; omega
        rw [hG.symm]
        cases e : adj G (code α (clog2 G.n) i' + 1) (code α (clog2 G.n) i + 1)
        · exact absurd ⟨by omega, by omega⟩
            ((he i a i' hii' b (code α (clog2 G.n) i' + 1) (code α (clog2 G.n) i + 1) (by omega) (by omega) (by omega) e).2 hsb)
        · rfl
  · rintro ⟨_, hr, hs, ha⟩
    rw [← pairwise_img_iff hlen] at ha
    have hc : ∀ i, 1 ≤ i → i ≤ k → code α (clog2 G.n) i < G.n := by
      intro i a b
      have := hr _ (img_mem a (by rw [hlen]; exact b))
      rw [himg i a b] at this
      omega
    have hnd : ∀ i, 1 ≤ i → ∀ i', i < i' → i' ≤ k → code α (clog2 G.n) i ≠ code α (clog2 G.n) i' := by
      have hs' : Shape sb (binTable α (clog2 G.n) k) := hs
      have := hs'.nodup
      rw [List.nodup_iff_pairwise_ne, ← pairwise_img_iff hlen] at this
      intro i a i' hii' b e
      have := this i a i' hii' b
      rw [himg i a (by omega), himg i' (by omega) b] at this
      omega
    refine ⟨⟨⟨hc, ?_⟩, ?_⟩, ?_⟩
    · intro y _ i a i' hii' b e
      exact hnd i a i' hii' b (e.1.trans e.2.symm)
    · cases sb
      · simp
      · simp only [if_true] at hs ⊢
        rw [binNondecreasing_holds α _ k G.n hN]
        rw [← pairwise_img_iff hlen] at hs
        intro i a i' hii' b v1 v2 hv _ e
        have := hs i a i' hii' b
        rw [himg i a (by omega), himg i' (by omega) b] at this
        omega
    · intro i a i' hii' b x y hx hxy hy hne
      have := ha i a i' hii' b
      rw [himg i a (by omega), himg i' (by omega) b] at this
      constructor
      · rintro ⟨e1, e2⟩
        rw [e1, e2] at this
        have ex : x - 1 + 1 = x := by omega
        have ey : y - 1 + 1 = y := by omega
        rw [ex, ey, hne] at this
        exact Bool.noConfusion this
      · rintro _ ⟨e1, e2⟩
        rw [e1, e2] at this
        have ex : x - 1 + 1 = x := by omega
        have ey : y - 1 + 1 = y := by omega
        rw [ex, ey, hG.symm, hne] at this
        exact Bool.noConfusion this

/-- non-vacuity: in the triangle with a pendant vertex (codes 0,1,2,3 on 2 bits) the codes 00, 01, 10 of the
first three mapping positions form the clique `{1,2,3}` -/
example : IsCliqueTable ⟨4, 4, [[], [2, 3], [1, 3], [1, 2, 4], [3]],
    [(4, 3), (3, 4), (3, 2), (2, 3), (3, 1), (1, 3), (2, 1), (1, 2)]⟩ 3 true
    (binTable (encodeB 2 3 [1, 2, 3]) 2 3) := by
  have : binTable (encodeB 2 3 [1, 2, 3]) 2 3 = [1, 2, 3] :=
    binTable_encodeB (N := 4) (by decide) rfl (by decide)
  rw [this]
  exact ⟨rfl, by decide, by decide, by decide⟩

/-- satisfiable iff `G` has a `k`-clique (for the parameters the code accepts: `k ≥ 1`, `|V| ≥ 1`) -/
theorem binaryCliqueCore_sat_iff (G : SimpleG) (hG : GoodGraph G) (k : Nat) (sb : Bool) :
    (∃ α, (binaryCliqueCore G k sb).holds α = true) ↔ HasClique G k := by
  constructor
  · rintro ⟨α, hα⟩
    obtain ⟨a, b, c, d⟩ := (binaryCliqueCore_holds G hG k sb α).1 hα
    cases sb
    · obtain ⟨l', hp, hs, hadj⟩ := exists_sorted_of_nodup hG c d
      refine ⟨l', ⟨hs, fun v hv => b v (hp.mem_iff.1 hv), (pairwise_adj_iff hG (nodup_of_sorted hs)).1 hadj⟩, ?_⟩
      rw [hp.length_eq, a]
    · exact ⟨_, ((isCliqueTable_true_iff G hG k _).1 ⟨a, b, c, d⟩).1, a⟩
  · rintro ⟨S, hS, hk⟩
    have ht := (isCliqueTable_true_iff G hG k S).2 ⟨hS, hk⟩
    have ht' : IsCliqueTable G k sb S := by
      cases sb
      · exact ⟨ht.len, ht.rng, nodup_of_sorted ht.shape, ht.adjacent⟩
      · exact ht
    refine ⟨encodeB (clog2 G.n) k S, (binaryCliqueCore_holds G hG k sb _).2 ?_⟩
    rw [binTable_encodeB (le_two_pow_clog2 G.n) ht'.len ht'.rng]
    exact ht'

theorem binaryCliqueCore_unsat_of_gt (G : SimpleG) (hG : GoodGraph G) (k : Nat) (sb : Bool) (h : G.n < k)
    (α : Assign) : (binaryCliqueCore G k sb).holds α = false := by
  cases e : (binaryCliqueCore G k sb).holds α
  · rfl
  · exact absurd ((binaryCliqueCore_sat_iff G hG k sb).1 ⟨α, e⟩) (not_hasClique_of_gt G k h)

/-- the explicit bijection for the binary encoding: `l ↦ encodeB l` from clique tables to satisfying assignments;
every satisfying assignment is (on the variables `1 … k·bits`) the encoding of its own table `binTable α` -/
theorem binaryCliqueCore_count (G : SimpleG) (hG : GoodGraph G) (k : Nat) (sb : Bool) :
    (∀ l, IsCliqueTable G k sb l → (binaryCliqueCore G k sb).holds (encodeB (clog2 G.n) k l) = true) ∧
    (∀ α, (binaryCliqueCore G k sb).holds α = true →
        ∃ l, IsCliqueTable G k sb l ∧ AgreeOn (k * clog2 G.n) α (encodeB (clog2 G.n) k l)) ∧
    (∀ l l', IsCliqueTable G k sb l → IsCliqueTable G k sb l' →
        AgreeOn (k * clog2 G.n) (encodeB (clog2 G.n) k l) (encodeB (clog2 G.n) k l') → l = l') := by
  have hN := le_two_pow_clog2 G.n
  refine ⟨?_, ?_, ?_⟩
  · intro l hl
    rw [binaryCliqueCore_holds G hG k sb, binTable_encodeB hN hl.len hl.rng]
    exact hl
  · intro α hα
    exact ⟨_, (binaryCliqueCore_holds G hG k sb α).1 hα, agree_encodeB_binTable α _ k⟩
  · intro l l' hl hl' hag
    have := binTable_congr hag
    rwa [binTable_encodeB hN hl.len hl.rng, binTable_encodeB hN hl'.len hl'.rng] at this

theorem binaryCliqueCore_models_equiv (G : SimpleG) (hG : GoodGraph G) (k : Nat) (sb : Bool) :
    Nonempty (Models (binaryCliqueCore G k sb) ≃ {l : List Nat // IsCliqueTable G k sb l}) := by
  obtain ⟨a, b, c⟩ := binaryCliqueCore_count G hG k sb
  exact ⟨modelsEquiv (binaryCliqueCore G k sb) (binaryCliqueCore_wf G k sb)
    (fun o : {l : List Nat // IsCliqueTable G k sb l} => encodeB (clog2 G.n) k o.1)
    (fun o => a o.1 o.2)
    (fun α hα => by obtain ⟨l, hl, h⟩ := b α hα; exact ⟨⟨l, hl⟩, h⟩)
    (fun o o' h => Subtype.ext (c o.1 o'.1 o.2 o'.2 h))⟩

theorem binaryCliqueCore_cnf (G : SimpleG) (k : Nat) (sb : Bool) (α : Assign) :
    (binaryCliqueCore G k sb).toCNF.holds α = (binaryCliqueCore G k sb).holds α :=
  Formula.toCNF_holds α _ (binaryCliqueCore_wf G k sb)

theorem binaryCliqueCore_opb (G : SimpleG) (k : Nat) (sb : Bool) (α : Assign) :
    (binaryCliqueCore G k sb).toOPB.holds α = (binaryCliqueCore G k sb).holds α :=
  Formula.toOPB_holds α _ (binaryCliqueCore_wf G k sb)

/-! ## T-C02.5 subgraph and induced subgraph -/

/-- `l = [f 1, …, f k]` is the table of an embedding `f : V(H) → V(G)`: injective (strictly increasing when
symmetry breaking is on), edges go to edges, and — for the induced version — non-edges go to non-edges -/
structure IsEmbTable (G H : SimpleG) (induced symbreak : Bool) (l : List Nat) : Prop where
  len : l.length = H.n
  rng : ∀ v ∈ l, 1 ≤ v ∧ v ≤ G.n
  shape : if symbreak then l.Pairwise (· < ·) else l.Nodup
  edges : ∀ i i', V H.n i → V H.n i' → adj H i i' = true → adj G (img l i) (img l i') = true
  nonedges : induced = true → ∀ i i', V H.n i → V H.n i' → adj G (img l i) (img l i') = true → adj H i i' = true

theorem subgraphFormula_nvars (G H : SimpleG) (ind sb : Bool) : (subgraphFormula G H ind sb).nvars = H.n * G.n := rfl

theorem subgraphFormula_wf (G H : SimpleG) (ind sb : Bool) : (subgraphFormula G H ind sb).WF :=
  wf_of_consIn (subgraphFormula_consIn G H ind sb)

/-- specification theorem: the formula holds exactly under the assignments that encode an (induced) embedding
of `H` into `G` (increasing when symmetry breaking is on) -/
theorem subgraphFormula_holds (G H : SimpleG) (hG : GoodGraph G) (hH : GoodGraph H) (ind sb : Bool) (α : Assign) :
    (subgraphFormula G H ind sb).holds α = true ↔ ∃ l, IsEmbTable G H ind sb l ∧ EncL 1 H.n G.n α l := by
  simp only [Formula.holds, subgraphFormula, List.all_eq_true]
  rw [List.forall_mem_append, prefix_sym_holds]
  have key : ∀ l : List Nat,
      (∀ i, 1 ≤ i → ∀ i', i < i' → i' ≤ H.n → consistent (adj G (img l i) (img l i')) (adj H i i') ind = true) ↔
      ((∀ i i', V H.n i → V H.n i' → adj H i i' = true → adj G (img l i) (img l i') = true) ∧
       (ind = true → ∀ i i', V H.n i → V H.n i' → adj G (img l i) (img l i') = true → adj H i i' = true)) := by
    intro l
    constructor
    · intro h
      have both : ∀ i i', V H.n i → V H.n i' →
          (adj H i i' = true → adj G (img l i) (img l i') = true) ∧
          (ind = true → adj G (img l i) (img l i') = true → adj H i i' = true) := by
        rintro i i' ⟨a, b⟩ ⟨a', b'⟩
        rcases Nat.lt_trichotomy i i' with hlt | heq | hgt
        · exact (consistent_iff _ _ _).1 (h i a i' hlt b')
        · subst heq
          rw [hH.irrefl, hG.irrefl]
          exact ⟨fun e => e, fun _ e => e⟩
        · rw [hH.symm i i', hG.symm (img l i) (img l i')]
          exact (consistent_iff _ _ _).1 (h i' a' i hgt b)
      exact ⟨fun i i' hi hi' => (both i i' hi hi').1, fun hind i i' hi hi' => (both i i' hi hi').2 hind⟩
    · rintro ⟨h1, h2⟩ i a i' hlt b'
      exact (consistent_iff _ _ _).2
        ⟨h1 i i' ⟨a, by omega⟩ ⟨by omega, b'⟩, fun hind => h2 hind i i' ⟨a, by omega⟩ ⟨by omega, b'⟩⟩
  constructor
  · rintro ⟨⟨l, hl, hs⟩, he⟩
    obtain ⟨e1, e2⟩ := (key l).1 ((subgraphEdges_iff hG hl hs).1 he)
    exact ⟨l, ⟨hl.len, hl.rng, hs, e1, e2⟩, hl⟩
  · rintro ⟨l, ⟨_, _, hs, e1, e2⟩, hl⟩
    exact ⟨⟨l, hl, hs⟩, (subgraphEdges_iff hG hl hs).2 ((key l).2 ⟨e1, e2⟩)⟩

/-- non-vacuity: the path `1-2-3` embeds into the triangle, but not as an induced subgraph -/
example : IsEmbTable ⟨3, 3, [[], [2, 3], [1, 3], [1, 2]], [(3, 1), (1, 3), (3, 2), (2, 3), (2, 1), (1, 2)]⟩
    ⟨3, 2, [[], [2], [1, 3], [2]], [(3, 2), (2, 3), (2, 1), (1, 2)]⟩ false true [1, 2, 3] :=
  ⟨rfl, by decide, by decide, by
    rintro i i' ⟨a, b⟩ ⟨a', b'⟩
    have : i = 1 ∨ i = 2 ∨ i = 3 := by simp only at b; omega
    have : i' = 1 ∨ i' = 2 ∨ i' = 3 := by simp only at b'; omega
    rcases ‹i = 1 ∨ i = 2 ∨ i = 3› with rfl | rfl | rfl <;>
      rcases ‹i' = 1 ∨ i' = 2 ∨ i' = 3› with rfl | rfl | rfl <;> decide, by intro h; cases h⟩

/-- satisfiable iff `H` embeds into `G` (as an induced subgraph when `induced`) -/
theorem subgraphFormula_sat_iff (G H : SimpleG) (hG : GoodGraph G) (hH : GoodGraph H) (ind sb : Bool) :
    (∃ α, (subgraphFormula G H ind sb).holds α = true) ↔ ∃ l, IsEmbTable G H ind sb l := by
  constructor
  · rintro ⟨α, hα⟩
    obtain ⟨l, hl, _⟩ := (subgraphFormula_holds G H hG hH ind sb α).1 hα
    exact ⟨l, hl⟩
  · rintro ⟨l, hl⟩
    exact ⟨encode 1 H.n G.n l, (subgraphFormula_holds G H hG hH ind sb _).2 ⟨l, hl, encode_encL hl.len hl.rng⟩⟩

/-- the explicit bijection between satisfying assignments and (induced) embeddings -/
theorem subgraphFormula_count (G H : SimpleG) (hG : GoodGraph G) (hH : GoodGraph H) (ind sb : Bool) :
    (∀ l, IsEmbTable G H ind sb l → (subgraphFormula G H ind sb).holds (encode 1 H.n G.n l) = true) ∧
    (∀ α, (subgraphFormula G H ind sb).holds α = true →
        ∃ l, IsEmbTable G H ind sb l ∧ AgreeOn (H.n * G.n) α (encode 1 H.n G.n l)) ∧
    (∀ l l', IsEmbTable G H ind sb l → IsEmbTable G H ind sb l' →
        AgreeOn (H.n * G.n) (encode 1 H.n G.n l) (encode 1 H.n G.n l') → l = l') :=
  unary_counting (subgraphFormula G H ind sb) H.n G.n rfl (IsEmbTable G H ind sb)
    (subgraphFormula_holds G H hG hH ind sb) (fun _ hl => ⟨hl.len, hl.rng⟩)

theorem subgraphFormula_models_equiv (G H : SimpleG) (hG : GoodGraph G) (hH : GoodGraph H) (ind sb : Bool) :
    Nonempty (Models (subgraphFormula G H ind sb) ≃ {l : List Nat // IsEmbTable G H ind sb l}) :=
  unary_counting_equiv (subgraphFormula G H ind sb) (subgraphFormula_wf G H ind sb) H.n G.n rfl
    (IsEmbTable G H ind sb) (subgraphFormula_holds G H hG hH ind sb) (fun _ hl => ⟨hl.len, hl.rng⟩)

/-- no embedding of more vertices than `G` has: unsatisfiable when `|V(H)| > |V(G)|` -/
theorem subgraphFormula_unsat_of_gt (G H : SimpleG) (hG : GoodGraph G) (hH : GoodGraph H) (ind sb : Bool)
    (h : G.n < H.n) (α : Assign) : (subgraphFormula G H ind sb).holds α = false := by
  cases e : (subgraphFormula G H ind sb).holds α
  · rfl
  · obtain ⟨l, hl, _⟩ := (subgraphFormula_holds G H hG hH ind sb α).1 e
    have hnd : l.Nodup := by
      have := hl.shape
      cases sb
      · exact this
      · exact nodup_of_sorted this
    have := List.Nodup.length_le_of_subset hnd (l₂ := verts G.n) (fun v hv => mem_verts.2 (hl.rng v hv))
    rw [verts_length, hl.len] at this
    omega

theorem subgraphFormula_cnf (G H : SimpleG) (ind sb : Bool) (α : Assign) :
    (subgraphFormula G H ind sb).toCNF.holds α = (subgraphFormula G H ind sb).holds α :=
  Formula.toCNF_holds α _ (subgraphFormula_wf G H ind sb)

theorem subgraphFormula_opb (G H : SimpleG) (ind sb : Bool) (α : Assign) :
    (subgraphFormula G H ind sb).toOPB.holds α = (subgraphFormula G H ind sb).holds α :=
  Formula.toOPB_holds α _ (subgraphFormula_wf G H ind sb)

/-! ## T-C02.6 Ramsey witness
(`RamseyWitnessFormula(G, k, s)` after the fix of D25: the old code overwrote `s` with the mapping group and
encoded "k-clique or k-independent set"; the repaired code — followed by the model — uses one mapping of
`max k s` rows, of which the first `k` are in use under `C` and the first `s` under `¬C`) -/

/-- `l` lists `r` distinct vertices (increasing with symmetry breaking) that are pairwise adjacent when
`C = true` and pairwise non-adjacent when `C = false` -/
structure IsRamseyTable (G : SimpleG) (r : Nat) (symbreak : Bool) (C : Bool) (l : List Nat) : Prop where
  len : l.length = r
  rng : ∀ v ∈ l, 1 ≤ v ∧ v ≤ G.n
  shape : if symbreak then l.Pairwise (· < ·) else l.Nodup
  mono : l.Pairwise (fun a b => adj G a b = C)

/-- variable 1 (`C`) and one mapping of `max k s` rows -/
theorem ramseyWitnessCore_nvars (G : SimpleG) (k s : Nat) (sb : Bool) :
    (ramseyWitnessCore G k s sb).nvars = 1 + max k s * G.n := rfl

theorem ramseyWitnessCore_wf (G : SimpleG) (k s : Nat) (sb : Bool) : (ramseyWitnessCore G k s sb).WF :=
  wf_of_consIn (ramseyWitnessCore_consIn G k s sb)

/-- parameter validation (`non_negative_int(k)`, `non_negative_int(s)`); BOTH sizes reach the formula -/
theorem ramseyWitnessFormula_eq (G : SimpleG) (k s : Int) (sb : Bool) :
    ramseyWitnessFormula G k s sb =
      if k < 0 then .error .valueError else if s < 0 then .error .valueError
      else .ok (ramseyWitnessCore G k.toNat s.toNat sb) := rfl

/-- a row beyond the rows in use is unconstrained by the (non-)edge clauses -/
theorem ramP_of_gt (G : SimpleG) (k s : Nat) (sb C : Bool) {i' j j' : Nat} (h : ramRows k s C < i')
    (hinc : sb = true → j < j') : RamP G k s sb C i' j j' := by
  have key : ∀ e : Bool, i' ≤ ramRows k s (!e) → C = e := by
    intro e he
    cases e <;> cases C <;> simp_all <;> omega
  refine ⟨fun _ he => key _ he, fun hlt => ?_⟩
  cases sb
  · simp only [Bool.false_eq_true, if_false]
    exact fun he => key _ he
  · have := hinc rfl; omega

/-- SPECIFICATION (assignment level).  `C := α 1` selects the alternative and `r := if C then k else s` rows are
in use.  The formula holds exactly when (a) on all `max k s` rows the relation is a partial injection
(increasing with symmetry breaking) — `RamSide` — and (b) the rows in use are total and their table `l` lists
`r` vertices that are pairwise adjacent if `C`, pairwise non-adjacent if `¬C`. -/
theorem ramseyWitness_holds (G : SimpleG) (hG : GoodGraph G) (k s : Nat) (sb : Bool) (α : Assign) :
    (ramseyWitnessCore G k s sb).holds α = true ↔
      RamSide (max k s) G.n sb α ∧
      ∃ l, IsRamseyTable G (ramRows k s (α 1)) sb (α 1) l ∧ EncL 2 (ramRows k s (α 1)) G.n α l := by
  have h2 : 1 ≤ 2 := by omega
  have hrM := ramRows_le_max k s (α 1)
  simp only [Formula.holds, ramseyWitnessCore, List.all_eq_true]
  rw [List.forall_mem_append, List.forall_mem_append, List.forall_mem_append, ramseyCompleteCons_holds,
    forceFunctional_holds α _ _ h2, forceInjective_holds α _ _ h2, ramseyEdgeCons_holds]
  constructor
  · rintro ⟨⟨⟨hc, hf⟩, hi⟩, he⟩
    have htf : TotFun 2 (ramRows k s (α 1)) G.n α :=
      ⟨hc, fun i a b => hf i a (by omega)⟩
    obtain ⟨l, hl⟩ := htf.exists_encL
    have hnd : l.Nodup := hl.injective_iff.1
      (fun j a b i c d i' c' d' => hi j a b i c (by omega) i' c' (by omega))
    have hram := (hl.pairs_iff (fun _ i' j j' => RamP G k s sb (α 1) i' j j')).1
      (fun i a i' b c => he i a i' b (by omega))
    obtain ⟨hs, hm⟩ := (ramP_table_iff hG hl.len hnd).1 hram
    refine ⟨⟨hf, hi, ?_⟩, l, ⟨hl.len, hl.rng, hs, hm⟩, hl⟩
    intro hsb i a i' b c j d e j' d' e' r r'
    subst hsb
    have hp := (he i a i' b c j d e j' d' e' r r').2
    rcases Nat.lt_trichotomy j j' with hlt | heq | hgt
    · exact hlt
    · subst heq
      have := hi j d e i a (by omega) i' (by omega) c r r'
      omega
    · exact absurd (hp hgt) (by simp)
  · rintro ⟨⟨hf, hi, hinc⟩, l, ⟨_, _, hs, hm⟩, hl⟩
    have hs' : Shape sb l := hs
    have htab := (ramP_table_iff (k := k) (s := s) hG hl.len hs'.nodup).2 ⟨hs, hm⟩
    refine ⟨⟨⟨hl.totFun.1, hf⟩, hi⟩, ?_⟩
    intro i a i' b c j d e j' d' e' r r'
    by_cases hrow : i' ≤ ramRows k s (α 1)
    · have := htab i a i' b hrow
      rwa [(hl.rel_iff a (by omega) d e).1 r, (hl.rel_iff (by omega) hrow d' e').1 r'] at this
    · exact ramP_of_gt G k s sb (α 1) (by omega)
        (fun hsb => hinc hsb i a i' b c j d e j' d' e' r r')

/-- non-vacuity: in the path `1-2-3` with `k = 2`, `s = 3` two rows are in use under `C`, and `[1, 2]` is the table of
a 2-clique -/
example : IsRamseyTable ⟨3, 2, [[], [2], [1, 3], [2]], [(3, 2), (2, 3), (2, 1), (1, 2)]⟩ (ramRows 2 3 true) true true [1, 2] :=
  ⟨rfl, by decide, by decide, by decide⟩

/-- an independent set of `G` as a set of vertices (strictly increasing list) -/
def IsIndep (G : SimpleG) (S : List Nat) : Prop :=
  S.Pairwise (· < ·) ∧ (∀ v ∈ S, 1 ≤ v ∧ v ≤ G.n) ∧ ∀ u ∈ S, ∀ v ∈ S, u ≠ v → adj G u v = false

def HasIndep (G : SimpleG) (s : Nat) : Prop := ∃ S, IsIndep G S ∧ S.length = s

/-- the assignment with `C = c`, the first `r` rows of the mapping given by the table `l`, all other rows empty -/
def ramseyAssign (r N : Nat) (c : Bool) (l : List Nat) : Assign :=
  fun x => if x = 1 then c else encode 2 r N l x

theorem ramseyAssign_one (r N : Nat) (c : Bool) (l : List Nat) : ramseyAssign r N c l 1 = c := by
  simp [ramseyAssign]

theorem ramseyAssign_encL {r N : Nat} (c : Bool) {l : List Nat} (hlen : l.length = r)
    (hr : ∀ v ∈ l, 1 ≤ v ∧ v ≤ N) : EncL 2 r N (ramseyAssign r N c l) l :=
  (encode_encL (st := 2) hlen hr).congr (fun x h1 _ => by
    have : x ≠ 1 := by omega
    simp [ramseyAssign, this])

/-- the relation of `ramseyAssign`: row `i` is mapped to `j` iff it is one of the first `r` rows and `l[i-1] = j` -/
theorem ramseyAssign_rel {r N : Nat} (c : Bool) {l : List Nat} (hlen : l.length = r)
    (hr : ∀ v ∈ l, 1 ≤ v ∧ v ≤ N) {i j : Nat} (hi : 1 ≤ i) (hj1 : 1 ≤ j) (hj : j ≤ N) :
    ramseyAssign r N c l (mapId 2 N i j) = true ↔ i ≤ r ∧ img l i = j := by
  by_cases h : i ≤ r
  · rw [(ramseyAssign_encL c hlen hr).rel_iff hi h hj1 hj]
    exact ⟨fun e => ⟨h, e⟩, fun e => e.2⟩
  · constructor
    · intro e
      exfalso
      have hne : mapId 2 N i j ≠ 1 := by unfold mapId; omega
      simp only [ramseyAssign, hne, if_false] at e
      have hsup := (encode_support e).2
      have : r * N ≤ (i - 1) * N := Nat.mul_le_mul_right N (by omega)
      unfold mapId at hsup
      omega
    · intro e; exact absurd e.1 h

/-- the side conditions hold for the assignment of a table without repetition (increasing under symmetry breaking) -/
theorem ramseyAssign_side {r N M : Nat} (sb c : Bool) {l : List Nat} (hlen : l.length = r)
    (hr : ∀ v ∈ l, 1 ≤ v ∧ v ≤ N) (hs : l.Pairwise (· < ·)) : RamSide M N sb (ramseyAssign r N c l) := by
  have hl := ramseyAssign_encL c hlen hr
  refine ⟨?_, ?_, ?_⟩
  · intro i a _ j d e j' d' e' p p'
    rw [ramseyAssign_rel c hlen hr a d e] at p
    rw [ramseyAssign_rel c hlen hr a d' e'] at p'
    rw [← p.2, ← p'.2]
  · intro j d e i a _ i' a' _ p p'
    have q := (ramseyAssign_rel c hlen hr a d e).1 p
    have q' := (ramseyAssign_rel c hlen hr a' d e).1 p'
    exact (hl.injective_iff.2 (nodup_of_sorted hs)) j d e i a q.1 i' a' q'.1 p p'
  · intro _ i a i' b _ j d e j' d' e' p p'
    have q := (ramseyAssign_rel c hlen hr a d e).1 p
    have q' := (ramseyAssign_rel c hlen hr (by omega) d' e').1 p'
    have := (pairwise_img_iff hlen (· < ·)).2 hs i a i' b q'.1
    rw [q.2, q'.2] at this
    exact this

/-- THE DOCUMENTED STATEMENT ("True if graph contains either k-clique or an s independent set"):
satisfiable iff `G` has a `k`-clique or an independent set of size `s`. -/
def RamseyWitnessDocumented (G : SimpleG) (k s : Nat) (sb : Bool) : Prop :=
  (∃ α, (ramseyWitnessCore G k s sb).holds α = true) ↔ (HasClique G k ∨ HasIndep G s)

/-- the documented statement, at full strength: every graph, EVERY `k` and `s` (equal or not, larger than the graph
or zero), both symmetry modes.  (Before the fix of D25 this was provable only under `k = s` —
`ramseyWitness_sat_iff_partial` — and refuted by `decide` for `k ≠ s`; the two witnesses are kept below.) -/
theorem ramseyWitness_sat_iff (G : SimpleG) (hG : GoodGraph G) (k s : Nat) (sb : Bool) :
    (∃ α, (ramseyWitnessCore G k s sb).holds α = true) ↔ (HasClique G k ∨ HasIndep G s) := by
  constructor
  · rintro ⟨α, hα⟩
    obtain ⟨_, l, ⟨a, b, c, d⟩, _⟩ := (ramseyWitness_holds G hG k s sb α).1 hα
    have hnd : l.Nodup := by
      cases sb
      · exact c
      · exact nodup_of_sorted c
    obtain ⟨l', hp, hs, hm⟩ := exists_sorted_mono G hG (α 1) hnd d
    have hr : ∀ v ∈ l', 1 ≤ v ∧ v ≤ G.n := fun v hv => b v (hp.mem_iff.1 hv)
    have hlen : l'.length = ramRows k s (α 1) := by rw [hp.length_eq, a]
    have hm' := (pairwise_mono_iff hG (α 1) (nodup_of_sorted hs)).1 hm
    cases e : α 1
    · right; rw [e] at hm' hlen; exact ⟨l', ⟨hs, hr, hm'⟩, hlen⟩
    · left; rw [e] at hm' hlen; exact ⟨l', ⟨hs, hr, hm'⟩, hlen⟩
  · have build : ∀ (C : Bool) (S : List Nat), S.Pairwise (· < ·) → (∀ v ∈ S, 1 ≤ v ∧ v ≤ G.n) →
        (∀ u ∈ S, ∀ v ∈ S, u ≠ v → adj G u v = C) → S.length = ramRows k s C →
        ∃ α, (ramseyWitnessCore G k s sb).holds α = true := by
      intro C S hs hr hm hk
      refine ⟨ramseyAssign (ramRows k s C) G.n C S, (ramseyWitness_holds G hG k s sb _).2 ?_⟩
      rw [ramseyAssign_one]
      refine ⟨ramseyAssign_side sb C hk hr hs, S, ⟨hk, hr, ?_, ?_⟩, ramseyAssign_encL C hk hr⟩
      · cases sb
        · exact nodup_of_sorted hs
        · exact hs
      · exact (pairwise_mono_iff hG C (nodup_of_sorted hs)).2 hm
    rintro (⟨S, ⟨hs, hr, hm⟩, hk⟩ | ⟨S, ⟨hs, hr, hm⟩, hk⟩)
    · exact build true S hs hr hm hk
    · exact build false S hs hr hm hk

/-- non-vacuity with `k ≠ s`: the path `1-2-3` has the 2-clique `{1, 2}` (and no independent set of size 3), so the
formula for `k = 2`, `s = 3` is satisfiable -/
example : ∃ α, (ramseyWitnessCore ⟨3, 2, [[], [2], [1, 3], [2]], [(3, 2), (2, 3), (2, 1), (1, 2)]⟩ 2 3 true).holds α = true :=
  (ramseyWitness_sat_iff _ (goodGraph_of_edgeset _ (by decide)) 2 3 true).2
    (Or.inl ⟨[1, 2], ⟨by decide, by decide, by decide⟩, rfl⟩)

theorem ramseyWitness_documented (G : SimpleG) (hG : GoodGraph G) (k s : Nat) (sb : Bool) :
    RamseyWitnessDocumented G k s sb := ramseyWitness_sat_iff G hG k s sb

/-- the same for the call `RamseyWitnessFormula(G, k, s)` with integer arguments: refused (ValueError) exactly for a
negative size, otherwise a formula that is satisfiable iff `G` has a `k`-clique or an independent set of size `s` -/
theorem ramseyWitnessFormula_sat_iff (G : SimpleG) (hG : GoodGraph G) (k s : Int) (sb : Bool) :
    (k < 0 ∨ s < 0 → ramseyWitnessFormula G k s sb = .error .valueError) ∧
    (0 ≤ k → 0 ≤ s → ∃ F, ramseyWitnessFormula G k s sb = .ok F ∧
      ((∃ α, F.holds α = true) ↔ (HasClique G k.toNat ∨ HasIndep G s.toNat))) := by
  constructor
  · intro h
    unfold ramseyWitnessFormula
    by_cases hk : k < 0
    · simp [hk]
    · have hs : s < 0 := by omega
      simp [hk, hs]
  · intro hk hs
    have a : ¬ k < 0 := by omega
    have b : ¬ s < 0 := by omega
    exact ⟨_, by simp [ramseyWitnessFormula, a, b], ramseyWitness_sat_iff G hG k.toNat s.toNat sb⟩

theorem not_hasIndep_of_gt (G : SimpleG) (s : Nat) (h : G.n < s) : ¬ HasIndep G s := by
  rintro ⟨S, ⟨hs, hr, _⟩, hk⟩
  have := List.Nodup.length_le_of_subset (nodup_of_sorted hs) (l₂ := verts G.n)
    (fun v hv => mem_verts.2 (hr v hv))
  rw [verts_length] at this
  omega

/-- no `k`-clique and no independent set of size `s` can exist when both sizes exceed the graph -/
theorem ramseyWitness_unsat_of_gt (G : SimpleG) (hG : GoodGraph G) (k s : Nat) (sb : Bool) (hk : G.n < k) (hs : G.n < s)
    (α : Assign) : (ramseyWitnessCore G k s sb).holds α = false := by
  cases e : (ramseyWitnessCore G k s sb).holds α
  · rfl
  · rcases (ramseyWitness_sat_iff G hG k s sb).1 ⟨α, e⟩ with h | h
    · exact absurd h (not_hasClique_of_gt G k hk)
    · exact absurd h (not_hasIndep_of_gt G s hs)

/-- two isolated vertices -/
def twoIsolated : SimpleG := ⟨2, 0, [[], [], []], []⟩
/-- a single vertex -/
def oneVertex : SimpleG := ⟨1, 0, [[], []], []⟩

theorem twoIsolated_good : GoodGraph twoIsolated := goodGraph_of_edgeset _ (by decide)
theorem oneVertex_good : GoodGraph oneVertex := goodGraph_of_edgeset _ (by decide)

/-- regression of D25, witness 1: two isolated vertices, `k = 2`, `s = 3`.  The old formula was satisfied by
`¬C, 1 ↦ 1, 2 ↦ 2` although there is neither a 2-clique nor an independent set of size 3.  Now that assignment
falsifies the formula (`decide`) and the formula is unsatisfiable. -/
theorem ramseyWitness_regression_twoIsolated (sb : Bool) :
    (ramseyWitnessCore twoIsolated 2 3 sb).holds (ramseyAssign 2 2 false [1, 2]) = false ∧
    ¬ ∃ α, (ramseyWitnessCore twoIsolated 2 3 sb).holds α = true := by
  refine ⟨by cases sb <;> decide, fun h => ?_⟩
  rcases (ramseyWitness_sat_iff twoIsolated twoIsolated_good 2 3 sb).1 h with ⟨S, ⟨hs, _, hm⟩, hk⟩ | hI
  · match S, hk, hs, hm with
    | [a, b], _, hs, hm =>
      have hab : a < b := by simpa using hs
      have := hm a (by simp) b (by simp) (by omega)
      simp [adj_eq_contains, twoIsolated] at this
  · exact not_hasIndep_of_gt twoIsolated 3 (by decide) hI

/-- regression of D25, witness 2: one vertex, `k = 2`, `s = 1`.  `{1}` is an independent set of size 1; the old
formula (two distinct images required in either case) was unsatisfiable.  Now `¬C, 1 ↦ 1` (second row empty)
satisfies it. -/
theorem ramseyWitness_regression_oneVertex (sb : Bool) :
    (ramseyWitnessCore oneVertex 2 1 sb).holds (ramseyAssign 1 1 false [1]) = true ∧
    ¬ HasClique oneVertex 2 ∧ HasIndep oneVertex 1 := by
  refine ⟨by cases sb <;> decide, not_hasClique_of_gt oneVertex 2 (by decide), ?_⟩
  exact ⟨[1], ⟨by simp, by simp [oneVertex], by simp⟩, rfl⟩

theorem ramseyWitnessCore_cnf (G : SimpleG) (k s : Nat) (sb : Bool) (α : Assign) :
    (ramseyWitnessCore G k s sb).toCNF.holds α = (ramseyWitnessCore G k s sb).holds α :=
  Formula.toCNF_holds α _ (ramseyWitnessCore_wf G k s sb)

theorem ramseyWitnessCore_opb (G : SimpleG) (k s : Nat) (sb : Bool) (α : Assign) :
    (ramseyWitnessCore G k s sb).toOPB.holds α = (ramseyWitnessCore G k s sb).holds α :=
  Formula.toOPB_holds α _ (ramseyWitnessCore_wf G k s sb)

/-- the documented statement for what the CNF class emits … -/
theorem ramseyWitness_cnf_sat_iff (G : SimpleG) (hG : GoodGraph G) (k s : Nat) (sb : Bool) :
    (∃ α, (ramseyWitnessCore G k s sb).toCNF.holds α = true) ↔ (HasClique G k ∨ HasIndep G s) := by
  simp only [ramseyWitnessCore_cnf]
  exact ramseyWitness_sat_iff G hG k s sb

/-- … and for what the OPB class emits -/
theorem ramseyWitness_opb_sat_iff (G : SimpleG) (hG : GoodGraph G) (k s : Nat) (sb : Bool) :
    (∃ α, (ramseyWitnessCore G k s sb).toOPB.holds α = true) ↔ (HasClique G k ∨ HasIndep G s) := by
  simp only [ramseyWitnessCore_opb]
  exact ramseyWitness_sat_iff G hG k s sb

/-! ## T-C02.4, option `nontrivial` of `GraphIsomorphism`
(the option was accepted and never read — defect D36, fixed in /repo by 9050d5b; the model follows the fixed code:
with the option the clause `[-x_{u,u} for u in 1..|V₁| if u ≤ |V₂|]` is appended) -/

theorem graphIsomorphismOpt_nvars (G1 G2 : SimpleG) (b : Bool) :
    (graphIsomorphismOpt G1 G2 b).nvars = G1.n * G2.n := rfl

theorem graphIsomorphismOpt_wf (G1 G2 : SimpleG) (b : Bool) : (graphIsomorphismOpt G1 G2 b).WF :=
  wf_of_consIn (graphIsomorphismOpt_consIn G1 G2 b)

/-- exactly what the extra clause says: some vertex `u ≤ min(|V₁|, |V₂|)` is not mapped to itself -/
def MovesVertex (G1 G2 : SimpleG) (α : Assign) : Prop :=
  ∃ u, V G1.n u ∧ u ≤ G2.n ∧ ¬ Rel 1 G2.n α u u

/-- specification theorem for both values of the option -/
theorem graphIsomorphismOpt_holds (G1 G2 : SimpleG) (h1 : GoodGraph G1) (h2 : GoodGraph G2) (b : Bool) (α : Assign) :
    (graphIsomorphismOpt G1 G2 b).holds α = true ↔ IsoSpec G1 G2 α ∧ (b = true → MovesVertex G1 G2 α) := by
  have : (graphIsomorphismOpt G1 G2 b).holds α =
      ((graphIsomorphism G1 G2).holds α && (if b then Con.holds α (notIdentityClause G1.n G2.n) else true)) := by
    cases b <;> simp [Formula.holds, graphIsomorphismOpt, List.all_append]
  rw [this, Bool.and_eq_true, graphIsomorphism_holds G1 G2 h1 h2]
  cases b
  · simp
  · simp only [if_true, forall_const, notIdentityClause_holds]
    unfold MovesVertex V Rel
    constructor
    · rintro ⟨h, u, a, c, d, e⟩; exact ⟨h, u, ⟨a, c⟩, d, by simp [e]⟩
    · rintro ⟨h, u, ⟨a, c⟩, d, e⟩; exact ⟨h, u, a, c, d, by simpa using e⟩

/-- the satisfying assignments are the encodings of the isomorphism tables — other than the identical table
`[1, …, n]` when the option is on -/
theorem graphIsomorphismOpt_holds_iff_table (G1 G2 : SimpleG) (h1 : GoodGraph G1) (h2 : GoodGraph G2) (b : Bool)
    (α : Assign) :
    (graphIsomorphismOpt G1 G2 b).holds α = true ↔
      ∃ l, (IsIsoTable G1 G2 l ∧ (b = true → l ≠ verts G1.n)) ∧ EncL 1 G1.n G2.n α l := by
  rw [graphIsomorphismOpt_holds G1 G2 h1 h2, ← graphIsomorphism_holds G1 G2 h1 h2,
    graphIsomorphism_holds_iff_table G1 G2 h1 h2]
  unfold MovesVertex V Rel
  constructor
  · rintro ⟨⟨l, hl, he⟩, hm⟩
    refine ⟨l, ⟨hl, ?_⟩, he⟩
    intro hb e
    obtain ⟨u, ⟨a, c⟩, d, hu⟩ := hm hb
    apply hu
    rw [he.rel_iff a c a d, e, img_verts a c]
  · rintro ⟨l, ⟨hl, hne⟩, he⟩
    refine ⟨⟨l, hl, he⟩, ?_⟩
    intro hb
    have hn := isIsoTable_order_eq G1 G2 l hl
    apply Classical.byContradiction
    intro hno
    apply hne hb
    apply ext_img (by rw [hl.len, verts_length])
    intro i a c
    rw [hl.len] at c
    rw [img_verts a c]
    apply Classical.byContradiction
    intro hi
    exact hno ⟨i, ⟨a, c⟩, by omega, fun r => hi ((he.rel_iff a c a (by omega)).1 r)⟩

/-- satisfiable iff an isomorphism exists — other than the identical mapping when the option is on -/
theorem graphIsomorphismOpt_sat_iff (G1 G2 : SimpleG) (h1 : GoodGraph G1) (h2 : GoodGraph G2) (b : Bool) :
    (∃ α, (graphIsomorphismOpt G1 G2 b).holds α = true) ↔
      ∃ l, IsIsoTable G1 G2 l ∧ (b = true → l ≠ verts G1.n) := by
  constructor
  · rintro ⟨α, hα⟩
    obtain ⟨l, hl, _⟩ := (graphIsomorphismOpt_holds_iff_table G1 G2 h1 h2 b α).1 hα
    exact ⟨l, hl⟩
  · rintro ⟨l, hl⟩
    exact ⟨encode 1 G1.n G2.n l,
      (graphIsomorphismOpt_holds_iff_table G1 G2 h1 h2 b _).2 ⟨l, hl, encode_encL hl.1.len hl.1.rng⟩⟩

/-- one satisfying assignment per (non-identical) isomorphism -/
theorem graphIsomorphismOpt_count (G1 G2 : SimpleG) (h1 : GoodGraph G1) (h2 : GoodGraph G2) (b : Bool) :
    (∀ l, (IsIsoTable G1 G2 l ∧ (b = true → l ≠ verts G1.n)) →
        (graphIsomorphismOpt G1 G2 b).holds (encode 1 G1.n G2.n l) = true) ∧
    (∀ α, (graphIsomorphismOpt G1 G2 b).holds α = true →
        ∃ l, (IsIsoTable G1 G2 l ∧ (b = true → l ≠ verts G1.n)) ∧ AgreeOn (G1.n * G2.n) α (encode 1 G1.n G2.n l)) ∧
    (∀ l l', (IsIsoTable G1 G2 l ∧ (b = true → l ≠ verts G1.n)) → (IsIsoTable G1 G2 l' ∧ (b = true → l' ≠ verts G1.n)) →
        AgreeOn (G1.n * G2.n) (encode 1 G1.n G2.n l) (encode 1 G1.n G2.n l') → l = l') :=
  unary_counting (graphIsomorphismOpt G1 G2 b) G1.n G2.n rfl
    (fun l => IsIsoTable G1 G2 l ∧ (b = true → l ≠ verts G1.n))
    (graphIsomorphismOpt_holds_iff_table G1 G2 h1 h2 b) (fun _ hl => ⟨hl.1.len, hl.1.rng⟩)

theorem graphIsomorphismOpt_models_equiv (G1 G2 : SimpleG) (h1 : GoodGraph G1) (h2 : GoodGraph G2) (b : Bool) :
    Nonempty (Models (graphIsomorphismOpt G1 G2 b) ≃
      {l : List Nat // IsIsoTable G1 G2 l ∧ (b = true → l ≠ verts G1.n)}) :=
  unary_counting_equiv (graphIsomorphismOpt G1 G2 b) (graphIsomorphismOpt_wf G1 G2 b) G1.n G2.n rfl
    (fun l => IsIsoTable G1 G2 l ∧ (b = true → l ≠ verts G1.n))
    (graphIsomorphismOpt_holds_iff_table G1 G2 h1 h2 b) (fun _ hl => ⟨hl.1.len, hl.1.rng⟩)

/-- non-vacuity (and regression of D36): on the one-vertex graph the identical mapping `x_{1,1}` satisfies the
formula without the option and falsifies it with the option -/
theorem graphIsomorphismOpt_oneVertex :
    (graphIsomorphismOpt oneVertex oneVertex false).holds (encode 1 1 1 [1]) = true ∧
    (graphIsomorphismOpt oneVertex oneVertex true).holds (encode 1 1 1 [1]) = false := by
  constructor <;> decide

/-- `GraphAutomorphism(G)` is `GraphIsomorphism(G, G, nontrivial=True)` -/
theorem graphAutomorphism_eq_graphIsomorphismOpt (G : SimpleG) :
    graphAutomorphism G = graphIsomorphismOpt G G true := graphAutomorphism_eq_opt G

theorem graphIsomorphismOpt_cnf (G1 G2 : SimpleG) (b : Bool) (α : Assign) :
    (graphIsomorphismOpt G1 G2 b).toCNF.holds α = (graphIsomorphismOpt G1 G2 b).holds α :=
  Formula.toCNF_holds α _ (graphIsomorphismOpt_wf G1 G2 b)

theorem graphIsomorphismOpt_opb (G1 G2 : SimpleG) (b : Bool) (α : Assign) :
    (graphIsomorphismOpt G1 G2 b).toOPB.holds α = (graphIsomorphismOpt G1 G2 b).holds α :=
  Formula.toOPB_holds α _ (graphIsomorphismOpt_wf G1 G2 b)

end Cnfgen.C02
