/-
C02 — `CliqueFormula` (and its helper `non_edges`) as TRANSLATED from cnfgen/families/subgraph.py is `Fam.G2.cliqueFormula` of
the model, for every graph value, every integer `k` and both values of `symbreak`: the translated `new_mapping`,
`force_complete / functional / injective / nondecreasing_mapping`, `to_dict()` (a dictionary comprehension) and the lookups
`s[i, j]`.
-/
import Lemmas.GenFamClique
import Lemmas.GraphInv
import Props.C01.Generated
import Props.C02.Graphs2
set_option linter.unusedSimpArgs false
namespace Cnfgen.C02
open Cnfgen Cnfgen.Vars Cnfgen.PyGen Cnfgen.GenVars Cnfgen.Fam Cnfgen.PyF Cnfgen.GenFam Cnfgen.C11
open Cnfgen.C01 (stateOf formulaOf formulaOf_stateOf gen_non_negative_int_eq)

theorem smap_row_mRow (s k N u : Nat) (hu : 1 ≤ u ∧ u ≤ k) :
    (SMap.mk (BipG.complete k N) s).row u = G2.mRow s N u := by
  rw [smap_row_complete_start _ _ _ _ hu]
  simp [UMap.row, UMap.lit, UMap.var, G2.mRow, G2.mlit, G2.verts, idx]

theorem smap_col_mCol (s k N v : Nat) (hv : 1 ≤ v ∧ v ≤ N) :
    (SMap.mk (BipG.complete k N) s).col v = G2.mCol s k N v := by
  rw [smap_col_complete_start _ _ _ _ hv]
  simp [UMap.col, UMap.lit, UMap.var, G2.mCol, G2.mlit, G2.verts, idx]

theorem smap_forceComplete (s k N : Nat) : (SMap.mk (BipG.complete k N) s).forceComplete = G2.forceComplete s k N := by
  have hl : (BipG.complete k N).l = k := rfl
  simp only [SMap.forceComplete, G2.forceComplete, hl, G2.verts, idx]
  apply List.map_congr_left
  intro u hu
  rw [smap_row_mRow s k N u (Fam.mem_idx.1 hu)]

theorem smap_forceFunctional (s k N : Nat) :
    (SMap.mk (BipG.complete k N) s).forceFunctional = G2.forceFunctional s k N := by
  have hl : (BipG.complete k N).l = k := rfl
  simp only [SMap.forceFunctional, G2.forceFunctional, hl, G2.verts, idx]
  apply List.map_congr_left
  intro u hu
  rw [smap_row_mRow s k N u (Fam.mem_idx.1 hu)]

theorem smap_forceInjective (s k N : Nat) :
    (SMap.mk (BipG.complete k N) s).forceInjective = G2.forceInjective s k N := by
  have hr : (BipG.complete k N).r = N := rfl
  simp only [SMap.forceInjective, G2.forceInjective, hr, G2.verts, idx]
  apply List.map_congr_left
  intro v hv
  rw [smap_col_mCol s k N v (Fam.mem_idx.1 hv)]

/-- the "local consistency" loop of `CliqueFormula` -/
theorem clique_edge_loop (G : SimpleG) (k : Nat) (symbreak : Bool) (body : FState → ((Int × Int) × (Int × Int)) → Except Err FState)
    (hbody : ∀ F x, body F x = (
      (Py.dictGet (unaryDict 0 (BipG.complete k G.n)) (x.1.1, x.2.1)) >>= fun x11 =>
      (Py.dictGet (unaryDict 0 (BipG.complete k G.n)) (x.1.2, x.2.2)) >>= fun x12 =>
      (PyF.add_clause F [(-x11), (-x12)] false) >>= fun F13 =>
      (if (¬ (symbreak = true)) then
        (Py.dictGet (unaryDict 0 (BipG.complete k G.n)) (x.1.1, x.2.2)) >>= fun x14 =>
        (Py.dictGet (unaryDict 0 (BipG.complete k G.n)) (x.1.2, x.2.1)) >>= fun x15 =>
        (PyF.add_clause F13 [(-x14), (-x15)] false) >>= fun F16 =>
        Except.ok F16
      else
        Except.ok F13) >>= fun F =>
      Except.ok F)) (s : FState) :
    List.foldlM body s (Py.product2 (Py.combos2 (Py.Range.toList (Py.Range.mk (1 : Int) ((k : Int) + (1 : Int)))))
        (non_edges (absGraph G))) =
      Except.ok { s with cons := s.cons ++ G2.cliqueEdgeCons G k symbreak } := by
  have hw := BipG.wf_complete k G.n
  rw [Py.foldlM_ext body _ hbody, gen_non_edges_eq_model, range_toList_nat, combos2_eq_pairs, ints, pairs_map]
  rw [foldlM_pushAll _ _ (fun (x : (Int × Int) × (Int × Int)) =>
    Con.clause [-(G2.mlit 1 G.n x.1.1.toNat x.2.1.toNat), -(G2.mlit 1 G.n x.1.2.toNat x.2.2.toNat)] ::
      (if !symbreak then [Con.clause [-(G2.mlit 1 G.n x.1.1.toNat x.2.2.toNat), -(G2.mlit 1 G.n x.1.2.toNat x.2.1.toNat)]]
       else []))]
  · simp [G2.cliqueEdgeCons, Py.product2, pairs_eq_pairs2, intPairs, List.flatMap_map, Function.comp_def, G2.verts,
      Fam.idx, List.flatMap_assoc, Int.toNat_natCast]
  · intro s x hx
    simp only [Py.product2, intPairs, List.mem_flatMap, List.mem_map] at hx
    obtain ⟨i', ⟨i, hi, rfl⟩, j', ⟨j, hj, rfl⟩, rfl⟩ := hx
    have hi' := mem_of_mem_pairs' hi
    have hi1 := Fam.mem_rangeN.1 hi'.1
    have hi2 := Fam.mem_rangeN.1 hi'.2
    have hj' : j ∈ G2.pairs2 (G2.verts G.n) := (List.mem_filter.1 hj).1
    rw [← pairs_eq_pairs2] at hj'
    have hj'' := mem_of_mem_pairs' hj'
    have hj1 := Fam.mem_rangeN.1 hj''.1
    have hj2 := Fam.mem_rangeN.1 hj''.2
    have he : ∀ a b, (1 ≤ a ∧ a < k + 1) → (1 ≤ b ∧ b < G.n + 1) →
        Py.dictGet (unaryDict 0 (BipG.complete k G.n)) ((a : Int), (b : Int)) = Except.ok (G2.mlit 1 G.n a b) := by
      intro a b ha hb
      rw [unaryDict_get 0 hw a b (BipG.mem_complete_edgeset.2 ⟨ha.1, by omega, hb.1, by omega⟩),
        bipId_complete_start (0 + 1) k G.n a b ⟨ha.1, by omega⟩ ⟨hb.1, by omega⟩]
      rfl
    simp only [Int.ofNat_eq_natCast, he i.1 j.1 hi1 hj1, he i.2 j.2 hi2 hj2, he i.1 j.2 hi1 hj2, he i.2 j.1 hi2 hj1,
      Py.ok_bind, add_clause_nocheck, Int.toNat_natCast]
    cases symbreak <;> simp [push]

/-- **`CliqueFormula` of the source is `Fam.G2.cliqueFormula` of the model** — every graph value, every integer `k` (negative:
the same ValueError), both values of `symbreak` -/
theorem gen_clique_eq_model (G : SimpleG) (k : Int) (symbreak : Bool) :
    CliqueFormula (absGraph G) k symbreak = (G2.cliqueFormula G k symbreak).map stateOf := by
  unfold CliqueFormula
  rw [cliqueFormula_eq]
  simp only [gen_non_negative_int_eq]
  by_cases hk : k < 0
  · simp [hk]
  · obtain ⟨k, rfl⟩ := Int.eq_ofNat_of_zero_le (by omega : 0 ≤ k)
    have hn : (absGraph G).order = (G.n : Int) := rfl
    have hneg : ¬ ((k : Int) < 0 ∨ (G.n : Int) < 0) := by omega
    simp only [hk, if_false, Py.ok_bind, hn, Py.map_ok, Int.toNat_natCast]
    rw [new_mapping_eq PyF.empty 0 rfl, if_neg hneg]
    simp only [Py.tryExcept, Py.ok_bind, Int.toNat_natCast]
    have hw := BipG.wf_complete k G.n
    rw [force_complete_unary_eq _ 0 hw, Py.ok_bind, force_functional_unary_eq _ 0 hw, Py.ok_bind,
      force_injective_unary_eq _ 0 hw, Py.ok_bind]
    cases symbreak
    · simp only [Bool.false_eq_true, if_false, Py.ok_bind]
      rw [to_dict_unary_eq 0 hw, Py.ok_bind, clique_edge_loop G k false _ (by intro F x; rfl), Py.ok_bind]
      simp [stateOf, PyF.empty, G2.cliqueCore, smap_forceComplete, smap_forceFunctional, smap_forceInjective]
    · simp only [if_true]
      rw [force_nondecreasing_unary_complete, Py.ok_bind, Py.ok_bind, to_dict_unary_eq 0 hw, Py.ok_bind,
        clique_edge_loop G k true _ (by intro F x; rfl), Py.ok_bind]
      simp [stateOf, PyF.empty, G2.cliqueCore, smap_forceComplete, smap_forceFunctional, smap_forceInjective]


/-- **the k-clique formula of the source is satisfiable exactly when the graph has a `k`-clique** — on the generated
definition, for every graph object built by `add_edge`, with and without symmetry breaking: `k·n` variables; the
formula (abstract constraints, CNF, OPB) has a model iff `G` has a clique of size `k` -/
theorem gen_clique_sat_iff (G : SimpleG) (hG : SimpleG.Inv G) (k : Nat) (sb : Bool) :
    ∃ s : FState, CliqueFormula (absGraph G) (k : Int) sb = Except.ok s ∧ s.numvar = ((k * G.n : Nat) : Int) ∧
      ((∃ α, (formulaOf s).holds α = true) ↔ HasClique G k) ∧
      ((∃ α, (formulaOf s).toCNF.holds α = true) ↔ HasClique G k) ∧
      ((∃ α, (formulaOf s).toOPB.holds α = true) ↔ HasClique G k) := by
  have hgood : G2.GoodGraph G :=
    G2.goodGraph_of_edgeset G (fun e he => ⟨hG.symm e.1 e.2 he, (hG.range e.1 e.2 he).2.2.2.2⟩)
  refine ⟨stateOf (G2.cliqueCore G k sb), ?_, rfl, ?_, ?_, ?_⟩
  · rw [gen_clique_eq_model, cliqueFormula_eq]
    have : ¬ ((k : Int) < 0) := by omega
    simp [this]
  · rw [formulaOf_stateOf]; exact cliqueCore_sat_iff G hgood k sb
  · rw [formulaOf_stateOf, ← cliqueCore_sat_iff G hgood k sb]
    simp only [cliqueCore_cnf]
  · rw [formulaOf_stateOf, ← cliqueCore_sat_iff G hgood k sb]
    simp only [cliqueCore_opb]

end Cnfgen.C02
