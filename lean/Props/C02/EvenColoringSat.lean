/-
C02 — the even-colouring formula: "satisfiable iff every connected component has an even number
of edges" (all degrees even, which is what the generator insists on), both directions.

* only if: summing the vertex equations over a vertex set closed under adjacency (handshake,
  `evenColoring_parity`) and identifying the sum of the half-degrees with the number of edges
  inside the set (`closed_degree_sum`, `Lemmas/FamTseitinCountECHand.lean`);
* if: Euler's theorem for each component (`exists_euler_circuit`, longest-trail argument on
  Mathlib's `SimpleGraph.Walk`), the edges of the circuit coloured alternately (`alt_balance`);
  an odd circuit is excluded by the handshake lemma (`comp_colouring`); the components are glued
  by choice (`evenColoring_converse`, `Lemmas/FamTseitinCountECMain.lean`).

As in `TseitinSatIff`, "every component" is expressed through the vertex sets closed under
adjacency (every component is one, every closed set is a union of components);
`edgesIn G C` = number of `(u,v) ∈ G.edges()` with `u ∈ C` (for closed `C`: the edges inside `C`).
-/
import Lemmas.FamTseitinCountECMain
import Lemmas.FamTseitinCountECHand
namespace Cnfgen.C02
open Cnfgen Cnfgen.Fam

/-- handshake: over a closed vertex set the degrees add up to twice the number of edges inside;
with all degrees even the half-degrees add up to the number of edges inside — this identifies the
quantity of `evenColoring_sat_components_partial` with the edge count -/
theorem evenColoring_half_degree_sum (G : SimpleG) (hG : GoodGraph G) (C : Nat → Bool)
    (hC : ∀ v u, C v = true → u ∈ G.nbrs v → C u = true) :
    (∑ v ∈ (Finset.Icc 1 G.n).filter (fun v => C v = true), (G.nbrs v).length = 2 * edgesIn G C) ∧
    ((∀ v, 1 ≤ v → v ≤ G.n → (G.nbrs v).length % 2 = 0) →
      ∑ v ∈ (Finset.Icc 1 G.n).filter (fun v => C v = true), (G.nbrs v).length / 2 = edgesIn G C) := by
  have h := closed_degree_sum hG C hC
  refine ⟨h, fun hdeg => ?_⟩
  have h2 : ∑ v ∈ (Finset.Icc 1 G.n).filter (fun v => C v = true), (G.nbrs v).length =
      ∑ v ∈ (Finset.Icc 1 G.n).filter (fun v => C v = true), (G.nbrs v).length / 2 +
      ∑ v ∈ (Finset.Icc 1 G.n).filter (fun v => C v = true), (G.nbrs v).length / 2 := by
    rw [← Finset.sum_add_distrib]
    apply Finset.sum_congr rfl
    intro v hv
    rw [Finset.mem_filter, Finset.mem_Icc] at hv
    have := hdeg v hv.1.1 hv.1.2
    omega
  omega

/-- the documented criterion for the even-colouring formula: satisfiable iff every vertex set
closed under adjacency (every connected component, every union of components) contains an even
number of edges -/
def EvenColoringSatIff (G : SimpleG) : Prop :=
  (∃ α, (evenColoringF G).holds α = true) ↔
    ∀ C : Nat → Bool, (∀ v u, C v = true → u ∈ G.nbrs v → C u = true) → Even (edgesIn G C)

/-- **T-C02.3d** the full criterion, both directions, for every good graph all of whose degrees
are even (the graphs the generator accepts, `evenColoring_validation`) -/
theorem evenColoring_sat_iff (G : SimpleG) (hG : GoodGraph G)
    (hdeg : ∀ v, 1 ≤ v → v ≤ G.n → (G.nbrs v).length % 2 = 0) : EvenColoringSatIff G := by
  constructor
  · rintro ⟨α, hα⟩ C hC
    rw [← (evenColoring_half_degree_sum G hG C hC).2 hdeg]
    exact evenColoring_parity G hG α ((evenColoringF_holds_iff G hG α).1 hα) C hC
  · intro h
    obtain ⟨α, hα⟩ := evenColoring_converse hG hdeg (fun C hC => by
      rw [(evenColoring_half_degree_sum G hG C hC).2 hdeg]; exact h C hC)
    exact ⟨α, (evenColoringF_holds_iff G hG α).2 hα⟩

/-- the same for the generator itself: whenever `EvenColoringFormula(G)` is built (no
`ValueError`), it is satisfiable iff every closed vertex set contains an even number of edges -/
theorem evenColoring_generator_sat_iff (G : SimpleG) (hG : GoodGraph G) (F : Formula)
    (hF : evenColoring G = .ok F) :
    (∃ α, F.holds α = true) ↔
      ∀ C : Nat → Bool, (∀ v u, C v = true → u ∈ G.nbrs v → C u = true) → Even (edgesIn G C) := by
  have hdeg := (evenColoring_ok_iff G).1 ⟨F, hF⟩
  have hFe : F = evenColoringF G := by
    unfold evenColoring at hF
    split at hF
    · cases hF
    · cases hF; rfl
  rw [hFe]
  exact evenColoring_sat_iff G hG hdeg

/-- Euler's theorem as used here: in a good graph with all degrees even, the edges of the
component of any vertex `r` form a closed trail of the graph -/
theorem euler_circuit (G : SimpleG) (hG : GoodGraph G)
    (hdeg : ∀ v, 1 ≤ v → v ≤ G.n → (G.nbrs v).length % 2 = 0) (r : Nat) (hr : 1 ≤ r ∧ r ≤ G.n) :
    ∃ (u : ℕ) (p : (toSG G).Walk u u), Reach G r u ∧ p.IsTrail ∧
      ∀ a b, Reach G r a → b ∈ G.nbrs a → s(a, b) ∈ p.edges :=
  exists_euler_circuit hG hdeg hr

/-! ### non-vacuity -/

/-- the triangle -/
def exK3 : SimpleG :=
  ⟨3, 3, [[], [2, 3], [1, 3], [1, 2]], [(3, 1), (1, 3), (3, 2), (2, 3), (2, 1), (1, 2)]⟩

/-- the 4-cycle -/
def exC4 : SimpleG :=
  ⟨4, 4, [[], [2, 4], [1, 3], [2, 4], [1, 3]],
    [(4, 1), (1, 4), (4, 3), (3, 4), (3, 2), (2, 3), (2, 1), (1, 2)]⟩

example : SimpleG.ofEdges 3 [(1, 2), (2, 3), (1, 3)] = .ok exK3 ∧ GoodGraph exK3 ∧
    SimpleG.ofEdges 4 [(1, 2), (2, 3), (3, 4), (1, 4)] = .ok exC4 ∧ GoodGraph exC4 := by
  refine ⟨by decide, by decide, by decide, by decide⟩

/-- the triangle is accepted by the generator (all degrees 2) but has 3 edges: unsatisfiable -/
example : (∃ F, evenColoring exK3 = .ok F) ∧ ¬ ∃ α, (evenColoringF exK3).holds α = true := by
  have hdeg : ∀ v, 1 ≤ v → v ≤ exK3.n → (exK3.nbrs v).length % 2 = 0 := by
    intro v h1 h2
    have : v ≤ 3 := h2
    have : v = 1 ∨ v = 2 ∨ v = 3 := by omega
    rcases this with rfl | rfl | rfl <;> decide
  refine ⟨(evenColoring_ok_iff exK3).2 hdeg, fun h => ?_⟩
  have := (evenColoring_sat_iff exK3 (by decide) hdeg).1 h (fun _ => true) (fun _ _ _ _ => rfl)
  revert this; decide

/-- the 4-cycle (one component, 4 edges) is satisfiable: colour the edges 1-2 and 3-4 -/
example : ∃ α, (evenColoringF exC4).holds α = true :=
  ⟨fun i => i == 1 || i == 4, by decide⟩

end Cnfgen.C02
