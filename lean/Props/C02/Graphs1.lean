/-
C02 (first share) — graph-problem families: Tseitin, k-colouring, even colouring, dominating set
(both encodings), tiling.  Property theorems only; helper lemmas are in `Lemmas/Fam*.lean`.

Every family model is a `Formula` (list of abstract constraints); `…_holds` theorems are about
its arithmetic meaning, `…_cnf` / `…_opb` transfer them to the two renderings that the
correspondence harness compares with the real code.  `GoodGraph G` is the invariant of
`cnfgen.graphs.Graph` objects (sorted, symmetric, loop-free adjacency within `1..n`).
-/
import Lemmas.FamTseitin
import Lemmas.FamTseitinConv
import Lemmas.FamColoring
import Lemmas.FamDomSet
namespace Cnfgen.C02
open Cnfgen Cnfgen.Fam Cnfgen.Vars

/-- non-vacuity of the hypothesis `GoodGraph`: a disconnected graph with an isolated vertex,
obtained through `add_edge` -/
example : GoodGraph exG ∧ SimpleG.ofEdges 6 [(1, 2), (2, 3), (1, 3), (4, 5)] = .ok exG :=
  ⟨exG_good, exG_reachable⟩

/-- `G.edges()` of a good graph: the pairs `u < v` with `v` adjacent to `u` (this is the edge
relation used by `ProperColoring` and by the edge variables) -/
theorem edges_spec (G : SimpleG) (hG : GoodGraph G) (u v : Nat) :
    (u, v) ∈ G.edges ↔ u < v ∧ v ∈ G.nbrs u ∧ u ≤ G.n :=
  mem_edges hG

/-! ## Tseitin -/

/-- T-C02.1a all literals are edge variables `1..|E|`; the variable count is the edge count -/
theorem tseitin_wf (G : SimpleG) (hG : GoodGraph G) (ch : Option (List Bool)) :
    (tseitin G ch).WF ∧ (tseitin G ch).nvars = G.m :=
  ⟨Fam.tseitin_wf G hG ch, hG.2.1.symm⟩

/-- distinct edges have distinct variables, all within `start .. start+|E|-1` -/
theorem edge_variables (G : SimpleG) (hG : GoodGraph G) (s : Nat) {u v u' v' : Nat}
    (huv : u < v) (hv : v ∈ G.nbrs u) (hu : u ≤ G.n)
    (huv' : u' < v') (hv' : v' ∈ G.nbrs u') (hu' : u' ≤ G.n) :
    (s ≤ edgeId G s u v ∧ edgeId G s u v < s + G.edges.length) ∧
    (edgeId G s u v = edgeId G s u' v' → u = u' ∧ v = v') :=
  ⟨edgeId_bounds hG s hu hv, edgeId_inj hG s huv hv hu huv' hv' hu'⟩

/-- T-C02.1b specification: `α` satisfies the formula iff at every vertex the xor of the incident
edge variables is the charge of the vertex (every graph value, every charge vector, every α) -/
theorem tseitin_holds (G : SimpleG) (ch : Option (List Bool)) (α : Assign) :
    (tseitin G ch).holds α = true ↔ TseitinSpec G ch α :=
  tseitin_holds_iff G ch α

/-- the charges: default = odd on vertex 1 only; explicit = entry `v`, `False` beyond the end
(padding), entries beyond `n` never used (truncation) -/
theorem tseitin_charges (n v : Nat) (hv : 1 ≤ v) (c : List Bool) :
    chargeAt n none v = decide (v = 1) ∧ chargeAt n (some c) v = c.getD (v - 1) false :=
  ⟨chargeAt_none n v hv, chargeAt_some n c v⟩

theorem tseitin_cnf (G : SimpleG) (hG : GoodGraph G) (ch : Option (List Bool)) (α : Assign) :
    (tseitin G ch).toCNF.holds α = true ↔ TseitinSpec G ch α := by
  rw [Formula.toCNF_holds α _ (Fam.tseitin_wf G hG ch)]; exact tseitin_holds_iff G ch α

theorem tseitin_opb (G : SimpleG) (hG : GoodGraph G) (ch : Option (List Bool)) (α : Assign) :
    (tseitin G ch).toOPB.holds α = true ↔ TseitinSpec G ch α := by
  rw [Formula.toOPB_holds α _ (Fam.tseitin_wf G hG ch)]; exact tseitin_holds_iff G ch α

/-- The documented criterion: satisfiable iff every connected component has an even number of
odd-charged vertices.  A vertex set closed under adjacency is a union of components and every
component is such a set, so the criterion reads: -/
def TseitinSatIff (G : SimpleG) (ch : Option (List Bool)) : Prop :=
  (∃ α, (tseitin G ch).holds α = true) ↔
    ∀ C : Nat → Bool, (∀ v u, C v = true → u ∈ G.nbrs v → C u = true) →
      Even ((Finset.Icc 1 G.n).filter (fun v => C v = true ∧ chargeAt G.n ch v = true)).card

/-- T-C02.1c the "only if" half — sum of the vertex equations over a closed vertex set, every
internal edge counted twice -/
theorem tseitin_sat_components (G : SimpleG) (hG : GoodGraph G) (ch : Option (List Bool))
    (h : ∃ α, (tseitin G ch).holds α = true) (C : Nat → Bool)
    (hC : ∀ v u, C v = true → u ∈ G.nbrs v → C u = true) :
    Even ((Finset.Icc 1 G.n).filter (fun v => C v = true ∧ chargeAt G.n ch v = true)).card := by
  obtain ⟨α, hα⟩ := h
  exact tseitin_parity G hG ch α ((tseitin_holds_iff G ch α).1 hα) C hC

/-- T-C02.1d the full criterion, both directions (the converse repairs defective vertices in
pairs by flipping the edge variables along a walk; `Lemmas/FamTseitinConv.lean`).
NOT proven here: the model count `2^(|E|-|V|+c)` of a satisfiable instance — mathematics about
the parity system, not about the code; cross-checked by the harness oracle on every generated
instance with at most 16/18 variables (a test, labelled as a test). -/
theorem tseitin_sat_iff (G : SimpleG) (hG : GoodGraph G) (ch : Option (List Bool)) :
    TseitinSatIff G ch := by
  constructor
  · intro h C hC; exact tseitin_sat_components G hG ch h C hC
  · intro h
    obtain ⟨α, hα⟩ := tseitin_converse hG ch h
    exact ⟨α, (tseitin_holds_iff G ch α).2 hα⟩

/-- non-vacuity: on `exG` with default charges the closed set {1,2,3} (the triangle) contains the
single odd vertex, so the formula is unsatisfiable -/
example : ¬ ∃ α, (tseitin exG none).holds α = true := by
  intro h
  have := tseitin_sat_components exG exG_good none h (fun v => decide (v ≤ 3))
    exG_triangle_closed
  revert this; decide

/-! ## k-colouring -/

/-- T-C02.2a parameter validation: negative `colors` is refused with `ValueError`, everything
else is accepted -/
theorem coloring_validation (G : SimpleG) (k : Int) (fn : Bool) :
    coloring G k fn = if k < 0 then .error .valueError else .ok (coloringF G k.toNat fn) := rfl

theorem coloring_wf (G : SimpleG) (hG : GoodGraph G) (k : Nat) (fn : Bool) :
    (coloringF G k fn).WF ∧ (coloringF G k fn).nvars = G.n * k :=
  ⟨coloringF_wf G hG k fn, rfl⟩

/-- T-C02.2b specification: every vertex has a colour, at most one if `functional`, and no edge
is monochromatic -/
theorem coloring_holds (G : SimpleG) (k : Nat) (fn : Bool) (α : Assign) :
    (coloringF G k fn).holds α = true ↔ ColoringSpec G k fn α :=
  coloringF_holds_iff G k fn α

theorem coloring_cnf (G : SimpleG) (hG : GoodGraph G) (k : Nat) (fn : Bool) (α : Assign) :
    (coloringF G k fn).toCNF.holds α = true ↔ ColoringSpec G k fn α := by
  rw [Formula.toCNF_holds α _ (coloringF_wf G hG k fn)]; exact coloringF_holds_iff G k fn α

theorem coloring_opb (G : SimpleG) (hG : GoodGraph G) (k : Nat) (fn : Bool) (α : Assign) :
    (coloringF G k fn).toOPB.holds α = true ↔ ColoringSpec G k fn α := by
  rw [Formula.toOPB_holds α _ (coloringF_wf G hG k fn)]; exact coloringF_holds_iff G k fn α

/-- T-C02.2c satisfiable iff a proper `k`-colouring exists (both values of `functional`; in
particular unsatisfiable for `k = 0` on a non-empty graph) -/
theorem coloring_sat_iff (G : SimpleG) (hG : GoodGraph G) (k : Nat) (fn : Bool) :
    (∃ α, (coloringF G k fn).holds α = true) ↔ ∃ col, ProperColoring G k col := by
  constructor
  · rintro ⟨α, h⟩
    exact ⟨toCol k α, coloring_toCol_proper G hG k fn α ((coloringF_holds_iff G k fn α).1 h)⟩
  · rintro ⟨col, h⟩
    exact ⟨ofCol k col, (coloringF_holds_iff G k fn _).2 (coloring_ofCol_spec G hG k fn col h)⟩

/-- T-C02.2d with `functional`, models (restricted to the `n·k` variables) and proper colourings
(restricted to the vertices) are in bijection through `toCol` / `ofCol`: both maps land in the
right set and are inverse to each other — so the model count is the number of proper colourings -/
theorem coloring_bijection (G : SimpleG) (hG : GoodGraph G) (k : Nat) :
    (∀ α, (coloringF G k true).holds α = true → ProperColoring G k (toCol k α)) ∧
    (∀ col, ProperColoring G k col → (coloringF G k true).holds (ofCol k col) = true) ∧
    (∀ col, ProperColoring G k col → ∀ v, 1 ≤ v → v ≤ G.n → toCol k (ofCol k col) v = col v) ∧
    (∀ α, (coloringF G k true).holds α = true →
      ∀ x, 1 ≤ x → x ≤ (coloringF G k true).nvars → ofCol k (toCol k α) x = α x) :=
  ⟨fun α h => coloring_toCol_proper G hG k true α ((coloringF_holds_iff G k true α).1 h),
   fun col h => (coloringF_holds_iff G k true _).2 (coloring_ofCol_spec G hG k true col h),
   fun col h v h1 h2 => toCol_ofCol G k col h.1 v h1 h2,
   fun α h x h1 h2 => ofCol_toCol G k α ((coloringF_holds_iff G k true α).1 h) x h1 h2⟩

/-- non-vacuity: the triangle inside `exG` has no proper 2-colouring, hence the formula with two
colours is unsatisfiable -/
example : ¬ ∃ α, (coloringF exG 2 true).holds α = true := by
  rw [coloring_sat_iff exG exG_good 2 true]
  rintro ⟨col, hr, hp⟩
  have h12 := hp (1, 2) (by decide)
  have h23 := hp (2, 3) (by decide)
  have h13 := hp (1, 3) (by decide)
  have r1 := hr 1 (by decide) (by decide)
  have r2 := hr 2 (by decide) (by decide)
  have r3 := hr 3 (by decide) (by decide)
  simp only at h12 h23 h13
  omega

/-! ## even colouring -/

/-- T-C02.3a the generator refuses exactly the graphs with a vertex of odd degree -/
theorem evenColoring_validation (G : SimpleG) :
    ((∃ F, evenColoring G = .ok F) ↔ ∀ v, 1 ≤ v → v ≤ G.n → (G.nbrs v).length % 2 = 0) ∧
    (∀ F, evenColoring G = .ok F → F = evenColoringF G) ∧
    (∀ e, evenColoring G = .error e → e = .valueError) := by
  refine ⟨evenColoring_ok_iff G, ?_, ?_⟩
  · intro F h; unfold evenColoring at h; split at h
    · cases h
    · cases h; rfl
  · intro e h; unfold evenColoring at h; split at h
    · cases h; rfl
    · cases h

theorem evenColoring_wf (G : SimpleG) (hG : GoodGraph G) :
    (evenColoringF G).WF ∧ (evenColoringF G).nvars = G.m :=
  ⟨evenColoringF_wf G hG, hG.2.1.symm⟩

/-- T-C02.3b specification: at every vertex exactly half of the incident edges are true -/
theorem evenColoring_holds (G : SimpleG) (hG : GoodGraph G) (α : Assign) :
    (evenColoringF G).holds α = true ↔ EvenColoringSpec G α :=
  evenColoringF_holds_iff G hG α

theorem evenColoring_cnf (G : SimpleG) (hG : GoodGraph G) (α : Assign) :
    (evenColoringF G).toCNF.holds α = true ↔ EvenColoringSpec G α := by
  rw [Formula.toCNF_holds α _ (evenColoringF_wf G hG)]; exact evenColoringF_holds_iff G hG α

theorem evenColoring_opb (G : SimpleG) (hG : GoodGraph G) (α : Assign) :
    (evenColoringF G).toOPB.holds α = true ↔ EvenColoringSpec G α := by
  rw [Formula.toOPB_holds α _ (evenColoringF_wf G hG)]; exact evenColoringF_holds_iff G hG α

/-- T-C02.3c (partial) "satisfiable only on graphs with an even number of edges in each
component": over a vertex set closed under adjacency the half-degrees sum to an even number
(with all degrees even that sum is the number of edges inside the set).
NOT proven here: the identification of the sum with the edge count, and the converse (alternate
the colours along an Euler tour); the equivalence is cross-checked by the oracle. -/
theorem evenColoring_sat_components_partial (G : SimpleG) (hG : GoodGraph G)
    (h : ∃ α, (evenColoringF G).holds α = true) (C : Nat → Bool)
    (hC : ∀ v u, C v = true → u ∈ G.nbrs v → C u = true) :
    Even (∑ v ∈ (Finset.Icc 1 G.n).filter (fun v => C v = true), (G.nbrs v).length / 2) := by
  obtain ⟨α, hα⟩ := h
  exact evenColoring_parity G hG α ((evenColoringF_holds_iff G hG α).1 hα) C hC

/-! ## dominating set -/

/-- T-C02.4a `unique_neighborhoods` lists exactly the closed neighbourhoods `N[v]`, `v ∈ 1..n` -/
theorem uniqueNeighborhoods_spec (G : SimpleG) (N : List Nat) :
    N ∈ uniqueNeighborhoods G ↔ ∃ v, 1 ≤ v ∧ v ≤ G.n ∧ N = closedNbr G v :=
  mem_uniqueNeighborhoods

/-- "Each neighborhood is listed just once. Each one is sorted and they are enumerated in a sorted
fashion": the list is strictly increasing for Python's list order (`lexLe`), hence duplicate-free
— one clause per distinct closed neighbourhood — and every member is a sorted list -/
theorem uniqueNeighborhoods_once (G : SimpleG) :
    (uniqueNeighborhoods G).Pairwise (fun a b => lexLe a b = true ∧ a ≠ b) ∧
    (uniqueNeighborhoods G).Nodup ∧
    ∀ N ∈ uniqueNeighborhoods G, N.Pairwise (· ≤ ·) := by
  refine ⟨uniqueNeighborhoods_sorted G, uniqueNeighborhoods_nodup G, fun N hN => ?_⟩
  obtain ⟨v, _, _, rfl⟩ := mem_uniqueNeighborhoods.1 hN
  exact closedNbr_sorted G v

theorem closedNbr_spec (G : SimpleG) (v u : Nat) : u ∈ closedNbr G v ↔ u = v ∨ u ∈ G.nbrs v :=
  mem_closedNbr

/-- T-C02.4b parameter validation: `d < 1` is refused with `ValueError` -/
theorem domset_validation (G : SimpleG) (d : Int) (alt : Bool) :
    domset G d alt = if d < 1 then .error .valueError else .ok (domsetF G d.toNat alt) := rfl

theorem domset_wf (G : SimpleG) (hG : GoodGraph G) (d : Nat) (alt : Bool) :
    (domsetF G d alt).WF ∧ (domsetF G d alt).nvars = G.n + G.n * d :=
  ⟨domsetF_wf G hG d alt, domsetF_nvars G d alt⟩

/-- T-C02.4c what the variables say, default encoding -/
theorem domset_std_holds (G : SimpleG) (hG : GoodGraph G) (d : Nat) (α : Assign) :
    (domsetF G d false).holds α = true ↔ DomSpecStd G d α :=
  domsetF_std_holds_iff G hG d α

/-- T-C02.4d what the variables say, alternative encoding -/
theorem domset_alt_holds (G : SimpleG) (hG : GoodGraph G) (d : Nat) (α : Assign) :
    (domsetF G d true).holds α = true ↔ DomSpecAlt G d α :=
  domsetF_alt_holds_iff G hG d α

theorem domset_cnf (G : SimpleG) (hG : GoodGraph G) (d : Nat) (alt : Bool) (α : Assign) :
    (domsetF G d alt).toCNF.holds α = (domsetF G d alt).holds α :=
  Formula.toCNF_holds α _ (domsetF_wf G hG d alt)

theorem domset_opb (G : SimpleG) (hG : GoodGraph G) (d : Nat) (alt : Bool) (α : Assign) :
    (domsetF G d alt).toOPB.holds α = (domsetF G d alt).holds α :=
  Formula.toOPB_holds α _ (domsetF_wf G hG d alt)

/-- T-C02.4e satisfiable iff `G` has a dominating set with at most `d` vertices — both encodings.
Moreover the `D` part of any model IS such a set, and every such set is the `D` part of a model. -/
theorem domset_sat_iff (G : SimpleG) (hG : GoodGraph G) (d : Nat) (alt : Bool) :
    (∃ α, (domsetF G d alt).holds α = true) ↔ ∃ S, Dominating G S ∧ S.length ≤ d := by
  cases alt
  · constructor
    · rintro ⟨α, h⟩
      exact ⟨domOf G α, domset_std_sound G hG d α ((domsetF_std_holds_iff G hG d α).1 h)⟩
    · rintro ⟨S, hS, hd⟩
      exact ⟨domAssign G.n d S, (domsetF_std_holds_iff G hG d _).2 (domset_std_complete G hG d S hS hd)⟩
  · constructor
    · rintro ⟨α, h⟩
      exact ⟨domOf G α, domset_alt_sound G hG d α ((domsetF_alt_holds_iff G hG d α).1 h)⟩
    · rintro ⟨S, hS, hd⟩
      exact ⟨domAssign G.n d S, (domsetF_alt_holds_iff G hG d _).2 (domset_alt_complete G hG d S hS hd)⟩

theorem domset_models_project (G : SimpleG) (hG : GoodGraph G) (d : Nat) (alt : Bool) :
    (∀ α, (domsetF G d alt).holds α = true → Dominating G (domOf G α) ∧ (domOf G α).length ≤ d) ∧
    (∀ S, Dominating G S → S.length ≤ d →
      (domsetF G d alt).holds (domAssign G.n d S) = true ∧
      ∀ v, v ≤ G.n → (domAssign G.n d S v = true ↔ v ∈ S)) := by
  cases alt
  · exact ⟨fun α h => domset_std_sound G hG d α ((domsetF_std_holds_iff G hG d α).1 h),
      fun S hS hd => ⟨(domsetF_std_holds_iff G hG d _).2 (domset_std_complete G hG d S hS hd),
        fun v hv => by rw [domAssign_D hv]; simp⟩⟩
  · exact ⟨fun α h => domset_alt_sound G hG d α ((domsetF_alt_holds_iff G hG d α).1 h),
      fun S hS hd => ⟨(domsetF_alt_holds_iff G hG d _).2 (domset_alt_complete G hG d S hS hd),
        fun v hv => by rw [domAssign_D hv]; simp⟩⟩

/-- non-vacuity: `{1, 4, 6}` dominates `exG`, so `d = 3` is satisfiable -/
example : ∃ α, (domsetF exG 3 false).holds α = true :=
  (domset_sat_iff exG exG_good 3 false).2 ⟨[1, 4, 6], exG_dominating, by decide⟩

/-! ## tiling -/

theorem tiling_wf (G : SimpleG) (hG : GoodGraph G) : (tiling G).WF ∧ (tiling G).nvars = G.n :=
  ⟨Fam.tiling_wf G hG, rfl⟩

/-- T-C02.5a specification: every closed neighbourhood contains exactly one chosen vertex -/
theorem tiling_holds (G : SimpleG) (hG : GoodGraph G) (α : Assign) :
    (tiling G).holds α = true ↔ TilingSpec G α :=
  tiling_holds_iff G hG α

theorem tiling_cnf (G : SimpleG) (hG : GoodGraph G) (α : Assign) :
    (tiling G).toCNF.holds α = true ↔ TilingSpec G α := by
  rw [Formula.toCNF_holds α _ (Fam.tiling_wf G hG)]; exact tiling_holds_iff G hG α

theorem tiling_opb (G : SimpleG) (hG : GoodGraph G) (α : Assign) :
    (tiling G).toOPB.holds α = true ↔ TilingSpec G α := by
  rw [Formula.toOPB_holds α _ (Fam.tiling_wf G hG)]; exact tiling_holds_iff G hG α

/-- T-C02.5b satisfiable iff the graph has a tiling (perfect dominating set); the variables are
the witness: the chosen set of a model is a tiling, the indicator of a tiling is a model -/
theorem tiling_sat_iff (G : SimpleG) (hG : GoodGraph G) :
    (∃ α, (tiling G).holds α = true) ↔ ∃ S, IsTiling G S := by
  constructor
  · rintro ⟨α, h⟩
    exact ⟨domOf G α, tiling_sound G hG α ((tiling_holds_iff G hG α).1 h)⟩
  · rintro ⟨S, hS⟩
    exact ⟨fun u => decide (u ∈ S), (tiling_holds_iff G hG _).2 (tiling_complete G S hS)⟩

/-- non-vacuity: `{1, 4, 6}` tiles `exG` -/
example : ∃ α, (tiling exG).holds α = true :=
  (tiling_sat_iff exG exG_good).2 ⟨[1, 4, 6], exG_tiling⟩

end Cnfgen.C02
