/-
C03 (share "order") — Contradiction benchmarks have the documented satisfiability:
ordering / graph ordering principle (plain, total, smart, Knuth 2 and 3, planted), pebbling,
stone and sparse stone formulas.  Property theorems only; helper lemmas are in `Lemmas/Fam*.lean`.

Reading guide.  A family model returns a `Formula` (abstract constraint list, `Build/Constr.lean`);
`Formula.toCNF` / `Formula.toOPB` are the two renderings that the correspondence harness compares
literally with the real generator.  For every family the file gives
  (i)   `…_wf`, `…_nvars`                    (also used by C08 / C10),
  (ii)  `…_axioms`: `holds α ↔ Spec (relation induced by α)` — exactly the documented axioms,
  (iii) `…_unsat` (for every size / graph / DAG / stone count / availability graph the generator
        accepts, with ≥ 1 vertex), transferred to both renderings in `…_unsat_rendered`;
        planted ordering: `sat ↔` an order with the single allowed minimum exists.
Graph hypotheses (`NbrsOK`, `TopoDAG`, `BipOK`) are the invariants of reachable graph objects
(property C16); each comes with a concrete instance (`example`).
-/
import Lemmas.FamC03aCheck
namespace Cnfgen.C03
open Cnfgen Cnfgen.Fam Cnfgen.FamC03a

/-! ## Pebbling formula -/
section Pebbling
open Cnfgen.Fam.Pebbling

/-- the generator accepts exactly the digraphs whose `is_dag()` flag is set … -/
theorem pebbling_accepts (D : DiG) (hd : D.stillDag = true) : pebbling D = .ok (peb D) :=
  pebbling_ok D hd
/-- … and raises `ValueError` otherwise -/
theorem pebbling_rejects (D : DiG) (hd : D.stillDag = false) : pebbling D = .error .valueError := by
  simp [pebbling, hd]

/-- T-C03.2 (i) one variable per vertex -/
theorem peb_nvars (D : DiG) : (peb D).nvars = D.n := rfl

/-- T-C03.2 (i) every literal is a non-zero identifier within `1..n` -/
theorem peb_wf (D : DiG) (h : TopoDAG D) : (peb D).WF := Pebbling.peb_wf D h

/-- T-C03.2 (ii) exactly the documented axioms: under the assignment `α` the formula says that
a vertex whose predecessors are all pebbled is pebbled (sources unconditionally), and that no sink
is pebbled — nothing else. `x(v)` is variable `v` (`xvar_eq`). -/
theorem peb_axioms (D : DiG) (α : Assign) :
    (peb D).holds α = true ↔ PebSpec D (fun v => α (xvar D.n v) = true) := peb_holds_iff D α

theorem peb_var (n v : Nat) (h : 1 ≤ v) : xvar n v = v := xvar_eq n v h

/-- T-C03.2 (iii) unsatisfiable on every DAG in topological order with at least one vertex -/
theorem peb_unsat (D : DiG) (h : TopoDAG D) (hn : 1 ≤ D.n) : ¬ ∃ α, (peb D).holds α = true :=
  Pebbling.peb_unsat D h hn

/-- … and so are the CNF and the OPB rendering of it -/
theorem peb_unsat_rendered (D : DiG) (h : TopoDAG D) (hn : 1 ≤ D.n) :
    (¬ ∃ α, (peb D).toCNF.holds α = true) ∧ (¬ ∃ α, (peb D).toOPB.holds α = true) :=
  unsat_rendered _ (Pebbling.peb_wf D h) (Pebbling.peb_unsat D h hn)

/-- no vertex: the empty formula (satisfiable); the property's universe is "at least one vertex" -/
theorem peb_empty (D : DiG) (h : D.n = 0) : (peb D).cons = [] := by
  simp [peb, h, Pebbling.verts]

/-- non-vacuity: the pyramid of height 1 (`1 → 3 ← 2`) as built by `add_edge` -/
example : ∃ D, (DiG.ofEdges 3 [(1, 3), (2, 3)]).toOption = some D ∧ D.stillDag = true ∧ TopoDAG D ∧ 1 ≤ D.n :=
  ⟨⟨3, 2, [[], [], [], [1, 2]], [[], [3], [3], []], [(2, 3), (1, 3)], true⟩, by decide, rfl,
    topoDAG_of_b _ (by decide), by decide⟩

end Pebbling

/-! ## Stone and sparse stone formulas -/
section Stone
open Cnfgen.Fam.Pebbling

/-- acceptance condition of `SparseStoneFormula`: `D.is_dag()` and `|Left(B)| = |V(D)|` … -/
theorem sparseStone_accepts (D : DiG) (B : BipG) (hd : D.stillDag = true) (hl : B.l = D.n) :
    sparseStone D B = .ok (sstone D B) := sparseStone_ok D B hd hl
/-- … `ValueError` otherwise -/
theorem sparseStone_rejects (D : DiG) (B : BipG) (h : D.stillDag = false ∨ B.l ≠ D.n) :
    sparseStone D B = .error .valueError := by
  rcases h with h | h
  · simp [sparseStone, h]
  · cases hd : D.stillDag <;> simp [sparseStone, hd, h]

/-- acceptance condition of `StoneFormula`: `D.is_dag()` and `nstones ≥ 0`; the formula is the sparse
stone formula of the complete availability graph -/
theorem stone_accepts (D : DiG) (k : Nat) (hd : D.stillDag = true) :
    stone D (k : Int) = .ok (sstone D (BipG.complete D.n k)) := stone_ok D k hd
theorem stone_rejects (D : DiG) (k : Int) (h : D.stillDag = false ∨ k < 0) :
    stone D k = .error .valueError := by
  rcases h with h | h
  · simp [stone, h]
  · cases hd : D.stillDag <;> simp [stone, hd, h]

/-- T-C03.3 (i) variables: one per stone plus one per edge of the availability graph -/
theorem sstone_nvars (D : DiG) (B : BipG) : (sstone D B).nvars = B.r + B.numberOfEdges := rfl

/-- T-C03.3 (i) `StoneFormula(D, k)`: `k + n·k` variables -/
theorem stone_nvars (D : DiG) (k : Nat) : (sstone D (BipG.complete D.n k)).nvars = k + D.n * k := by
  show (BipG.complete D.n k).r + (BipG.complete D.n k).numberOfEdges = k + D.n * k
  rw [complete_numEdges]; rfl

theorem sstone_wf (D : DiG) (B : BipG) (hD : TopoDAG D) (hl : B.l = D.n) (hB : BipOK B) : (sstone D B).WF :=
  Pebbling.sstone_wf D B hD hl hB

theorem stone_wf (D : DiG) (k : Nat) (hD : TopoDAG D) : (sstone D (BipG.complete D.n k)).WF :=
  Pebbling.sstone_wf D _ hD rfl (complete_ok D.n k)

/-- T-C03.3 (ii) exactly the documented axiom groups (`StoneSpec`): every vertex carries an allowed
stone; a stone `j` on `v` is red whenever the predecessors of `v` carry red stones (one clause per
choice of allowed stones other than `j`); stones on sinks are not red. -/
theorem sstone_axioms (D : DiG) (B : BipG) (α : Assign) :
    (sstone D B).holds α = true ↔
      StoneSpec D B (fun v j => α (Pvar B v j) = true) (fun j => α (Rvar B j) = true) :=
  sstone_holds_iff D B α

/-- T-C03.3 (iii) unsatisfiable for every DAG in topological order with ≥ 1 vertex and every
availability graph the generator accepts (any number of stones, vertices without an available
stone included) -/
theorem sstone_unsat (D : DiG) (B : BipG) (hD : TopoDAG D) (hl : B.l = D.n) (hn : 1 ≤ D.n) :
    ¬ ∃ α, (sstone D B).holds α = true := Pebbling.sstone_unsat D B hD hl hn

/-- `StoneFormula`: every stone count `k ≥ 0` -/
theorem stone_unsat (D : DiG) (k : Nat) (hD : TopoDAG D) (hn : 1 ≤ D.n) :
    ¬ ∃ α, (sstone D (BipG.complete D.n k)).holds α = true := Pebbling.sstone_unsat D _ hD rfl hn

theorem sstone_unsat_rendered (D : DiG) (B : BipG) (hD : TopoDAG D) (hl : B.l = D.n) (hB : BipOK B)
    (hn : 1 ≤ D.n) :
    (¬ ∃ α, (sstone D B).toCNF.holds α = true) ∧ (¬ ∃ α, (sstone D B).toOPB.holds α = true) :=
  unsat_rendered _ (Pebbling.sstone_wf D B hD hl hB) (Pebbling.sstone_unsat D B hD hl hn)

theorem stone_unsat_rendered (D : DiG) (k : Nat) (hD : TopoDAG D) (hn : 1 ≤ D.n) :
    (¬ ∃ α, (sstone D (BipG.complete D.n k)).toCNF.holds α = true) ∧
    (¬ ∃ α, (sstone D (BipG.complete D.n k)).toOPB.holds α = true) :=
  unsat_rendered _ (stone_wf D k hD) (stone_unsat D k hD hn)

/-- no vertex: only the `R` variables, no clause -/
theorem sstone_empty (D : DiG) (B : BipG) (h : D.n = 0) (hl : B.l = 0) : (sstone D B).cons = [] := by
  simp [sstone, h, hl, Pebbling.verts]

/-- non-vacuity: a deficient availability graph (vertex 2 has no stone) on the pyramid of height 1 -/
example : ∃ B, (BipG.ofEdges 3 2 [(1, 1), (1, 2), (3, 2)]).toOption = some B ∧ B.l = 3 ∧ BipOK B :=
  ⟨⟨3, 2, [[], [1, 2], [], [2]], [[], [1], [1, 3]], [(3, 2), (1, 2), (1, 1)]⟩, by decide, rfl,
    bipOK_of_b _ (by decide)⟩

end Stone

/-! ## Ordering principle and graph ordering principle -/
section Ordering
open Cnfgen.Fam.Ordering

/-- `OrderingPrinciple(size, …)` is the graph ordering principle of the complete graph … -/
theorem op_accepts (n : Nat) (total smart plant : Bool) (knuth : Int) :
    op (n : Int) total smart plant knuth = .ok (gop (completeG n) total smart plant knuth) :=
  op_eq n total smart plant knuth
/-- … and a negative size raises `ValueError` -/
theorem op_rejects (size : Int) (h : size < 0) (total smart plant : Bool) (knuth : Int) :
    op size total smart plant knuth = .error .valueError := op_neg size h total smart plant knuth

/-- the complete graph object satisfies the graph hypothesis -/
theorem completeG_nbrsOK (n : Nat) : NbrsOK (completeG n) := completeG_ok n

/-- T-C03.1 (i) `n(n-1)` variables (one per ordered pair), `n(n-1)/2` in the smart encoding -/
theorem gop_nvars (G : SimpleG) (total plant : Bool) (knuth : Int) :
    (gop G total false plant knuth).nvars = G.n * (G.n - 1) := Ordering.gop_nvars G total plant knuth
theorem gop_smart_nvars (G : SimpleG) (total plant : Bool) (knuth : Int) :
    (gop G total true plant knuth).nvars = G.n * (G.n - 1) / 2 := Ordering.gop_smart_nvars G total plant knuth

theorem gop_wf (G : SimpleG) (hG : NbrsOK G) (total smart plant : Bool) (knuth : Int) :
    (gop G total smart plant knuth).WF := Ordering.gop_wf G hG total smart plant knuth

/-- T-C03.1 (ii) exactly the documented axioms (plain, total, planted, Knuth variants): the relation
`Rel α n u v := α(x_{u,v})` is antisymmetric, transitive (Knuth 2: only through a largest middle
element, Knuth 3: only into a largest last element — `knuthKeep`), total if requested, and every
vertex except the planted one has a smaller neighbour. -/
theorem gop_axioms (G : SimpleG) (hG : NbrsOK G) (total plant : Bool) (knuth : Int) (α : Assign) :
    (gop G total false plant knuth).holds α = true ↔ OrdSpec G total plant knuth (Rel α G.n) :=
  gop_holds_iff G hG total plant knuth α

/-- the Knuth variants keep exactly these transitivity instances -/
theorem knuthKeep_spec (knuth : Int) (a b c : Nat) :
    knuthKeep knuth a b c = true ↔
      (knuth = 2 → a ≤ b ∧ c ≤ b) ∧ (knuth = 3 → a ≤ c ∧ b ≤ c) := by
  simp only [knuthKeep, Bool.and_eq_true, Bool.not_eq_true', Bool.and_eq_false_iff, Bool.or_eq_false_iff,
    beq_eq_false_iff_ne, decide_eq_false_iff_not, Nat.not_lt]
  constructor
  · rintro ⟨h1, h2⟩
    exact ⟨fun hk => h1.resolve_left (by simp [hk]), fun hk => h2.resolve_left (by simp [hk])⟩
  · rintro ⟨h1, h2⟩
    refine ⟨?_, ?_⟩
    · by_cases hk : knuth = 2
      · exact Or.inr (h1 hk)
      · exact Or.inl hk
    · by_cases hk : knuth = 3
      · exact Or.inr (h2 hk)
      · exact Or.inl hk

/-- T-C03.1 (ii) smart encoding (`total`, `knuth` are ignored by the code): the relation
`RelS α n u v` (`x_{u,v}` for `u < v`, `¬x_{v,u}` otherwise) — total and antisymmetric by
construction — is transitive and every vertex except the planted one has a smaller neighbour. -/
theorem gop_smart_axioms (G : SimpleG) (total plant : Bool) (knuth : Int) (α : Assign) :
    (gop G total true plant knuth).holds α = true ↔ OrdSpec G true plant 0 (RelS α G.n) :=
  gop_smart_holds_iff G total plant knuth α

/-- T-C03.1 (iii) the graph ordering principle — plain, total, **and both Knuth variants** (every
value of `knuth`) — is unsatisfiable on every graph with at least one vertex -/
theorem gop_unsat (G : SimpleG) (hG : NbrsOK G) (hn : 1 ≤ G.n) (total : Bool) (knuth : Int) :
    ¬ ∃ α, (gop G total false false knuth).holds α = true := Ordering.gop_unsat G hG hn total knuth

theorem knuth2_unsat (G : SimpleG) (hG : NbrsOK G) (hn : 1 ≤ G.n) (total : Bool) :
    ¬ ∃ α, (gop G total false false 2).holds α = true := Ordering.gop_unsat G hG hn total 2

theorem knuth3_unsat (G : SimpleG) (hG : NbrsOK G) (hn : 1 ≤ G.n) (total : Bool) :
    ¬ ∃ α, (gop G total false false 3).holds α = true := Ordering.gop_unsat G hG hn total 3

/-- the combinatorial core: no antisymmetric relation on a non-empty finite set of naturals, transitive
at least through largest middle elements (resp. into largest last elements), gives every element a
predecessor -/
theorem no_minimal_free_relation_k2 (N : Nat) (S : Nat → Prop) (R : Nat → Nat → Prop)
    (hb : ∀ v, S v → v ≤ N) (hne : ∃ v, S v)
    (has : ∀ u v, S u → S v → u ≠ v → ¬ (R u v ∧ R v u))
    (htr : ∀ a b c, S a → S b → S c → a ≠ b → b ≠ c → a ≠ c → a < b → c < b → R a b → R b c → R a c)
    (hmin : ∀ v, S v → ∃ u, S u ∧ u ≠ v ∧ R u v) : False := no_order_k2 N S R hb hne has htr hmin

theorem no_minimal_free_relation_k3 (N : Nat) (S : Nat → Prop) (R : Nat → Nat → Prop)
    (hb : ∀ v, S v → v ≤ N) (hne : ∃ v, S v)
    (has : ∀ u v, S u → S v → u ≠ v → ¬ (R u v ∧ R v u))
    (htr : ∀ a b c, S a → S b → S c → a ≠ b → b ≠ c → a ≠ c → a < c → b < c → R a b → R b c → R a c)
    (hmin : ∀ v, S v → ∃ u, S u ∧ u ≠ v ∧ R u v) : False := no_order_k3 N S R hb hne has htr hmin

/-- T-C03.1 (iii) smart encoding -/
theorem gop_smart_unsat (G : SimpleG) (hG : NbrsOK G) (hn : 1 ≤ G.n) (total : Bool) (knuth : Int) :
    ¬ ∃ α, (gop G total true false knuth).holds α = true := Ordering.gop_smart_unsat G hG hn total knuth

/-- every non-planted variant, both renderings -/
theorem gop_unsat_rendered (G : SimpleG) (hG : NbrsOK G) (hn : 1 ≤ G.n) (total smart : Bool) (knuth : Int) :
    (¬ ∃ α, (gop G total smart false knuth).toCNF.holds α = true) ∧
    (¬ ∃ α, (gop G total smart false knuth).toOPB.holds α = true) := by
  refine unsat_rendered _ (Ordering.gop_wf G hG total smart false knuth) ?_
  cases smart
  · exact Ordering.gop_unsat G hG hn total knuth
  · exact Ordering.gop_smart_unsat G hG hn total knuth

/-- `OrderingPrinciple(n)` for every `n ≥ 1`, every variant, both renderings -/
theorem op_unsat (n : Nat) (hn : 1 ≤ n) (total smart : Bool) (knuth : Int) :
    ∃ F, op (n : Int) total smart false knuth = .ok F ∧ F.WF ∧ (¬ ∃ α, F.holds α = true) ∧
      (¬ ∃ α, F.toCNF.holds α = true) ∧ (¬ ∃ α, F.toOPB.holds α = true) := by
  refine ⟨_, op_eq n total smart false knuth, Ordering.gop_wf _ (completeG_ok n) total smart false knuth, ?_,
    gop_unsat_rendered _ (completeG_ok n) hn total smart knuth⟩
  cases smart
  · exact Ordering.gop_unsat _ (completeG_ok n) hn total knuth
  · exact Ordering.gop_smart_unsat _ (completeG_ok n) hn total knuth

/-- T-C03.1 planted: satisfiable exactly when a relation with the documented properties exists, i.e.
an order in which only the last vertex may lack a smaller neighbour (stated for both values of
`plant`; with `plant = false` the right-hand side is empty by `gop_unsat`) -/
theorem gop_planted_sat_iff (G : SimpleG) (hG : NbrsOK G) (total plant : Bool) (knuth : Int) :
    (∃ α, (gop G total false plant knuth).holds α = true) ↔ ∃ R, OrdSpec G total plant knuth R :=
  gop_sat_iff G hG total plant knuth

theorem gop_smart_planted_sat_iff (G : SimpleG) (hG : NbrsOK G) (total plant : Bool) (knuth : Int) :
    (∃ α, (gop G total true plant knuth).holds α = true) ↔ ∃ R, OrdSpec G true plant 0 R :=
  gop_smart_sat_iff G hG total plant knuth

/-- the planted `OrderingPrinciple(n)` is satisfiable for every `n` (order `n < n-1 < … < 1`),
every variant, both renderings -/
theorem op_planted_sat (n : Nat) (total smart : Bool) (knuth : Int) :
    ∃ F, op (n : Int) total smart true knuth = .ok F ∧ (∃ α, F.holds α = true) ∧
      (∃ α, F.toCNF.holds α = true) ∧ (∃ α, F.toOPB.holds α = true) :=
  ⟨_, op_eq n total smart true knuth, Ordering.op_planted_sat n total smart knuth,
    sat_rendered _ (Ordering.gop_wf _ (completeG_ok n) total smart true knuth)
      (Ordering.op_planted_sat n total smart knuth)⟩

/-- no vertex: the empty formula (satisfiable) — outside the property's universe -/
theorem gop_empty (G : SimpleG) (h : G.n = 0) (total smart plant : Bool) (knuth : Int) :
    (gop G total smart plant knuth).cons = [] := by
  cases smart <;> cases total <;>
    simp [gop, h, nonmin, Ordering.trans, antisym, totality, transSmart, perm3, comb3, comb2, Ordering.verts]

/-- identifiers are injective on the index pairs (used for "one assignment per order") -/
theorem permId_injective {n u v u' v' : Nat} (hu : 1 ≤ u) (hun : u ≤ n) (hv : 1 ≤ v) (hvn : v ≤ n) (h : u ≠ v)
    (hu' : 1 ≤ u') (hun' : u' ≤ n) (hv' : 1 ≤ v') (hvn' : v' ≤ n) (h' : u' ≠ v')
    (heq : permId n u v = permId n u' v') : u = u' ∧ v = v' :=
  permId_inj hu hun hv hvn h hu' hun' hv' hvn' h' heq

theorem combId_injective {n u v u' v' : Nat} (hu : 1 ≤ u) (h : u < v) (hvn : v ≤ n)
    (hu' : 1 ≤ u') (h' : u' < v') (hvn' : v' ≤ n)
    (heq : combId n u v = combId n u' v') : u = u' ∧ v = v' := combId_inj hu h hvn hu' h' hvn' heq

/-- non-vacuity: a path with an isolated vertex, as built by `add_edge` -/
example : ∃ G, (SimpleG.ofEdges 4 [(1, 2), (3, 2)]).toOption = some G ∧ NbrsOK G ∧ 1 ≤ G.n :=
  ⟨⟨4, 2, [[], [2], [1, 3], [2], []], [(3, 2), (2, 3), (2, 1), (1, 2)]⟩, by decide,
    nbrsOK_of_b _ (by decide), by decide⟩

/-- non-vacuity of the planted statement: a concrete satisfying assignment of planted `OP(3)` -/
example : (gop (completeG 3) false false true 0).holds (fun i => i == 3 || i == 5 || i == 6) = true := by
  decide

end Ordering

end Cnfgen.C03
