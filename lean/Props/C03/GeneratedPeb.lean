/-
C03 — `PebblingFormula` as TRANSLATED from cnfgen/families/pebbling.py is `Fam.Pebbling.pebbling` of the model, on every
directed graph object in topological order (`TopoDAG`: what `DirectedGraph` maintains while `is_dag()` holds — C16).
-/
import Lemmas.GenFamRphp
import Lemmas.FamPebbling
import Props.C01.Generated
set_option linter.unusedSimpArgs false
namespace Cnfgen.C03
open Cnfgen Cnfgen.Vars Cnfgen.PyGen Cnfgen.GenVars Cnfgen.Fam Cnfgen.PyF Cnfgen.GenFam Cnfgen.C11 Cnfgen.Fam.Pebbling
open Cnfgen.C01 (stateOf formulaOf formulaOf_stateOf)

/-- a comprehension whose element computation succeeds on every entry -/
theorem mapM_ok {α β : Type} (f : α → Except Err β) (g : α → β) (l : List α) (h : ∀ a ∈ l, f a = Except.ok (g a)) :
    List.mapM f l = Except.ok (l.map g) := by
  induction l with
  | nil => rfl
  | cons a l ih =>
    rw [List.mapM_cons, h a (by simp), Py.ok_bind, ih (fun b hb => h b (by simp [hb])), Py.ok_bind]
    rfl

/-- a loop adding a list of constraints per element while the number of variables stays `N` -/
theorem foldlM_pushAll_nv {α : Type} (N : Int) (xs : List α) (body : FState → α → Except Err FState) (c : α → List Con)
    (h : ∀ s x, x ∈ xs → s.numvar = N → body s x = Except.ok { s with cons := s.cons ++ c x }) (s : FState)
    (hs : s.numvar = N) :
    List.foldlM body s xs = Except.ok { s with cons := s.cons ++ xs.flatMap c } := by
  induction xs generalizing s with
  | nil => simp
  | cons x xs ih =>
    rw [List.foldlM_cons, h s x (by simp) hs, Py.ok_bind,
      ih (fun s y hy => h s y (by simp [hy])) { s with cons := s.cons ++ c x } hs]
    simp

theorem verts_eq_idx (n : Nat) : verts n = idx n := by
  simp [verts, idx, rangeN]

theorem x_eq_blockId (n v : Nat) : Pebbling.x n v = ((blockId 1 [n] [v] : Nat) : Int) := rfl

theorem gen_pebbling_eq_model (D : DiG) (h : TopoDAG D) :
    PebblingFormula (absDi D) = (pebbling D).map stateOf := by
  unfold PebblingFormula pebbling
  simp only []
  by_cases hd : D.stillDag = true
  · have h1 : ¬ ¬ ((absDi D).is_dag = true) := by simpa [absDi, DiG.isDag] using hd
    rw [if_neg h1]
    simp only [hd, Bool.not_true, Bool.false_eq_true, if_false, Py.map_ok]
    have hn : (absDi D).number_of_vertices = (D.n : Int) := rfl
    have hlen : Py.len [(D.n : Int)] ≥ 1 := by simp
    rw [hn, if_pos hlen, new_block_one_eq PyF.empty 0 rfl D.n]
    simp only [Py.ok_bind]
    have hverts : Py.Range.toList (absDi D).vertices = ints (idx D.n) := range_toList_nat D.n
    have hwf := Pebbling.peb_wf D h
    have hnv : ((0 + D.n : Nat) : Int) = (((peb D).nvars : Nat) : Int) := by simp [peb]
    rw [hverts, foldlM_pushAll_nv ((peb D).nvars : Int) (ints (idx D.n)) _
      (fun v => Con.clause ((D.preds v.toNat).map (fun p => - Pebbling.x D.n p) ++ [Pebbling.x D.n v.toNat]) ::
        (if (D.succs v.toNat).length == 0 then [Con.clause [- Pebbling.x D.n v.toNat]] else [])) _ _ hnv]
    · simp [stateOf, peb, PyF.empty, verts_eq_idx, ints, List.flatMap_map]
    · intro s x hx hs
      simp only [ints, List.mem_map] at hx
      obtain ⟨v, hv, rfl⟩ := hx
      have hv' := mem_idx.1 hv
      have hvI : (1 : Int) ≤ (v : Int) ∧ (v : Int) ≤ (D.n : Int) := by omega
      have hnlt : ¬ (D.n < v) := by omega
      have hpred : (absDi D).predecessors (v : Int) = Except.ok (ints (D.preds v)) := by
        simp [absDi, DiG.predecessors, DiG.preds, hvI, ints, hnlt]
      have hout : (absDi D).out_degree (v : Int) = Except.ok (((D.succs v).length : Nat) : Int) := by
        simp [absDi, DiG.outDegree, DiG.successors, DiG.succs, hvI, bind, Except.bind, pure, Except.pure, hnlt]
      have hcall : ∀ p, 1 ≤ p ∧ p ≤ D.n →
          BlockOfVariables.call (blockSelf 0 [D.n]) [some (p : Int)] = Except.ok (Sum.inl (Pebbling.x D.n p)) := by
        intro p hp
        rw [block_call_one 0 D.n p hp]; rfl
      simp only [Int.ofNat_eq_natCast, hpred, Py.ok_bind]
      rw [mapM_ok _ (fun z => - Pebbling.x D.n z.toNat) (ints (D.preds v)) (by
        intro z hz
        simp only [ints, List.mem_map] at hz
        obtain ⟨p, hp, rfl⟩ := hz
        have := h.pred_lt v hv'.1 hv'.2 p hp
        simp only [Int.ofNat_eq_natCast, hcall p ⟨this.1, by omega⟩, Py.ok_bind, Int.toNat_natCast])]
      have hl : (ints (D.preds v)).map (fun z => - Pebbling.x D.n z.toNat) = (D.preds v).map (fun p => - Pebbling.x D.n p) := by
        simp [ints, List.map_map, Function.comp_def]
      simp only [Py.ok_bind, hl, hcall v hv', Int.toNat_natCast]
      have hmem1 : Con.clause ((D.preds v).map (fun p => - Pebbling.x D.n p) ++ [Pebbling.x D.n v]) ∈ (peb D).cons := by
        simp only [peb, List.mem_flatMap]
        exact ⟨v, by rw [verts_eq_idx]; exact hv, by simp⟩
      rw [lits_append_inl, Py.ok_bind, add_clause_checked s ((D.preds v).map (fun p => - Pebbling.x D.n p) ++ [Pebbling.x D.n v])
        (lits_ok_of_wf hwf hmem1 s hs), Py.ok_bind]
      rw [hout, Py.ok_bind]
      by_cases h0 : (D.succs v).length = 0
      · have hz : (((D.succs v).length : Nat) : Int) = 0 := by omega
        rw [if_pos hz]
        have hmem2 : Con.clause [- Pebbling.x D.n v] ∈ (peb D).cons := by
          simp only [peb, List.mem_flatMap]
          exact ⟨v, by rw [verts_eq_idx]; exact hv, by simp [h0]⟩
        rw [add_clause_checked _ [- Pebbling.x D.n v] (lits_ok_of_wf hwf hmem2 _ (by simpa [push] using hs))]
        simp [push, h0]
      · have hz : ¬ ((((D.succs v).length : Nat) : Int) = 0) := by omega
        rw [if_neg hz]
        simp [push, h0]
  · have h1 : ¬ ((absDi D).is_dag = true) := by simpa [absDi, DiG.isDag] using hd
    rw [if_pos h1]
    simp [hd]

/-- **the pebbling formula of the source is unsatisfiable** on every non-empty DAG in topological order that the
generator accepts — stated on the generated definition, for the abstract constraints and both renderings -/
theorem gen_peb_unsat (D : DiG) (h : TopoDAG D) (hd : D.stillDag = true) (hn : 1 ≤ D.n) :
    ∃ s : FState, PebblingFormula (absDi D) = Except.ok s ∧ s.numvar = (D.n : Int) ∧
      (¬ ∃ α, (formulaOf s).holds α = true) ∧
      (¬ ∃ α, (formulaOf s).toCNF.holds α = true) ∧ (¬ ∃ α, (formulaOf s).toOPB.holds α = true) := by
  refine ⟨stateOf (peb D), ?_, rfl, ?_, ?_, ?_⟩
  · rw [gen_pebbling_eq_model D h]; simp [pebbling, hd]
  · rw [formulaOf_stateOf]; exact Pebbling.peb_unsat D h hn
  · rw [formulaOf_stateOf]
    intro ⟨α, hα⟩
    exact Pebbling.peb_unsat D h hn ⟨α, by rwa [Formula.toCNF_holds _ _ (Pebbling.peb_wf D h)] at hα⟩
  · rw [formulaOf_stateOf]
    intro ⟨α, hα⟩
    exact Pebbling.peb_unsat D h hn ⟨α, by rwa [Formula.toOPB_holds _ _ (Pebbling.peb_wf D h)] at hα⟩

end Cnfgen.C03
