/-
C03 — `_vdw_ap_generator` of cnfgen/families/ramsey.py as TRANSLATED (`Generated/Funcs.lean`, regenerated from the
source on every run) yields exactly the progressions of the hand-written model (`Ramsey.apGenerator`), in the same
order — so `mem_apGenerator`, `apGenerator_nodup` and the van der Waerden theorems of `Props/C03/Ramsey.lean` speak
about what the source computes.  In particular the model's informal remark about `N = 0` (`-1 // (k-1) = -1` in
Python, `0` in the naturals) and about `N - d*k + d` being negative is now a proof.
-/
import CnfgenModel.Generated.Funcs
import CnfgenModel.Fam.Ramsey
import Lemmas.PyFold
import Lemmas.FamRamsey
set_option linter.unusedSimpArgs false
namespace Cnfgen.C03
open Cnfgen Cnfgen.PyGen Cnfgen.Fam Cnfgen.FamRamsey

theorem gen_vdw_ap_generator_eq_model (N k : Nat) (hk : 1 ≤ k) :
    vdw_ap_generator (N : Int) (k : Int) = Except.ok ((Ramsey.apGenerator N k).map (List.map Int.ofNat)) := by
  unfold vdw_ap_generator Ramsey.apGenerator
  by_cases h1 : k = 1
  · subst h1
    simp only [Int.natCast_one, if_true, Py.foldl_append_map, List.nil_append, Py.range_one_toList, Int.toNat_natCast,
      List.map_map]
    rfl
  · have h1' : ¬ ((k : Int) = 1) := by omega
    rw [if_neg h1', if_neg h1]
    have hkm : ((k : Int) - 1) = ((k - 1 : Nat) : Int) := by omega
    have hq : Py.floordiv ((N : Int) - 1) ((k : Int) - 1) =
        Except.ok (if N = 0 then (-1 : Int) else (((N - 1) / (k - 1) : Nat) : Int)) := by
      rw [hkm]
      by_cases hN : N = 0
      · subst hN
        rw [if_pos rfl]
        exact Py.floordiv_neg_one (k - 1) (by omega)
      · rw [if_neg hN]
        have : ((N : Int) - 1) = ((N - 1 : Nat) : Int) := by omega
        rw [this, Py.floordiv_nat _ _ (by omega)]
    have hmax : (if N = 0 then (-1 : Int) else (((N - 1) / (k - 1) : Nat) : Int)).toNat = (N - 1) / (k - 1) := by
      by_cases hN : N = 0
      · subst hN; simp
      · rw [if_neg hN]; exact Int.toNat_natCast _
    rw [hq]
    simp only [Py.ok_bind, Py.foldl_foldl_append, List.nil_append, Py.range_one_toList, hmax, Py.range_zero_toList,
      List.flatMap_map, List.map_flatMap, List.map_map]
    congr 2
    funext d
    have hmi : ((N : Int) - (Int.ofNat d) * (k : Int) + Int.ofNat d).toNat = N + d - d * k := by
      simp only [Int.ofNat_eq_natCast]
      have : ((d : Int) * (k : Int)) = ((d * k : Nat) : Int) := by push_cast; rfl
      rw [this]
      omega
    rw [hmi]
    apply List.map_congr_left
    intro i _
    simp only [Function.comp, List.map_map]
    apply List.map_congr_left
    intro t _
    simp

/-- **the progressions of the source**, no model in the statement: for `k ≥ 1` the translated generator never
raises, yields no progression twice, and yields exactly the `k`-term progressions `i, i+d, …, i+(k-1)d` with
`d ≥ 1` that fit inside `1..N` (for `k = 1`: the singletons, once each) -/
theorem gen_vdw_ap_generator_spec (N k : Nat) (hk : 1 ≤ k) :
    ∃ aps : List (List Int), vdw_ap_generator (N : Int) (k : Int) = Except.ok aps ∧ aps.Nodup ∧
      ∀ ap : List Nat, ap.map Int.ofNat ∈ aps ↔
        ∃ i d, 1 ≤ i ∧ 1 ≤ d ∧ i + (k - 1) * d ≤ N ∧ ap = (List.range k).map (fun t => i + d * t) := by
  have hinj : Function.Injective (List.map Int.ofNat) :=
    List.map_injective_iff.2 (fun _ _ h => Int.ofNat.inj h)
  refine ⟨_, gen_vdw_ap_generator_eq_model N k hk, (List.nodup_map_iff hinj).2 (apGenerator_nodup hk), ?_⟩
  intro ap
  rw [List.mem_map_of_injective hinj]
  exact mem_apGenerator hk ap

/-- non-vacuity: the 3-term progressions inside 1..5 -/
example : vdw_ap_generator 5 3 = Except.ok [[1, 2, 3], [2, 3, 4], [3, 4, 5], [1, 3, 5]] := by decide

end Cnfgen.C03
