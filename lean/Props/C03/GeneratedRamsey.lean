/-
C03 — the generators of cnfgen/families/ramsey.py as TRANSLATED from the source (`Generated/Funcs.lean`) are the family
models of `Fam/Ramsey.lean`.  `int(sqrt(·))` of `PythagoreanTriples` is an ABSTRACT call of the generated definition
(a parameter `float_isqrt`): the theorems hold for every function that is the exact integer square root on the
arguments the loop produces (`a ≤ 2·N²`); the self-test runs the real float computation.
-/
import Lemmas.GenFamRphp
import Lemmas.GenFamBlock
import Lemmas.GenFamWord
import Props.C03.Generated
import Lemmas.FamRamsey
import Lemmas.C01Combos
import Props.C03.GeneratedPeb
import Props.C03.Ramsey
set_option linter.unusedSimpArgs false
namespace Cnfgen.C03
open Cnfgen Cnfgen.Vars Cnfgen.PyGen Cnfgen.GenVars Cnfgen.Fam Cnfgen.PyF Cnfgen.GenFam Cnfgen.C11
open Cnfgen.C01 (stateOf formulaOf formulaOf_stateOf gen_non_negative_int_eq)
open Cnfgen.FamIter Cnfgen.FamRamsey

theorem pow_two_nat (a : Nat) : Py.pow (a : Int) 2 = ((a ^ 2 : Nat) : Int) := by
  simp [Py.pow]

theorem blockId_one (n v : Nat) (hv : 1 ≤ v) : blockId 1 [n] [v] = v := by
  simp [blockId, weights]; omega

theorem mem_pairs_rangeN {n : Nat} {p : Nat × Nat} (h : p ∈ pairs (rangeN 1 (n + 1))) :
    1 ≤ p.1 ∧ p.1 < p.2 ∧ p.2 ≤ n := by
  have h2 : [p.1, p.2] ∈ combos (rangeN 1 (n + 1)) 2 := by
    rw [← pairs_eq_combos]; exact List.mem_map.2 ⟨p, h, rfl⟩
  rw [mem_combos, pair_sublist_iff (rangeN_pairwise _ _)] at h2
  simp only [mem_rangeN] at h2
  omega

theorem ptnCons_eq_pairs (n : Nat) :
    Ramsey.ptnCons n = (pairs (rangeN 1 (n + 1))).flatMap (fun p => Ramsey.ptnPair n p.1 p.2) := by
  simp only [Ramsey.ptnCons, ← pairs_eq_combos, List.flatMap_map]

/-- **`PythagoreanTriples` of the source is `Fam.Ramsey.ptn` of the model**, for every integer `N` (negative: the same
ValueError) and every `float_isqrt` that is exact on `0 … 2·N²` -/
theorem gen_ptn_eq_model (N : Int) (f : Int → Except Err Int)
    (hf : ∀ a : Nat, a ≤ 2 * N.toNat ^ 2 → f (a : Int) = Except.ok ((Nat.sqrt a : Nat) : Int)) :
    PythagoreanTriples N f = (Ramsey.ptn N).map stateOf := by
  unfold PythagoreanTriples
  simp only [gen_non_negative_int_eq]
  by_cases hN : N < 0
  · simp [hN, ptn_neg N hN]
  · obtain ⟨n, rfl⟩ := Int.eq_ofNat_of_zero_le (by omega : 0 ≤ N)
    have hlen : Py.len [(n : Int)] ≥ 1 := by simp
    simp only [hN, if_false, Py.ok_bind, if_pos hlen, ptn_eq, Py.map_ok, Int.toNat_natCast] at hf ⊢
    rw [new_block_one_eq PyF.empty 0 rfl n]
    simp only [Py.ok_bind]
    rw [range_toList_nat, combos2_eq_pairs, ints, pairs_map]
    have hnv : ((0 + n : Nat) : Int) = (n : Int) := by simp
    rw [foldlM_pushAll_nv (n : Int) _ _ (fun x => Ramsey.ptnPair n x.1.toNat x.2.toNat) _ _ hnv]
    · simp [stateOf, PyF.empty, ptnCons_eq_pairs, List.flatMap_map]
    · intro s x hx hs
      simp only [List.mem_map] at hx
      obtain ⟨p, hp, rfl⟩ := hx
      obtain ⟨h1, h2, h3⟩ := mem_pairs_rangeN hp
      have hsum : Py.pow (p.1 : Int) 2 + Py.pow (p.2 : Int) 2 = ((p.1 ^ 2 + p.2 ^ 2 : Nat) : Int) := by
        rw [pow_two_nat, pow_two_nat]; omega
      have hle : p.1 ^ 2 + p.2 ^ 2 ≤ 2 * n ^ 2 := by
        have := Nat.pow_le_pow_left (show p.1 ≤ n by omega) 2
        have := Nat.pow_le_pow_left h3 2
        omega
      simp only [Int.ofNat_eq_natCast, hsum, hf _ hle, Py.ok_bind, Int.toNat_natCast]
      generalize hz : Nat.sqrt (p.1 ^ 2 + p.2 ^ 2) = z
      have hcond : (((z : Int) ≤ (n : Int)) ∧ Py.pow (z : Int) 2 = ((p.1 ^ 2 + p.2 ^ 2 : Nat) : Int)) ↔
          (z ≤ n ∧ z ^ 2 = p.1 ^ 2 + p.2 ^ 2) := by
        rw [pow_two_nat]; omega
      simp only [Ramsey.ptnPair, hz]
      by_cases hc : z ≤ n ∧ z ^ 2 = p.1 ^ 2 + p.2 ^ 2
      · rw [if_pos (hcond.2 hc), if_pos hc]
        have hyz := lt_of_sq_add_sq h1 hc.2.symm
        have hcall : ∀ v, 1 ≤ v ∧ v ≤ n →
            BlockOfVariables.call (blockSelf 0 [n]) [some (v : Int)] = Except.ok (Sum.inl (v : Int)) := by
          intro v hv
          rw [block_call_one 0 n v hv, Nat.zero_add, blockId_one n v hv.1]
        simp only [hcall p.1 ⟨h1, by omega⟩, hcall p.2 ⟨by omega, h3⟩, hcall z ⟨by omega, hc.1⟩, Py.ok_bind]
        rw [add_clause_checked s _ (by
          intro l hl
          simp only [List.mem_cons, List.not_mem_nil, or_false] at hl
          rcases hl with rfl | rfl | rfl <;> refine ⟨by omega, by rw [hs]; omega⟩), Py.ok_bind]
        rw [add_clause_checked _ _ (by
          intro l hl
          simp only [List.mem_cons, List.not_mem_nil, or_false] at hl
          rcases hl with rfl | rfl | rfl <;> refine ⟨by omega, by simp only [push, hs]; omega⟩), Py.ok_bind]
        simp [push]
      · rw [if_neg (fun h => hc (hcond.1 h)), if_neg hc]
        simp

theorem isqrt_exact (a : Nat) : Py.isqrt (a : Int) = Except.ok ((Nat.sqrt a : Nat) : Int) := by
  have : ¬ ((a : Int) < 0) := by omega
  simp [Py.isqrt, this]

/-- **the Pythagorean triples formula of the source encodes the triple-free 2-colourings of `1..N`** — stated on the
generated definition with the exact integer square root for `int(sqrt(·))`: `N` variables, and an assignment satisfies
the formula (abstract constraints, CNF rendering, OPB rendering) iff it has no monochromatic triple `x² + y² = z²` -/
theorem gen_ptn_holds_iff (N : Nat) :
    ∃ s : FState, PythagoreanTriples (N : Int) Py.isqrt = Except.ok s ∧ s.numvar = (N : Int) ∧
      ∀ α, ((formulaOf s).holds α = true ↔ TripleFree N α) ∧
        ((formulaOf s).toCNF.holds α = true ↔ TripleFree N α) ∧
        ((formulaOf s).toOPB.holds α = true ↔ TripleFree N α) := by
  refine ⟨stateOf ⟨N, Ramsey.ptnCons N⟩, ?_, rfl, ?_⟩
  · rw [gen_ptn_eq_model _ _ (fun a _ => isqrt_exact a), ptn_eq]; rfl
  · intro α
    rw [formulaOf_stateOf]
    exact ⟨ptn_holds_iff N _ (ptn_eq N) α, (ptn_rendered N _ (ptn_eq N) α).1, (ptn_rendered N _ (ptn_eq N) α).2⟩

/-- non-vacuity: `PythagoreanTriples(5)` succeeds and contains the clause of the triple (3, 4, 5) -/
example : ∃ s, PythagoreanTriples 5 Py.isqrt = Except.ok s ∧ Con.clause [3, 4, 5] ∈ s.cons := by
  refine ⟨stateOf ⟨5, Ramsey.ptnCons 5⟩, ?_, ?_⟩
  · rw [gen_ptn_eq_model _ _ (fun a _ => isqrt_exact a)]
    exact congrArg (Except.map stateOf) (ptn_eq 5)
  · exact (mem_ptnCons 5 _).2 ⟨3, 4, 5, by decide, by decide, by decide, by decide, by decide, Or.inl rfl⟩
/-! ## VanDerWaerden -/

/-- a list of integers that are all `≥ 1` is a list of positive naturals -/
theorem ints_of_pos (ks : List Int) (h : ¬ (ks.any (· < 1) = true)) :
    ∃ l : List Nat, ks = l.map (fun (x : Nat) => (x : Int)) ∧ ∀ x ∈ l, 1 ≤ x := by
  refine ⟨ks.map Int.toNat, ?_, ?_⟩
  · rw [List.map_map]
    conv => lhs; rw [← List.map_id ks]
    apply List.map_congr_left
    intro x hx
    have : ¬ (x < 1) := by
      intro hlt; exact h (List.any_eq_true.2 ⟨x, hx, by simpa using hlt⟩)
    simp only [id, Function.comp]; omega
  · intro x hx
    simp only [List.mem_map] at hx
    obtain ⟨y, hy, rfl⟩ := hx
    have : ¬ (y < 1) := by
      intro hlt; exact h (List.any_eq_true.2 ⟨y, hy, by simpa using hlt⟩)
    omega

theorem map_toNat_ofNat {β : Type} (f : Nat → β) (L : List Nat) :
    List.map (fun (z : Int) => f z.toNat) (List.map Int.ofNat L) = L.map f := by
  simp [List.map_map, Function.comp_def]

/-- the clause loop of one colour: one clause per progression, literals through the group's `__call__` -/
theorem vdw_loop (n : Int) (aps : List (List Nat)) (lit : Nat → Int)
    (body : FState → List Int → Except Err FState) (s : FState) (hs : s.numvar = n)
    (hb : ∀ s ap, ap ∈ aps → s.numvar = n →
      body s (ap.map Int.ofNat) = Except.ok (push s (Con.clause (ap.map lit)))) :
    List.foldlM body s (aps.map (List.map Int.ofNat)) =
      Except.ok { s with cons := s.cons ++ aps.map (fun ap => Con.clause (ap.map lit)) } := by
  rw [foldlM_push_nv n _ body (fun ap' => Con.clause ((ap'.map Int.toNat).map lit)) _ s hs]
  · simp [List.map_map, Function.comp_def]
  · intro s x hx hs
    simp only [List.mem_map] at hx
    obtain ⟨ap, hap, rfl⟩ := hx
    rw [hb s ap hap hs]
    simp [List.map_map, Function.comp_def]


theorem xId_eq_blockId (N C i c : Nat) : ((blockId (0 + 1) [N, C] [i, c] : Nat) : Int) = (Ramsey.xId N C i c : Int) := by
  simp [Ramsey.xId]

/-- **`VanDerWaerden` of the source is `Fam.Ramsey.vdw` of the model** for every argument tuple: the same ValueError
(negative `N`, a length `< 1`), the one-row encoding for two colours, the `N × C` block with "exactly one colour"
constraints for more colours; the progressions come from the translated `_vdw_ap_generator` -/
theorem gen_vdw_eq_model (N k1 k2 : Int) (ks : List Int) :
    VanDerWaerden N k1 k2 ks = (Ramsey.vdw N k1 k2 ks).map stateOf := by
  unfold VanDerWaerden
  simp only [gen_non_negative_int_eq, gen_positive_int_eq, gen_positive_int_seq_eq]
  by_cases hN : N < 0
  · simp [hN, vdw_err N k1 k2 ks (Or.inl hN)]
  by_cases h1 : k1 < 1
  · simp [hN, h1, vdw_err N k1 k2 ks (Or.inr (Or.inl h1))]
  by_cases h2 : k2 < 1
  · simp [hN, h1, h2, vdw_err N k1 k2 ks (Or.inr (Or.inr (Or.inl h2)))]
  by_cases h3 : ks.any (· < 1) = true
  · have hex : ∃ x ∈ ks, x < 1 := by simpa [List.any_eq_true] using h3
    simp [hN, h1, h2, h3, vdw_err N k1 k2 ks (Or.inr (Or.inr (Or.inr hex)))]
  obtain ⟨n, rfl⟩ := Int.eq_ofNat_of_zero_le (by omega : 0 ≤ N)
  obtain ⟨a, rfl⟩ := Int.eq_ofNat_of_zero_le (by omega : 0 ≤ k1)
  obtain ⟨b, rfl⟩ := Int.eq_ofNat_of_zero_le (by omega : 0 ≤ k2)
  obtain ⟨l, rfl, hl⟩ := ints_of_pos ks h3
  have ha : 1 ≤ a := by omega
  have hb : 1 ≤ b := by omega
  simp only [hN, h1, h2, h3, if_false, Py.ok_bind]
  cases l with
  | nil =>
    have hlen : Py.len ([(a : Int), (b : Int)] ++ List.map (fun (x : Nat) => (x : Int)) []) = 2 := by simp [Py.len]
    have hlen1 : Py.len [(n : Int)] ≥ 1 := by simp
    rw [if_pos hlen, if_pos hlen1, new_block_one_eq PyF.empty 0 rfl n]
    simp only [List.map_nil, List.append_nil, Py.ok_bind, Py.index_zero, Py.index_one,
      gen_vdw_ap_generator_eq_model n a ha, gen_vdw_ap_generator_eq_model n b hb, vdw2_eq n a b ha hb, Py.map_ok]
    have hwf := vdw2_wf n a b ha hb
    have hcall : ∀ ap ∈ Ramsey.apGenerator n a ++ Ramsey.apGenerator n b, ∀ v ∈ ap,
        BlockOfVariables.call (blockSelf 0 [n]) [some (Int.ofNat v)] = Except.ok (Sum.inl (v : Int)) := by
      intro ap hap v hv
      have hv' : 1 ≤ v ∧ v ≤ n := by
        rcases List.mem_append.1 hap with h | h
        · obtain ⟨i, d, hi, hd, hNN, rfl⟩ := (mem_apGenerator ha _).1 h
          exact ap_elems hi hNN v hv
        · obtain ⟨i, d, hi, hd, hNN, rfl⟩ := (mem_apGenerator hb _).1 h
          exact ap_elems hi hNN v hv
      rw [Int.ofNat_eq_natCast, block_call_one 0 n v hv', Nat.zero_add, blockId_one n v hv'.1]
    have hnv : ((0 + n : Nat) : Int) = (n : Int) := by simp
    rw [vdw_loop (n : Int) (Ramsey.apGenerator n a) (fun i => (i : Int)) _ _ hnv, Py.ok_bind]
    · rw [vdw_loop (n : Int) (Ramsey.apGenerator n b) (fun i => -(i : Int)) _ _ hnv, Py.ok_bind]
      · simp [stateOf, PyF.empty, Ramsey.vdw2Cons]
      · intro s ap hap hs
        rw [mapM_ok _ (fun z => -z) (ap.map Int.ofNat) (by
          intro z hz
          simp only [List.mem_map] at hz
          obtain ⟨v, hv, rfl⟩ := hz
          simp only [hcall ap (List.mem_append.2 (Or.inr hap)) v hv, Py.ok_bind]
          rfl), Py.ok_bind]
        have hmem : Con.clause (ap.map (fun (i : Nat) => -(i : Int))) ∈ (⟨n, Ramsey.vdw2Cons n a b⟩ : Formula).cons := by
          simp only [Ramsey.vdw2Cons, List.mem_append, List.mem_map]
          exact Or.inr ⟨ap, hap, rfl⟩
        have he : List.map (fun z => -z) (List.map Int.ofNat ap) = ap.map (fun (i : Nat) => -(i : Int)) := by
          simp [List.map_map, Function.comp_def]
        rw [he]
        exact add_clause_wf hwf s hs _ hmem
    · intro s ap hap hs
      rw [mapM_ok _ (fun z => Sum.inl z) (ap.map Int.ofNat) (by
        intro z hz
        simp only [List.mem_map] at hz
        obtain ⟨v, hv, rfl⟩ := hz
        simp only [hcall ap (List.mem_append.2 (Or.inl hap)) v hv, Py.ok_bind]
        rfl), Py.ok_bind, lits_inl, Py.ok_bind]
      have hmem : Con.clause (ap.map (fun (i : Nat) => (i : Int))) ∈ (⟨n, Ramsey.vdw2Cons n a b⟩ : Formula).cons := by
        simp only [Ramsey.vdw2Cons, List.mem_append, List.mem_map]
        exact Or.inl ⟨ap, hap, rfl⟩
      exact add_clause_wf hwf s hs _ hmem
  | cons c0 l' =>
    generalize hK : a :: b :: c0 :: l' = K
    have hKI : [(a : Int), (b : Int)] ++ List.map (fun (x : Nat) => (x : Int)) (c0 :: l') = ints K := by
      rw [← hK]; simp [ints]
    have hKpos : ∀ x ∈ K, 1 ≤ x := by
      rw [← hK]
      intro x hx
      simp only [List.mem_cons] at hx
      rcases hx with rfl | rfl | hx
      · exact ha
      · exact hb
      · exact hl x (by simpa using hx)
    have hClen : K.length = l'.length + 3 := by rw [← hK]; simp
    have hlenK : Py.len (ints K) = (K.length : Int) := by simp [Py.len, ints]
    have hne2 : ¬ (Py.len (ints K) = 2) := by rw [hlenK]; omega
    have hlen2 : Py.len [(n : Int), Py.len (ints K)] ≥ 2 := by simp [Py.len]
    have hmodel : Ramsey.vdw (n : Int) (a : Int) (b : Int) (List.map (fun (x : Nat) => (x : Int)) (c0 :: l')) =
        Except.ok ⟨n * K.length, Ramsey.vdwMultiCons n K⟩ := by
      rw [vdwMulti_eq n a b (c0 :: l') (by simp) ha hb hl, ← hK]
      simp
    rw [hKI, if_neg hne2, if_pos hlen2, hmodel, hlenK]
    have hr : [(n : Int), (K.length : Int)] = ints [n, K.length] := by simp [ints]
    rw [hr, new_block_eq PyF.empty 0 rfl [n, K.length] (by simp)]
    simp only [Py.ok_bind, Py.map_ok]
    have hwf := vdwMulti_wf n K hKpos
    have hbs : blockSize [n, K.length] = n * K.length := by simp [blockSize, List.foldl]
    have hnv : ((0 + blockSize [n, K.length] : Nat) : Int) = ((n * K.length : Nat) : Int) := by
      rw [hbs, Nat.zero_add]
    rw [range_toList_nat, range_toList_nat]
    -- exactly one colour per number
    rw [foldlM_push_nv ((n * K.length : Nat) : Int) (ints (rangeN 1 (n + 1))) _
      (fun i => Con.lin ((rangeN 1 (K.length + 1)).map (fun c => (Ramsey.xId n K.length i.toNat c : Int))) .eq 1) _ _ hnv]
    · rw [Py.ok_bind]
      -- forbidden progressions, colour by colour
      rw [foldlM_pushAll_nv ((n * K.length : Nat) : Int) (ints (rangeN 1 (K.length + 1))) _
        (fun c => (Ramsey.apGenerator n (K.getD (c.toNat - 1) 0)).map (fun ap =>
          Con.clause (ap.map (fun i => -(Ramsey.xId n K.length i c.toNat : Int))))) _ _ hnv]
      · simp [stateOf, PyF.empty, Ramsey.vdwMultiCons, ints, List.map_map, List.flatMap_map, Function.comp_def, hbs]
      · intro s x hx hs
        simp only [ints, List.mem_map] at hx
        obtain ⟨c, hc, rfl⟩ := hx
        rw [mem_rangeN] at hc
        have hc' : 1 ≤ c ∧ c ≤ K.length := by omega
        have hidx : Py.index (ints K) ((c : Int) - 1) = Except.ok ((K.getD (c - 1) 0 : Nat) : Int) := by
          have e : ((c : Int) - 1) = ((c - 1 : Nat) : Int) := by omega
          rw [e, Py.index_nat _ _ (by simp [ints]; omega)]
          simp [ints, List.getD_eq_getElem?_getD, List.getElem?_eq_getElem (show c - 1 < K.length by omega)]
        have hKc : 1 ≤ K.getD (c - 1) 0 := hKpos _ (getD_mem (by omega))
        simp only [Int.ofNat_eq_natCast, hidx, Py.ok_bind, gen_vdw_ap_generator_eq_model n _ hKc, Int.toNat_natCast]
        rw [vdw_loop ((n * K.length : Nat) : Int) (Ramsey.apGenerator n (K.getD (c - 1) 0))
          (fun i => -(Ramsey.xId n K.length i c : Int)) _ s hs, Py.ok_bind]
        intro s ap hap hs
        obtain ⟨i, d, hi, hd, hNN, rfl⟩ := (mem_apGenerator hKc _).1 hap
        rw [mapM_ok _ (fun z => -(Ramsey.xId n K.length z.toNat c : Int)) _ (by
          intro z hz
          simp only [List.mem_map] at hz
          obtain ⟨v, hv, rfl⟩ := hz
          have hv' := ap_elems hi hNN v (List.mem_map.2 hv)
          simp only [Int.ofNat_eq_natCast, block_call_two 0 n K.length _ c hv' hc', Py.ok_bind, xId_eq_blockId,
            Int.toNat_natCast]), Py.ok_bind]
        rw [map_toNat_ofNat (fun i => -(Ramsey.xId n K.length i c : Int))]
        have hmem : Con.clause ((List.map (fun t => i + d * t) (List.range (K.getD (c - 1) 0))).map
            (fun i => -(Ramsey.xId n K.length i c : Int))) ∈ (⟨n * K.length, Ramsey.vdwMultiCons n K⟩ : Formula).cons := by
          simp only [Ramsey.vdwMultiCons, List.mem_append, List.mem_map, List.mem_flatMap, mem_rangeN]
          exact Or.inr ⟨c, ⟨hc'.1, by omega⟩, _, hap, rfl⟩
        exact add_clause_wf hwf s hs _ hmem
    · intro s x hx hs
      simp only [ints, List.mem_map] at hx
      obtain ⟨i, hi, rfl⟩ := hx
      rw [mem_rangeN] at hi
      have hi' : 1 ≤ i ∧ i ≤ n := by omega
      simp only [Int.ofNat_eq_natCast, block_call_row2 0 n K.length i hi', Py.ok_bind, xId_eq_blockId, Int.toNat_natCast]
      have hmem : Con.lin ((rangeN 1 (K.length + 1)).map (fun c => (Ramsey.xId n K.length i c : Int))) .eq 1 ∈
          (⟨n * K.length, Ramsey.vdwMultiCons n K⟩ : Formula).cons := by
        simp only [Ramsey.vdwMultiCons, List.mem_append, List.mem_map, mem_rangeN]
        exact Or.inl ⟨i, ⟨hi'.1, by omega⟩, rfl⟩
      exact cardinality_eq_wf hwf s hs _ 1 hmem


/-- **the two-colour van der Waerden formula of the source** — on the generated definition: `N` variables (variable `i`
is the colour of `i`), and the satisfying assignments (abstract constraints, CNF, OPB) are exactly the colourings of
`1..N` without a `k1`-progression of the first colour and without a `k2`-progression of the second -/
theorem gen_vdw2_holds_iff (N k1 k2 : Nat) (h1 : 1 ≤ k1) (h2 : 1 ≤ k2) :
    ∃ s : FState, VanDerWaerden (N : Int) (k1 : Int) (k2 : Int) [] = Except.ok s ∧ s.numvar = (N : Int) ∧
      ∀ α, ((formulaOf s).holds α = true ↔ NoMonoAP2 N k1 false α ∧ NoMonoAP2 N k2 true α) ∧
        ((formulaOf s).toCNF.holds α = true ↔ NoMonoAP2 N k1 false α ∧ NoMonoAP2 N k2 true α) ∧
        ((formulaOf s).toOPB.holds α = true ↔ NoMonoAP2 N k1 false α ∧ NoMonoAP2 N k2 true α) := by
  have hm := vdw2_eq N k1 k2 h1 h2
  refine ⟨stateOf ⟨N, Ramsey.vdw2Cons N k1 k2⟩, ?_, rfl, ?_⟩
  · rw [gen_vdw_eq_model, hm]; rfl
  · intro α
    rw [formulaOf_stateOf]
    exact ⟨vdw2_holds_iff N k1 k2 h1 h2 _ hm α, (vdw2_rendered N k1 k2 h1 h2 _ hm α).1,
      (vdw2_rendered N k1 k2 h1 h2 _ hm α).2⟩

/-- **the multi-colour van der Waerden formula of the source** — on the generated definition: `N·C` variables, and
the satisfying assignments are exactly the encodings of the `C`-colourings of `1..N` in which no colour `c` contains a
progression of length `K[c-1]`; the CNF and OPB renderings have the same satisfying assignments -/
theorem gen_vdwMulti_holds_iff (N k1 k2 : Nat) (ks : List Nat) (hne : ks ≠ []) (h1 : 1 ≤ k1) (h2 : 1 ≤ k2)
    (hks : ∀ x ∈ ks, 1 ≤ x) :
    ∃ s : FState, VanDerWaerden (N : Int) (k1 : Int) (k2 : Int) (ks.map (fun (x : Nat) => (x : Int))) = Except.ok s ∧
      s.numvar = ((N * (ks.length + 2) : Nat) : Int) ∧
      ∀ α, ((formulaOf s).holds α = true ↔ ∃ χ, Colouring N (ks.length + 2) χ ∧ Encodes N (ks.length + 2) α χ ∧
          NoMonoAP N (k1 :: k2 :: ks) χ) ∧
        (formulaOf s).toCNF.holds α = (formulaOf s).holds α ∧ (formulaOf s).toOPB.holds α = (formulaOf s).holds α := by
  have hm := vdwMulti_eq N k1 k2 ks hne h1 h2 hks
  refine ⟨stateOf ⟨N * (ks.length + 2), Ramsey.vdwMultiCons N (k1 :: k2 :: ks)⟩, ?_, rfl, ?_⟩
  · rw [gen_vdw_eq_model, hm]; rfl
  · intro α
    rw [formulaOf_stateOf]
    exact ⟨vdwMulti_holds_iff N k1 k2 ks hne h1 h2 hks _ hm α, (vdwMulti_rendered N k1 k2 ks hne h1 h2 hks _ hm α).1,
      (vdwMulti_rendered N k1 k2 ks hne h1 h2 hks _ hm α).2⟩

/-- non-vacuity: `VanDerWaerden(3, 2, 2)`: progressions of length 2 in 1..3 -/
example : VanDerWaerden 3 2 2 [] = Except.ok ⟨3, [.clause [1, 2], .clause [2, 3], .clause [1, 3],
    .clause [-1, -2], .clause [-2, -3], .clause [-1, -3]]⟩ := by rw [gen_vdw_eq_model]; rfl


/-! ## RamseyNumber -/

theorem pairLits_eq_pairs (N : Nat) (S : List Nat) :
    Ramsey.pairLits N S = (pairs S).map (fun p => Ramsey.eId N p.1 p.2) := by
  simp [Ramsey.pairLits, ← pairs_eq_combos, List.map_map, Function.comp_def]

/-- a loop adding one constraint per set of an enumeration while the number of variables stays `n` -/
theorem sets_loop (n : Int) (sets : List (List Nat)) (c : List Nat → Con)
    (body : FState → List Int → Except Err FState) (s : FState) (hs : s.numvar = n)
    (hb : ∀ s S, S ∈ sets → s.numvar = n → body s (ints S) = Except.ok (push s (c S))) :
    List.foldlM body s (sets.map ints) = Except.ok { s with cons := s.cons ++ sets.map c } := by
  rw [foldlM_push_nv n _ body (fun S' => c (S'.map Int.toNat)) _ s hs]
  · simp [List.map_map, Function.comp_def, ints]
  · intro s x hx hs
    simp only [List.mem_map] at hx
    obtain ⟨S, hS, rfl⟩ := hx
    rw [hb s S hS hs]
    simp [List.map_map, Function.comp_def, ints]

/-- the literals `e(u, v)` for the pairs of a vertex set, through the translated `__call__` of the word group -/
theorem ramsey_pairs_call (n : Nat) {S : List Nat} {m : Nat} (hS : S ∈ combos (rangeN 1 (n + 1)) m) :
    ∀ z ∈ (pairs S).map (fun p => ((p.1 : Int), (p.2 : Int))),
      WordOfIndicesVariables.call (wordSelf 0 n 2 "combinations" (combosSeqs n 2)) [some z.1, some z.2] =
        Except.ok (Sum.inl ((Ramsey.eId n z.1.toNat z.2.toNat : Nat) : Int)) := by
  intro z hz
  simp only [List.mem_map] at hz
  obtain ⟨p, hp, rfl⟩ := hz
  obtain ⟨hSs, _⟩ := mem_vertexSets.1 hS
  have hp2 : [p.1, p.2] ∈ combos S 2 := by
    rw [← pairs_eq_combos]; exact List.mem_map.2 ⟨p, hp, rfl⟩
  obtain ⟨u, v, huv, hu, hv, hlt⟩ := (combos_two_of_sorted hSs.1 _).1 hp2
  have h1 : p.1 = u := by simpa using (List.cons.inj huv).1
  have h2 : p.2 = v := by simpa using (List.cons.inj (List.cons.inj huv).2).1
  have hmem : [p.1, p.2] ∈ combosSeqs n 2 := by
    rw [h1, h2]; exact mem_pairs.2 ⟨(hSs.2 u hu).1, hlt, (hSs.2 v hv).2⟩
  have := word_call_word 0 (n : Int) 2 "combinations" (pairs_nodup n) [p.1, p.2] (by simp) hmem
  simp only [natPat, List.map_cons, List.map_nil] at this
  simp only [this, Int.toNat_natCast, Ramsey.eId, Nat.zero_add]

/-- **`RamseyNumber` of the source is `Fam.Ramsey.ramseyNumber` of the model** for all integers: the same ValueError
or one variable per pair (the translated `new_combinations(N, 2)`), a positive clause per `s`-set and a negative clause
per `k`-set, the literals found through the translated word group -/
theorem gen_ramsey_eq_model (s k N : Int) :
    RamseyNumber s k N = (Ramsey.ramseyNumber s k N).map stateOf := by
  unfold RamseyNumber
  simp only [gen_non_negative_int_eq, gen_positive_int_eq]
  by_cases hN : N < 0
  · simp [hN, ramsey_err s k N (Or.inl hN)]
  by_cases h1 : s < 1
  · simp [hN, h1, ramsey_err s k N (Or.inr (Or.inl h1))]
  by_cases h2 : k < 1
  · simp [hN, h1, h2, ramsey_err s k N (Or.inr (Or.inr h2))]
  obtain ⟨n, rfl⟩ := Int.eq_ofNat_of_zero_le (by omega : 0 ≤ N)
  obtain ⟨a, rfl⟩ := Int.eq_ofNat_of_zero_le (by omega : 0 ≤ s)
  obtain ⟨b, rfl⟩ := Int.eq_ofNat_of_zero_le (by omega : 0 ≤ k)
  have ha : 1 ≤ a := by omega
  have hb : 1 ≤ b := by omega
  simp only [hN, h1, h2, if_false, Py.ok_bind, ramsey_eq a b n ha hb, Py.map_ok]
  have h2' : ((2 : Int)) = ((2 : Nat) : Int) := rfl
  rw [h2', new_combinations_eq PyF.empty 0 rfl n 2]
  simp only [Py.ok_bind, Py.itertoolsR_nonneg _ (Int.natCast_nonneg _), Int.toNat_natCast, range_toList_nat, ints,
    combos_map, Nat.cast_ofNat]
  have hwf := ramsey_wf a b n
  have hnv : ((0 + (combosSeqs n 2).length : Nat) : Int) = (((combosSeqs n 2).length : Nat) : Int) := by simp
  rw [sets_loop _ (combos (rangeN 1 (n + 1)) a) (fun S => Con.clause ((Ramsey.pairLits n S).map (fun (e : Nat) => (e : Int))))
    _ _ hnv, Py.ok_bind]
  · rw [sets_loop _ (combos (rangeN 1 (n + 1)) b)
      (fun S => Con.clause ((Ramsey.pairLits n S).map (fun (e : Nat) => -(e : Int)))) _ _ hnv, Py.ok_bind]
    · simp [stateOf, PyF.empty, Ramsey.ramseyCons]
    · intro s S hS hs
      rw [combos2_eq_pairs, ints, pairs_map]
      rw [mapM_ok _ (fun z => -((Ramsey.eId n z.1.toNat z.2.toNat : Nat) : Int)) _ (by
        intro z hz
        simp only [ramsey_pairs_call n hS z hz, Py.ok_bind])]
      simp only [Py.ok_bind, List.map_map, Function.comp_def, Int.ofNat_eq_natCast, Int.toNat_natCast]
      have hmem : Con.clause ((Ramsey.pairLits n S).map (fun (e : Nat) => -(e : Int))) ∈
          (⟨(combosSeqs n 2).length, Ramsey.ramseyCons a b n⟩ : Formula).cons := by
        simp only [Ramsey.ramseyCons, List.mem_append, List.mem_map]
        exact Or.inr ⟨S, hS, rfl⟩
      have := add_clause_wf hwf s hs _ hmem
      simpa [pairLits_eq_pairs, List.map_map, Function.comp_def] using this
  · intro s S hS hs
    rw [combos2_eq_pairs, ints, pairs_map]
    rw [mapM_ok _ (fun z => Sum.inl ((Ramsey.eId n z.1.toNat z.2.toNat : Nat) : Int)) _ (by
      intro z hz
      simp only [ramsey_pairs_call n hS z hz, Py.ok_bind])]
    simp only [Py.ok_bind, List.map_map, Function.comp_def, Int.ofNat_eq_natCast, Int.toNat_natCast]
    have hl : (List.map (fun (x : Nat × Nat) => (Sum.inl ((Ramsey.eId n x.1 x.2 : Nat) : Int) : Sum Int (List Int))) (pairs S)) =
        ((Ramsey.pairLits n S).map (fun (e : Nat) => (e : Int))).map Sum.inl := by
      simp [pairLits_eq_pairs, List.map_map, Function.comp_def]
    rw [hl, lits_inl, Py.ok_bind]
    have hmem : Con.clause ((Ramsey.pairLits n S).map (fun (e : Nat) => (e : Int))) ∈
        (⟨(combosSeqs n 2).length, Ramsey.ramseyCons a b n⟩ : Formula).cons := by
      simp only [Ramsey.ramseyCons, List.mem_append, List.mem_map]
      exact Or.inl ⟨S, hS, rfl⟩
    exact add_clause_wf hwf s hs _ hmem


/-- **the Ramsey formula of the source encodes the graphs on `N` vertices without independent set of size `s` and
without clique of size `k`** — on the generated definition: `N(N-1)/2` variables (one per pair, the identifier of
`{u,v}` is `eId`), and an assignment satisfies the formula (abstract constraints, CNF, OPB) iff the graph it encodes has
neither -/
theorem gen_ramsey_holds_iff (s k N : Nat) (hs : 1 ≤ s) (hk : 1 ≤ k) :
    ∃ st : FState, RamseyNumber (s : Int) (k : Int) (N : Int) = Except.ok st ∧
      st.numvar = ((N * (N - 1) / 2 : Nat) : Int) ∧
      ∀ α, ((formulaOf st).holds α = true ↔ NoIndepSet N s α ∧ NoClique N k α) ∧
        ((formulaOf st).toCNF.holds α = true ↔ NoIndepSet N s α ∧ NoClique N k α) ∧
        ((formulaOf st).toOPB.holds α = true ↔ NoIndepSet N s α ∧ NoClique N k α) := by
  have hm := ramsey_eq s k N hs hk
  refine ⟨stateOf ⟨(combosSeqs N 2).length, Ramsey.ramseyCons s k N⟩, ?_, ?_, ?_⟩
  · rw [gen_ramsey_eq_model, hm]; rfl
  · have := (ramsey_nvars_wf s k N hs hk _ hm).1
    simp only [stateOf] at this ⊢
    exact_mod_cast this
  · intro α
    rw [formulaOf_stateOf]
    exact ⟨ramsey_holds_iff s k N hs hk _ hm α, (ramsey_rendered s k N hs hk _ hm α).1,
      (ramsey_rendered s k N hs hk _ hm α).2⟩

/-- non-vacuity: `RamseyNumber(2, 2, 3)`: three pairs, each as a positive and as a negative unit clause -/
example : RamseyNumber 2 2 3 = Except.ok ⟨3, [.clause [1], .clause [2], .clause [3],
    .clause [-1], .clause [-2], .clause [-3]]⟩ := by rw [gen_ramsey_eq_model]; rfl

end Cnfgen.C03
