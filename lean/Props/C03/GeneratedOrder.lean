/-
C03 — `GraphOrderingPrinciple` and `OrderingPrinciple` as TRANSLATED from cnfgen/families/ordering.py are `Fam.Ordering.gop`
/ `op` of the model, for all four flags and every Knuth variant.  The model's closed forms (`permId`, `combId`, `perm3`,
`comb3`, `comb2`) are proved equal to the itertools enumerations of the translated word groups (Lemmas/GenOrderIter.lean).
-/
import Lemmas.GenFamOrder
import Lemmas.GraphInv
import Lemmas.GraphBuildClosed
import Props.C03.GeneratedPeb
import Props.C03.Order
set_option linter.unusedSimpArgs false
namespace Cnfgen.C03
open Cnfgen Cnfgen.Vars Cnfgen.PyGen Cnfgen.GenVars Cnfgen.Fam Cnfgen.PyF Cnfgen.GenFam Cnfgen.C11 Cnfgen.Fam.Ordering
open Cnfgen.C01 (stateOf formulaOf formulaOf_stateOf gen_non_negative_int_eq)
open Cnfgen.GenOrderIter

theorem graph_neighbors (G : SimpleG) (v : Nat) (hv : 1 ≤ v ∧ v ≤ G.n) :
    (absGraph G).neighbors (v : Int) = Except.ok (ints (G.nbrs v)) := by
  have h : (1 : Int) ≤ (v : Int) ∧ (v : Int) ≤ (G.n : Int) := by omega
  have h' : ¬ (G.n < v) := by omega
  simp [absGraph, SimpleG.neighbors, SimpleG.nbrs, h, h', ints]

theorem gen_gop_smart (G : SimpleG) (hG : NbrsOK G) (total plant : Bool) (knuth : Int) :
    GraphOrderingPrinciple (absGraph G) total true plant knuth =
      Except.ok (stateOf (gop G total true plant knuth)) := by
  unfold GraphOrderingPrinciple
  have hn : (absGraph G).number_of_vertices = (G.n : Int) := rfl
  simp only [hn, if_true]
  have h2 : (2 : Int) = ((2 : Nat) : Int) := rfl
  have h3 : (3 : Int) = ((3 : Nat) : Int) := rfl
  rw [h2, new_combinations_eq PyF.empty 0 rfl G.n 2]
  simp only [Py.ok_bind]
  have hwf := gop_wf G hG total true plant knuth
  have hlen : (combosSeqs G.n 2).length = G.n * (G.n - 1) / 2 := by
    have := FamRamsey.two_mul_length_pairs G.n; omega
  have hnv : ((0 + (combosSeqs G.n 2).length : Nat) : Int) = (((gop G total true plant knuth).nvars : Nat) : Int) := by
    rw [gop_smart_nvars, hlen, Nat.zero_add]
  rw [range_toList_nat]
  -- non-minimality
  rw [foldlM_pushAll_nv _ (ints (rangeN 1 (G.n + 1))) _
    (fun v => if (v.toNat == G.n && plant) = true then [] else [Con.clause (nonminClause G true v.toNat)]) _ _ hnv]
  · rw [Py.ok_bind, h3, Py.itertoolsR_nonneg _ (Int.natCast_nonneg _), Py.ok_bind, Int.toNat_natCast]
    rw [show combos (ints (rangeN 1 (G.n + 1))) 3 = (combosSeqs G.n 3).map ints from combos_map _ _ _,
      combosSeqs_three_eq, List.map_map]
    -- transitivity (one third of the instances)
    rw [foldlM_pushAll_nv _ _ _ (fun (t : List Int) =>
      [Con.clause [Xs G.n (t.getD 0 0).toNat (t.getD 1 0).toNat, Xs G.n (t.getD 1 0).toNat (t.getD 2 0).toNat,
          - Xs G.n (t.getD 0 0).toNat (t.getD 2 0).toNat],
       Con.clause [- Xs G.n (t.getD 0 0).toNat (t.getD 1 0).toNat, - Xs G.n (t.getD 1 0).toNat (t.getD 2 0).toNat,
          Xs G.n (t.getD 0 0).toNat (t.getD 2 0).toNat]]) _ _ hnv]
    · simp only [stateOf, gop, if_true, PyF.empty, Py.ok_bind, Py.map_ok, List.nil_append, nonmin, transSmart,
        List.flatMap_map, ints, rangeN_eq_verts, flatMap_ite_nil, Function.comp_def, List.map_cons, List.map_nil,
        List.getD_cons_zero, List.getD_cons_succ, Int.toNat_natCast, Int.ofNat_eq_natCast, hlen, Nat.zero_add]
    · intro s x hx hs
      simp only [List.mem_map, Function.comp] at hx
      obtain ⟨⟨a, b, c⟩, ht, rfl⟩ := hx
      obtain ⟨ha1, hab, hbc, hc2⟩ := mem_comb3.1 ht
      simp only [ints, List.map_cons, List.map_nil, Py.unpack3, Py.ok_bind, Int.ofNat_eq_natCast,
        comb_call G.n a b ⟨ha1, hab, by omega⟩, comb_call G.n b c ⟨by omega, hbc, hc2⟩,
        comb_call G.n a c ⟨ha1, by omega, hc2⟩,
        lits_three, List.getD_cons_zero, List.getD_cons_succ, Int.toNat_natCast]
      have hm1 : Con.clause [Xs G.n a b, Xs G.n b c, - Xs G.n a c] ∈ (gop G total true plant knuth).cons := by
        simp only [gop, if_true, List.mem_append, transSmart, List.mem_flatMap]
        exact Or.inr ⟨(a, b, c), ht, by simp⟩
      have hm2 : Con.clause [- Xs G.n a b, - Xs G.n b c, Xs G.n a c] ∈ (gop G total true plant knuth).cons := by
        simp only [gop, if_true, List.mem_append, transSmart, List.mem_flatMap]
        exact Or.inr ⟨(a, b, c), ht, by simp⟩
      rw [add_clause_checked s [Xs G.n a b, Xs G.n b c, - Xs G.n a c] (lits_ok_of_wf hwf hm1 s hs), Py.ok_bind,
        add_clause_checked _ [- Xs G.n a b, - Xs G.n b c, Xs G.n a c]
          (lits_ok_of_wf hwf hm2 _ (by simpa [push] using hs)), Py.ok_bind]
      simp [push]
  · intro s x hx hs
    simp only [ints, List.mem_map] at hx
    obtain ⟨v, hv, rfl⟩ := hx
    rw [FamIter.mem_rangeN] at hv
    have hv' : 1 ≤ v ∧ v ≤ G.n := by omega
    simp only [Int.ofNat_eq_natCast, Int.toNat_natCast]
    by_cases hp : v = G.n ∧ plant = true
    · have hc : ((v : Int) = (G.n : Int)) ∧ plant = true := ⟨by omega, hp.2⟩
      rw [if_pos hc]
      simp [hp.1, hp.2]
    · have hc : ¬ (((v : Int) = (G.n : Int)) ∧ plant = true) := by
        intro h; exact hp ⟨by omega, h.2⟩
      have hb : ¬ ((v == G.n && plant) = true) := by
        simpa [Bool.and_eq_true, beq_iff_eq] using hp
      rw [if_neg hc, if_neg hb, graph_neighbors G v hv', Py.ok_bind]
      rw [smart_clause_loop G.n v hv' (G.nbrs v) (fun u hu => hG v hv'.1 hv'.2 u hu) _ (by intro c u; rfl) [],
        Py.ok_bind, Py.ok_bind, List.nil_append, lits_inl' , Py.ok_bind]
      have hm : Con.clause (nonminClause G true v) ∈ (gop G total true plant knuth).cons := by
        simp only [gop, if_true, List.mem_append, nonmin, List.mem_map, List.mem_filter, mem_verts]
        exact Or.inl ⟨v, ⟨hv', by simp only [Bool.not_eq_true'] ; exact Bool.eq_false_iff.2 hb⟩, rfl⟩
      have := add_clause_wf hwf s hs _ hm
      simpa [nonminClause, push] using this

theorem knuthKeep_iff (knuth : Int) (a b c : Nat) :
    knuthKeep knuth a b c = true ↔
      ¬ (knuth = 2 ∧ (((b : Int) < (a : Int)) ∨ ((b : Int) < (c : Int)))) ∧
      ¬ (knuth = 3 ∧ (((c : Int) < (a : Int)) ∨ ((c : Int) < (b : Int)))) := by
  simp only [knuthKeep, Bool.and_eq_true, Bool.not_eq_true', Bool.and_eq_false_iff, beq_eq_false_iff_ne,
    Bool.or_eq_false_iff, decide_eq_false_iff_not, Int.ofNat_lt]
  constructor
  · rintro ⟨h1, h2⟩
    refine ⟨?_, ?_⟩
    · rintro ⟨hk, hor⟩
      rcases h1 with h | h
      · exact h hk
      · rcases hor with h' | h'
        · exact h.1 h'
        · exact h.2 h'
    · rintro ⟨hk, hor⟩
      rcases h2 with h | h
      · exact h hk
      · rcases hor with h' | h'
        · exact h.1 h'
        · exact h.2 h'
  · rintro ⟨h1, h2⟩
    refine ⟨?_, ?_⟩
    · by_cases hk : knuth = 2
      · right; exact ⟨fun h => h1 ⟨hk, Or.inl h⟩, fun h => h1 ⟨hk, Or.inr h⟩⟩
      · left; exact hk
    · by_cases hk : knuth = 3
      · right; exact ⟨fun h => h2 ⟨hk, Or.inl h⟩, fun h => h2 ⟨hk, Or.inr h⟩⟩
      · left; exact hk

theorem gen_gop_plain (G : SimpleG) (hG : NbrsOK G) (total plant : Bool) (knuth : Int) :
    GraphOrderingPrinciple (absGraph G) total false plant knuth =
      Except.ok (stateOf (gop G total false plant knuth)) := by
  unfold GraphOrderingPrinciple
  have hn : (absGraph G).number_of_vertices = (G.n : Int) := rfl
  simp only [hn, Bool.false_eq_true, if_false]
  have hnp := new_permutations_eq PyF.empty 0 rfl G.n 2
  have hcall : ∀ u v, 1 ≤ u ∧ u ≤ G.n → 1 ≤ v ∧ v ≤ G.n → u ≠ v →
      WordOfIndicesVariables.call (wordSelf 0 (G.n : Int) 2 "permutations" (permsSeqs G.n 2))
        [some (u : Int), some (v : Int)] = Except.ok (Sum.inl (X G.n u v)) := by
    intro u v hu hv hne
    have := perm_call G.n u v hu hv hne
    simpa only [Nat.cast_ofNat] using this
  simp only [Nat.cast_ofNat] at hnp
  rw [hnp]
  simp only [Py.ok_bind]
  have hwf := gop_wf G hG total false plant knuth
  have hnv : ((0 + (permsSeqs G.n 2).length : Nat) : Int) = (((gop G total false plant knuth).nvars : Nat) : Int) := by
    rw [gop_nvars, length_permsSeqs_two, Nat.zero_add]
  rw [range_toList_nat]
  -- non-minimality
  rw [foldlM_pushAll_nv _ (ints (rangeN 1 (G.n + 1))) _
    (fun v => if (v.toNat == G.n && plant) = true then [] else [Con.clause (nonminClause G false v.toNat)]) _ _ hnv]
  · rw [Py.ok_bind, Py.itertoolsR_nonneg _ (by omega), Py.ok_bind]
    have h3 : (3 : Int).toNat = 3 := rfl
    rw [h3, show permsK 3 (ints (rangeN 1 (G.n + 1))) = (permsSeqs G.n 3).map ints from permsK_map _ _ _,
      permsSeqs_three_eq, List.map_map]
    -- transitivity
    rw [foldlM_pushAll_nv _ _ _ (fun (t : List Int) =>
      if knuthKeep knuth (t.getD 0 0).toNat (t.getD 1 0).toNat (t.getD 2 0).toNat = true then
        [Con.clause [- X G.n (t.getD 0 0).toNat (t.getD 1 0).toNat, - X G.n (t.getD 1 0).toNat (t.getD 2 0).toNat,
          X G.n (t.getD 0 0).toNat (t.getD 2 0).toNat]]
      else []) _ _ hnv]
    · rw [Py.ok_bind, combos2_eq_pairs, ints, pairs_map, pairs_verts]
      -- antisymmetry
      rw [foldlM_pushAll_nv _ _ _ (fun (p : Int × Int) =>
        [Con.clause [- X G.n p.1.toNat p.2.toNat, - X G.n p.2.toNat p.1.toNat]]) _ _ hnv]
      · rw [Py.ok_bind]
        cases total
        · simp only [Bool.false_eq_true, if_false, Py.ok_bind, stateOf, gop, PyF.empty, List.nil_append, nonmin,
            Fam.Ordering.trans, antisym, List.flatMap_map, ints, rangeN_eq_verts, flatMap_ite_nil, flatMap_ite_keep,
            Function.comp_def, List.map_cons, List.map_nil, List.getD_cons_zero, List.getD_cons_succ, Int.toNat_natCast,
            Int.ofNat_eq_natCast, length_permsSeqs_two, Nat.zero_add, List.append_nil, flatMap_single, List.map_map]
        · simp only [if_true]
          -- totality
          rw [foldlM_pushAll_nv _ _ _ (fun (p : Int × Int) =>
            [Con.clause [X G.n p.1.toNat p.2.toNat, X G.n p.2.toNat p.1.toNat]]) _ _ hnv]
          · simp only [Bool.false_eq_true, if_false, if_true, Py.ok_bind, stateOf, gop, PyF.empty, List.nil_append, nonmin,
              Fam.Ordering.trans, antisym, totality, List.flatMap_map, ints, rangeN_eq_verts, flatMap_ite_nil,
              flatMap_ite_keep, Function.comp_def, List.map_cons, List.map_nil, List.getD_cons_zero, List.getD_cons_succ,
              Int.toNat_natCast, Int.ofNat_eq_natCast, length_permsSeqs_two, Nat.zero_add, List.append_nil, flatMap_single,
              List.map_map, List.append_assoc]
          · intro s x hx hs
            simp only [List.mem_map] at hx
            obtain ⟨⟨a, b⟩, hp, rfl⟩ := hx
            obtain ⟨ha, hab, hb⟩ := mem_comb2.1 hp
            simp only [Int.ofNat_eq_natCast, hcall a b ⟨ha, by omega⟩ ⟨by omega, hb⟩ (by omega),
              hcall b a ⟨by omega, hb⟩ ⟨ha, by omega⟩ (by omega), Py.ok_bind, Int.toNat_natCast, lits_two]
            have hm : Con.clause [X G.n a b, X G.n b a] ∈ (gop G true false plant knuth).cons := by
              simp only [gop, Bool.false_eq_true, if_false, if_true, List.mem_append, totality, List.mem_map]
              exact Or.inr ⟨(a, b), hp, rfl⟩
            rw [add_clause_checked s [X G.n a b, X G.n b a] (lits_ok_of_wf hwf hm s hs), Py.ok_bind]
            simp [push]
      · intro s x hx hs
        simp only [List.mem_map] at hx
        obtain ⟨⟨a, b⟩, hp, rfl⟩ := hx
        obtain ⟨ha, hab, hb⟩ := mem_comb2.1 hp
        simp only [Int.ofNat_eq_natCast, hcall a b ⟨ha, by omega⟩ ⟨by omega, hb⟩ (by omega),
          hcall b a ⟨by omega, hb⟩ ⟨ha, by omega⟩ (by omega), Py.ok_bind, Int.toNat_natCast]
        have hm : Con.clause [- X G.n a b, - X G.n b a] ∈ (gop G total false plant knuth).cons := by
          simp only [gop, Bool.false_eq_true, if_false, List.mem_append, antisym, List.mem_map]
          exact Or.inl (Or.inr ⟨(a, b), hp, rfl⟩)
        rw [add_clause_checked s [- X G.n a b, - X G.n b a] (lits_ok_of_wf hwf hm s hs), Py.ok_bind]
        simp [push]
    · intro s x hx hs
      simp only [List.mem_map, Function.comp] at hx
      obtain ⟨⟨a, b, c⟩, ht, rfl⟩ := hx
      obtain ⟨ha, hb, hc, hab, hac, hbc⟩ := mem_perm3.1 ht
      simp only [ints, List.map_cons, List.map_nil, Py.unpack3, Py.ok_bind, Int.ofNat_eq_natCast,
        List.getD_cons_zero, List.getD_cons_succ, Int.toNat_natCast]
      have hk := knuthKeep_iff knuth a b c
      by_cases hkeep : knuthKeep knuth a b c = true
      · obtain ⟨hk2, hk3⟩ := hk.1 hkeep
        rw [if_neg hk2, if_neg hk3, if_pos hkeep]
        simp only [hcall a b ha hb hab, hcall b c hb hc hbc, hcall a c ha hc hac, Py.ok_bind, lits_three]
        have hm : Con.clause [- X G.n a b, - X G.n b c, X G.n a c] ∈ (gop G total false plant knuth).cons := by
          simp only [gop, Bool.false_eq_true, if_false, List.mem_append, Fam.Ordering.trans, List.mem_map,
            List.mem_filter]
          exact Or.inl (Or.inl (Or.inr ⟨(a, b, c), ⟨ht, hkeep⟩, rfl⟩))
        rw [add_clause_checked s [- X G.n a b, - X G.n b c, X G.n a c] (lits_ok_of_wf hwf hm s hs), Py.ok_bind]
        simp [push]
      · rw [if_neg hkeep]
        by_cases hk2 : knuth = 2 ∧ (((b : Int) < (a : Int)) ∨ ((b : Int) < (c : Int)))
        · rw [if_pos hk2]; simp
        · rw [if_neg hk2]
          have hk3 : knuth = 3 ∧ (((c : Int) < (a : Int)) ∨ ((c : Int) < (b : Int))) := by
            by_contra h3
            exact hkeep (hk.2 ⟨hk2, h3⟩)
          rw [if_pos hk3]; simp
  · intro s x hx hs
    simp only [ints, List.mem_map] at hx
    obtain ⟨v, hv, rfl⟩ := hx
    rw [FamIter.mem_rangeN] at hv
    have hv' : 1 ≤ v ∧ v ≤ G.n := by omega
    simp only [Int.ofNat_eq_natCast, Int.toNat_natCast]
    by_cases hp : v = G.n ∧ plant = true
    · have hc : ((v : Int) = (G.n : Int)) ∧ plant = true := ⟨by omega, hp.2⟩
      rw [if_pos hc]
      simp [hp.1, hp.2]
    · have hc : ¬ (((v : Int) = (G.n : Int)) ∧ plant = true) := by
        intro h; exact hp ⟨by omega, h.2⟩
      have hb : ¬ ((v == G.n && plant) = true) := by
        simpa [Bool.and_eq_true, beq_iff_eq] using hp
      rw [if_neg hc, if_neg hb, graph_neighbors G v hv', Py.ok_bind]
      rw [mapM_ok _ (fun z => Sum.inl (X G.n z.toNat v)) (ints (G.nbrs v)) (by
        intro z hz
        simp only [ints, List.mem_map] at hz
        obtain ⟨u, hu, rfl⟩ := hz
        have := hG v hv'.1 hv'.2 u hu
        simp only [Int.ofNat_eq_natCast, hcall u v ⟨this.1, this.2.1⟩ hv' this.2.2, Py.ok_bind, Int.toNat_natCast])]
      simp only [Py.ok_bind, ints, List.map_map, Function.comp_def, Int.ofNat_eq_natCast, Int.toNat_natCast]
      rw [lits_inl', Py.ok_bind]
      have hm : Con.clause (nonminClause G false v) ∈ (gop G total false plant knuth).cons := by
        simp only [gop, Bool.false_eq_true, if_false, List.mem_append, nonmin, List.mem_map, List.mem_filter, mem_verts]
        exact Or.inl (Or.inl (Or.inl ⟨v, ⟨hv', by simp only [Bool.not_eq_true'] ; exact Bool.eq_false_iff.2 hb⟩, rfl⟩))
      have := add_clause_wf hwf s hs _ hm
      simpa [nonminClause, push] using this


/-- **`GraphOrderingPrinciple` of the source is `Fam.Ordering.gop` of the model**, for every simple graph object whose
neighbour lists hold vertices of the graph other than the vertex itself (what `Graph` maintains: C16) and for all values
of `total`, `smart`, `plant`, `knuth` -/
theorem gen_gop_eq_model (G : SimpleG) (hG : NbrsOK G) (total smart plant : Bool) (knuth : Int) :
    GraphOrderingPrinciple (absGraph G) total smart plant knuth =
      Except.ok (stateOf (gop G total smart plant knuth)) := by
  cases smart
  · exact gen_gop_plain G hG total plant knuth
  · exact gen_gop_smart G hG total plant knuth

/-- `gop` only reads the number of vertices and the neighbour lists of the vertices -/
theorem gop_congr (G G' : SimpleG) (hn : G.n = G'.n) (hnb : ∀ v, 1 ≤ v → v ≤ G.n → G.nbrs v = G'.nbrs v)
    (total smart plant : Bool) (knuth : Int) :
    gop G total smart plant knuth = gop G' total smart plant knuth := by
  have hnm : ∀ sm, nonmin G sm plant = nonmin G' sm plant := by
    intro sm
    simp only [nonmin, ← hn]
    apply List.map_congr_left
    intro v hv
    have hv' := mem_verts.1 (List.mem_filter.1 hv).1
    simp only [nonminClause, hnb v hv'.1 hv'.2, ← hn]
  simp only [gop, hnm, ← hn]

/-- the graph `Graph.complete_graph(n)` builds (model of C15): every vertex is adjacent to all the others -/
theorem completeGraph_nbrs (n : Nat) :
    ∃ G, GBuild.completeGraph (n : Int) = Except.ok G ∧ G.n = n ∧ SimpleG.Inv G ∧
      ∀ v, 1 ≤ v → v ≤ n → G.nbrs v = (verts n).filter (· != v) := by
  have hneg : ¬ ((n : Int) < 0) := by omega
  obtain ⟨G, hG, hGn, _, _, hmem⟩ := SimpleG.ofEdges_spec_gb n (GBuild.completeCalls n)
    (fun e he => (GBuild.mem_completeCalls n e).1 he) (GBuild.nodup_completeCalls n)
  have hinv := SimpleG.inv_ofEdges hG
  refine ⟨G, by simp [GBuild.completeGraph, hneg, hG], hGn, hinv, ?_⟩
  intro v hv1 hv2
  apply SortedLt.ext (hinv.nbrs_sorted v) ((verts_sorted n).filter _)
  intro x
  rw [hinv.mem_nbrs, hmem, GBuild.mem_completeCalls, GBuild.mem_completeCalls, List.mem_filter, mem_verts]
  simp only [bne_iff_ne, ne_eq]
  omega

/-- **`OrderingPrinciple` of the source is `Fam.Ordering.op` of the model** for every integer `size` (negative: the same
ValueError) and all flags: the complete graph comes from the model of `Graph.complete_graph` (C15), whose neighbour
lists are those of the closed form `completeG` -/
theorem gen_op_eq_model (size : Int) (total smart plant : Bool) (knuth : Int) :
    OrderingPrinciple size total smart plant knuth = (op size total smart plant knuth).map stateOf := by
  unfold OrderingPrinciple
  simp only [gen_non_negative_int_eq]
  by_cases hs : size < 0
  · simp [hs, op]
  · obtain ⟨n, rfl⟩ := Int.eq_ofNat_of_zero_le (by omega : 0 ≤ size)
    obtain ⟨G, hG, hGn, hinv, hnb⟩ := completeGraph_nbrs n
    have hok : NbrsOK G := by
      intro v _ _ u hu
      have r := hinv.nbrs_range hu
      exact ⟨r.2.2.1, r.2.2.2.1, fun e => r.2.2.2.2 e.symm⟩
    simp only [hs, if_false, Py.ok_bind, absCompleteGraph, hG, Py.map_ok, gen_gop_eq_model G hok, op_eq]
    congr 2
    apply gop_congr G (completeG n) hGn
    intro v h1 h2
    rw [hnb v h1 (by omega), completeG_nbrs n v h1 (by omega)]

/-- **the graph ordering principle of the source is unsatisfiable** on every graph object built by `add_edge` (any
history of updates) with at least one vertex — every non-planted variant (plain, total, compact, Knuth 2 and 3), for the
abstract constraints and both renderings; stated on the generated definition -/
theorem gen_gop_unsat (G : SimpleG) (hG : SimpleG.Inv G) (hn : 1 ≤ G.n) (total smart : Bool) (knuth : Int) :
    ∃ s : FState, GraphOrderingPrinciple (absGraph G) total smart false knuth = Except.ok s ∧
      s.numvar = ((if smart then G.n * (G.n - 1) / 2 else G.n * (G.n - 1) : Nat) : Int) ∧
      (¬ ∃ α, (formulaOf s).holds α = true) ∧
      (¬ ∃ α, (formulaOf s).toCNF.holds α = true) ∧ (¬ ∃ α, (formulaOf s).toOPB.holds α = true) := by
  have hok : NbrsOK G := by
    intro v _ _ u hu
    have r := hG.nbrs_range hu
    exact ⟨r.2.2.1, r.2.2.2.1, fun e => r.2.2.2.2 e.symm⟩
  refine ⟨stateOf (gop G total smart false knuth), gen_gop_eq_model G hok total smart false knuth, ?_, ?_, ?_⟩
  · cases smart <;> simp [stateOf, gop]
  · rw [formulaOf_stateOf]
    cases smart
    · exact gop_unsat G hok hn total knuth
    · exact gop_smart_unsat G hok hn total knuth
  · rw [formulaOf_stateOf]
    exact gop_unsat_rendered G hok hn total smart knuth

/-- **`OrderingPrinciple(n)` of the source is unsatisfiable for every `n ≥ 1`**, every non-planted variant — on the
generated definition -/
theorem gen_op_unsat (n : Nat) (hn : 1 ≤ n) (total smart : Bool) (knuth : Int) :
    ∃ s : FState, OrderingPrinciple (n : Int) total smart false knuth = Except.ok s ∧
      (¬ ∃ α, (formulaOf s).holds α = true) ∧
      (¬ ∃ α, (formulaOf s).toCNF.holds α = true) ∧ (¬ ∃ α, (formulaOf s).toOPB.holds α = true) := by
  obtain ⟨F, hF, _, h1, h2, h3⟩ := op_unsat n hn total smart knuth
  refine ⟨stateOf F, by rw [gen_op_eq_model, hF]; rfl, ?_, ?_, ?_⟩ <;> rw [formulaOf_stateOf]
  · exact h1
  · exact h2
  · exact h3

end Cnfgen.C03
