import CnfgenModel.Fam.Ramsey
namespace Cnfgen.C03
open Cnfgen Cnfgen.Fam

theorem placeholder_ptn_nvars (N : Nat) (F : Formula) (h : Ramsey.ptn N = .ok F) : F.nvars = N := by
  simp only [Ramsey.ptn, Ramsey.nonNegInt, bind, Except.bind, pure, Except.pure] at h
  split at h
  · cases h
  · cases h; simp

end Cnfgen.C03
